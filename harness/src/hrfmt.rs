//! A minimal *human-readable* self-describing serde data format (think JSON without the text): values are kept as a
//! tree.  `Serializer::is_human_readable()` / `Deserializer::is_human_readable()` return true, so hand-written
//! Serialize / Deserialize impls that branch on it take their "human readable" path (bincode takes the other one).
//! Used by the `rth` command: round trip of a generator through this format (property C11).
use serde::de::{self, DeserializeSeed, IntoDeserializer, MapAccess, SeqAccess, Visitor};
use serde::ser::{self, Serialize};
use std::fmt;

#[derive(Debug, Clone, PartialEq)]
pub enum V {
    Unit,
    Bool(bool),
    U(u64),
    I(i64),
    Str(String),
    Bytes(Vec<u8>),
    Seq(Vec<V>),
    Map(Vec<(String, V)>),
    Some(Box<V>),
    None,
}

#[derive(Debug)]
pub struct Error(pub String);
impl fmt::Display for Error {
    fn fmt(&self, f: &mut fmt::Formatter) -> fmt::Result {
        write!(f, "{}", self.0)
    }
}
impl std::error::Error for Error {}
impl ser::Error for Error {
    fn custom<T: fmt::Display>(m: T) -> Self {
        Error(m.to_string())
    }
}
impl de::Error for Error {
    fn custom<T: fmt::Display>(m: T) -> Self {
        Error(m.to_string())
    }
}

pub fn to_value<T: Serialize>(t: &T) -> Result<V, Error> {
    t.serialize(Ser)
}
pub fn from_value<'de, T: de::Deserialize<'de>>(v: V) -> Result<T, Error> {
    T::deserialize(De(v))
}

/// canonical text of a value (for printing / comparing)
pub fn show(v: &V) -> String {
    match v {
        V::Unit => "()".into(),
        V::Bool(b) => b.to_string(),
        V::U(u) => u.to_string(),
        V::I(i) => i.to_string(),
        V::Str(s) => format!("{:?}", s),
        V::Bytes(b) => format!("b{:?}", b),
        V::Seq(xs) => format!("[{}]", xs.iter().map(show).collect::<Vec<_>>().join(",")),
        V::Map(kv) => format!("{{{}}}", kv.iter().map(|(k, v)| format!("{}:{}", k, show(v))).collect::<Vec<_>>().join(",")),
        V::Some(x) => format!("Some({})", show(x)),
        V::None => "None".into(),
    }
}

// ------------------------------------------------------------------------------------------------ serializer
pub struct Ser;
pub struct SeqSer(Vec<V>);
pub struct MapSer(Vec<(String, V)>, Option<String>);

impl ser::Serializer for Ser {
    type Ok = V;
    type Error = Error;
    type SerializeSeq = SeqSer;
    type SerializeTuple = SeqSer;
    type SerializeTupleStruct = SeqSer;
    type SerializeTupleVariant = SeqSer;
    type SerializeMap = MapSer;
    type SerializeStruct = MapSer;
    type SerializeStructVariant = MapSer;
    fn is_human_readable(&self) -> bool {
        true
    }
    fn serialize_bool(self, v: bool) -> Result<V, Error> { Ok(V::Bool(v)) }
    fn serialize_i8(self, v: i8) -> Result<V, Error> { Ok(V::I(v as i64)) }
    fn serialize_i16(self, v: i16) -> Result<V, Error> { Ok(V::I(v as i64)) }
    fn serialize_i32(self, v: i32) -> Result<V, Error> { Ok(V::I(v as i64)) }
    fn serialize_i64(self, v: i64) -> Result<V, Error> { Ok(V::I(v)) }
    fn serialize_u8(self, v: u8) -> Result<V, Error> { Ok(V::U(v as u64)) }
    fn serialize_u16(self, v: u16) -> Result<V, Error> { Ok(V::U(v as u64)) }
    fn serialize_u32(self, v: u32) -> Result<V, Error> { Ok(V::U(v as u64)) }
    fn serialize_u64(self, v: u64) -> Result<V, Error> { Ok(V::U(v)) }
    fn serialize_f32(self, _v: f32) -> Result<V, Error> { Err(Error("f32".into())) }
    fn serialize_f64(self, _v: f64) -> Result<V, Error> { Err(Error("f64".into())) }
    fn serialize_char(self, v: char) -> Result<V, Error> { Ok(V::Str(v.to_string())) }
    fn serialize_str(self, v: &str) -> Result<V, Error> { Ok(V::Str(v.to_string())) }
    fn serialize_bytes(self, v: &[u8]) -> Result<V, Error> { Ok(V::Bytes(v.to_vec())) }
    fn serialize_none(self) -> Result<V, Error> { Ok(V::None) }
    fn serialize_some<T: ?Sized + Serialize>(self, v: &T) -> Result<V, Error> { Ok(V::Some(Box::new(v.serialize(Ser)?))) }
    fn serialize_unit(self) -> Result<V, Error> { Ok(V::Unit) }
    fn serialize_unit_struct(self, _n: &'static str) -> Result<V, Error> { Ok(V::Unit) }
    fn serialize_unit_variant(self, _n: &'static str, _i: u32, var: &'static str) -> Result<V, Error> { Ok(V::Str(var.to_string())) }
    fn serialize_newtype_struct<T: ?Sized + Serialize>(self, _n: &'static str, v: &T) -> Result<V, Error> { v.serialize(Ser) }
    fn serialize_newtype_variant<T: ?Sized + Serialize>(self, _n: &'static str, _i: u32, var: &'static str, v: &T) -> Result<V, Error> {
        Ok(V::Map(vec![(var.to_string(), v.serialize(Ser)?)]))
    }
    fn serialize_seq(self, _len: Option<usize>) -> Result<SeqSer, Error> { Ok(SeqSer(vec![])) }
    fn serialize_tuple(self, _len: usize) -> Result<SeqSer, Error> { Ok(SeqSer(vec![])) }
    fn serialize_tuple_struct(self, _n: &'static str, _len: usize) -> Result<SeqSer, Error> { Ok(SeqSer(vec![])) }
    fn serialize_tuple_variant(self, _n: &'static str, _i: u32, _v: &'static str, _len: usize) -> Result<SeqSer, Error> { Ok(SeqSer(vec![])) }
    fn serialize_map(self, _len: Option<usize>) -> Result<MapSer, Error> { Ok(MapSer(vec![], None)) }
    fn serialize_struct(self, _n: &'static str, _len: usize) -> Result<MapSer, Error> { Ok(MapSer(vec![], None)) }
    fn serialize_struct_variant(self, _n: &'static str, _i: u32, _v: &'static str, _len: usize) -> Result<MapSer, Error> { Ok(MapSer(vec![], None)) }
}
impl ser::SerializeSeq for SeqSer {
    type Ok = V;
    type Error = Error;
    fn serialize_element<T: ?Sized + Serialize>(&mut self, v: &T) -> Result<(), Error> { self.0.push(v.serialize(Ser)?); Ok(()) }
    fn end(self) -> Result<V, Error> { Ok(V::Seq(self.0)) }
}
impl ser::SerializeTuple for SeqSer {
    type Ok = V;
    type Error = Error;
    fn serialize_element<T: ?Sized + Serialize>(&mut self, v: &T) -> Result<(), Error> { self.0.push(v.serialize(Ser)?); Ok(()) }
    fn end(self) -> Result<V, Error> { Ok(V::Seq(self.0)) }
}
impl ser::SerializeTupleStruct for SeqSer {
    type Ok = V;
    type Error = Error;
    fn serialize_field<T: ?Sized + Serialize>(&mut self, v: &T) -> Result<(), Error> { self.0.push(v.serialize(Ser)?); Ok(()) }
    fn end(self) -> Result<V, Error> { Ok(V::Seq(self.0)) }
}
impl ser::SerializeTupleVariant for SeqSer {
    type Ok = V;
    type Error = Error;
    fn serialize_field<T: ?Sized + Serialize>(&mut self, v: &T) -> Result<(), Error> { self.0.push(v.serialize(Ser)?); Ok(()) }
    fn end(self) -> Result<V, Error> { Ok(V::Seq(self.0)) }
}
impl ser::SerializeMap for MapSer {
    type Ok = V;
    type Error = Error;
    fn serialize_key<T: ?Sized + Serialize>(&mut self, k: &T) -> Result<(), Error> {
        self.1 = Some(match k.serialize(Ser)? { V::Str(s) => s, other => show(&other) });
        Ok(())
    }
    fn serialize_value<T: ?Sized + Serialize>(&mut self, v: &T) -> Result<(), Error> {
        let k = self.1.take().ok_or_else(|| Error("value without key".into()))?;
        self.0.push((k, v.serialize(Ser)?));
        Ok(())
    }
    fn end(self) -> Result<V, Error> { Ok(V::Map(self.0)) }
}
impl ser::SerializeStruct for MapSer {
    type Ok = V;
    type Error = Error;
    fn serialize_field<T: ?Sized + Serialize>(&mut self, k: &'static str, v: &T) -> Result<(), Error> { self.0.push((k.to_string(), v.serialize(Ser)?)); Ok(()) }
    fn end(self) -> Result<V, Error> { Ok(V::Map(self.0)) }
}
impl ser::SerializeStructVariant for MapSer {
    type Ok = V;
    type Error = Error;
    fn serialize_field<T: ?Sized + Serialize>(&mut self, k: &'static str, v: &T) -> Result<(), Error> { self.0.push((k.to_string(), v.serialize(Ser)?)); Ok(()) }
    fn end(self) -> Result<V, Error> { Ok(V::Map(self.0)) }
}

// ------------------------------------------------------------------------------------------------ deserializer
pub struct De(pub V);
struct SeqDe(std::vec::IntoIter<V>);
struct MapDe(std::vec::IntoIter<(String, V)>, Option<V>);

impl<'de> SeqAccess<'de> for SeqDe {
    type Error = Error;
    fn next_element_seed<T: DeserializeSeed<'de>>(&mut self, seed: T) -> Result<Option<T::Value>, Error> {
        match self.0.next() {
            Some(v) => seed.deserialize(De(v)).map(Some),
            None => Ok(None),
        }
    }
    fn size_hint(&self) -> Option<usize> { Some(self.0.len()) }
}
impl<'de> MapAccess<'de> for MapDe {
    type Error = Error;
    fn next_key_seed<K: DeserializeSeed<'de>>(&mut self, seed: K) -> Result<Option<K::Value>, Error> {
        match self.0.next() {
            Some((k, v)) => { self.1 = Some(v); seed.deserialize(De(V::Str(k))).map(Some) }
            None => Ok(None),
        }
    }
    fn next_value_seed<T: DeserializeSeed<'de>>(&mut self, seed: T) -> Result<T::Value, Error> {
        seed.deserialize(De(self.1.take().ok_or_else(|| Error("value without key".into()))?))
    }
}

macro_rules! de_num {
    ($($m:ident $v:ident $t:ty),*) => { $(
        fn $m<Vi: Visitor<'de>>(self, vis: Vi) -> Result<Vi::Value, Error> {
            match self.0 {
                V::U(u) => vis.$v(u as $t),
                V::I(i) => vis.$v(i as $t),
                other => self_any(other, vis),
            }
        }
    )* };
}
fn self_any<'de, Vi: Visitor<'de>>(v: V, vis: Vi) -> Result<Vi::Value, Error> {
    match v {
        V::Unit => vis.visit_unit(),
        V::Bool(b) => vis.visit_bool(b),
        V::U(u) => vis.visit_u64(u),
        V::I(i) => vis.visit_i64(i),
        V::Str(s) => vis.visit_string(s),
        V::Bytes(b) => vis.visit_byte_buf(b),
        V::Seq(xs) => vis.visit_seq(SeqDe(xs.into_iter())),
        V::Map(kv) => vis.visit_map(MapDe(kv.into_iter(), None)),
        V::Some(x) => vis.visit_some(De(*x)),
        V::None => vis.visit_none(),
    }
}

impl<'de> de::Deserializer<'de> for De {
    type Error = Error;
    fn is_human_readable(&self) -> bool {
        true
    }
    fn deserialize_any<Vi: Visitor<'de>>(self, vis: Vi) -> Result<Vi::Value, Error> { self_any(self.0, vis) }
    de_num!(deserialize_u8 visit_u8 u8, deserialize_u16 visit_u16 u16, deserialize_u32 visit_u32 u32, deserialize_u64 visit_u64 u64,
            deserialize_i8 visit_i8 i8, deserialize_i16 visit_i16 i16, deserialize_i32 visit_i32 i32, deserialize_i64 visit_i64 i64);
    fn deserialize_option<Vi: Visitor<'de>>(self, vis: Vi) -> Result<Vi::Value, Error> {
        match self.0 {
            V::None | V::Unit => vis.visit_none(),
            V::Some(x) => vis.visit_some(De(*x)),
            other => vis.visit_some(De(other)),
        }
    }
    fn deserialize_newtype_struct<Vi: Visitor<'de>>(self, _n: &'static str, vis: Vi) -> Result<Vi::Value, Error> {
        vis.visit_newtype_struct(self)
    }
    fn deserialize_enum<Vi: Visitor<'de>>(self, _n: &'static str, _v: &'static [&'static str], vis: Vi) -> Result<Vi::Value, Error> {
        match self.0 {
            V::Str(s) => vis.visit_enum(s.into_deserializer()),
            _ => Err(Error("enum".into())),
        }
    }
    serde::forward_to_deserialize_any! {
        bool f32 f64 char str string bytes byte_buf unit unit_struct seq tuple tuple_struct map struct identifier ignored_any
    }
}
