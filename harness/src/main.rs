//! rngs_harness — drives the real crates of /repo in-process on an operation script (one
//! command per line on stdin) and prints one canonical line per command.  The Lean
//! `modeldriver` does the same with the model; tools/check.py compares the two streams.
//! Every command runs under `catch_unwind`: a panic is an observable result (`panic`), a
//! scripted source / timer running dry is `blocked`.

use rand_core::block::BlockRngCore;
use rand_core::{RngCore, SeedableRng, TryRngCore};
use rand_hc::Hc128Rng;
use rand_isaac::{Isaac64Rng, IsaacRng};
use rand_jitter::{JitterRng, TimerError};
use rand_xorshift::XorShiftRng;
use rand_xoshiro::*;
use std::fmt;
use std::io::{self, BufRead, Write};
#[cfg(feature = "serde")]
mod hrfmt;
use std::panic::{catch_unwind, panic_any, AssertUnwindSafe};
use std::sync::atomic::{AtomicUsize, Ordering};
use std::sync::Arc;

/// panic payload: a scripted source or timer has no more data
struct Exhausted;

// ---------------------------------------------------------------- scripted byte source

struct ScriptSrc {
    bytes: Vec<u8>,
    pos: usize,
    fail_at: Option<usize>,
    calls: usize,
}

#[derive(Debug)]
struct SrcError(u32);
impl fmt::Display for SrcError {
    fn fmt(&self, f: &mut fmt::Formatter) -> fmt::Result {
        write!(f, "scripted source error {}", self.0)
    }
}

impl TryRngCore for ScriptSrc {
    type Error = SrcError;
    fn try_next_u32(&mut self) -> Result<u32, SrcError> {
        let mut b = [0u8; 4];
        self.try_fill_bytes(&mut b)?;
        Ok(u32::from_le_bytes(b))
    }
    fn try_next_u64(&mut self) -> Result<u64, SrcError> {
        let mut b = [0u8; 8];
        self.try_fill_bytes(&mut b)?;
        Ok(u64::from_le_bytes(b))
    }
    fn try_fill_bytes(&mut self, dst: &mut [u8]) -> Result<(), SrcError> {
        let call = self.calls;
        self.calls += 1;
        if self.fail_at == Some(call) {
            return Err(SrcError(1000 + call as u32));
        }
        if self.pos + dst.len() > self.bytes.len() {
            panic_any(Exhausted);
        }
        dst.copy_from_slice(&self.bytes[self.pos..self.pos + dst.len()]);
        self.pos += dst.len();
        Ok(())
    }
}

/// the same source behind the infallible interface (`from_rng`)
struct Infallible<'a>(&'a mut ScriptSrc);
impl RngCore for Infallible<'_> {
    fn next_u32(&mut self) -> u32 {
        self.0.try_next_u32().expect("scripted source failed in infallible use")
    }
    fn next_u64(&mut self) -> u64 {
        self.0.try_next_u64().expect("scripted source failed in infallible use")
    }
    fn fill_bytes(&mut self, dst: &mut [u8]) {
        self.0.try_fill_bytes(dst).expect("scripted source failed in infallible use")
    }
}

// ---------------------------------------------------------------- scripted timer

struct TimerScript {
    readings: Vec<u64>,
    pos: AtomicUsize,
    /// readings appended later (`tappend`); consulted once `readings` is used up
    extra: std::sync::Mutex<Vec<u64>>,
}
impl TimerScript {
    fn next(&self) -> u64 {
        let i = self.pos.load(Ordering::SeqCst);
        if i < self.readings.len() {
            self.pos.store(i + 1, Ordering::SeqCst);
            return self.readings[i];
        }
        let ex = self.extra.lock().unwrap();
        let k = i - self.readings.len();
        if k >= ex.len() {
            drop(ex);
            panic_any(Exhausted);         // the failed call does not consume a reading
        }
        let v = ex[k];
        drop(ex);
        self.pos.store(i + 1, Ordering::SeqCst);
        v
    }
}

// ---------------------------------------------------------------- per-type capabilities

trait Gen: RngCore + SeedableRng + Clone + fmt::Debug + Send + Sync + 'static {
    const NAME: &'static str;
    fn from_bytes(b: &[u8]) -> Option<Self> {
        let mut seed = Self::Seed::default();
        if seed.as_mut().len() != b.len() {
            return None;
        }
        seed.as_mut().copy_from_slice(b);
        Some(Self::from_seed(seed))
    }
    fn jump_(&mut self, _long: bool) -> bool {
        false
    }
    fn eq_(&self, _o: &Self) -> Option<bool> {
        None
    }
    fn ser_(&self) -> Option<Vec<u8>> {
        None
    }
    fn de_(_b: &[u8]) -> Option<Option<Self>> {
        None
    }
    /// round trip through the human-readable self-describing format (hrfmt): (text of the value, restored generator)
    fn hr_(&self) -> Option<(String, Option<Self>)> {
        None
    }
}

macro_rules! serde_impl {
    () => {
        #[cfg(feature = "serde")]
        fn ser_(&self) -> Option<Vec<u8>> {
            Some(bincode::serialize(self).expect("bincode::serialize"))
        }
        #[cfg(feature = "serde")]
        fn de_(b: &[u8]) -> Option<Option<Self>> {
            Some(bincode::deserialize(b).ok())
        }
        #[cfg(feature = "serde")]
        fn hr_(&self) -> Option<(String, Option<Self>)> {
            match hrfmt::to_value(self) {
                Ok(v) => Some((hrfmt::show(&v), hrfmt::from_value(v).ok())),
                Err(e) => Some((format!("ser-error {}", e), None)),
            }
        }
    };
}

macro_rules! gen_plain {
    ($($t:ident),*) => { $(
        impl Gen for $t {
            const NAME: &'static str = stringify!($t);
            fn eq_(&self, o: &Self) -> Option<bool> { Some(self == o) }
            serde_impl!();
        }
    )* };
}
macro_rules! gen_jump {
    ($($t:ident),*) => { $(
        impl Gen for $t {
            const NAME: &'static str = stringify!($t);
            fn jump_(&mut self, long: bool) -> bool {
                if long { self.long_jump() } else { self.jump() }
                true
            }
            fn eq_(&self, o: &Self) -> Option<bool> { Some(self == o) }
            serde_impl!();
        }
    )* };
}

gen_plain!(SplitMix64, Xoroshiro64Star, Xoroshiro64StarStar, XorShiftRng);
gen_jump!(
    Xoroshiro128Plus, Xoroshiro128PlusPlus, Xoroshiro128StarStar,
    Xoshiro128Plus, Xoshiro128PlusPlus, Xoshiro128StarStar,
    Xoshiro256Plus, Xoshiro256PlusPlus, Xoshiro256StarStar,
    Xoshiro512Plus, Xoshiro512PlusPlus, Xoshiro512StarStar
);

impl Gen for Hc128Rng {
    const NAME: &'static str = "Hc128Rng";
    fn eq_(&self, o: &Self) -> Option<bool> {
        Some(self == o)
    }
}

/// IsaacRng / Isaac64Rng have no `==`; their cores do.  The bincode image of the newtype
/// is the image of the wrapped BlockRng, whose `core` field is public: compare the real
/// cores with the real `PartialEq for IsaacCore`.
impl Gen for IsaacRng {
    const NAME: &'static str = "IsaacRng";
    #[cfg(feature = "serde")]
    fn eq_(&self, o: &Self) -> Option<bool> {
        use rand_core::block::BlockRng;
        use rand_isaac::isaac::IsaacCore;
        let a: BlockRng<IsaacCore> = bincode::deserialize(&bincode::serialize(self).ok()?).ok()?;
        let b: BlockRng<IsaacCore> = bincode::deserialize(&bincode::serialize(o).ok()?).ok()?;
        Some(a.core == b.core)
    }
    serde_impl!();
}
impl Gen for Isaac64Rng {
    const NAME: &'static str = "Isaac64Rng";
    #[cfg(feature = "serde")]
    fn eq_(&self, o: &Self) -> Option<bool> {
        use rand_core::block::BlockRng64;
        use rand_isaac::isaac64::Isaac64Core;
        let a: BlockRng64<Isaac64Core> = bincode::deserialize(&bincode::serialize(self).ok()?).ok()?;
        let b: BlockRng64<Isaac64Core> = bincode::deserialize(&bincode::serialize(o).ok()?).ok()?;
        Some(a.core == b.core)
    }
    serde_impl!();
}

// ---------------------------------------------------------------- slots

macro_rules! for_all_gens {
    ($m:ident) => {
        $m! {
            SplitMix64, Xoroshiro64Star, Xoroshiro64StarStar,
            Xoroshiro128Plus, Xoroshiro128PlusPlus, Xoroshiro128StarStar,
            Xoshiro128Plus, Xoshiro128PlusPlus, Xoshiro128StarStar,
            Xoshiro256Plus, Xoshiro256PlusPlus, Xoshiro256StarStar,
            Xoshiro512Plus, Xoshiro512PlusPlus, Xoshiro512StarStar,
            XorShiftRng, Hc128Rng, IsaacRng, Isaac64Rng
        }
    };
}

macro_rules! define_slot {
    ($($t:ident),*) => {
        #[allow(clippy::large_enum_variant)]
        enum Slot<F> {
            Empty,
            $( $t(Box<$t>), )*
            Src(ScriptSrc),
            Timer(Arc<TimerScript>),
            Jit(Box<JitterRng<F>>, usize),
        }

        /// run `$body` with `$g` bound to the generator in the slot (any of the 19 types)
        macro_rules! with_gen {
            ($slot:expr, $g:ident => $body:expr, else $other:expr) => {
                match $slot {
                    $( Slot::$t($g) => $body, )*
                    _ => $other,
                }
            };
        }

        /// evaluate `$body` (any value) with `$T` bound to the named generator type
        macro_rules! with_kind_plain {
            ($name:expr, $T:ident => $body:expr) => {
                match $name {
                    $( stringify!($t) => { type $T = $t; Some($body) } )*
                    _ => None,
                }
            };
        }

        /// construct a generator of the named kind with `$ctor` (a generic fn over `Gen`)
        macro_rules! with_kind {
            ($name:expr, $T:ident => $body:expr, else $other:expr) => {
                match $name {
                    $( stringify!($t) => { type $T = $t; $body.map(|g| Slot::$t(Box::new(g))) } )*
                    _ => $other,
                }
            };
        }
    };
}
for_all_gens! {define_slot}

enum Made<T> {
    Ok(T),
    Msg(String),
}
impl<T> Made<T> {
    fn map<U>(self, f: impl FnOnce(T) -> U) -> Made<U> {
        match self {
            Made::Ok(t) => Made::Ok(f(t)),
            Made::Msg(m) => Made::Msg(m),
        }
    }
}

fn hex(bytes: &[u8]) -> String {
    if bytes.is_empty() {
        return "-".to_string();
    }
    let mut s = String::with_capacity(bytes.len() * 2);
    for b in bytes {
        s.push_str(&format!("{:02x}", b));
    }
    s
}

fn unhex(s: &str) -> Option<Vec<u8>> {
    if s == "-" {
        return Some(vec![]);
    }
    // run-length prefix `z<N>:<hex>`: N zero bytes, then the hex bytes
    if let Some(rest) = s.strip_prefix('z') {
        let (n, tail) = rest.split_once(':')?;
        let n: usize = n.parse().ok()?;
        let mut v = vec![0u8; n];
        v.extend(unhex(if tail.is_empty() { "-" } else { tail })?);
        return Some(v);
    }
    if s.len() % 2 != 0 {
        return None;
    }
    (0..s.len() / 2).map(|i| u8::from_str_radix(&s[2 * i..2 * i + 2], 16).ok()).collect()
}


/// timer readings: comma-separated hex words; `-` = none; a token `HEX*N` (N decimal) is the reading repeated N times
/// (a frozen clock: very long stuck runs without megabytes of script)
fn parse_readings(s: &str) -> Option<Vec<u64>> {
    if s == "-" { return Some(vec![]); }
    let mut out = Vec::new();
    for tok in s.split(',') {
        match tok.split_once('*') {
            Some((h, n)) => {
                let v = u64::from_str_radix(h, 16).ok()?;
                let n: usize = n.parse().ok()?;
                if n > (1 << 28) { return None; }
                out.extend(std::iter::repeat(v).take(n));
            }
            None => out.push(u64::from_str_radix(tok, 16).ok()?),
        }
    }
    Some(out)
}

fn timer_err_name(e: &TimerError) -> &'static str {
    match e {
        TimerError::NoTimer => "NoTimer",
        TimerError::CoarseTimer => "CoarseTimer",
        TimerError::NotMonotonic => "NotMonotonic",
        TimerError::TinyVariations => "TinyVariations",
        TimerError::TooManyStuck => "TooManyStuck",
        _ => "Other",
    }
}

struct Machine<F, M> {
    slots: Vec<Slot<F>>,
    mk_timer: M,
}

impl<F, M> Machine<F, M>
where
    F: Fn() -> u64 + Send + Sync + Clone + 'static,
    M: Fn(Arc<TimerScript>) -> F,
{
    fn ensure(&mut self, i: usize) {
        while self.slots.len() <= i {
            self.slots.push(Slot::Empty);
        }
    }
    fn take(&mut self, i: usize) -> Slot<F> {
        self.ensure(i);
        std::mem::replace(&mut self.slots[i], Slot::Empty)
    }
    fn put(&mut self, i: usize, s: Slot<F>) {
        self.ensure(i);
        self.slots[i] = s;
    }

    /// `from_rng` / `try_from_rng` of kind `kind` with slot `s` as the source
    fn new_from_rng(&mut self, kind: &str, try_mode: bool, s: usize) -> Made<Slot<F>> {
        self.ensure(s);
        // split borrow: the source stays in place (it is mutated even if construction panics)
        let src: *mut Slot<F> = &mut self.slots[s];
        // SAFETY: `src` points into `self.slots`, which is not touched again in this function.
        let src = unsafe { &mut *src };
        match src {
            Slot::Src(script) => {
                if try_mode {
                    with_kind!(kind, T => match T::try_from_rng(script) {
                        Ok(g) => Made::Ok(g),
                        Err(SrcError(c)) => Made::Msg(format!("err {}", c)),
                    }, else Made::Msg("bad-kind".into()))
                } else {
                    let mut inf = Infallible(script);
                    with_kind!(kind, T => Made::Ok(T::from_rng(&mut inf)), else Made::Msg("bad-kind".into()))
                }
            }
            other => {
                let dynrng: Option<&mut dyn RngCore> =
                    with_gen!(other, g => Some(&mut **g as &mut dyn RngCore), else None);
                match dynrng {
                    None => Made::Msg("blocked".into()),
                    Some(mut r) => {
                        if try_mode {
                            with_kind!(kind, T => match T::try_from_rng(&mut r) {
                                Ok(g) => Made::Ok(g),
                                Err(e) => match e {},
                            }, else Made::Msg("bad-kind".into()))
                        } else {
                            with_kind!(kind, T => Made::Ok(T::from_rng(&mut r)), else Made::Msg("bad-kind".into()))
                        }
                    }
                }
            }
        }
    }

    fn exec(&mut self, toks: &[&str]) -> String {
        let num = |s: &str| s.parse::<usize>().ok();
        match toks {
            ["new", d, kind, how, arg] => {
                let d = match num(d) { Some(d) => d, None => return "bad-op".into() };
                self.put(d, Slot::Empty);
                let made: Made<Slot<F>> = match *how {
                    "seed" => {
                        let seed = match unhex(arg) { Some(b) => b, None => return "bad-op".into() };
                        with_kind!(*kind, T => match T::from_bytes(&seed) {
                            Some(g) => Made::Ok(g),
                            None => Made::Msg("bad-seed-length".into()),
                        }, else Made::Msg("bad-kind".into()))
                    }
                    "u64" => {
                        let x = match u64::from_str_radix(arg, 16) { Ok(x) => x, Err(_) => return "bad-op".into() };
                        with_kind!(*kind, T => Made::Ok(T::seed_from_u64(x)), else Made::Msg("bad-kind".into()))
                    }
                    "rng" | "try" => {
                        let s = match num(arg) { Some(s) => s, None => return "bad-op".into() };
                        self.new_from_rng(kind, *how == "try", s)
                    }
                    _ => return "bad-op".into(),
                };
                match made {
                    Made::Ok(slot) => { self.put(d, slot); "ok".into() }
                    Made::Msg(m) => m,
                }
            }
            ["src", d, hexs, rest @ ..] => {
                let (d, bytes) = match (num(d), unhex(hexs)) { (Some(d), Some(b)) => (d, b), _ => return "bad-op".into() };
                let fail_at = rest.first().and_then(|k| num(k));
                self.put(d, Slot::Src(ScriptSrc { bytes, pos: 0, fail_at, calls: 0 }));
                "ok".into()
            }
            ["pos", s] => {
                let s = match num(s) { Some(s) => s, None => return "bad-op".into() };
                self.ensure(s);
                match &self.slots[s] { Slot::Src(x) => x.pos.to_string(), _ => "unsupported".into() }
            }
            ["u32", s] => {
                let s = match num(s) { Some(s) => s, None => return "bad-op".into() };
                self.ensure(s);
                match &mut self.slots[s] {
                    Slot::Jit(j, _) => format!("{:08x}", j.next_u32()),
                    other => with_gen!(other, g => format!("{:08x}", g.next_u32()), else "unsupported".into()),
                }
            }
            ["u64", s] => {
                let s = match num(s) { Some(s) => s, None => return "bad-op".into() };
                self.ensure(s);
                match &mut self.slots[s] {
                    Slot::Jit(j, _) => format!("{:016x}", j.next_u64()),
                    other => with_gen!(other, g => format!("{:016x}", g.next_u64()), else "unsupported".into()),
                }
            }
            ["fill", s, n] | ["fill", s, n, _] => {
                let (s, n) = match (num(s), num(n)) { (Some(s), Some(n)) => (s, n), _ => return "bad-op".into() };
                // optional 4th token: offset 0..15 of the destination from a 16-byte aligned address (the result must not
                // depend on where the caller's buffer lies in memory)
                let off = if toks.len() == 4 { match num(toks[3]) { Some(o) if o < 16 => o, _ => return "bad-op".into() } } else { 0 };
                self.ensure(s);
                // sentinel pattern: fill_bytes must overwrite exactly `n` bytes and nothing around them
                let mut store = vec![0xA5A5_A5A5_A5A5_A5A5_A5A5_A5A5_A5A5_A5A5u128; (n + off) / 16 + 2];
                let all: &mut [u8] = unsafe { std::slice::from_raw_parts_mut(store.as_mut_ptr() as *mut u8, store.len() * 16) };
                let r = {
                    let buf = &mut all[off..off + n];
                    match &mut self.slots[s] {
                        Slot::Jit(j, _) => { j.fill_bytes(buf); hex(buf) }
                        other => with_gen!(other, g => { g.fill_bytes(buf); hex(buf) }, else "unsupported".into()),
                    }
                };
                if all[..off].iter().chain(all[off + n..].iter()).any(|&b| b != 0xA5) {
                    return "wrote-outside-destination".into();
                }
                r
            }
            ["burn", s, nbytes] => {
                // produce and discard `nbytes` bytes in 1 MiB fills (very long histories: counters of every width wrap)
                let (s, mut left) = match (num(s), nbytes.parse::<u64>().ok()) { (Some(s), Some(n)) => (s, n), _ => return "bad-op".into() };
                self.ensure(s);
                let mut buf = vec![0u8; 1 << 20];
                let mut acc = 0u8;
                while left > 0 {
                    let k = left.min(1 << 20) as usize;
                    match &mut self.slots[s] {
                        Slot::Jit(..) => return "unsupported".into(),
                        other => { let ok: bool = with_gen!(other, g => { g.fill_bytes(&mut buf[..k]); true }, else false); if !ok { return "unsupported".into(); } }
                    }
                    acc ^= buf[k - 1];
                    left -= k as u64;
                }
                format!("ok {:02x}", acc)
            }
            ["tappend", t, readings] => {
                // more readings for an existing scripted timer (a generator may still hold it): lets a history continue after
                // the timer ran dry in the middle of a call (the closure unwound) — property C16 / C14
                let t = match num(t) { Some(t) => t, None => return "bad-op".into() };
                self.ensure(t);
                let rs: Option<Vec<u64>> = parse_readings(readings);
                match (&self.slots[t], rs) {
                    (Slot::Timer(ts), Some(rs)) => { ts.extra.lock().unwrap().extend(rs); "ok".into() }
                    _ => "bad-op".into(),
                }
            }
            ["jump", s] | ["ljump", s] => {
                let long = toks[0] == "ljump";
                let s = match num(s) { Some(s) => s, None => return "bad-op".into() };
                self.ensure(s);
                with_gen!(&mut self.slots[s], g => if g.jump_(long) { "ok".into() } else { "unsupported".into() },
                          else "unsupported".into())
            }
            ["ser", s] => {
                let s = match num(s) { Some(s) => s, None => return "bad-op".into() };
                self.ensure(s);
                with_gen!(&self.slots[s], g => match g.ser_() { Some(b) => hex(&b), None => "unsupported".into() },
                          else "unsupported".into())
            }
            ["dbg", s] | ["dbgp", s] => {
                let pretty = toks[0] == "dbgp";
                let s = match num(s) { Some(s) => s, None => return "bad-op".into() };
                self.ensure(s);
                let text = match &self.slots[s] {
                    Slot::Jit(j, _) => if pretty { format!("{:#?}", j) } else { format!("{:?}", j) },
                    other => with_gen!(other, g => if pretty { format!("{:#?}", g) } else { format!("{:?}", g) },
                                       else return "unsupported".into()),
                };
                text.replace('\n', "\\n")
            }
            ["clone", d, s] => {
                let (d, s) = match (num(d), num(s)) { (Some(d), Some(s)) => (d, s), _ => return "bad-op".into() };
                self.ensure(s);
                let c = match &self.slots[s] {
                    Slot::Jit(j, t) => Slot::Jit(Box::new((**j).clone()), *t),
                    Slot::Src(x) => Slot::Src(ScriptSrc { bytes: x.bytes.clone(), pos: x.pos, fail_at: x.fail_at, calls: x.calls }),
                    other => {
                        let cloned: Option<Slot<F>> = clone_gen(other);
                        match cloned { Some(c) => c, None => return "unsupported".into() }
                    }
                };
                self.put(d, c);
                "ok".into()
            }
            ["clonefrom", d, s] => {
                // `dst.clone_from(&src)` in place (Clone::clone_from may be overridden; Vec::clone_from / clone_from_slice use it)
                let (d, s) = match (num(d), num(s)) { (Some(d), Some(s)) => (d, s), _ => return "bad-op".into() };
                self.ensure(d.max(s));
                if d == s { return "unsupported".into(); }
                let mut dst = std::mem::replace(&mut self.slots[d], Slot::Empty);
                let r = match (&mut dst, &self.slots[s]) {
                    (Slot::Jit(j, t), Slot::Jit(k, u)) => { (**j).clone_from(&**k); *t = *u; "ok" }
                    (a, b) => if clone_from_gen(a, b) { "ok" } else { "unsupported" },
                };
                self.slots[d] = dst;
                r.into()
            }
            ["eq", a, b] => {
                let (a, b) = match (num(a), num(b)) { (Some(a), Some(b)) => (a, b), _ => return "bad-op".into() };
                self.ensure(a.max(b));
                eq_slots(&self.slots[a], &self.slots[b], true)
            }
            ["eqw", a, b] => {
                // `==` of the generator type itself, if (and only if) the type implements PartialEq; no fall-back to the cores
                let (a, b) = match (num(a), num(b)) { (Some(a), Some(b)) => (a, b), _ => return "bad-op".into() };
                self.ensure(a.max(b));
                eq_slots(&self.slots[a], &self.slots[b], false)
            }
            ["cycle", s, max] => {
                // length of the cycle through the current state under native stepping, up to `max`
                let (s, max) = match (num(s), num(max)) { (Some(s), Some(m)) => (s, m), _ => return "bad-op".into() };
                self.ensure(s);
                with_gen!(&mut self.slots[s], g => {
                    let start = g.clone();
                    let mut k = 0usize;
                    loop {
                        g.next_u32();
                        k += 1;
                        if g.eq_(&start) == Some(true) { break k.to_string(); }
                        if k >= max { break "none".to_string(); }
                    }
                }, else "unsupported".into())
            }
            ["rt", d, s] => {
                // serde round trip in-process: d = deserialize(serialize(s))
                let (d, s) = match (num(d), num(s)) { (Some(d), Some(s)) => (d, s), _ => return "bad-op".into() };
                self.ensure(s);
                let c: Option<Slot<F>> = rt_gen(&self.slots[s]);
                match c {
                    Some(c) => { self.put(d, c); "ok".into() }
                    None => { self.put(d, Slot::Empty); "unsupported".into() }
                }
            }
            ["rth", d, s] => {
                // serde round trip through a HUMAN-READABLE format: d = from_value(to_value(s)); prints ok / err
                let (d, s) = match (num(d), num(s)) { (Some(d), Some(s)) => (d, s), _ => return "bad-op".into() };
                self.ensure(s);
                let c: Option<Option<Slot<F>>> = rth_gen(&self.slots[s]);
                match c {
                    Some(Some(c)) => { self.put(d, c); "ok".into() }
                    Some(None) => { self.put(d, Slot::Empty); "err".into() }
                    None => { self.put(d, Slot::Empty); "unsupported".into() }
                }
            }
            ["de", d, kind, hexs] => {
                let (d, bytes) = match (num(d), unhex(hexs)) { (Some(d), Some(b)) => (d, b), _ => return "bad-op".into() };
                self.put(d, Slot::Empty);
                let made: Made<Slot<F>> = with_kind!(*kind, T => match T::de_(&bytes) {
                    Some(Some(g)) => Made::Ok(g),
                    Some(None) => Made::Msg("err".into()),
                    None => Made::Msg("unsupported".into()),
                }, else Made::Msg("bad-kind".into()));
                match made {
                    Made::Ok(slot) => { self.put(d, slot); "ok".into() }
                    Made::Msg(m) => m,
                }
            }
            ["timer", d, readings] => {
                let d = match num(d) { Some(d) => d, None => return "bad-op".into() };
                let rs: Option<Vec<u64>> = parse_readings(readings);
                match rs {
                    Some(readings) => {
                        self.put(d, Slot::Timer(Arc::new(TimerScript { readings, pos: AtomicUsize::new(0), extra: std::sync::Mutex::new(vec![]) })));
                        "ok".into()
                    }
                    None => "bad-op".into(),
                }
            }
            ["jit", d, t] => {
                let (d, t) = match (num(d), num(t)) { (Some(d), Some(t)) => (d, t), _ => return "bad-op".into() };
                self.ensure(t);
                match &self.slots[t] {
                    Slot::Timer(ts) => {
                        let f = (self.mk_timer)(ts.clone());
                        self.put(d, Slot::Jit(Box::new(JitterRng::new_with_timer(f)), t));
                        "ok".into()
                    }
                    _ => "bad-slot".into(),
                }
            }
            ["rounds", s, n] => {
                let (s, n) = match (num(s), num(n)) { (Some(s), Some(n)) => (s, n), _ => return "bad-op".into() };
                self.ensure(s);
                match &mut self.slots[s] {
                    Slot::Jit(j, _) => { j.set_rounds(n as u8); "ok".into() }
                    _ => "unsupported".into(),
                }
            }
            ["testtimer", s] => {
                let s = match num(s) { Some(s) => s, None => return "bad-op".into() };
                self.ensure(s);
                match &mut self.slots[s] {
                    Slot::Jit(j, _) => match j.test_timer() {
                        Ok(r) => format!("ok {}", r),
                        Err(e) => format!("err {}", timer_err_name(&e)),
                    },
                    _ => "bad-slot".into(),
                }
            }
            ["stats", s, b] => {
                let s = match num(s) { Some(s) => s, None => return "bad-op".into() };
                self.ensure(s);
                match &mut self.slots[s] {
                    Slot::Jit(j, _) => format!("{:016x}", j.timer_stats(*b == "1") as u64),
                    _ => "bad-slot".into(),
                }
            }
            ["calls", t] => {
                let t = match num(t) { Some(t) => t, None => return "bad-op".into() };
                self.ensure(t);
                match &self.slots[t] {
                    Slot::Timer(ts) => ts.pos.load(Ordering::SeqCst).to_string(),
                    _ => "unsupported".into(),
                }
            }
            ["pool", s] => {
                let s = match num(s) { Some(s) => s, None => return "bad-op".into() };
                self.ensure(s);
                match &self.slots[s] {
                    #[cfg(rngs_verif)]
                    Slot::Jit(j, _) => format!("{:016x}", j.__verif_pool()),
                    _ => "unsupported".into(),
                }
            }
            ["setpool", s, x] => {
                let s = match num(s) { Some(s) => s, None => return "bad-op".into() };
                let _x = match u64::from_str_radix(x, 16) { Ok(x) => x, Err(_) => return "bad-op".into() };
                self.ensure(s);
                match &mut self.slots[s] {
                    #[cfg(rngs_verif)]
                    Slot::Jit(j, _) => { j.__verif_set_pool(_x); "ok".into() }
                    _ => "unsupported".into(),
                }
            }
            ["stir", s] => {
                let s = match num(s) { Some(s) => s, None => return "bad-op".into() };
                self.ensure(s);
                match &mut self.slots[s] {
                    #[cfg(rngs_verif)]
                    Slot::Jit(j, _) => { j.__verif_stir(); "ok".into() }
                    _ => "unsupported".into(),
                }
            }
            ["race", kind, threads, iters, seed] => {
                // shared-scratch detector (property C19): (A) a source that itself constructs a generator of the same type
                // in the middle of delivering the seed bytes (re-entrancy), (B) truly concurrent constructions on several OS
                // threads; every result is compared with the same construction done alone.  Prints ok / mismatch …
                let (threads, iters) = match (num(threads), num(iters)) { (Some(a), Some(b)) => (a, b), _ => return "bad-op".into() };
                let seed = match u64::from_str_radix(seed, 16) { Ok(v) => v, _ => return "bad-op".into() };
                let r: Option<String> = with_kind_plain!(*kind, T => race::<T>(threads, iters, seed));
                r.unwrap_or_else(|| "unsupported".into())
            }
            ["core", kind, seed, k, mode] => {
                // drive the block core directly (BlockRngCore::generate is public API): k blocks from from_seed(seed), each into
                // a `fresh` (Default) buffer, a `dirty` (all-ones) buffer, or one `same` buffer; prints the last block
                let (seed, k) = match (unhex(seed), num(k)) { (Some(s), Some(k)) => (s, k), _ => return "bad-op".into() };
                match *kind {
                    "Hc128Rng" => core_blocks::<rand_hc::Hc128Core, u32>(&seed, k, mode),
                    "IsaacRng" => core_blocks::<rand_isaac::isaac::IsaacCore, u32>(&seed, k, mode),
                    "Isaac64Rng" => core_blocks::<rand_isaac::isaac64::Isaac64Core, u64>(&seed, k, mode),
                    _ => "unsupported".into(),
                }
            }
            ["jitnew"] => {
                // the std constructor on the real clock: test_timer (or the cached rounds), set_rounds, one collection
                match JitterRng::new() {
                    Ok(mut j) => { let _ = j.next_u64(); let _ = j.next_u32(); "ok".into() }
                    Err(e) => format!("err {}", timer_err_name(&e)),
                }
            }
            ["reset"] => { self.slots.clear(); "ok".into() }
            [] => String::new(),
            _ => "bad-op".into(),
        }
    }
}

trait WordHex: Copy { fn hexw(self) -> String; fn ones() -> Self; }
impl WordHex for u32 { fn hexw(self) -> String { format!("{:08x}", self) } fn ones() -> Self { u32::MAX } }
impl WordHex for u64 { fn hexw(self) -> String { format!("{:016x}", self) } fn ones() -> Self { u64::MAX } }
fn core_blocks<C, W>(seed: &[u8], k: usize, mode: &str) -> String
where
    C: BlockRngCore<Item = W> + SeedableRng + Clone,
    C::Results: AsRef<[W]> + AsMut<[W]> + Default,
    W: WordHex + Copy,
{
    let mut s = C::Seed::default();
    if s.as_mut().len() != seed.len() {
        return "bad-op".into();
    }
    s.as_mut().copy_from_slice(seed);
    let mut core = C::from_seed(s);
    let mut shared = C::Results::default();
    let mut last = String::new();
    for _ in 0..k {
        let mut fresh = C::Results::default();
        let buf: &mut C::Results = match mode {
            "same" => &mut shared,
            "dirty" => { for w in fresh.as_mut().iter_mut() { *w = W::ones(); } &mut fresh }
            // the destination already holds (a function of) what is about to be produced: the block that is due (from a twin
            // in lockstep), the due block with its first / last word replaced, the block after the due one
            "due" | "due-first" | "due-last" | "next" => {
                let mut twin = core.clone();
                twin.generate(&mut fresh);
                if mode == "next" { twin.generate(&mut fresh); }
                let n = fresh.as_ref().len();
                if mode == "due-first" { fresh.as_mut()[0] = W::ones(); }
                if mode == "due-last" { fresh.as_mut()[n - 1] = W::ones(); }
                &mut fresh
            }
            _ => &mut fresh,
        };
        core.generate(buf);
        last = buf.as_ref().iter().map(|w| w.hexw()).collect::<Vec<_>>().join("");
    }
    last
}

/// deterministic byte source (SplitMix64 stream) behind the infallible interface
struct MixSrc(u64);
impl MixSrc {
    fn word(&mut self) -> u64 {
        self.0 = self.0.wrapping_add(0x9e3779b97f4a7c15);
        let mut z = self.0;
        z = (z ^ (z >> 30)).wrapping_mul(0xbf58476d1ce4e5b9);
        z = (z ^ (z >> 27)).wrapping_mul(0x94d049bb133111eb);
        z ^ (z >> 31)
    }
}
impl RngCore for MixSrc {
    fn next_u32(&mut self) -> u32 { self.word() as u32 }
    fn next_u64(&mut self) -> u64 { self.word() }
    fn fill_bytes(&mut self, dst: &mut [u8]) {
        for c in dst.chunks_mut(8) {
            let w = self.word().to_le_bytes();
            c.copy_from_slice(&w[..c.len()]);
        }
    }
}
/// a source that, in the middle of one fill_bytes call, constructs (and drops) another generator of type T from another source
struct NestSrc<T: Gen> { inner: MixSrc, other: u64, _t: std::marker::PhantomData<T> }
impl<T: Gen> RngCore for NestSrc<T> {
    fn next_u32(&mut self) -> u32 { self.inner.next_u32() }
    fn next_u64(&mut self) -> u64 { self.inner.next_u64() }
    fn fill_bytes(&mut self, dst: &mut [u8]) {
        let h = (dst.len() / 16) * 8;
        let (a, b) = dst.split_at_mut(h);
        self.inner.fill_bytes(a);
        let mut o = MixSrc(self.other);
        let mut g = T::from_rng(&mut o);
        std::hint::black_box(g.next_u32());
        self.inner.fill_bytes(b);
    }
}
fn digest<T: Gen>(g: &mut T) -> u64 {
    let mut d = 0u64;
    for _ in 0..6 { d = d.rotate_left(13) ^ g.next_u64(); }
    d
}
fn race<T: Gen>(threads: usize, iters: usize, seed: u64) -> String {
    // (A) re-entrant source
    for j in 0..8u64 {
        let s = seed ^ (j.wrapping_mul(0x1234_5678_9abc_def1));
        let mut plain = MixSrc(s);
        let want = digest(&mut T::from_rng(&mut plain));
        let mut nest = NestSrc::<T> { inner: MixSrc(s), other: s ^ 0x5555, _t: std::marker::PhantomData };
        let got = digest(&mut T::from_rng(&mut nest));
        if got != want {
            return format!("mismatch reentrant-source j={} want={:016x} got={:016x}", j, want, got);
        }
    }
    // (B) concurrent constructions
    let expect: Vec<Vec<u64>> = (0..threads).map(|t| (0..iters).map(|i| {
        let mut src = MixSrc(seed ^ ((t as u64) << 32) ^ i as u64);
        digest(&mut T::from_rng(&mut src))
    }).collect()).collect();
    let barrier = std::sync::Arc::new(std::sync::Barrier::new(threads));
    let hs: Vec<_> = (0..threads).map(|t| {
        let b = barrier.clone();
        std::thread::spawn(move || {
            b.wait();
            (0..iters).map(|i| {
                let mut src = MixSrc(seed ^ ((t as u64) << 32) ^ i as u64);
                digest(&mut T::from_rng(&mut src))
            }).collect::<Vec<u64>>()
        })
    }).collect();
    let mut bad = 0usize;
    let mut first = String::new();
    for (t, h) in hs.into_iter().enumerate() {
        match h.join() {
            Ok(v) => for (i, (a, b)) in v.iter().zip(expect[t].iter()).enumerate() {
                if a != b { bad += 1; if first.is_empty() { first = format!("thread={} iter={} want={:016x} got={:016x}", t, i, b, a); } }
            },
            Err(_) => { bad += 1; if first.is_empty() { first = format!("thread={} panicked", t); } }
        }
    }
    if bad == 0 { "ok".into() } else { format!("mismatch concurrent n={} first: {}", bad, first) }
}

fn clone_gen<F>(s: &Slot<F>) -> Option<Slot<F>> {
    macro_rules! arms {
        ($($t:ident),*) => {
            match s {
                $( Slot::$t(g) => Some(Slot::$t(g.clone())), )*
                _ => None,
            }
        };
    }
    for_all_gens! {arms}
}

fn clone_from_gen<F>(dst: &mut Slot<F>, src: &Slot<F>) -> bool {
    macro_rules! arms {
        ($($t:ident),*) => {
            match (dst, src) {
                $( (Slot::$t(a), Slot::$t(b)) => { (**a).clone_from(&**b); true } )*
                _ => false,
            }
        };
    }
    for_all_gens! {arms}
}

fn rt_gen<F>(s: &Slot<F>) -> Option<Slot<F>> {
    macro_rules! arms {
        ($($t:ident),*) => {
            match s {
                $( Slot::$t(g) => {
                    let bytes = g.ser_()?;
                    let back = <$t as Gen>::de_(&bytes)??;
                    Some(Slot::$t(Box::new(back)))
                } )*
                _ => None,
            }
        };
    }
    for_all_gens! {arms}
}

fn rth_gen<F>(s: &Slot<F>) -> Option<Option<Slot<F>>> {
    macro_rules! arms {
        ($($t:ident),*) => {
            match s {
                $( Slot::$t(g) => {
                    let (_text, back) = g.hr_()?;
                    Some(back.map(|b| Slot::$t(Box::new(b))))
                } )*
                _ => None,
            }
        };
    }
    for_all_gens! {arms}
}

/// "does this concrete type implement PartialEq, and if so what does == say" — autoref specialisation, so that the harness
/// compiles whether or not a type has (or later gains) an `==`
struct EqProbe<'a, T>(&'a T, &'a T);
trait ProbeHasEq { fn probe_eq(&self) -> Option<bool>; }
impl<'a, T: PartialEq> ProbeHasEq for EqProbe<'a, T> { fn probe_eq(&self) -> Option<bool> { Some(self.0 == self.1) } }
/// the rest of the PartialEq surface: `!=` (PartialEq::ne may be overridden), both argument orders, through a reference wrapper
trait ProbeHasNe { fn probe_ne(&self) -> Option<[bool; 4]>; }
impl<'a, T: PartialEq> ProbeHasNe for EqProbe<'a, T> {
    fn probe_ne(&self) -> Option<[bool; 4]> { Some([self.0 != self.1, self.1 == self.0, self.1 != self.0, &self.0 != &self.1]) }
}
trait ProbeNoNe { fn probe_ne(&self) -> Option<[bool; 4]>; }
impl<'a, T> ProbeNoNe for &EqProbe<'a, T> { fn probe_ne(&self) -> Option<[bool; 4]> { None } }
trait ProbeNoEq { fn probe_eq(&self) -> Option<bool>; }
impl<'a, T> ProbeNoEq for &EqProbe<'a, T> { fn probe_eq(&self) -> Option<bool> { None } }

fn eq_slots<F>(a: &Slot<F>, b: &Slot<F>, core_fallback: bool) -> String {
    macro_rules! arms {
        ($($t:ident),*) => {
            match (a, b) {
                $( (Slot::$t(x), Slot::$t(y)) => {
                    let e = (&EqProbe::<$t>(&**x, &**y)).probe_eq();
                    if let (Some(e), Some(n)) = (e, (&EqProbe::<$t>(&**x, &**y)).probe_ne()) {
                        // a != b, b == a, b != a, &a != &b must all agree with a == b
                        if n[0] == e || n[1] != e || n[2] == e || n[3] == e {
                            return format!("inconsistent: a==b {} a!=b {} b==a {} b!=a {} &a!=&b {}", e, n[0], n[1], n[2], n[3]);
                        }
                    }
                    match e.or_else(|| if core_fallback { x.eq_(y) } else { None }) {
                        Some(r) => r.to_string(),
                        None => "unsupported".into(),
                    }
                }, )*
                _ => "unsupported".into(),
            }
        };
    }
    for_all_gens! {arms}
}

fn run<F, M>(mk_timer: M)
where
    F: Fn() -> u64 + Send + Sync + Clone + 'static,
    M: Fn(Arc<TimerScript>) -> F + Send + Sync,
{
    // compile-time: every deterministic generator is Send + Sync (C19)
    fn assert_send_sync<T: Send + Sync>() {}
    macro_rules! asserts { ($($t:ident),*) => { $( assert_send_sync::<$t>(); )* }; }
    for_all_gens! {asserts}
    assert_send_sync::<JitterRng<F>>();
    let _ = <rand_isaac::isaac::IsaacCore as BlockRngCore>::Results::default();

    let m = Arc::new(std::sync::Mutex::new(Machine { slots: Vec::new(), mk_timer }));
    let exec_line = |m: &std::sync::Mutex<Machine<F, M>>, toks: &[&str]| -> String {
        let mut guard = m.lock().unwrap_or_else(|e| e.into_inner());
        let res = catch_unwind(AssertUnwindSafe(|| guard.exec(toks)));
        match res {
            Ok(s) => s,
            Err(payload) => {
                if payload.is::<Exhausted>() { "blocked".to_string() } else { "panic".to_string() }
            }
        }
    };
    let stdin = io::stdin();
    let stdout = io::stdout();
    let mut out = io::BufWriter::new(stdout.lock());
    // `@<t> <cmd>`: execute the command on worker thread t (generators move between OS threads,
    // the global order of commands is the scripted interleaving)
    std::thread::scope(|scope| {
        type Job = (String, std::sync::mpsc::Sender<String>);
        let mut workers: Vec<Option<std::sync::mpsc::Sender<Job>>> = Vec::new();
        for line in stdin.lock().lines() {
            let line = match line { Ok(l) => l, Err(_) => break };
            let text = if let Some(rest) = line.strip_prefix('@') {
                let (t, cmd) = match rest.split_once(' ') { Some(x) => x, None => (rest, "") };
                let t: usize = t.parse().unwrap_or(0) % 16;
                while workers.len() <= t { workers.push(None); }
                if workers[t].is_none() {
                    let (tx, rx) = std::sync::mpsc::channel::<Job>();
                    let m2 = m.clone();
                    let exec_ref = &exec_line;
                    scope.spawn(move || {
                        for (cmd, reply) in rx {
                            let toks: Vec<&str> = cmd.split_whitespace().collect();
                            let _ = reply.send(exec_ref(&m2, &toks));
                        }
                    });
                    workers[t] = Some(tx);
                }
                let (rtx, rrx) = std::sync::mpsc::channel();
                workers[t].as_ref().unwrap().send((cmd.to_string(), rtx)).unwrap();
                rrx.recv().unwrap_or_else(|_| "panic".to_string())
            } else {
                let toks: Vec<&str> = line.split_whitespace().collect();
                exec_line(&m, &toks)
            };
            writeln!(out, "{}", text).unwrap();
        }
        drop(workers);
    });
    out.flush().unwrap();
}

/// with the `jlog` feature: a logger that accepts everything down to Trace and formats every record (so that the
/// arguments of the crates' trace!/debug! calls are evaluated), discarding the text
#[cfg(feature = "jlog")]
struct SinkLogger;
#[cfg(feature = "jlog")]
impl log::Log for SinkLogger {
    fn enabled(&self, _m: &log::Metadata) -> bool {
        true
    }
    fn log(&self, r: &log::Record) {
        let s = format!("{}", r.args());
        std::hint::black_box(s);
    }
    fn flush(&self) {}
}
#[cfg(feature = "jlog")]
static SINK: SinkLogger = SinkLogger;

fn main() {
    #[cfg(feature = "jlog")]
    {
        let _ = log::set_logger(&SINK);
        log::set_max_level(log::LevelFilter::Trace);
    }
    std::panic::set_hook(Box::new(|_| {}));
    run(|ts: Arc<TimerScript>| move || ts.next());
}
