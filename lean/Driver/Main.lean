/-
  modeldriver — runs the Lean model on an operation script (one command per line on stdin)
  and prints one canonical line per command.  The Rust harness does the same with the real
  crates; tools/check.py compares the two streams.  Imports Model only (links without Mathlib).
-/
import Rngs.Model.Words
import Rngs.Model.RandCore
import Rngs.Model.Xoshiro
import Rngs.Model.XorShift
import Rngs.Model.Hc128
import Rngs.Model.Isaac
import Rngs.Model.Jitter
import Rngs.Model.Serde
import Rngs.Spec.Stream
open Rngs

/-! ## hex -/

def hexDigit (n : Nat) : Char :=
  if n < 10 then Char.ofNat (48 + n) else Char.ofNat (87 + n)

def hexByte (b : U8) : String :=
  String.ofList [hexDigit (b.toNat / 16), hexDigit (b.toNat % 16)]

def hexBytes (bs : List U8) : String :=
  if bs.isEmpty then "-" else String.join (bs.map hexByte)

def hexFixed (digits : Nat) (n : Nat) : String :=
  String.ofList ((List.range digits).map (fun i => hexDigit ((n / 16 ^ (digits - 1 - i)) % 16)))

def hex32 (w : U32) : String := hexFixed 8 w.toNat
def hex64 (w : U64) : String := hexFixed 16 w.toNat

def hexVal (c : Char) : Option Nat :=
  if '0' ≤ c ∧ c ≤ '9' then some (c.toNat - 48)
  else if 'a' ≤ c ∧ c ≤ 'f' then some (c.toNat - 87)
  else if 'A' ≤ c ∧ c ≤ 'F' then some (c.toNat - 55)
  else none

def parseHex (s : String) : Option Nat :=
  if s.isEmpty then none else
  s.toList.foldl (fun acc c => match acc, hexVal c with
    | some a, some v => some (a * 16 + v)
    | _, _ => none) (some 0)

partial def bytesOfHexAux : List Char → List U8 → Option (List U8)
  | [], acc => some acc.reverse
  | a :: b :: rest, acc =>
    match hexVal a, hexVal b with
    | some x, some y => bytesOfHexAux rest (BitVec.ofNat 8 (x * 16 + y) :: acc)
    | _, _ => none
  | _, _ => none

def bytesOfHexPlain (s : String) : Option (List U8) :=
  if s == "-" || s.isEmpty then some [] else bytesOfHexAux s.toList []

/-- hex bytes, optionally with the run-length prefix `z<N>:` (N zero bytes first) -/
def bytesOfHex (s : String) : Option (List U8) :=
  match s.toList with
  | 'z' :: rest =>
    match (String.ofList rest).splitOn ":" with
    | [n, tail] => match n.toNat?, bytesOfHexPlain tail with
      | some n, some bs => some (List.replicate n 0 ++ bs)
      | _, _ => none
    | _ => none
  | _ => bytesOfHexPlain s

/-! ## slots -/

inductive Kind
  | SplitMix64
  | Xoroshiro64Star | Xoroshiro64StarStar
  | Xoroshiro128Plus | Xoroshiro128PlusPlus | Xoroshiro128StarStar
  | Xoshiro128Plus | Xoshiro128PlusPlus | Xoshiro128StarStar
  | Xoshiro256Plus | Xoshiro256PlusPlus | Xoshiro256StarStar
  | Xoshiro512Plus | Xoshiro512PlusPlus | Xoshiro512StarStar
  | XorShift | Hc128 | Isaac | Isaac64
  deriving DecidableEq, Repr

def Kind.ofString : String → Option Kind
  | "SplitMix64" => some .SplitMix64
  | "Xoroshiro64Star" => some .Xoroshiro64Star
  | "Xoroshiro64StarStar" => some .Xoroshiro64StarStar
  | "Xoroshiro128Plus" => some .Xoroshiro128Plus
  | "Xoroshiro128PlusPlus" => some .Xoroshiro128PlusPlus
  | "Xoroshiro128StarStar" => some .Xoroshiro128StarStar
  | "Xoshiro128Plus" => some .Xoshiro128Plus
  | "Xoshiro128PlusPlus" => some .Xoshiro128PlusPlus
  | "Xoshiro128StarStar" => some .Xoshiro128StarStar
  | "Xoshiro256Plus" => some .Xoshiro256Plus
  | "Xoshiro256PlusPlus" => some .Xoshiro256PlusPlus
  | "Xoshiro256StarStar" => some .Xoshiro256StarStar
  | "Xoshiro512Plus" => some .Xoshiro512Plus
  | "Xoshiro512PlusPlus" => some .Xoshiro512PlusPlus
  | "Xoshiro512StarStar" => some .Xoshiro512StarStar
  | "XorShiftRng" => some .XorShift
  | "Hc128Rng" => some .Hc128
  | "IsaacRng" => some .Isaac
  | "Isaac64Rng" => some .Isaac64
  | _ => none

def gen2_32 : Kind → Option (XoGen (S2 32))
  | .Xoroshiro64Star => some Xoroshiro64Star.gen
  | .Xoroshiro64StarStar => some Xoroshiro64StarStar.gen
  | _ => none
def gen2_64 : Kind → Option (XoGen (S2 64))
  | .Xoroshiro128Plus => some Xoroshiro128Plus.gen
  | .Xoroshiro128PlusPlus => some Xoroshiro128PlusPlus.gen
  | .Xoroshiro128StarStar => some Xoroshiro128StarStar.gen
  | _ => none
def gen4_32 : Kind → Option (XoGen (S4 32))
  | .Xoshiro128Plus => some Xoshiro128Plus.gen
  | .Xoshiro128PlusPlus => some Xoshiro128PlusPlus.gen
  | .Xoshiro128StarStar => some Xoshiro128StarStar.gen
  | _ => none
def gen4_64 : Kind → Option (XoGen (S4 64))
  | .Xoshiro256Plus => some Xoshiro256Plus.gen
  | .Xoshiro256PlusPlus => some Xoshiro256PlusPlus.gen
  | .Xoshiro256StarStar => some Xoshiro256StarStar.gen
  | _ => none
def gen8 : Kind → Option (XoGen S8)
  | .Xoshiro512Plus => some Xoshiro512Plus.gen
  | .Xoshiro512PlusPlus => some Xoshiro512PlusPlus.gen
  | .Xoshiro512StarStar => some Xoshiro512StarStar.gen
  | _ => none

inductive Val
  | empty
  | sm (x : U64)
  | s2_32 (g : XoGen (S2 32)) (s : S2 32)
  | s2_64 (g : XoGen (S2 64)) (s : S2 64)
  | s4_32 (g : XoGen (S4 32)) (s : S4 32)
  | s4_64 (g : XoGen (S4 64)) (s : S4 64)
  | s8 (g : XoGen S8) (s : S8)
  | xs (s : S4 32)
  | hc (r : Hc128.Rng)
  | isaac (r : Isaac.Rng32)
  | isaac64 (r : Isaac.Rng64)
  | src (bytes : Array U8) (pos : Nat) (failAt : Option Nat) (calls : Nat)
  | timer (readings : List U64) (consumed : Nat)
  | jit (j : Jitter.Rng) (timer : Nat)

instance : Inhabited Val := ⟨.empty⟩

/-- same generator type (for `clone_from`) -/
def Val.sameKind : Val → Val → Bool
  | .sm _, .sm _ => true
  | .s2_32 g _, .s2_32 h _ => g.name == h.name
  | .s2_64 g _, .s2_64 h _ => g.name == h.name
  | .s4_32 g _, .s4_32 h _ => g.name == h.name
  | .s4_64 g _, .s4_64 h _ => g.name == h.name
  | .s8 g _, .s8 h _ => g.name == h.name
  | .xs _, .xs _ => true
  | .hc _, .hc _ => true
  | .isaac _, .isaac _ => true
  | .isaac64 _, .isaac64 _ => true
  | _, _ => false

/-- result of an operation on a slot value -/
structure R where
  out : String
  val : Val

def Val.u32 : Val → Option (U32 × Val)
  | .sm x => let (r, x) := SplitMix64.nextU32 x; some (r, .sm x)
  | .s2_32 g s => let (r, s) := g.nextU32 s; some (r, .s2_32 g s)
  | .s2_64 g s => let (r, s) := g.nextU32 s; some (r, .s2_64 g s)
  | .s4_32 g s => let (r, s) := g.nextU32 s; some (r, .s4_32 g s)
  | .s4_64 g s => let (r, s) := g.nextU32 s; some (r, .s4_64 g s)
  | .s8 g s => let (r, s) := g.nextU32 s; some (r, .s8 g s)
  | .xs s => let (r, s) := XorShift.nextU32 s; some (r, .xs s)
  | .hc r => let (x, r) := Hc128.nextU32 r; some (x, .hc r)
  | .isaac r => let (x, r) := BlockRng.nextU32 Isaac.blockCore32 r; some (x, .isaac r)
  | .isaac64 r => let (x, r) := BlockRng64.nextU32 Isaac.blockCore64 r; some (x, .isaac64 r)
  | _ => none

def Val.u64 : Val → Option (U64 × Val)
  | .sm x => let (r, x) := SplitMix64.nextU64 x; some (r, .sm x)
  | .s2_32 g s => let (r, s) := g.nextU64 s; some (r, .s2_32 g s)
  | .s2_64 g s => let (r, s) := g.nextU64 s; some (r, .s2_64 g s)
  | .s4_32 g s => let (r, s) := g.nextU64 s; some (r, .s4_32 g s)
  | .s4_64 g s => let (r, s) := g.nextU64 s; some (r, .s4_64 g s)
  | .s8 g s => let (r, s) := g.nextU64 s; some (r, .s8 g s)
  | .xs s => let (r, s) := XorShift.nextU64 s; some (r, .xs s)
  | .hc r => let (x, r) := Hc128.nextU64 r; some (x, .hc r)
  | .isaac r => let (x, r) := BlockRng.nextU64 Isaac.blockCore32 r; some (x, .isaac r)
  | .isaac64 r => let (x, r) := BlockRng64.nextU64 Isaac.blockCore64 r; some (x, .isaac64 r)
  | _ => none

/-- `fill_bytes` / `try_fill_bytes` of any slot usable as a source -/
def Val.tryFill (v : Val) (n : Nat) : Except SrcErr (List U8) × Val :=
  match v with
  | .sm x => let (b, x) := SplitMix64.fill n x; (.ok b, .sm x)
  | .s2_32 g s => let (b, s) := g.fill n s; (.ok b, .s2_32 g s)
  | .s2_64 g s => let (b, s) := g.fill n s; (.ok b, .s2_64 g s)
  | .s4_32 g s => let (b, s) := g.fill n s; (.ok b, .s4_32 g s)
  | .s4_64 g s => let (b, s) := g.fill n s; (.ok b, .s4_64 g s)
  | .s8 g s => let (b, s) := g.fill n s; (.ok b, .s8 g s)
  | .xs s => let (b, s) := XorShift.fill n s; (.ok b, .xs s)
  | .hc r => let (b, r) := Hc128.fill n r; (.ok b, .hc r)
  | .isaac r => let (b, r) := BlockRng.fillBytes Isaac.blockCore32 n r; (.ok b, .isaac r)
  | .isaac64 r => let (b, r) := BlockRng64.fillBytes Isaac.blockCore64 n r; (.ok b, .isaac64 r)
  | .src bytes pos failAt calls =>
    if failAt == some calls then (.error (.fail (1000 + calls)), .src bytes pos failAt (calls + 1))
    else if pos + n > bytes.size then (.error .exhausted, .src bytes pos failAt (calls + 1))
    else (.ok ((bytes.extract pos (pos + n)).toList), .src bytes (pos + n) failAt (calls + 1))
  | v => (.error .exhausted, v)

def optOut {σ : Type} (wrap : σ → Val) (o : Option σ) : R :=
  match o with
  | some s => ⟨"ok", wrap s⟩
  | none => ⟨"diverge", .empty⟩

def newSeed (k : Kind) (seed : List U8) : R :=
  match k with
  | .SplitMix64 => ⟨"ok", .sm (SplitMix64.fromSeed seed)⟩
  | .XorShift => ⟨"ok", .xs (XorShift.fromSeed seed)⟩
  | .Hc128 => ⟨"ok", .hc (Hc128.fromSeed seed)⟩
  | .Isaac => ⟨"ok", .isaac (Isaac.fromSeed32 seed)⟩
  | .Isaac64 => ⟨"ok", .isaac64 (Isaac.fromSeed64 seed)⟩
  | k =>
    match gen2_32 k, gen2_64 k, gen4_32 k, gen4_64 k, gen8 k with
    | some g, _, _, _, _ => optOut (.s2_32 g) (g.fromSeed? seed)
    | _, some g, _, _, _ => optOut (.s2_64 g) (g.fromSeed? seed)
    | _, _, some g, _, _ => optOut (.s4_32 g) (g.fromSeed? seed)
    | _, _, _, some g, _ => optOut (.s4_64 g) (g.fromSeed? seed)
    | _, _, _, _, some g => optOut (.s8 g) (g.fromSeed? seed)
    | _, _, _, _, _ => ⟨"bad-kind", .empty⟩

def newU64 (k : Kind) (x : U64) : R :=
  match k with
  | .SplitMix64 => ⟨"ok", .sm (SplitMix64.seedFromU64 x)⟩
  | .XorShift => ⟨"ok", .xs (XorShift.seedFromU64 x)⟩
  | .Hc128 => ⟨"ok", .hc (Hc128.seedFromU64 x)⟩
  | .Isaac => ⟨"ok", .isaac (Isaac.seedFromU64_32 x)⟩
  | .Isaac64 => ⟨"ok", .isaac64 (Isaac.seedFromU64_64 x)⟩
  | k =>
    match gen2_32 k, gen2_64 k, gen4_32 k, gen4_64 k, gen8 k with
    | some g, _, _, _, _ => optOut (.s2_32 g) (g.seedFromU64? x)
    | _, some g, _, _, _ => optOut (.s2_64 g) (g.seedFromU64? x)
    | _, _, some g, _, _ => optOut (.s4_32 g) (g.seedFromU64? x)
    | _, _, _, some g, _ => optOut (.s4_64 g) (g.seedFromU64? x)
    | _, _, _, _, some g => optOut (.s8 g) (g.seedFromU64? x)
    | _, _, _, _, _ => ⟨"bad-kind", .empty⟩

def errOut (tryMode : Bool) : SrcErr → String
  | .fail c => if tryMode then s!"err {c}" else "panic"
  | .exhausted => "blocked"
  | .diverged => "blocked"

def XORSHIFT_FUEL : Nat := 8000000

/-- `from_rng` (`tryMode = false`) / `try_from_rng` with the slot value `src` as source:
    result line, new generator, new source -/
def newRng (k : Kind) (tryMode : Bool) (src : Val) : String × Val × Val :=
  let fin {σ : Type} (wrap : σ → Val) (p : Except SrcErr σ × Val) : String × Val × Val :=
    match p with
    | (.ok s, src) => ("ok", wrap s, src)
    | (.error e, src) => (errOut tryMode e, .empty, src)
  let finO {σ : Type} (wrap : σ → Val) (p : Except SrcErr (Option σ) × Val) : String × Val × Val :=
    match p with
    | (.ok (some s), src) => ("ok", wrap s, src)
    | (.ok none, src) => ("diverge", .empty, src)
    | (.error e, src) => (errOut tryMode e, .empty, src)
  match k with
  | .SplitMix64 => fin .sm (fromRngDefault 8 SplitMix64.fromSeed Val.tryFill src)
  | .XorShift =>
    if tryMode then fin .xs (XorShift.tryFromRngFuel Val.tryFill XORSHIFT_FUEL src)
    else fin .xs (XorShift.fromRngFuel Val.tryFill XORSHIFT_FUEL src)
  | .Hc128 => fin .hc (Hc128.fromRng Val.tryFill src)
  | .Isaac =>
    if tryMode then fin .isaac (Isaac.tryFromRng32 Val.tryFill src)
    else fin .isaac (Isaac.fromRng32 Val.tryFill src)
  | .Isaac64 =>
    if tryMode then fin .isaac64 (Isaac.tryFromRng64 Val.tryFill src)
    else fin .isaac64 (Isaac.fromRng64 Val.tryFill src)
  | k =>
    match gen2_32 k, gen2_64 k, gen4_32 k, gen4_64 k, gen8 k with
    | some g, _, _, _, _ => finO (.s2_32 g) (g.fromRng? Val.tryFill src)
    | _, some g, _, _, _ => finO (.s2_64 g) (g.fromRng? Val.tryFill src)
    | _, _, some g, _, _ => finO (.s4_32 g) (g.fromRng? Val.tryFill src)
    | _, _, _, some g, _ => finO (.s4_64 g) (g.fromRng? Val.tryFill src)
    | _, _, _, _, some g => finO (.s8 g) (g.fromRng? Val.tryFill src)
    | _, _, _, _, _ => ("bad-kind", .empty, src)

def Val.jump (long : Bool) : Val → R
  | .s2_64 g s => match (if long then g.longJump else g.jump) with
    | some f => ⟨"ok", .s2_64 g (f s)⟩ | none => ⟨"unsupported", .s2_64 g s⟩
  | .s4_32 g s => match (if long then g.longJump else g.jump) with
    | some f => ⟨"ok", .s4_32 g (f s)⟩ | none => ⟨"unsupported", .s4_32 g s⟩
  | .s4_64 g s => match (if long then g.longJump else g.jump) with
    | some f => ⟨"ok", .s4_64 g (f s)⟩ | none => ⟨"unsupported", .s4_64 g s⟩
  | .s8 g s => match (if long then g.longJump else g.jump) with
    | some f => ⟨"ok", .s8 g (f s)⟩ | none => ⟨"unsupported", .s8 g s⟩
  | v => ⟨"unsupported", v⟩

def Val.eq : Val → Val → String
  | .sm a, .sm b => toString (a == b)
  | .s2_32 g a, .s2_32 h b => if g.name == h.name then toString (decide (a = b)) else "unsupported"
  | .s2_64 g a, .s2_64 h b => if g.name == h.name then toString (decide (a = b)) else "unsupported"
  | .s4_32 g a, .s4_32 h b => if g.name == h.name then toString (decide (a = b)) else "unsupported"
  | .s4_64 g a, .s4_64 h b => if g.name == h.name then toString (decide (a = b)) else "unsupported"
  | .s8 g a, .s8 h b => if g.name == h.name then toString (decide (a = b)) else "unsupported"
  | .xs a, .xs b => toString (decide (a = b))
  | .hc a, .hc b => toString (Hc128.beq a b)
  -- IsaacRng / Isaac64Rng have no `==`; the harness compares the cores (`IsaacCore: PartialEq`)
  | .isaac a, .isaac b => toString (a.core.beq b.core)
  | .isaac64 a, .isaac64 b => toString (a.core.beq b.core)
  | _, _ => "unsupported"

def Val.ser : Val → String
  | .sm x => hexBytes (Serde.serSplitMix x)
  | .s2_32 _ s => hexBytes (Serde.serS2_32 s)
  | .s2_64 _ s => hexBytes (Serde.serS2_64 s)
  | .s4_32 _ s => hexBytes (Serde.serS4_32 s)
  | .s4_64 _ s => hexBytes (Serde.serS4_64 s)
  | .s8 _ s => hexBytes (Serde.serS8 s)
  | .xs s => hexBytes (Serde.serS4_32 s)
  | .isaac r => hexBytes (Serde.serIsaac32 r)
  | .isaac64 r => hexBytes (Serde.serIsaac64 r)
  | _ => "unsupported"

def deOut {σ : Type} (wrap : σ → Val) (o : Option (σ × List U8)) : R :=
  match o with
  | some (s, _) => ⟨"ok", wrap s⟩
  | none => ⟨"err", .empty⟩

def deKind (k : Kind) (bs : List U8) : R :=
  match k with
  | .SplitMix64 => deOut .sm (Serde.deSplitMix bs)
  | .XorShift => deOut .xs (Serde.deS4_32 bs)
  | .Isaac => deOut .isaac (Serde.deIsaac32 bs)
  | .Isaac64 => deOut .isaac64 (Serde.deIsaac64 bs)
  | .Hc128 => ⟨"unsupported", .empty⟩
  | k =>
    match gen2_32 k, gen2_64 k, gen4_32 k, gen4_64 k, gen8 k with
    | some g, _, _, _, _ => deOut (.s2_32 g) (Serde.deS2_32 bs)
    | _, some g, _, _, _ => deOut (.s2_64 g) (Serde.deS2_64 bs)
    | _, _, some g, _, _ => deOut (.s4_32 g) (Serde.deS4_32 bs)
    | _, _, _, some g, _ => deOut (.s4_64 g) (Serde.deS4_64 bs)
    | _, _, _, _, some g => deOut (.s8 g) (Serde.deS8 bs)
    | _, _, _, _, _ => ⟨"bad-kind", .empty⟩

/-- serde round trip `deserialize(serialize(v))` -/
def Val.rt : Val → Option Val
  | .sm x => (Serde.deSplitMix (Serde.serSplitMix x)).map (fun p => .sm p.1)
  | .s2_32 g s => (Serde.deS2_32 (Serde.serS2_32 s)).map (fun p => .s2_32 g p.1)
  | .s2_64 g s => (Serde.deS2_64 (Serde.serS2_64 s)).map (fun p => .s2_64 g p.1)
  | .s4_32 g s => (Serde.deS4_32 (Serde.serS4_32 s)).map (fun p => .s4_32 g p.1)
  | .s4_64 g s => (Serde.deS4_64 (Serde.serS4_64 s)).map (fun p => .s4_64 g p.1)
  | .s8 g s => (Serde.deS8 (Serde.serS8 s)).map (fun p => .s8 g p.1)
  | .xs s => (Serde.deS4_32 (Serde.serS4_32 s)).map (fun p => .xs p.1)
  | .isaac r => (Serde.deIsaac32 (Serde.serIsaac32 r)).map (fun p => .isaac p.1)
  | .isaac64 r => (Serde.deIsaac64 (Serde.serIsaac64 r)).map (fun p => .isaac64 p.1)
  | _ => none

def escapeNl (s : String) : String := s.replace "\n" "\\n"

def Val.dbg (pretty : Bool) : Val → String
  | .xs _ => Debug.xorshift
  | .jit _ _ => Debug.jitter
  | .hc r => if pretty then escapeNl (Debug.hc128Pretty r.index) else Debug.hc128 r.index
  | .isaac r => if pretty then escapeNl (Debug.isaacPretty r.index) else Debug.isaac r.index
  | .isaac64 r =>
    if pretty then escapeNl (Debug.isaac64Pretty r.index r.halfUsed) else Debug.isaac64 r.index r.halfUsed
  | _ => "unsupported"

/-! ## the interpreter -/

abbrev Slots := Array Val

def getSlot (ss : Slots) (i : Nat) : Val := ss.getD i .empty
def setSlot (ss : Slots) (i : Nat) (v : Val) : Slots :=
  let ss := if i < ss.size then ss else ss ++ Array.replicate (i + 1 - ss.size) Val.empty
  ss.setIfInBounds i v

/-- run a timer-monad action of the jitter in slot `i` -/
def withJit {α : Type} (ss : Slots) (i : Nat)
    (act : Jitter.Rng → Jitter.TM (α × Jitter.Rng)) (show_ : α → String) : String × Slots :=
  match getSlot ss i with
  | .jit j t =>
    match getSlot ss t with
    | .timer rs consumed =>
      match (act j).run rs with
      | some ((a, j), rs') =>
        let used := rs.length - rs'.length
        (show_ a, setSlot (setSlot ss i (.jit j t)) t (.timer rs' (consumed + used)))
      | none =>
        -- the real closure has been called until the script ran out
        ("blocked", setSlot ss t (.timer [] (consumed + rs.length + 1)))
    | _ => ("bad-slot", ss)
  | _ => ("bad-slot", ss)

def parseReadings (s : String) : Option (List U64) :=
  -- comma-separated hex words; a token `HEX*N` (N decimal) is the reading repeated N times
  if s == "-" then some [] else
  (s.splitOn ",").foldr (fun tok acc => match acc with
    | none => none
    | some l =>
      match tok.splitOn "*" with
      | [h] => (parseHex h).map (fun n => BitVec.ofNat 64 n :: l)
      | [h, k] => match parseHex h, k.toNat? with
        | some n, some k => if k > 2 ^ 28 then none else some (List.replicate k (BitVec.ofNat 64 n) ++ l)
        | _, _ => none
      | _ => none) (some [])

def timerErrName : Jitter.TimerError → String
  | .NoTimer => "NoTimer" | .CoarseTimer => "CoarseTimer" | .NotMonotonic => "NotMonotonic"
  | .TinyVariations => "TinyVariations" | .TooManyStuck => "TooManyStuck"

def step (ss : Slots) (line : String) : String × Slots :=
  let toks := (line.trimAscii.toString.splitOn " ").filter (· ≠ "")
  -- `@<t> cmd`: thread annotation of the harness; the model has no threads (C19: frame theorem)
  let toks := match toks with
    | t :: rest => if t.startsWith "@" then rest else toks
    | [] => []
  -- `fill s n off`: the 4th token is the offset of the destination buffer from an aligned address — irrelevant for the model
  let toks := match toks with
    | ["fill", s, n, _] => ["fill", s, n]
    | _ => toks
  match toks with
  | ["new", d, kind, how, arg] =>
    match d.toNat?, Kind.ofString kind with
    | some d, some k =>
      match how with
      | "seed" => match bytesOfHex arg with
        | some seed => let r := newSeed k seed; (r.out, setSlot ss d r.val)
        | none => ("bad-op", ss)
      | "u64" => match parseHex arg with
        | some x => let r := newU64 k (BitVec.ofNat 64 x); (r.out, setSlot ss d r.val)
        | none => ("bad-op", ss)
      | "rng" | "try" => match arg.toNat? with
        | some s =>
          let (out, g, src) := newRng k (how == "try") (getSlot ss s)
          (out, setSlot (setSlot ss s src) d g)
        | none => ("bad-op", ss)
      | _ => ("bad-op", ss)
    | _, _ => ("bad-op", ss)
  | "src" :: d :: hex :: rest =>
    match d.toNat?, bytesOfHex hex with
    | some d, some bytes =>
      let failAt := match rest with
        | [k] => k.toNat?
        | _ => none
      ("ok", setSlot ss d (.src bytes.toArray 0 failAt 0))
    | _, _ => ("bad-op", ss)
  | ["pos", s] =>
    match s.toNat? with
    | some s => match getSlot ss s with
      | .src _ pos _ _ => (toString pos, ss)
      | _ => ("unsupported", ss)
    | none => ("bad-op", ss)
  | ["u32", s] =>
    match s.toNat? with
    | some i => match getSlot ss i with
      | .jit _ _ => withJit ss i Jitter.nextU32 hex32
      | v => match v.u32 with
        | some (x, v) => (hex32 x, setSlot ss i v)
        | none => ("unsupported", ss)
    | none => ("bad-op", ss)
  | ["u64", s] =>
    match s.toNat? with
    | some i => match getSlot ss i with
      | .jit _ _ => withJit ss i Jitter.nextU64 hex64
      | v => match v.u64 with
        | some (x, v) => (hex64 x, setSlot ss i v)
        | none => ("unsupported", ss)
    | none => ("bad-op", ss)
  | ["tappend", t, readings] =>
    match t.toNat?, parseReadings readings with
    | some t, some rs => match getSlot ss t with
      | .timer old consumed => ("ok", setSlot ss t (.timer (old ++ rs) consumed))
      | _ => ("bad-op", ss)
    | _, _ => ("bad-op", ss)
  | ["fill", s, n] =>
    match s.toNat?, n.toNat? with
    | some i, some n => match getSlot ss i with
      | .jit _ _ => withJit ss i (Jitter.fill n) hexBytes
      | .src .. => ("unsupported", ss)
      | .empty => ("unsupported", ss)
      | .timer .. => ("unsupported", ss)
      | v => match v.tryFill n with
        | (.ok b, v) => (hexBytes b, setSlot ss i v)
        | (.error _, _) => ("unsupported", ss)
    | _, _ => ("bad-op", ss)
  | [op, s] =>
    match s.toNat? with
    | none => ("bad-op", ss)
    | some i =>
      let v := getSlot ss i
      match op with
      | "jump" => let r := v.jump false; (r.out, setSlot ss i r.val)
      | "ljump" => let r := v.jump true; (r.out, setSlot ss i r.val)
      | "ser" => (v.ser, ss)
      | "dbg" => (v.dbg false, ss)
      | "dbgp" => (v.dbg true, ss)
      | "testtimer" =>
        withJit ss i Jitter.testTimer (fun r => match r with
          | .ok n => s!"ok {n}"
          | .error e => s!"err {timerErrName e}")
      | "calls" => match v with
        | .timer _ consumed => (toString consumed, ss)
        | _ => ("unsupported", ss)
      | "pool" => match v with
        | .jit j _ => (hex64 j.data, ss)
        | _ => ("unsupported", ss)
      | "stir" => match v with
        | .jit j t => ("ok", setSlot ss i (.jit { j with data := Jitter.stir j.data } t))
        | _ => ("unsupported", ss)
      | _ => ("bad-op", ss)
  | ["clone", d, s] =>
    match d.toNat?, s.toNat? with
    | some d, some s => match getSlot ss s with
      | .jit j t => ("ok", setSlot ss d (.jit (Jitter.clone j) t))
      | .timer .. => ("unsupported", ss)
      | .empty => ("unsupported", ss)
      | v => ("ok", setSlot ss d v)
    | _, _ => ("bad-op", ss)
  | ["clonefrom", d, s] =>
    -- `dst.clone_from(&src)`: the default implementation is `*dst = src.clone()`; both slots must hold the same kind
    match d.toNat?, s.toNat? with
    | some d, some s =>
      if d == s then ("unsupported", ss) else
      match getSlot ss d, getSlot ss s with
      | .jit _ _, .jit j t => ("ok", setSlot ss d (.jit (Jitter.clone j) t))
      | .jit _ _, _ => ("unsupported", ss)
      | _, .jit _ _ => ("unsupported", ss)
      | .timer .., _ => ("unsupported", ss)
      | _, .timer .. => ("unsupported", ss)
      | .empty, _ => ("unsupported", ss)
      | _, .empty => ("unsupported", ss)
      | .src .., _ => ("unsupported", ss)
      | _, .src .. => ("unsupported", ss)
      | a, v => if a.sameKind v then ("ok", setSlot ss d v) else ("unsupported", ss)
    | _, _ => ("bad-op", ss)
  | ["burn", _, _] =>
    -- very long histories are run on the real code only (panic-freedom); the model does not follow them
    ("ok", ss)
  | ["race", _, _, _, _] =>
    -- shared-scratch detector of the harness (real code only): in the model instances share nothing by construction
    ("ok", ss)
  | ["rth", d, s] =>
    -- round trip through a human-readable serde format: the restored generator is the original (as for `rt`)
    match d.toNat?, s.toNat? with
    | some d, some s => match (getSlot ss s).rt with
      | some v => ("ok", setSlot ss d v)
      | none => ("unsupported", setSlot ss d .empty)
    | _, _ => ("bad-op", ss)
  | ["rt", d, s] =>
    match d.toNat?, s.toNat? with
    | some d, some s => match (getSlot ss s).rt with
      | some v => ("ok", setSlot ss d v)
      | none => ("unsupported", setSlot ss d .empty)
    | _, _ => ("bad-op", ss)
  | ["eq", a, b] =>
    match a.toNat?, b.toNat? with
    | some a, some b => ((getSlot ss a).eq (getSlot ss b), ss)
    | _, _ => ("bad-op", ss)
  | ["de", d, kind, hex] =>
    match d.toNat?, Kind.ofString kind, bytesOfHex hex with
    | some d, some k, some bs => let r := deKind k bs; (r.out, setSlot ss d r.val)
    | _, _, _ => ("bad-op", ss)
  | ["timer", d, readings] =>
    match d.toNat?, parseReadings readings with
    | some d, some rs => ("ok", setSlot ss d (.timer rs 0))
    | _, _ => ("bad-op", ss)
  | ["jit", d, t] =>
    match d.toNat?, t.toNat? with
    | some d, some t => ("ok", setSlot ss d (.jit Jitter.newWithTimer t))
    | _, _ => ("bad-op", ss)
  | ["rounds", s, n] =>
    match s.toNat?, n.toNat? with
    | some i, some n => match getSlot ss i with
      | .jit j t => match Jitter.setRounds j n with
        | some j => ("ok", setSlot ss i (.jit j t))
        | none => ("panic", ss)
      | _ => ("unsupported", ss)
    | _, _ => ("bad-op", ss)
  | ["stats", s, b] =>
    match s.toNat? with
    | some i => withJit ss i (fun j => Jitter.timerStats j (b == "1")) hex64
    | none => ("bad-op", ss)
  | ["setpool", s, x] =>
    match s.toNat?, parseHex x with
    | some i, some x => match getSlot ss i with
      | .jit j t => ("ok", setSlot ss i (.jit { j with data := BitVec.ofNat 64 x } t))
      | _ => ("unsupported", ss)
    | _, _ => ("bad-op", ss)
  | "proj" :: cls :: words :: ops =>
    -- executable specification of C05: project `ops` out of a given native word stream
    (Spec.Stream.projectLine cls words ops hex32 hex64 hexBytes parseHex, ss)
  | ["jitnew"] => ("ok", ss)     -- real clock: only "does not panic" is comparable (C14)
  | ["reset"] => ("ok", #[])
  | [] => ("", ss)
  | _ => ("bad-op", ss)

partial def loop (hin hout : IO.FS.Stream) (ss : Slots) : IO Unit := do
  let line ← hin.getLine
  if line.isEmpty then
    hout.flush
    return ()
  let (out, ss) := step ss line
  hout.putStrLn out
  loop hin hout ss

def main : IO Unit := do
  loop (← IO.getStdin) (← IO.getStdout) #[]
