/-
  Rngs.Cert.JitterPairCheck — kernel evaluation (`decide +kernel`) of the two closed certificates of
  `Rngs.Cert.JitterPairCert` on the 64 one-bit vectors (2 × 64 evaluations of two chained 64-round LFSR
  folds, 2 × 64 matrix–vector products).
-/
import Rngs.Lib.JitterPair
namespace Rngs.JitterPair
open Rngs Rngs.PoolLinear Rngs.JitterPairCert

theorem pairAcc_cert : ∀ k, k < 64 → matVec pairAccProj (pairAcc (e k)) = proj (e k) := by
  decide +kernel

theorem pairStuck_cert : ∀ k, k < 64 → matVec pairStuckInv (pairStuck (e k)) = e k := by
  decide +kernel

end Rngs.JitterPair
