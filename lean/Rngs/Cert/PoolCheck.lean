/-
  Rngs.Cert.PoolCheck — kernel evaluation (`decide +kernel`) of the three
  closed certificates: the literal matrices of `Rngs.Cert.PoolInverse` are two-sided inverses,
  on the 64 one-bit vectors, of the three GF(2)-linear maps of the JitterRng pool update.
  (128 evaluations of the 64-round function plus 128 matrix–vector products per certificate.)
-/
import Rngs.Lib.PoolJitter

namespace Rngs
namespace PoolCert
open PoolLinear PoolJitter

theorem lfsrPool_inverse : InverseOnBasis (fun d => Jitter.lfsr d 0) invLfsrPool := by
  decide +kernel

theorem lfsrTime_inverse : InverseOnBasis (fun t => Jitter.lfsr 0 t) invLfsrTime := by
  decide +kernel

theorem stirLin_inverse : InverseOnBasis stirLin invStirLin := by
  decide +kernel

end PoolCert
end Rngs
