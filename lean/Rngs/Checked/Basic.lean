/-
  Rngs.Checked.Basic — the partial operations of Rust, made explicit.

  The model (`Rngs/Model`) is total.  Rust is not: indexing and slicing panic out of bounds,
  `+ - *` on primitive integers panic on overflow in builds with overflow checks, `assert!`
  panics when its condition is false, `copy_from_slice` panics on a length mismatch,
  `split_at` panics beyond the length, `/` and `%` panic on a zero divisor.
  Every such operation is represented here by a function into `Except Panic`; the
  `Rngs.Checked.*` modules re-state the model functions with these checks interleaved exactly
  where the Rust source has them, and `Rngs.Props.C14` proves that the checked run always
  equals `.ok` of the model run.

  NOT partial in Rust (and therefore written exactly as in the model): `wrapping_*`,
  `Wrapping<T>` arithmetic, bit operations, `rotate_*`, `as` casts, shifts by a constant
  smaller than the width, `to_le_bytes`, `from_le_bytes`, `leading_zeros`, `unsigned_abs`.
-/
import Rngs.Model.Words
namespace Rngs
namespace Checked

inductive Panic
  | indexOutOfBounds
  | overflow
  | assertFailed
  | sliceLength
  | divByZero
  deriving DecidableEq, Repr

/-- `usize::MAX + 1` on the 64-bit targets the model describes -/
def USIZE : Nat := 2 ^ 64
def U32MAX1 : Nat := 2 ^ 32

/-! ## array indexing -/

/-- `a[i]` (read) -/
def rdC {α : Type} [Inhabited α] (a : Array α) (i : Nat) : Except Panic α :=
  if i < a.size then .ok (rd a i) else .error .indexOutOfBounds

/-- `a[i] = v` -/
def wrC {α : Type} (a : Array α) (i : Nat) (v : α) : Except Panic (Array α) :=
  if i < a.size then .ok (wr a i v) else .error .indexOutOfBounds

/-- `s[i]` where `s = a[off .. off+len]` is a sub-slice obtained earlier (by `split_at_mut`,
    `[lo..hi]`, …): the bound checked is the length of the sub-slice. -/
def rdSubC {α : Type} [Inhabited α] (a : Array α) (off len i : Nat) : Except Panic α :=
  if i < len then rdC a (off + i) else .error .indexOutOfBounds

/-- `s[i] = v` for such a sub-slice -/
def wrSubC {α : Type} (a : Array α) (off len i : Nat) (v : α) : Except Panic (Array α) :=
  if i < len then wrC a (off + i) v else .error .indexOutOfBounds

/-- the bound check of `a[i]` for an array of length `len` whose contents the model does
    not carry (e.g. JitterRng's scratch memory) -/
def idxC (len i : Nat) : Except Panic Unit :=
  if i < len then .ok () else .error .indexOutOfBounds

/-- `l[i]` on a list-modelled slice -/
def lrdC {α : Type} [Inhabited α] (l : List α) (i : Nat) : Except Panic α :=
  if i < l.length then .ok (l.getD i default) else .error .indexOutOfBounds

/-! ## slicing: the checks of `s[lo..]`, `s[..hi]`, `s[lo..hi]`, `s[lo..=hi]`,
    `split_at(mid)`, `copy_from_slice` for a slice of length `len` -/

/-- `s[lo..]` -/
def sliceFromC (len lo : Nat) : Except Panic Unit :=
  if lo ≤ len then .ok () else .error .indexOutOfBounds

/-- `s[..hi]` -/
def sliceToC (len hi : Nat) : Except Panic Unit :=
  if hi ≤ len then .ok () else .error .indexOutOfBounds

/-- `s[lo..hi]` -/
def sliceC (len lo hi : Nat) : Except Panic Unit :=
  if lo ≤ hi ∧ hi ≤ len then .ok () else .error .indexOutOfBounds

/-- `s[lo..=hi]` (`hi = usize::MAX` is excluded by `hi < len`) -/
def sliceInclC (len lo hi : Nat) : Except Panic Unit :=
  if lo ≤ hi + 1 ∧ hi < len then .ok () else .error .indexOutOfBounds

/-- `s.split_at(mid)` / `split_at_mut(mid)` -/
def splitAtC (len mid : Nat) : Except Panic Unit :=
  if mid ≤ len then .ok () else .error .indexOutOfBounds

/-- `dst.copy_from_slice(src)` -/
def copyLenC (dstLen srcLen : Nat) : Except Panic Unit :=
  if dstLen = srcLen then .ok () else .error .sliceLength

/-- `s.chunks_exact(size)` / `chunks_exact_mut(size)`: panics for `size = 0` -/
def chunksExactC (size : Nat) : Except Panic Unit :=
  if size ≠ 0 then .ok () else .error .assertFailed

/-! ## integer arithmetic with overflow checks -/

/-- `a + b` on an unsigned type with `bound = MAX + 1` -/
def addB (bound a b : Nat) : Except Panic Nat :=
  if a + b < bound then .ok (a + b) else .error .overflow

/-- `a - b` on an unsigned type -/
def subC (a b : Nat) : Except Panic Nat :=
  if b ≤ a then .ok (a - b) else .error .overflow

/-- `a * b` on an unsigned type with `bound = MAX + 1` -/
def mulB (bound a b : Nat) : Except Panic Nat :=
  if a * b < bound then .ok (a * b) else .error .overflow

/-- `usize` (and `u64`) addition / multiplication -/
abbrev addC (a b : Nat) : Except Panic Nat := addB USIZE a b
abbrev mulC (a b : Nat) : Except Panic Nat := mulB USIZE a b
/-- `u32` addition -/
abbrev add32C (a b : Nat) : Except Panic Nat := addB U32MAX1 a b

/-- `a / b` on an unsigned type -/
def divC (a b : Nat) : Except Panic Nat :=
  if b ≠ 0 then .ok (a / b) else .error .divByZero

/-- `a % b` on an unsigned type -/
def modC (a b : Nat) : Except Panic Nat :=
  if b ≠ 0 then .ok (a % b) else .error .divByZero

/-- `x << k` / `x >> k` with a run-time shift amount on a type of width `w`:
    overflow check `k < w` -/
def shiftAmtC (w k : Nat) : Except Panic Unit :=
  if k < w then .ok () else .error .overflow

/-- `assert!(b)` -/
def assertC (b : Bool) : Except Panic Unit :=
  if b then .ok () else .error .assertFailed

end Checked
end Rngs
