/-
  Rngs.Checked.FromRng — `from_rng` / `try_from_rng`: seeding from an arbitrary source RNG.
  The source is a `TryFill ρ` as in the model: it may succeed with bytes or fail with an
  error at every call; neither is a panic of the generator under construction.  The only
  partial operations are those of the `from_seed` / `init` that consumes the bytes.
  (XorShiftRng's own `from_rng` / `try_from_rng` read `b[0]` … `b[15]` of a `[u8; 16]` with
  literal indices and call `u32::from_le_bytes`: no partial operation, the model functions
  `XorShift.fromRngFuel` / `tryFromRngFuel` are used unchanged.)
-/
import Rngs.Checked.Hc128
import Rngs.Checked.Isaac
import Rngs.Checked.Xoshiro
namespace Rngs
namespace Checked

/-- default `SeedableRng::from_rng` / `try_from_rng` with a checked `from_seed` -/
def fromRngDefault {σ ρ : Type} (seedLen : Nat) (fromSeedC : List U8 → Except Panic σ)
    (fill : TryFill ρ) (src : ρ) : Except Panic (Except SrcErr σ × ρ) :=
  match fill src seedLen with
  | (.ok bytes, src) => do
    let s ← fromSeedC bytes                           -- `Self::from_seed(seed)`
    pure (.ok s, src)
  | (.error e, src) => pure (.error e, src)

/-- `Hc128Rng::from_rng` / `try_from_rng` -/
def Hc128.fromRng {ρ : Type} (fill : TryFill ρ) (src : ρ) :
    Except Panic (Except SrcErr Rngs.Hc128.Rng × ρ) :=
  fromRngDefault 32 Hc128.fromSeed fill src

/-- `from_rng` of a xoshiro-family generator -/
def XoGen.fromRng? {σ ρ : Type} (g : Rngs.XoGen σ) (wordBytes nWords : Nat) (fill : TryFill ρ)
    (src : ρ) : Except Panic (Except SrcErr (Option σ) × ρ) :=
  fromRngDefault g.seedLen (XoGen.fromSeedFuel g wordBytes nWords Rngs.XoGen.FUEL) fill src

namespace Isaac
open Rngs.Isaac (RAND_SIZE)

/-- `IsaacRng::from_rng` (and, textually identical up to `?`, `try_from_rng`) -/
def fromRng32 {ρ : Type} (fill : TryFill ρ) (src : ρ) :
    Except Panic (Except SrcErr Rngs.Isaac.Rng32 × ρ) :=
  match fill src (RAND_SIZE * 4) with
  | (.ok bytes, src) => do
    let core ← fromRngCore32 bytes
    pure (.ok (Rngs.BlockRng.new Rngs.Isaac.blockCore32 core), src)
  | (.error e, src) => pure (.error e, src)

/-- `Isaac64Rng::from_rng` / `try_from_rng` -/
def fromRng64 {ρ : Type} (fill : TryFill ρ) (src : ρ) :
    Except Panic (Except SrcErr Rngs.Isaac.Rng64 × ρ) :=
  match fill src (RAND_SIZE * 8) with
  | (.ok bytes, src) => do
    let core ← fromRngCore64 bytes
    pure (.ok (Rngs.BlockRng64.new Rngs.Isaac.blockCore64 core), src)
  | (.error e, src) => pure (.error e, src)

/-- `IsaacRng::from_seed` etc.: `BlockRng::new(core)` has no partial operation -/
def fromSeed32 (seed : List U8) : Except Panic Rngs.Isaac.Rng32 := do
  let core ← fromSeedCore32 seed
  pure (Rngs.BlockRng.new Rngs.Isaac.blockCore32 core)
def seedFromU64_32 (x : U64) : Except Panic Rngs.Isaac.Rng32 := do
  let core ← seedFromU64Core32 x
  pure (Rngs.BlockRng.new Rngs.Isaac.blockCore32 core)
def fromSeed64 (seed : List U8) : Except Panic Rngs.Isaac.Rng64 := do
  let core ← fromSeedCore64 seed
  pure (Rngs.BlockRng64.new Rngs.Isaac.blockCore64 core)
def seedFromU64_64 (x : U64) : Except Panic Rngs.Isaac.Rng64 := do
  let core ← seedFromU64Core64 x
  pure (Rngs.BlockRng64.new Rngs.Isaac.blockCore64 core)

end Isaac

end Checked
end Rngs
