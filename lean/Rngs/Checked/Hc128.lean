/-
  Rngs.Checked.Hc128 — rand_hc/src/hc128.rs with every partial operation written out:
  the four `assert!`s at the top of `generate` / `sixteen_steps`, every index into `p`, `q`
  (the two halves produced by `self.t.split_at_mut(512)`, each of length 512), `results` and
  `self.t`, the `usize` additions that compute those indices, the checked
  `self.counter1024 += 16` of `sixteen_steps` (`generate` uses `wrapping_add`), and the
  slicing / `copy_from_slice` / `t[i - k]` operations of `init`.
  Follows `Rngs/Model/Hc128.lean` definition by definition.
-/
import Rngs.Checked.RandCore
import Rngs.Model.Hc128
namespace Rngs
namespace Checked
namespace Hc128
open Rngs.Hc128 (Core Base TABLE f1 f2)

/-- the head of `generate` and of `sixteen_steps`:
    ```
    assert!(self.counter1024 % 16 == 0);
    let cc = self.counter1024 % 512;
    let dd = (cc + 16) % 512;
    let ee = cc.wrapping_sub(16) % 512;
    assert!(ee + 15 < 512); assert!(cc + 15 < 512); assert!(dd < 512);
    ``` -/
def bases (counter : Nat) : Except Panic (Nat × Nat × Nat) := do
  assertC (decide (counter % 16 = 0))
  let cc := counter % 512
  let dd := (← addC cc 16) % 512
  let ee := ((cc + Rngs.Hc128.USIZE - 16) % Rngs.Hc128.USIZE) % 512     -- `wrapping_sub`
  assertC (decide ((← addC ee 15) < 512))
  assertC (decide ((← addC cc 15) < 512))
  assertC (decide (dd < 512))
  pure (cc, dd, ee)

/-- an argument `cc + k`, `dd + k`, `ee + k` of a step: a `usize` addition -/
def idxAdd (b : Nat × Nat × Nat) : Base × Nat → Except Panic Nat
  | (.cc, k) => addC b.1 k
  | (.dd, k) => addC b.2.1 k
  | (.ee, k) => addC b.2.2 k

/-- `step_p`; `p = t[..512]`, `q = t[512..]` after `self.t.split_at_mut(512)` -/
def stepP (t : Array U32) (i i511 i3 i10 i12 : Nat) : Except Panic (U32 × Array U32) := do
  splitAtC t.size 512                                 -- `self.t.split_at_mut(512)`
  let qlen := t.size - 512
  let temp0 := (← rdSubC t 0 512 i511).rotateRight 23 -- `p[i511]`
  let temp1 := (← rdSubC t 0 512 i3).rotateRight 10   -- `p[i3]`
  let temp2 := (← rdSubC t 0 512 i10).rotateRight 8   -- `p[i10]`
  let pi ← rdSubC t 0 512 i                           -- `p[i]`
  let t ← wrSubC t 0 512 i (pi + temp2 + (temp0 ^^^ temp1))  -- `p[i] = …`
  let a : U8 := (← rdSubC t 0 512 i12).setWidth 8     -- `p[i12] as u8`
  let c : U8 := ((← rdSubC t 0 512 i12) >>> 16).setWidth 8
  let qa ← rdSubC t 512 qlen a.toNat                  -- `q[a as usize]`
  let ci ← addC 256 c.toNat                           -- `256 + c as usize`
  let qc ← rdSubC t 512 qlen ci                       -- `q[256 + c as usize]`
  let temp3 := qa + qc
  let pi' ← rdSubC t 0 512 i                          -- `p[i]`
  pure (temp3 ^^^ pi', t)

/-- `step_q` -/
def stepQ (t : Array U32) (i i511 i3 i10 i12 : Nat) : Except Panic (U32 × Array U32) := do
  splitAtC t.size 512
  let qlen := t.size - 512
  let temp0 := (← rdSubC t 512 qlen i511).rotateLeft 23
  let temp1 := (← rdSubC t 512 qlen i3).rotateLeft 10
  let temp2 := (← rdSubC t 512 qlen i10).rotateLeft 8
  let qi ← rdSubC t 512 qlen i
  let t ← wrSubC t 512 qlen i (qi + temp2 + (temp0 ^^^ temp1))
  let a : U8 := (← rdSubC t 512 qlen i12).setWidth 8
  let c : U8 := ((← rdSubC t 512 qlen i12) >>> 16).setWidth 8
  let pa ← rdSubC t 0 512 a.toNat                     -- `p[a as usize]`
  let ci ← addC 256 c.toNat
  let pc ← rdSubC t 0 512 ci                          -- `p[256 + c as usize]`
  let temp3 := pa + pc
  let qi' ← rdSubC t 512 qlen i
  pure (temp3 ^^^ qi', t)

/-- one line `results[k] = self.step_x(…)` of `generate` -/
def genRow (b : Nat × Nat × Nat) (isP : Bool) (acc : Array U32 × Array U32 × Nat)
    (row : (Base × Nat) × (Base × Nat) × (Base × Nat) × (Base × Nat) × (Base × Nat)) :
    Except Panic (Array U32 × Array U32 × Nat) := do
  let (t, results, k) := acc
  let (r0, r1, r2, r3, r4) := row
  let i0 ← idxAdd b r0
  let i1 ← idxAdd b r1
  let i2 ← idxAdd b r2
  let i3 ← idxAdd b r3
  let i4 ← idxAdd b r4
  let (out, t) ← (if isP then stepP t i0 i1 i2 i3 i4 else stepQ t i0 i1 i2 i3 i4)
  let results ← wrC results k out                     -- `results[k] = …`
  pure (t, results, k + 1)

/-- `BlockRngCore::generate` -/
def generate (c : Core) (results : Array U32) : Except Panic (Array U32 × Core) := do
  let b ← bases c.counter
  let isP := (c.counter &&& 512) == 0
  let (t, results, _) ← TABLE.foldlM (genRow b isP) (c.t, results, 0)
  -- `self.counter1024 = self.counter1024.wrapping_add(16)`: no check
  pure (results, { t := t, counter := (c.counter + 16) % Rngs.Hc128.USIZE })

/-- one line `self.t[cc + k] = self.step_p(…)` resp. `self.t[cc + 512 + k] = self.step_q(…)` -/
def setupRow (b : Nat × Nat × Nat) (isP : Bool) (acc : Array U32 × Nat)
    (row : (Base × Nat) × (Base × Nat) × (Base × Nat) × (Base × Nat) × (Base × Nat)) :
    Except Panic (Array U32 × Nat) := do
  let (t, k) := acc
  let (r0, r1, r2, r3, r4) := row
  let i0 ← idxAdd b r0
  let i1 ← idxAdd b r1
  let i2 ← idxAdd b r2
  let i3 ← idxAdd b r3
  let i4 ← idxAdd b r4
  if isP then
    let (out, t) ← stepP t i0 i1 i2 i3 i4
    let j ← addC b.1 k                                -- `cc + k`
    let t ← wrC t j out                               -- `self.t[cc + k] = …`
    pure (t, k + 1)
  else
    let (out, t) ← stepQ t i0 i1 i2 i3 i4
    let j ← addC (← addC b.1 512) k                   -- `cc + 512 + k`
    let t ← wrC t j out                               -- `self.t[cc + 512 + k] = …`
    pure (t, k + 1)

/-- `sixteen_steps` -/
def sixteenSteps (c : Core) : Except Panic Core := do
  let b ← bases c.counter
  let isP := decide (c.counter < 512)
  let (t, _) ← TABLE.foldlM (setupRow b isP) (c.t, 0)
  let counter ← addC c.counter 16                     -- `self.counter1024 += 16` (checked)
  pure { t := t, counter := counter }

/-- `t[i] = f2(t[i-2]) + t[i-7] + f1(t[i-15]) + t[i-16] + add` (all `wrapping_add`) -/
def expandAt (t : Array U32) (i : Nat) (add : U32) : Except Panic (Array U32) := do
  let a ← rdC t (← subC i 2)                          -- `t[i - 2]`
  let b ← rdC t (← subC i 7)                          -- `t[i - 7]`
  let c ← rdC t (← subC i 15)                         -- `t[i - 15]`
  let d ← rdC t (← subC i 16)                         -- `t[i - 16]`
  wrC t i (f2 a + b + f1 c + d + add)                 -- `t[i] = …`

/-- `Hc128Core::init(seed: [u32; 8])` -/
def init (seed : List U32) : Except Panic Core := do
  let t : Array U32 := Array.replicate 1024 0
  splitAtC seed.length 4                              -- `seed.split_at(4)`
  let key := seed.take 4
  let iv := seed.drop 4
  sliceToC t.size 4;    copyLenC 4 key.length         -- `t[..4].copy_from_slice(key)`
  sliceC t.size 4 8;    copyLenC (8 - 4) key.length   -- `t[4..8].copy_from_slice(key)`
  sliceC t.size 8 12;   copyLenC (12 - 8) iv.length   -- `t[8..12].copy_from_slice(iv)`
  sliceC t.size 12 16;  copyLenC (16 - 12) iv.length  -- `t[12..16].copy_from_slice(iv)`
  let t := (key ++ key ++ iv ++ iv).foldl
    (fun (p : Array U32 × Nat) x => (wr p.1 p.2 x, p.2 + 1)) (t, 0) |>.1
  -- `for i in 16..256 + 16 { t[i] = … .wrapping_add(i as u32) }`
  let t ← (List.range 256).foldlM
    (fun t j => do let i := 16 + j; expandAt t i (BitVec.ofNat 32 i)) t
  -- `let (p1, p2) = t.split_at_mut(256); p1[0..16].copy_from_slice(&p2[0..16]);`
  splitAtC t.size 256
  sliceC 256 0 16
  sliceC (t.size - 256) 0 16
  copyLenC (16 - 0) (16 - 0)
  let t := (List.range 16).foldl (fun t j => wr t j (rd t (256 + j))) t
  -- `for i in 16..1024 { t[i] = … .wrapping_add(256 + i as u32) }` (`256 + …` is a u32 add)
  let t ← (List.range 1008).foldlM
    (fun t j => do
      let i := 16 + j
      let add ← add32C 256 (i % U32MAX1)              -- `256 + i as u32`
      expandAt t i (BitVec.ofNat 32 add)) t
  -- `for _ in 0..64 { core.sixteen_steps() }`
  let c ← (List.range 64).foldlM (fun c _ => sixteenSteps c) ({ t := t, counter := 0 } : Core)
  pure { c with counter := 0 }

/-- `Hc128Core::from_seed(seed: [u8; 32])` -/
def fromSeedCore (seed : List U8) : Except Panic Core := do
  let ws ← readU32s seed 8                            -- `le::read_u32_into(&seed, &mut seed_u32)`
  init ws

def blockCoreC : BlockCoreC Core 32 := ⟨generate⟩

/-- `Hc128Rng::from_seed` = `BlockRng::new(Hc128Core::from_seed(seed))` -/
def fromSeed (seed : List U8) : Except Panic Rngs.Hc128.Rng := do
  let core ← fromSeedCore seed
  pure (Rngs.BlockRng.new Rngs.Hc128.blockCore core)

/-- default `seed_from_u64` through the PCG32 expansion -/
def seedFromU64 (x : U64) : Except Panic Rngs.Hc128.Rng := do
  let seed ← pcg32Seed 32 x
  fromSeed seed

def nextU32 (r : Rngs.Hc128.Rng) := BlockRng.nextU32 blockCoreC r
def nextU64 (r : Rngs.Hc128.Rng) := BlockRng.nextU64 blockCoreC r
def fill (n : Nat) (r : Rngs.Hc128.Rng) := BlockRng.fillBytes blockCoreC n r

end Hc128
end Checked
end Rngs
