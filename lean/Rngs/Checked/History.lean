/-
  Rngs.Checked.History — operation histories: an arbitrary finite sequence of the public
  output operations `next_u32`, `next_u64`, `fill_bytes(n)` applied to a block generator,
  in the model (total) and checked (`Except Panic`) versions.
-/
import Rngs.Checked.RandCore
namespace Rngs
namespace Checked

inductive Op
  | nextU32
  | nextU64
  | fill (n : Nat)
  deriving Repr, DecidableEq

/-- a `fill_bytes` destination is a slice, so its length is a `usize` -/
def Op.wf : Op → Prop
  | .fill n => n < USIZE
  | _ => True

namespace BlockRng
variable {σ : Type}

def stepM (c : BlockCore σ 32) (r : Rngs.BlockRng σ) : Op → Rngs.BlockRng σ
  | .nextU32 => (r.nextU32 c).2
  | .nextU64 => (r.nextU64 c).2
  | .fill n => (r.fillBytes c n).2

def stepC (cC : BlockCoreC σ 32) (r : Rngs.BlockRng σ) : Op → Except Panic (Rngs.BlockRng σ)
  | .nextU32 => do let (_, r) ← nextU32 cC r; pure r
  | .nextU64 => do let (_, r) ← nextU64 cC r; pure r
  | .fill n => do let (_, r) ← fillBytes cC n r; pure r

def runM (c : BlockCore σ 32) (ops : List Op) (r : Rngs.BlockRng σ) : Rngs.BlockRng σ :=
  ops.foldl (stepM c) r
def runC (cC : BlockCoreC σ 32) (ops : List Op) (r : Rngs.BlockRng σ) :
    Except Panic (Rngs.BlockRng σ) :=
  ops.foldlM (stepC cC) r

end BlockRng

namespace BlockRng64
variable {σ : Type}

def stepM (c : BlockCore σ 64) (r : Rngs.BlockRng64 σ) : Op → Rngs.BlockRng64 σ
  | .nextU32 => (r.nextU32 c).2
  | .nextU64 => (r.nextU64 c).2
  | .fill n => (r.fillBytes c n).2

def stepC (cC : BlockCoreC σ 64) (r : Rngs.BlockRng64 σ) : Op → Except Panic (Rngs.BlockRng64 σ)
  | .nextU32 => do let (_, r) ← nextU32 cC r; pure r
  | .nextU64 => do let (_, r) ← nextU64 cC r; pure r
  | .fill n => do let (_, r) ← fillBytes cC n r; pure r

def runM (c : BlockCore σ 64) (ops : List Op) (r : Rngs.BlockRng64 σ) : Rngs.BlockRng64 σ :=
  ops.foldl (stepM c) r
def runC (cC : BlockCoreC σ 64) (ops : List Op) (r : Rngs.BlockRng64 σ) :
    Except Panic (Rngs.BlockRng64 σ) :=
  ops.foldlM (stepC cC) r

end BlockRng64

end Checked
end Rngs
