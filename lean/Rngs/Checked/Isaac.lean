/-
  Rngs.Checked.Isaac — rand_isaac `isaac.rs` / `isaac64.rs` with every partial operation of
  the Rust source written out.  Each definition follows the corresponding definition of
  `Rngs/Model/Isaac.lean` line by line (and is parametric in `Params w` in the same way);
  the only additions are the `…C` checks, placed where the Rust has the operation:

    * every `mem[..]`, `results[..]`, `key[..]` is a bounds-checked index (`rdC` / `wrC`);
    * every `+`, `-`, `*` on `usize` (`base + m`, `RAND_SIZE - 1 - base - m`, `i * 4`,
      `i + 1`, …) is overflow-checked (`addC`, `subC`, `mulC`);
    * `% RAND_SIZE` is a remainder (`modC`, panics on a zero divisor).

  NOT partial (and therefore written exactly as in the model): all arithmetic on `w32` /
  `w64 = Wrapping<_>` (`+`, `-`, `+=`, `^`, `!`, and `<<` / `>>`, which for `Wrapping` mask
  the shift amount instead of panicking), `as usize`, and the constant expressions
  `RAND_SIZE - 1`, `MIDPOINT / 4`, `RAND_SIZE / 8`, `RAND_SIZE * 4`, `2 + RAND_SIZE_LEN`
  (evaluated at compile time; an overflow there is a compile error, not a panic).
-/
import Rngs.Checked.RandCore
import Rngs.Model.Isaac
namespace Rngs
namespace Checked
namespace Isaac

open Rngs.Isaac (Params Core Oct GenSt RAND_SIZE RAND_SIZE_LEN MIDPOINT extend params32 params64)

variable {w : Nat}

/-- `fn ind(mem, v, amount)`:
    `let index = (v >> amount).0 as usize % RAND_SIZE; mem[index]` -/
def ind (mem : Array (BitVec w)) (v : BitVec w) (amount : Nat) : Except Panic (BitVec w) := do
  let index ← modC (v >>> amount).toNat RAND_SIZE    -- `… as usize % RAND_SIZE`
  rdC mem index                                      -- `mem[index]`

/-- `fn rngstep(mem, results, mix, a, b, base, m, m2)` -/
def rngstep (p : Params w) (st : GenSt w) (mix : BitVec w) (base m m2 : Nat) :
    Except Panic (GenSt w) := do
  let i1 ← addC base m                               -- `base + m`
  let x ← rdC st.mem i1                              -- `mem[base + m]`
  let i2 ← addC base m2                              -- `base + m2`
  let t ← rdC st.mem i2                              -- `mem[base + m2]`
  let a := mix + t
  let t ← ind st.mem x p.indShift                    -- `ind(mem, x, 2)`
  let y := a + st.b + t
  let i3 ← addC base m                               -- `base + m`
  let mem ← wrC st.mem i3 y                          -- `mem[base + m] = y`
  let t ← ind mem y (p.indShift + RAND_SIZE_LEN)     -- `ind(mem, y, 2 + RAND_SIZE_LEN)`
  let b := x + t
  let r1 ← subC (RAND_SIZE - 1) base                 -- `RAND_SIZE - 1 - base`
  let r2 ← subC r1 m                                 -- `… - m`
  let results ← wrC st.results r2 b                  -- `results[RAND_SIZE - 1 - base - m] = b.0`
  pure { mem := mem, results := results, a := a, b := b }

/-- the body of `for i in (0..MIDPOINT / 4).map(|i| i * 4)` -/
def halfStep (p : Params w) (m m2 : Nat) (st : GenSt w) (j : Nat) : Except Panic (GenSt w) := do
  let i ← mulC j 4                                   -- `i * 4`
  let b0 ← addC i 0                                  -- `i + 0`
  let st ← rngstep p st (p.mix0 st.a) b0 m m2
  let b1 ← addC i 1                                  -- `i + 1`
  let st ← rngstep p st (p.mix1 st.a) b1 m m2
  let b2 ← addC i 2                                  -- `i + 2`
  let st ← rngstep p st (p.mix2 st.a) b2 m m2
  let b3 ← addC i 3                                  -- `i + 3`
  let st ← rngstep p st (p.mix3 st.a) b3 m m2
  pure st

/-- one `for i in (0..MIDPOINT/4).map(|i| i*4)` half loop with offsets `m`, `m2` -/
def halfLoop (p : Params w) (st : GenSt w) (m m2 : Nat) : Except Panic (GenSt w) :=
  (List.range (MIDPOINT / 4)).foldlM (halfStep p m m2) st

/-- `BlockRngCore::generate` -/
def generate (p : Params w) (core : Core w) (results : Array (BitVec w)) :
    Except Panic (Array (BitVec w) × Core w) := do
  let c := core.c + 1                                -- `self.c += w(1)` (Wrapping)
  let a := core.a
  let b := core.b + c                                -- Wrapping
  let st : GenSt w := { mem := core.mem, results := results, a := a, b := b }
  let st ← halfLoop p st 0 MIDPOINT
  let st ← halfLoop p st MIDPOINT 0
  pure (st.results, { mem := st.mem, a := st.a, b := st.b, c := c })

/-- the body of `for i in (0..RAND_SIZE / 8).map(|i| i * 8)` in `init` -/
def initStep (p : Params w) (acc : Array (BitVec w) × Oct w) (j : Nat) :
    Except Panic (Array (BitVec w) × Oct w) := do
  let (mem, o) := acc
  let i ← mulC j 8                                   -- `i * 8`
  let ma ← rdC mem i                                 -- `a += mem[i]`
  let i1 ← addC i 1
  let mb ← rdC mem i1                                -- `b += mem[i + 1]`
  let i2 ← addC i 2
  let mc ← rdC mem i2                                -- `c += mem[i + 2]`
  let i3 ← addC i 3
  let md ← rdC mem i3                                -- `d += mem[i + 3]`
  let i4 ← addC i 4
  let me ← rdC mem i4                                -- `e += mem[i + 4]`
  let i5 ← addC i 5
  let mf ← rdC mem i5                                -- `f += mem[i + 5]`
  let i6 ← addC i 6
  let mg ← rdC mem i6                                -- `g += mem[i + 6]`
  let i7 ← addC i 7
  let mh ← rdC mem i7                                -- `h += mem[i + 7]`
  let o : Oct w := ⟨o.a + ma, o.b + mb, o.c + mc, o.d + md, o.e + me, o.f + mf, o.g + mg, o.h + mh⟩
  let o := p.mix o                                   -- `mix(&mut a, …, &mut h)`
  let mem ← wrC mem i o.a                            -- `mem[i] = a`
  let i1 ← addC i 1
  let mem ← wrC mem i1 o.b                           -- `mem[i + 1] = b`
  let i2 ← addC i 2
  let mem ← wrC mem i2 o.c                           -- `mem[i + 2] = c`
  let i3 ← addC i 3
  let mem ← wrC mem i3 o.d                           -- `mem[i + 3] = d`
  let i4 ← addC i 4
  let mem ← wrC mem i4 o.e                           -- `mem[i + 4] = e`
  let i5 ← addC i 5
  let mem ← wrC mem i5 o.f                           -- `mem[i + 5] = f`
  let i6 ← addC i 6
  let mem ← wrC mem i6 o.g                           -- `mem[i + 6] = g`
  let i7 ← addC i 7
  let mem ← wrC mem i7 o.h                           -- `mem[i + 7] = h`
  pure (mem, o)

/-- `fn init(mem, rounds)` -/
def init (p : Params w) (mem : Array (BitVec w)) (rounds : Nat) : Except Panic (Core w) := do
  let (mem, _) ←
    (List.range rounds).foldlM                       -- `for _ in 0..rounds`
      (fun (acc : Array (BitVec w) × Oct w) _ =>
        (List.range (RAND_SIZE / 8)).foldlM (initStep p) acc)
      (mem, p.golden)
  pure { mem := mem, a := 0, b := 0, c := 0 }

/-! ### IsaacCore (`isaac.rs`) -/

/-- `IsaacCore::from_seed`: `le::read_u32_into(&seed, &mut seed_u32)` (asserts), the
    `iter_mut().zip(..)` copy into `[w(0); RAND_SIZE]` (no partial operation), `init(.., 2)` -/
def fromSeedCore32 (seed : List U8) : Except Panic (Core 32) := do
  let ws ← Checked.readU32s seed 8
  init params32 (extend ws) 2

/-- `IsaacCore::seed_from_u64`:
    `let mut key = [w(0); RAND_SIZE]; key[0] = w(seed as u32); key[1] = w((seed >> 32) as u32);
     Self::init(key, 1)` -/
def seedFromU64Core32 (x : U64) : Except Panic (Core 32) := do
  let key : Array (BitVec 32) := Array.replicate RAND_SIZE 0
  let key ← wrC key 0 (x.setWidth 32)                -- `key[0] = …`
  let key ← wrC key 1 ((x >>> 32).setWidth 32)       -- `key[1] = …`
  init params32 key 1

/-- the core construction of `IsaacCore::from_rng` / `try_from_rng` after the source has
    filled the `RAND_SIZE * 4` bytes: the `for i in seed.iter_mut() { *i = w(i.0.to_le()) }`
    pass (total; the bytes are reinterpreted in place, there is no `read_u32_into` call and
    hence no assertion), then `init(seed, 2)` -/
def fromRngCore32 (bytes : List U8) : Except Panic (Core 32) :=
  init params32 (Rngs.readU32s bytes RAND_SIZE).toArray 2

def blockCoreC32 : BlockCoreC (Core 32) 32 := ⟨generate params32⟩

/-! ### Isaac64Core (`isaac64.rs`) -/

/-- `Isaac64Core::from_seed` -/
def fromSeedCore64 (seed : List U8) : Except Panic (Core 64) := do
  let ws ← Checked.readU64s seed 4
  init params64 (extend ws) 2

/-- `Isaac64Core::seed_from_u64`:
    `let mut key = [w(0); RAND_SIZE]; key[0] = w(seed); Self::init(key, 1)` -/
def seedFromU64Core64 (x : U64) : Except Panic (Core 64) := do
  let key : Array (BitVec 64) := Array.replicate RAND_SIZE 0
  let key ← wrC key 0 x                              -- `key[0] = w(seed)`
  init params64 key 1

/-- the core construction of `Isaac64Core::from_rng` / `try_from_rng` -/
def fromRngCore64 (bytes : List U8) : Except Panic (Core 64) :=
  init params64 (Rngs.readU64s bytes RAND_SIZE).toArray 2

def blockCoreC64 : BlockCoreC (Core 64) 64 := ⟨generate params64⟩

end Isaac
end Checked
end Rngs
