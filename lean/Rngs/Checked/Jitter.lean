/-
  Rngs.Checked.Jitter — rand_jitter/src/lib.rs with every partial operation of the Rust source
  written out.  Each definition follows the corresponding definition of `Rngs/Model/Jitter.lean`
  line by line (same folds, same recursion, same fuel); the only additions are the `…C` checks,
  placed where the Rust has the operation, and the pieces of the Rust code which the model drops
  because they have no effect on any result (the throw-away LFSR rounds, the accesses to the
  scratch memory, `black_box(ec.mem[0])`) but which could in principle panic.

  The timer monad of the model is `TM = StateT (List U64) Option` (`none` = the scripted timer
  ran out: the call is *blocked*, which is not a panic).  The checked monad `TMC` adds the third
  outcome: `.error p` = the Rust code panics.
-/
import Rngs.Checked.RandCore
import Rngs.Model.Jitter
namespace Rngs
namespace Checked
namespace Jitter
open Rngs.Jitter (Rng Ec TM TimerError Probe MEMORY_BLOCKSIZE MEMORY_SIZE STIR_CONSTANT STIR_MIXER
  TESTLOOPCOUNT CLEARCACHE LOG2_LOOKUP)

/-! ## the checked timer monad -/

/-- a computation reading the scripted timer: panics (`.error`), blocks on an exhausted timer
    script (`.ok none`), or returns a value and the rest of the script -/
def TMC (α : Type) : Type := List U64 → Except Panic (Option (α × List U64))

namespace TMC
variable {α β : Type}

protected def pure (a : α) : TMC α := fun rs => .ok (some (a, rs))

protected def bind (m : TMC α) (f : α → TMC β) : TMC β := fun rs =>
  match m rs with
  | .error e => .error e
  | .ok none => .ok none
  | .ok (some (a, rs')) => f a rs'

instance : Monad TMC where
  pure := TMC.pure
  bind := TMC.bind

end TMC

/-- a pure checked operation inside the timer monad -/
def liftE {α : Type} (e : Except Panic α) : TMC α := fun rs =>
  match e with
  | .ok a => .ok (some (a, rs))
  | .error p => .error p

/-- a model computation (which never panics) inside the checked monad -/
def liftTM {α : Type} (m : TM α) : TMC α := fun rs => .ok (m rs)

/-- `(self.timer)()`: calling the closure is not a partial operation of `JitterRng` -/
def tick : TMC U64 := fun rs =>
  match rs with
  | [] => .ok none
  | r :: rs => .ok (some (r, rs))

/-- the model's `get` (used only to compute the fuel of `collect`) -/
def getScript : TMC (List U64) := fun rs => .ok (some (rs, rs))

/-- the model's `failure`: blocked, not a panic -/
def blocked {α : Type} : TMC α := fun _ => .ok none

/-! ## checks that are special to this crate -/

/-- `a % b` on `i32` panics for `b = 0` and overflows for `i32::MIN % -1`; the check is made
    on the divisor alone (conservatively).  In `test_timer` the divisor is the constant 100. -/
def remI32C (b : Int) : Except Panic Unit :=
  if b = 0 then .error .divByZero else if b = -1 then .error .overflow else .ok ()

/-- `a - b` on `i64` -/
def subI64C (a b : Int) : Except Panic Int :=
  if -2 ^ 63 ≤ a - b ∧ a - b < 2 ^ 63 then .ok (a - b) else .error .overflow

/-- `u64::leading_zeros` (total in Rust) -/
def leadingZeros64 (x : Nat) : Nat := if x = 0 then 64 else 64 - (Nat.log2 x + 1)

/-! ## `random_loop_cnt` -/

/-- `random_loop_cnt(n_bits: u32) -> u32` -/
def randomLoopCnt (j : Rng) (nBits : Nat) : TMC U32 := do
  let time ← tick
  let time := time ^^^ j.data                       -- `time ^= self.data`
  let s ← liftE (add32C 64 nBits)                   -- `64 + n_bits`
  let s ← liftE (subC s 1)                          -- `.. - 1`
  let folds ← liftE (divC s nBits)                  -- `.. / n_bits`
  liftE (shiftAmtC 64 nBits)                        -- `1 << n_bits` (u64, run-time amount)
  let one : U64 := 1#64 <<< nBits
  let _ ← liftE (subC one.toNat 1)                  -- `.. - 1` (u64)
  let mask : U64 := one - 1
  let (rounds, _) ← liftE ((List.range folds).foldlM
    (fun (p : U64 × U64) _ => do
      shiftAmtC 64 nBits                            -- `time >>= n_bits`
      pure (p.1 ^^^ (p.2 &&& mask), p.2 >>> nBits)) (0#64, time))
  pure (rounds.setWidth 32)                         -- `rounds as u32`

/-! ## `lfsr_time` -/

/-- the local `fn lfsr(data, time)`: `for i in 1..65`, the only run-time shift amount is
    `64 - i`; all other shifts are by constants below 64; `rotate_left` is total -/
def lfsr (data time : U64) : Except Panic U64 :=
  (List.range 64).foldlM
    (fun data k => do
      let i := k + 1
      let sh ← subC 64 i                            -- `64 - i`
      shiftAmtC 64 sh                               -- `time << (64 - i)`
      let tmp := time <<< sh
      let tmp := tmp >>> (64 - 1)                   -- constant
      let data := data ^^^ tmp
      let data := data ^^^ ((data >>> 63) &&& 1)
      let data := data ^^^ ((data >>> 60) &&& 1)
      let data := data ^^^ ((data >>> 55) &&& 1)
      let data := data ^^^ ((data >>> 30) &&& 1)
      let data := data ^^^ ((data >>> 27) &&& 1)
      let data := data ^^^ ((data >>> 22) &&& 1)
      pure (data.rotateLeft 1))
    data

/-- `lfsr_time(time, var_rounds)`, including the throw-away rounds the model drops -/
def lfsrTime (j : Rng) (time : U64) (varRounds : Bool) : TMC Rng := do
  let lfsrLoopCnt ← (if varRounds then randomLoopCnt j 4 else pure 0)
  -- `for _ in 0..lfsr_loop_cnt { throw_away = lfsr(throw_away, time) }; black_box(throw_away)`
  let _throwAway ← liftE ((List.range lfsrLoopCnt.toNat).foldlM (fun t _ => lfsr t time) 0#64)
  let data ← liftE (lfsr j.data time)
  pure { j with data := data }

/-! ## `memaccess` -/

/-- `memaccess(mem, var_rounds)`; `mem : [u8; MEMORY_SIZE]` is not carried, its index checks are -/
def memaccess (j : Rng) (varRounds : Bool) : TMC Rng := do
  let accLoopCnt ← (if varRounds then do
      let extra ← randomLoopCnt j 4
      liftE (add32C 128 extra.toNat)                -- `acc_loop_cnt += self.random_loop_cnt(4)`
    else pure 128)
  let index := j.memPrevIndex                       -- `self.mem_prev_index as usize`
  let index ← liftE ((List.range accLoopCnt).foldlM
    (fun index _ => do
      let a ← addC index MEMORY_BLOCKSIZE           -- `index + MEMORY_BLOCKSIZE`
      let b ← subC a 1                              -- `.. - 1`
      let index ← modC b MEMORY_SIZE                -- `.. % MEMORY_SIZE`
      idxC MEMORY_SIZE index                        -- `mem[index]` (read; `wrapping_add(1)`)
      idxC MEMORY_SIZE index                        -- `mem[index] = ..`
      pure index) index)
  pure { j with memPrevIndex := index % 65536 }     -- `index as u16`

/-! ## `EcState::stuck`, `measure_jitter` -/

/-- `EcState::stuck`: only `wrapping_sub` and comparisons — nothing to check (this is where the
    unfixed code had the overflowing `i32` subtractions) -/
def stuck (ec : Ec) (currentDelta : U32) : Except Panic (Bool × Ec) :=
  let delta2 := ec.lastDelta - currentDelta         -- `wrapping_sub`
  let delta3 := delta2 - ec.lastDelta2              -- `wrapping_sub`
  pure (currentDelta == 0 || delta2 == 0 || delta3 == 0,
        { ec with lastDelta := currentDelta, lastDelta2 := delta2 })

/-- `measure_jitter`: `wrapping_sub`, `as` casts, `rotate_left` only, besides the calls -/
def measureJitter (j : Rng) (ec : Ec) : TMC (Bool × Rng × Ec) := do
  let j ← memaccess j true
  let time ← tick
  let currentDelta : U32 := (time - ec.prevTime).setWidth 32
  let ec := { ec with prevTime := time }
  let j ← lfsrTime j (currentDelta.signExtend 64) true
  let (st, ec) ← liftE (stuck ec currentDelta)
  if st then pure (false, j, ec)
  else pure (true, { j with data := j.data.rotateLeft 7 }, ec)

/-! ## `stir_pool` -/

/-- `stir_pool`: `self.data >> i` for `i in 0..64` is the run-time shift;
    `apply.wrapping_sub(1)` needs no check -/
def stir (data : U64) : Except Panic U64 := do
  let mixer ← (List.range 64).foldlM
    (fun mixer i => do
      shiftAmtC 64 i                                -- `self.data >> i`
      let apply := (data >>> i) &&& 1
      let mask := ~~~(apply - 1)
      let mixer := mixer ^^^ (STIR_CONSTANT &&& mask)
      pure (mixer.rotateLeft 1))
    STIR_MIXER
  pure (data ^^^ mixer)

/-! ## `gen_entropy` -/

def collect : Nat → Nat → Rng → Ec → TMC (Rng × Ec)
  | _, 0, j, ec => pure (j, ec)
  | 0, _ + 1, _, _ => blocked
  | fuel + 1, need + 1, j, ec => do
    let (ok, j, ec) ← measureJitter j ec
    if ok then collect fuel need j ec else collect fuel (need + 1) j ec

def genEntropy (j : Rng) : TMC (U64 × Rng) := do
  let t ← tick
  let ec : Ec := { prevTime := t, lastDelta := 0, lastDelta2 := 0 }
  let (_, j, ec) ← measureJitter j ec
  let fuel := (← getScript).length + 1
  let (j, _) ← collect fuel j.rounds j ec
  liftE (idxC MEMORY_SIZE 0)                        -- `black_box(ec.mem[0])`
  let data ← liftE (stir j.data)                    -- `self.stir_pool()`
  let j := { j with data := data }
  pure (j.data, j)

/-! ## `RngCore` -/

def nextU64 (j : Rng) : TMC (U64 × Rng) :=
  genEntropy { j with halfUsed := false }

def nextU32 (j : Rng) : TMC (U32 × Rng) := do
  if j.halfUsed then
    pure ((j.data >>> 32).setWidth 32, { j with halfUsed := false })   -- constant shift, cast
  else
    let (v, j) ← nextU64 j
    let j := { j with data := v, halfUsed := true }
    pure (j.data.setWidth 32, j)

/-- `impls::fill_bytes_via_next`, the `while left.len() >= 8` loop (cf. `Checked.fillLoop`) -/
def fillLoop : Nat → Nat → Rng → TMC (List U8 × Rng × Nat)
  | 0,     left, j => pure ([], j, left)
  | k + 1, left, j => do
    liftE (splitAtC left 8)                         -- `{ left }.split_at_mut(8)`
    let left' := left - 8
    let (w, j) ← nextU64 j
    liftE (copyLenC 8 (U64.toLE w).length)          -- `l.copy_from_slice(&chunk)`
    let (rest, j, left'') ← fillLoop k left' j
    pure (U64.toLE w ++ rest, j, left'')

def fill (n : Nat) (j : Rng) : TMC (List U8 × Rng) := do
  let (pre, j, left) ← fillLoop (n / 8) n j
  let r := left                                     -- `let n = left.len();`
  if r > 4 then
    let (w, j) ← nextU64 j
    liftE (sliceToC (U64.toLE w).length r)          -- `&chunk[..n]`
    liftE (copyLenC r ((U64.toLE w).take r).length) -- `left.copy_from_slice(..)`
    pure (pre ++ (U64.toLE w).take r, j)
  else if r > 0 then
    let (w, j) ← nextU32 j
    liftE (sliceToC (U32.toLE w).length r)
    liftE (copyLenC r ((U32.toLE w).take r).length)
    pure (pre ++ (U32.toLE w).take r, j)
  else pure (pre, j)

/-! ## `timer_stats`, `set_rounds`, `clone`, `new_with_timer` -/

/-- `timer_stats`: `wrapping_sub` and `as i64` besides the calls -/
def timerStats (j : Rng) (varRounds : Bool) : TMC (U64 × Rng) := do
  let time ← tick
  let j ← memaccess j varRounds
  let j ← lfsrTime j time varRounds
  let time2 ← tick
  pure (time2 - time, j)

/-- `set_rounds`: `assert!(rounds > 0)` — the one documented panic -/
def setRounds (j : Rng) (rounds : Nat) : Except Panic Rng := do
  assertC (decide (rounds > 0))
  pure { j with rounds := rounds }

/-- `Clone`: no partial operation -/
def clone (j : Rng) : Except Panic Rng := pure { j with halfUsed := false }

/-- `new_with_timer`: no partial operation -/
def newWithTimer : Except Panic Rng :=
  pure { data := 0, rounds := 64, memPrevIndex := 0, halfUsed := false }

/-! ## `test_timer` -/

/-- the tail of `test_timer` from `let delta_average = ..` on -/
def roundsOf (deltaSum : Nat) : Except Panic Nat := do
  let deltaAverage ← divC deltaSum TESTLOOPCOUNT    -- `delta_sum / TESTLOOPCOUNT`
  if deltaAverage ≥ 16 then
    let log2 ← subC 64 (leadingZeros64 deltaAverage) -- `64 - delta_average.leading_zeros()` (u32)
    let a ← mulB U32MAX1 64 2                       -- `64u32 * 2`
    let b ← add32C a log2                           -- `.. + log2`
    let c ← subC b 1                                -- `.. - 1`
    let d ← divC c log2                             -- `.. / log2`
    pure (d % 256)                                  -- `as u8`
  else
    lrdC LOG2_LOOKUP deltaAverage                   -- `log2_lookup[delta_average as usize]`

/-- the checks after the loop -/
def verdict (p : Probe) : Except Panic (Except TimerError Nat) := do
  if p.timeBackwards > 3 then pure (.error .NotMonotonic)
  else
    let lim ← mulC 2 TESTLOOPCOUNT                  -- `2 * TESTLOOPCOUNT`
    if p.deltaSum < lim then pure (.error .TinyVariations)
    else
      let a ← mulC TESTLOOPCOUNT 9                  -- `TESTLOOPCOUNT * 9`
      let lim ← divC a 10                           -- `.. / 10`
      if p.countMod > lim then pure (.error .CoarseTimer)
      else
        let a ← mulC TESTLOOPCOUNT 9
        let lim ← divC a 10
        if p.countStuck > lim then pure (.error .TooManyStuck)
        else
          let r ← roundsOf p.deltaSum
          pure (.ok r)

/-- the accumulating part of one probe iteration (after the `continue` for `i < CLEARCACHE`) -/
def probeAcc (st : Bool) (time time2 : U64) (delta : U32) (p : Probe) : Except Panic Probe := do
  -- `if ec.stuck(delta) { count_stuck += 1 }` (u64)
  let p ← (if st then do
      let c ← addC p.countStuck 1
      pure { p with countStuck := c }
    else pure p)
  -- `if time2 <= time { time_backwards += 1 }` (i32)
  let p ← (if time2 ≤ time then do
      let c ← addB (2 ^ 31) p.timeBackwards 1
      pure { p with timeBackwards := c }
    else pure p)
  -- `if (delta % 100) == 0 { count_mod += 1 }` (i32 remainder, u64 counter)
  remI32C 100
  let p ← (if delta.toInt % 100 == 0 then do
      let c ← addC p.countMod 1
      pure { p with countMod := c }
    else pure p)
  -- `delta_sum += (i64::from(delta) - i64::from(old_delta)).unsigned_abs()`
  let d ← subI64C delta.toInt p.oldDelta.toInt
  let s ← addC p.deltaSum d.natAbs
  pure { p with deltaSum := s, oldDelta := delta }

/-- iterations `i, i+1, …` of the probe loop, `n` of them left (the range iterator itself has
    no partial operation) -/
def probeLoop : Nat → Nat → Rng → Ec → Probe → TMC (Except TimerError Probe × Rng)
  | 0, _, j, _, p => pure (.ok p, j)
  | n + 1, i, j, ec, p => do
    let time ← tick
    let j ← memaccess j true
    let j ← lfsrTime j time true
    let time2 ← tick
    if time == 0 || time2 == 0 then pure (.error .NoTimer, j)
    else
      let delta : U32 := (time2 - time).setWidth 32  -- `wrapping_sub(..) as i64 as i32`
      if delta == 0 then pure (.error .CoarseTimer, j)
      else if i < CLEARCACHE then probeLoop n (i + 1) j ec p
      else
        let (st, ec) ← liftE (stuck ec delta)
        let p ← liftE (probeAcc st time time2 delta p)
        probeLoop n (i + 1) j ec p

/-- `test_timer` -/
def testTimer (j : Rng) : TMC (Except TimerError Nat × Rng) := do
  let t ← tick
  let ec : Ec := { prevTime := t, lastDelta := 0, lastDelta2 := 0 }
  let total ← liftE (addC CLEARCACHE TESTLOOPCOUNT)  -- `CLEARCACHE + TESTLOOPCOUNT`
  let (r, j) ← probeLoop total 0 j ec {}
  match r with
  | .error e => pure (.error e, j)                  -- early `return Err(..)` inside the loop
  | .ok p =>
    liftE (idxC MEMORY_SIZE 0)                      -- `black_box(ec.mem[0])`
    let v ← liftE (verdict p)
    pure (v, j)

/-! ## `JitterRng::new()` -/

/-- `JitterRng::new()` (feature `std`) with the platform timer as the scripted timer; `cached` is
    `JITTER_ROUNDS.load(..) as u8`.  The atomic load/store and the casts are total; the partial
    operation is `set_rounds(rounds)` with the value `test_timer` returned. -/
def new (cached : Nat) : TMC (Except TimerError Rng) := do
  let state ← liftE newWithTimer
  let (r, state) ← (if cached == 0 then testTimer state else pure (.ok cached, state))
  match r with
  | .error e => pure (.error e)                     -- `state.test_timer()?`
  | .ok rounds =>
    let state ← liftE (setRounds state rounds)      -- `state.set_rounds(rounds)`
    let (_, state) ← genEntropy state               -- `state.gen_entropy()`
    pure (.ok state)

end Jitter
end Checked
end Rngs
