/-
  Rngs.Checked.RandCore — rand_core 0.9.5 `impls.rs`, `block.rs`, `le.rs`, `lib.rs`
  (`seed_from_u64`) with every partial operation of the Rust source written out.
  Each definition follows the corresponding definition of `Rngs/Model/RandCore.lean` line by
  line; the only additions are the `…C` checks, placed where the Rust has the operation.
-/
import Rngs.Checked.Basic
import Rngs.Model.RandCore
namespace Rngs
namespace Checked

/-! ## `le::read_u32_into`, `le::read_u64_into` -/

/-- `read_u32_into(src, dst)` with `dst.len() = n`:
    `assert!(src.len() >= 4 * dst.len())`, then `dst.iter_mut().zip(src.chunks_exact(4))`;
    `chunk.try_into().unwrap()` cannot fail because `chunks_exact(4)` yields slices of
    length exactly 4. -/
def readU32s (bs : List U8) (n : Nat) : Except Panic (List U32) := do
  let need ← mulC 4 n                       -- `4 * dst.len()`
  assertC (decide (bs.length ≥ need))       -- `assert!(src.len() >= 4 * dst.len())`
  chunksExactC 4                            -- `src.chunks_exact(4)`
  pure (Rngs.readU32s bs n)

/-- `read_u64_into(src, dst)` with `dst.len() = n` -/
def readU64s (bs : List U8) (n : Nat) : Except Panic (List U64) := do
  let need ← mulC 8 n
  assertC (decide (bs.length ≥ need))
  chunksExactC 8
  pure (Rngs.readU64s bs n)

/-! ## `impls::fill_bytes_via_next` -/

/-- the `while left.len() >= 8` loop, `k` iterations, `left = left.len()`; returns the
    remaining length as well -/
def fillLoop {σ : Type} (n64 : σ → U64 × σ) : Nat → Nat → σ → Except Panic (List U8 × σ × Nat)
  | 0,     left, s => pure ([], s, left)
  | k + 1, left, s => do
    splitAtC left 8                                  -- `{ left }.split_at_mut(8)`
    let left' := left - 8                            -- `left = r`
    let (w, s) := n64 s
    copyLenC 8 (U64.toLE w).length                   -- `l.copy_from_slice(&chunk)`
    let (rest, s, left'') ← fillLoop n64 k left' s
    pure (U64.toLE w ++ rest, s, left'')

def fillBytesViaNext {σ : Type} (g : Direct σ) (n : Nat) (s : σ) : Except Panic (List U8 × σ) := do
  let (pre, s, left) ← fillLoop g.nextU64 (n / 8) n s
  let r := left                                      -- `let n = left.len();`
  if r > 4 then
    let (w, s) := g.nextU64 s
    sliceToC (U64.toLE w).length r                   -- `&chunk[..n]`
    copyLenC r ((U64.toLE w).take r).length          -- `left.copy_from_slice(..)`
    pure (pre ++ (U64.toLE w).take r, s)
  else if r > 0 then
    let (w, s) := g.nextU32 s
    sliceToC (U32.toLE w).length r
    copyLenC r ((U32.toLE w).take r).length
    pure (pre ++ (U32.toLE w).take r, s)
  else pure (pre, s)

/-! ## `impls::fill_via_chunks` -/

def fillViaChunks {w : Nat} (size : Nat) (toLE : BitVec w → List U8)
    (src : List (BitVec w)) (destLen : Nat) : Except Panic (Nat × Nat × List U8) := do
  chunksExactC size                                  -- `dest.chunks_exact_mut(size)`
  let numChunks := min (destLen / size) src.length   -- `zipped.len()`
  -- `zipped.for_each(|(dest, src)| dest.copy_from_slice(src.to_le_bytes().as_ref()))`
  let chunks ← (src.take numChunks).mapM
    (fun x => do copyLenC size (toLE x).length; pure (toLE x))
  let bytes := chunks.flatten
  let byteLen ← mulC numChunks size                  -- `num_chunks * size`
  match src.drop numChunks with
  | x :: _ =>
    let n := destLen % size                          -- `dest.into_remainder().len()`
    if n > 0 then
      sliceToC (toLE x).length n                     -- `&src.to_le_bytes().as_ref()[..n]`
      copyLenC n ((toLE x).take n).length            -- `dest.copy_from_slice(..)`
      let consumed ← addC numChunks 1                -- `num_chunks + 1`
      let filled ← addC byteLen n                    -- `byte_len + n`
      pure (consumed, filled, bytes ++ (toLE x).take n)
    else pure (numChunks, byteLen, bytes)
  | [] => pure (numChunks, byteLen, bytes)

/-! ## `block::BlockRng` -/

/-- a `BlockRngCore` whose `generate` may panic -/
structure BlockCoreC (σ : Type) (w : Nat) where
  generate : σ → Array (BitVec w) → Except Panic (Array (BitVec w) × σ)

namespace BlockRng
variable {σ : Type}

def generateAndSet (c : BlockCoreC σ 32) (r : BlockRng σ) (index : Nat) :
    Except Panic (BlockRng σ) := do
  assertC (decide (index < r.results.size))      -- `assert!(index < self.results.as_ref().len())`
  let (res, core) ← c.generate r.core r.results
  pure { results := res, index := index, core := core }

def nextU32 (c : BlockCoreC σ 32) (r : BlockRng σ) : Except Panic (U32 × BlockRng σ) := do
  let r ← (if r.index ≥ r.results.size then generateAndSet c r 0 else pure r)
  let value ← rdC r.results r.index              -- `self.results.as_ref()[self.index]`
  let index ← addC r.index 1                     -- `self.index += 1`
  pure (value, { r with index := index })

/-- the closure `read_u64` of `next_u64` -/
def readU64 (results : Array U32) (index : Nat) : Except Panic U64 := do
  let hi ← addC index 1                          -- `index + 1`
  sliceInclC results.size index hi               -- `&results[index..=index + 1]`
  let dlen := hi + 1 - index                     -- `data.len()`
  let d1 ← rdSubC results index dlen 1           -- `data[1]`
  let d0 ← rdSubC results index dlen 0           -- `data[0]`
  pure ((d1.setWidth 64 <<< 32) ||| d0.setWidth 64)

def nextU64 (c : BlockCoreC σ 32) (r : BlockRng σ) : Except Panic (U64 × BlockRng σ) := do
  let len := r.results.size
  let index := r.index
  let lenm1 ← subC len 1                         -- `len - 1`
  if index < lenm1 then
    let index2 ← addC r.index 2                  -- `self.index += 2`
    let v ← readU64 r.results index
    pure (v, { r with index := index2 })
  else if index ≥ len then
    let r ← generateAndSet c r 2
    let v ← readU64 r.results 0
    pure (v, r)
  else
    let lenm1 ← subC len 1                       -- `len - 1`
    let x := (← rdC r.results lenm1).setWidth 64 -- `self.results.as_ref()[len - 1]`
    let r ← generateAndSet c r 1
    let y := (← rdC r.results 0).setWidth 64     -- `self.results.as_ref()[0]`
    pure ((y <<< 32) ||| x, r)

def fillLoop (c : BlockCoreC σ 32) (n : Nat) :
    Nat → Nat → List U8 → BlockRng σ → Except Panic (List U8 × BlockRng σ)
  | 0, _, acc, r => pure (acc, r)
  | fuel + 1, readLen, acc, r =>
    if readLen < n then do
      let r ← (if r.index ≥ r.results.size then generateAndSet c r 0 else pure r)
      sliceFromC r.results.size r.index          -- `&self.results.as_mut()[self.index..]`
      sliceFromC n readLen                       -- `&mut dest[read_len..]`
      let (consumed, filled, bytes) ←
        fillViaChunks 4 U32.toLE (r.results.toList.drop r.index) (n - readLen)
      let index ← addC r.index consumed          -- `self.index += consumed_u32`
      let readLen ← addC readLen filled          -- `read_len += filled_u8`
      fillLoop c n fuel readLen (acc ++ bytes) { r with index := index }
    else pure (acc, r)

def fillBytes (c : BlockCoreC σ 32) (n : Nat) (r : BlockRng σ) : Except Panic (List U8 × BlockRng σ) :=
  fillLoop c n (n + 1) 0 [] r

end BlockRng

/-! ## `block::BlockRng64` -/

namespace BlockRng64
variable {σ : Type}

def nextU32 (c : BlockCoreC σ 64) (r : BlockRng64 σ) : Except Panic (U32 × BlockRng64 σ) := do
  let index ← subC r.index r.halfUsed.toNat      -- `self.index - self.half_used as usize`
  let (r, index) ←
    (if index ≥ r.results.size then do
      let (res, core) ← c.generate r.core r.results
      pure ({ r with results := res, core := core, index := 0, halfUsed := false }, 0)
    else pure (r, index))
  let shift ← mulC 32 r.halfUsed.toNat           -- `32 * (self.half_used as usize)`
  let r := { r with halfUsed := !r.halfUsed }
  let index' ← addC r.index r.halfUsed.toNat     -- `self.index += self.half_used as usize`
  let r := { r with index := index' }
  let v : U64 ← rdC r.results index              -- `self.results.as_ref()[index]`
  shiftAmtC 64 shift                             -- `>> shift`
  pure ((v >>> shift).setWidth 32, r)

def nextU64 (c : BlockCoreC σ 64) (r : BlockRng64 σ) : Except Panic (U64 × BlockRng64 σ) := do
  let r ←
    (if r.index ≥ r.results.size then do
      let (res, core) ← c.generate r.core r.results
      pure { r with results := res, core := core, index := 0 }
    else pure r)
  let value ← rdC r.results r.index              -- `self.results.as_ref()[self.index]`
  let index ← addC r.index 1                     -- `self.index += 1`
  pure (value, { r with index := index, halfUsed := false })

def fillLoop (c : BlockCoreC σ 64) (n : Nat) :
    Nat → Nat → List U8 → BlockRng64 σ → Except Panic (List U8 × BlockRng64 σ)
  | 0, _, acc, r => pure (acc, r)
  | fuel + 1, readLen, acc, r =>
    if readLen < n then do
      let r ←
        (if r.index ≥ r.results.size then do
          let (res, core) ← c.generate r.core r.results
          pure { r with results := res, core := core, index := 0 }
        else pure r)
      sliceFromC r.results.size r.index
      sliceFromC n readLen
      let (consumed, filled, bytes) ←
        fillViaChunks 8 U64.toLE (r.results.toList.drop r.index) (n - readLen)
      let index ← addC r.index consumed
      let readLen ← addC readLen filled
      fillLoop c n fuel readLen (acc ++ bytes) { r with index := index }
    else pure (acc, r)

def fillBytes (c : BlockCoreC σ 64) (n : Nat) (r : BlockRng64 σ) :
    Except Panic (List U8 × BlockRng64 σ) :=
  fillLoop c n (n + 1) 0 [] { r with halfUsed := false }

end BlockRng64

/-! ## `SeedableRng::seed_from_u64` (PCG32 expansion)

    The local `fn pcg32` has no partial operation: `wrapping_mul`, `wrapping_add`, shifts by
    the constants 18, 27, 59 (< 64), `as u32`, and `rotate_right(rot)`, which is defined for
    every `rot` (and `rot = state >> 59 < 32` anyway, `C14.pcg32_rot_lt`). -/

def pcg32Chunks : Nat → U64 → Except Panic (List U8 × U64)
  | 0, st => pure ([], st)
  | k + 1, st => do
    let (b, st) := pcg32 st
    copyLenC 4 b.length                          -- `chunk.copy_from_slice(&pcg32(&mut state))`
    let (rest, st) ← pcg32Chunks k st
    pure (b ++ rest, st)

def pcg32Seed (len : Nat) (state : U64) : Except Panic (List U8) := do
  chunksExactC 4                                 -- `seed.as_mut().chunks_exact_mut(4)`
  let (full, st) ← pcg32Chunks (len / 4) state
  let rem := len % 4                             -- `iter.into_remainder().len()`
  if rem ≠ 0 then
    let b := (pcg32 st).1
    sliceToC b.length rem                        -- `&pcg32(&mut state)[..rem.len()]`
    copyLenC rem (b.take rem).length             -- `rem.copy_from_slice(..)`
    pure (full ++ b.take rem)
  else pure full

end Checked
end Rngs
