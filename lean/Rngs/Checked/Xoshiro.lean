/-
  Rngs.Checked.Xoshiro — rand_xoshiro (SplitMix64 and the 14 xoshiro/xoroshiro generators)
  and rand_xorshift.

  REMARK (no partial operation in the output functions).  Every `next_u32` / `next_u64` of
  these sixteen generators, the engines `impl_xoroshiro_*!` / `impl_xoshiro_*!`, the
  scramblers `plusplus_*!`, `starstar_*!`, SplitMix64's `next_*` and XorShiftRng's `next_u32`
  consist exclusively of `wrapping_add`, `wrapping_mul`, `Wrapping<u32>` arithmetic,
  `rotate_left`, `^`, `|`, `&`, shifts by literal constants smaller than the width, `as`
  casts, and indexing of fixed-size arrays by literal constants (`self.s[0]` … `self.s[7]`,
  `b[0]` … `b[15]`, `state[0]`: bounds are checked at compile time).  None of these can
  panic, so the model functions are used unchanged.  `next_u64_via_u32` has `y << 32` on a
  `u64` (constant 32 < 64).  What is left:
    * `fill_bytes` = `impls::fill_bytes_via_next`  → `Checked.fillBytesViaNext`;
    * `impl_jump!`: `1 << b` with the loop variable `b` as shift amount → `jumpWord` below;
    * `from_seed`: `le::read_u32_into` / `read_u64_into` (an `assert!`) → `decode` below;
    * `seed_from_u64` (xoshiro: `from_splitmix!`; xorshift: the PCG32 default).
-/
import Rngs.Checked.RandCore
import Rngs.Model.Xoshiro
import Rngs.Model.XorShift
namespace Rngs
namespace Checked

/-! ## `impl_jump!` -/

/-- the inner `for b in 0..W { if (j & 1 << b) != 0 { … } self.next_uW(); }`:
    `1 << b` is a shift by a run-time amount (overflow check `b < W`) -/
def jumpWord {σ : Type} {w : Nat} (step : σ → σ) (xor : σ → σ → σ) (j : BitVec w)
    (p : σ × σ) : Except Panic (σ × σ) :=
  (List.range w).foldlM
    (fun (p : σ × σ) b => do
      shiftAmtC w b                                   -- `1 << b`
      let acc := if (j &&& (1#w <<< b)) ≠ 0#w then xor p.1 p.2 else p.1
      pure (acc, step p.2))
    p

def jumpLoop {σ : Type} {w : Nat} (step : σ → σ) (xor : σ → σ → σ) (zero : σ)
    (words : List (BitVec w)) (s : σ) : Except Panic σ := do
  let p ← words.foldlM (fun p j => jumpWord step xor j p) (zero, s)
  pure p.1

/-! ## SplitMix64 -/

namespace SplitMix64

/-- `let mut state = [0; 1]; read_u64_into(&seed, &mut state); SplitMix64 { x: state[0] }` -/
def fromSeed (seed : List U8) : Except Panic U64 := do
  let state ← readU64s seed 1
  lrdC state 0

/-- `SplitMix64::from_seed(seed.to_le_bytes())` -/
def seedFromU64 (x : U64) : Except Panic U64 := fromSeed (U64.toLE x)

def fill (n : Nat) (x : U64) : Except Panic (List U8 × U64) :=
  fillBytesViaNext Rngs.SplitMix64.direct n x

end SplitMix64

/-! ## the 14 linear generators: seeding -/

namespace XoGen
variable {σ : Type}

def fill (g : Rngs.XoGen σ) (n : Nat) (s : σ) : Except Panic (List U8 × σ) :=
  fillBytesViaNext g.direct n s

/-- the part of `from_seed` after `deal_with_zero_seed!`:
    `read_uN_into(&seed, &mut s)` where `s` has `nWords` words of `wordBytes` bytes
    (`assert!(src.len() >= wordBytes * dst.len())`) -/
def decode (g : Rngs.XoGen σ) (wordBytes nWords : Nat) (seed : List U8) : Except Panic σ := do
  let need ← mulC wordBytes nWords
  assertC (decide (seed.length ≥ need))
  chunksExactC wordBytes
  pure (g.decode seed)

/-- `from_splitmix!(x)`: `SplitMix64::seed_from_u64(x)`, then the default `from_rng`
    (`rng.fill_bytes(seed.as_mut())`) up to the call of `from_seed` -/
def splitmixBytes (g : Rngs.XoGen σ) (x : U64) : Except Panic (List U8) := do
  let rng ← SplitMix64.seedFromU64 x
  let (bytes, _) ← SplitMix64.fill g.seedLen rng
  pure bytes

def fromSeedFuel (g : Rngs.XoGen σ) (wordBytes nWords : Nat) :
    Nat → List U8 → Except Panic (Option σ)
  | 0, _ => pure none
  | fuel + 1, seed =>
    if isAllZero seed then do
      let bytes ← splitmixBytes g 0
      fromSeedFuel g wordBytes nWords fuel bytes
    else do
      let s ← decode g wordBytes nWords seed
      pure (some s)

def seedFromU64Fuel (g : Rngs.XoGen σ) (wordBytes nWords : Nat) (fuel : Nat) (x : U64) :
    Except Panic (Option σ) := do
  let bytes ← splitmixBytes g x
  fromSeedFuel g wordBytes nWords fuel bytes

end XoGen

/-! ## XorShiftRng -/

namespace XorShift

/-- `from_seed`: `le::read_u32_into(&seed, &mut seed_u32)` with `[0u32; 4]`; the rest
    (`seed_u32 == [0; 4]`, `seed_u32[0]` … `seed_u32[3]`) has no partial operation -/
def fromSeed (seed : List U8) : Except Panic Rngs.XorShift.State := do
  let _ ← readU32s seed 4
  pure (Rngs.XorShift.fromSeed seed)

/-- default `seed_from_u64` (PCG32 expansion into `[u8; 16]`) -/
def seedFromU64 (x : U64) : Except Panic Rngs.XorShift.State := do
  let seed ← pcg32Seed 16 x
  fromSeed seed

def fill (n : Nat) (s : Rngs.XorShift.State) : Except Panic (List U8 × Rngs.XorShift.State) :=
  fillBytesViaNext Rngs.XorShift.direct n s

end XorShift

end Checked
end Rngs
