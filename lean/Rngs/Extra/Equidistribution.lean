/-
  Rngs.Extra.Equidistribution — the documented *1-dimensional equidistribution* of the
  xoshiro / xoroshiro generators (and of XorShiftRng), which no test can sample: a period has
  2^64 − 1 … 2^512 − 1 outputs.

  For a generator with `n` state bits, native output width `w` (`next_u32` for the 32-bit-word
  generators, `next_u64` for the others) and `m = n − w`:

  * `G_fibre`       among all `2^n` states every value `y` is the output of exactly `2^m` states
                    (the output function is, for every choice of the other state words, a bijection
                    of one state word: `**` and `*` of the word they scramble, `+` and `++` of their
                    second argument — explicit inverses in `Lib/Equidist`);
  * `G_states` (E1) among the non-zero states: `2^m − 1` for `y = 0` (the all-zero state outputs 0
                    under every scrambler), `2^m` for every other `y`;
  * `G_period` (E2) the stream: started in ANY non-zero state, among the `2^n − 1` outputs of one
                    full period the value 0 occurs exactly `2^m − 1` times and every other value
                    exactly `2^m` times (C07: the non-zero states form one cycle of that length —
                    `count_period` transfers the count from the states to the stream);
  * `G_every_value` every `w`-bit value is output at some position `k < 2^n − 1`;
  * `family_equidistributed` the 15 statements E2 in one conjunction;
  * `G_states_u32`, `G_period_u32`, `family_equidistributed_u32`: the same for the derived `next_u32`
                    (upper resp. lower half of `next_u64`) of the nine generators with 64-bit words:
                    `2^(m+32)` occurrences of every 32-bit value, one less for 0;
  * `Xoroshiro64Star_period_u64`, `Xoroshiro64StarStar_period_u64` (+ `_u64_distinct`, `_u64_ne_zero`):
                    the derived `next_u64` of the two 64-bit-state generators returns, in `2^64 − 1`
                    consecutive calls, every non-zero 64-bit value exactly once and 0 never.

  The output is computed from the state *before* the step (`next` returns `(scramble s, T s)`),
  for XorShiftRng it is the new word `w` — in both cases a function of the current state, which
  is all the argument needs.  SplitMix64 is covered by `Extra/SplitMixBij` (every value exactly
  once per period 2^64).

  The only hypothesis anywhere is `s ≠ zero`; an `example` instantiates it for every generator.
-/
import Rngs.Lib.Equidist
import Rngs.Props.C07
namespace Rngs.Extra.Equidistribution
open Rngs Rngs.Equidist

attribute [local instance] bitVecFintype

-- only silences the elaborator's "exponent exceeds threshold" warning on `2 ^ 512`
set_option exponentiation.threshold 1024

/-- `next` (state type `σ`, `w`-bit outputs, all-zero state `z`) is 1-dimensionally
    equidistributed over its period `2^n − 1`: from any state `s ≠ z`, among the outputs number
    `0, …, 2^n − 2` the value 0 occurs `2^m − 1` times and every other value `2^m` times. -/
def Equidistributed {σ : Type} {w : Nat} (next : σ → BitVec w × σ) (z : σ) (n m : Nat) : Prop :=
  ∀ s, s ≠ z → ∀ y : BitVec w,
    ((Finset.range (2 ^ n - 1)).filter
        (fun k => (next (iter (fun s => (next s).2) k s)).1 = y)).card
      = if y = 0 then 2 ^ m - 1 else 2 ^ m

/-! ### Xoroshiro64Star — output `s0 * 0x9E3779BB`: a unit times `s0` -/

/-- among all `2^64` states, every value is the output of exactly `2^32` -/
theorem Xoroshiro64Star_fibre (y : U32) :
    (Finset.univ.filter (fun t : S2 32 => (Xoroshiro64Star.nextU32 t).1 = y)).card = 2 ^ 32 :=
  (card_fibre (split2_0 32) (fun t => (Xoroshiro64Star.nextU32 t).1)
    (fun _ a => a * 0x9E3779BB#32) (fun _ v => v * 0xbe736373#32)
    (fun _ _ => rfl) (fun _ v => mul_inv_mul golden_inv32 v)
    (fun _ a => mul_mul_inv golden_inv32 a) y).trans (card_R1 32)

/-- (E1) among the `2^64 - 1` non-zero states -/
theorem Xoroshiro64Star_states (y : U32) :
    (Finset.univ.filter (fun t : S2 32 => t ≠ S2.zero ∧ (Xoroshiro64Star.nextU32 t).1 = y)).card
      = if y = 0 then 2 ^ 32 - 1 else 2 ^ 32 :=
  states_count (split2_0 32) (card_R1 32) S2.zero (fun t => (Xoroshiro64Star.nextU32 t).1)
    (fun _ a => a * 0x9E3779BB#32) (fun _ v => v * 0xbe736373#32)
    (fun _ _ => rfl) (fun _ v => mul_inv_mul golden_inv32 v)
    (fun _ a => mul_mul_inv golden_inv32 a) rfl y

/-- (E2) over one full period from any non-zero state -/
theorem Xoroshiro64Star_period (s : S2 32) (hs : s ≠ S2.zero) (y : U32) :
    ((Finset.range (2 ^ 64 - 1)).filter
        (fun k => (Xoroshiro64Star.nextU32 (iter (fun s => (Xoroshiro64Star.nextU32 s).2) k s)).1 = y)).card
      = if y = 0 then 2 ^ 32 - 1 else 2 ^ 32 :=
  (count_period (C07.xoroshiroU32_never_zero s hs) (C07.xoroshiroU32_no_repeat s hs)
    (fun t ht => C07.xoroshiroU32_single_cycle s t hs ht)
    (fun t => (Xoroshiro64Star.nextU32 t).1) y).trans (Xoroshiro64Star_states y)

/-- every value occurs within one period -/
theorem Xoroshiro64Star_every_value (s : S2 32) (hs : s ≠ S2.zero) (y : U32) :
    ∃ k, k < 2 ^ 64 - 1 ∧ (Xoroshiro64Star.nextU32 (iter (fun s => (Xoroshiro64Star.nextU32 s).2) k s)).1 = y :=
  exists_of_count_pos (by rw [Xoroshiro64Star_period s hs y]; exact count_pos (by decide) y)

example (y : U32) := Xoroshiro64Star_period ⟨1, 0⟩ (by decide) y
example (y : U32) := Xoroshiro64Star_every_value ⟨1, 0⟩ (by decide) y

/-! ### Xoroshiro64StarStar — output `rotl(s0 * 0x9E3779BB, 5) * 5`: a bijection of `s0` -/

/-- among all `2^64` states, every value is the output of exactly `2^32` -/
theorem Xoroshiro64StarStar_fibre (y : U32) :
    (Finset.univ.filter (fun t : S2 32 => (Xoroshiro64StarStar.nextU32 t).1 = y)).card = 2 ^ 32 :=
  (card_fibre (split2_0 32) (fun t => (Xoroshiro64StarStar.nextU32 t).1)
    (fun _ a => starstarU32 a) (fun _ v => unStarstarU32 v)
    (fun _ _ => rfl) (fun _ v => starstar_unStarstarU32 v)
    (fun _ a => unStarstarU32_starstar a) y).trans (card_R1 32)

/-- (E1) among the `2^64 - 1` non-zero states -/
theorem Xoroshiro64StarStar_states (y : U32) :
    (Finset.univ.filter (fun t : S2 32 => t ≠ S2.zero ∧ (Xoroshiro64StarStar.nextU32 t).1 = y)).card
      = if y = 0 then 2 ^ 32 - 1 else 2 ^ 32 :=
  states_count (split2_0 32) (card_R1 32) S2.zero (fun t => (Xoroshiro64StarStar.nextU32 t).1)
    (fun _ a => starstarU32 a) (fun _ v => unStarstarU32 v)
    (fun _ _ => rfl) (fun _ v => starstar_unStarstarU32 v)
    (fun _ a => unStarstarU32_starstar a) rfl y

/-- (E2) over one full period from any non-zero state -/
theorem Xoroshiro64StarStar_period (s : S2 32) (hs : s ≠ S2.zero) (y : U32) :
    ((Finset.range (2 ^ 64 - 1)).filter
        (fun k => (Xoroshiro64StarStar.nextU32 (iter (fun s => (Xoroshiro64StarStar.nextU32 s).2) k s)).1 = y)).card
      = if y = 0 then 2 ^ 32 - 1 else 2 ^ 32 :=
  (count_period (C07.xoroshiroU32_never_zero s hs) (C07.xoroshiroU32_no_repeat s hs)
    (fun t ht => C07.xoroshiroU32_single_cycle s t hs ht)
    (fun t => (Xoroshiro64StarStar.nextU32 t).1) y).trans (Xoroshiro64StarStar_states y)

/-- every value occurs within one period -/
theorem Xoroshiro64StarStar_every_value (s : S2 32) (hs : s ≠ S2.zero) (y : U32) :
    ∃ k, k < 2 ^ 64 - 1 ∧ (Xoroshiro64StarStar.nextU32 (iter (fun s => (Xoroshiro64StarStar.nextU32 s).2) k s)).1 = y :=
  exists_of_count_pos (by rw [Xoroshiro64StarStar_period s hs y]; exact count_pos (by decide) y)

example (y : U32) := Xoroshiro64StarStar_period ⟨1, 0⟩ (by decide) y
example (y : U32) := Xoroshiro64StarStar_every_value ⟨1, 0⟩ (by decide) y

/-! ### Xoroshiro128Plus — output `s0 + s1`: for fixed `s1` a bijection of `s0` -/

/-- among all `2^128` states, every value is the output of exactly `2^64` -/
theorem Xoroshiro128Plus_fibre (y : U64) :
    (Finset.univ.filter (fun t : S2 64 => (Xoroshiro128Plus.nextU64 t).1 = y)).card = 2 ^ 64 :=
  (card_fibre (split2_0 64) (fun t => (Xoroshiro128Plus.nextU64 t).1)
    (fun r a => a + r) (fun r v => v - r)
    (fun _ _ => rfl) (fun r v => BitVec.sub_add_cancel v r)
    (fun r a => BitVec.add_sub_cancel a r) y).trans (card_R1 64)

/-- (E1) among the `2^128 - 1` non-zero states -/
theorem Xoroshiro128Plus_states (y : U64) :
    (Finset.univ.filter (fun t : S2 64 => t ≠ S2.zero ∧ (Xoroshiro128Plus.nextU64 t).1 = y)).card
      = if y = 0 then 2 ^ 64 - 1 else 2 ^ 64 :=
  states_count (split2_0 64) (card_R1 64) S2.zero (fun t => (Xoroshiro128Plus.nextU64 t).1)
    (fun r a => a + r) (fun r v => v - r)
    (fun _ _ => rfl) (fun r v => BitVec.sub_add_cancel v r)
    (fun r a => BitVec.add_sub_cancel a r) rfl y

/-- (E2) over one full period from any non-zero state -/
theorem Xoroshiro128Plus_period (s : S2 64) (hs : s ≠ S2.zero) (y : U64) :
    ((Finset.range (2 ^ 128 - 1)).filter
        (fun k => (Xoroshiro128Plus.nextU64 (iter Xoroshiro128Plus.step k s)).1 = y)).card
      = if y = 0 then 2 ^ 64 - 1 else 2 ^ 64 :=
  (count_period (C07.xoroshiroU64_never_zero s hs) (C07.xoroshiroU64_no_repeat s hs)
    (fun t ht => C07.xoroshiroU64_single_cycle s t hs ht)
    (fun t => (Xoroshiro128Plus.nextU64 t).1) y).trans (Xoroshiro128Plus_states y)

/-- every value occurs within one period -/
theorem Xoroshiro128Plus_every_value (s : S2 64) (hs : s ≠ S2.zero) (y : U64) :
    ∃ k, k < 2 ^ 128 - 1 ∧ (Xoroshiro128Plus.nextU64 (iter Xoroshiro128Plus.step k s)).1 = y :=
  exists_of_count_pos (by rw [Xoroshiro128Plus_period s hs y]; exact count_pos (by decide) y)

example (y : U64) := Xoroshiro128Plus_period ⟨1, 0⟩ (by decide) y
example (y : U64) := Xoroshiro128Plus_every_value ⟨1, 0⟩ (by decide) y

/-! ### Xoroshiro128PlusPlus — output `rotl(s0 + s1, 17) + s0`: for fixed `s0` a bijection of `s1` -/

/-- among all `2^128` states, every value is the output of exactly `2^64` -/
theorem Xoroshiro128PlusPlus_fibre (y : U64) :
    (Finset.univ.filter (fun t : S2 64 => (Xoroshiro128PlusPlus.nextU64 t).1 = y)).card = 2 ^ 64 :=
  (card_fibre (split2_1 64) (fun t => (Xoroshiro128PlusPlus.nextU64 t).1)
    (fun r a => plusplusU64 r a 17) (fun r v => unPlusplus 17 r v)
    (fun _ _ => rfl) (fun r v => plusplus_unPlusplus 17 r v)
    (fun r a => unPlusplus_plusplus 17 r a) y).trans (card_R1 64)

/-- (E1) among the `2^128 - 1` non-zero states -/
theorem Xoroshiro128PlusPlus_states (y : U64) :
    (Finset.univ.filter (fun t : S2 64 => t ≠ S2.zero ∧ (Xoroshiro128PlusPlus.nextU64 t).1 = y)).card
      = if y = 0 then 2 ^ 64 - 1 else 2 ^ 64 :=
  states_count (split2_1 64) (card_R1 64) S2.zero (fun t => (Xoroshiro128PlusPlus.nextU64 t).1)
    (fun r a => plusplusU64 r a 17) (fun r v => unPlusplus 17 r v)
    (fun _ _ => rfl) (fun r v => plusplus_unPlusplus 17 r v)
    (fun r a => unPlusplus_plusplus 17 r a) rfl y

/-- (E2) over one full period from any non-zero state -/
theorem Xoroshiro128PlusPlus_period (s : S2 64) (hs : s ≠ S2.zero) (y : U64) :
    ((Finset.range (2 ^ 128 - 1)).filter
        (fun k => (Xoroshiro128PlusPlus.nextU64 (iter Xoroshiro128PlusPlus.step k s)).1 = y)).card
      = if y = 0 then 2 ^ 64 - 1 else 2 ^ 64 :=
  (count_period (C07.xoroshiroU64pp_never_zero s hs) (C07.xoroshiroU64pp_no_repeat s hs)
    (fun t ht => C07.xoroshiroU64pp_single_cycle s t hs ht)
    (fun t => (Xoroshiro128PlusPlus.nextU64 t).1) y).trans (Xoroshiro128PlusPlus_states y)

/-- every value occurs within one period -/
theorem Xoroshiro128PlusPlus_every_value (s : S2 64) (hs : s ≠ S2.zero) (y : U64) :
    ∃ k, k < 2 ^ 128 - 1 ∧ (Xoroshiro128PlusPlus.nextU64 (iter Xoroshiro128PlusPlus.step k s)).1 = y :=
  exists_of_count_pos (by rw [Xoroshiro128PlusPlus_period s hs y]; exact count_pos (by decide) y)

example (y : U64) := Xoroshiro128PlusPlus_period ⟨1, 0⟩ (by decide) y
example (y : U64) := Xoroshiro128PlusPlus_every_value ⟨1, 0⟩ (by decide) y

/-! ### Xoroshiro128StarStar — output `rotl(s0 * 5, 7) * 9`: a bijection of `s0` -/

/-- among all `2^128` states, every value is the output of exactly `2^64` -/
theorem Xoroshiro128StarStar_fibre (y : U64) :
    (Finset.univ.filter (fun t : S2 64 => (Xoroshiro128StarStar.nextU64 t).1 = y)).card = 2 ^ 64 :=
  (card_fibre (split2_0 64) (fun t => (Xoroshiro128StarStar.nextU64 t).1)
    (fun _ a => starstarU64 a) (fun _ v => unStarstar64 v)
    (fun _ _ => rfl) (fun _ v => starstar_unStarstar64 v)
    (fun _ a => unStarstar64_starstar a) y).trans (card_R1 64)

/-- (E1) among the `2^128 - 1` non-zero states -/
theorem Xoroshiro128StarStar_states (y : U64) :
    (Finset.univ.filter (fun t : S2 64 => t ≠ S2.zero ∧ (Xoroshiro128StarStar.nextU64 t).1 = y)).card
      = if y = 0 then 2 ^ 64 - 1 else 2 ^ 64 :=
  states_count (split2_0 64) (card_R1 64) S2.zero (fun t => (Xoroshiro128StarStar.nextU64 t).1)
    (fun _ a => starstarU64 a) (fun _ v => unStarstar64 v)
    (fun _ _ => rfl) (fun _ v => starstar_unStarstar64 v)
    (fun _ a => unStarstar64_starstar a) rfl y

/-- (E2) over one full period from any non-zero state -/
theorem Xoroshiro128StarStar_period (s : S2 64) (hs : s ≠ S2.zero) (y : U64) :
    ((Finset.range (2 ^ 128 - 1)).filter
        (fun k => (Xoroshiro128StarStar.nextU64 (iter Xoroshiro128StarStar.step k s)).1 = y)).card
      = if y = 0 then 2 ^ 64 - 1 else 2 ^ 64 :=
  (count_period (C07.xoroshiroU64_never_zero s hs) (C07.xoroshiroU64_no_repeat s hs)
    (fun t ht => C07.xoroshiroU64_single_cycle s t hs ht)
    (fun t => (Xoroshiro128StarStar.nextU64 t).1) y).trans (Xoroshiro128StarStar_states y)

/-- every value occurs within one period -/
theorem Xoroshiro128StarStar_every_value (s : S2 64) (hs : s ≠ S2.zero) (y : U64) :
    ∃ k, k < 2 ^ 128 - 1 ∧ (Xoroshiro128StarStar.nextU64 (iter Xoroshiro128StarStar.step k s)).1 = y :=
  exists_of_count_pos (by rw [Xoroshiro128StarStar_period s hs y]; exact count_pos (by decide) y)

example (y : U64) := Xoroshiro128StarStar_period ⟨1, 0⟩ (by decide) y
example (y : U64) := Xoroshiro128StarStar_every_value ⟨1, 0⟩ (by decide) y

/-! ### Xoshiro128Plus — output `s0 + s3`: for fixed `s0` a bijection of `s3` -/

/-- among all `2^128` states, every value is the output of exactly `2^96` -/
theorem Xoshiro128Plus_fibre (y : U32) :
    (Finset.univ.filter (fun t : S4 32 => (Xoshiro128Plus.nextU32 t).1 = y)).card = 2 ^ 96 :=
  (card_fibre (split4_3 32) (fun t => (Xoshiro128Plus.nextU32 t).1)
    (fun r a => r.1 + a) (fun r v => v - r.1)
    (fun _ _ => rfl) (fun r v => add_sub_cancel_left' r.1 v)
    (fun r a => add_sub_cancel_left'' r.1 a) y).trans (card_R3 32)

/-- (E1) among the `2^128 - 1` non-zero states -/
theorem Xoshiro128Plus_states (y : U32) :
    (Finset.univ.filter (fun t : S4 32 => t ≠ S4.zero ∧ (Xoshiro128Plus.nextU32 t).1 = y)).card
      = if y = 0 then 2 ^ 96 - 1 else 2 ^ 96 :=
  states_count (split4_3 32) (card_R3 32) S4.zero (fun t => (Xoshiro128Plus.nextU32 t).1)
    (fun r a => r.1 + a) (fun r v => v - r.1)
    (fun _ _ => rfl) (fun r v => add_sub_cancel_left' r.1 v)
    (fun r a => add_sub_cancel_left'' r.1 a) rfl y

/-- (E2) over one full period from any non-zero state -/
theorem Xoshiro128Plus_period (s : S4 32) (hs : s ≠ S4.zero) (y : U32) :
    ((Finset.range (2 ^ 128 - 1)).filter
        (fun k => (Xoshiro128Plus.nextU32 (iter Xoshiro128Plus.step k s)).1 = y)).card
      = if y = 0 then 2 ^ 96 - 1 else 2 ^ 96 :=
  (count_period (C07.xoshiroU32_never_zero s hs) (C07.xoshiroU32_no_repeat s hs)
    (fun t ht => C07.xoshiroU32_single_cycle s t hs ht)
    (fun t => (Xoshiro128Plus.nextU32 t).1) y).trans (Xoshiro128Plus_states y)

/-- every value occurs within one period -/
theorem Xoshiro128Plus_every_value (s : S4 32) (hs : s ≠ S4.zero) (y : U32) :
    ∃ k, k < 2 ^ 128 - 1 ∧ (Xoshiro128Plus.nextU32 (iter Xoshiro128Plus.step k s)).1 = y :=
  exists_of_count_pos (by rw [Xoshiro128Plus_period s hs y]; exact count_pos (by decide) y)

example (y : U32) := Xoshiro128Plus_period ⟨1, 0, 0, 0⟩ (by decide) y
example (y : U32) := Xoshiro128Plus_every_value ⟨1, 0, 0, 0⟩ (by decide) y

/-! ### Xoshiro128PlusPlus — output `rotl(s0 + s3, 7) + s0`: for fixed `s0` a bijection of `s3` -/

/-- among all `2^128` states, every value is the output of exactly `2^96` -/
theorem Xoshiro128PlusPlus_fibre (y : U32) :
    (Finset.univ.filter (fun t : S4 32 => (Xoshiro128PlusPlus.nextU32 t).1 = y)).card = 2 ^ 96 :=
  (card_fibre (split4_3 32) (fun t => (Xoshiro128PlusPlus.nextU32 t).1)
    (fun r a => plusplusU32 r.1 a) (fun r v => unPlusplus 7 r.1 v)
    (fun _ _ => rfl) (fun r v => plusplus_unPlusplus 7 r.1 v)
    (fun r a => unPlusplus_plusplus 7 r.1 a) y).trans (card_R3 32)

/-- (E1) among the `2^128 - 1` non-zero states -/
theorem Xoshiro128PlusPlus_states (y : U32) :
    (Finset.univ.filter (fun t : S4 32 => t ≠ S4.zero ∧ (Xoshiro128PlusPlus.nextU32 t).1 = y)).card
      = if y = 0 then 2 ^ 96 - 1 else 2 ^ 96 :=
  states_count (split4_3 32) (card_R3 32) S4.zero (fun t => (Xoshiro128PlusPlus.nextU32 t).1)
    (fun r a => plusplusU32 r.1 a) (fun r v => unPlusplus 7 r.1 v)
    (fun _ _ => rfl) (fun r v => plusplus_unPlusplus 7 r.1 v)
    (fun r a => unPlusplus_plusplus 7 r.1 a) rfl y

/-- (E2) over one full period from any non-zero state -/
theorem Xoshiro128PlusPlus_period (s : S4 32) (hs : s ≠ S4.zero) (y : U32) :
    ((Finset.range (2 ^ 128 - 1)).filter
        (fun k => (Xoshiro128PlusPlus.nextU32 (iter Xoshiro128PlusPlus.step k s)).1 = y)).card
      = if y = 0 then 2 ^ 96 - 1 else 2 ^ 96 :=
  (count_period (C07.xoshiroU32_never_zero s hs) (C07.xoshiroU32_no_repeat s hs)
    (fun t ht => C07.xoshiroU32_single_cycle s t hs ht)
    (fun t => (Xoshiro128PlusPlus.nextU32 t).1) y).trans (Xoshiro128PlusPlus_states y)

/-- every value occurs within one period -/
theorem Xoshiro128PlusPlus_every_value (s : S4 32) (hs : s ≠ S4.zero) (y : U32) :
    ∃ k, k < 2 ^ 128 - 1 ∧ (Xoshiro128PlusPlus.nextU32 (iter Xoshiro128PlusPlus.step k s)).1 = y :=
  exists_of_count_pos (by rw [Xoshiro128PlusPlus_period s hs y]; exact count_pos (by decide) y)

example (y : U32) := Xoshiro128PlusPlus_period ⟨1, 0, 0, 0⟩ (by decide) y
example (y : U32) := Xoshiro128PlusPlus_every_value ⟨1, 0, 0, 0⟩ (by decide) y

/-! ### Xoshiro128StarStar — output `rotl(s1 * 5, 7) * 9`: a bijection of `s1` -/

/-- among all `2^128` states, every value is the output of exactly `2^96` -/
theorem Xoshiro128StarStar_fibre (y : U32) :
    (Finset.univ.filter (fun t : S4 32 => (Xoshiro128StarStar.nextU32 t).1 = y)).card = 2 ^ 96 :=
  (card_fibre (split4_1 32) (fun t => (Xoshiro128StarStar.nextU32 t).1)
    (fun _ a => starstarU64 a) (fun _ v => unStarstar32 v)
    (fun _ _ => rfl) (fun _ v => starstar_unStarstar32 v)
    (fun _ a => unStarstar32_starstar a) y).trans (card_R3 32)

/-- (E1) among the `2^128 - 1` non-zero states -/
theorem Xoshiro128StarStar_states (y : U32) :
    (Finset.univ.filter (fun t : S4 32 => t ≠ S4.zero ∧ (Xoshiro128StarStar.nextU32 t).1 = y)).card
      = if y = 0 then 2 ^ 96 - 1 else 2 ^ 96 :=
  states_count (split4_1 32) (card_R3 32) S4.zero (fun t => (Xoshiro128StarStar.nextU32 t).1)
    (fun _ a => starstarU64 a) (fun _ v => unStarstar32 v)
    (fun _ _ => rfl) (fun _ v => starstar_unStarstar32 v)
    (fun _ a => unStarstar32_starstar a) rfl y

/-- (E2) over one full period from any non-zero state -/
theorem Xoshiro128StarStar_period (s : S4 32) (hs : s ≠ S4.zero) (y : U32) :
    ((Finset.range (2 ^ 128 - 1)).filter
        (fun k => (Xoshiro128StarStar.nextU32 (iter Xoshiro128StarStar.step k s)).1 = y)).card
      = if y = 0 then 2 ^ 96 - 1 else 2 ^ 96 :=
  (count_period (C07.xoshiroU32_never_zero s hs) (C07.xoshiroU32_no_repeat s hs)
    (fun t ht => C07.xoshiroU32_single_cycle s t hs ht)
    (fun t => (Xoshiro128StarStar.nextU32 t).1) y).trans (Xoshiro128StarStar_states y)

/-- every value occurs within one period -/
theorem Xoshiro128StarStar_every_value (s : S4 32) (hs : s ≠ S4.zero) (y : U32) :
    ∃ k, k < 2 ^ 128 - 1 ∧ (Xoshiro128StarStar.nextU32 (iter Xoshiro128StarStar.step k s)).1 = y :=
  exists_of_count_pos (by rw [Xoshiro128StarStar_period s hs y]; exact count_pos (by decide) y)

example (y : U32) := Xoshiro128StarStar_period ⟨1, 0, 0, 0⟩ (by decide) y
example (y : U32) := Xoshiro128StarStar_every_value ⟨1, 0, 0, 0⟩ (by decide) y

/-! ### Xoshiro256Plus — output `s0 + s3`: for fixed `s0` a bijection of `s3` -/

/-- among all `2^256` states, every value is the output of exactly `2^192` -/
theorem Xoshiro256Plus_fibre (y : U64) :
    (Finset.univ.filter (fun t : S4 64 => (Xoshiro256Plus.nextU64 t).1 = y)).card = 2 ^ 192 :=
  (card_fibre (split4_3 64) (fun t => (Xoshiro256Plus.nextU64 t).1)
    (fun r a => r.1 + a) (fun r v => v - r.1)
    (fun _ _ => rfl) (fun r v => add_sub_cancel_left' r.1 v)
    (fun r a => add_sub_cancel_left'' r.1 a) y).trans (card_R3 64)

/-- (E1) among the `2^256 - 1` non-zero states -/
theorem Xoshiro256Plus_states (y : U64) :
    (Finset.univ.filter (fun t : S4 64 => t ≠ S4.zero ∧ (Xoshiro256Plus.nextU64 t).1 = y)).card
      = if y = 0 then 2 ^ 192 - 1 else 2 ^ 192 :=
  states_count (split4_3 64) (card_R3 64) S4.zero (fun t => (Xoshiro256Plus.nextU64 t).1)
    (fun r a => r.1 + a) (fun r v => v - r.1)
    (fun _ _ => rfl) (fun r v => add_sub_cancel_left' r.1 v)
    (fun r a => add_sub_cancel_left'' r.1 a) rfl y

/-- (E2) over one full period from any non-zero state -/
theorem Xoshiro256Plus_period (s : S4 64) (hs : s ≠ S4.zero) (y : U64) :
    ((Finset.range (2 ^ 256 - 1)).filter
        (fun k => (Xoshiro256Plus.nextU64 (iter Xoshiro256Plus.step k s)).1 = y)).card
      = if y = 0 then 2 ^ 192 - 1 else 2 ^ 192 :=
  (count_period (C07.xoshiroU64_never_zero s hs) (C07.xoshiroU64_no_repeat s hs)
    (fun t ht => C07.xoshiroU64_single_cycle s t hs ht)
    (fun t => (Xoshiro256Plus.nextU64 t).1) y).trans (Xoshiro256Plus_states y)

/-- every value occurs within one period -/
theorem Xoshiro256Plus_every_value (s : S4 64) (hs : s ≠ S4.zero) (y : U64) :
    ∃ k, k < 2 ^ 256 - 1 ∧ (Xoshiro256Plus.nextU64 (iter Xoshiro256Plus.step k s)).1 = y :=
  exists_of_count_pos (by rw [Xoshiro256Plus_period s hs y]; exact count_pos (by decide) y)

example (y : U64) := Xoshiro256Plus_period ⟨1, 0, 0, 0⟩ (by decide) y
example (y : U64) := Xoshiro256Plus_every_value ⟨1, 0, 0, 0⟩ (by decide) y

/-! ### Xoshiro256PlusPlus — output `rotl(s0 + s3, 23) + s0`: for fixed `s0` a bijection of `s3` -/

/-- among all `2^256` states, every value is the output of exactly `2^192` -/
theorem Xoshiro256PlusPlus_fibre (y : U64) :
    (Finset.univ.filter (fun t : S4 64 => (Xoshiro256PlusPlus.nextU64 t).1 = y)).card = 2 ^ 192 :=
  (card_fibre (split4_3 64) (fun t => (Xoshiro256PlusPlus.nextU64 t).1)
    (fun r a => plusplusU64 r.1 a 23) (fun r v => unPlusplus 23 r.1 v)
    (fun _ _ => rfl) (fun r v => plusplus_unPlusplus 23 r.1 v)
    (fun r a => unPlusplus_plusplus 23 r.1 a) y).trans (card_R3 64)

/-- (E1) among the `2^256 - 1` non-zero states -/
theorem Xoshiro256PlusPlus_states (y : U64) :
    (Finset.univ.filter (fun t : S4 64 => t ≠ S4.zero ∧ (Xoshiro256PlusPlus.nextU64 t).1 = y)).card
      = if y = 0 then 2 ^ 192 - 1 else 2 ^ 192 :=
  states_count (split4_3 64) (card_R3 64) S4.zero (fun t => (Xoshiro256PlusPlus.nextU64 t).1)
    (fun r a => plusplusU64 r.1 a 23) (fun r v => unPlusplus 23 r.1 v)
    (fun _ _ => rfl) (fun r v => plusplus_unPlusplus 23 r.1 v)
    (fun r a => unPlusplus_plusplus 23 r.1 a) rfl y

/-- (E2) over one full period from any non-zero state -/
theorem Xoshiro256PlusPlus_period (s : S4 64) (hs : s ≠ S4.zero) (y : U64) :
    ((Finset.range (2 ^ 256 - 1)).filter
        (fun k => (Xoshiro256PlusPlus.nextU64 (iter Xoshiro256PlusPlus.step k s)).1 = y)).card
      = if y = 0 then 2 ^ 192 - 1 else 2 ^ 192 :=
  (count_period (C07.xoshiroU64_never_zero s hs) (C07.xoshiroU64_no_repeat s hs)
    (fun t ht => C07.xoshiroU64_single_cycle s t hs ht)
    (fun t => (Xoshiro256PlusPlus.nextU64 t).1) y).trans (Xoshiro256PlusPlus_states y)

/-- every value occurs within one period -/
theorem Xoshiro256PlusPlus_every_value (s : S4 64) (hs : s ≠ S4.zero) (y : U64) :
    ∃ k, k < 2 ^ 256 - 1 ∧ (Xoshiro256PlusPlus.nextU64 (iter Xoshiro256PlusPlus.step k s)).1 = y :=
  exists_of_count_pos (by rw [Xoshiro256PlusPlus_period s hs y]; exact count_pos (by decide) y)

example (y : U64) := Xoshiro256PlusPlus_period ⟨1, 0, 0, 0⟩ (by decide) y
example (y : U64) := Xoshiro256PlusPlus_every_value ⟨1, 0, 0, 0⟩ (by decide) y

/-! ### Xoshiro256StarStar — output `rotl(s1 * 5, 7) * 9`: a bijection of `s1` -/

/-- among all `2^256` states, every value is the output of exactly `2^192` -/
theorem Xoshiro256StarStar_fibre (y : U64) :
    (Finset.univ.filter (fun t : S4 64 => (Xoshiro256StarStar.nextU64 t).1 = y)).card = 2 ^ 192 :=
  (card_fibre (split4_1 64) (fun t => (Xoshiro256StarStar.nextU64 t).1)
    (fun _ a => starstarU64 a) (fun _ v => unStarstar64 v)
    (fun _ _ => rfl) (fun _ v => starstar_unStarstar64 v)
    (fun _ a => unStarstar64_starstar a) y).trans (card_R3 64)

/-- (E1) among the `2^256 - 1` non-zero states -/
theorem Xoshiro256StarStar_states (y : U64) :
    (Finset.univ.filter (fun t : S4 64 => t ≠ S4.zero ∧ (Xoshiro256StarStar.nextU64 t).1 = y)).card
      = if y = 0 then 2 ^ 192 - 1 else 2 ^ 192 :=
  states_count (split4_1 64) (card_R3 64) S4.zero (fun t => (Xoshiro256StarStar.nextU64 t).1)
    (fun _ a => starstarU64 a) (fun _ v => unStarstar64 v)
    (fun _ _ => rfl) (fun _ v => starstar_unStarstar64 v)
    (fun _ a => unStarstar64_starstar a) rfl y

/-- (E2) over one full period from any non-zero state -/
theorem Xoshiro256StarStar_period (s : S4 64) (hs : s ≠ S4.zero) (y : U64) :
    ((Finset.range (2 ^ 256 - 1)).filter
        (fun k => (Xoshiro256StarStar.nextU64 (iter Xoshiro256StarStar.step k s)).1 = y)).card
      = if y = 0 then 2 ^ 192 - 1 else 2 ^ 192 :=
  (count_period (C07.xoshiroU64_never_zero s hs) (C07.xoshiroU64_no_repeat s hs)
    (fun t ht => C07.xoshiroU64_single_cycle s t hs ht)
    (fun t => (Xoshiro256StarStar.nextU64 t).1) y).trans (Xoshiro256StarStar_states y)

/-- every value occurs within one period -/
theorem Xoshiro256StarStar_every_value (s : S4 64) (hs : s ≠ S4.zero) (y : U64) :
    ∃ k, k < 2 ^ 256 - 1 ∧ (Xoshiro256StarStar.nextU64 (iter Xoshiro256StarStar.step k s)).1 = y :=
  exists_of_count_pos (by rw [Xoshiro256StarStar_period s hs y]; exact count_pos (by decide) y)

example (y : U64) := Xoshiro256StarStar_period ⟨1, 0, 0, 0⟩ (by decide) y
example (y : U64) := Xoshiro256StarStar_every_value ⟨1, 0, 0, 0⟩ (by decide) y

/-! ### Xoshiro512Plus — output `s0 + s2`: for fixed `s2` a bijection of `s0` -/

/-- among all `2^512` states, every value is the output of exactly `2^448` -/
theorem Xoshiro512Plus_fibre (y : U64) :
    (Finset.univ.filter (fun t : S8 => (Xoshiro512Plus.nextU64 t).1 = y)).card = 2 ^ 448 :=
  (card_fibre (split8_0) (fun t => (Xoshiro512Plus.nextU64 t).1)
    (fun r a => a + r.2.1) (fun r v => v - r.2.1)
    (fun _ _ => rfl) (fun r v => BitVec.sub_add_cancel v r.2.1)
    (fun r a => BitVec.add_sub_cancel a r.2.1) y).trans (card_R7)

/-- (E1) among the `2^512 - 1` non-zero states -/
theorem Xoshiro512Plus_states (y : U64) :
    (Finset.univ.filter (fun t : S8 => t ≠ S8.zero ∧ (Xoshiro512Plus.nextU64 t).1 = y)).card
      = if y = 0 then 2 ^ 448 - 1 else 2 ^ 448 :=
  states_count (split8_0) (card_R7) S8.zero (fun t => (Xoshiro512Plus.nextU64 t).1)
    (fun r a => a + r.2.1) (fun r v => v - r.2.1)
    (fun _ _ => rfl) (fun r v => BitVec.sub_add_cancel v r.2.1)
    (fun r a => BitVec.add_sub_cancel a r.2.1) rfl y

/-- (E2) over one full period from any non-zero state -/
theorem Xoshiro512Plus_period (s : S8) (hs : s ≠ S8.zero) (y : U64) :
    ((Finset.range (2 ^ 512 - 1)).filter
        (fun k => (Xoshiro512Plus.nextU64 (iter Xoshiro512Plus.step k s)).1 = y)).card
      = if y = 0 then 2 ^ 448 - 1 else 2 ^ 448 :=
  (count_period (C07.xoshiroLarge_never_zero s hs) (C07.xoshiroLarge_no_repeat s hs)
    (fun t ht => C07.xoshiroLarge_single_cycle s t hs ht)
    (fun t => (Xoshiro512Plus.nextU64 t).1) y).trans (Xoshiro512Plus_states y)

/-- every value occurs within one period -/
theorem Xoshiro512Plus_every_value (s : S8) (hs : s ≠ S8.zero) (y : U64) :
    ∃ k, k < 2 ^ 512 - 1 ∧ (Xoshiro512Plus.nextU64 (iter Xoshiro512Plus.step k s)).1 = y :=
  exists_of_count_pos (by rw [Xoshiro512Plus_period s hs y]; exact count_pos (by decide) y)

example (y : U64) := Xoshiro512Plus_period ⟨1, 0, 0, 0, 0, 0, 0, 0⟩ (by decide) y
example (y : U64) := Xoshiro512Plus_every_value ⟨1, 0, 0, 0, 0, 0, 0, 0⟩ (by decide) y

/-! ### Xoshiro512PlusPlus — output `rotl(s2 + s0, 17) + s2`: for fixed `s2` a bijection of `s0` -/

/-- among all `2^512` states, every value is the output of exactly `2^448` -/
theorem Xoshiro512PlusPlus_fibre (y : U64) :
    (Finset.univ.filter (fun t : S8 => (Xoshiro512PlusPlus.nextU64 t).1 = y)).card = 2 ^ 448 :=
  (card_fibre (split8_0) (fun t => (Xoshiro512PlusPlus.nextU64 t).1)
    (fun r a => plusplusU64 r.2.1 a 17) (fun r v => unPlusplus 17 r.2.1 v)
    (fun _ _ => rfl) (fun r v => plusplus_unPlusplus 17 r.2.1 v)
    (fun r a => unPlusplus_plusplus 17 r.2.1 a) y).trans (card_R7)

/-- (E1) among the `2^512 - 1` non-zero states -/
theorem Xoshiro512PlusPlus_states (y : U64) :
    (Finset.univ.filter (fun t : S8 => t ≠ S8.zero ∧ (Xoshiro512PlusPlus.nextU64 t).1 = y)).card
      = if y = 0 then 2 ^ 448 - 1 else 2 ^ 448 :=
  states_count (split8_0) (card_R7) S8.zero (fun t => (Xoshiro512PlusPlus.nextU64 t).1)
    (fun r a => plusplusU64 r.2.1 a 17) (fun r v => unPlusplus 17 r.2.1 v)
    (fun _ _ => rfl) (fun r v => plusplus_unPlusplus 17 r.2.1 v)
    (fun r a => unPlusplus_plusplus 17 r.2.1 a) rfl y

/-- (E2) over one full period from any non-zero state -/
theorem Xoshiro512PlusPlus_period (s : S8) (hs : s ≠ S8.zero) (y : U64) :
    ((Finset.range (2 ^ 512 - 1)).filter
        (fun k => (Xoshiro512PlusPlus.nextU64 (iter Xoshiro512PlusPlus.step k s)).1 = y)).card
      = if y = 0 then 2 ^ 448 - 1 else 2 ^ 448 :=
  (count_period (C07.xoshiroLarge_never_zero s hs) (C07.xoshiroLarge_no_repeat s hs)
    (fun t ht => C07.xoshiroLarge_single_cycle s t hs ht)
    (fun t => (Xoshiro512PlusPlus.nextU64 t).1) y).trans (Xoshiro512PlusPlus_states y)

/-- every value occurs within one period -/
theorem Xoshiro512PlusPlus_every_value (s : S8) (hs : s ≠ S8.zero) (y : U64) :
    ∃ k, k < 2 ^ 512 - 1 ∧ (Xoshiro512PlusPlus.nextU64 (iter Xoshiro512PlusPlus.step k s)).1 = y :=
  exists_of_count_pos (by rw [Xoshiro512PlusPlus_period s hs y]; exact count_pos (by decide) y)

example (y : U64) := Xoshiro512PlusPlus_period ⟨1, 0, 0, 0, 0, 0, 0, 0⟩ (by decide) y
example (y : U64) := Xoshiro512PlusPlus_every_value ⟨1, 0, 0, 0, 0, 0, 0, 0⟩ (by decide) y

/-! ### Xoshiro512StarStar — output `rotl(s1 * 5, 7) * 9`: a bijection of `s1` -/

/-- among all `2^512` states, every value is the output of exactly `2^448` -/
theorem Xoshiro512StarStar_fibre (y : U64) :
    (Finset.univ.filter (fun t : S8 => (Xoshiro512StarStar.nextU64 t).1 = y)).card = 2 ^ 448 :=
  (card_fibre (split8_1) (fun t => (Xoshiro512StarStar.nextU64 t).1)
    (fun _ a => starstarU64 a) (fun _ v => unStarstar64 v)
    (fun _ _ => rfl) (fun _ v => starstar_unStarstar64 v)
    (fun _ a => unStarstar64_starstar a) y).trans (card_R7)

/-- (E1) among the `2^512 - 1` non-zero states -/
theorem Xoshiro512StarStar_states (y : U64) :
    (Finset.univ.filter (fun t : S8 => t ≠ S8.zero ∧ (Xoshiro512StarStar.nextU64 t).1 = y)).card
      = if y = 0 then 2 ^ 448 - 1 else 2 ^ 448 :=
  states_count (split8_1) (card_R7) S8.zero (fun t => (Xoshiro512StarStar.nextU64 t).1)
    (fun _ a => starstarU64 a) (fun _ v => unStarstar64 v)
    (fun _ _ => rfl) (fun _ v => starstar_unStarstar64 v)
    (fun _ a => unStarstar64_starstar a) rfl y

/-- (E2) over one full period from any non-zero state -/
theorem Xoshiro512StarStar_period (s : S8) (hs : s ≠ S8.zero) (y : U64) :
    ((Finset.range (2 ^ 512 - 1)).filter
        (fun k => (Xoshiro512StarStar.nextU64 (iter Xoshiro512StarStar.step k s)).1 = y)).card
      = if y = 0 then 2 ^ 448 - 1 else 2 ^ 448 :=
  (count_period (C07.xoshiroLarge_never_zero s hs) (C07.xoshiroLarge_no_repeat s hs)
    (fun t ht => C07.xoshiroLarge_single_cycle s t hs ht)
    (fun t => (Xoshiro512StarStar.nextU64 t).1) y).trans (Xoshiro512StarStar_states y)

/-- every value occurs within one period -/
theorem Xoshiro512StarStar_every_value (s : S8) (hs : s ≠ S8.zero) (y : U64) :
    ∃ k, k < 2 ^ 512 - 1 ∧ (Xoshiro512StarStar.nextU64 (iter Xoshiro512StarStar.step k s)).1 = y :=
  exists_of_count_pos (by rw [Xoshiro512StarStar_period s hs y]; exact count_pos (by decide) y)

example (y : U64) := Xoshiro512StarStar_period ⟨1, 0, 0, 0, 0, 0, 0, 0⟩ (by decide) y
example (y : U64) := Xoshiro512StarStar_every_value ⟨1, 0, 0, 0, 0, 0, 0, 0⟩ (by decide) y

/-! ### XorShiftRng — output `w ^ (w >> 19) ^ (t ^ (t >> 8))`, `t = x ^ (x << 11)`: for fixed `x` a bijection of `w` -/

/-- among all `2^128` states, every value is the output of exactly `2^96` -/
theorem XorShiftRng_fibre (y : U32) :
    (Finset.univ.filter (fun t : S4 32 => (XorShift.nextU32 t).1 = y)).card = 2 ^ 96 :=
  (card_fibre (split4_3 32) (fun t => (XorShift.nextU32 t).1)
    (fun r a => BitInj.xsr 19 a ^^^ xorShiftT r.1) (fun r v => BitInj.unxsr 19 (v ^^^ xorShiftT r.1))
    (fun _ _ => rfl) (fun r v => xorShift_out_inv r.1 v)
    (fun r a => xorShift_inv_out r.1 a) y).trans (card_R3 32)

/-- (E1) among the `2^128 - 1` non-zero states -/
theorem XorShiftRng_states (y : U32) :
    (Finset.univ.filter (fun t : S4 32 => t ≠ S4.zero ∧ (XorShift.nextU32 t).1 = y)).card
      = if y = 0 then 2 ^ 96 - 1 else 2 ^ 96 :=
  states_count (split4_3 32) (card_R3 32) S4.zero (fun t => (XorShift.nextU32 t).1)
    (fun r a => BitInj.xsr 19 a ^^^ xorShiftT r.1) (fun r v => BitInj.unxsr 19 (v ^^^ xorShiftT r.1))
    (fun _ _ => rfl) (fun r v => xorShift_out_inv r.1 v)
    (fun r a => xorShift_inv_out r.1 a) rfl y

/-- (E2) over one full period from any non-zero state -/
theorem XorShiftRng_period (s : S4 32) (hs : s ≠ S4.zero) (y : U32) :
    ((Finset.range (2 ^ 128 - 1)).filter
        (fun k => (XorShift.nextU32 (iter XorShift.step k s)).1 = y)).card
      = if y = 0 then 2 ^ 96 - 1 else 2 ^ 96 :=
  (count_period (C07.xorShift_never_zero s hs) (C07.xorShift_no_repeat s hs)
    (fun t ht => C07.xorShift_single_cycle s t hs ht)
    (fun t => (XorShift.nextU32 t).1) y).trans (XorShiftRng_states y)

/-- every value occurs within one period -/
theorem XorShiftRng_every_value (s : S4 32) (hs : s ≠ S4.zero) (y : U32) :
    ∃ k, k < 2 ^ 128 - 1 ∧ (XorShift.nextU32 (iter XorShift.step k s)).1 = y :=
  exists_of_count_pos (by rw [XorShiftRng_period s hs y]; exact count_pos (by decide) y)

example (y : U32) := XorShiftRng_period ⟨1, 0, 0, 0⟩ (by decide) y
example (y : U32) := XorShiftRng_every_value ⟨1, 0, 0, 0⟩ (by decide) y

/-! ## all of them -/

theorem family_equidistributed :
    Equidistributed Xoroshiro64Star.nextU32 S2.zero 64 32 ∧
    Equidistributed Xoroshiro64StarStar.nextU32 S2.zero 64 32 ∧
    Equidistributed Xoroshiro128Plus.nextU64 S2.zero 128 64 ∧
    Equidistributed Xoroshiro128PlusPlus.nextU64 S2.zero 128 64 ∧
    Equidistributed Xoroshiro128StarStar.nextU64 S2.zero 128 64 ∧
    Equidistributed Xoshiro128Plus.nextU32 S4.zero 128 96 ∧
    Equidistributed Xoshiro128PlusPlus.nextU32 S4.zero 128 96 ∧
    Equidistributed Xoshiro128StarStar.nextU32 S4.zero 128 96 ∧
    Equidistributed Xoshiro256Plus.nextU64 S4.zero 256 192 ∧
    Equidistributed Xoshiro256PlusPlus.nextU64 S4.zero 256 192 ∧
    Equidistributed Xoshiro256StarStar.nextU64 S4.zero 256 192 ∧
    Equidistributed Xoshiro512Plus.nextU64 S8.zero 512 448 ∧
    Equidistributed Xoshiro512PlusPlus.nextU64 S8.zero 512 448 ∧
    Equidistributed Xoshiro512StarStar.nextU64 S8.zero 512 448 ∧
    Equidistributed XorShift.nextU32 S4.zero 128 96 :=
  ⟨Xoroshiro64Star_period,
   Xoroshiro64StarStar_period,
   Xoroshiro128Plus_period,
   Xoroshiro128PlusPlus_period,
   Xoroshiro128StarStar_period,
   Xoshiro128Plus_period,
   Xoshiro128PlusPlus_period,
   Xoshiro128StarStar_period,
   Xoshiro256Plus_period,
   Xoshiro256PlusPlus_period,
   Xoshiro256StarStar_period,
   Xoshiro512Plus_period,
   Xoshiro512PlusPlus_period,
   Xoshiro512StarStar_period,
   XorShiftRng_period⟩

/-! ## the derived `next_u32` of the nine generators with 64-bit words

  `next_u32` is `(next_u64() >> 32) as u32` (`next_u64() as u32` for Xoroshiro128PlusPlus and
  Xoroshiro128StarStar); every 32-bit value is a half of exactly `2^32` 64-bit values, so over one
  period it occurs `2^(m+32)` times (`2^(m+32) − 1` times for 0). -/

/-- `Xoroshiro128Plus::next_u32` (the upper half of `next_u64`), non-zero states -/
theorem Xoroshiro128Plus_states_u32 (v : U32) :
    (Finset.univ.filter (fun t : S2 64 => t ≠ S2.zero ∧ (Xoroshiro128Plus.gen.nextU32 t).1 = v)).card
      = if v = 0 then 2 ^ 96 - 1 else 2 ^ 96 :=
  states_count_comp (split2_0 64) (card_R1 64) S2.zero (fun t => (Xoroshiro128Plus.nextU64 t).1)
    (fun r a => a + r) (fun r v => v - r)
    (fun _ _ => rfl) (fun r v => BitVec.sub_add_cancel v r)
    (fun r a => BitVec.add_sub_cancel a r)
    (fun y => (y >>> 32).setWidth 32) card_upper (fun t => (Xoroshiro128Plus.gen.nextU32 t).1) (fun _ => rfl) rfl v

/-- `Xoroshiro128Plus::next_u32` over one full period -/
theorem Xoroshiro128Plus_period_u32 (s : S2 64) (hs : s ≠ S2.zero) (v : U32) :
    ((Finset.range (2 ^ 128 - 1)).filter
        (fun k => (Xoroshiro128Plus.gen.nextU32 (iter Xoroshiro128Plus.step k s)).1 = v)).card
      = if v = 0 then 2 ^ 96 - 1 else 2 ^ 96 :=
  (count_period (C07.xoroshiroU64_never_zero s hs) (C07.xoroshiroU64_no_repeat s hs)
    (fun t ht => C07.xoroshiroU64_single_cycle s t hs ht)
    (fun t => (Xoroshiro128Plus.gen.nextU32 t).1) v).trans (Xoroshiro128Plus_states_u32 v)

example (v : U32) := Xoroshiro128Plus_period_u32 ⟨1, 0⟩ (by decide) v

/-- `Xoroshiro128PlusPlus::next_u32` (the lower half of `next_u64`), non-zero states -/
theorem Xoroshiro128PlusPlus_states_u32 (v : U32) :
    (Finset.univ.filter (fun t : S2 64 => t ≠ S2.zero ∧ (Xoroshiro128PlusPlus.gen.nextU32 t).1 = v)).card
      = if v = 0 then 2 ^ 96 - 1 else 2 ^ 96 :=
  states_count_comp (split2_1 64) (card_R1 64) S2.zero (fun t => (Xoroshiro128PlusPlus.nextU64 t).1)
    (fun r a => plusplusU64 r a 17) (fun r v => unPlusplus 17 r v)
    (fun _ _ => rfl) (fun r v => plusplus_unPlusplus 17 r v)
    (fun r a => unPlusplus_plusplus 17 r a)
    (fun y => y.setWidth 32) card_lower (fun t => (Xoroshiro128PlusPlus.gen.nextU32 t).1) (fun _ => rfl) rfl v

/-- `Xoroshiro128PlusPlus::next_u32` over one full period -/
theorem Xoroshiro128PlusPlus_period_u32 (s : S2 64) (hs : s ≠ S2.zero) (v : U32) :
    ((Finset.range (2 ^ 128 - 1)).filter
        (fun k => (Xoroshiro128PlusPlus.gen.nextU32 (iter Xoroshiro128PlusPlus.step k s)).1 = v)).card
      = if v = 0 then 2 ^ 96 - 1 else 2 ^ 96 :=
  (count_period (C07.xoroshiroU64pp_never_zero s hs) (C07.xoroshiroU64pp_no_repeat s hs)
    (fun t ht => C07.xoroshiroU64pp_single_cycle s t hs ht)
    (fun t => (Xoroshiro128PlusPlus.gen.nextU32 t).1) v).trans (Xoroshiro128PlusPlus_states_u32 v)

example (v : U32) := Xoroshiro128PlusPlus_period_u32 ⟨1, 0⟩ (by decide) v

/-- `Xoroshiro128StarStar::next_u32` (the lower half of `next_u64`), non-zero states -/
theorem Xoroshiro128StarStar_states_u32 (v : U32) :
    (Finset.univ.filter (fun t : S2 64 => t ≠ S2.zero ∧ (Xoroshiro128StarStar.gen.nextU32 t).1 = v)).card
      = if v = 0 then 2 ^ 96 - 1 else 2 ^ 96 :=
  states_count_comp (split2_0 64) (card_R1 64) S2.zero (fun t => (Xoroshiro128StarStar.nextU64 t).1)
    (fun _ a => starstarU64 a) (fun _ v => unStarstar64 v)
    (fun _ _ => rfl) (fun _ v => starstar_unStarstar64 v)
    (fun _ a => unStarstar64_starstar a)
    (fun y => y.setWidth 32) card_lower (fun t => (Xoroshiro128StarStar.gen.nextU32 t).1) (fun _ => rfl) rfl v

/-- `Xoroshiro128StarStar::next_u32` over one full period -/
theorem Xoroshiro128StarStar_period_u32 (s : S2 64) (hs : s ≠ S2.zero) (v : U32) :
    ((Finset.range (2 ^ 128 - 1)).filter
        (fun k => (Xoroshiro128StarStar.gen.nextU32 (iter Xoroshiro128StarStar.step k s)).1 = v)).card
      = if v = 0 then 2 ^ 96 - 1 else 2 ^ 96 :=
  (count_period (C07.xoroshiroU64_never_zero s hs) (C07.xoroshiroU64_no_repeat s hs)
    (fun t ht => C07.xoroshiroU64_single_cycle s t hs ht)
    (fun t => (Xoroshiro128StarStar.gen.nextU32 t).1) v).trans (Xoroshiro128StarStar_states_u32 v)

example (v : U32) := Xoroshiro128StarStar_period_u32 ⟨1, 0⟩ (by decide) v

/-- `Xoshiro256Plus::next_u32` (the upper half of `next_u64`), non-zero states -/
theorem Xoshiro256Plus_states_u32 (v : U32) :
    (Finset.univ.filter (fun t : S4 64 => t ≠ S4.zero ∧ (Xoshiro256Plus.gen.nextU32 t).1 = v)).card
      = if v = 0 then 2 ^ 224 - 1 else 2 ^ 224 :=
  states_count_comp (split4_3 64) (card_R3 64) S4.zero (fun t => (Xoshiro256Plus.nextU64 t).1)
    (fun r a => r.1 + a) (fun r v => v - r.1)
    (fun _ _ => rfl) (fun r v => add_sub_cancel_left' r.1 v)
    (fun r a => add_sub_cancel_left'' r.1 a)
    (fun y => (y >>> 32).setWidth 32) card_upper (fun t => (Xoshiro256Plus.gen.nextU32 t).1) (fun _ => rfl) rfl v

/-- `Xoshiro256Plus::next_u32` over one full period -/
theorem Xoshiro256Plus_period_u32 (s : S4 64) (hs : s ≠ S4.zero) (v : U32) :
    ((Finset.range (2 ^ 256 - 1)).filter
        (fun k => (Xoshiro256Plus.gen.nextU32 (iter Xoshiro256Plus.step k s)).1 = v)).card
      = if v = 0 then 2 ^ 224 - 1 else 2 ^ 224 :=
  (count_period (C07.xoshiroU64_never_zero s hs) (C07.xoshiroU64_no_repeat s hs)
    (fun t ht => C07.xoshiroU64_single_cycle s t hs ht)
    (fun t => (Xoshiro256Plus.gen.nextU32 t).1) v).trans (Xoshiro256Plus_states_u32 v)

example (v : U32) := Xoshiro256Plus_period_u32 ⟨1, 0, 0, 0⟩ (by decide) v

/-- `Xoshiro256PlusPlus::next_u32` (the upper half of `next_u64`), non-zero states -/
theorem Xoshiro256PlusPlus_states_u32 (v : U32) :
    (Finset.univ.filter (fun t : S4 64 => t ≠ S4.zero ∧ (Xoshiro256PlusPlus.gen.nextU32 t).1 = v)).card
      = if v = 0 then 2 ^ 224 - 1 else 2 ^ 224 :=
  states_count_comp (split4_3 64) (card_R3 64) S4.zero (fun t => (Xoshiro256PlusPlus.nextU64 t).1)
    (fun r a => plusplusU64 r.1 a 23) (fun r v => unPlusplus 23 r.1 v)
    (fun _ _ => rfl) (fun r v => plusplus_unPlusplus 23 r.1 v)
    (fun r a => unPlusplus_plusplus 23 r.1 a)
    (fun y => (y >>> 32).setWidth 32) card_upper (fun t => (Xoshiro256PlusPlus.gen.nextU32 t).1) (fun _ => rfl) rfl v

/-- `Xoshiro256PlusPlus::next_u32` over one full period -/
theorem Xoshiro256PlusPlus_period_u32 (s : S4 64) (hs : s ≠ S4.zero) (v : U32) :
    ((Finset.range (2 ^ 256 - 1)).filter
        (fun k => (Xoshiro256PlusPlus.gen.nextU32 (iter Xoshiro256PlusPlus.step k s)).1 = v)).card
      = if v = 0 then 2 ^ 224 - 1 else 2 ^ 224 :=
  (count_period (C07.xoshiroU64_never_zero s hs) (C07.xoshiroU64_no_repeat s hs)
    (fun t ht => C07.xoshiroU64_single_cycle s t hs ht)
    (fun t => (Xoshiro256PlusPlus.gen.nextU32 t).1) v).trans (Xoshiro256PlusPlus_states_u32 v)

example (v : U32) := Xoshiro256PlusPlus_period_u32 ⟨1, 0, 0, 0⟩ (by decide) v

/-- `Xoshiro256StarStar::next_u32` (the upper half of `next_u64`), non-zero states -/
theorem Xoshiro256StarStar_states_u32 (v : U32) :
    (Finset.univ.filter (fun t : S4 64 => t ≠ S4.zero ∧ (Xoshiro256StarStar.gen.nextU32 t).1 = v)).card
      = if v = 0 then 2 ^ 224 - 1 else 2 ^ 224 :=
  states_count_comp (split4_1 64) (card_R3 64) S4.zero (fun t => (Xoshiro256StarStar.nextU64 t).1)
    (fun _ a => starstarU64 a) (fun _ v => unStarstar64 v)
    (fun _ _ => rfl) (fun _ v => starstar_unStarstar64 v)
    (fun _ a => unStarstar64_starstar a)
    (fun y => (y >>> 32).setWidth 32) card_upper (fun t => (Xoshiro256StarStar.gen.nextU32 t).1) (fun _ => rfl) rfl v

/-- `Xoshiro256StarStar::next_u32` over one full period -/
theorem Xoshiro256StarStar_period_u32 (s : S4 64) (hs : s ≠ S4.zero) (v : U32) :
    ((Finset.range (2 ^ 256 - 1)).filter
        (fun k => (Xoshiro256StarStar.gen.nextU32 (iter Xoshiro256StarStar.step k s)).1 = v)).card
      = if v = 0 then 2 ^ 224 - 1 else 2 ^ 224 :=
  (count_period (C07.xoshiroU64_never_zero s hs) (C07.xoshiroU64_no_repeat s hs)
    (fun t ht => C07.xoshiroU64_single_cycle s t hs ht)
    (fun t => (Xoshiro256StarStar.gen.nextU32 t).1) v).trans (Xoshiro256StarStar_states_u32 v)

example (v : U32) := Xoshiro256StarStar_period_u32 ⟨1, 0, 0, 0⟩ (by decide) v

/-- `Xoshiro512Plus::next_u32` (the upper half of `next_u64`), non-zero states -/
theorem Xoshiro512Plus_states_u32 (v : U32) :
    (Finset.univ.filter (fun t : S8 => t ≠ S8.zero ∧ (Xoshiro512Plus.gen.nextU32 t).1 = v)).card
      = if v = 0 then 2 ^ 480 - 1 else 2 ^ 480 :=
  states_count_comp (split8_0) (card_R7) S8.zero (fun t => (Xoshiro512Plus.nextU64 t).1)
    (fun r a => a + r.2.1) (fun r v => v - r.2.1)
    (fun _ _ => rfl) (fun r v => BitVec.sub_add_cancel v r.2.1)
    (fun r a => BitVec.add_sub_cancel a r.2.1)
    (fun y => (y >>> 32).setWidth 32) card_upper (fun t => (Xoshiro512Plus.gen.nextU32 t).1) (fun _ => rfl) rfl v

/-- `Xoshiro512Plus::next_u32` over one full period -/
theorem Xoshiro512Plus_period_u32 (s : S8) (hs : s ≠ S8.zero) (v : U32) :
    ((Finset.range (2 ^ 512 - 1)).filter
        (fun k => (Xoshiro512Plus.gen.nextU32 (iter Xoshiro512Plus.step k s)).1 = v)).card
      = if v = 0 then 2 ^ 480 - 1 else 2 ^ 480 :=
  (count_period (C07.xoshiroLarge_never_zero s hs) (C07.xoshiroLarge_no_repeat s hs)
    (fun t ht => C07.xoshiroLarge_single_cycle s t hs ht)
    (fun t => (Xoshiro512Plus.gen.nextU32 t).1) v).trans (Xoshiro512Plus_states_u32 v)

example (v : U32) := Xoshiro512Plus_period_u32 ⟨1, 0, 0, 0, 0, 0, 0, 0⟩ (by decide) v

/-- `Xoshiro512PlusPlus::next_u32` (the upper half of `next_u64`), non-zero states -/
theorem Xoshiro512PlusPlus_states_u32 (v : U32) :
    (Finset.univ.filter (fun t : S8 => t ≠ S8.zero ∧ (Xoshiro512PlusPlus.gen.nextU32 t).1 = v)).card
      = if v = 0 then 2 ^ 480 - 1 else 2 ^ 480 :=
  states_count_comp (split8_0) (card_R7) S8.zero (fun t => (Xoshiro512PlusPlus.nextU64 t).1)
    (fun r a => plusplusU64 r.2.1 a 17) (fun r v => unPlusplus 17 r.2.1 v)
    (fun _ _ => rfl) (fun r v => plusplus_unPlusplus 17 r.2.1 v)
    (fun r a => unPlusplus_plusplus 17 r.2.1 a)
    (fun y => (y >>> 32).setWidth 32) card_upper (fun t => (Xoshiro512PlusPlus.gen.nextU32 t).1) (fun _ => rfl) rfl v

/-- `Xoshiro512PlusPlus::next_u32` over one full period -/
theorem Xoshiro512PlusPlus_period_u32 (s : S8) (hs : s ≠ S8.zero) (v : U32) :
    ((Finset.range (2 ^ 512 - 1)).filter
        (fun k => (Xoshiro512PlusPlus.gen.nextU32 (iter Xoshiro512PlusPlus.step k s)).1 = v)).card
      = if v = 0 then 2 ^ 480 - 1 else 2 ^ 480 :=
  (count_period (C07.xoshiroLarge_never_zero s hs) (C07.xoshiroLarge_no_repeat s hs)
    (fun t ht => C07.xoshiroLarge_single_cycle s t hs ht)
    (fun t => (Xoshiro512PlusPlus.gen.nextU32 t).1) v).trans (Xoshiro512PlusPlus_states_u32 v)

example (v : U32) := Xoshiro512PlusPlus_period_u32 ⟨1, 0, 0, 0, 0, 0, 0, 0⟩ (by decide) v

/-- `Xoshiro512StarStar::next_u32` (the upper half of `next_u64`), non-zero states -/
theorem Xoshiro512StarStar_states_u32 (v : U32) :
    (Finset.univ.filter (fun t : S8 => t ≠ S8.zero ∧ (Xoshiro512StarStar.gen.nextU32 t).1 = v)).card
      = if v = 0 then 2 ^ 480 - 1 else 2 ^ 480 :=
  states_count_comp (split8_1) (card_R7) S8.zero (fun t => (Xoshiro512StarStar.nextU64 t).1)
    (fun _ a => starstarU64 a) (fun _ v => unStarstar64 v)
    (fun _ _ => rfl) (fun _ v => starstar_unStarstar64 v)
    (fun _ a => unStarstar64_starstar a)
    (fun y => (y >>> 32).setWidth 32) card_upper (fun t => (Xoshiro512StarStar.gen.nextU32 t).1) (fun _ => rfl) rfl v

/-- `Xoshiro512StarStar::next_u32` over one full period -/
theorem Xoshiro512StarStar_period_u32 (s : S8) (hs : s ≠ S8.zero) (v : U32) :
    ((Finset.range (2 ^ 512 - 1)).filter
        (fun k => (Xoshiro512StarStar.gen.nextU32 (iter Xoshiro512StarStar.step k s)).1 = v)).card
      = if v = 0 then 2 ^ 480 - 1 else 2 ^ 480 :=
  (count_period (C07.xoshiroLarge_never_zero s hs) (C07.xoshiroLarge_no_repeat s hs)
    (fun t ht => C07.xoshiroLarge_single_cycle s t hs ht)
    (fun t => (Xoshiro512StarStar.gen.nextU32 t).1) v).trans (Xoshiro512StarStar_states_u32 v)

example (v : U32) := Xoshiro512StarStar_period_u32 ⟨1, 0, 0, 0, 0, 0, 0, 0⟩ (by decide) v

theorem family_equidistributed_u32 :
    Equidistributed Xoroshiro128Plus.gen.nextU32 S2.zero 128 96 ∧
    Equidistributed Xoroshiro128PlusPlus.gen.nextU32 S2.zero 128 96 ∧
    Equidistributed Xoroshiro128StarStar.gen.nextU32 S2.zero 128 96 ∧
    Equidistributed Xoshiro256Plus.gen.nextU32 S4.zero 256 224 ∧
    Equidistributed Xoshiro256PlusPlus.gen.nextU32 S4.zero 256 224 ∧
    Equidistributed Xoshiro256StarStar.gen.nextU32 S4.zero 256 224 ∧
    Equidistributed Xoshiro512Plus.gen.nextU32 S8.zero 512 480 ∧
    Equidistributed Xoshiro512PlusPlus.gen.nextU32 S8.zero 512 480 ∧
    Equidistributed Xoshiro512StarStar.gen.nextU32 S8.zero 512 480 :=
  ⟨Xoroshiro128Plus_period_u32,
   Xoroshiro128PlusPlus_period_u32,
   Xoroshiro128StarStar_period_u32,
   Xoshiro256Plus_period_u32,
   Xoshiro256PlusPlus_period_u32,
   Xoshiro256StarStar_period_u32,
   Xoshiro512Plus_period_u32,
   Xoshiro512PlusPlus_period_u32,
   Xoshiro512StarStar_period_u32⟩

/-! ## the derived `next_u64` of the two xoroshiro64 generators

  `next_u64` packs two consecutive 32-bit outputs.  The pair (output of `s`, output of `T s`)
  determines `s` (`pair64_injective`: the scrambler is a bijection of `s0`, and for fixed `s0` the
  next `s0` is `c ⊕ x ⊕ (x << 9)` with `x = s1 ⊕ s0`, an injective function of `s1`), and the cycle
  length `2^64 − 1` is odd, so stepping two at a time still visits every non-zero state once
  (`stride2`). -/

/-- `Xoroshiro64Star::next_u64` (= `next_u64_via_u32`: two `next_u32` calls, `(second << 32) | first`) -/
theorem Xoroshiro64Star_nextU64_eq (t : S2 32) :
    Xoroshiro64Star.gen.nextU64 t = (pair64 (fun a => a * 0x9E3779BB#32) t, xoroshiroU32 (xoroshiroU32 t)) := rfl

/-- among the non-zero states, 0 is the `next_u64` output of none and every other 64-bit value of
    exactly one -/
theorem Xoroshiro64Star_states_u64 (y : U64) :
    (Finset.univ.filter (fun t : S2 32 => t ≠ S2.zero ∧ (Xoroshiro64Star.gen.nextU64 t).1 = y)).card
      = if y = 0 then 0 else 1 :=
  pair64_states (fun a => a * 0x9E3779BB#32) (fun a b h => by simpa only [mul_mul_inv golden_inv32] using congrArg (· * 0xbe736373#32) h) rfl y

/-- **`Xoroshiro64Star::next_u64` is exactly uniform on the non-zero 64-bit values**: started in any
    non-zero state, `2^64 − 1` consecutive calls (each advances the state twice; the cycle length
    is odd) return every non-zero value exactly once and never 0 -/
theorem Xoroshiro64Star_period_u64 (s : S2 32) (hs : s ≠ S2.zero) (y : U64) :
    ((Finset.range (2 ^ 64 - 1)).filter
        (fun k => (Xoroshiro64Star.gen.nextU64 (iter (fun s => (Xoroshiro64Star.gen.nextU64 s).2) k s)).1 = y)).card
      = if y = 0 then 0 else 1 := by
  obtain ⟨a, b, c⟩ := stride2 (N := 2 ^ 64 - 1) (z := S2.zero) (s := s) (by decide)
    C07.xoroshiroU32_bijective.1 (C07.xoroshiroU32_period s hs).1 (C07.xoroshiroU32_period s hs).2
    (C07.xoroshiroU32_never_zero s hs) (fun t ht => C07.xoroshiroU32_single_cycle s t hs ht)
  exact (count_period a b c (fun t => (Xoroshiro64Star.gen.nextU64 t).1) y).trans (Xoroshiro64Star_states_u64 y)

/-- … so within one such run no 64-bit value repeats, and 0 does not occur -/
theorem Xoroshiro64Star_u64_distinct (s : S2 32) (hs : s ≠ S2.zero) (i j : Nat) (hi : i < 2 ^ 64 - 1)
    (hj : j < 2 ^ 64 - 1) (hij : i ≠ j) :
    (Xoroshiro64Star.gen.nextU64 (iter (fun s => (Xoroshiro64Star.gen.nextU64 s).2) i s)).1
      ≠ (Xoroshiro64Star.gen.nextU64 (iter (fun s => (Xoroshiro64Star.gen.nextU64 s).2) j s)).1 :=
  distinct_of_count_le_one
    (fun k => (Xoroshiro64Star.gen.nextU64 (iter (fun s => (Xoroshiro64Star.gen.nextU64 s).2) k s)).1)
    (fun y => by rw [Xoroshiro64Star_period_u64 s hs y]; split <;> omega) hi hj hij

theorem Xoroshiro64Star_u64_ne_zero (s : S2 32) (hs : s ≠ S2.zero) (k : Nat) (hk : k < 2 ^ 64 - 1) :
    (Xoroshiro64Star.gen.nextU64 (iter (fun s => (Xoroshiro64Star.gen.nextU64 s).2) k s)).1 ≠ 0 :=
  not_occurs_of_count_zero
    (fun k => (Xoroshiro64Star.gen.nextU64 (iter (fun s => (Xoroshiro64Star.gen.nextU64 s).2) k s)).1) 0
    (by rw [Xoroshiro64Star_period_u64 s hs 0]; rfl) hk

example (y : U64) := Xoroshiro64Star_period_u64 ⟨1, 0⟩ (by decide) y
example : ∃ i j : Nat, i < 2 ^ 64 - 1 ∧ j < 2 ^ 64 - 1 ∧ i ≠ j := ⟨0, 1, by decide, by decide, by decide⟩

/-- `Xoroshiro64StarStar::next_u64` (= `next_u64_via_u32`: two `next_u32` calls, `(second << 32) | first`) -/
theorem Xoroshiro64StarStar_nextU64_eq (t : S2 32) :
    Xoroshiro64StarStar.gen.nextU64 t = (pair64 (starstarU32) t, xoroshiroU32 (xoroshiroU32 t)) := rfl

/-- among the non-zero states, 0 is the `next_u64` output of none and every other 64-bit value of
    exactly one -/
theorem Xoroshiro64StarStar_states_u64 (y : U64) :
    (Finset.univ.filter (fun t : S2 32 => t ≠ S2.zero ∧ (Xoroshiro64StarStar.gen.nextU64 t).1 = y)).card
      = if y = 0 then 0 else 1 :=
  pair64_states (starstarU32) (fun a b h => by simpa only [unStarstarU32_starstar] using congrArg unStarstarU32 h) rfl y

/-- **`Xoroshiro64StarStar::next_u64` is exactly uniform on the non-zero 64-bit values**: started in any
    non-zero state, `2^64 − 1` consecutive calls (each advances the state twice; the cycle length
    is odd) return every non-zero value exactly once and never 0 -/
theorem Xoroshiro64StarStar_period_u64 (s : S2 32) (hs : s ≠ S2.zero) (y : U64) :
    ((Finset.range (2 ^ 64 - 1)).filter
        (fun k => (Xoroshiro64StarStar.gen.nextU64 (iter (fun s => (Xoroshiro64StarStar.gen.nextU64 s).2) k s)).1 = y)).card
      = if y = 0 then 0 else 1 := by
  obtain ⟨a, b, c⟩ := stride2 (N := 2 ^ 64 - 1) (z := S2.zero) (s := s) (by decide)
    C07.xoroshiroU32_bijective.1 (C07.xoroshiroU32_period s hs).1 (C07.xoroshiroU32_period s hs).2
    (C07.xoroshiroU32_never_zero s hs) (fun t ht => C07.xoroshiroU32_single_cycle s t hs ht)
  exact (count_period a b c (fun t => (Xoroshiro64StarStar.gen.nextU64 t).1) y).trans (Xoroshiro64StarStar_states_u64 y)

/-- … so within one such run no 64-bit value repeats, and 0 does not occur -/
theorem Xoroshiro64StarStar_u64_distinct (s : S2 32) (hs : s ≠ S2.zero) (i j : Nat) (hi : i < 2 ^ 64 - 1)
    (hj : j < 2 ^ 64 - 1) (hij : i ≠ j) :
    (Xoroshiro64StarStar.gen.nextU64 (iter (fun s => (Xoroshiro64StarStar.gen.nextU64 s).2) i s)).1
      ≠ (Xoroshiro64StarStar.gen.nextU64 (iter (fun s => (Xoroshiro64StarStar.gen.nextU64 s).2) j s)).1 :=
  distinct_of_count_le_one
    (fun k => (Xoroshiro64StarStar.gen.nextU64 (iter (fun s => (Xoroshiro64StarStar.gen.nextU64 s).2) k s)).1)
    (fun y => by rw [Xoroshiro64StarStar_period_u64 s hs y]; split <;> omega) hi hj hij

theorem Xoroshiro64StarStar_u64_ne_zero (s : S2 32) (hs : s ≠ S2.zero) (k : Nat) (hk : k < 2 ^ 64 - 1) :
    (Xoroshiro64StarStar.gen.nextU64 (iter (fun s => (Xoroshiro64StarStar.gen.nextU64 s).2) k s)).1 ≠ 0 :=
  not_occurs_of_count_zero
    (fun k => (Xoroshiro64StarStar.gen.nextU64 (iter (fun s => (Xoroshiro64StarStar.gen.nextU64 s).2) k s)).1) 0
    (by rw [Xoroshiro64StarStar_period_u64 s hs 0]; rfl) hk

example (y : U64) := Xoroshiro64StarStar_period_u64 ⟨1, 0⟩ (by decide) y
example : ∃ i j : Nat, i < 2 ^ 64 - 1 ∧ j < 2 ^ 64 - 1 ∧ i ≠ j := ⟨0, 1, by decide, by decide, by decide⟩

/-- the two frequencies add up to the period: `(2^w − 1) · 2^m + (2^m − 1) = 2^(w+m) − 1` -/
theorem frequencies_sum (w m : Nat) : (2 ^ w - 1) * 2 ^ m + (2 ^ m - 1) = 2 ^ (w + m) - 1 := by
  have h1 : 0 < 2 ^ w := Nat.two_pow_pos w
  have h2 : 0 < 2 ^ m := Nat.two_pow_pos m
  rw [Nat.pow_add, Nat.sub_mul, Nat.one_mul]
  have : 2 ^ m ≤ 2 ^ w * 2 ^ m := Nat.le_mul_of_pos_left _ h1
  omega

end Rngs.Extra.Equidistribution

#print axioms Rngs.Extra.Equidistribution.Xoroshiro64Star_fibre
#print axioms Rngs.Extra.Equidistribution.Xoroshiro64Star_states
#print axioms Rngs.Extra.Equidistribution.Xoroshiro64Star_period
#print axioms Rngs.Extra.Equidistribution.Xoroshiro64Star_every_value
#print axioms Rngs.Extra.Equidistribution.Xoroshiro64StarStar_fibre
#print axioms Rngs.Extra.Equidistribution.Xoroshiro64StarStar_states
#print axioms Rngs.Extra.Equidistribution.Xoroshiro64StarStar_period
#print axioms Rngs.Extra.Equidistribution.Xoroshiro64StarStar_every_value
#print axioms Rngs.Extra.Equidistribution.Xoroshiro128Plus_fibre
#print axioms Rngs.Extra.Equidistribution.Xoroshiro128Plus_states
#print axioms Rngs.Extra.Equidistribution.Xoroshiro128Plus_period
#print axioms Rngs.Extra.Equidistribution.Xoroshiro128Plus_every_value
#print axioms Rngs.Extra.Equidistribution.Xoroshiro128PlusPlus_fibre
#print axioms Rngs.Extra.Equidistribution.Xoroshiro128PlusPlus_states
#print axioms Rngs.Extra.Equidistribution.Xoroshiro128PlusPlus_period
#print axioms Rngs.Extra.Equidistribution.Xoroshiro128PlusPlus_every_value
#print axioms Rngs.Extra.Equidistribution.Xoroshiro128StarStar_fibre
#print axioms Rngs.Extra.Equidistribution.Xoroshiro128StarStar_states
#print axioms Rngs.Extra.Equidistribution.Xoroshiro128StarStar_period
#print axioms Rngs.Extra.Equidistribution.Xoroshiro128StarStar_every_value
#print axioms Rngs.Extra.Equidistribution.Xoshiro128Plus_fibre
#print axioms Rngs.Extra.Equidistribution.Xoshiro128Plus_states
#print axioms Rngs.Extra.Equidistribution.Xoshiro128Plus_period
#print axioms Rngs.Extra.Equidistribution.Xoshiro128Plus_every_value
#print axioms Rngs.Extra.Equidistribution.Xoshiro128PlusPlus_fibre
#print axioms Rngs.Extra.Equidistribution.Xoshiro128PlusPlus_states
#print axioms Rngs.Extra.Equidistribution.Xoshiro128PlusPlus_period
#print axioms Rngs.Extra.Equidistribution.Xoshiro128PlusPlus_every_value
#print axioms Rngs.Extra.Equidistribution.Xoshiro128StarStar_fibre
#print axioms Rngs.Extra.Equidistribution.Xoshiro128StarStar_states
#print axioms Rngs.Extra.Equidistribution.Xoshiro128StarStar_period
#print axioms Rngs.Extra.Equidistribution.Xoshiro128StarStar_every_value
#print axioms Rngs.Extra.Equidistribution.Xoshiro256Plus_fibre
#print axioms Rngs.Extra.Equidistribution.Xoshiro256Plus_states
#print axioms Rngs.Extra.Equidistribution.Xoshiro256Plus_period
#print axioms Rngs.Extra.Equidistribution.Xoshiro256Plus_every_value
#print axioms Rngs.Extra.Equidistribution.Xoshiro256PlusPlus_fibre
#print axioms Rngs.Extra.Equidistribution.Xoshiro256PlusPlus_states
#print axioms Rngs.Extra.Equidistribution.Xoshiro256PlusPlus_period
#print axioms Rngs.Extra.Equidistribution.Xoshiro256PlusPlus_every_value
#print axioms Rngs.Extra.Equidistribution.Xoshiro256StarStar_fibre
#print axioms Rngs.Extra.Equidistribution.Xoshiro256StarStar_states
#print axioms Rngs.Extra.Equidistribution.Xoshiro256StarStar_period
#print axioms Rngs.Extra.Equidistribution.Xoshiro256StarStar_every_value
#print axioms Rngs.Extra.Equidistribution.Xoshiro512Plus_fibre
#print axioms Rngs.Extra.Equidistribution.Xoshiro512Plus_states
#print axioms Rngs.Extra.Equidistribution.Xoshiro512Plus_period
#print axioms Rngs.Extra.Equidistribution.Xoshiro512Plus_every_value
#print axioms Rngs.Extra.Equidistribution.Xoshiro512PlusPlus_fibre
#print axioms Rngs.Extra.Equidistribution.Xoshiro512PlusPlus_states
#print axioms Rngs.Extra.Equidistribution.Xoshiro512PlusPlus_period
#print axioms Rngs.Extra.Equidistribution.Xoshiro512PlusPlus_every_value
#print axioms Rngs.Extra.Equidistribution.Xoshiro512StarStar_fibre
#print axioms Rngs.Extra.Equidistribution.Xoshiro512StarStar_states
#print axioms Rngs.Extra.Equidistribution.Xoshiro512StarStar_period
#print axioms Rngs.Extra.Equidistribution.Xoshiro512StarStar_every_value
#print axioms Rngs.Extra.Equidistribution.XorShiftRng_fibre
#print axioms Rngs.Extra.Equidistribution.XorShiftRng_states
#print axioms Rngs.Extra.Equidistribution.XorShiftRng_period
#print axioms Rngs.Extra.Equidistribution.XorShiftRng_every_value
#print axioms Rngs.Extra.Equidistribution.family_equidistributed
#print axioms Rngs.Extra.Equidistribution.Xoroshiro128Plus_states_u32
#print axioms Rngs.Extra.Equidistribution.Xoroshiro128Plus_period_u32
#print axioms Rngs.Extra.Equidistribution.Xoroshiro128PlusPlus_states_u32
#print axioms Rngs.Extra.Equidistribution.Xoroshiro128PlusPlus_period_u32
#print axioms Rngs.Extra.Equidistribution.Xoroshiro128StarStar_states_u32
#print axioms Rngs.Extra.Equidistribution.Xoroshiro128StarStar_period_u32
#print axioms Rngs.Extra.Equidistribution.Xoshiro256Plus_states_u32
#print axioms Rngs.Extra.Equidistribution.Xoshiro256Plus_period_u32
#print axioms Rngs.Extra.Equidistribution.Xoshiro256PlusPlus_states_u32
#print axioms Rngs.Extra.Equidistribution.Xoshiro256PlusPlus_period_u32
#print axioms Rngs.Extra.Equidistribution.Xoshiro256StarStar_states_u32
#print axioms Rngs.Extra.Equidistribution.Xoshiro256StarStar_period_u32
#print axioms Rngs.Extra.Equidistribution.Xoshiro512Plus_states_u32
#print axioms Rngs.Extra.Equidistribution.Xoshiro512Plus_period_u32
#print axioms Rngs.Extra.Equidistribution.Xoshiro512PlusPlus_states_u32
#print axioms Rngs.Extra.Equidistribution.Xoshiro512PlusPlus_period_u32
#print axioms Rngs.Extra.Equidistribution.Xoshiro512StarStar_states_u32
#print axioms Rngs.Extra.Equidistribution.Xoshiro512StarStar_period_u32
#print axioms Rngs.Extra.Equidistribution.family_equidistributed_u32
#print axioms Rngs.Extra.Equidistribution.Xoroshiro64Star_nextU64_eq
#print axioms Rngs.Extra.Equidistribution.Xoroshiro64Star_states_u64
#print axioms Rngs.Extra.Equidistribution.Xoroshiro64Star_period_u64
#print axioms Rngs.Extra.Equidistribution.Xoroshiro64Star_u64_distinct
#print axioms Rngs.Extra.Equidistribution.Xoroshiro64Star_u64_ne_zero
#print axioms Rngs.Extra.Equidistribution.Xoroshiro64StarStar_nextU64_eq
#print axioms Rngs.Extra.Equidistribution.Xoroshiro64StarStar_states_u64
#print axioms Rngs.Extra.Equidistribution.Xoroshiro64StarStar_period_u64
#print axioms Rngs.Extra.Equidistribution.Xoroshiro64StarStar_u64_distinct
#print axioms Rngs.Extra.Equidistribution.Xoroshiro64StarStar_u64_ne_zero
