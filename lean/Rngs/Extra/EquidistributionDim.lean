/-
  Rngs.Extra.EquidistributionDim — the documented *k-dimensional equidistribution* of the five
  `**` generators of rand_xoshiro: over one full period every k-tuple of consecutive native
  outputs appears exactly once, except the all-zero tuple, which never appears.

      generator             state   native output                   k    period
      Xoroshiro64StarStar   2×32    rotl(s0 * 0x9E3779BB, 5) * 5    2    2^64  − 1
      Xoroshiro128StarStar  2×64    rotl(s0 * 5, 7) * 9             2    2^128 − 1
      Xoshiro128StarStar    4×32    rotl(s1 * 5, 7) * 9             4    2^128 − 1
      Xoshiro256StarStar    4×64    rotl(s1 * 5, 7) * 9             4    2^256 − 1
      Xoshiro512StarStar    8×64    rotl(s1 * 5, 7) * 9             8    2^512 − 1

  A k-tuple of w-bit values is a function `y : Fin k → BitVec w`; `k·w = n`, the number of state bits.
  Per generator `G` (state type `σ`, `out s = (G.next s).1`, `T = G.step`):

  * `G_linear_bijective`  the GF(2)-linear map `Φ s = (π s, π (T s), …, π (T^(k-1) s))` (π = the state
                          word that `**` scrambles) is a bijection of the `2^n` states.  Proof: a
                          literal inverse table `Ψ` (`Cert/Dim<G>Data`, computed by
                          `tools/gen_dim_certs.py`, untrusted), the kernel evaluates `Ψ (Φ e) = e` on
                          all `n` one-bit states with the model's own engine (`Cert/Dim<G>Chk*`,
                          `decide +kernel`), additivity of both maps lifts it to every state
                          (`Cert/Dim<G>Main.leftInv`), injective + finite ⇒ bijective;
  * `G_window_bijective`  with the scrambler's inverse (`Lib/Equidist`): `s ↦ (out s, …, out (T^(k-1) s))`
                          is a bijection from states to k-tuples;
  * `G_states` (D1)       every k-tuple `y` is the window of exactly one state;
  * `G_recover`           … namely `Ψ` applied to the unscrambled outputs (state recovery from k outputs);
  * `G_states_zero` (D1)  … and the window of `s` is the all-zero tuple iff `s` is the all-zero state;
  * `G_period` (D2)       started in ANY non-zero state `s`, every k-tuple `y ≠ 0` occurs at exactly
                          one position `i < 2^n − 1`:  `out (T^(i+j) s) = y j` for all `j < k`
                          (C07: the non-zero states form one cycle of length `2^n − 1`);
  * `G_pairs` (k = 2)     the same written with the two outputs: `out (T^i s) = a ∧ out (T^(i+1) s) = b`;
  * `G_period_zero` (D2)  at every position `i` some `out (T^(i+j) s)`, `j < k`, is non-zero: the
                          all-zero tuple occurs nowhere in the stream;
  * `G_period_count`      the same as a count over `Finset.range (2^n − 1)` (`count_period`): 0 for
                          the all-zero tuple, 1 for every other tuple;
  * `G_period_count_le`   every lower dimension `d ≤ k`: a `d`-tuple occurs `2^(w(k−d))` times per period, the
                          all-zero `d`-tuple once less (`Lib/EquidistDim.window_fibre_card`: a `d`-tuple
                          extends to `2^(w(k−d))` `k`-tuples) — `d = 1` is `Extra/Equidistribution`;
  * `G_windows_distinct`  the `2^n − 1` windows of k consecutive outputs within one period are
                          pairwise distinct;
  * `family_equidistributed_dim`  D2 for the five generators in one conjunction.

  The output is computed from the state *before* the step (`next` returns `(scramble s, T s)`), so
  output number `i` of the stream from `s` is `out (T^i s)`.  The only hypotheses anywhere are
  `s ≠ zero`, `∃ j, y j ≠ 0` and index bounds; `example`s instantiate them for every generator, and
  for every generator one concrete state (computed with the table) whose first `k` outputs are
  `1, 2, …, k` is checked by evaluation.  The `++` generators mix two state words in one output
  and are not covered.  Beyond the `**` generators: `Xoroshiro64Star` (output `s0 * 0x9E3779BB`, the
  engine and state word of `Xoroshiro64StarStar`) gets the same nine statements from the same
  certificate (last section).
-/
import Rngs.Lib.EquidistDim
import Rngs.Props.C07
import Rngs.Cert.DimXoroshiro64StarStarMain
import Rngs.Cert.DimXoroshiro128StarStarMain
import Rngs.Cert.DimXoshiro128StarStarMain
import Rngs.Cert.DimXoshiro256StarStarMain
import Rngs.Cert.DimXoshiro512StarStarMain
namespace Rngs.Extra.EquidistributionDim
open Rngs Rngs.Equidist Rngs.EquidistDim

attribute [local instance] bitVecFintype

-- only silences the elaborator's "exponent exceeds threshold" warning on `2 ^ 512`
set_option exponentiation.threshold 1024

/-- `next` (state type `σ`, `w`-bit outputs, all-zero state `z`) is `k`-dimensionally
    equidistributed over its period `2^n − 1`: from any state `s ≠ z`, every `k`-tuple `y` other
    than the all-zero one equals the outputs number `i, i+1, …, i+k−1` for exactly one position
    `i < 2^n − 1`, and at no position are `k` consecutive outputs all zero. -/
def EquidistributedDim {σ : Type} {w : Nat} (next : σ → BitVec w × σ) (z : σ) (n k : Nat) : Prop :=
  ∀ s, s ≠ z →
    (∀ y : Fin k → BitVec w, (∃ j, y j ≠ 0) →
      ∃! i, i < 2 ^ n - 1 ∧
        ∀ j : Fin k, (next (iter (fun s => (next s).2) (i + j.val) s)).1 = y j) ∧
    (∀ i, ∃ j : Fin k, (next (iter (fun s => (next s).2) (i + j.val) s)).1 ≠ 0)

/-! ### Xoroshiro64StarStar — `2` consecutive outputs `rotl(s0 * 0x9E3779BB, 5) * 5`, 64 state bits -/

/-- the linear core: `s ↦ (π s, π (T s), …, π (T^1 s))`, `π = S2.s0`, `T = xoroshiroU32`, is a bijection of the
    `2^64` states (inverse table `Cert.Dim.Xoroshiro64StarStar.cols`, kernel-checked on the 64 one-bit states) -/
theorem Xoroshiro64StarStar_linear_bijective : Function.Bijective (DimCert.phi2 xoroshiroU32 S2.s0) :=
  Finite.injective_iff_bijective.mp
    (fun a b e => DimCert.injective_of_leftInv Cert.Dim.Xoroshiro64StarStar.leftInv a b e)

/-- states ↔ `2`-tuples of outputs: the window map is a bijection -/
theorem Xoroshiro64StarStar_window_bijective :
    Function.Bijective (window 2 (fun s => (Xoroshiro64StarStar.nextU32 s).1) (fun s => (Xoroshiro64StarStar.nextU32 s).2)) :=
  window_bijective (shape2 32) xoroshiroU32 S2.s0 starstarU32 unStarstarU32 unStarstarU32_starstar starstar_unStarstarU32
    (DimCert.phi2 xoroshiroU32 S2.s0) (phi2_entry _ _) Xoroshiro64StarStar_linear_bijective.1

/-- (D1) every `2`-tuple of `32`-bit values is the sequence of the next `2` outputs of exactly one state -/
theorem Xoroshiro64StarStar_states (y : Fin 2 → U32) :
    ∃! s : S2 32, ∀ j : Fin 2, (Xoroshiro64StarStar.nextU32 (iter (fun s => (Xoroshiro64StarStar.nextU32 s).2) j.val s)).1 = y j :=
  dim_states Xoroshiro64StarStar_window_bijective y

/-- state recovery: the state is the inverse table applied to the unscrambled `2` outputs -/
theorem Xoroshiro64StarStar_recover (s : S2 32) (y : Fin 2 → U32)
    (h : ∀ j : Fin 2, (Xoroshiro64StarStar.nextU32 (iter (fun s => (Xoroshiro64StarStar.nextU32 s).2) j.val s)).1 = y j) :
    s = Cert.Dim.Xoroshiro64StarStar.psi ((shape2 32).ofFn (fun j => unStarstarU32 (y j))) :=
  recover (shape2 32) xoroshiroU32 S2.s0 starstarU32 unStarstarU32 unStarstarU32_starstar (DimCert.phi2 xoroshiroU32 S2.s0) Cert.Dim.Xoroshiro64StarStar.psi
    (phi2_entry _ _) Cert.Dim.Xoroshiro64StarStar.leftInv s y h

/-- (D1) the next `2` outputs are all zero iff the state is the all-zero state -/
theorem Xoroshiro64StarStar_states_zero (s : S2 32) :
    (∀ j : Fin 2, (Xoroshiro64StarStar.nextU32 (iter (fun s => (Xoroshiro64StarStar.nextU32 s).2) j.val s)).1 = 0) ↔ s = S2.zero :=
  dim_states_zero Xoroshiro64StarStar_window_bijective C07.xoroshiroU32_zero rfl s

/-- (D2) over one full period from any non-zero state, every non-zero `2`-tuple occurs at exactly
    one position -/
theorem Xoroshiro64StarStar_period (s : S2 32) (hs : s ≠ S2.zero) (y : Fin 2 → U32) (hy : ∃ j, y j ≠ 0) :
    ∃! i, i < 2 ^ 64 - 1 ∧ ∀ j : Fin 2, (Xoroshiro64StarStar.nextU32 (iter (fun s => (Xoroshiro64StarStar.nextU32 s).2) (i + j.val) s)).1 = y j :=
  dim_period Xoroshiro64StarStar_window_bijective C07.xoroshiroU32_zero rfl (C07.xoroshiroU32_no_repeat s hs)
    (fun t ht => C07.xoroshiroU32_single_cycle s t hs ht) y hy

/-- (D2) for `k = 2`, written out: every pair `(a, b) ≠ (0, 0)` is (output `i`, output `i + 1`) for
    exactly one position `i` of the period -/
theorem Xoroshiro64StarStar_pairs (s : S2 32) (hs : s ≠ S2.zero) (a b : U32) (hab : a ≠ 0 ∨ b ≠ 0) :
    ∃! i, i < 2 ^ 64 - 1 ∧ (Xoroshiro64StarStar.nextU32 (iter (fun s => (Xoroshiro64StarStar.nextU32 s).2) i s)).1 = a ∧ (Xoroshiro64StarStar.nextU32 (iter (fun s => (Xoroshiro64StarStar.nextU32 s).2) (i + 1) s)).1 = b :=
  dim_period_pair Xoroshiro64StarStar_window_bijective C07.xoroshiroU32_zero rfl (C07.xoroshiroU32_no_repeat s hs)
    (fun t ht => C07.xoroshiroU32_single_cycle s t hs ht) a b hab

example := Xoroshiro64StarStar_pairs ⟨1, 0⟩ (by decide) 1 0 (Or.inl (by decide))

/-- (D2) the all-zero `2`-tuple occurs at no position of the stream -/
theorem Xoroshiro64StarStar_period_zero (s : S2 32) (hs : s ≠ S2.zero) (i : Nat) :
    ∃ j : Fin 2, (Xoroshiro64StarStar.nextU32 (iter (fun s => (Xoroshiro64StarStar.nextU32 s).2) (i + j.val) s)).1 ≠ 0 :=
  dim_period_zero Xoroshiro64StarStar_window_bijective C07.xoroshiroU32_zero rfl (C07.xoroshiroU32_never_zero s hs) i

/-- (D2) as a count over the `2^64 − 1` positions of one period -/
theorem Xoroshiro64StarStar_period_count (s : S2 32) (hs : s ≠ S2.zero) (y : Fin 2 → U32) :
    ((Finset.range (2 ^ 64 - 1)).filter
        (fun i => ∀ j : Fin 2, (Xoroshiro64StarStar.nextU32 (iter (fun s => (Xoroshiro64StarStar.nextU32 s).2) (i + j.val) s)).1 = y j)).card
      = if ∀ j, y j = 0 then 0 else 1 :=
  dim_period_count Xoroshiro64StarStar_window_bijective C07.xoroshiroU32_zero rfl (C07.xoroshiroU32_never_zero s hs)
    (C07.xoroshiroU32_no_repeat s hs) (fun t ht => C07.xoroshiroU32_single_cycle s t hs ht) y

/-- (D2) every lower dimension `d ≤ 2`: a `d`-tuple occurs at `2^(32·(2−d))` positions of one period, the
    all-zero `d`-tuple at one less (`d = 1` is `Extra/Equidistribution`'s statement, `d = 2` the one above) -/
theorem Xoroshiro64StarStar_period_count_le (s : S2 32) (hs : s ≠ S2.zero) (d : Nat) (hd : d ≤ 2) (y : Fin d → U32) :
    ((Finset.range (2 ^ 64 - 1)).filter
        (fun i => ∀ j : Fin d, (Xoroshiro64StarStar.nextU32 (iter (fun s => (Xoroshiro64StarStar.nextU32 s).2) (i + j.val) s)).1 = y j)).card
      = if ∀ j, y j = 0 then 2 ^ (32 * (2 - d)) - 1 else 2 ^ (32 * (2 - d)) :=
  dim_period_count_le Xoroshiro64StarStar_window_bijective C07.xoroshiroU32_zero rfl (C07.xoroshiroU32_never_zero s hs)
    (C07.xoroshiroU32_no_repeat s hs) (fun t ht => C07.xoroshiroU32_single_cycle s t hs ht) d hd y

/-- the `2^64 − 1` windows of `2` consecutive outputs within one period are pairwise distinct -/
theorem Xoroshiro64StarStar_windows_distinct (s : S2 32) (hs : s ≠ S2.zero) (i i' : Nat)
    (hi : i < 2 ^ 64 - 1) (hi' : i' < 2 ^ 64 - 1) (hne : i ≠ i') :
    ∃ j : Fin 2, (Xoroshiro64StarStar.nextU32 (iter (fun s => (Xoroshiro64StarStar.nextU32 s).2) (i + j.val) s)).1 ≠ (Xoroshiro64StarStar.nextU32 (iter (fun s => (Xoroshiro64StarStar.nextU32 s).2) (i' + j.val) s)).1 :=
  dim_windows_distinct Xoroshiro64StarStar_window_bijective (C07.xoroshiroU32_no_repeat s hs) hi hi' hne

/- the hypotheses are satisfiable -/
example (y : Fin 2 → U32) (hy : ∃ j, y j ≠ 0) := Xoroshiro64StarStar_period ⟨1, 0⟩ (by decide) y hy
example := Xoroshiro64StarStar_period ⟨1, 0⟩ (by decide) (fun _ => 1) ⟨0, by decide⟩
example := Xoroshiro64StarStar_recover ⟨0xe56b71d2, 0x3b38f9b1⟩ (fun j => BitVec.ofNat 32 (j.val + 1)) (by decide +kernel)
example (i : Nat) := Xoroshiro64StarStar_period_zero ⟨1, 0⟩ (by decide) i
example (y : Fin 2 → U32) := Xoroshiro64StarStar_period_count ⟨1, 0⟩ (by decide) y
example (y : Fin 1 → U32) := Xoroshiro64StarStar_period_count_le ⟨1, 0⟩ (by decide) 1 (by decide) y
example := Xoroshiro64StarStar_windows_distinct ⟨1, 0⟩ (by decide) 0 1 (by decide) (by decide) (by decide)

/-- worked instance of (D1): the state (computed with the inverse table,
    `tools/gen_dim_certs.py --examples`) whose next `2` outputs are `1, 2` -/
example : ∀ j : Fin 2, (Xoroshiro64StarStar.nextU32 (iter (fun s => (Xoroshiro64StarStar.nextU32 s).2) j.val ⟨0xe56b71d2, 0x3b38f9b1⟩)).1 = BitVec.ofNat 32 (j.val + 1) := by
  decide +kernel

/-! ### Xoroshiro128StarStar — `2` consecutive outputs `rotl(s0 * 5, 7) * 9`, 128 state bits -/

/-- the linear core: `s ↦ (π s, π (T s), …, π (T^1 s))`, `π = S2.s0`, `T = xoroshiroU64`, is a bijection of the
    `2^128` states (inverse table `Cert.Dim.Xoroshiro128StarStar.cols`, kernel-checked on the 128 one-bit states) -/
theorem Xoroshiro128StarStar_linear_bijective : Function.Bijective (DimCert.phi2 xoroshiroU64 S2.s0) :=
  Finite.injective_iff_bijective.mp
    (fun a b e => DimCert.injective_of_leftInv Cert.Dim.Xoroshiro128StarStar.leftInv a b e)

/-- states ↔ `2`-tuples of outputs: the window map is a bijection -/
theorem Xoroshiro128StarStar_window_bijective :
    Function.Bijective (window 2 (fun s => (Xoroshiro128StarStar.nextU64 s).1) Xoroshiro128StarStar.step) :=
  window_bijective (shape2 64) xoroshiroU64 S2.s0 starstarU64 unStarstar64 unStarstar64_starstar starstar_unStarstar64
    (DimCert.phi2 xoroshiroU64 S2.s0) (phi2_entry _ _) Xoroshiro128StarStar_linear_bijective.1

/-- (D1) every `2`-tuple of `64`-bit values is the sequence of the next `2` outputs of exactly one state -/
theorem Xoroshiro128StarStar_states (y : Fin 2 → U64) :
    ∃! s : S2 64, ∀ j : Fin 2, (Xoroshiro128StarStar.nextU64 (iter Xoroshiro128StarStar.step j.val s)).1 = y j :=
  dim_states Xoroshiro128StarStar_window_bijective y

/-- state recovery: the state is the inverse table applied to the unscrambled `2` outputs -/
theorem Xoroshiro128StarStar_recover (s : S2 64) (y : Fin 2 → U64)
    (h : ∀ j : Fin 2, (Xoroshiro128StarStar.nextU64 (iter Xoroshiro128StarStar.step j.val s)).1 = y j) :
    s = Cert.Dim.Xoroshiro128StarStar.psi ((shape2 64).ofFn (fun j => unStarstar64 (y j))) :=
  recover (shape2 64) xoroshiroU64 S2.s0 starstarU64 unStarstar64 unStarstar64_starstar (DimCert.phi2 xoroshiroU64 S2.s0) Cert.Dim.Xoroshiro128StarStar.psi
    (phi2_entry _ _) Cert.Dim.Xoroshiro128StarStar.leftInv s y h

/-- (D1) the next `2` outputs are all zero iff the state is the all-zero state -/
theorem Xoroshiro128StarStar_states_zero (s : S2 64) :
    (∀ j : Fin 2, (Xoroshiro128StarStar.nextU64 (iter Xoroshiro128StarStar.step j.val s)).1 = 0) ↔ s = S2.zero :=
  dim_states_zero Xoroshiro128StarStar_window_bijective C07.xoroshiroU64_zero rfl s

/-- (D2) over one full period from any non-zero state, every non-zero `2`-tuple occurs at exactly
    one position -/
theorem Xoroshiro128StarStar_period (s : S2 64) (hs : s ≠ S2.zero) (y : Fin 2 → U64) (hy : ∃ j, y j ≠ 0) :
    ∃! i, i < 2 ^ 128 - 1 ∧ ∀ j : Fin 2, (Xoroshiro128StarStar.nextU64 (iter Xoroshiro128StarStar.step (i + j.val) s)).1 = y j :=
  dim_period Xoroshiro128StarStar_window_bijective C07.xoroshiroU64_zero rfl (C07.xoroshiroU64_no_repeat s hs)
    (fun t ht => C07.xoroshiroU64_single_cycle s t hs ht) y hy

/-- (D2) for `k = 2`, written out: every pair `(a, b) ≠ (0, 0)` is (output `i`, output `i + 1`) for
    exactly one position `i` of the period -/
theorem Xoroshiro128StarStar_pairs (s : S2 64) (hs : s ≠ S2.zero) (a b : U64) (hab : a ≠ 0 ∨ b ≠ 0) :
    ∃! i, i < 2 ^ 128 - 1 ∧ (Xoroshiro128StarStar.nextU64 (iter Xoroshiro128StarStar.step i s)).1 = a ∧ (Xoroshiro128StarStar.nextU64 (iter Xoroshiro128StarStar.step (i + 1) s)).1 = b :=
  dim_period_pair Xoroshiro128StarStar_window_bijective C07.xoroshiroU64_zero rfl (C07.xoroshiroU64_no_repeat s hs)
    (fun t ht => C07.xoroshiroU64_single_cycle s t hs ht) a b hab

example := Xoroshiro128StarStar_pairs ⟨1, 0⟩ (by decide) 1 0 (Or.inl (by decide))

/-- (D2) the all-zero `2`-tuple occurs at no position of the stream -/
theorem Xoroshiro128StarStar_period_zero (s : S2 64) (hs : s ≠ S2.zero) (i : Nat) :
    ∃ j : Fin 2, (Xoroshiro128StarStar.nextU64 (iter Xoroshiro128StarStar.step (i + j.val) s)).1 ≠ 0 :=
  dim_period_zero Xoroshiro128StarStar_window_bijective C07.xoroshiroU64_zero rfl (C07.xoroshiroU64_never_zero s hs) i

/-- (D2) as a count over the `2^128 − 1` positions of one period -/
theorem Xoroshiro128StarStar_period_count (s : S2 64) (hs : s ≠ S2.zero) (y : Fin 2 → U64) :
    ((Finset.range (2 ^ 128 - 1)).filter
        (fun i => ∀ j : Fin 2, (Xoroshiro128StarStar.nextU64 (iter Xoroshiro128StarStar.step (i + j.val) s)).1 = y j)).card
      = if ∀ j, y j = 0 then 0 else 1 :=
  dim_period_count Xoroshiro128StarStar_window_bijective C07.xoroshiroU64_zero rfl (C07.xoroshiroU64_never_zero s hs)
    (C07.xoroshiroU64_no_repeat s hs) (fun t ht => C07.xoroshiroU64_single_cycle s t hs ht) y

/-- (D2) every lower dimension `d ≤ 2`: a `d`-tuple occurs at `2^(64·(2−d))` positions of one period, the
    all-zero `d`-tuple at one less (`d = 1` is `Extra/Equidistribution`'s statement, `d = 2` the one above) -/
theorem Xoroshiro128StarStar_period_count_le (s : S2 64) (hs : s ≠ S2.zero) (d : Nat) (hd : d ≤ 2) (y : Fin d → U64) :
    ((Finset.range (2 ^ 128 - 1)).filter
        (fun i => ∀ j : Fin d, (Xoroshiro128StarStar.nextU64 (iter Xoroshiro128StarStar.step (i + j.val) s)).1 = y j)).card
      = if ∀ j, y j = 0 then 2 ^ (64 * (2 - d)) - 1 else 2 ^ (64 * (2 - d)) :=
  dim_period_count_le Xoroshiro128StarStar_window_bijective C07.xoroshiroU64_zero rfl (C07.xoroshiroU64_never_zero s hs)
    (C07.xoroshiroU64_no_repeat s hs) (fun t ht => C07.xoroshiroU64_single_cycle s t hs ht) d hd y

/-- the `2^128 − 1` windows of `2` consecutive outputs within one period are pairwise distinct -/
theorem Xoroshiro128StarStar_windows_distinct (s : S2 64) (hs : s ≠ S2.zero) (i i' : Nat)
    (hi : i < 2 ^ 128 - 1) (hi' : i' < 2 ^ 128 - 1) (hne : i ≠ i') :
    ∃ j : Fin 2, (Xoroshiro128StarStar.nextU64 (iter Xoroshiro128StarStar.step (i + j.val) s)).1 ≠ (Xoroshiro128StarStar.nextU64 (iter Xoroshiro128StarStar.step (i' + j.val) s)).1 :=
  dim_windows_distinct Xoroshiro128StarStar_window_bijective (C07.xoroshiroU64_no_repeat s hs) hi hi' hne

/- the hypotheses are satisfiable -/
example (y : Fin 2 → U64) (hy : ∃ j, y j ≠ 0) := Xoroshiro128StarStar_period ⟨1, 0⟩ (by decide) y hy
example := Xoroshiro128StarStar_period ⟨1, 0⟩ (by decide) (fun _ => 1) ⟨0, by decide⟩
example := Xoroshiro128StarStar_recover ⟨0x7d6c16c16c16c16c, 0xbd05771c36882fa2⟩ (fun j => BitVec.ofNat 64 (j.val + 1)) (by decide +kernel)
example (i : Nat) := Xoroshiro128StarStar_period_zero ⟨1, 0⟩ (by decide) i
example (y : Fin 2 → U64) := Xoroshiro128StarStar_period_count ⟨1, 0⟩ (by decide) y
example (y : Fin 1 → U64) := Xoroshiro128StarStar_period_count_le ⟨1, 0⟩ (by decide) 1 (by decide) y
example := Xoroshiro128StarStar_windows_distinct ⟨1, 0⟩ (by decide) 0 1 (by decide) (by decide) (by decide)

/-- worked instance of (D1): the state (computed with the inverse table,
    `tools/gen_dim_certs.py --examples`) whose next `2` outputs are `1, 2` -/
example : ∀ j : Fin 2, (Xoroshiro128StarStar.nextU64 (iter Xoroshiro128StarStar.step j.val ⟨0x7d6c16c16c16c16c, 0xbd05771c36882fa2⟩)).1 = BitVec.ofNat 64 (j.val + 1) := by
  decide +kernel

/-! ### Xoshiro128StarStar — `4` consecutive outputs `rotl(s1 * 5, 7) * 9`, 128 state bits -/

/-- the linear core: `s ↦ (π s, π (T s), …, π (T^3 s))`, `π = S4.s1`, `T = xoshiroU32`, is a bijection of the
    `2^128` states (inverse table `Cert.Dim.Xoshiro128StarStar.cols`, kernel-checked on the 128 one-bit states) -/
theorem Xoshiro128StarStar_linear_bijective : Function.Bijective (DimCert.phi4 xoshiroU32 S4.s1) :=
  Finite.injective_iff_bijective.mp
    (fun a b e => DimCert.injective_of_leftInv Cert.Dim.Xoshiro128StarStar.leftInv a b e)

/-- states ↔ `4`-tuples of outputs: the window map is a bijection -/
theorem Xoshiro128StarStar_window_bijective :
    Function.Bijective (window 4 (fun s => (Xoshiro128StarStar.nextU32 s).1) Xoshiro128StarStar.step) :=
  window_bijective (shape4 32) xoshiroU32 S4.s1 starstarU64 unStarstar32 unStarstar32_starstar starstar_unStarstar32
    (DimCert.phi4 xoshiroU32 S4.s1) (phi4_entry _ _) Xoshiro128StarStar_linear_bijective.1

/-- (D1) every `4`-tuple of `32`-bit values is the sequence of the next `4` outputs of exactly one state -/
theorem Xoshiro128StarStar_states (y : Fin 4 → U32) :
    ∃! s : S4 32, ∀ j : Fin 4, (Xoshiro128StarStar.nextU32 (iter Xoshiro128StarStar.step j.val s)).1 = y j :=
  dim_states Xoshiro128StarStar_window_bijective y

/-- state recovery: the state is the inverse table applied to the unscrambled `4` outputs -/
theorem Xoshiro128StarStar_recover (s : S4 32) (y : Fin 4 → U32)
    (h : ∀ j : Fin 4, (Xoshiro128StarStar.nextU32 (iter Xoshiro128StarStar.step j.val s)).1 = y j) :
    s = Cert.Dim.Xoshiro128StarStar.psi ((shape4 32).ofFn (fun j => unStarstar32 (y j))) :=
  recover (shape4 32) xoshiroU32 S4.s1 starstarU64 unStarstar32 unStarstar32_starstar (DimCert.phi4 xoshiroU32 S4.s1) Cert.Dim.Xoshiro128StarStar.psi
    (phi4_entry _ _) Cert.Dim.Xoshiro128StarStar.leftInv s y h

/-- (D1) the next `4` outputs are all zero iff the state is the all-zero state -/
theorem Xoshiro128StarStar_states_zero (s : S4 32) :
    (∀ j : Fin 4, (Xoshiro128StarStar.nextU32 (iter Xoshiro128StarStar.step j.val s)).1 = 0) ↔ s = S4.zero :=
  dim_states_zero Xoshiro128StarStar_window_bijective C07.xoshiroU32_zero rfl s

/-- (D2) over one full period from any non-zero state, every non-zero `4`-tuple occurs at exactly
    one position -/
theorem Xoshiro128StarStar_period (s : S4 32) (hs : s ≠ S4.zero) (y : Fin 4 → U32) (hy : ∃ j, y j ≠ 0) :
    ∃! i, i < 2 ^ 128 - 1 ∧ ∀ j : Fin 4, (Xoshiro128StarStar.nextU32 (iter Xoshiro128StarStar.step (i + j.val) s)).1 = y j :=
  dim_period Xoshiro128StarStar_window_bijective C07.xoshiroU32_zero rfl (C07.xoshiroU32_no_repeat s hs)
    (fun t ht => C07.xoshiroU32_single_cycle s t hs ht) y hy

/-- (D2) the all-zero `4`-tuple occurs at no position of the stream -/
theorem Xoshiro128StarStar_period_zero (s : S4 32) (hs : s ≠ S4.zero) (i : Nat) :
    ∃ j : Fin 4, (Xoshiro128StarStar.nextU32 (iter Xoshiro128StarStar.step (i + j.val) s)).1 ≠ 0 :=
  dim_period_zero Xoshiro128StarStar_window_bijective C07.xoshiroU32_zero rfl (C07.xoshiroU32_never_zero s hs) i

/-- (D2) as a count over the `2^128 − 1` positions of one period -/
theorem Xoshiro128StarStar_period_count (s : S4 32) (hs : s ≠ S4.zero) (y : Fin 4 → U32) :
    ((Finset.range (2 ^ 128 - 1)).filter
        (fun i => ∀ j : Fin 4, (Xoshiro128StarStar.nextU32 (iter Xoshiro128StarStar.step (i + j.val) s)).1 = y j)).card
      = if ∀ j, y j = 0 then 0 else 1 :=
  dim_period_count Xoshiro128StarStar_window_bijective C07.xoshiroU32_zero rfl (C07.xoshiroU32_never_zero s hs)
    (C07.xoshiroU32_no_repeat s hs) (fun t ht => C07.xoshiroU32_single_cycle s t hs ht) y

/-- (D2) every lower dimension `d ≤ 4`: a `d`-tuple occurs at `2^(32·(4−d))` positions of one period, the
    all-zero `d`-tuple at one less (`d = 1` is `Extra/Equidistribution`'s statement, `d = 4` the one above) -/
theorem Xoshiro128StarStar_period_count_le (s : S4 32) (hs : s ≠ S4.zero) (d : Nat) (hd : d ≤ 4) (y : Fin d → U32) :
    ((Finset.range (2 ^ 128 - 1)).filter
        (fun i => ∀ j : Fin d, (Xoshiro128StarStar.nextU32 (iter Xoshiro128StarStar.step (i + j.val) s)).1 = y j)).card
      = if ∀ j, y j = 0 then 2 ^ (32 * (4 - d)) - 1 else 2 ^ (32 * (4 - d)) :=
  dim_period_count_le Xoshiro128StarStar_window_bijective C07.xoshiroU32_zero rfl (C07.xoshiroU32_never_zero s hs)
    (C07.xoshiroU32_no_repeat s hs) (fun t ht => C07.xoshiroU32_single_cycle s t hs ht) d hd y

/-- the `2^128 − 1` windows of `4` consecutive outputs within one period are pairwise distinct -/
theorem Xoshiro128StarStar_windows_distinct (s : S4 32) (hs : s ≠ S4.zero) (i i' : Nat)
    (hi : i < 2 ^ 128 - 1) (hi' : i' < 2 ^ 128 - 1) (hne : i ≠ i') :
    ∃ j : Fin 4, (Xoshiro128StarStar.nextU32 (iter Xoshiro128StarStar.step (i + j.val) s)).1 ≠ (Xoshiro128StarStar.nextU32 (iter Xoshiro128StarStar.step (i' + j.val) s)).1 :=
  dim_windows_distinct Xoshiro128StarStar_window_bijective (C07.xoshiroU32_no_repeat s hs) hi hi' hne

/- the hypotheses are satisfiable -/
example (y : Fin 4 → U32) (hy : ∃ j, y j ≠ 0) := Xoshiro128StarStar_period ⟨1, 0, 0, 0⟩ (by decide) y hy
example := Xoshiro128StarStar_period ⟨1, 0, 0, 0⟩ (by decide) (fun _ => 1) ⟨0, by decide⟩
example := Xoshiro128StarStar_recover ⟨0x8c895c90, 0x4a16c16c, 0x52b21f24, 0x0a1a9581⟩ (fun j => BitVec.ofNat 32 (j.val + 1)) (by decide +kernel)
example (i : Nat) := Xoshiro128StarStar_period_zero ⟨1, 0, 0, 0⟩ (by decide) i
example (y : Fin 4 → U32) := Xoshiro128StarStar_period_count ⟨1, 0, 0, 0⟩ (by decide) y
example (y : Fin 1 → U32) := Xoshiro128StarStar_period_count_le ⟨1, 0, 0, 0⟩ (by decide) 1 (by decide) y
example := Xoshiro128StarStar_windows_distinct ⟨1, 0, 0, 0⟩ (by decide) 0 1 (by decide) (by decide) (by decide)

/-- worked instance of (D1): the state (computed with the inverse table,
    `tools/gen_dim_certs.py --examples`) whose next `4` outputs are `1, 2, 3, 4` -/
example : ∀ j : Fin 4, (Xoshiro128StarStar.nextU32 (iter Xoshiro128StarStar.step j.val ⟨0x8c895c90, 0x4a16c16c, 0x52b21f24, 0x0a1a9581⟩)).1 = BitVec.ofNat 32 (j.val + 1) := by
  decide +kernel

/-! ### Xoshiro256StarStar — `4` consecutive outputs `rotl(s1 * 5, 7) * 9`, 256 state bits -/

/-- the linear core: `s ↦ (π s, π (T s), …, π (T^3 s))`, `π = S4.s1`, `T = xoshiroU64`, is a bijection of the
    `2^256` states (inverse table `Cert.Dim.Xoshiro256StarStar.cols`, kernel-checked on the 256 one-bit states) -/
theorem Xoshiro256StarStar_linear_bijective : Function.Bijective (DimCert.phi4 xoshiroU64 S4.s1) :=
  Finite.injective_iff_bijective.mp
    (fun a b e => DimCert.injective_of_leftInv Cert.Dim.Xoshiro256StarStar.leftInv a b e)

/-- states ↔ `4`-tuples of outputs: the window map is a bijection -/
theorem Xoshiro256StarStar_window_bijective :
    Function.Bijective (window 4 (fun s => (Xoshiro256StarStar.nextU64 s).1) Xoshiro256StarStar.step) :=
  window_bijective (shape4 64) xoshiroU64 S4.s1 starstarU64 unStarstar64 unStarstar64_starstar starstar_unStarstar64
    (DimCert.phi4 xoshiroU64 S4.s1) (phi4_entry _ _) Xoshiro256StarStar_linear_bijective.1

/-- (D1) every `4`-tuple of `64`-bit values is the sequence of the next `4` outputs of exactly one state -/
theorem Xoshiro256StarStar_states (y : Fin 4 → U64) :
    ∃! s : S4 64, ∀ j : Fin 4, (Xoshiro256StarStar.nextU64 (iter Xoshiro256StarStar.step j.val s)).1 = y j :=
  dim_states Xoshiro256StarStar_window_bijective y

/-- state recovery: the state is the inverse table applied to the unscrambled `4` outputs -/
theorem Xoshiro256StarStar_recover (s : S4 64) (y : Fin 4 → U64)
    (h : ∀ j : Fin 4, (Xoshiro256StarStar.nextU64 (iter Xoshiro256StarStar.step j.val s)).1 = y j) :
    s = Cert.Dim.Xoshiro256StarStar.psi ((shape4 64).ofFn (fun j => unStarstar64 (y j))) :=
  recover (shape4 64) xoshiroU64 S4.s1 starstarU64 unStarstar64 unStarstar64_starstar (DimCert.phi4 xoshiroU64 S4.s1) Cert.Dim.Xoshiro256StarStar.psi
    (phi4_entry _ _) Cert.Dim.Xoshiro256StarStar.leftInv s y h

/-- (D1) the next `4` outputs are all zero iff the state is the all-zero state -/
theorem Xoshiro256StarStar_states_zero (s : S4 64) :
    (∀ j : Fin 4, (Xoshiro256StarStar.nextU64 (iter Xoshiro256StarStar.step j.val s)).1 = 0) ↔ s = S4.zero :=
  dim_states_zero Xoshiro256StarStar_window_bijective C07.xoshiroU64_zero rfl s

/-- (D2) over one full period from any non-zero state, every non-zero `4`-tuple occurs at exactly
    one position -/
theorem Xoshiro256StarStar_period (s : S4 64) (hs : s ≠ S4.zero) (y : Fin 4 → U64) (hy : ∃ j, y j ≠ 0) :
    ∃! i, i < 2 ^ 256 - 1 ∧ ∀ j : Fin 4, (Xoshiro256StarStar.nextU64 (iter Xoshiro256StarStar.step (i + j.val) s)).1 = y j :=
  dim_period Xoshiro256StarStar_window_bijective C07.xoshiroU64_zero rfl (C07.xoshiroU64_no_repeat s hs)
    (fun t ht => C07.xoshiroU64_single_cycle s t hs ht) y hy

/-- (D2) the all-zero `4`-tuple occurs at no position of the stream -/
theorem Xoshiro256StarStar_period_zero (s : S4 64) (hs : s ≠ S4.zero) (i : Nat) :
    ∃ j : Fin 4, (Xoshiro256StarStar.nextU64 (iter Xoshiro256StarStar.step (i + j.val) s)).1 ≠ 0 :=
  dim_period_zero Xoshiro256StarStar_window_bijective C07.xoshiroU64_zero rfl (C07.xoshiroU64_never_zero s hs) i

/-- (D2) as a count over the `2^256 − 1` positions of one period -/
theorem Xoshiro256StarStar_period_count (s : S4 64) (hs : s ≠ S4.zero) (y : Fin 4 → U64) :
    ((Finset.range (2 ^ 256 - 1)).filter
        (fun i => ∀ j : Fin 4, (Xoshiro256StarStar.nextU64 (iter Xoshiro256StarStar.step (i + j.val) s)).1 = y j)).card
      = if ∀ j, y j = 0 then 0 else 1 :=
  dim_period_count Xoshiro256StarStar_window_bijective C07.xoshiroU64_zero rfl (C07.xoshiroU64_never_zero s hs)
    (C07.xoshiroU64_no_repeat s hs) (fun t ht => C07.xoshiroU64_single_cycle s t hs ht) y

/-- (D2) every lower dimension `d ≤ 4`: a `d`-tuple occurs at `2^(64·(4−d))` positions of one period, the
    all-zero `d`-tuple at one less (`d = 1` is `Extra/Equidistribution`'s statement, `d = 4` the one above) -/
theorem Xoshiro256StarStar_period_count_le (s : S4 64) (hs : s ≠ S4.zero) (d : Nat) (hd : d ≤ 4) (y : Fin d → U64) :
    ((Finset.range (2 ^ 256 - 1)).filter
        (fun i => ∀ j : Fin d, (Xoshiro256StarStar.nextU64 (iter Xoshiro256StarStar.step (i + j.val) s)).1 = y j)).card
      = if ∀ j, y j = 0 then 2 ^ (64 * (4 - d)) - 1 else 2 ^ (64 * (4 - d)) :=
  dim_period_count_le Xoshiro256StarStar_window_bijective C07.xoshiroU64_zero rfl (C07.xoshiroU64_never_zero s hs)
    (C07.xoshiroU64_no_repeat s hs) (fun t ht => C07.xoshiroU64_single_cycle s t hs ht) d hd y

/-- the `2^256 − 1` windows of `4` consecutive outputs within one period are pairwise distinct -/
theorem Xoshiro256StarStar_windows_distinct (s : S4 64) (hs : s ≠ S4.zero) (i i' : Nat)
    (hi : i < 2 ^ 256 - 1) (hi' : i' < 2 ^ 256 - 1) (hne : i ≠ i') :
    ∃ j : Fin 4, (Xoshiro256StarStar.nextU64 (iter Xoshiro256StarStar.step (i + j.val) s)).1 ≠ (Xoshiro256StarStar.nextU64 (iter Xoshiro256StarStar.step (i' + j.val) s)).1 :=
  dim_windows_distinct Xoshiro256StarStar_window_bijective (C07.xoshiroU64_no_repeat s hs) hi hi' hne

/- the hypotheses are satisfiable -/
example (y : Fin 4 → U64) (hy : ∃ j, y j ≠ 0) := Xoshiro256StarStar_period ⟨1, 0, 0, 0⟩ (by decide) y hy
example := Xoshiro256StarStar_period ⟨1, 0, 0, 0⟩ (by decide) (fun _ => 1) ⟨0, by decide⟩
example := Xoshiro256StarStar_recover ⟨0xb85be5bdefdea447, 0x7d6c16c16c16c16c, 0xa5efdefe5be5e7f3, 0x3ec82c817c17b556⟩ (fun j => BitVec.ofNat 64 (j.val + 1)) (by decide +kernel)
example (i : Nat) := Xoshiro256StarStar_period_zero ⟨1, 0, 0, 0⟩ (by decide) i
example (y : Fin 4 → U64) := Xoshiro256StarStar_period_count ⟨1, 0, 0, 0⟩ (by decide) y
example (y : Fin 1 → U64) := Xoshiro256StarStar_period_count_le ⟨1, 0, 0, 0⟩ (by decide) 1 (by decide) y
example := Xoshiro256StarStar_windows_distinct ⟨1, 0, 0, 0⟩ (by decide) 0 1 (by decide) (by decide) (by decide)

/-- worked instance of (D1): the state (computed with the inverse table,
    `tools/gen_dim_certs.py --examples`) whose next `4` outputs are `1, 2, 3, 4` -/
example : ∀ j : Fin 4, (Xoshiro256StarStar.nextU64 (iter Xoshiro256StarStar.step j.val ⟨0xb85be5bdefdea447, 0x7d6c16c16c16c16c, 0xa5efdefe5be5e7f3, 0x3ec82c817c17b556⟩)).1 = BitVec.ofNat 64 (j.val + 1) := by
  decide +kernel

/-! ### Xoshiro512StarStar — `8` consecutive outputs `rotl(s1 * 5, 7) * 9`, 512 state bits -/

/-- the linear core: `s ↦ (π s, π (T s), …, π (T^7 s))`, `π = S8.s1`, `T = xoshiroLarge`, is a bijection of the
    `2^512` states (inverse table `Cert.Dim.Xoshiro512StarStar.cols`, kernel-checked on the 512 one-bit states) -/
theorem Xoshiro512StarStar_linear_bijective : Function.Bijective (DimCert.phi8 xoshiroLarge S8.s1) :=
  Finite.injective_iff_bijective.mp
    (fun a b e => DimCert.injective_of_leftInv Cert.Dim.Xoshiro512StarStar.leftInv a b e)

/-- states ↔ `8`-tuples of outputs: the window map is a bijection -/
theorem Xoshiro512StarStar_window_bijective :
    Function.Bijective (window 8 (fun s => (Xoshiro512StarStar.nextU64 s).1) Xoshiro512StarStar.step) :=
  window_bijective (shape8) xoshiroLarge S8.s1 starstarU64 unStarstar64 unStarstar64_starstar starstar_unStarstar64
    (DimCert.phi8 xoshiroLarge S8.s1) (phi8_entry _ _) Xoshiro512StarStar_linear_bijective.1

/-- (D1) every `8`-tuple of `64`-bit values is the sequence of the next `8` outputs of exactly one state -/
theorem Xoshiro512StarStar_states (y : Fin 8 → U64) :
    ∃! s : S8, ∀ j : Fin 8, (Xoshiro512StarStar.nextU64 (iter Xoshiro512StarStar.step j.val s)).1 = y j :=
  dim_states Xoshiro512StarStar_window_bijective y

/-- state recovery: the state is the inverse table applied to the unscrambled `8` outputs -/
theorem Xoshiro512StarStar_recover (s : S8) (y : Fin 8 → U64)
    (h : ∀ j : Fin 8, (Xoshiro512StarStar.nextU64 (iter Xoshiro512StarStar.step j.val s)).1 = y j) :
    s = Cert.Dim.Xoshiro512StarStar.psi ((shape8).ofFn (fun j => unStarstar64 (y j))) :=
  recover (shape8) xoshiroLarge S8.s1 starstarU64 unStarstar64 unStarstar64_starstar (DimCert.phi8 xoshiroLarge S8.s1) Cert.Dim.Xoshiro512StarStar.psi
    (phi8_entry _ _) Cert.Dim.Xoshiro512StarStar.leftInv s y h

/-- (D1) the next `8` outputs are all zero iff the state is the all-zero state -/
theorem Xoshiro512StarStar_states_zero (s : S8) :
    (∀ j : Fin 8, (Xoshiro512StarStar.nextU64 (iter Xoshiro512StarStar.step j.val s)).1 = 0) ↔ s = S8.zero :=
  dim_states_zero Xoshiro512StarStar_window_bijective C07.xoshiroLarge_zero rfl s

/-- (D2) over one full period from any non-zero state, every non-zero `8`-tuple occurs at exactly
    one position -/
theorem Xoshiro512StarStar_period (s : S8) (hs : s ≠ S8.zero) (y : Fin 8 → U64) (hy : ∃ j, y j ≠ 0) :
    ∃! i, i < 2 ^ 512 - 1 ∧ ∀ j : Fin 8, (Xoshiro512StarStar.nextU64 (iter Xoshiro512StarStar.step (i + j.val) s)).1 = y j :=
  dim_period Xoshiro512StarStar_window_bijective C07.xoshiroLarge_zero rfl (C07.xoshiroLarge_no_repeat s hs)
    (fun t ht => C07.xoshiroLarge_single_cycle s t hs ht) y hy

/-- (D2) the all-zero `8`-tuple occurs at no position of the stream -/
theorem Xoshiro512StarStar_period_zero (s : S8) (hs : s ≠ S8.zero) (i : Nat) :
    ∃ j : Fin 8, (Xoshiro512StarStar.nextU64 (iter Xoshiro512StarStar.step (i + j.val) s)).1 ≠ 0 :=
  dim_period_zero Xoshiro512StarStar_window_bijective C07.xoshiroLarge_zero rfl (C07.xoshiroLarge_never_zero s hs) i

/-- (D2) as a count over the `2^512 − 1` positions of one period -/
theorem Xoshiro512StarStar_period_count (s : S8) (hs : s ≠ S8.zero) (y : Fin 8 → U64) :
    ((Finset.range (2 ^ 512 - 1)).filter
        (fun i => ∀ j : Fin 8, (Xoshiro512StarStar.nextU64 (iter Xoshiro512StarStar.step (i + j.val) s)).1 = y j)).card
      = if ∀ j, y j = 0 then 0 else 1 :=
  dim_period_count Xoshiro512StarStar_window_bijective C07.xoshiroLarge_zero rfl (C07.xoshiroLarge_never_zero s hs)
    (C07.xoshiroLarge_no_repeat s hs) (fun t ht => C07.xoshiroLarge_single_cycle s t hs ht) y

/-- (D2) every lower dimension `d ≤ 8`: a `d`-tuple occurs at `2^(64·(8−d))` positions of one period, the
    all-zero `d`-tuple at one less (`d = 1` is `Extra/Equidistribution`'s statement, `d = 8` the one above) -/
theorem Xoshiro512StarStar_period_count_le (s : S8) (hs : s ≠ S8.zero) (d : Nat) (hd : d ≤ 8) (y : Fin d → U64) :
    ((Finset.range (2 ^ 512 - 1)).filter
        (fun i => ∀ j : Fin d, (Xoshiro512StarStar.nextU64 (iter Xoshiro512StarStar.step (i + j.val) s)).1 = y j)).card
      = if ∀ j, y j = 0 then 2 ^ (64 * (8 - d)) - 1 else 2 ^ (64 * (8 - d)) :=
  dim_period_count_le Xoshiro512StarStar_window_bijective C07.xoshiroLarge_zero rfl (C07.xoshiroLarge_never_zero s hs)
    (C07.xoshiroLarge_no_repeat s hs) (fun t ht => C07.xoshiroLarge_single_cycle s t hs ht) d hd y

/-- the `2^512 − 1` windows of `8` consecutive outputs within one period are pairwise distinct -/
theorem Xoshiro512StarStar_windows_distinct (s : S8) (hs : s ≠ S8.zero) (i i' : Nat)
    (hi : i < 2 ^ 512 - 1) (hi' : i' < 2 ^ 512 - 1) (hne : i ≠ i') :
    ∃ j : Fin 8, (Xoshiro512StarStar.nextU64 (iter Xoshiro512StarStar.step (i + j.val) s)).1 ≠ (Xoshiro512StarStar.nextU64 (iter Xoshiro512StarStar.step (i' + j.val) s)).1 :=
  dim_windows_distinct Xoshiro512StarStar_window_bijective (C07.xoshiroLarge_no_repeat s hs) hi hi' hne

/- the hypotheses are satisfiable -/
example (y : Fin 8 → U64) (hy : ∃ j, y j ≠ 0) := Xoshiro512StarStar_period ⟨1, 0, 0, 0, 0, 0, 0, 0⟩ (by decide) y hy
example := Xoshiro512StarStar_period ⟨1, 0, 0, 0, 0, 0, 0, 0⟩ (by decide) (fun _ => 1) ⟨0, by decide⟩
example := Xoshiro512StarStar_recover ⟨0xdab50272a22a22ce, 0x7d6c16c16c16c16c, 0xc70139311611617a, 0xf5269269014a0ee3, 0xf9c6bc6bfa2bfbf9, 0xb02ec2ec249771b4, 0x0cc805a2df2df2b3, 0xa180912bb0611c88⟩ (fun j => BitVec.ofNat 64 (j.val + 1)) (by decide +kernel)
example (i : Nat) := Xoshiro512StarStar_period_zero ⟨1, 0, 0, 0, 0, 0, 0, 0⟩ (by decide) i
example (y : Fin 8 → U64) := Xoshiro512StarStar_period_count ⟨1, 0, 0, 0, 0, 0, 0, 0⟩ (by decide) y
example (y : Fin 1 → U64) := Xoshiro512StarStar_period_count_le ⟨1, 0, 0, 0, 0, 0, 0, 0⟩ (by decide) 1 (by decide) y
example := Xoshiro512StarStar_windows_distinct ⟨1, 0, 0, 0, 0, 0, 0, 0⟩ (by decide) 0 1 (by decide) (by decide) (by decide)

/-- worked instance of (D1): the state (computed with the inverse table,
    `tools/gen_dim_certs.py --examples`) whose next `8` outputs are `1, 2, 3, 4, 5, 6, 7, 8` -/
example : ∀ j : Fin 8, (Xoshiro512StarStar.nextU64 (iter Xoshiro512StarStar.step j.val ⟨0xdab50272a22a22ce, 0x7d6c16c16c16c16c, 0xc70139311611617a, 0xf5269269014a0ee3, 0xf9c6bc6bfa2bfbf9, 0xb02ec2ec249771b4, 0x0cc805a2df2df2b3, 0xa180912bb0611c88⟩)).1 = BitVec.ofNat 64 (j.val + 1) := by
  decide +kernel

/-! ## all of them -/

theorem family_equidistributed_dim :
    EquidistributedDim Xoroshiro64StarStar.nextU32 S2.zero 64 2 ∧
    EquidistributedDim Xoroshiro128StarStar.nextU64 S2.zero 128 2 ∧
    EquidistributedDim Xoshiro128StarStar.nextU32 S4.zero 128 4 ∧
    EquidistributedDim Xoshiro256StarStar.nextU64 S4.zero 256 4 ∧
    EquidistributedDim Xoshiro512StarStar.nextU64 S8.zero 512 8 :=
  ⟨fun s hs => ⟨Xoroshiro64StarStar_period s hs, Xoroshiro64StarStar_period_zero s hs⟩,
   fun s hs => ⟨Xoroshiro128StarStar_period s hs, Xoroshiro128StarStar_period_zero s hs⟩,
   fun s hs => ⟨Xoshiro128StarStar_period s hs, Xoshiro128StarStar_period_zero s hs⟩,
   fun s hs => ⟨Xoshiro256StarStar_period s hs, Xoshiro256StarStar_period_zero s hs⟩,
   fun s hs => ⟨Xoshiro512StarStar_period s hs, Xoshiro512StarStar_period_zero s hs⟩⟩


/-! ## beyond the `**` generators: Xoroshiro64Star

  `Xoroshiro64Star` has the engine of `Xoroshiro64StarStar` and scrambles the same word `s0` with
  the bijection `x ↦ x * 0x9E3779BB`: the same certificate gives its 2-dimensional
  equidistribution. -/

/-! ### Xoroshiro64Star — `2` consecutive outputs `s0 * 0x9E3779BB`, 64 state bits -/

/-- states ↔ `2`-tuples of outputs: the window map is a bijection -/
theorem Xoroshiro64Star_window_bijective :
    Function.Bijective (window 2 (fun s => (Xoroshiro64Star.nextU32 s).1) (fun s => (Xoroshiro64Star.nextU32 s).2)) :=
  window_bijective (shape2 32) xoroshiroU32 S2.s0 (fun x : U32 => x * 0x9E3779BB#32) (fun v : U32 => v * 0xbe736373#32) (fun a => mul_mul_inv golden_inv32 a) (fun v => mul_inv_mul golden_inv32 v)
    (DimCert.phi2 xoroshiroU32 S2.s0) (phi2_entry _ _) Xoroshiro64StarStar_linear_bijective.1

/-- (D1) every `2`-tuple of `32`-bit values is the sequence of the next `2` outputs of exactly one state -/
theorem Xoroshiro64Star_states (y : Fin 2 → U32) :
    ∃! s : S2 32, ∀ j : Fin 2, (Xoroshiro64Star.nextU32 (iter (fun s => (Xoroshiro64Star.nextU32 s).2) j.val s)).1 = y j :=
  dim_states Xoroshiro64Star_window_bijective y

/-- state recovery: the state is the inverse table applied to the unscrambled `2` outputs -/
theorem Xoroshiro64Star_recover (s : S2 32) (y : Fin 2 → U32)
    (h : ∀ j : Fin 2, (Xoroshiro64Star.nextU32 (iter (fun s => (Xoroshiro64Star.nextU32 s).2) j.val s)).1 = y j) :
    s = Cert.Dim.Xoroshiro64StarStar.psi ((shape2 32).ofFn (fun j => y j * 0xbe736373#32)) :=
  recover (shape2 32) xoroshiroU32 S2.s0 (fun x : U32 => x * 0x9E3779BB#32) (fun v : U32 => v * 0xbe736373#32) (fun a => mul_mul_inv golden_inv32 a) (DimCert.phi2 xoroshiroU32 S2.s0) Cert.Dim.Xoroshiro64StarStar.psi
    (phi2_entry _ _) Cert.Dim.Xoroshiro64StarStar.leftInv s y h

/-- (D1) the next `2` outputs are all zero iff the state is the all-zero state -/
theorem Xoroshiro64Star_states_zero (s : S2 32) :
    (∀ j : Fin 2, (Xoroshiro64Star.nextU32 (iter (fun s => (Xoroshiro64Star.nextU32 s).2) j.val s)).1 = 0) ↔ s = S2.zero :=
  dim_states_zero Xoroshiro64Star_window_bijective C07.xoroshiroU32_zero rfl s

/-- (D2) over one full period from any non-zero state, every non-zero `2`-tuple occurs at exactly
    one position -/
theorem Xoroshiro64Star_period (s : S2 32) (hs : s ≠ S2.zero) (y : Fin 2 → U32) (hy : ∃ j, y j ≠ 0) :
    ∃! i, i < 2 ^ 64 - 1 ∧ ∀ j : Fin 2, (Xoroshiro64Star.nextU32 (iter (fun s => (Xoroshiro64Star.nextU32 s).2) (i + j.val) s)).1 = y j :=
  dim_period Xoroshiro64Star_window_bijective C07.xoroshiroU32_zero rfl (C07.xoroshiroU32_no_repeat s hs)
    (fun t ht => C07.xoroshiroU32_single_cycle s t hs ht) y hy

/-- (D2) for `k = 2`, written out: every pair `(a, b) ≠ (0, 0)` is (output `i`, output `i + 1`) for
    exactly one position `i` of the period -/
theorem Xoroshiro64Star_pairs (s : S2 32) (hs : s ≠ S2.zero) (a b : U32) (hab : a ≠ 0 ∨ b ≠ 0) :
    ∃! i, i < 2 ^ 64 - 1 ∧ (Xoroshiro64Star.nextU32 (iter (fun s => (Xoroshiro64Star.nextU32 s).2) i s)).1 = a ∧ (Xoroshiro64Star.nextU32 (iter (fun s => (Xoroshiro64Star.nextU32 s).2) (i + 1) s)).1 = b :=
  dim_period_pair Xoroshiro64Star_window_bijective C07.xoroshiroU32_zero rfl (C07.xoroshiroU32_no_repeat s hs)
    (fun t ht => C07.xoroshiroU32_single_cycle s t hs ht) a b hab

example := Xoroshiro64Star_pairs ⟨1, 0⟩ (by decide) 1 0 (Or.inl (by decide))

/-- (D2) the all-zero `2`-tuple occurs at no position of the stream -/
theorem Xoroshiro64Star_period_zero (s : S2 32) (hs : s ≠ S2.zero) (i : Nat) :
    ∃ j : Fin 2, (Xoroshiro64Star.nextU32 (iter (fun s => (Xoroshiro64Star.nextU32 s).2) (i + j.val) s)).1 ≠ 0 :=
  dim_period_zero Xoroshiro64Star_window_bijective C07.xoroshiroU32_zero rfl (C07.xoroshiroU32_never_zero s hs) i

/-- (D2) as a count over the `2^64 − 1` positions of one period -/
theorem Xoroshiro64Star_period_count (s : S2 32) (hs : s ≠ S2.zero) (y : Fin 2 → U32) :
    ((Finset.range (2 ^ 64 - 1)).filter
        (fun i => ∀ j : Fin 2, (Xoroshiro64Star.nextU32 (iter (fun s => (Xoroshiro64Star.nextU32 s).2) (i + j.val) s)).1 = y j)).card
      = if ∀ j, y j = 0 then 0 else 1 :=
  dim_period_count Xoroshiro64Star_window_bijective C07.xoroshiroU32_zero rfl (C07.xoroshiroU32_never_zero s hs)
    (C07.xoroshiroU32_no_repeat s hs) (fun t ht => C07.xoroshiroU32_single_cycle s t hs ht) y

/-- (D2) every lower dimension `d ≤ 2`: a `d`-tuple occurs at `2^(32·(2−d))` positions of one period, the
    all-zero `d`-tuple at one less (`d = 1` is `Extra/Equidistribution`'s statement, `d = 2` the one above) -/
theorem Xoroshiro64Star_period_count_le (s : S2 32) (hs : s ≠ S2.zero) (d : Nat) (hd : d ≤ 2) (y : Fin d → U32) :
    ((Finset.range (2 ^ 64 - 1)).filter
        (fun i => ∀ j : Fin d, (Xoroshiro64Star.nextU32 (iter (fun s => (Xoroshiro64Star.nextU32 s).2) (i + j.val) s)).1 = y j)).card
      = if ∀ j, y j = 0 then 2 ^ (32 * (2 - d)) - 1 else 2 ^ (32 * (2 - d)) :=
  dim_period_count_le Xoroshiro64Star_window_bijective C07.xoroshiroU32_zero rfl (C07.xoroshiroU32_never_zero s hs)
    (C07.xoroshiroU32_no_repeat s hs) (fun t ht => C07.xoroshiroU32_single_cycle s t hs ht) d hd y

/-- the `2^64 − 1` windows of `2` consecutive outputs within one period are pairwise distinct -/
theorem Xoroshiro64Star_windows_distinct (s : S2 32) (hs : s ≠ S2.zero) (i i' : Nat)
    (hi : i < 2 ^ 64 - 1) (hi' : i' < 2 ^ 64 - 1) (hne : i ≠ i') :
    ∃ j : Fin 2, (Xoroshiro64Star.nextU32 (iter (fun s => (Xoroshiro64Star.nextU32 s).2) (i + j.val) s)).1 ≠ (Xoroshiro64Star.nextU32 (iter (fun s => (Xoroshiro64Star.nextU32 s).2) (i' + j.val) s)).1 :=
  dim_windows_distinct Xoroshiro64Star_window_bijective (C07.xoroshiroU32_no_repeat s hs) hi hi' hne

/- the hypotheses are satisfiable -/
example (y : Fin 2 → U32) (hy : ∃ j, y j ≠ 0) := Xoroshiro64Star_period ⟨1, 0⟩ (by decide) y hy
example := Xoroshiro64Star_period ⟨1, 0⟩ (by decide) (fun _ => 1) ⟨0, by decide⟩
example := Xoroshiro64Star_recover ⟨0xbe736373, 0x47d6be18⟩ (fun j => BitVec.ofNat 32 (j.val + 1)) (by decide +kernel)
example (i : Nat) := Xoroshiro64Star_period_zero ⟨1, 0⟩ (by decide) i
example (y : Fin 2 → U32) := Xoroshiro64Star_period_count ⟨1, 0⟩ (by decide) y
example (y : Fin 1 → U32) := Xoroshiro64Star_period_count_le ⟨1, 0⟩ (by decide) 1 (by decide) y
example := Xoroshiro64Star_windows_distinct ⟨1, 0⟩ (by decide) 0 1 (by decide) (by decide) (by decide)

/-- worked instance of (D1): the state (computed with the inverse table,
    `tools/gen_dim_certs.py --examples`) whose next `2` outputs are `1, 2` -/
example : ∀ j : Fin 2, (Xoroshiro64Star.nextU32 (iter (fun s => (Xoroshiro64Star.nextU32 s).2) j.val ⟨0xbe736373, 0x47d6be18⟩)).1 = BitVec.ofNat 32 (j.val + 1) := by
  decide +kernel

end Rngs.Extra.EquidistributionDim
