/-
  Rngs.Extra.Hc128KeySchedule — HC-128's initialisation never maps two seeds to the same
  generator.

  A. Specification (Wu, "The Stream Cipher HC-128", §2.2; `Spec/Wu.lean`):
     A1  `spec_expansion_injective`   the tables after the key/IV expansion (`P[i] = W_{i+256}`,
                                      `Q[i] = W_{i+768}`) determine key and IV: the recurrence
                                      `W_i = f2(W_{i-2}) + W_{i-7} + f1(W_{i-15}) + W_{i-16} + i`
                                      runs backwards (`W_back`), down to `W_0 … W_15 = K,K,IV,IV`;
     A2  `spec_setup_step_injective`  each of the 1024 set-up steps is injective on the pair of
                                      tables (it rewrites one entry `T[i]` to
                                      `(T[i] + g(…)) ⊕ h(…)`, and neither `g` nor `h` reads entry `i`);
     A3  `spec_init_injective`        hence the whole initialisation `(K, IV) ↦ (P, Q)` is injective.
  B. Model of rand_hc (`Model/Hc128.lean`), through `Hc128R.init_refine` (C02: `init` computes A):
     B0  `expansion_table_injective`, `sixteenSteps_injective`, `setup_steps_injective`: the two halves
                                      of the argument on the model itself (`init_stages`: `init` is
                                      their composition) — the second for arbitrary table contents;
     B1  `init_injective`             `Hc128Core::init` is injective on 8-word seeds — already the
                                      tables differ (`init_table_injective`; the counter is always 0);
     B2  `fromSeedCore_injective`, `fromSeed_injective`   `from_seed` is injective on 32-byte seeds;
     B3  `fromSeed_beq`               … also up to the hand-written `==` of `Hc128Rng` (which ignores
                                      the results buffer);
     B4  `fromRng_injective`          the default `from_rng`: different 32-byte draws, different generators.
  C. With C10's `generate` injectivity (`Lib/Hc128Inj`): two well-formed cores never merge, so two
     different seeds give different cores after any number of generated blocks
     (`cores_never_merge`, `fromSeed_never_merge`).

  Helper lemmas: `Lib/Hc128InitInj`.  Every hypothesis (`length = 8`, `length = 32`, `WF`) is shown
  satisfiable by an `example`.
-/
import Rngs.Lib.Hc128InitInj
import Rngs.Props.C10
namespace Rngs.Extra.Hc128KeySchedule
open Rngs Rngs.Hc128 Rngs.Spec Rngs.Spec.Wu

/-! # A. the specification -/

/-- A1 — step 1+2 of the initialisation (key and IV expansion) is injective -/
theorem spec_expansion_injective (K IV K' IV' : Vector U32 4)
    (hP : ∀ j, j < 512 → (expand K IV).P j = (expand K' IV').P j)
    (hQ : ∀ j, j < 512 → (expand K IV).Q j = (expand K' IV').Q j) : K = K' ∧ IV = IV' := by
  have hW := Hc128InitInj.W_back 256
    (fun j h1 h2 => Hc128InitInj.expand_agree (K := K) (IV := IV) (K' := K') (IV' := IV') ⟨hP, hQ⟩ j h1 (by omega))
  exact Hc128InitInj.KIV_of_W (fun j hj => hW j (by omega))

/-- A2 — one set-up step (either loop) at a position `i < 512` is injective on the tables -/
theorem spec_setup_step_injective (s₁ s₂ : Wu.State) (i : Nat) (hi : i < 512) :
    (Hc128InitInj.Agree (setupP s₁ i) (setupP s₂ i) → Hc128InitInj.Agree s₁ s₂) ∧
    (Hc128InitInj.Agree (setupQ s₁ i) (setupQ s₂ i) → Hc128InitInj.Agree s₁ s₂) :=
  ⟨Hc128InitInj.setupP_agree hi, Hc128InitInj.setupQ_agree hi⟩

/-- A3 — **the initialisation process of HC-128 is injective**: if the tables `P` and `Q` after
    the key and IV set-up agree, then key and IV agree. -/
theorem spec_init_injective (K IV K' IV' : Vector U32 4)
    (hP : ∀ j, j < 512 → (initState K IV).P j = (initState K' IV').P j)
    (hQ : ∀ j, j < 512 → (initState K IV).Q j = (initState K' IV').Q j) : K = K' ∧ IV = IV' :=
  Hc128InitInj.initState_injective ⟨hP, hQ⟩

/-! # B. the model of `Hc128Core::init` / `from_seed` -/

/-- B0 (i) — the table that `init` has built when the two expansion loops are done (before the
    1024 set-up steps) determines the seed -/
theorem expansion_table_injective (a b : List U32) (ha : a.length = 8) (hb : b.length = 8)
    (h : Hc128R.stage4 (Hc128R.stage3 (Hc128R.stage2 (Hc128R.stage1 a)))
       = Hc128R.stage4 (Hc128R.stage3 (Hc128R.stage2 (Hc128R.stage1 b)))) : a = b :=
  Hc128InitInj.expansion_t_injective a b ha hb h

/-- B0 (ii) — `sixteen_steps` (16 set-up steps, each output written back into the table) is
    injective on cores with a 1024-word table and a counter that is a multiple of 16; proved on
    the model directly, for arbitrary table contents -/
theorem sixteenSteps_injective (c₁ c₂ : Core) (s₁ : c₁.t.size = 1024) (s₂ : c₂.t.size = 1024)
    (m₁ : c₁.counter % 16 = 0) (h : Hc128.sixteenSteps c₁ = Hc128.sixteenSteps c₂) : c₁ = c₂ :=
  Hc128InitInj.sixteenSteps_inj s₁ s₂ m₁ h

/-- B0 (ii) — the 64 `sixteen_steps` calls of `init` are injective on 1024-word tables -/
theorem setup_steps_injective (t₁ t₂ : Array U32) (s₁ : t₁.size = 1024) (s₂ : t₂.size = 1024)
    (h : Hc128R.stage5 t₁ = Hc128R.stage5 t₂) : t₁ = t₂ :=
  Hc128InitInj.stage5_inj s₁ s₂ h

/-- `init` is the composition of these stages (definitional) -/
theorem init_stages (seed : List U32) :
    Hc128.init seed =
      { Hc128R.stage5 (Hc128R.stage4 (Hc128R.stage3 (Hc128R.stage2 (Hc128R.stage1 seed)))) with
        counter := 0 } := Hc128R.init_eq seed

/-- B1 — two 8-word seeds with the same table after `init` are equal -/
theorem init_table_injective (a b : List U32) (ha : a.length = 8) (hb : b.length = 8)
    (h : (Hc128.init a).t = (Hc128.init b).t) : a = b :=
  Hc128InitInj.init_t_injective a b ha hb h

/-- B1 — **`Hc128Core::init` is injective on seeds.** -/
theorem init_injective :
    ∀ a b : List U32, a.length = 8 → b.length = 8 → Hc128.init a = Hc128.init b → a = b :=
  fun a b ha hb h => init_table_injective a b ha hb (congrArg Core.t h)

theorem length_readU32s (s : List U8) (n : Nat) : (readU32s s n).length = n := by
  simp [readU32s]

/-- B2 — `Hc128Core::from_seed` is injective on 32-byte seeds -/
theorem fromSeedCore_injective (a b : List U8) (ha : a.length = 32) (hb : b.length = 32)
    (h : Hc128.fromSeedCore a = Hc128.fromSeedCore b) : a = b := by
  unfold fromSeedCore at h
  have := init_injective _ _ (length_readU32s a 8) (length_readU32s b 8) h
  exact IsaacInj.readU32s_injective a b 8 (by omega) (by omega) this

theorem fromSeed_core (s : List U8) : (Hc128.fromSeed s).core = Hc128.fromSeedCore s := by
  unfold Hc128.fromSeed BlockRng.new
  rfl

/-- B2 — `Hc128Rng::from_seed` is injective on 32-byte seeds -/
theorem fromSeed_injective (a b : List U8) (ha : a.length = 32) (hb : b.length = 32)
    (h : Hc128.fromSeed a = Hc128.fromSeed b) : a = b := by
  apply fromSeedCore_injective a b ha hb
  rw [← fromSeed_core, ← fromSeed_core, h]

/-- B3 — two seeded generators that compare equal under `Hc128Rng`'s `==` have the same seed -/
theorem fromSeed_beq (a b : List U8) (ha : a.length = 32) (hb : b.length = 32)
    (h : Hc128.beq (Hc128.fromSeed a) (Hc128.fromSeed b) = true) : a = b := by
  apply fromSeedCore_injective a b ha hb
  rw [← fromSeed_core, ← fromSeed_core]
  exact ((C10.Hc128_beq_iff _ _).mp h).1

/-- B4 — default `from_rng`: if the source delivers the 32-byte strings `a` resp. `b` and the
    generators built from them are equal, then `a = b` -/
theorem fromRng_injective {ρ : Type} (fill : TryFill ρ) (src₁ src₂ src₁' src₂' : ρ) (a b : List U8)
    (ha : a.length = 32) (hb : b.length = 32)
    (h₁ : fill src₁ 32 = (.ok a, src₁')) (h₂ : fill src₂ 32 = (.ok b, src₂'))
    (h : (Hc128.fromRng fill src₁).1 = (Hc128.fromRng fill src₂).1) : a = b := by
  unfold Hc128.fromRng fromRngDefault at h
  rw [h₁, h₂] at h
  simp only [Except.ok.injEq] at h
  exact fromSeed_injective a b ha hb h

/-! # C. seeds never merge -/

/-- the core transition of `generate` (the results buffer does not influence it:
    `Hc128Inj.generate_core_indep`) -/
def nextCore (c : Core) : Core := (Hc128.generate c (Array.replicate 16 0)).2

theorem generate_core_eq (c : Core) (r : Array U32) : (Hc128.generate c r).2 = nextCore c :=
  Hc128Inj.generate_core_indep c r _

theorem nextCore_WF {c : Core} (h : Hc128Inj.WF c) : Hc128Inj.WF (nextCore c) :=
  Hc128Inj.generate_WF h _

theorem iter_nextCore_WF {c : Core} (h : Hc128Inj.WF c) (k : Nat) :
    Hc128Inj.WF (iter nextCore k c) := by
  induction k with
  | zero => exact h
  | succ k ih => exact nextCore_WF ih

/-- every seeded core is well-formed (1024-word table, counter 0) -/
theorem fromSeedCore_WF (seed : List U8) : Hc128Inj.WF (Hc128.fromSeedCore seed) := by
  obtain ⟨h1, h2⟩ := Hc128R.fromSeedCore_refine seed
  refine ⟨h1.size, ?_, ?_⟩
  · rw [h2]
  · rw [h2]; decide

/-- two well-formed cores that coincide after `k` blocks were equal from the start -/
theorem cores_never_merge (k : Nat) (c₁ c₂ : Core) (h₁ : Hc128Inj.WF c₁) (h₂ : Hc128Inj.WF c₂)
    (h : iter nextCore k c₁ = iter nextCore k c₂) : c₁ = c₂ := by
  induction k with
  | zero => exact h
  | succ k ih =>
    exact ih (Hc128Inj.generate_core_inj (iter_nextCore_WF h₁ k) (iter_nextCore_WF h₂ k) _ _ h)

/-- **distinct 32-byte seeds give distinct cores after any number of generated blocks** -/
theorem fromSeed_never_merge (k : Nat) (a b : List U8) (ha : a.length = 32) (hb : b.length = 32)
    (h : iter nextCore k (Hc128.fromSeedCore a) = iter nextCore k (Hc128.fromSeedCore b)) : a = b :=
  fromSeedCore_injective a b ha hb
    (cores_never_merge k _ _ (fromSeedCore_WF a) (fromSeedCore_WF b) h)

/-! # usage: hypotheses satisfiable, theorems applied to concrete different inputs -/

example : ([1, 2, 3, 4, 5, 6, 7, 8] : List U32).length = 8 := rfl
example : (List.replicate 32 (0 : U8)).length = 32 ∧ (List.replicate 31 (0 : U8) ++ [1]).length = 32 := by
  decide
example (seed : List U8) : Hc128Inj.WF (Hc128.fromSeedCore seed) := fromSeedCore_WF seed
example : ∃ c : Core, c.t.size = 1024 ∧ c.counter % 16 = 0 := ⟨⟨Array.replicate 1024 0, 0⟩, by simp, rfl⟩

example : Hc128.init [0, 0, 0, 0, 0, 0, 0, 0] ≠ Hc128.init [0, 0, 0, 0, 1, 0, 0, 0] := fun h =>
  absurd (init_injective _ _ rfl rfl h) (by decide)

example : Hc128.fromSeed (List.replicate 32 0) ≠ Hc128.fromSeed (List.replicate 31 0 ++ [1]) := fun h =>
  absurd (fromSeed_injective _ _ (by decide) (by decide) h) (by decide)

example : Hc128.beq (Hc128.fromSeed (List.replicate 32 0)) (Hc128.fromSeed (List.replicate 31 0 ++ [1]))
    ≠ true := fun h =>
  absurd (fromSeed_beq _ _ (by decide) (by decide) h) (by decide)

example (k : Nat) :
    iter nextCore k (Hc128.fromSeedCore (List.replicate 32 0)) ≠
      iter nextCore k (Hc128.fromSeedCore (List.replicate 31 0 ++ [1])) := fun h =>
  absurd (fromSeed_never_merge k _ _ (by decide) (by decide) h) (by decide)

/-- key 0 / IV 0 and key 0 / IV 1 (two of the paper's test-vector inputs) have different tables -/
example : ¬ ((∀ j, j < 512 → (initState #v[0, 0, 0, 0] #v[0, 0, 0, 0]).P j = (initState #v[0, 0, 0, 0] #v[1, 0, 0, 0]).P j) ∧
    (∀ j, j < 512 → (initState #v[0, 0, 0, 0] #v[0, 0, 0, 0]).Q j = (initState #v[0, 0, 0, 0] #v[1, 0, 0, 0]).Q j)) :=
  fun h => absurd (spec_init_injective _ _ _ _ h.1 h.2).2 (by decide)

end Rngs.Extra.Hc128KeySchedule

#print axioms Rngs.Extra.Hc128KeySchedule.spec_expansion_injective
#print axioms Rngs.Extra.Hc128KeySchedule.spec_setup_step_injective
#print axioms Rngs.Extra.Hc128KeySchedule.spec_init_injective
#print axioms Rngs.Extra.Hc128KeySchedule.expansion_table_injective
#print axioms Rngs.Extra.Hc128KeySchedule.sixteenSteps_injective
#print axioms Rngs.Extra.Hc128KeySchedule.setup_steps_injective
#print axioms Rngs.Extra.Hc128KeySchedule.init_stages
#print axioms Rngs.Extra.Hc128KeySchedule.init_table_injective
#print axioms Rngs.Extra.Hc128KeySchedule.init_injective
#print axioms Rngs.Extra.Hc128KeySchedule.fromSeedCore_injective
#print axioms Rngs.Extra.Hc128KeySchedule.fromSeed_injective
#print axioms Rngs.Extra.Hc128KeySchedule.fromSeed_beq
#print axioms Rngs.Extra.Hc128KeySchedule.fromRng_injective
#print axioms Rngs.Extra.Hc128KeySchedule.generate_core_eq
#print axioms Rngs.Extra.Hc128KeySchedule.fromSeedCore_WF
#print axioms Rngs.Extra.Hc128KeySchedule.cores_never_merge
#print axioms Rngs.Extra.Hc128KeySchedule.fromSeed_never_merge
