/-
  Rngs.Extra.JitterEntropy — what a user of `JitterRng` relies on and no test can sample.

  Model: `Rngs.Model.Jitter` (`TM = StateT (List U64) Option`: the timer is the list of values it will
  return; `none` = the script ran dry).  A collection reads `t₀ | c₁ T₁ c₁' | c₂ T₂ c₂' | …`: the priming
  reading, then per measurement a loop-count reading, the time reading, a loop-count reading.

  J1  no measured delta is lost.
      (a)  one `measure_jitter`: same pool, same `EcState`, same verdict — the new pools are equal iff the
           two 32-bit deltas are (`measureJitter_pool_eq_iff`).
      (b1) the value of `gen_entropy` is `output pool (consumed measurements)`; with the verdicts and the
           other deltas fixed it is injective in every single delta — stuck ones included
           (`output_eq_iff`, `genEntropy_injective_in_each_delta`); bijective in the pool
           (`output_bijective_in_pool`).
      (b2) time readings: if only the LAST consumed time reading differs, the values are equal iff the two
           readings agree mod 2^32 — no hypothesis on verdicts (`genEntropy_last_time_reading`).
      (b3) time readings, fully general: ONE time reading anywhere differs (two deltas change), same
           verdicts — the values are equal iff the two readings agree mod 2^32
           (`genEntropy_one_time_reading`).  The two changed deltas never cancel
           (`two_deltas_never_cancel`): the only xor-difference pair that would cancel in the LFSR
           (`two_deltas_roots`, it exists: `two_deltas_root_exists`) has different lowest bits, which the
           arithmetic of time stamps excludes.  Loop-count readings never matter
           (`genEntropy_value_depends_on_times`).
  J2  (a) the outcome depends on the consumed prefix of the readings only (`genEntropy_depends_on_consumed_prefix`,
          `genEntropy_extend`); (b) that prefix has `1 + 3·(1 + rounds + s)` readings, `s` = stuck
          measurements skipped (`genEntropy_consumed`); more rounds consume at least 3 more readings each
          (`genEntropy_rounds_monotone`).
  J3  the stuck test: `stuck_iff`, on delta histories `stuck_history`, `stuck_first`, `stuck_second`,
      `delta2_zero_iff`, `delta3_zero_iff…`, through `measure_jitter`: `measureJitter_verdict`.
      Broken timers: equal deltas — every measurement from the second on is stuck; deltas in arithmetic
      progression — from the third on; `gen_entropy` then never returns (`none` on every finite script):
      `genEntropy_constant_step_none` (rounds ≥ 1), `genEntropy_arithmetic_step_none` (rounds ≥ 2, sharp),
      on time stamps `genEntropy_linear_timer_none`, `genEntropy_quadratic_timer_none`, on scripts
      `…_script_none`, for the rounds loop `collect_constant_step_none`, `collect_arithmetic_step_none`.

  Helper lemmas: `Lib/JitterEntropyLemmas`, `Lib/JitterPair`, `Cert/JitterPairCert` (generated),
  `Cert/JitterPairCheck`, `Lib/JitterPairLemmas`.  Every conditional theorem has an `example` with concrete
  readings satisfying its hypotheses, evaluated by the kernel.
-/
import Rngs.Lib.JitterEntropyLemmas
import Rngs.Lib.JitterPairLemmas
import Rngs.Props.C12
import Rngs.Props.C15
namespace Rngs.Extra.JitterEntropy
open Rngs Rngs.Jitter Rngs.Spec Rngs.JitterRefine Rngs.JitterEntropy
open JitterProc (Meas measurements untilAccepted)

/-! # J1 — no measured delta is lost -/

/-! ## (a) one measurement -/

/-- the 32-bit delta `measure_jitter` computes from the time reading `t`: `(t − prev_time) as i64 as i32` -/
abbrev deltaOf (ec : Ec) (t : U64) : U32 := (t - ec.prevTime).setWidth 32

/-- **J1(a).**  Two runs of `measure_jitter` from the same pool and the same `EcState`, on reading
    lists `[c₁, t, c₂, …]` and `[c₁', t', c₂', …]` (loop-count readings arbitrary), that come to the
    same stuck verdict: the resulting pools are equal *iff* the two 32-bit deltas are equal.
    (`lfsr` is injective in the time value, sign extension of an `i32` loses nothing, `rotate_left(7)`
    is a bijection.) -/
theorem measureJitter_pool_eq_iff (j : Rng) (ec : Ec) (c₁ t c₂ c₁' t' c₂' : U64) (rest rest' : List U64)
    (ok : Bool) (j₁ j₁' : Rng) (ec₁ ec₁' : Ec) (rs₁ rs₁' : List U64)
    (h : measureJitter j ec (c₁ :: t :: c₂ :: rest) = some ((ok, j₁, ec₁), rs₁))
    (h' : measureJitter j ec (c₁' :: t' :: c₂' :: rest') = some ((ok, j₁', ec₁'), rs₁')) :
    j₁.data = j₁'.data ↔ deltaOf ec t = deltaOf ec t' := by
  rw [PoolJitter.measureJitter_cons3] at h h'
  simp only [Option.some.injEq, Prod.mk.injEq] at h h'
  obtain ⟨⟨hok, hj, _⟩, _⟩ := h
  obtain ⟨⟨hok', hj', _⟩, _⟩ := h'
  subst hj hj'
  have hs : (PoolJitter.stuckOf ec t).1 = (PoolJitter.stuckOf ec t').1 := by
    rw [← hok'] at hok
    simpa using hok
  show PoolJitter.poolStep ec t j.data = PoolJitter.poolStep ec t' j.data ↔ _
  have e : ∀ x, PoolJitter.poolStep ec x j.data = JitterProc.absorb j.data ⟨deltaOf ec x, (PoolJitter.stuckOf ec x).1⟩ := by
    intro x; rw [absorb_eq]; rfl
  rw [e, e, hs, absorb_eq_iff]

/-- … in the wording of the property: different deltas, both measurements accepted ⇒ different pools -/
theorem measureJitter_accepted_delta_not_lost (j : Rng) (ec : Ec) (c₁ t c₂ t' : U64) (rest rest' : List U64)
    (j₁ j₁' : Rng) (ec₁ ec₁' : Ec) (rs₁ rs₁' : List U64)
    (h : measureJitter j ec (c₁ :: t :: c₂ :: rest) = some ((true, j₁, ec₁), rs₁))
    (h' : measureJitter j ec (c₁ :: t' :: c₂ :: rest') = some ((true, j₁', ec₁'), rs₁'))
    (hd : deltaOf ec t ≠ deltaOf ec t') : j₁.data ≠ j₁'.data :=
  fun he => hd ((measureJitter_pool_eq_iff j ec c₁ t c₂ c₁ t' c₂ rest rest' true j₁ j₁' ec₁ ec₁' rs₁ rs₁' h h').1 he)

/-- the two deltas differ iff the two time readings differ in their low 32 bits -/
theorem deltaOf_eq_iff (ec : Ec) (t t' : U64) :
    deltaOf ec t = deltaOf ec t' ↔ (t.setWidth 32 : U32) = t'.setWidth 32 :=
  delta_eq_iff ec.prevTime t t'

/-- hypotheses satisfiable: time readings 105 and 106 after `prev_time = 100`, both accepted,
    pools differ (evaluated by the kernel) -/
example :
    (measureJitter newWithTimer ⟨100, 0, 0⟩ [7, 105, 9]).map (fun r => (r.1.1, r.1.2.1.data)) =
      some (true, 0x296800a03c1a0#64) ∧
    (measureJitter newWithTimer ⟨100, 0, 0⟩ [7, 106, 9]).map (fun r => (r.1.1, r.1.2.1.data)) =
      some (true, 0x18d8006014060#64) := by
  decide +kernel

/-! ## (b1) the whole collection, as a function of the delta sequence

`usedMeas rounds rs` (Lib/JitterEntropyLemmas) is the list of measurements — `⟨delta, stuck⟩` — one
collection with `rounds` rounds consumes from the reading list `rs`: the priming measurement and the
shortest run of further ones containing `rounds` accepted ones; `output pool used` folds every one of
them into the pool (`lfsr`, and `rotate_left(7)` for the accepted ones) and stirs. -/

/-- `gen_entropy` returns `output pool (usedMeas rounds readings)` (this is C12, restated), the new pool
    is the returned value, and `1 + 3·(number of measurements)` readings are consumed. -/
theorem genEntropy_value (j : Rng) (rs : List U64) (v : U64) (j' : Rng) (rest : List U64)
    (h : genEntropy j rs = some ((v, j'), rest)) :
    ∃ used, usedMeas j.rounds rs = some used ∧ v = output j.data used ∧ j'.data = v ∧
      rest = rs.drop (1 + 3 * used.length) ∧ rs.length = rest.length + (1 + 3 * used.length) := by
  have he := genEntropy_eq_used j rs
  rw [h] at he
  rcases hu : usedMeas j.rounds rs with _ | used
  · rw [hu] at he; cases he
  · rw [hu] at he
    simp only [Option.map_some, Option.some.injEq, Prod.mk.injEq] at he
    obtain ⟨_, hl, _⟩ := usedMeas_length _ _ _ hu
    obtain ⟨_, _, _, _, _, _, hd, _, _, _, _⟩ := C12.genEntropy_some j rs v j' rest h
    refine ⟨used, rfl, he.1, hd, he.2, ?_⟩
    rw [he.2, List.length_drop]; omega

/-- conversely: whenever the readings contain enough accepted measurements, `gen_entropy` succeeds -/
theorem genEntropy_of_used (j : Rng) (rs : List U64) (used : List Meas)
    (h : usedMeas j.rounds rs = some used) :
    ∃ j', genEntropy j rs = some ((output j.data used, j'), rs.drop (1 + 3 * used.length)) := by
  have he := genEntropy_eq_used j rs
  rw [h] at he
  rcases hg : genEntropy j rs with _ | ⟨⟨v, j'⟩, rest⟩
  · rw [hg] at he; cases he
  · rw [hg] at he
    simp only [Option.map_some, Option.some.injEq, Prod.mk.injEq] at he
    exact ⟨j', by rw [he.1, he.2]⟩

/-- **J1(b1), on measurement lists.**  With all other measurements (deltas and verdicts) and the
    verdict of the measurement itself fixed, the value is an injective function of every single delta —
    of the stuck ones too: `lfsr_time` runs before the stuck test. -/
theorem output_eq_iff (pool : U64) (pre post : List Meas) (d d' : U32) (s : Bool) :
    output pool (pre ++ ⟨d, s⟩ :: post) = output pool (pre ++ ⟨d', s⟩ :: post) ↔ d = d' := by
  unfold output
  rw [C15.stir_bijective.1.eq_iff, foldl_absorb_eq_iff]

/-- … and, for fixed measurements, a bijection of the pool (C15, restated on `output`) -/
theorem output_bijective_in_pool (used : List Meas) : Function.Bijective (fun pool => output pool used) :=
  C15.stir_bijective.comp (foldl_absorb_bijective used)

/-- **J1(b1).**  Two collections from the same state whose consumed measurements agree in every
    verdict and in every delta but one: the returned values are equal iff that delta is equal too. -/
theorem genEntropy_injective_in_each_delta (j : Rng) (rs rs' : List U64) (v v' : U64) (j₁ j₁' : Rng)
    (rest rest' : List U64) (pre post : List Meas) (d d' : U32) (s : Bool)
    (h : genEntropy j rs = some ((v, j₁), rest)) (h' : genEntropy j rs' = some ((v', j₁'), rest'))
    (hu : usedMeas j.rounds rs = some (pre ++ ⟨d, s⟩ :: post))
    (hu' : usedMeas j.rounds rs' = some (pre ++ ⟨d', s⟩ :: post)) :
    v = v' ↔ d = d' := by
  obtain ⟨u, h1, h2, _⟩ := genEntropy_value j rs v j₁ rest h
  obtain ⟨u', h1', h2', _⟩ := genEntropy_value j rs' v' j₁' rest' h'
  rw [hu] at h1; rw [hu'] at h1'
  cases h1; cases h1'
  rw [h2, h2', output_eq_iff]

/-- no measured delta is lost: a different delta (same verdicts) gives a different value -/
theorem genEntropy_delta_not_lost (j : Rng) (rs rs' : List U64) (v v' : U64) (j₁ j₁' : Rng)
    (rest rest' : List U64) (pre post : List Meas) (d d' : U32) (s : Bool)
    (h : genEntropy j rs = some ((v, j₁), rest)) (h' : genEntropy j rs' = some ((v', j₁'), rest'))
    (hu : usedMeas j.rounds rs = some (pre ++ ⟨d, s⟩ :: post))
    (hu' : usedMeas j.rounds rs' = some (pre ++ ⟨d', s⟩ :: post)) (hd : d ≠ d') : v ≠ v' :=
  fun he => hd ((genEntropy_injective_in_each_delta j rs rs' v v' j₁ j₁' rest rest' pre post d d' s h h' hu hu').1 he)

/-! ## (b2) time readings: the last consumed measurement -/

/-- **J1(b2).**  Two collections from the same state (`rounds ≥ 1`) on reading lists that agree up to
    the last measurement they consume — `pre`, then `[c, t, e]` resp. `[c', t', e']`, after which exactly
    `rest` resp. `rest'` is left unread: the returned values are equal iff the two last time readings
    agree in their low 32 bits, i.e. iff the last deltas are equal as `i32`.  (Only one delta changes;
    the last consumed measurement is accepted in both runs, no hypothesis on verdicts is needed.) -/
theorem genEntropy_last_time_reading (j : Rng) (hr : 0 < j.rounds) (pre : List U64) (c t e c' t' e' : U64)
    (rest rest' : List U64) (v v' : U64) (j₁ j₁' : Rng)
    (h : genEntropy j (pre ++ c :: t :: e :: rest) = some ((v, j₁), rest))
    (h' : genEntropy j (pre ++ c' :: t' :: e' :: rest') = some ((v', j₁'), rest')) :
    v = v' ↔ (t.setWidth 32 : U32) = t'.setWidth 32 := by
  obtain ⟨t0, p, hp, _, hv, hs⟩ := genEntropy_last j hr pre c t e rest v j₁ h
  obtain ⟨t0', p', hp', _, hv', hs'⟩ := genEntropy_last j hr pre c' t' e' rest' v' j₁' h'
  rw [hp] at hp'
  cases hp'
  have e : ∀ x, (step (ecAfter ⟨t0, 0, 0⟩ p) x).1 =
      ⟨(step (ecAfter ⟨t0, 0, 0⟩ p) x).1.delta, (step (ecAfter ⟨t0, 0, 0⟩ p) x).1.stuck⟩ := fun _ => rfl
  rw [hv, hv', e t, e t', hs, hs', output_eq_iff, step_fst_delta, step_fst_delta]
  exact delta_eq_iff _ _ _

/-- … a last time reading that differs in its low 32 bits gives a different value -/
theorem genEntropy_last_delta_not_lost (j : Rng) (hr : 0 < j.rounds) (pre : List U64) (c t e t' : U64)
    (rest rest' : List U64) (v v' : U64) (j₁ j₁' : Rng)
    (h : genEntropy j (pre ++ c :: t :: e :: rest) = some ((v, j₁), rest))
    (h' : genEntropy j (pre ++ c :: t' :: e :: rest') = some ((v', j₁'), rest'))
    (hd : (t.setWidth 32 : U32) ≠ t'.setWidth 32) : v ≠ v' :=
  fun he => hd ((genEntropy_last_time_reading j hr pre c t e c t' e rest rest' v v' j₁ j₁' h h').1 he)

/-! ## (b3) time readings: ONE time reading anywhere in the collection

Moving the time reading `T` of a measurement changes two consecutive deltas, `T − T_prev` and
`T_next − T`, in opposite directions.  Could the two changes cancel in the pool?  No.  With
`u`, `w` the xor-differences of the two deltas, the pools after the second measurement coincide iff
`lfsr (rotl7 (lfsr 0 (sext u))) (sext w) = 0` (first measurement accepted) resp.
`lfsr (lfsr 0 (sext u)) (sext w) = 0` (first measurement stuck) — GF(2)-linear conditions on the 64-bit
word `w:u`.  The second map is injective; the first has exactly one non-zero root,
`u = 0x1193a153`, `w = 0xe1ee051a` (literal matrices of `Cert/JitterPairCert`, generated by
`tools/gen_jitter_pair_cert.py`, checked by the kernel on the 64 one-bit vectors).  But `u` is odd and `w`
even there, while the two xor-differences always have the same lowest bit (that of `T ^^^ T'`): the root
never occurs. -/

/-- the roots of the two-measurement maps, as statements about 32-bit xor-differences -/
theorem two_deltas_roots (u w : U32) :
    (lfsr ((lfsr 0 (u.signExtend 64)).rotateLeft 7) (w.signExtend 64) = 0 →
      (u = 0 ∧ w = 0) ∨ (u.getLsbD 0 = true ∧ w.getLsbD 0 = false)) ∧
    (lfsr (lfsr 0 (u.signExtend 64)) (w.signExtend 64) = 0 → u = 0 ∧ w = 0) :=
  ⟨JitterPair.acc_root u w, JitterPair.stuck_root u w⟩

/-- … and the one non-zero root is a root indeed (so "never cancel" is a fact about the arithmetic of
    time stamps, not about the LFSR alone) -/
theorem two_deltas_root_exists :
    lfsr ((lfsr 0 ((0x1193a153#32).signExtend 64)).rotateLeft 7) ((0xe1ee051a#32).signExtend 64) = 0 := by
  decide +kernel

/-- **two consecutive measurements never cancel.**  Previous time stamp `p`, then `T` resp. `T'`, then
    `U`, the same two verdicts in both runs: the pools after the second measurement are equal iff
    `T ≡ T'` mod 2^32. -/
theorem two_deltas_never_cancel (pool p T T' U : U64) (s s₂ : Bool) :
    JitterProc.absorb (JitterProc.absorb pool ⟨JitterProc.trunc32 (T - p), s⟩) ⟨JitterProc.trunc32 (U - T), s₂⟩ =
      JitterProc.absorb (JitterProc.absorb pool ⟨JitterProc.trunc32 (T' - p), s⟩) ⟨JitterProc.trunc32 (U - T'), s₂⟩ ↔
    JitterProc.trunc32 T = JitterProc.trunc32 T' :=
  JitterPair.pair_absorb_eq_iff pool p T T' U s s₂

/-- **J1(b3) — the fully general statement is TRUE.**  Two collections from the same state on reading
    lists that are identical except for ONE time reading (`pre.length % 3 = 1`: position of a time
    reading; `T` resp. `T'`), that consume the same readings (`pre ++ [c, T, e] ++ mid`, leaving exactly
    `rest` resp. `rest'`) and come to the same stuck verdict on every consumed measurement: the returned
    values are equal iff `T ≡ T'` mod 2^32 — iff the delta of that measurement is the same `i32`. -/
theorem genEntropy_one_time_reading (j : Rng) (pre mid : List U64) (c T T' e : U64)
    (rest rest' : List U64) (v v' : U64) (j₁ j₁' : Rng) (hp : pre.length % 3 = 1)
    (h : genEntropy j (pre ++ c :: T :: e :: (mid ++ rest)) = some ((v, j₁), rest))
    (h' : genEntropy j (pre ++ c :: T' :: e :: (mid ++ rest')) = some ((v', j₁'), rest'))
    (hf : (measurements (pre ++ c :: T :: e :: mid)).map (·.stuck) =
          (measurements (pre ++ c :: T' :: e :: mid)).map (·.stuck)) :
    v = v' ↔ (T.setWidth 32 : U32) = T'.setWidth 32 :=
  JitterPair.genEntropy_one_time_reading j pre mid c T T' e rest rest' v v' j₁ j₁' hp h h' hf

/-- … no time reading is lost: one that differs in its low 32 bits (same verdicts) changes the value -/
theorem genEntropy_time_reading_not_lost (j : Rng) (pre mid : List U64) (c T T' e : U64)
    (rest rest' : List U64) (v v' : U64) (j₁ j₁' : Rng) (hp : pre.length % 3 = 1)
    (h : genEntropy j (pre ++ c :: T :: e :: (mid ++ rest)) = some ((v, j₁), rest))
    (h' : genEntropy j (pre ++ c :: T' :: e :: (mid ++ rest')) = some ((v', j₁'), rest'))
    (hf : (measurements (pre ++ c :: T :: e :: mid)).map (·.stuck) =
          (measurements (pre ++ c :: T' :: e :: mid)).map (·.stuck))
    (hd : (T.setWidth 32 : U32) ≠ T'.setWidth 32) : v ≠ v' :=
  fun he => hd ((genEntropy_one_time_reading j pre mid c T T' e rest rest' v v' j₁ j₁' hp h h' hf).1 he)

/-- the other readings (positions `≢ 1` mod 3 after the priming one: loop counts) never reach the
    value: it depends on the time stamps only -/
theorem genEntropy_value_depends_on_times (j : Rng) (rs rs' : List U64)
    (ht : JitterProc.times rs = JitterProc.times rs') :
    (genEntropy j rs).map (·.1.1) = (genEntropy j rs').map (·.1.1) := by
  have e := genEntropy_eq_used j rs
  have e' := genEntropy_eq_used j rs'
  have hm : measurements rs = measurements rs' := by
    unfold JitterProc.measurements; rw [ht]
  have hu : usedMeas j.rounds rs = usedMeas j.rounds rs' := by unfold usedMeas; rw [hm]
  have f := congrArg (Option.map Prod.fst) e
  have f' := congrArg (Option.map Prod.fst) e'
  simp only [Option.map_map, Function.comp_def] at f f'
  rw [f, f', hu]

/-- hypotheses of `genEntropy_one_time_reading` satisfiable: the time reading of the second measurement
    is 117 resp. 118 (deltas 5, 12, 43 resp. 5, 13, 42 — two deltas change), all accepted -/
example :
    (measurements ([100, 0, 105, 0] ++ 0 :: 117 :: 0 :: [0, 160, 0])).map (·.stuck) = [false, false, false] ∧
    (measurements ([100, 0, 105, 0] ++ 0 :: 118 :: 0 :: [0, 160, 0])).map (·.stuck) = [false, false, false] := by
  decide +kernel

example :
    (genEntropy { newWithTimer with rounds := 2 } ([100, 0, 105, 0] ++ 0 :: 117 :: 0 :: ([0, 160, 0] ++ [9]))).map
      (fun r => (r.1.1, r.2)) = some (0x6c380e0e6c8b361b#64, [9]) ∧
    (genEntropy { newWithTimer with rounds := 2 } ([100, 0, 105, 0] ++ 0 :: 118 :: 0 :: ([0, 160, 0] ++ []))).map
      (fun r => (r.1.1, r.2)) = some (0xb317a91c62e551a9#64, []) := by
  decide +kernel

/-! # J2 — what a collection consumes, and that the round count matters -/

/-- **J2(a).**  A successful `gen_entropy` has consumed a prefix `used` of the readings, and its whole
    outcome — value and new state, `memPrevIndex` included — is determined by that prefix: run on `used`
    followed by any other readings `ext` it returns the same value and state and leaves exactly `ext`. -/
theorem genEntropy_depends_on_consumed_prefix (j : Rng) (rs : List U64) (v : U64) (j' : Rng) (rest : List U64)
    (h : genEntropy j rs = some ((v, j'), rest)) :
    ∃ used, rs = used ++ rest ∧ ∀ ext, genEntropy j (used ++ ext) = some ((v, j'), ext) :=
  genEntropy_prefix j rs (v, j') rest h

/-- … in particular, extending the reading list beyond what is consumed changes nothing -/
theorem genEntropy_extend (j : Rng) (rs more : List U64) (v : U64) (j' : Rng) (rest : List U64)
    (h : genEntropy j rs = some ((v, j'), rest)) :
    genEntropy j (rs ++ more) = some ((v, j'), rest ++ more) := by
  obtain ⟨used, hu, hrun⟩ := genEntropy_prefix j rs (v, j') rest h
  rw [hu, List.append_assoc]
  exact hrun _

/-- the same for `next_u64` -/
theorem nextU64_extend (j : Rng) (rs more : List U64) (v : U64) (j' : Rng) (rest : List U64)
    (h : nextU64 j rs = some ((v, j'), rest)) :
    nextU64 j (rs ++ more) = some ((v, j'), rest ++ more) :=
  genEntropy_extend { j with halfUsed := false } rs more v j' rest h

/-- **J2(b).**  The consumed prefix consists of the priming reading and `1 + rounds + s` complete
    measurements, where `s` is the number of stuck ones among the measurements after the priming one:
    exactly `rounds` of those are accepted, and `1 + 3·(1 + rounds + s)` readings are consumed. -/
theorem genEntropy_consumed (j : Rng) (rs : List U64) (v : U64) (j' : Rng) (rest : List U64)
    (h : genEntropy j rs = some ((v, j'), rest)) :
    ∃ used, rs = used ++ rest ∧
      accepted (measurements used).tail = j.rounds ∧
      (measurements used).length = 1 + j.rounds + skipped (measurements used).tail ∧
      used.length = 1 + 3 * (1 + j.rounds + skipped (measurements used).tail) := by
  obtain ⟨used, hu, hrun⟩ := genEntropy_prefix j rs (v, j') rest h
  have h0 := hrun []
  rw [List.append_nil] at h0
  obtain ⟨prime, ms, taken, h1, h2, _, _, _, _, _, h5⟩ := C12.genEntropy_some j used v j' [] h0
  obtain ⟨h6, h7, h8, h9, _⟩ := C12.untilAccepted_least _ _ _ h2
  have hm := measurements_length used (by rw [h1]; simp)
  rw [h1] at hm
  simp only [List.length_cons, List.length_nil] at hm h5
  have : taken = ms := by rw [h6, List.take_of_length_le (by omega)]
  subst this
  refine ⟨used, hu, ?_, ?_, ?_⟩
  · rw [h1]; exact h8
  · rw [h1]; simp only [List.length_cons, List.tail_cons]; omega
  · rw [h1]; simp only [List.tail_cons]; omega

/-- the count alone: `rounds` and the number of skipped measurements determine it; at least
    `1 + 3·(1 + rounds)` -/
theorem genEntropy_consumed_count (j : Rng) (rs : List U64) (v : U64) (j' : Rng) (rest : List U64)
    (h : genEntropy j rs = some ((v, j'), rest)) :
    ∃ s, rs.length = rest.length + (1 + 3 * (1 + j.rounds + s)) := by
  obtain ⟨used, hu, _, _, hl⟩ := genEntropy_consumed j rs v j' rest h
  exact ⟨skipped (measurements used).tail, by rw [hu, List.length_append, hl]; omega⟩

/-- **the round count matters.**  On the same readings, from the same pool, a larger `rounds` setting
    consumes at least three more readings per additional round (monotonic consumption). -/
theorem genEntropy_rounds_monotone (j : Rng) (r r' : Nat) (hrr : r ≤ r') (rs : List U64)
    (v v' : U64) (j₁ j₁' : Rng) (rest rest' : List U64)
    (h : genEntropy { j with rounds := r } rs = some ((v, j₁), rest))
    (h' : genEntropy { j with rounds := r' } rs = some ((v', j₁'), rest')) :
    rest'.length + 3 * (r' - r) ≤ rest.length := by
  obtain ⟨prime, ms, l, h1, h2, _, _, _, _, _, h5⟩ := C12.genEntropy_some _ rs v j₁ rest h
  obtain ⟨prime', ms', l', h1', h2', _, _, _, _, _, h5'⟩ := C12.genEntropy_some _ rs v' j₁' rest' h'
  rw [h1] at h1'
  cases h1'
  dsimp only at h2 h2'
  obtain ⟨a1, a2, a3, a4, a5⟩ := C12.untilAccepted_least _ _ _ h2
  obtain ⟨b1, b2, b3, b4, b5⟩ := C12.untilAccepted_least _ _ _ h2'
  have hle : l.length ≤ l'.length := by
    apply Classical.byContradiction
    intro hlt
    have := a5 l'.length (by omega)
    rw [a1, List.take_take, Nat.min_eq_left (by omega), ← b1, b3] at this
    omega
  have hpre : l = l'.take l.length := by
    rw [b1, List.take_take, Nat.min_eq_left hle, ← a1]
  have hsk : skipped l ≤ skipped l' := by
    rw [hpre]
    exact (List.take_sublist _ _).countP_le
  omega

/-! # J3 — the stuck test, and timers it rejects for ever -/

/-! ## the test itself (wrapping `i32` arithmetic) -/

/-- **J3.**  `EcState::stuck(current_delta)` reports "stuck" iff the delta is zero (the timer did not
    advance), or it equals the previous delta (`delta2 = last_delta − current_delta = 0`), or the first
    difference repeats (`delta3 = delta2 − last_delta2 = 0`). -/
theorem stuck_iff (ec : Ec) (d : U32) :
    (stuck ec d).1 = true ↔ d = 0 ∨ d = ec.lastDelta ∨ ec.lastDelta - d = ec.lastDelta2 :=
  stuck_fst_iff ec d

/-- the history it keeps: the delta and the first difference -/
theorem stuck_state (ec : Ec) (d : U32) : (stuck ec d).2 = ⟨ec.prevTime, d, ec.lastDelta - d⟩ := rfl

/-- `delta2 = 0` iff the delta repeats -/
theorem delta2_zero_iff (last cur : U32) : last - cur = 0 ↔ cur = last := by
  rw [sub_eq_zero_iff]; exact eq_comm

/-- `delta3 = 0` iff the increase of the delta repeats: `d₂ − d₁ = d₁ − d₀` -/
theorem delta3_zero_iff (d₀ d₁ d₂ : U32) : (d₁ - d₂) - (d₀ - d₁) = 0 ↔ d₂ - d₁ = d₁ - d₀ :=
  sub_sub_eq_zero_iff d₀ d₁ d₂

/-- … iff `2·d₁ − d₂ − d₀ = 0`: the three deltas are in arithmetic progression (mod 2^32) -/
theorem delta3_zero_iff_twice (d₀ d₁ d₂ : U32) : (d₁ - d₂) - (d₀ - d₁) = 0 ↔ 2 * d₁ - d₂ - d₀ = 0 := by
  rw [sub_eq_zero_iff, sub_eq_zero_iff]
  constructor <;> intro h <;> bv_omega

theorem delta3_zero_iff_sum (d₀ d₁ d₂ : U32) : (d₁ - d₂) - (d₀ - d₁) = 0 ↔ d₂ + d₀ = 2 * d₁ := by
  rw [sub_eq_zero_iff]
  constructor <;> intro h <;> bv_omega

/-- the test on a history of three consecutive deltas `d₀, d₁, d₂` (whatever came before): stuck iff
    `d₂ = 0`, or `d₂ = d₁`, or `d₂ − d₁ = d₁ − d₀` -/
theorem stuck_history (ec : Ec) (d₀ d₁ d₂ : U32) :
    (stuck (stuck (stuck ec d₀).2 d₁).2 d₂).1 = true ↔ d₂ = 0 ∨ d₂ = d₁ ∨ d₂ - d₁ = d₁ - d₀ := by
  rw [stuck_iff]
  simp only [stuck_state]
  rw [← sub_eq_zero_iff (d₁ - d₂), delta3_zero_iff]

/-- the first measurement of a collection (history `0, 0`) is stuck iff its delta is zero -/
theorem stuck_first (t₀ : U64) (d : U32) : (stuck ⟨t₀, 0, 0⟩ d).1 = true ↔ d = 0 := by
  rw [stuck_iff]
  dsimp only
  constructor
  · rintro (h | h | h)
    · exact h
    · exact h
    · bv_omega
  · exact fun h => .inl h

/-- the second one iff its delta is zero, repeats the first, or is twice the first (the initial
    history acts as a delta `0` before the first one) -/
theorem stuck_second (t₀ : U64) (d₁ d₂ : U32) :
    (stuck (stuck ⟨t₀, 0, 0⟩ d₁).2 d₂).1 = true ↔ d₂ = 0 ∨ d₂ = d₁ ∨ d₂ = 2 * d₁ := by
  rw [stuck_iff]
  simp only [stuck_state]
  constructor
  · rintro (h | h | h)
    · exact .inl h
    · exact .inr (.inl h)
    · exact .inr (.inr (by bv_omega))
  · rintro (h | h | h)
    · exact .inl h
    · exact .inr (.inl h)
    · exact .inr (.inr (by bv_omega))

/-- `measure_jitter` on readings `[c, t, e, …]`: the verdict is "stuck" (`false`) iff the delta
    `(t − prev_time) as i32` meets one of the three conditions; the new `EcState` records the time
    reading, the delta and the first difference. -/
theorem measureJitter_verdict (j : Rng) (ec : Ec) (c t e : U64) (rest : List U64) (ok : Bool) (j₁ : Rng)
    (ec₁ : Ec) (rs₁ : List U64) (h : measureJitter j ec (c :: t :: e :: rest) = some ((ok, j₁, ec₁), rs₁)) :
    (ok = false ↔ deltaOf ec t = 0 ∨ deltaOf ec t = ec.lastDelta ∨ ec.lastDelta - deltaOf ec t = ec.lastDelta2) ∧
      ec₁ = ⟨t, deltaOf ec t, ec.lastDelta - deltaOf ec t⟩ ∧ rs₁ = rest := by
  rw [PoolJitter.measureJitter_cons3] at h
  simp only [Option.some.injEq, Prod.mk.injEq] at h
  obtain ⟨⟨hok, _, hec⟩, hrs⟩ := h
  refine ⟨?_, hec.symm, hrs.symm⟩
  rw [← hok]
  have := stuck_iff { ec with prevTime := t } (deltaOf ec t)
  simp only [Bool.not_eq_false']
  exact this

/-! ## broken timers

`deltaSeq rs` is the list of 32-bit deltas a collection computes from the reading list `rs`
(`= JitterProc.deltas (JitterProc.times rs)`: priming reading, then the middle reading of every group of
three); `StepBy b ds`: every element of `ds` exceeds its predecessor by `b` (wrapping) — an arithmetic
progression; `StepBy 0 ds`: all elements equal. -/

/-- `deltaSeq` is the specification's delta list of the time stamps -/
theorem deltaSeq_eq (rs : List U64) : deltaSeq rs = JitterProc.deltas (JitterProc.times rs) :=
  measurements_delta rs

/-- `StepBy 0`: all deltas are equal -/
theorem stepBy_zero (d : U32) (l : List U32) : StepBy 0 (d :: l) ↔ ∀ x ∈ l, x = d :=
  stepBy_zero_iff d l

/-- **constant step.**  If all deltas of a reading list are equal (a timer advancing by a constant
    step), every measurement from the second on is stuck. -/
theorem constant_step_stuck_from_second (rs : List U64) (h : StepBy 0 (deltaSeq rs)) :
    ∀ m ∈ (measurements rs).tail, m.stuck = true :=
  stuck_from_second rs h

/-- **arithmetic progression.**  If the deltas form an arithmetic progression (a timer whose step
    grows by a constant), every measurement from the third on is stuck. -/
theorem arithmetic_step_stuck_from_third (b : U32) (rs : List U64) (h : StepBy b (deltaSeq rs)) :
    ∀ m ∈ (measurements rs).drop 2, m.stuck = true :=
  stuck_from_third b rs h

/-- … hence `gen_entropy` (`rounds ≥ 1`) never returns on a constant-step timer: on *every* finite
    script with equal deltas it runs dry — whatever the pool, the loop-count readings, the length. -/
theorem genEntropy_constant_step_none (j : Rng) (hr : 0 < j.rounds) (rs : List U64)
    (h : StepBy 0 (deltaSeq rs)) : genEntropy j rs = none := by
  refine (C12.genEntropy_none_iff j rs).2 (.inr ?_)
  rw [accepted_eq_zero _ (stuck_from_second rs h)]
  exact hr

/-- … and with `rounds ≥ 2` it never returns on a timer whose deltas are in arithmetic progression
    (the measurement after the priming one may still be accepted, none after it). -/
theorem genEntropy_arithmetic_step_none (j : Rng) (hr : 2 ≤ j.rounds) (b : U32) (rs : List U64)
    (h : StepBy b (deltaSeq rs)) : genEntropy j rs = none := by
  refine (C12.genEntropy_none_iff j rs).2 (.inr ?_)
  have hs := stuck_from_third b rs h
  revert hs
  rcases measurements rs with _ | ⟨m1, _ | ⟨m2, l⟩⟩ <;> intro hs
  · simp [accepted]; omega
  · simp [accepted]; omega
  · simp only [List.tail_cons, List.drop_succ_cons, List.drop_zero] at hs ⊢
    rw [accepted_cons, accepted_eq_zero _ hs]
    cases m2.stuck <;> simp <;> omega

/-- the same for `next_u64` -/
theorem nextU64_constant_step_none (j : Rng) (hr : 0 < j.rounds) (rs : List U64)
    (h : StepBy 0 (deltaSeq rs)) : nextU64 j rs = none :=
  genEntropy_constant_step_none { j with halfUsed := false } hr rs h

theorem nextU64_arithmetic_step_none (j : Rng) (hr : 2 ≤ j.rounds) (b : U32) (rs : List U64)
    (h : StepBy b (deltaSeq rs)) : nextU64 j rs = none :=
  genEntropy_arithmetic_step_none { j with halfUsed := false } hr b rs h

/-! ### … on time stamps

`linearTimes t s n = [t, t+s, t+2s, …]` (`n` stamps), `quadraticTimes t d b n = [t, t+d, t+2d+b, t+3d+3b, …]`
(increments `d, d+b, d+2b, …`), in wrapping 64-bit arithmetic; `JitterProc.times rs` are the time stamps of
a reading list (priming reading, then the middle one of every three); `script t₀ ms` is the reading list
with priming reading `t₀` and one `(loop-count, time, loop-count)` triple per measurement. -/

/-- a timer advancing by the constant step `s`: `gen_entropy` never returns -/
theorem genEntropy_linear_timer_none (j : Rng) (hr : 0 < j.rounds) (rs : List U64) (t s : U64) (n : Nat)
    (h : JitterProc.times rs = linearTimes t s n) : genEntropy j rs = none :=
  genEntropy_constant_step_none j hr rs (stepBy_of_linear rs t s n h)

/-- a timer whose step grows by the constant `b` per reading: `gen_entropy` (`rounds ≥ 2`) never returns -/
theorem genEntropy_quadratic_timer_none (j : Rng) (hr : 2 ≤ j.rounds) (rs : List U64) (t d b : U64) (n : Nat)
    (h : JitterProc.times rs = quadraticTimes t d b n) : genEntropy j rs = none :=
  genEntropy_arithmetic_step_none j hr _ rs (stepBy_of_quadratic rs t d b n h)

/-- scripts: whatever the loop-count readings are, only the time stamps matter -/
theorem genEntropy_linear_script_none (j : Rng) (hr : 0 < j.rounds) (t₀ s : U64) (ms : List (U64 × U64 × U64))
    (h : t₀ :: ms.map (·.2.1) = linearTimes t₀ s (ms.length + 1)) : genEntropy j (script t₀ ms) = none :=
  genEntropy_linear_timer_none j hr _ t₀ s _ (by rw [times_script, h])

theorem genEntropy_quadratic_script_none (j : Rng) (hr : 2 ≤ j.rounds) (t₀ d b : U64) (ms : List (U64 × U64 × U64))
    (h : t₀ :: ms.map (·.2.1) = quadraticTimes t₀ d b (ms.length + 1)) : genEntropy j (script t₀ ms) = none :=
  genEntropy_quadratic_timer_none j hr _ t₀ d b _ (by rw [times_script, h])

/-! ### … and the rounds loop itself (`collect`), from any collector state

`measFrom ec rs` (Lib/JitterRefine) lists the measurements `⟨delta, verdict⟩` the loop will see when it
starts with `EcState` `ec` on readings `rs`. -/

/-- if the previous delta was `d` and every further delta is `d`, the loop never accepts anything:
    `collect` ends in `none`, whatever the fuel -/
theorem collect_constant_step_none (fuel need : Nat) (j : Rng) (ec : Ec) (rs : List U64) (d : U32)
    (hl : ec.lastDelta = d) (h : ∀ m ∈ measFrom ec rs, m.delta = d) :
    collect fuel (need + 1) j ec rs = none :=
  collect_none_of_stuck fuel need j ec rs (measFrom_stuck_of_const d ec rs hl h)

/-- if the first difference was `b` the last time (`last_delta2 = −b`) and stays `b`, likewise -/
theorem collect_arithmetic_step_none (fuel need : Nat) (j : Rng) (ec : Ec) (rs : List U64) (b : U32)
    (h2 : ec.lastDelta2 = 0 - b) (h : StepBy b (ec.lastDelta :: (measFrom ec rs).map (·.delta))) :
    collect fuel (need + 1) j ec rs = none :=
  collect_none_of_stuck fuel need j ec rs (measFrom_stuck_of_stepBy b ec rs h2 h)

/-! # the hypotheses are satisfiable (all evaluated by the kernel) -/

/-- a generator with `rounds = 1` / `rounds = 2` -/
def g1 : Rng := { newWithTimer with rounds := 1 }
def g2 : Rng := { newWithTimer with rounds := 2 }

/-- `genEntropy_injective_in_each_delta`: deltas 5, 12, 43 against 5, 13, 43, all accepted — the
    second list has every time stamp from the second measurement on delayed by 1 -/
example :
    usedMeas g2.rounds [100, 0, 105, 0, 0, 117, 0, 0, 160, 0] = some ([⟨5, false⟩] ++ ⟨12, false⟩ :: [⟨43, false⟩]) ∧
    usedMeas g2.rounds [100, 0, 105, 0, 0, 118, 0, 0, 161, 0] = some ([⟨5, false⟩] ++ ⟨13, false⟩ :: [⟨43, false⟩]) := by
  decide +kernel

example :
    (genEntropy g2 [100, 0, 105, 0, 0, 117, 0, 0, 160, 0]).map (fun r => (r.1.1, r.2)) = some (0x6c380e0e6c8b361b#64, []) ∧
    (genEntropy g2 [100, 0, 105, 0, 0, 118, 0, 0, 161, 0]).map (fun r => (r.1.1, r.2)) = some (0x8e2d3c5b9b121ba2#64, []) := by
  decide +kernel

/-- `genEntropy_last_time_reading`: the last time reading 160 against 161 (other loop-count readings,
    one reading left over) — different values; against `160 + 2^32` — the same value, as the theorem says -/
example :
    (genEntropy g2 ([100, 0, 105, 0, 0, 117, 0] ++ 0 :: 160 :: 0 :: [])).map (fun r => (r.1.1, r.2)) =
      some (0x6c380e0e6c8b361b#64, []) ∧
    (genEntropy g2 ([100, 0, 105, 0, 0, 117, 0] ++ 3 :: 161 :: 4 :: [77])).map (fun r => (r.1.1, r.2)) =
      some (0xe8c39b93b32428b3#64, [77]) ∧
    (genEntropy g2 ([100, 0, 105, 0, 0, 117, 0] ++ 3 :: 0x1000000a0 :: 4 :: [77])).map (fun r => (r.1.1, r.2)) =
      some (0x6c380e0e6c8b361b#64, [77]) := by
  decide +kernel

/-- `genEntropy_rounds_monotone` / `genEntropy_consumed`: on the same ten readings `rounds = 1`
    consumes 7 and `rounds = 2` consumes 10 -/
example :
    (genEntropy { g2 with rounds := 1 } [100, 0, 105, 0, 0, 117, 0, 0, 160, 0]).map (fun r => (r.1.1, r.2)) =
      some (0x034bc20d8979cd71#64, [0, 160, 0]) ∧
    (genEntropy { g2 with rounds := 2 } [100, 0, 105, 0, 0, 117, 0, 0, 160, 0]).map (fun r => (r.1.1, r.2)) =
      some (0x6c380e0e6c8b361b#64, []) := by
  decide +kernel

/-- a constant-step script (time stamps 100, 110, 120, 130; arbitrary loop-count readings): the
    hypothesis of `genEntropy_linear_script_none` holds … -/
example : (100 : U64) :: [((0 : U64), (110 : U64), (0 : U64)), (1, 120, 2), (3, 130, 4)].map (·.2.1) =
    linearTimes 100 10 4 := by decide

/-- … and indeed (evaluated independently of the theorem) the collection runs dry -/
example : genEntropy g1 (script 100 [(0, 110, 0), (1, 120, 2), (3, 130, 4)]) = none := by decide +kernel

example : genEntropy g1 (script 100 [(0, 110, 0), (1, 120, 2), (3, 130, 4)]) = none :=
  genEntropy_linear_script_none g1 (by decide) 100 10 _ (by decide)

/-- a script with steps 5, 7, 9, 11 (time stamps 100, 105, 112, 121, 132): hypothesis of
    `genEntropy_quadratic_script_none` … -/
example : (100 : U64) :: [((0 : U64), (105 : U64), (0 : U64)), (1, 112, 2), (3, 121, 4), (5, 132, 6)].map (·.2.1) =
    quadraticTimes 100 5 2 5 := by decide

example : genEntropy g2 (script 100 [(0, 105, 0), (1, 112, 2), (3, 121, 4), (5, 132, 6)]) = none :=
  genEntropy_quadratic_script_none g2 (by decide) 100 5 2 _ (by decide)

/-- … and `rounds ≥ 2` cannot be weakened: with `rounds = 1` the same script yields a value (the
    measurement after the priming one is accepted) -/
example : (genEntropy g1 (script 100 [(0, 105, 0), (1, 112, 2), (3, 121, 4), (5, 132, 6)])).map
    (fun r => (r.1.1, r.2)) = some (0xf4318be415645a6e#64, [3, 121, 4, 5, 132, 6]) := by
  decide +kernel

/-- `StepBy` on concrete deltas -/
example : StepBy 0 (deltaSeq (script 100 [(0, 110, 0), (1, 120, 2), (3, 130, 4)])) := by decide +kernel
example : StepBy 2 (deltaSeq (script 100 [(0, 105, 0), (1, 112, 2), (3, 121, 4), (5, 132, 6)])) := by decide +kernel

/-- `collect_constant_step_none`: previous delta 10, time stamps 110, 120 after 100 -/
example : (∀ m ∈ measFrom ⟨100, 10, 0⟩ [0, 110, 0, 0, 120, 0], m.delta = 10) := by decide
example : collect 5 1 g1 ⟨100, 10, 0⟩ [0, 110, 0, 0, 120, 0] = none :=
  collect_constant_step_none 5 0 g1 _ _ 10 rfl (by decide)

/-- `collect_arithmetic_step_none`: previous delta 10, previous first difference −2, then deltas 12, 14 -/
example : StepBy 2 ((10 : U32) :: (measFrom ⟨100, 10, 0 - 2⟩ [0, 112, 0, 0, 126, 0]).map (·.delta)) := by decide
example : collect 5 1 g1 ⟨100, 10, 0 - 2⟩ [0, 112, 0, 0, 126, 0] = none :=
  collect_arithmetic_step_none 5 0 g1 _ _ 2 rfl (by decide)

/-- `measureJitter_verdict`: a stuck measurement (delta 10 after delta 10) -/
example : (measureJitter g1 ⟨100, 10, 0⟩ [0, 110, 0]).map (fun r => (r.1.1, r.1.2.2)) =
    some (false, ⟨110, 10, 0⟩) := by decide +kernel

/-- `two_deltas_roots`, second part: the zero pair is a root (and the only one) -/
example : lfsr (lfsr 0 ((0#32).signExtend 64)) ((0#32).signExtend 64) = 0 := by decide +kernel

/-- `genEntropy_value_depends_on_times`: other loop-count readings, a trailing incomplete group — the
    same time stamps -/
example : JitterProc.times [100, 0, 105, 0, 0, 117, 0, 0, 160, 0] =
    JitterProc.times [100, 7, 105, 8, 9, 117, 10, 11, 160, 12, 13, 14] := by decide

/-- `genEntropy_linear_timer_none` / `genEntropy_quadratic_timer_none` on reading lists that are not
    of the form `script …` (incomplete last group) -/
example : JitterProc.times [100, 0, 110, 0, 0, 120, 0, 5] = linearTimes 100 10 3 := by decide
example : JitterProc.times [100, 0, 105, 0, 0, 112, 0, 3, 121, 4, 6, 7] = quadraticTimes 100 5 2 4 := by decide

/-- `nextU64_extend`: a successful `next_u64` (`rounds = 1`, seven readings) -/
example : (nextU64 g1 [100, 0, 105, 0, 0, 117, 0]).map (fun r => (r.1.1, r.2)) =
    some (0x034bc20d8979cd71#64, []) := by decide +kernel

end Rngs.Extra.JitterEntropy
