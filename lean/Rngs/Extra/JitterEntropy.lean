/-
  Rngs.Extra.JitterEntropy — what a user of `JitterRng` relies on and no test can sample.
  (header completed below)
-/
import Rngs.Lib.JitterEntropyLemmas
import Rngs.Props.C12
import Rngs.Props.C15
namespace Rngs.Extra.JitterEntropy
open Rngs Rngs.Jitter Rngs.Spec Rngs.JitterRefine Rngs.JitterEntropy
open JitterProc (Meas measurements untilAccepted)

/-! # J1 — no measured delta is lost -/

/-! ## (a) one measurement -/

/-- the 32-bit delta `measure_jitter` computes from the time reading `t`: `(t − prev_time) as i64 as i32` -/
abbrev deltaOf (ec : Ec) (t : U64) : U32 := (t - ec.prevTime).setWidth 32

/-- **J1(a).**  Two runs of `measure_jitter` from the same pool and the same `EcState`, on reading
    lists `[c₁, t, c₂, …]` and `[c₁', t', c₂', …]` (loop-count readings arbitrary), that come to the
    same stuck verdict: the resulting pools are equal *iff* the two 32-bit deltas are equal.
    (`lfsr` is injective in the time value, sign extension of an `i32` loses nothing, `rotate_left(7)`
    is a bijection.) -/
theorem measureJitter_pool_eq_iff (j : Rng) (ec : Ec) (c₁ t c₂ c₁' t' c₂' : U64) (rest rest' : List U64)
    (ok : Bool) (j₁ j₁' : Rng) (ec₁ ec₁' : Ec) (rs₁ rs₁' : List U64)
    (h : measureJitter j ec (c₁ :: t :: c₂ :: rest) = some ((ok, j₁, ec₁), rs₁))
    (h' : measureJitter j ec (c₁' :: t' :: c₂' :: rest') = some ((ok, j₁', ec₁'), rs₁')) :
    j₁.data = j₁'.data ↔ deltaOf ec t = deltaOf ec t' := by
  rw [PoolJitter.measureJitter_cons3] at h h'
  simp only [Option.some.injEq, Prod.mk.injEq] at h h'
  obtain ⟨⟨hok, hj, _⟩, _⟩ := h
  obtain ⟨⟨hok', hj', _⟩, _⟩ := h'
  subst hj hj'
  have hs : (PoolJitter.stuckOf ec t).1 = (PoolJitter.stuckOf ec t').1 := by
    rw [← hok'] at hok
    simpa using hok
  show PoolJitter.poolStep ec t j.data = PoolJitter.poolStep ec t' j.data ↔ _
  have e : ∀ x, PoolJitter.poolStep ec x j.data = JitterProc.absorb j.data ⟨deltaOf ec x, (PoolJitter.stuckOf ec x).1⟩ := by
    intro x; rw [absorb_eq]; rfl
  rw [e, e, hs, absorb_eq_iff]

/-- … in the wording of the property: different deltas, both measurements accepted ⇒ different pools -/
theorem measureJitter_accepted_delta_not_lost (j : Rng) (ec : Ec) (c₁ t c₂ t' : U64) (rest rest' : List U64)
    (j₁ j₁' : Rng) (ec₁ ec₁' : Ec) (rs₁ rs₁' : List U64)
    (h : measureJitter j ec (c₁ :: t :: c₂ :: rest) = some ((true, j₁, ec₁), rs₁))
    (h' : measureJitter j ec (c₁ :: t' :: c₂ :: rest') = some ((true, j₁', ec₁'), rs₁'))
    (hd : deltaOf ec t ≠ deltaOf ec t') : j₁.data ≠ j₁'.data :=
  fun he => hd ((measureJitter_pool_eq_iff j ec c₁ t c₂ c₁ t' c₂ rest rest' true j₁ j₁' ec₁ ec₁' rs₁ rs₁' h h').1 he)

/-- the two deltas differ iff the two time readings differ in their low 32 bits -/
theorem deltaOf_eq_iff (ec : Ec) (t t' : U64) :
    deltaOf ec t = deltaOf ec t' ↔ (t.setWidth 32 : U32) = t'.setWidth 32 :=
  delta_eq_iff ec.prevTime t t'

/-- hypotheses satisfiable: time readings 105 and 106 after `prev_time = 100`, both accepted,
    pools differ (evaluated by the kernel) -/
example :
    (measureJitter newWithTimer ⟨100, 0, 0⟩ [7, 105, 9]).map (fun r => (r.1.1, r.1.2.1.data)) =
      some (true, 0x296800a03c1a0#64) ∧
    (measureJitter newWithTimer ⟨100, 0, 0⟩ [7, 106, 9]).map (fun r => (r.1.1, r.1.2.1.data)) =
      some (true, 0x18d8006014060#64) := by
  decide +kernel

/-! ## (b1) the whole collection, as a function of the delta sequence

`usedMeas rounds rs` (Lib/JitterEntropyLemmas) is the list of measurements — `⟨delta, stuck⟩` — one
collection with `rounds` rounds consumes from the reading list `rs`: the priming measurement and the
shortest run of further ones containing `rounds` accepted ones; `output pool used` folds every one of
them into the pool (`lfsr`, and `rotate_left(7)` for the accepted ones) and stirs. -/

/-- `gen_entropy` returns `output pool (usedMeas rounds readings)` (this is C12, restated), the new pool
    is the returned value, and `1 + 3·(number of measurements)` readings are consumed. -/
theorem genEntropy_value (j : Rng) (rs : List U64) (v : U64) (j' : Rng) (rest : List U64)
    (h : genEntropy j rs = some ((v, j'), rest)) :
    ∃ used, usedMeas j.rounds rs = some used ∧ v = output j.data used ∧ j'.data = v ∧
      rest = rs.drop (1 + 3 * used.length) ∧ rs.length = rest.length + (1 + 3 * used.length) := by
  have he := genEntropy_eq_used j rs
  rw [h] at he
  rcases hu : usedMeas j.rounds rs with _ | used
  · rw [hu] at he; cases he
  · rw [hu] at he
    simp only [Option.map_some, Option.some.injEq, Prod.mk.injEq] at he
    obtain ⟨_, hl, _⟩ := usedMeas_length _ _ _ hu
    obtain ⟨_, _, _, _, _, _, hd, _, _, _, _⟩ := C12.genEntropy_some j rs v j' rest h
    refine ⟨used, rfl, he.1, hd, he.2, ?_⟩
    rw [he.2, List.length_drop]; omega

/-- conversely: whenever the readings contain enough accepted measurements, `gen_entropy` succeeds -/
theorem genEntropy_of_used (j : Rng) (rs : List U64) (used : List Meas)
    (h : usedMeas j.rounds rs = some used) :
    ∃ j', genEntropy j rs = some ((output j.data used, j'), rs.drop (1 + 3 * used.length)) := by
  have he := genEntropy_eq_used j rs
  rw [h] at he
  rcases hg : genEntropy j rs with _ | ⟨⟨v, j'⟩, rest⟩
  · rw [hg] at he; cases he
  · rw [hg] at he
    simp only [Option.map_some, Option.some.injEq, Prod.mk.injEq] at he
    exact ⟨j', by rw [he.1, he.2]⟩

/-- **J1(b1), on measurement lists.**  With all other measurements (deltas and verdicts) and the
    verdict of the measurement itself fixed, the value is an injective function of every single delta —
    of the stuck ones too: `lfsr_time` runs before the stuck test. -/
theorem output_eq_iff (pool : U64) (pre post : List Meas) (d d' : U32) (s : Bool) :
    output pool (pre ++ ⟨d, s⟩ :: post) = output pool (pre ++ ⟨d', s⟩ :: post) ↔ d = d' := by
  unfold output
  rw [C15.stir_bijective.1.eq_iff, foldl_absorb_eq_iff]

/-- **J1(b1).**  Two collections from the same state whose consumed measurements agree in every
    verdict and in every delta but one: the returned values are equal iff that delta is equal too. -/
theorem genEntropy_injective_in_each_delta (j : Rng) (rs rs' : List U64) (v v' : U64) (j₁ j₁' : Rng)
    (rest rest' : List U64) (pre post : List Meas) (d d' : U32) (s : Bool)
    (h : genEntropy j rs = some ((v, j₁), rest)) (h' : genEntropy j rs' = some ((v', j₁'), rest'))
    (hu : usedMeas j.rounds rs = some (pre ++ ⟨d, s⟩ :: post))
    (hu' : usedMeas j.rounds rs' = some (pre ++ ⟨d', s⟩ :: post)) :
    v = v' ↔ d = d' := by
  obtain ⟨u, h1, h2, _⟩ := genEntropy_value j rs v j₁ rest h
  obtain ⟨u', h1', h2', _⟩ := genEntropy_value j rs' v' j₁' rest' h'
  rw [hu] at h1; rw [hu'] at h1'
  cases h1; cases h1'
  rw [h2, h2', output_eq_iff]

/-- no measured delta is lost: a different delta (same verdicts) gives a different value -/
theorem genEntropy_delta_not_lost (j : Rng) (rs rs' : List U64) (v v' : U64) (j₁ j₁' : Rng)
    (rest rest' : List U64) (pre post : List Meas) (d d' : U32) (s : Bool)
    (h : genEntropy j rs = some ((v, j₁), rest)) (h' : genEntropy j rs' = some ((v', j₁'), rest'))
    (hu : usedMeas j.rounds rs = some (pre ++ ⟨d, s⟩ :: post))
    (hu' : usedMeas j.rounds rs' = some (pre ++ ⟨d', s⟩ :: post)) (hd : d ≠ d') : v ≠ v' :=
  fun he => hd ((genEntropy_injective_in_each_delta j rs rs' v v' j₁ j₁' rest rest' pre post d d' s h h' hu hu').1 he)

/-! ## (b2) time readings: the last consumed measurement -/

/-- **J1(b2).**  Two collections from the same state (`rounds ≥ 1`) on reading lists that agree up to
    the last measurement they consume — `pre`, then `[c, t, e]` resp. `[c', t', e']`, after which exactly
    `rest` resp. `rest'` is left unread: the returned values are equal iff the two last time readings
    agree in their low 32 bits, i.e. iff the last deltas are equal as `i32`.  (Only one delta changes;
    the last consumed measurement is accepted in both runs, no hypothesis on verdicts is needed.) -/
theorem genEntropy_last_time_reading (j : Rng) (hr : 0 < j.rounds) (pre : List U64) (c t e c' t' e' : U64)
    (rest rest' : List U64) (v v' : U64) (j₁ j₁' : Rng)
    (h : genEntropy j (pre ++ c :: t :: e :: rest) = some ((v, j₁), rest))
    (h' : genEntropy j (pre ++ c' :: t' :: e' :: rest') = some ((v', j₁'), rest')) :
    v = v' ↔ (t.setWidth 32 : U32) = t'.setWidth 32 := by
  obtain ⟨t0, p, hp, _, hv, hs⟩ := genEntropy_last j hr pre c t e rest v j₁ h
  obtain ⟨t0', p', hp', _, hv', hs'⟩ := genEntropy_last j hr pre c' t' e' rest' v' j₁' h'
  rw [hp] at hp'
  cases hp'
  have e : ∀ x, (step (ecAfter ⟨t0, 0, 0⟩ p) x).1 =
      ⟨(step (ecAfter ⟨t0, 0, 0⟩ p) x).1.delta, (step (ecAfter ⟨t0, 0, 0⟩ p) x).1.stuck⟩ := fun _ => rfl
  rw [hv, hv', e t, e t', hs, hs', output_eq_iff, step_fst_delta, step_fst_delta]
  exact delta_eq_iff _ _ _

/-- … a last time reading that differs in its low 32 bits gives a different value -/
theorem genEntropy_last_delta_not_lost (j : Rng) (hr : 0 < j.rounds) (pre : List U64) (c t e t' : U64)
    (rest rest' : List U64) (v v' : U64) (j₁ j₁' : Rng)
    (h : genEntropy j (pre ++ c :: t :: e :: rest) = some ((v, j₁), rest))
    (h' : genEntropy j (pre ++ c :: t' :: e :: rest') = some ((v', j₁'), rest'))
    (hd : (t.setWidth 32 : U32) ≠ t'.setWidth 32) : v ≠ v' :=
  fun he => hd ((genEntropy_last_time_reading j hr pre c t e c t' e rest rest' v v' j₁ j₁' h h').1 he)

/-! # J2 — what a collection consumes, and that the round count matters -/

/-- **J2(a).**  A successful `gen_entropy` has consumed a prefix `used` of the readings, and its whole
    outcome — value and new state, `memPrevIndex` included — is determined by that prefix: run on `used`
    followed by any other readings `ext` it returns the same value and state and leaves exactly `ext`. -/
theorem genEntropy_depends_on_consumed_prefix (j : Rng) (rs : List U64) (v : U64) (j' : Rng) (rest : List U64)
    (h : genEntropy j rs = some ((v, j'), rest)) :
    ∃ used, rs = used ++ rest ∧ ∀ ext, genEntropy j (used ++ ext) = some ((v, j'), ext) :=
  genEntropy_prefix j rs (v, j') rest h

/-- … in particular, extending the reading list beyond what is consumed changes nothing -/
theorem genEntropy_extend (j : Rng) (rs more : List U64) (v : U64) (j' : Rng) (rest : List U64)
    (h : genEntropy j rs = some ((v, j'), rest)) :
    genEntropy j (rs ++ more) = some ((v, j'), rest ++ more) := by
  obtain ⟨used, hu, hrun⟩ := genEntropy_prefix j rs (v, j') rest h
  rw [hu, List.append_assoc]
  exact hrun _

/-- the same for `next_u64` -/
theorem nextU64_extend (j : Rng) (rs more : List U64) (v : U64) (j' : Rng) (rest : List U64)
    (h : nextU64 j rs = some ((v, j'), rest)) :
    nextU64 j (rs ++ more) = some ((v, j'), rest ++ more) :=
  genEntropy_extend { j with halfUsed := false } rs more v j' rest h

/-- **J2(b).**  The consumed prefix consists of the priming reading and `1 + rounds + s` complete
    measurements, where `s` is the number of stuck ones among the measurements after the priming one:
    exactly `rounds` of those are accepted, and `1 + 3·(1 + rounds + s)` readings are consumed. -/
theorem genEntropy_consumed (j : Rng) (rs : List U64) (v : U64) (j' : Rng) (rest : List U64)
    (h : genEntropy j rs = some ((v, j'), rest)) :
    ∃ used, rs = used ++ rest ∧
      accepted (measurements used).tail = j.rounds ∧
      (measurements used).length = 1 + j.rounds + skipped (measurements used).tail ∧
      used.length = 1 + 3 * (1 + j.rounds + skipped (measurements used).tail) := by
  obtain ⟨used, hu, hrun⟩ := genEntropy_prefix j rs (v, j') rest h
  have h0 := hrun []
  rw [List.append_nil] at h0
  obtain ⟨prime, ms, taken, h1, h2, _, _, _, _, _, h5⟩ := C12.genEntropy_some j used v j' [] h0
  obtain ⟨h6, h7, h8, h9, _⟩ := C12.untilAccepted_least _ _ _ h2
  have hm := measurements_length used (by rw [h1]; simp)
  rw [h1] at hm
  simp only [List.length_cons, List.length_nil] at hm h5
  have : taken = ms := by rw [h6, List.take_of_length_le (by omega)]
  subst this
  refine ⟨used, hu, ?_, ?_, ?_⟩
  · rw [h1]; exact h8
  · rw [h1]; simp only [List.length_cons, List.tail_cons]; omega
  · rw [h1]; simp only [List.tail_cons]; omega

/-- the count alone: `rounds` and the number of skipped measurements determine it; at least
    `1 + 3·(1 + rounds)` -/
theorem genEntropy_consumed_count (j : Rng) (rs : List U64) (v : U64) (j' : Rng) (rest : List U64)
    (h : genEntropy j rs = some ((v, j'), rest)) :
    ∃ s, rs.length = rest.length + (1 + 3 * (1 + j.rounds + s)) := by
  obtain ⟨used, hu, _, _, hl⟩ := genEntropy_consumed j rs v j' rest h
  exact ⟨skipped (measurements used).tail, by rw [hu, List.length_append, hl]; omega⟩

/-- **the round count matters.**  On the same readings, from the same pool, a larger `rounds` setting
    consumes at least three more readings per additional round (monotonic consumption). -/
theorem genEntropy_rounds_monotone (j : Rng) (r r' : Nat) (hrr : r ≤ r') (rs : List U64)
    (v v' : U64) (j₁ j₁' : Rng) (rest rest' : List U64)
    (h : genEntropy { j with rounds := r } rs = some ((v, j₁), rest))
    (h' : genEntropy { j with rounds := r' } rs = some ((v', j₁'), rest')) :
    rest'.length + 3 * (r' - r) ≤ rest.length := by
  obtain ⟨prime, ms, l, h1, h2, _, _, _, _, _, h5⟩ := C12.genEntropy_some _ rs v j₁ rest h
  obtain ⟨prime', ms', l', h1', h2', _, _, _, _, _, h5'⟩ := C12.genEntropy_some _ rs v' j₁' rest' h'
  rw [h1] at h1'
  cases h1'
  dsimp only at h2 h2'
  obtain ⟨a1, a2, a3, a4, a5⟩ := C12.untilAccepted_least _ _ _ h2
  obtain ⟨b1, b2, b3, b4, b5⟩ := C12.untilAccepted_least _ _ _ h2'
  have hle : l.length ≤ l'.length := by
    apply Classical.byContradiction
    intro hlt
    have := a5 l'.length (by omega)
    rw [a1, List.take_take, Nat.min_eq_left (by omega), ← b1, b3] at this
    omega
  have hpre : l = l'.take l.length := by
    rw [b1, List.take_take, Nat.min_eq_left hle, ← a1]
  have hsk : skipped l ≤ skipped l' := by
    rw [hpre]
    exact (List.take_sublist _ _).countP_le
  omega

end Rngs.Extra.JitterEntropy
