/-
  Rngs.Extra.SeedInjective — "different seeds never silently give the same generator — and where
  they do, exactly which".

  A. rand_xoshiro (14 generators) and rand_xorshift:
     A1  `from_seed` identifies the all-zero seed with exactly one other seed — the SplitMix64
         expansion of 0 that `deal_with_zero_seed!` substitutes — and nothing else.
     A2  `seed_from_u64` is injective for the 12 generators with seeds of 16 bytes or more; for the
         two 8-byte-seed generators `seed_from_u64(x) = seed_from_u64(y)` iff `x = y` or
         `{x, y} ⊆ {0, −PHI}` (the 8-byte expansion of `−PHI = 0x61c8864680b583eb` is all zero, so
         it falls back to `seed_from_u64(0)`).
     A3  `XorShiftRng::from_seed` identifies the all-zero seed with exactly the seed that spells
         `0x0BAD5EED` four times.
  B. rand_isaac (both widths):
     B1  `init`'s `mix` is a bijection (explicit inverse).
     B2  `init` with one and with two passes is injective in the 256-word key.
     B3  `from_seed` (32-byte seeds) and `seed_from_u64` are injective — already the `mem` arrays
         differ (`a = b = c = 0` always).
  C. ISAAC's `generate` is injective on cores (whatever the results buffers hold), the next core does
     not depend on the results buffer, and two different cores never merge.

  Helper lemmas: `Lib/BitInj`, `Lib/SeedInjLemmas`, `Lib/IsaacMixInv`, `Lib/IsaacInj`.
  Every hypothesis used below (`length = …`, `size = 256`) is shown satisfiable by an `example`.
-/
import Rngs.Lib.SeedInjLemmas
import Rngs.Lib.IsaacInj
import Mathlib.Logic.Function.Defs
namespace Rngs.Extra.SeedInjective
open Rngs Rngs.Isaac

/-! # A. xoshiro / xoroshiro -/

/-- the all-zero seed of `n` bytes -/
abbrev zeroSeed (n : Nat) : List U8 := List.replicate n 0

/-- the seed that replaces it: the first `n` bytes of the SplitMix64 stream `seed_from_u64(0)`
    (`deal_with_zero_seed!` → `seed_from_u64(0)` → `from_splitmix!`) -/
abbrev zeroExpansion (n : Nat) : List U8 := SeedInj.zeroExpansion n

/-- `a` and `b` are equal, or they are the two seeds `0…0` and `Z` in some order / twice -/
def Collide (n : Nat) (Z a b : List U8) : Prop :=
  a = b ∨ ((a = zeroSeed n ∨ a = Z) ∧ (b = zeroSeed n ∨ b = Z))

/-- the replacement seeds, concretely (little-endian bytes of the SplitMix64 outputs
    `e220a8397b1dcdaf 6e789e6aa1b965f4 06c45d188009454f f88bb8a8724c81ec …`) -/
theorem zeroExpansion_8 : zeroExpansion 8 = [0xaf, 0xcd, 0x1d, 0x7b, 0x39, 0xa8, 0x20, 0xe2] := by
  decide +kernel

theorem zeroExpansion_16 : zeroExpansion 16 =
    [0xaf, 0xcd, 0x1d, 0x7b, 0x39, 0xa8, 0x20, 0xe2, 0xf4, 0x65, 0xb9, 0xa1, 0x6a, 0x9e, 0x78, 0x6e] := by
  decide +kernel

theorem zeroExpansion_32 : zeroExpansion 32 =
    [0xaf, 0xcd, 0x1d, 0x7b, 0x39, 0xa8, 0x20, 0xe2, 0xf4, 0x65, 0xb9, 0xa1, 0x6a, 0x9e, 0x78, 0x6e,
     0x4f, 0x45, 0x09, 0x80, 0x18, 0x5d, 0xc4, 0x06, 0xec, 0x81, 0x4c, 0x72, 0xa8, 0xb8, 0x8b, 0xf8] := by
  decide +kernel

theorem zeroExpansion_64 : zeroExpansion 64 =
    [0xaf, 0xcd, 0x1d, 0x7b, 0x39, 0xa8, 0x20, 0xe2, 0xf4, 0x65, 0xb9, 0xa1, 0x6a, 0x9e, 0x78, 0x6e,
     0x4f, 0x45, 0x09, 0x80, 0x18, 0x5d, 0xc4, 0x06, 0xec, 0x81, 0x4c, 0x72, 0xa8, 0xb8, 0x8b, 0xf8,
     0x9b, 0x74, 0xa8, 0x51, 0x6a, 0x89, 0x39, 0x1b, 0xea, 0xa2, 0x7e, 0x74, 0x0c, 0x9f, 0xcb, 0x53,
     0xe1, 0x32, 0x45, 0x1f, 0xbe, 0x9a, 0x82, 0x2c, 0x3c, 0xab, 0x16, 0xc9, 0x3a, 0x13, 0x84, 0xc5] := by
  decide +kernel

/-! ## A1. `from_seed` -/

/-- **`from_seed`, generic.**  For a generator whose decoder is injective on seeds of its length
    (`hinj`) and whose zero-seed replacement is not all zero (`sh`, C08): two seeds of the right
    length give the same generator iff they are equal or both lie in `{0…0, zeroExpansion}`. -/
theorem fromSeed_eq_iff {σ : Type} (g : XoGen σ) (sh : C08.Shape σ g) (hinj : SeedInj.DecodeInj g)
    (a b : List U8) (ha : a.length = g.seedLen) (hb : b.length = g.seedLen) :
    g.fromSeed? a = g.fromSeed? b ↔ Collide g.seedLen (zeroExpansion g.seedLen) a b :=
  SeedInj.fromSeed_eq_iff g sh hinj a b ha hb

/-- the collision is real: the all-zero seed and its replacement are different seeds with the same
    generator -/
theorem fromSeed_zero_collision {σ : Type} (g : XoGen σ) (sh : C08.Shape σ g) :
    g.fromSeed? (zeroSeed g.seedLen) = g.fromSeed? (zeroExpansion g.seedLen) ∧
    zeroSeed g.seedLen ≠ zeroExpansion g.seedLen := by
  constructor
  · rw [SeedInj.fromSeed?_eq g sh, SeedInj.fromSeed?_eq g sh, if_pos (SeedInj.isAllZero_replicate _),
      if_neg (by rw [show isAllZero (zeroExpansion g.seedLen) = false from sh.expand0]; decide)]
  · intro h
    have := sh.expand0
    rw [show (SplitMix64.fill g.seedLen (SplitMix64.seedFromU64 0)).1 = zeroSeed g.seedLen from h.symm,
      SeedInj.isAllZero_replicate] at this
    cases this

/-- corollary: on seeds that are not all zero `from_seed` is injective -/
theorem fromSeed_injective_of_ne_zero {σ : Type} (g : XoGen σ) (sh : C08.Shape σ g)
    (hinj : SeedInj.DecodeInj g) (a b : List U8) (ha : a.length = g.seedLen) (hb : b.length = g.seedLen)
    (hza : a ≠ zeroSeed g.seedLen) (hzb : b ≠ zeroSeed g.seedLen)
    (h : g.fromSeed? a = g.fromSeed? b) : a = b := by
  rcases (fromSeed_eq_iff g sh hinj a b ha hb).mp h with h | ⟨h1 | h1, h2 | h2⟩
  · exact h
  · exact absurd h1 hza
  · exact absurd h1 hza
  · exact absurd h2 hzb
  · rw [h1, h2]

/-- the hypotheses of the corollary are satisfiable by two different seeds (and then the generators
    differ) -/
example :
    (List.replicate 7 0 ++ [1] : List U8).length = Xoroshiro64Star.gen.seedLen ∧
    (List.replicate 7 0 ++ [1] : List U8) ≠ zeroSeed Xoroshiro64Star.gen.seedLen ∧
    (List.replicate 7 0 ++ [2] : List U8) ≠ zeroSeed Xoroshiro64Star.gen.seedLen ∧
    Xoroshiro64Star.gen.fromSeed? (List.replicate 7 0 ++ [1]) ≠
      Xoroshiro64Star.gen.fromSeed? (List.replicate 7 0 ++ [2]) := by
  decide +kernel

/-- the statement for one generator -/
def FromSeedSpec {σ : Type} (g : XoGen σ) : Prop :=
  ∀ a b : List U8, a.length = g.seedLen → b.length = g.seedLen →
    (g.fromSeed? a = g.fromSeed? b ↔ Collide g.seedLen (zeroExpansion g.seedLen) a b)

theorem decodeInj2_32 (g : XoGen (S2 32)) (hd : g.decode = S2.decode32) (hl : g.seedLen = 8) :
    SeedInj.DecodeInj g := fun a b ha hb h => by
  rw [hd] at h; exact C08.decode_injective.1 a b (by omega) (by omega) h
theorem decodeInj2_64 (g : XoGen (S2 64)) (hd : g.decode = S2.decode64) (hl : g.seedLen = 16) :
    SeedInj.DecodeInj g := fun a b ha hb h => by
  rw [hd] at h; exact C08.decode_injective.2.1 a b (by omega) (by omega) h
theorem decodeInj4_32 (g : XoGen (S4 32)) (hd : g.decode = S4.decode32) (hl : g.seedLen = 16) :
    SeedInj.DecodeInj g := fun a b ha hb h => by
  rw [hd] at h; exact C08.decode_injective.2.2.1 a b (by omega) (by omega) h
theorem decodeInj4_64 (g : XoGen (S4 64)) (hd : g.decode = S4.decode64) (hl : g.seedLen = 32) :
    SeedInj.DecodeInj g := fun a b ha hb h => by
  rw [hd] at h; exact C08.decode_injective.2.2.2.1 a b (by omega) (by omega) h
theorem decodeInj8 (g : XoGen S8) (hd : g.decode = S8.decode) (hl : g.seedLen = 64) :
    SeedInj.DecodeInj g := fun a b ha hb h => by
  rw [hd] at h; exact C08.decode_injective.2.2.2.2 a b (by omega) (by omega) h

/-- **`from_seed` of the 14 generators**: injective except that the all-zero seed collides with
    exactly one other seed, `zeroExpansion` (8, 16, 32 or 64 bytes; values above). -/
theorem xoshiro_family_fromSeed :
    FromSeedSpec Xoroshiro64Star.gen ∧ FromSeedSpec Xoroshiro64StarStar.gen ∧
    FromSeedSpec Xoroshiro128Plus.gen ∧ FromSeedSpec Xoroshiro128PlusPlus.gen ∧
    FromSeedSpec Xoroshiro128StarStar.gen ∧ FromSeedSpec Xoshiro128Plus.gen ∧
    FromSeedSpec Xoshiro128PlusPlus.gen ∧ FromSeedSpec Xoshiro128StarStar.gen ∧
    FromSeedSpec Xoshiro256Plus.gen ∧ FromSeedSpec Xoshiro256PlusPlus.gen ∧
    FromSeedSpec Xoshiro256StarStar.gen ∧ FromSeedSpec Xoshiro512Plus.gen ∧
    FromSeedSpec Xoshiro512PlusPlus.gen ∧ FromSeedSpec Xoshiro512StarStar.gen :=
  ⟨fromSeed_eq_iff _ C08.Xoroshiro64Star_shape (decodeInj2_32 _ rfl rfl),
   fromSeed_eq_iff _ C08.Xoroshiro64StarStar_shape (decodeInj2_32 _ rfl rfl),
   fromSeed_eq_iff _ C08.Xoroshiro128Plus_shape (decodeInj2_64 _ rfl rfl),
   fromSeed_eq_iff _ C08.Xoroshiro128PlusPlus_shape (decodeInj2_64 _ rfl rfl),
   fromSeed_eq_iff _ C08.Xoroshiro128StarStar_shape (decodeInj2_64 _ rfl rfl),
   fromSeed_eq_iff _ C08.Xoshiro128Plus_shape (decodeInj4_32 _ rfl rfl),
   fromSeed_eq_iff _ C08.Xoshiro128PlusPlus_shape (decodeInj4_32 _ rfl rfl),
   fromSeed_eq_iff _ C08.Xoshiro128StarStar_shape (decodeInj4_32 _ rfl rfl),
   fromSeed_eq_iff _ C08.Xoshiro256Plus_shape (decodeInj4_64 _ rfl rfl),
   fromSeed_eq_iff _ C08.Xoshiro256PlusPlus_shape (decodeInj4_64 _ rfl rfl),
   fromSeed_eq_iff _ C08.Xoshiro256StarStar_shape (decodeInj4_64 _ rfl rfl),
   fromSeed_eq_iff _ C08.Xoshiro512Plus_shape (decodeInj8 _ rfl rfl),
   fromSeed_eq_iff _ C08.Xoshiro512PlusPlus_shape (decodeInj8 _ rfl rfl),
   fromSeed_eq_iff _ C08.Xoshiro512StarStar_shape (decodeInj8 _ rfl rfl)⟩

/-- the length hypotheses are satisfiable and both sides of the equivalence occur: the colliding
    pair of Xoshiro256PlusPlus, concretely … -/
example :
    (zeroSeed 32).length = Xoshiro256PlusPlus.gen.seedLen ∧ (zeroExpansion 32).length = Xoshiro256PlusPlus.gen.seedLen ∧
    zeroSeed 32 ≠ zeroExpansion 32 ∧
    Xoshiro256PlusPlus.gen.fromSeed? (zeroSeed 32) = Xoshiro256PlusPlus.gen.fromSeed? (zeroExpansion 32) := by
  decide +kernel

/-- … and two seeds (differing in the last byte only) that do not collide -/
example :
    Xoshiro256PlusPlus.gen.fromSeed? (List.replicate 31 0 ++ [1]) ≠
      Xoshiro256PlusPlus.gen.fromSeed? (List.replicate 31 0 ++ [2]) := by
  decide +kernel

/-! ## A2. `seed_from_u64` -/

/-- **`seed_from_u64`, generic, seeds of 16 bytes or more** (`seedLen = 8(k+2)`): injective. -/
theorem seedFromU64_injective {σ : Type} (g : XoGen σ) (sh : C08.Shape σ g) (hinj : SeedInj.DecodeInj g)
    (k : Nat) (hk : g.seedLen = 8 * (k + 2)) (x y : U64)
    (h : g.seedFromU64? x = g.seedFromU64? y) : x = y :=
  SeedInj.seedFromU64_injective g sh hinj k hk x y h

/-- `−PHI` (PHI = 0x9e3779b97f4a7c15 is SplitMix64's increment) -/
abbrev negPHI : U64 := 0x61c8864680b583eb#64

theorem negPHI_eq : negPHI = -SplitMix64.PHI := by decide

/-- the 8-byte SplitMix64 expansion of `−PHI` is the all-zero seed (the counter passes through 0 and
    the finaliser maps 0 to 0) -/
theorem expansion_negPHI : (SplitMix64.fill 8 (SplitMix64.seedFromU64 negPHI)).1 = zeroSeed 8 := by
  decide +kernel

/-- **`seed_from_u64`, generic, 8-byte seeds**: `x` and `y` give the same generator iff `x = y` or
    both are in `{0, −PHI}`. -/
theorem seedFromU64_eq_iff_8 {σ : Type} (g : XoGen σ) (sh : C08.Shape σ g) (hinj : SeedInj.DecodeInj g)
    (hk : g.seedLen = 8) (x y : U64) :
    g.seedFromU64? x = g.seedFromU64? y ↔ x = y ∨ ((x = 0 ∨ x = negPHI) ∧ (y = 0 ∨ y = negPHI)) :=
  SeedInj.seedFromU64_eq_iff_8 g sh hinj hk x y

def SeedFromU64Injective {σ : Type} (g : XoGen σ) : Prop :=
  ∀ x y : U64, g.seedFromU64? x = g.seedFromU64? y → x = y

/-- **the 12 generators with seeds of 16, 32, 64 bytes**: `seed_from_u64` is injective. -/
theorem xoshiro_family_seedFromU64_injective :
    SeedFromU64Injective Xoroshiro128Plus.gen ∧ SeedFromU64Injective Xoroshiro128PlusPlus.gen ∧
    SeedFromU64Injective Xoroshiro128StarStar.gen ∧ SeedFromU64Injective Xoshiro128Plus.gen ∧
    SeedFromU64Injective Xoshiro128PlusPlus.gen ∧ SeedFromU64Injective Xoshiro128StarStar.gen ∧
    SeedFromU64Injective Xoshiro256Plus.gen ∧ SeedFromU64Injective Xoshiro256PlusPlus.gen ∧
    SeedFromU64Injective Xoshiro256StarStar.gen ∧ SeedFromU64Injective Xoshiro512Plus.gen ∧
    SeedFromU64Injective Xoshiro512PlusPlus.gen ∧ SeedFromU64Injective Xoshiro512StarStar.gen :=
  ⟨seedFromU64_injective _ C08.Xoroshiro128Plus_shape (decodeInj2_64 _ rfl rfl) 0 rfl,
   seedFromU64_injective _ C08.Xoroshiro128PlusPlus_shape (decodeInj2_64 _ rfl rfl) 0 rfl,
   seedFromU64_injective _ C08.Xoroshiro128StarStar_shape (decodeInj2_64 _ rfl rfl) 0 rfl,
   seedFromU64_injective _ C08.Xoshiro128Plus_shape (decodeInj4_32 _ rfl rfl) 0 rfl,
   seedFromU64_injective _ C08.Xoshiro128PlusPlus_shape (decodeInj4_32 _ rfl rfl) 0 rfl,
   seedFromU64_injective _ C08.Xoshiro128StarStar_shape (decodeInj4_32 _ rfl rfl) 0 rfl,
   seedFromU64_injective _ C08.Xoshiro256Plus_shape (decodeInj4_64 _ rfl rfl) 2 rfl,
   seedFromU64_injective _ C08.Xoshiro256PlusPlus_shape (decodeInj4_64 _ rfl rfl) 2 rfl,
   seedFromU64_injective _ C08.Xoshiro256StarStar_shape (decodeInj4_64 _ rfl rfl) 2 rfl,
   seedFromU64_injective _ C08.Xoshiro512Plus_shape (decodeInj8 _ rfl rfl) 6 rfl,
   seedFromU64_injective _ C08.Xoshiro512PlusPlus_shape (decodeInj8 _ rfl rfl) 6 rfl,
   seedFromU64_injective _ C08.Xoshiro512StarStar_shape (decodeInj8 _ rfl rfl) 6 rfl⟩

/-- **the two generators with 8-byte seeds**: exactly one colliding pair, `{0, −PHI}`. -/
theorem xoroshiro64_seedFromU64 (x y : U64) :
    (Xoroshiro64Star.gen.seedFromU64? x = Xoroshiro64Star.gen.seedFromU64? y ↔
      x = y ∨ ((x = 0 ∨ x = negPHI) ∧ (y = 0 ∨ y = negPHI))) ∧
    (Xoroshiro64StarStar.gen.seedFromU64? x = Xoroshiro64StarStar.gen.seedFromU64? y ↔
      x = y ∨ ((x = 0 ∨ x = negPHI) ∧ (y = 0 ∨ y = negPHI))) :=
  ⟨seedFromU64_eq_iff_8 _ C08.Xoroshiro64Star_shape (decodeInj2_32 _ rfl rfl) rfl x y,
   seedFromU64_eq_iff_8 _ C08.Xoroshiro64StarStar_shape (decodeInj2_32 _ rfl rfl) rfl x y⟩

/-- the colliding pair, concretely (kernel-evaluated): `seed_from_u64(0)` and
    `seed_from_u64(0x61c8864680b583eb)` are the same `Xoroshiro64Star` / `Xoroshiro64StarStar`,
    namely the state `(0x7b1dcdaf, 0xe220a839)` -/
example :
    Xoroshiro64Star.gen.seedFromU64? 0 = Xoroshiro64Star.gen.seedFromU64? 0x61c8864680b583eb#64 ∧
    Xoroshiro64StarStar.gen.seedFromU64? 0 = Xoroshiro64StarStar.gen.seedFromU64? 0x61c8864680b583eb#64 ∧
    Xoroshiro64Star.gen.seedFromU64? 0 = some ⟨0x7b1dcdaf#32, 0xe220a839#32⟩ ∧
    (0 : U64) ≠ 0x61c8864680b583eb#64 := by
  decide +kernel

/-- … while for a 16-byte-seed generator the same two arguments give different generators -/
example :
    Xoroshiro128Plus.gen.seedFromU64? 0 ≠ Xoroshiro128Plus.gen.seedFromU64? 0x61c8864680b583eb#64 := by
  decide +kernel

/-! ## A3. XorShiftRng -/

/-- the 16 bytes that spell `0x0BAD5EED` four times -/
abbrev badBytes : List U8 := SeedInj.badBytes

theorem badBytes_eq : badBytes =
    [0xED, 0x5E, 0xAD, 0x0B, 0xED, 0x5E, 0xAD, 0x0B, 0xED, 0x5E, 0xAD, 0x0B, 0xED, 0x5E, 0xAD, 0x0B] := rfl

/-- **`XorShiftRng::from_seed`**: two 16-byte seeds give the same generator iff they are equal or
    both lie in `{0…0, badBytes}`. -/
theorem XorShift_fromSeed_eq_iff (a b : List U8) (ha : a.length = 16) (hb : b.length = 16) :
    XorShift.fromSeed a = XorShift.fromSeed b ↔ Collide 16 badBytes a b :=
  SeedInj.XorShift_fromSeed_eq_iff a b ha hb

/-- the colliding pair, concretely; and a non-colliding pair -/
example :
    (zeroSeed 16).length = 16 ∧ badBytes.length = 16 ∧ zeroSeed 16 ≠ badBytes ∧
    XorShift.fromSeed (zeroSeed 16) = XorShift.fromSeed badBytes ∧
    XorShift.fromSeed (zeroSeed 16) = XorShift.BAD_SEED ∧
    XorShift.fromSeed (List.replicate 15 0 ++ [1]) ≠ XorShift.fromSeed (List.replicate 15 0 ++ [2]) := by
  decide +kernel

/-! # B. ISAAC / ISAAC-64 key schedule -/

/-! ## B1. `mix` -/

/-- explicit inverses of `init`'s `mix` (isaac.rs, isaac64.rs): the statements backwards -/
abbrev unmix32 : Oct 32 → Oct 32 := IsaacInj.unmix32
abbrev unmix64 : Oct 64 → Oct 64 := IsaacInj.unmix64

theorem unmix32_mix (o : Oct 32) : unmix32 (params32.mix o) = o := IsaacInj.unmix32_mix o
theorem mix_unmix32 (o : Oct 32) : params32.mix (unmix32 o) = o := IsaacInj.mix_unmix32 o
theorem unmix64_mix (o : Oct 64) : unmix64 (params64.mix o) = o := IsaacInj.unmix64_mix o
theorem mix_unmix64 (o : Oct 64) : params64.mix (unmix64 o) = o := IsaacInj.mix_unmix64 o

theorem mix32_bijective : Function.Bijective params32.mix :=
  ⟨fun _ _ h => IsaacInj.mix32_injective h, fun y => ⟨unmix32 y, mix_unmix32 y⟩⟩

theorem mix64_bijective : Function.Bijective params64.mix :=
  ⟨fun _ _ h => IsaacInj.mix64_injective h, fun y => ⟨unmix64 y, mix_unmix64 y⟩⟩

/-! ## B2. `init` -/

/-- **`init`, generic**: for parameters with an injective `mix`, `init` with one pass and with two
    passes is injective as a function of a 256-word array — already the resulting `mem` determines
    the key. -/
theorem init_mem_injective {w : Nat} (p : Params w) (hmix : Function.Injective p.mix)
    (rounds : Nat) (hr : rounds = 1 ∨ rounds = 2)
    (m1 m2 : Array (BitVec w)) (hs1 : m1.size = 256) (hs2 : m2.size = 256)
    (h : (init p m1 rounds).mem = (init p m2 rounds).mem) : m1 = m2 := by
  rcases hr with rfl | rfl
  · exact IsaacInj.init_one_mem_injective p (fun _ _ e => hmix e) m1 m2 hs1 hs2 h
  · exact IsaacInj.init_two_mem_injective p (fun _ _ e => hmix e) m1 m2 hs1 hs2 h

/-- the other three fields of the core are constants -/
theorem init_abc {w : Nat} (p : Params w) (m : Array (BitVec w)) (rounds : Nat) :
    (init p m rounds).a = 0 ∧ (init p m rounds).b = 0 ∧ (init p m rounds).c = 0 :=
  IsaacInj.init_abc p m rounds

/-- **ISAAC (32-bit)**: `init` is injective on 256-word keys, one pass and two passes. -/
theorem init32_injective (rounds : Nat) (hr : rounds = 1 ∨ rounds = 2)
    (m1 m2 : Array U32) (hs1 : m1.size = 256) (hs2 : m2.size = 256)
    (h : init params32 m1 rounds = init params32 m2 rounds) : m1 = m2 :=
  init_mem_injective params32 mix32_bijective.1 rounds hr m1 m2 hs1 hs2 (congrArg Core.mem h)

/-- **ISAAC-64**: likewise. -/
theorem init64_injective (rounds : Nat) (hr : rounds = 1 ∨ rounds = 2)
    (m1 m2 : Array U64) (hs1 : m1.size = 256) (hs2 : m2.size = 256)
    (h : init params64 m1 rounds = init params64 m2 rounds) : m1 = m2 :=
  init_mem_injective params64 mix64_bijective.1 rounds hr m1 m2 hs1 hs2 (congrArg Core.mem h)

/-- `init` keeps the array at 256 words -/
theorem init_size {w : Nat} (p : Params w) (m : Array (BitVec w)) (rounds : Nat) (hs : m.size = 256) :
    (init p m rounds).mem.size = 256 := IsaacInj.init_size p m rounds hs

/-- the size hypothesis is satisfiable: the zero-extended seed arrays have 256 words -/
example (ws : List U32) (h : ws.length ≤ 256) : (extend ws).size = 256 := IsaacInj.extend_size ws h

/-! ## B3. `from_seed`, `seed_from_u64` -/

/-- **`IsaacRng::from_seed`**: distinct 32-byte seeds give cores with distinct `mem` arrays. -/
theorem fromSeedCore32_mem_injective (a b : List U8) (ha : a.length = 32) (hb : b.length = 32)
    (h : (fromSeedCore32 a).mem = (fromSeedCore32 b).mem) : a = b := by
  have hl : ∀ s : List U8, (readU32s s 8).length = 8 := fun s => by simp [readU32s]
  have h1 := init_mem_injective params32 mix32_bijective.1 2 (Or.inr rfl) _ _
    (IsaacInj.extend_size _ (by rw [hl]; decide)) (IsaacInj.extend_size _ (by rw [hl]; decide)) h
  have h2 := IsaacInj.extend_injective (by rw [hl]; decide) (by rw [hl, hl]) h1
  exact IsaacInj.readU32s_injective a b 8 (by omega) (by omega) h2

/-- **`Isaac64Rng::from_seed`**: likewise. -/
theorem fromSeedCore64_mem_injective (a b : List U8) (ha : a.length = 32) (hb : b.length = 32)
    (h : (fromSeedCore64 a).mem = (fromSeedCore64 b).mem) : a = b := by
  have hl : ∀ s : List U8, (readU64s s 4).length = 4 := fun s => by simp [readU64s]
  have h1 := init_mem_injective params64 mix64_bijective.1 2 (Or.inr rfl) _ _
    (IsaacInj.extend_size _ (by rw [hl]; decide)) (IsaacInj.extend_size _ (by rw [hl]; decide)) h
  have h2 := IsaacInj.extend_injective (by rw [hl]; decide) (by rw [hl, hl]) h1
  exact IsaacInj.readU64s_injective a b 4 (by omega) (by omega) h2

/-- … hence distinct seeds give distinct generators (`IsaacRng`, `Isaac64Rng` as a whole) -/
theorem fromSeed32_injective (a b : List U8) (ha : a.length = 32) (hb : b.length = 32)
    (h : fromSeed32 a = fromSeed32 b) : a = b := by
  rw [fromSeed32, fromSeed32, BlockRng.new, BlockRng.new, BlockRng.mk.injEq] at h
  exact fromSeedCore32_mem_injective a b ha hb (congrArg Core.mem h.2.2)

theorem fromSeed64_injective (a b : List U8) (ha : a.length = 32) (hb : b.length = 32)
    (h : fromSeed64 a = fromSeed64 b) : a = b := by
  rw [fromSeed64, fromSeed64, BlockRng64.new, BlockRng64.new, BlockRng64.mk.injEq] at h
  exact fromSeedCore64_mem_injective a b ha hb (congrArg Core.mem h.2.2.2)

/-- **`IsaacRng::seed_from_u64`** (one pass over `[lo, hi, 0, …]`): injective in `x`. -/
theorem seedFromU64Core32_mem_injective (x y : U64)
    (h : (seedFromU64Core32 x).mem = (seedFromU64Core32 y).mem) : x = y := by
  have h1 := init_mem_injective params32 mix32_bijective.1 1 (Or.inl rfl) _ _
    (IsaacInj.extend_size _ (by simp)) (IsaacInj.extend_size _ (by simp)) h
  have h2 := IsaacInj.extend_injective (l1 := [x.setWidth 32, (x >>> 32).setWidth 32])
    (l2 := [y.setWidth 32, (y >>> 32).setWidth 32]) (by simp) rfl h1
  simp only [List.cons.injEq, and_true] at h2
  exact IsaacInj.u64_eq_of_halves h2.1 h2.2

/-- **`Isaac64Rng::seed_from_u64`** (one pass over `[x, 0, …]`): injective in `x`. -/
theorem seedFromU64Core64_mem_injective (x y : U64)
    (h : (seedFromU64Core64 x).mem = (seedFromU64Core64 y).mem) : x = y := by
  have h1 := init_mem_injective params64 mix64_bijective.1 1 (Or.inl rfl) _ _
    (IsaacInj.extend_size _ (by simp)) (IsaacInj.extend_size _ (by simp)) h
  have h2 := IsaacInj.extend_injective (l1 := [x]) (l2 := [y]) (by simp) rfl h1
  simpa using h2

theorem seedFromU64_32_injective (x y : U64) (h : seedFromU64_32 x = seedFromU64_32 y) : x = y := by
  rw [seedFromU64_32, seedFromU64_32, BlockRng.new, BlockRng.new, BlockRng.mk.injEq] at h
  exact seedFromU64Core32_mem_injective x y (congrArg Core.mem h.2.2)

theorem seedFromU64_64_injective (x y : U64) (h : seedFromU64_64 x = seedFromU64_64 y) : x = y := by
  rw [seedFromU64_64, seedFromU64_64, BlockRng64.new, BlockRng64.new, BlockRng64.mk.injEq] at h
  exact seedFromU64Core64_mem_injective x y (congrArg Core.mem h.2.2.2)

/-- **`IsaacRng::from_rng` / `try_from_rng`** (1024 source bytes read as 256 little-endian words, two
    passes): distinct byte strings give cores with distinct `mem` arrays. -/
theorem fromRngCore32_mem_injective (a b : List U8) (ha : a.length = 1024) (hb : b.length = 1024)
    (h : (init params32 (readU32s a RAND_SIZE).toArray 2).mem =
         (init params32 (readU32s b RAND_SIZE).toArray 2).mem) : a = b := by
  have hl : ∀ s : List U8, (readU32s s RAND_SIZE).toArray.size = 256 := fun s => by
    simp [readU32s, RAND_SIZE]
  have h1 := init_mem_injective params32 mix32_bijective.1 2 (Or.inr rfl) _ _ (hl a) (hl b) h
  have h2 : readU32s a RAND_SIZE = readU32s b RAND_SIZE := by
    simpa using congrArg Array.toList h1
  exact IsaacInj.readU32s_injective a b 256 (by omega) (by omega) h2

/-- **`Isaac64Rng::from_rng` / `try_from_rng`** (2048 source bytes, 256 little-endian `u64`s). -/
theorem fromRngCore64_mem_injective (a b : List U8) (ha : a.length = 2048) (hb : b.length = 2048)
    (h : (init params64 (readU64s a RAND_SIZE).toArray 2).mem =
         (init params64 (readU64s b RAND_SIZE).toArray 2).mem) : a = b := by
  have hl : ∀ s : List U8, (readU64s s RAND_SIZE).toArray.size = 256 := fun s => by
    simp [readU64s, RAND_SIZE]
  have h1 := init_mem_injective params64 mix64_bijective.1 2 (Or.inr rfl) _ _ (hl a) (hl b) h
  have h2 : readU64s a RAND_SIZE = readU64s b RAND_SIZE := by
    simpa using congrArg Array.toList h1
  exact IsaacInj.readU64s_injective a b 256 (by omega) (by omega) h2

/-- every core built by the four constructors has `a = b = c = 0` and a 256-word `mem` -/
theorem isaac_constructors_shape (seed : List U8) (x : U64) :
    ((fromSeedCore32 seed).a = 0 ∧ (fromSeedCore32 seed).b = 0 ∧ (fromSeedCore32 seed).c = 0 ∧
      (fromSeedCore32 seed).mem.size = 256) ∧
    ((fromSeedCore64 seed).a = 0 ∧ (fromSeedCore64 seed).b = 0 ∧ (fromSeedCore64 seed).c = 0 ∧
      (fromSeedCore64 seed).mem.size = 256) ∧
    ((seedFromU64Core32 x).a = 0 ∧ (seedFromU64Core32 x).b = 0 ∧ (seedFromU64Core32 x).c = 0 ∧
      (seedFromU64Core32 x).mem.size = 256) ∧
    ((seedFromU64Core64 x).a = 0 ∧ (seedFromU64Core64 x).b = 0 ∧ (seedFromU64Core64 x).c = 0 ∧
      (seedFromU64Core64 x).mem.size = 256) := by
  have hl32 : (readU32s seed 8).length = 8 := by simp [readU32s]
  have hl64 : (readU64s seed 4).length = 4 := by simp [readU64s]
  refine ⟨?_, ?_, ?_, ?_⟩
  · obtain ⟨h1, h2, h3⟩ := init_abc params32 (extend (readU32s seed 8)) 2
    exact ⟨h1, h2, h3, init_size _ _ _ (IsaacInj.extend_size _ (by rw [hl32]; decide))⟩
  · obtain ⟨h1, h2, h3⟩ := init_abc params64 (extend (readU64s seed 4)) 2
    exact ⟨h1, h2, h3, init_size _ _ _ (IsaacInj.extend_size _ (by rw [hl64]; decide))⟩
  · obtain ⟨h1, h2, h3⟩ := init_abc params32 (extend [x.setWidth 32, (x >>> 32).setWidth 32]) 1
    exact ⟨h1, h2, h3, init_size _ _ _ (IsaacInj.extend_size _ (by simp))⟩
  · obtain ⟨h1, h2, h3⟩ := init_abc params64 (extend [x]) 1
    exact ⟨h1, h2, h3, init_size _ _ _ (IsaacInj.extend_size _ (by simp))⟩

/-! # C. ISAAC's round function -/

/-- the core transition of `generate` (it does not depend on the results buffer, see below) -/
abbrev nextCore {w : Nat} (p : Params w) (c : Core w) : Core w := IsaacInj.nextCore p c

/-- the core after `generate` is the same whatever the results buffer held before -/
theorem generate_core_eq {w : Nat} (p : Params w) (c : Core w) (r : Array (BitVec w)) :
    (generate p c r).2 = nextCore p c := IsaacInj.generate_snd_eq_nextCore p c r

/-- **`generate` is injective on cores, generic**: if the four xorshift functions of `rngstep` are
    injective (`MixInj`), two cores with 256-word arrays that `generate` sends to the same core are
    equal — for any two results buffers. -/
theorem generate_injective {w : Nat} (p : Params w) (hp : IsaacInj.MixInj p) (c1 c2 : Core w)
    (r1 r2 : Array (BitVec w)) (hs1 : c1.mem.size = 256) (hs2 : c2.mem.size = 256)
    (h : (generate p c1 r1).2 = (generate p c2 r2).2) : c1 = c2 :=
  IsaacInj.generate_injective p hp c1 c2 r1 r2 hs1 hs2 h

/-- **IsaacCore::generate** -/
theorem generate32_injective (c1 c2 : Core 32) (r1 r2 : Array U32)
    (hs1 : c1.mem.size = 256) (hs2 : c2.mem.size = 256)
    (h : (generate params32 c1 r1).2 = (generate params32 c2 r2).2) : c1 = c2 :=
  generate_injective params32 IsaacInj.mixInj32 c1 c2 r1 r2 hs1 hs2 h

/-- **Isaac64Core::generate** -/
theorem generate64_injective (c1 c2 : Core 64) (r1 r2 : Array U64)
    (hs1 : c1.mem.size = 256) (hs2 : c2.mem.size = 256)
    (h : (generate params64 c1 r1).2 = (generate params64 c2 r2).2) : c1 = c2 :=
  generate_injective params64 IsaacInj.mixInj64 c1 c2 r1 r2 hs1 hs2 h

/-- `generate` keeps the array at 256 words, so the hypothesis propagates along a stream … -/
theorem generate_size {w : Nat} (p : Params w) (c : Core w) (r : Array (BitVec w))
    (hs : c.mem.size = 256) : (generate p c r).2.mem.size = 256 := IsaacInj.generate_size p c r hs

/-- … and two different cores never merge, however many blocks are generated (both widths) -/
theorem cores_never_merge32 (k : Nat) (c1 c2 : Core 32) (hs1 : c1.mem.size = 256) (hs2 : c2.mem.size = 256)
    (h : iter (nextCore params32) k c1 = iter (nextCore params32) k c2) : c1 = c2 :=
  IsaacInj.iter_nextCore_injective params32 IsaacInj.mixInj32 k c1 c2 hs1 hs2 h

theorem cores_never_merge64 (k : Nat) (c1 c2 : Core 64) (hs1 : c1.mem.size = 256) (hs2 : c2.mem.size = 256)
    (h : iter (nextCore params64) k c1 = iter (nextCore params64) k c2) : c1 = c2 :=
  IsaacInj.iter_nextCore_injective params64 IsaacInj.mixInj64 k c1 c2 hs1 hs2 h

/-- consequence for seeding: distinct 32-byte seeds give distinct cores after any number of blocks -/
theorem fromSeed32_never_merge (k : Nat) (a b : List U8) (ha : a.length = 32) (hb : b.length = 32)
    (h : iter (nextCore params32) k (fromSeedCore32 a) = iter (nextCore params32) k (fromSeedCore32 b)) :
    a = b := by
  have sa := (isaac_constructors_shape a 0).1.2.2.2
  have sb := (isaac_constructors_shape b 0).1.2.2.2
  exact fromSeedCore32_mem_injective a b ha hb (congrArg Core.mem (cores_never_merge32 k _ _ sa sb h))

theorem fromSeed64_never_merge (k : Nat) (a b : List U8) (ha : a.length = 32) (hb : b.length = 32)
    (h : iter (nextCore params64) k (fromSeedCore64 a) = iter (nextCore params64) k (fromSeedCore64 b)) :
    a = b := by
  have sa := (isaac_constructors_shape a 0).2.1.2.2.2
  have sb := (isaac_constructors_shape b 0).2.1.2.2.2
  exact fromSeedCore64_mem_injective a b ha hb (congrArg Core.mem (cores_never_merge64 k _ _ sa sb h))

/-- the size hypotheses are satisfiable by every constructed core -/
example (seed : List U8) : (fromSeedCore32 seed).mem.size = 256 ∧ (fromSeedCore64 seed).mem.size = 256 :=
  ⟨(isaac_constructors_shape seed 0).1.2.2.2, (isaac_constructors_shape seed 0).2.1.2.2.2⟩

/-- the four `mix` functions of both widths are injective (every shift ≥ 1, `Lib/BitInj`) -/
theorem rngstep_mix_injective : IsaacInj.MixInj params32 ∧ IsaacInj.MixInj params64 :=
  ⟨IsaacInj.mixInj32, IsaacInj.mixInj64⟩

/-! # usage: the theorems applied to concrete, different inputs (hypotheses satisfiable) -/

example : (C08.Xoshiro512Plus_shape).zero = S8.zero ∧
    Xoshiro512Plus.gen.fromSeed? (zeroSeed 64) = Xoshiro512Plus.gen.fromSeed? (zeroExpansion 64) :=
  ⟨rfl, (fromSeed_zero_collision _ C08.Xoshiro512Plus_shape).1⟩

example : fromSeed32 (List.replicate 32 0) ≠ fromSeed32 (List.replicate 31 0 ++ [1]) := fun h =>
  absurd (fromSeed32_injective _ _ (by decide) (by decide) h) (by decide)

example : fromSeed64 (List.replicate 32 0) ≠ fromSeed64 (List.replicate 31 0 ++ [1]) := fun h =>
  absurd (fromSeed64_injective _ _ (by decide) (by decide) h) (by decide)

example : (seedFromU64Core32 1).mem ≠ (seedFromU64Core32 2).mem := fun h =>
  absurd (seedFromU64Core32_mem_injective _ _ h) (by decide)

example : seedFromU64_64 1 ≠ seedFromU64_64 0x100000001#64 := fun h =>
  absurd (seedFromU64_64_injective _ _ h) (by decide)

example : init params32 (extend [1]) 1 ≠ init params32 (extend [2]) 1 := fun h => by
  have h1 := init32_injective 1 (Or.inl rfl) _ _ (IsaacInj.extend_size _ (by decide))
    (IsaacInj.extend_size _ (by decide)) h
  have h2 := IsaacInj.extend_injective (l1 := [1]) (l2 := [2]) (by decide) rfl h1
  exact absurd h2 (by decide)

/-- two seeds that differ in one bit are still different generators after any number `k` of blocks -/
example (k : Nat) :
    iter (nextCore params64) k (fromSeedCore64 (List.replicate 32 0)) ≠
      iter (nextCore params64) k (fromSeedCore64 (List.replicate 31 0 ++ [1])) := fun h =>
  absurd (fromSeed64_never_merge k _ _ (by decide) (by decide) h) (by decide)

/-- one block of a constructed generator: `generate32_injective` applies (sizes are 256) -/
example (s1 s2 : List U8) (r : Array U32)
    (h : (generate params32 (fromSeedCore32 s1) r).2 = (generate params32 (fromSeedCore32 s2) r).2) :
    fromSeedCore32 s1 = fromSeedCore32 s2 :=
  generate32_injective _ _ r r (isaac_constructors_shape s1 0).1.2.2.2 (isaac_constructors_shape s2 0).1.2.2.2 h

end Rngs.Extra.SeedInjective

#print axioms Rngs.Extra.SeedInjective.zeroExpansion_64
#print axioms Rngs.Extra.SeedInjective.fromSeed_eq_iff
#print axioms Rngs.Extra.SeedInjective.fromSeed_zero_collision
#print axioms Rngs.Extra.SeedInjective.fromSeed_injective_of_ne_zero
#print axioms Rngs.Extra.SeedInjective.xoshiro_family_fromSeed
#print axioms Rngs.Extra.SeedInjective.seedFromU64_injective
#print axioms Rngs.Extra.SeedInjective.expansion_negPHI
#print axioms Rngs.Extra.SeedInjective.seedFromU64_eq_iff_8
#print axioms Rngs.Extra.SeedInjective.xoshiro_family_seedFromU64_injective
#print axioms Rngs.Extra.SeedInjective.xoroshiro64_seedFromU64
#print axioms Rngs.Extra.SeedInjective.XorShift_fromSeed_eq_iff
#print axioms Rngs.Extra.SeedInjective.mix32_bijective
#print axioms Rngs.Extra.SeedInjective.mix64_bijective
#print axioms Rngs.Extra.SeedInjective.init_mem_injective
#print axioms Rngs.Extra.SeedInjective.init32_injective
#print axioms Rngs.Extra.SeedInjective.init64_injective
#print axioms Rngs.Extra.SeedInjective.fromSeedCore32_mem_injective
#print axioms Rngs.Extra.SeedInjective.fromSeedCore64_mem_injective
#print axioms Rngs.Extra.SeedInjective.fromSeed32_injective
#print axioms Rngs.Extra.SeedInjective.fromSeed64_injective
#print axioms Rngs.Extra.SeedInjective.seedFromU64Core32_mem_injective
#print axioms Rngs.Extra.SeedInjective.seedFromU64Core64_mem_injective
#print axioms Rngs.Extra.SeedInjective.seedFromU64_32_injective
#print axioms Rngs.Extra.SeedInjective.seedFromU64_64_injective
#print axioms Rngs.Extra.SeedInjective.fromRngCore32_mem_injective
#print axioms Rngs.Extra.SeedInjective.fromRngCore64_mem_injective
#print axioms Rngs.Extra.SeedInjective.isaac_constructors_shape
#print axioms Rngs.Extra.SeedInjective.generate_core_eq
#print axioms Rngs.Extra.SeedInjective.generate_injective
#print axioms Rngs.Extra.SeedInjective.generate32_injective
#print axioms Rngs.Extra.SeedInjective.generate64_injective
#print axioms Rngs.Extra.SeedInjective.cores_never_merge32
#print axioms Rngs.Extra.SeedInjective.cores_never_merge64
#print axioms Rngs.Extra.SeedInjective.fromSeed32_never_merge
#print axioms Rngs.Extra.SeedInjective.fromSeed64_never_merge
#print axioms Rngs.Extra.SeedInjective.rngstep_mix_injective
