/-
  Rngs.Extra.SplitMixBij — SplitMix64 (rand_xoshiro/src/splitmix64.rs), `next_u64`:

  * the output finaliser `mix64` is a bijection of `u64` (explicit inverse `unmix64`);
  * the state transition `x ↦ x + PHI` has exact period 2^64 from every state;
  * hence the 2^64 consecutive `next_u64` outputs from any state are pairwise distinct;
  * `seed_from_u64` is the identity on the state, so distinct `u64` seeds give distinct first
    outputs.

  All quantifiers range over all 2^64 values; the only kernel computations are the three closed
  facts `c * c⁻¹ = 1` for the two multipliers and for PHI.
-/
import Rngs.Model.Xoshiro
import Rngs.Lib.Codec
import Mathlib.Logic.Function.Defs
namespace Rngs.Extra.SplitMix
open Rngs

/-! ## xorshift `z ↦ z ^ (z >> k)` and its inverse (22 ≤ k, i.e. 3k ≥ 64) -/

def xs (k : Nat) (z : U64) : U64 := z ^^^ (z >>> k)
def unxs (k : Nat) (y : U64) : U64 := y ^^^ (y >>> k) ^^^ (y >>> (2 * k))

theorem unxs_xs (k : Nat) (hk : 22 ≤ k) (z : U64) : unxs k (xs k z) = z := by
  unfold unxs xs
  ext i hi
  simp only [BitVec.getElem_xor, BitVec.getElem_ushiftRight, BitVec.getLsbD_xor,
    BitVec.getLsbD_ushiftRight]
  have h3 : z.getLsbD (k + (2 * k + i)) = false := BitVec.getLsbD_of_ge _ _ (by omega)
  have e1 : k + (k + i) = 2 * k + i := by omega
  simp only [e1, h3, ← BitVec.getLsbD_eq_getElem]
  cases z.getLsbD i <;> cases z.getLsbD (k + i) <;> cases z.getLsbD (2 * k + i) <;> rfl

theorem xs_unxs (k : Nat) (hk : 22 ≤ k) (z : U64) : xs k (unxs k z) = z := by
  unfold unxs xs
  ext i hi
  simp only [BitVec.getElem_xor, BitVec.getElem_ushiftRight, BitVec.getLsbD_xor,
    BitVec.getLsbD_ushiftRight]
  have h3 : z.getLsbD (2 * k + (k + i)) = false := BitVec.getLsbD_of_ge _ _ (by omega)
  have e1 : k + (k + i) = 2 * k + i := by omega
  simp only [h3, e1, ← BitVec.getLsbD_eq_getElem]
  cases z.getLsbD i <;> cases z.getLsbD (k + i) <;> cases z.getLsbD (2 * k + i) <;> rfl

/-! ## the odd multipliers and their inverses modulo 2^64 -/

def C1 : U64 := 0xbf58476d1ce4e5b9#64
def C2 : U64 := 0x94d049bb133111eb#64
def C1inv : U64 := 0x96de1b173f119089#64
def C2inv : U64 := 0x319642b2d24d8ec3#64
def PHIinv : U64 := 0xf1de83e19937733d#64

theorem C1_mul_inv : C1 * C1inv = 1#64 := by decide +kernel
theorem C2_mul_inv : C2 * C2inv = 1#64 := by decide +kernel
theorem PHI_mul_inv : SplitMix64.PHI * PHIinv = 1#64 := by decide +kernel

theorem mul_cancel_right {c cinv : U64} (h : c * cinv = 1#64) (a : U64) : a * c * cinv = a := by
  rw [BitVec.mul_assoc, h, BitVec.mul_one]

theorem mul_cancel_right' {c cinv : U64} (h : c * cinv = 1#64) (a : U64) : a * cinv * c = a := by
  rw [BitVec.mul_assoc, BitVec.mul_comm cinv c, h, BitVec.mul_one]

theorem mul_right_injective {c cinv : U64} (h : c * cinv = 1#64) {a b : U64} (hab : a * c = b * c) :
    a = b := by
  have := congrArg (· * cinv) hab
  simpa only [mul_cancel_right h] using this

/-! ## 1. the finaliser -/

/-- the output function of `SplitMix64::next_u64`, applied to the already advanced state -/
def mix64 (z : U64) : U64 :=
  let z := (z ^^^ (z >>> 30)) * 0xbf58476d1ce4e5b9#64
  let z := (z ^^^ (z >>> 27)) * 0x94d049bb133111eb#64
  z ^^^ (z >>> 31)

theorem nextU64_eq (x : U64) :
    SplitMix64.nextU64 x = (mix64 (x + SplitMix64.PHI), x + SplitMix64.PHI) := rfl

theorem mix64_eq (z : U64) : mix64 z = xs 31 (xs 27 (xs 30 z * C1) * C2) := rfl

/-! ## 2. bijectivity -/

def unmix64 (y : U64) : U64 := unxs 30 (unxs 27 (unxs 31 y * C2inv) * C1inv)

theorem unmix64_mix64 (z : U64) : unmix64 (mix64 z) = z := by
  rw [mix64_eq, unmix64, unxs_xs 31 (by decide), mul_cancel_right C2_mul_inv,
    unxs_xs 27 (by decide), mul_cancel_right C1_mul_inv, unxs_xs 30 (by decide)]

theorem mix64_unmix64 (y : U64) : mix64 (unmix64 y) = y := by
  rw [mix64_eq, unmix64, xs_unxs 30 (by decide), mul_cancel_right' C1_mul_inv,
    xs_unxs 27 (by decide), mul_cancel_right' C2_mul_inv, xs_unxs 31 (by decide)]

theorem mix64_injective : Function.Injective mix64 := fun a b h => by
  have := congrArg unmix64 h
  simpa only [unmix64_mix64] using this

theorem mix64_surjective : Function.Surjective mix64 := fun y => ⟨unmix64 y, mix64_unmix64 y⟩

theorem mix64_bijective : Function.Bijective mix64 := ⟨mix64_injective, mix64_surjective⟩

/-! ## 3. the state walk -/

/-- the state transition of `next_u64` -/
abbrev step : U64 → U64 := fun s => (SplitMix64.nextU64 s).2

theorem step_eq (s : U64) : step s = s + SplitMix64.PHI := rfl

theorem iter_step (k : Nat) (x : U64) :
    iter step k x = x + BitVec.ofNat 64 k * SplitMix64.PHI := by
  induction k with
  | zero => simp [iter]
  | succ k ih =>
    rw [iter, ih, step_eq, BitVec.ofNat_add, BitVec.add_mul, BitVec.add_assoc]
    simp

theorem add_left_cancel' {x a b : U64} (h : x + a = x + b) : a = b := by
  exact (BitVec.add_right_inj x).mp h

theorem ofNat_mul_PHI_injective {i j : Nat} (hi : i < 2 ^ 64) (hj : j < 2 ^ 64)
    (h : BitVec.ofNat 64 i * SplitMix64.PHI = BitVec.ofNat 64 j * SplitMix64.PHI) : i = j := by
  have h' := mul_right_injective PHI_mul_inv h
  have := congrArg BitVec.toNat h'
  simp only [BitVec.toNat_ofNat] at this
  omega

theorem state_period (x : U64) :
    iter (fun s => (SplitMix64.nextU64 s).2) (2 ^ 64) x = x := by
  have : BitVec.ofNat 64 (2 ^ 64) = 0#64 := by decide +kernel
  show iter step (2 ^ 64) x = x
  rw [iter_step, this]
  simp

theorem state_minimal (x : U64) (k : Nat) (hk : 0 < k)
    (h : iter (fun s => (SplitMix64.nextU64 s).2) k x = x) : 2 ^ 64 ≤ k := by
  change iter step k x = x at h
  rw [iter_step] at h
  have h0 : BitVec.ofNat 64 k * SplitMix64.PHI = 0#64 * SplitMix64.PHI := by
    apply add_left_cancel' (x := x)
    rw [h]; simp
  have h' := mul_right_injective PHI_mul_inv h0
  have := congrArg BitVec.toNat h'
  simp only [BitVec.toNat_ofNat] at this
  omega

/-! ## 4. the outputs of one full period are pairwise distinct -/

/-- output number `n` (0-based) of the `next_u64` stream started at state `x` -/
theorem output_eq (x : U64) (n : Nat) :
    (SplitMix64.nextU64 (iter (fun s => (SplitMix64.nextU64 s).2) n x)).1
      = mix64 (x + BitVec.ofNat 64 (n + 1) * SplitMix64.PHI) := by
  change (SplitMix64.nextU64 (iter step n x)).1 = _
  rw [nextU64_eq, ← step_eq, ← iter_step (n + 1) x]
  rfl

theorem outputs_distinct (x : U64) (i j : Nat) (hi : i < 2 ^ 64) (hj : j < 2 ^ 64) (hij : i ≠ j) :
    (SplitMix64.nextU64 (iter (fun s => (SplitMix64.nextU64 s).2) i x)).1
      ≠ (SplitMix64.nextU64 (iter (fun s => (SplitMix64.nextU64 s).2) j x)).1 := by
  intro h
  change (SplitMix64.nextU64 (iter step i x)).1 = (SplitMix64.nextU64 (iter step j x)).1 at h
  rw [nextU64_eq, nextU64_eq, iter_step, iter_step] at h
  have h1 := mix64_injective h
  rw [BitVec.add_assoc, BitVec.add_assoc] at h1
  have h2 := add_left_cancel' h1
  have h3 : BitVec.ofNat 64 i * SplitMix64.PHI = BitVec.ofNat 64 j * SplitMix64.PHI := by
    have := congrArg (· - SplitMix64.PHI) h2
    simpa [BitVec.add_sub_cancel] using this
  exact hij (ofNat_mul_PHI_injective hi hj h3)

/-! ## 5. seeding -/

theorem seedFromU64_eq (x : U64) : SplitMix64.seedFromU64 x = x := by
  unfold SplitMix64.seedFromU64 SplitMix64.fromSeed
  exact Codec.le64At_toLE x

theorem seedFromU64_first_word_injective (x y : U64) (hxy : x ≠ y) :
    (SplitMix64.nextU64 (SplitMix64.seedFromU64 x)).1
      ≠ (SplitMix64.nextU64 (SplitMix64.seedFromU64 y)).1 := by
  intro h
  rw [seedFromU64_eq, seedFromU64_eq, nextU64_eq, nextU64_eq] at h
  have h1 := mix64_injective h
  apply hxy
  have := congrArg (· - SplitMix64.PHI) h1
  simpa [BitVec.add_sub_cancel] using this

end Rngs.Extra.SplitMix

#print axioms Rngs.Extra.SplitMix.nextU64_eq
#print axioms Rngs.Extra.SplitMix.unmix64_mix64
#print axioms Rngs.Extra.SplitMix.mix64_unmix64
#print axioms Rngs.Extra.SplitMix.mix64_bijective
#print axioms Rngs.Extra.SplitMix.state_period
#print axioms Rngs.Extra.SplitMix.state_minimal
#print axioms Rngs.Extra.SplitMix.output_eq
#print axioms Rngs.Extra.SplitMix.outputs_distinct
#print axioms Rngs.Extra.SplitMix.seedFromU64_eq
#print axioms Rngs.Extra.SplitMix.seedFromU64_first_word_injective
