/-
  Rngs.Extra.XorShiftDim — XorShiftRng (Marsaglia's xor128) is 4-dimensionally equidistributed over its period:
  the four 32-bit words it returns next ARE its state four steps later, so the map "state ↦ next four outputs" is the
  bijection `step^4`, and over one period (2^128 − 1 outputs from any non-zero state) every non-zero 4-tuple of consecutive
  outputs occurs at exactly one position, the all-zero tuple never.  Generic machinery: `Lib/EquidistDim`; cycle structure: C07.
-/
import Rngs.Lib.EquidistDim
import Rngs.Props.C07
namespace Rngs.Extra.XorShiftDim
open Rngs Rngs.EquidistDim

/-- native output as a function of the state -/
def out (s : S4 32) : U32 := (XorShift.nextU32 s).1

/-- the next four outputs are the four words of the state four steps later -/
theorem window_eq_iter4 (s : S4 32) :
    (shape4 32).ofFn (window 4 out XorShift.step s) = iter XorShift.step 4 s := rfl

theorem iter_bijective {α : Type} {f : α → α} (hf : Function.Bijective f) : ∀ k, Function.Bijective (iter f k)
  | 0 => ⟨fun _ _ h => h, fun y => ⟨y, rfl⟩⟩
  | k + 1 => by
    have ih := iter_bijective hf k
    show Function.Bijective (fun s => f (iter f k s))
    exact hf.comp ih

/-- the window map is a bijection of the state space onto the 4-tuples of words -/
theorem window_bijective : Function.Bijective (window 4 out XorShift.step) := by
  have h4 : Function.Bijective (iter XorShift.step 4) := iter_bijective C07.xorShift_bijective 4
  constructor
  · intro a b hab
    apply h4.1
    rw [← window_eq_iter4 a, ← window_eq_iter4 b, hab]
  · intro y
    obtain ⟨s, hs⟩ := h4.2 ((shape4 32).ofFn y)
    refine ⟨s, ?_⟩
    have : (shape4 32).ofFn (window 4 out XorShift.step s) = (shape4 32).ofFn y := by rw [window_eq_iter4, hs]
    have h2 := congrArg (shape4 32).toFn this
    rwa [(shape4 32).toFn_ofFn, (shape4 32).toFn_ofFn] at h2

/-- (D1) every 4-tuple of words is the next-four-outputs of exactly one state -/
theorem states (y : Fin 4 → U32) : ∃! s : S4 32, ∀ j : Fin 4, out (iter XorShift.step j.val s) = y j :=
  dim_states window_bijective y

/-- (D2) over one full period from any non-zero state, every non-zero 4-tuple occurs at exactly one position -/
theorem period (s : S4 32) (hs : s ≠ S4.zero) (y : Fin 4 → U32) (hy : ∃ j, y j ≠ 0) :
    ∃! i, i < 2 ^ 128 - 1 ∧ ∀ j : Fin 4, (XorShift.nextU32 (iter XorShift.step (i + j.val) s)).1 = y j :=
  dim_period (out := out) window_bijective C07.xorShift_zero rfl (C07.xorShift_no_repeat s hs)
    (fun t ht => C07.xorShift_single_cycle s t hs ht) y hy

/-- (D2) the all-zero 4-tuple occurs at no position of the stream -/
theorem period_zero (s : S4 32) (hs : s ≠ S4.zero) (i : Nat) :
    ∃ j : Fin 4, (XorShift.nextU32 (iter XorShift.step (i + j.val) s)).1 ≠ 0 :=
  dim_period_zero (out := out) window_bijective C07.xorShift_zero rfl (C07.xorShift_never_zero s hs) i

/-- four consecutive outputs determine the generator: they are its state -/
theorem outputs_are_state (s : S4 32) :
    iter XorShift.step 4 s = ⟨out s, out (XorShift.step s), out (iter XorShift.step 2 s), out (iter XorShift.step 3 s)⟩ := rfl

end Rngs.Extra.XorShiftDim
