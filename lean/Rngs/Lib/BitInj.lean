/-
  Rngs.Lib.BitInj — width-generic facts about the xorshift steps `x ^ (x << k)` and
  `x ^ (x >> k)` (any width `w`, any shift `k ≥ 1`):

  * both are injective (bit `i` of the argument is bit `i` of the value xor an already
    determined bit — induction upwards for `<<`, downwards for `>>`);
  * explicit inverses when three shifts leave the word (`3k ≥ w`), generalising the 64-bit
    lemmas `unxs_xs` / `xs_unxs` of `Extra/SplitMixBij` to every width and to left shifts;
  * the modular facts used next to them: `(a + b) - b = a`, `(a - b) + b = a`, `(a ^ s) ^ s = a`.

  Core Lean only.
-/
namespace Rngs.BitInj

variable {w : Nat}

/-! ## cancellation -/

theorem xor_cancel_right (a s : BitVec w) : (a ^^^ s) ^^^ s = a := by
  rw [BitVec.xor_assoc, BitVec.xor_self, BitVec.xor_zero]

theorem add_sub_cancel_right (a b : BitVec w) : (a + b) - b = a := BitVec.add_sub_cancel a b

theorem sub_add_cancel_right (a b : BitVec w) : (a - b) + b = a := BitVec.sub_add_cancel a b

theorem add_right_cancel' {a b c : BitVec w} (h : a + c = b + c) : a = b := by
  have := congrArg (· - c) h
  simpa only [add_sub_cancel_right] using this

theorem add_left_cancel' {a b c : BitVec w} (h : c + a = c + b) : a = b := by
  rw [BitVec.add_comm c a, BitVec.add_comm c b] at h
  exact add_right_cancel' h

private theorem bool_xor_cancel {a b c : Bool} (h : (a ^^ c) = (b ^^ c)) : a = b := by
  cases a <;> cases b <;> cases c <;> simp_all

/-! ## injectivity, every shift `k ≥ 1` -/

/-- `x ↦ x ^ (x << k)` is injective on `BitVec w` for every `k ≥ 1`. -/
theorem xorShl_injective (k : Nat) (hk : 0 < k) {x y : BitVec w}
    (h : x ^^^ (x <<< k) = y ^^^ (y <<< k)) : x = y := by
  have key : ∀ i, x.getLsbD i = y.getLsbD i := by
    intro i
    induction i using Nat.strongRecOn with
    | _ i ih =>
      by_cases hw : i < w
      · have hi := congrArg (fun v => v.getLsbD i) h
        simp only [BitVec.getLsbD_xor, BitVec.getLsbD_shiftLeft] at hi
        by_cases hik : i < k
        · simpa [hw, hik] using hi
        · have e := ih (i - k) (by omega)
          simp only [hw, hik, decide_true, decide_false, Bool.not_false, Bool.true_and, e] at hi
          exact bool_xor_cancel hi
      · rw [BitVec.getLsbD_of_ge _ _ (Nat.le_of_not_lt hw), BitVec.getLsbD_of_ge _ _ (Nat.le_of_not_lt hw)]
  exact BitVec.eq_of_getLsbD_eq (fun i _ => key i)

/-- `x ↦ x ^ (x >> k)` is injective on `BitVec w` for every `k ≥ 1`. -/
theorem xorShr_injective (k : Nat) (hk : 0 < k) {x y : BitVec w}
    (h : x ^^^ (x >>> k) = y ^^^ (y >>> k)) : x = y := by
  have key : ∀ n i, w ≤ i + n → x.getLsbD i = y.getLsbD i := by
    intro n
    induction n with
    | zero =>
      intro i hi
      rw [BitVec.getLsbD_of_ge _ _ (by omega), BitVec.getLsbD_of_ge _ _ (by omega)]
    | succ n ih =>
      intro i hi
      have e := ih (k + i) (by omega)
      have hb := congrArg (fun v => v.getLsbD i) h
      simp only [BitVec.getLsbD_xor, BitVec.getLsbD_ushiftRight, e] at hb
      exact bool_xor_cancel hb
  exact BitVec.eq_of_getLsbD_eq (fun i _ => key w i (by omega))

/-- `x ↦ !(x ^ (x << k))` (ISAAC-64's first step function) is injective. -/
theorem not_xorShl_injective (k : Nat) (hk : 0 < k) {x y : BitVec w}
    (h : ~~~(x ^^^ (x <<< k)) = ~~~(y ^^^ (y <<< k))) : x = y :=
  xorShl_injective k hk (BitVec.not_inj.mp h)

/-! ## explicit inverses when `3k ≥ w` (two correction terms suffice) -/

def xsr (k : Nat) (z : BitVec w) : BitVec w := z ^^^ (z >>> k)
def unxsr (k : Nat) (y : BitVec w) : BitVec w := y ^^^ (y >>> k) ^^^ (y >>> (2 * k))
def xsl (k : Nat) (z : BitVec w) : BitVec w := z ^^^ (z <<< k)
def unxsl (k : Nat) (y : BitVec w) : BitVec w := y ^^^ (y <<< k) ^^^ (y <<< (2 * k))

theorem unxsr_xsr (k : Nat) (hk : w ≤ 3 * k) (z : BitVec w) : unxsr k (xsr k z) = z := by
  unfold unxsr xsr
  apply BitVec.eq_of_getLsbD_eq
  intro i hi
  simp only [BitVec.getLsbD_xor, BitVec.getLsbD_ushiftRight]
  have h3 : z.getLsbD (k + (2 * k + i)) = false := BitVec.getLsbD_of_ge _ _ (by omega)
  have e1 : k + (k + i) = 2 * k + i := by omega
  simp only [e1, h3]
  cases z.getLsbD i <;> cases z.getLsbD (k + i) <;> cases z.getLsbD (2 * k + i) <;> rfl

theorem xsr_unxsr (k : Nat) (hk : w ≤ 3 * k) (z : BitVec w) : xsr k (unxsr k z) = z := by
  unfold unxsr xsr
  apply BitVec.eq_of_getLsbD_eq
  intro i hi
  simp only [BitVec.getLsbD_xor, BitVec.getLsbD_ushiftRight]
  have h3 : z.getLsbD (2 * k + (k + i)) = false := BitVec.getLsbD_of_ge _ _ (by omega)
  have e1 : k + (k + i) = 2 * k + i := by omega
  simp only [h3, e1]
  cases z.getLsbD i <;> cases z.getLsbD (k + i) <;> cases z.getLsbD (2 * k + i) <;> rfl

/-- bit `i` of `z <<< n`, in the form used below -/
private theorem shl_bit (z : BitVec w) (n i : Nat) (hi : i < w) :
    (z <<< n).getLsbD i = (decide (n ≤ i) && z.getLsbD (i - n)) := by
  rw [BitVec.getLsbD_shiftLeft]
  by_cases h : i < n
  · have : ¬ n ≤ i := by omega
    simp [hi, h, this]
  · have : n ≤ i := by omega
    simp [hi, h, this]

theorem unxsl_xsl (k : Nat) (hk : w ≤ 3 * k) (z : BitVec w) : unxsl k (xsl k z) = z := by
  unfold unxsl xsl
  apply BitVec.eq_of_getLsbD_eq
  intro i hi
  simp only [BitVec.getLsbD_xor, shl_bit _ _ _ hi]
  by_cases h1 : k ≤ i
  · have hik : i - k < w := by omega
    by_cases h2 : 2 * k ≤ i
    · have hi2 : i - 2 * k < w := by omega
      have h3 : ¬ k ≤ i - 2 * k := by omega
      have h4 : k ≤ i - k := by omega
      have e : i - k - k = i - 2 * k := by omega
      simp only [shl_bit _ _ _ hik, shl_bit _ _ _ hi2, h1, h2, h3, h4, e,
        decide_true, decide_false, Bool.true_and, Bool.false_and, Bool.xor_false]
      cases z.getLsbD i <;> cases z.getLsbD (i - k) <;> cases z.getLsbD (i - 2 * k) <;> rfl
    · have h4 : ¬ k ≤ i - k := by omega
      simp only [shl_bit _ _ _ hik, h1, h2, h4,
        decide_true, decide_false, Bool.true_and, Bool.false_and, Bool.xor_false]
      cases z.getLsbD i <;> cases z.getLsbD (i - k) <;> rfl
  · have h2 : ¬ 2 * k ≤ i := by omega
    simp only [h1, h2, decide_false, Bool.false_and, Bool.xor_false]

theorem xsl_unxsl (k : Nat) (hk : w ≤ 3 * k) (z : BitVec w) : xsl k (unxsl k z) = z := by
  unfold unxsl xsl
  apply BitVec.eq_of_getLsbD_eq
  intro i hi
  simp only [BitVec.getLsbD_xor, shl_bit _ _ _ hi]
  by_cases h1 : k ≤ i
  · have hik : i - k < w := by omega
    by_cases h2 : 2 * k ≤ i
    · have h3 : ¬ 2 * k ≤ i - k := by omega
      have h4 : k ≤ i - k := by omega
      have e : i - k - k = i - 2 * k := by omega
      simp only [shl_bit _ _ _ hik, h1, h2, h3, h4, e,
        decide_true, decide_false, Bool.true_and, Bool.false_and, Bool.xor_false]
      cases z.getLsbD i <;> cases z.getLsbD (i - k) <;> cases z.getLsbD (i - 2 * k) <;> rfl
    · have h3 : ¬ 2 * k ≤ i - k := by omega
      have h4 : ¬ k ≤ i - k := by omega
      simp only [shl_bit _ _ _ hik, h1, h2, h3, h4,
        decide_true, decide_false, Bool.true_and, Bool.false_and, Bool.xor_false]
      cases z.getLsbD i <;> cases z.getLsbD (i - k) <;> rfl
  · have h2 : ¬ 2 * k ≤ i := by omega
    simp only [h1, h2, decide_false, Bool.false_and, Bool.xor_false]

end Rngs.BitInj
