/-
  Rngs.Lib.BlockRefine — generic part of property C05 for the buffered generators:
  `BlockRng` refines `Spec.Stream.stepBlock32` and `BlockRng64` refines `stepBlock64`
  over the stream of generated blocks, for every `BlockCore` whose `generate` keeps the
  length of the results array.
-/
import Rngs.Lib.StreamRefine
namespace Rngs
namespace BlockRefine
open Rngs.Spec.Stream Rngs.StreamRefine

/-! ## consumed words / written bytes of `fill_via_chunks` -/

section chunks
variable {α : Type} (toLE : α → List U8) (W : Nat → α)

theorem flatMap_take_eq_wordBytes (src : List α) (q : Nat)
    (hsrc : ∀ j, j < src.length → src[j]? = some (W (q + j))) (t : Nat) (ht : t ≤ src.length) :
    (src.take t).flatMap toLE = wordBytes toLE W q t := by
  induction t with
  | zero => simp
  | succ t ih =>
    rw [List.take_add_one, List.flatMap_append, ih (by omega), hsrc t (by omega), wordBytes_succ]
    simp

/-- gluing the bytes of one loop iteration (`f` bytes out of `t` words) to the bytes of the
    remaining iterations -/
theorem take_combine (size : Nat) (hlen : ∀ x, (toLE x).length = size) (q t k' m f : Nat)
    (hf : f ≤ m) (h : f = t * size ∨ (f = m ∧ k' = 0)) :
    (wordBytes toLE W q (t + k')).take m =
      (wordBytes toLE W q t).take f ++ (wordBytes toLE W (q + t) k').take (m - f) := by
  have hwl := wordBytes_length toLE W size hlen
  rcases h with h | ⟨h, hk⟩
  · rw [wordBytes_add, List.take_append, hwl, ← h,
      List.take_of_length_le (l := wordBytes toLE W q t) (i := m) (by rw [hwl]; omega),
      List.take_of_length_le (l := wordBytes toLE W q t) (i := f) (by rw [hwl]; omega)]
  · subst hk; subst h
    simp
end chunks

/-- What one call of `fill_via_chunks` does when the source `src` (the unread part of the
    buffer) holds the stream words `W q, W (q+1), …` and `m > 0` bytes are still wanted:
    it consumes `t ≤ |src|` whole words, writes `f` bytes (`0 < f ≤ m`), the bytes are the first
    `f` little-endian bytes of those `t` words, the words still needed afterwards are
    `⌈(m-f)/size⌉`, and either all `t` words were written completely or the request is finished. -/
theorem fillViaChunks_spec {w : Nat} (size : Nat) (hsz : size = 4 ∨ size = 8)
    (toLE : BitVec w → List U8) (hlen : ∀ x, (toLE x).length = size)
    (W : Nat → BitVec w) (q : Nat) (src : List (BitVec w)) (m : Nat)
    (hm : 0 < m) (hL : 0 < src.length)
    (hsrc : ∀ j, j < src.length → src[j]? = some (W (q + j))) :
    ∀ r, fillViaChunks size toLE src m = r →
    r.1 ≤ src.length ∧ 0 < r.2.1 ∧ r.2.1 ≤ m
    ∧ r.2.2 = (wordBytes toLE W q r.1).take r.2.1
    ∧ (m + (size - 1)) / size = r.1 + (m - r.2.1 + (size - 1)) / size
    ∧ (r.2.1 = r.1 * size ∨ (r.2.1 = m ∧ m ≤ r.1 * size)) := by
  intro r hr
  have hwl : ∀ t, (wordBytes toLE W q t).length = t * size := wordBytes_length toLE W size hlen q
  unfold fillViaChunks at hr
  simp only [] at hr
  generalize hnc : min (m / size) src.length = nc at hr
  have hnc_le : nc ≤ src.length := by omega
  rw [flatMap_take_eq_wordBytes toLE W src q hsrc nc hnc_le] at hr
  cases hd : src.drop nc with
  | nil =>
    rw [hd] at hr
    have : src.length ≤ nc := List.drop_eq_nil_iff.mp hd
    have hnc' : nc = src.length := by omega
    have h4 : nc ≤ m / size := by omega
    subst hr
    dsimp only
    refine ⟨by omega, ?_, ?_, ?_, ?_, Or.inl rfl⟩
    · rcases hsz with rfl | rfl <;> omega
    · rcases hsz with rfl | rfl <;> omega
    · rw [List.take_of_length_le]; rw [hwl]; omega
    · rcases hsz with rfl | rfl <;> omega
  | cons x tl =>
    rw [hd] at hr
    have hlt : nc < src.length := by
      rcases Nat.lt_or_ge nc src.length with h | h
      · exact h
      · rw [List.drop_eq_nil_iff.mpr h] at hd; cases hd
    have hnc' : nc = m / size := by omega
    have hx : x = W (q + nc) := by
      have h1 : (src.drop nc)[0]? = some x := by rw [hd]; rfl
      rw [List.getElem?_drop, Nat.add_zero, hsrc nc hlt] at h1
      exact (Option.some.inj h1).symm
    by_cases htail : m % size > 0
    · simp only [htail, if_true] at hr
      subst hr
      dsimp only
      refine ⟨by omega, ?_, ?_, ?_, ?_, Or.inr ⟨?_, ?_⟩⟩
      · omega
      · rcases hsz with rfl | rfl <;> omega
      · have e1 : (wordBytes toLE W q nc).take (nc * size + m % size) = wordBytes toLE W q nc :=
          List.take_of_length_le (by rw [hwl]; omega)
        rw [wordBytes_succ, List.take_append, hwl, e1, hx, Nat.add_sub_cancel_left]
      · rcases hsz with rfl | rfl <;> omega
      · rcases hsz with rfl | rfl <;> omega
      · rcases hsz with rfl | rfl <;> omega
    · simp only [htail, if_false] at hr
      subst hr
      dsimp only
      refine ⟨by omega, ?_, ?_, ?_, ?_, Or.inl rfl⟩
      · rcases hsz with rfl | rfl <;> omega
      · rcases hsz with rfl | rfl <;> omega
      · rw [List.take_of_length_le]; rw [hwl]; omega
      · rcases hsz with rfl | rfl <;> omega

/-! ## the stream of generated blocks -/

section blocks
variable {σ : Type} {w : Nat} (c : BlockCore σ w) (r₀ : Array (BitVec w)) (c₀ : σ)

/-- `generate` keeps the length of the results array (`[u32; N]` in Rust) -/
def SizeOK : Prop := ∀ core res, res.size = c.len → (c.generate core res).1.size = c.len

/-- `(results, core)` after `b` calls of `generate`, starting from `(r₀, c₀)`; every call
    receives the previous results array, as in Rust -/
def blockState : Nat → Array (BitVec w) × σ
  | 0 => (r₀, c₀)
  | b + 1 => c.generate (blockState b).2 (blockState b).1

/-- block `b` = the results array after `b` refills (block 0 is the array we started with) -/
def blk (b : Nat) : Array (BitVec w) := (blockState c r₀ c₀ b).1
/-- the core after `b` refills -/
def coreAfter (b : Nat) : σ := (blockState c r₀ c₀ b).2

/-- the absolute word stream: the blocks laid end to end -/
def absStream (j : Nat) : BitVec w := rd (blk c r₀ c₀ (j / c.len)) (j % c.len)

theorem blk_size (hs : SizeOK c) (h0 : r₀.size = c.len) (b : Nat) :
    (blk c r₀ c₀ b).size = c.len := by
  induction b with
  | zero => exact h0
  | succ b ih => exact hs _ _ ih

theorem absStream_at (b i : Nat) (hi : i < c.len) :
    absStream c r₀ c₀ (b * c.len + i) = rd (blk c r₀ c₀ b) i := by
  have hN : 0 < c.len := by omega
  unfold absStream
  rw [Nat.mul_comm, Nat.mul_add_div hN, Nat.div_eq_of_lt hi, Nat.add_zero,
    Nat.mul_add_mod, Nat.mod_eq_of_lt hi]

/-- The buffered state `(res, core, index)` sits at absolute stream position `q`:
    it is the state after `b` refills and `q = b·N + index`. -/
def At (res : Array (BitVec w)) (core : σ) (index q : Nat) : Prop :=
  ∃ b, res = blk c r₀ c₀ b ∧ core = coreAfter c r₀ c₀ b ∧ index ≤ c.len ∧ q = b * c.len + index

variable {c r₀ c₀}

theorem At.start (h : i ≤ c.len) : At c r₀ c₀ r₀ c₀ i i :=
  ⟨0, rfl, rfl, h, by simp⟩

theorem At.size (hs : SizeOK c) (h0 : r₀.size = c.len) {res core i q}
    (h : At c r₀ c₀ res core i q) : res.size = c.len := by
  obtain ⟨b, rfl, -, -, -⟩ := h
  exact blk_size c r₀ c₀ hs h0 b

theorem At.le {res core i q} (h : At c r₀ c₀ res core i q) : i ≤ c.len := by
  obtain ⟨b, -, -, h, -⟩ := h; exact h

/-- refilling an exhausted buffer does not move the stream position -/
theorem At.refill {res core i q} (h : At c r₀ c₀ res core i q) (hi : i ≥ c.len) :
    At c r₀ c₀ (c.generate core res).1 (c.generate core res).2 0 q := by
  obtain ⟨b, rfl, rfl, hle, rfl⟩ := h
  refine ⟨b + 1, rfl, rfl, Nat.zero_le _, ?_⟩
  have : i = c.len := by omega
  subst this
  rw [Nat.succ_mul]; rfl

theorem At.advance {res core i q} (h : At c r₀ c₀ res core i q) (t : Nat) (ht : i + t ≤ c.len) :
    At c r₀ c₀ res core (i + t) (q + t) := by
  obtain ⟨b, rfl, rfl, hle, rfl⟩ := h
  exact ⟨b, rfl, rfl, ht, by omega⟩

theorem At.read {res core i q} (h : At c r₀ c₀ res core i q) (j : Nat) (hj : i + j < c.len) :
    rd res (i + j) = absStream c r₀ c₀ (q + j) := by
  obtain ⟨b, rfl, rfl, hle, rfl⟩ := h
  rw [Nat.add_assoc, absStream_at c r₀ c₀ b (i + j) hj]

theorem At.read0 {res core i q} (h : At c r₀ c₀ res core i q) (hj : i < c.len) :
    rd res i = absStream c r₀ c₀ q := h.read 0 hj

theorem At.readPrev {res core i q} (h : At c r₀ c₀ res core i q) (hi : 1 ≤ i) :
    rd res (i - 1) = absStream c r₀ c₀ (q - 1) := by
  obtain ⟨b, rfl, rfl, hle, rfl⟩ := h
  rw [show b * c.len + i - 1 = b * c.len + (i - 1) by omega,
    absStream_at c r₀ c₀ b (i - 1) (by omega)]

/-- the unread part of the buffer, as a list, holds the stream words from `q` on -/
theorem At.src (hs : SizeOK c) (h0 : r₀.size = c.len) {res core i q}
    (h : At c r₀ c₀ res core i q) :
    (res.toList.drop i).length = c.len - i ∧
    ∀ j, j < (res.toList.drop i).length →
      (res.toList.drop i)[j]? = some (absStream c r₀ c₀ (q + j)) := by
  have hsz := h.size hs h0
  have hlen : (res.toList.drop i).length = c.len - i := by simp [hsz]
  refine ⟨hlen, fun j hj => ?_⟩
  rw [hlen] at hj
  rw [← h.read j (by omega), List.getElem?_drop]
  have : i + j < res.size := by omega
  simp [rd, this]

end blocks

/-! ## `BlockRng` (32-bit words) -/

section block32
variable {σ : Type} (c : BlockCore σ 32) (r₀ : Array U32) (c₀ : σ)

/-- the three `RngCore` calls of `BlockRng` -/
def opBlock32 (st : BlockRng σ) : Op → Out × BlockRng σ
  | .u32 => (.w32 (BlockRng.nextU32 c st).1, (BlockRng.nextU32 c st).2)
  | .u64 => (.w64 (BlockRng.nextU64 c st).1, (BlockRng.nextU64 c st).2)
  | .fill n => (.bytes (BlockRng.fillBytes c n st).1, (BlockRng.fillBytes c n st).2)

/-- `At` for a `BlockRng` state -/
def At32 (st : BlockRng σ) (q : Nat) : Prop := At c r₀ c₀ st.results st.core st.index q

variable {c r₀ c₀}

theorem nextU32_spec (hN : 0 < c.len) {st : BlockRng σ} {q : Nat} (h : At32 c r₀ c₀ st q) :
    (BlockRng.nextU32 c st).1 = absStream c r₀ c₀ q
    ∧ At32 c r₀ c₀ (BlockRng.nextU32 c st).2 (q + 1) := by
  unfold At32 at *
  unfold BlockRng.nextU32
  by_cases hi : st.index ≥ c.len
  · have h1 := h.refill hi
    simp only [hi, if_true, BlockRng.generateAndSet]
    exact ⟨h1.read0 hN, h1.advance 1 (by omega)⟩
  · simp only [hi, if_false]
    exact ⟨h.read0 (by omega), h.advance 1 (by omega)⟩

theorem nextU64_spec (hN : 2 ≤ c.len) {st : BlockRng σ} {q : Nat} (h : At32 c r₀ c₀ st q) :
    (BlockRng.nextU64 c st).1 = join (absStream c r₀ c₀ q) (absStream c r₀ c₀ (q + 1))
    ∧ At32 c r₀ c₀ (BlockRng.nextU64 c st).2 (q + 2) := by
  unfold At32 at *
  unfold BlockRng.nextU64
  by_cases h1 : st.index < c.len - 1
  · -- both words are in the buffer
    simp only [h1, if_true, BlockRng.readU64]
    have e0 := h.read0 (by omega)
    have e1 := h.read 1 (by omega)
    exact ⟨by rw [e0, e1]; rfl, h.advance 2 (by omega)⟩
  · by_cases h2 : st.index ≥ c.len
    · -- the buffer is exhausted
      have g := h.refill h2
      simp only [h1, h2, if_true, if_false, BlockRng.generateAndSet, BlockRng.readU64]
      have e0 := g.read0 (by omega)
      have e1 := g.read 1 (by omega)
      rw [Nat.zero_add] at e1
      exact ⟨by rw [e0, e1]; rfl, g.advance 2 (by omega)⟩
    · -- one word left: the call straddles the refill
      have hidx : st.index = c.len - 1 := by omega
      have e0 := h.read0 (by omega)
      have h' := h.advance 1 (by omega)
      have g := h'.refill (by omega)
      have e1 := g.read0 (by omega)
      simp only [h1, h2, if_false, BlockRng.generateAndSet]
      rw [← hidx, e0, e1]
      exact ⟨rfl, g.advance 1 (by omega)⟩

theorem fillLoop_spec (hs : SizeOK c) (h0 : r₀.size = c.len) (hN : 0 < c.len) (n : Nat) :
    ∀ (fuel readLen : Nat) (acc : List U8) (st : BlockRng σ) (q : Nat),
      At32 c r₀ c₀ st q → readLen ≤ n → n - readLen ≤ fuel →
      (BlockRng.fillLoop c n fuel readLen acc st).1
          = acc ++ (wordBytes U32.toLE (absStream c r₀ c₀) q ((n - readLen + 3) / 4)).take (n - readLen)
      ∧ At32 c r₀ c₀ (BlockRng.fillLoop c n fuel readLen acc st).2 (q + (n - readLen + 3) / 4) := by
  intro fuel
  induction fuel with
  | zero =>
    intro readLen acc st q h hle hfuel
    have : n - readLen = 0 := by omega
    simp [BlockRng.fillLoop, this, h]
  | succ fuel ih =>
    intro readLen acc st q h hle hfuel
    unfold BlockRng.fillLoop
    by_cases hlt : readLen < n
    · simp only [hlt, if_true]
      -- the buffer after the optional refill
      generalize hst1 : (if st.index ≥ c.len then st.generateAndSet c 0 else st) = st1
      have h1 : At32 c r₀ c₀ st1 q ∧ st1.index < c.len := by
        subst hst1
        unfold At32 at *
        by_cases hi : st.index ≥ c.len
        · simp only [hi, if_true, BlockRng.generateAndSet]
          exact ⟨h.refill hi, hN⟩
        · simp only [hi, if_false]
          exact ⟨h, by omega⟩
      obtain ⟨h1, hidx⟩ := h1
      unfold At32 at h1
      obtain ⟨hsl, hsrc⟩ := h1.src hs h0
      generalize hfv : fillViaChunks 4 U32.toLE (st1.results.toList.drop st1.index) (n - readLen) = r
      obtain ⟨ht, hf0, hfm, hbytes, hk, hcase⟩ :=
        fillViaChunks_spec 4 (Or.inl rfl) U32.toLE (fun _ => rfl) (absStream c r₀ c₀) q
          (st1.results.toList.drop st1.index) (n - readLen) (by omega) (by omega) hsrc r hfv
      obtain ⟨t, f, bytes⟩ := r
      dsimp only at ht hf0 hfm hbytes hk hcase ⊢
      have h2 : At32 c r₀ c₀ { st1 with index := st1.index + t } (q + t) :=
        h1.advance t (by omega)
      obtain ⟨ihb, ihs⟩ := ih (readLen + f) (acc ++ bytes) _ (q + t) h2 (by omega) (by omega)
      have e : n - (readLen + f) = n - readLen - f := by omega
      rw [e] at ihb ihs
      have hk' : (n - readLen + 3) / 4 = t + (n - readLen - f + 3) / 4 := hk
      rw [ihb, hk', ← Nat.add_assoc]
      refine ⟨?_, ihs⟩
      rw [List.append_assoc, hbytes]
      congr 1
      refine (take_combine U32.toLE (absStream c r₀ c₀) 4 (fun _ => rfl) q t _ _ f hfm ?_).symm
      rcases hcase with hc | ⟨hc, _⟩
      · exact Or.inl hc
      · refine Or.inr ⟨hc, ?_⟩
        rw [hc]; simp
    · have : n - readLen = 0 := by omega
      simp [hlt, this, h]

theorem fillBytes_spec (hs : SizeOK c) (h0 : r₀.size = c.len) (hN : 0 < c.len) (n : Nat)
    {st : BlockRng σ} {q : Nat} (h : At32 c r₀ c₀ st q) :
    (BlockRng.fillBytes c n st).1
        = (wordBytes U32.toLE (absStream c r₀ c₀) q ((n + 3) / 4)).take n
    ∧ At32 c r₀ c₀ (BlockRng.fillBytes c n st).2 (q + (n + 3) / 4) := by
  have := fillLoop_spec hs h0 hN n (n + 1) 0 [] st q h (Nat.zero_le _) (by omega)
  simpa [BlockRng.fillBytes] using this

/-- the simulation relation between a `BlockRng` state and a cursor of the abstract machine
    whose stream is `absStream` shifted by `off` -/
def Rel32 (c : BlockCore σ 32) (r₀ : Array U32) (c₀ : σ) (off : Nat)
    (st : BlockRng σ) (cur : Cursor) : Prop :=
  At32 c r₀ c₀ st (off + cur.pos) ∧ cur.pending = false

theorem wordBytes_shift {α : Type} (toLE : α → List U8) (W : Nat → α) (off p k : Nat) :
    wordBytes toLE (fun j => W (off + j)) p k = wordBytes toLE W (off + p) k := by
  simp [wordBytes, Nat.add_assoc]

theorem step32_sim (hs : SizeOK c) (h0 : r₀.size = c.len) (hN : 2 ≤ c.len) (off : Nat)
    (st : BlockRng σ) (cur : Cursor) (op : Op) (h : Rel32 c r₀ c₀ off st cur) :
    (opBlock32 c st op).1 = (stepBlock32 (fun k => absStream c r₀ c₀ (off + k)) cur op).1
    ∧ Rel32 c r₀ c₀ off (opBlock32 c st op).2
        (stepBlock32 (fun k => absStream c r₀ c₀ (off + k)) cur op).2 := by
  obtain ⟨h, -⟩ := h
  cases op with
  | u32 =>
    obtain ⟨e, h'⟩ := nextU32_spec (by omega) h
    exact ⟨by simp only [opBlock32, stepBlock32, e], by simpa [Rel32, opBlock32, stepBlock32, Nat.add_assoc] using h'⟩
  | u64 =>
    obtain ⟨e, h'⟩ := nextU64_spec hN h
    exact ⟨by simp only [opBlock32, stepBlock32, e, Nat.add_assoc],
      by simpa [Rel32, opBlock32, stepBlock32, Nat.add_assoc] using h'⟩
  | fill n =>
    obtain ⟨e, h'⟩ := fillBytes_spec hs h0 (by omega) n h
    exact ⟨by simp only [opBlock32, stepBlock32, e, wordBytes_shift],
      by simpa [Rel32, opBlock32, stepBlock32, Nat.add_assoc] using h'⟩

/-- **Generic C05 for `BlockRng`.**  From any related pair (state, cursor), every history
    gives the outputs of `stepBlock32` over the block stream and ends in a related pair. -/
theorem block32_refines (hs : SizeOK c) (h0 : r₀.size = c.len) (hN : 2 ≤ c.len) (off : Nat)
    (ops : List Op) (st : BlockRng σ) (cur : Cursor) (h : Rel32 c r₀ c₀ off st cur) :
    (run (opBlock32 c) st ops).1
        = (run (stepBlock32 (fun k => absStream c r₀ c₀ (off + k))) cur ops).1
    ∧ Rel32 c r₀ c₀ off (run (opBlock32 c) st ops).2
        (run (stepBlock32 (fun k => absStream c r₀ c₀ (off + k))) cur ops).2 :=
  run_sim (Rel32 c r₀ c₀ off) (opBlock32 c) _
    (fun st cur op h => step32_sim hs h0 hN off st cur op h) ops st cur h

end block32

/-! ## `BlockRng64` (64-bit words, `half_used`) -/

section block64
variable {σ : Type} (c : BlockCore σ 64) (r₀ : Array U64) (c₀ : σ)

/-- the three `RngCore` calls of `BlockRng64` -/
def opBlock64 (st : BlockRng64 σ) : Op → Out × BlockRng64 σ
  | .u32 => (.w32 (BlockRng64.nextU32 c st).1, (BlockRng64.nextU32 c st).2)
  | .u64 => (.w64 (BlockRng64.nextU64 c st).1, (BlockRng64.nextU64 c st).2)
  | .fill n => (.bytes (BlockRng64.fillBytes c n st).1, (BlockRng64.fillBytes c n st).2)

def At64 (st : BlockRng64 σ) (q : Nat) : Prop := At c r₀ c₀ st.results st.core st.index q

/-- simulation relation: position as for `BlockRng`; `half_used` is the cursor's `pending`,
    and while a half is pending the word it belongs to is still in the buffer -/
def Rel64 (off : Nat) (st : BlockRng64 σ) (cur : Cursor) : Prop :=
  At64 c r₀ c₀ st (off + cur.pos) ∧ st.halfUsed = cur.pending
  ∧ (cur.pending = true → 1 ≤ st.index ∧ 1 ≤ cur.pos)

variable {c r₀ c₀}

theorem lowHalf_eq (x : U64) : (x >>> (32 * false.toNat)).setWidth 32 = lowHalf x := by
  simp [lowHalf]

theorem highHalf_eq (x : U64) : (x >>> (32 * true.toNat)).setWidth 32 = highHalf x := by
  simp [highHalf]

/-- `next_u32` when the high half of the previous word is pending -/
theorem nextU32_pending (st : BlockRng64 σ) (q : Nat) (h : At64 c r₀ c₀ st q)
    (hh : st.halfUsed = true) (hi : 1 ≤ st.index) :
    (BlockRng64.nextU32 c st).1 = highHalf (absStream c r₀ c₀ (q - 1))
    ∧ At64 c r₀ c₀ (BlockRng64.nextU32 c st).2 q
    ∧ (BlockRng64.nextU32 c st).2.halfUsed = false := by
  unfold At64 at *
  have hle := h.le
  have hlt : ¬ (st.index - 1 ≥ c.len) := by omega
  unfold BlockRng64.nextU32
  simp only [hh, Bool.toNat_true, hlt, if_false, Bool.not_true, Bool.toNat_false, Nat.add_zero]
  refine ⟨?_, h, trivial⟩
  rw [h.readPrev hi]
  exact highHalf_eq _

/-- `next_u32` when nothing is pending -/
theorem nextU32_fresh (hN : 0 < c.len) (st : BlockRng64 σ) (q : Nat) (h : At64 c r₀ c₀ st q)
    (hh : st.halfUsed = false) :
    (BlockRng64.nextU32 c st).1 = lowHalf (absStream c r₀ c₀ q)
    ∧ At64 c r₀ c₀ (BlockRng64.nextU32 c st).2 (q + 1)
    ∧ (BlockRng64.nextU32 c st).2.halfUsed = true
    ∧ 1 ≤ (BlockRng64.nextU32 c st).2.index := by
  unfold At64 at *
  unfold BlockRng64.nextU32
  by_cases hi : st.index ≥ c.len
  · have g := h.refill hi
    simp only [hh, Bool.toNat_false, Nat.sub_zero, hi, if_true, Bool.not_false, Bool.toNat_true]
    refine ⟨?_, g.advance 1 (by omega), trivial, Nat.le_refl _⟩
    rw [g.read0 hN]
    exact lowHalf_eq _
  · simp only [hh, Bool.toNat_false, Nat.sub_zero, hi, if_false, Bool.not_false, Bool.toNat_true]
    refine ⟨?_, h.advance 1 (by omega), trivial, by omega⟩
    rw [h.read0 (by omega)]
    exact lowHalf_eq _

theorem nextU64_spec64 (hN : 0 < c.len) (st : BlockRng64 σ) (q : Nat) (h : At64 c r₀ c₀ st q) :
    (BlockRng64.nextU64 c st).1 = absStream c r₀ c₀ q
    ∧ At64 c r₀ c₀ (BlockRng64.nextU64 c st).2 (q + 1)
    ∧ (BlockRng64.nextU64 c st).2.halfUsed = false := by
  unfold At64 at *
  unfold BlockRng64.nextU64
  by_cases hi : st.index ≥ c.len
  · have g := h.refill hi
    simp only [hi, if_true]
    exact ⟨g.read0 hN, g.advance 1 (by omega), trivial⟩
  · simp only [hi, if_false]
    exact ⟨h.read0 (by omega), h.advance 1 (by omega), trivial⟩

theorem fillLoop_halfUsed (n : Nat) :
    ∀ (fuel readLen : Nat) (acc : List U8) (st : BlockRng64 σ),
      (BlockRng64.fillLoop c n fuel readLen acc st).2.halfUsed = st.halfUsed := by
  intro fuel
  induction fuel with
  | zero => intros; rfl
  | succ fuel ih =>
    intro readLen acc st
    unfold BlockRng64.fillLoop
    by_cases hlt : readLen < n
    · simp only [hlt, if_true]
      rw [ih]
      by_cases hi : st.index ≥ c.len <;> simp [hi]
    · simp [hlt]

theorem fillLoop_spec64 (hs : SizeOK c) (h0 : r₀.size = c.len) (hN : 0 < c.len) (n : Nat) :
    ∀ (fuel readLen : Nat) (acc : List U8) (st : BlockRng64 σ) (q : Nat),
      At64 c r₀ c₀ st q → readLen ≤ n → n - readLen ≤ fuel →
      (BlockRng64.fillLoop c n fuel readLen acc st).1
          = acc ++ (wordBytes U64.toLE (absStream c r₀ c₀) q ((n - readLen + 7) / 8)).take (n - readLen)
      ∧ At64 c r₀ c₀ (BlockRng64.fillLoop c n fuel readLen acc st).2 (q + (n - readLen + 7) / 8) := by
  intro fuel
  induction fuel with
  | zero =>
    intro readLen acc st q h hle hfuel
    have : n - readLen = 0 := by omega
    simp [BlockRng64.fillLoop, this, h]
  | succ fuel ih =>
    intro readLen acc st q h hle hfuel
    unfold BlockRng64.fillLoop
    by_cases hlt : readLen < n
    · simp only [hlt, if_true]
      generalize hst1 : (if st.index ≥ c.len then
          ({ st with results := (c.generate st.core st.results).1,
                     core := (c.generate st.core st.results).2, index := 0 } : BlockRng64 σ)
        else st) = st1
      have h1 : At64 c r₀ c₀ st1 q ∧ st1.index < c.len := by
        subst hst1
        unfold At64 at *
        by_cases hi : st.index ≥ c.len
        · simp only [hi, if_true]
          exact ⟨h.refill hi, hN⟩
        · simp only [hi, if_false]
          exact ⟨h, by omega⟩
      obtain ⟨h1, hidx⟩ := h1
      unfold At64 at h1
      obtain ⟨hsl, hsrc⟩ := h1.src hs h0
      generalize hfv : fillViaChunks 8 U64.toLE (st1.results.toList.drop st1.index) (n - readLen) = r
      obtain ⟨ht, hf0, hfm, hbytes, hk, hcase⟩ :=
        fillViaChunks_spec 8 (Or.inr rfl) U64.toLE (fun _ => rfl) (absStream c r₀ c₀) q
          (st1.results.toList.drop st1.index) (n - readLen) (by omega) (by omega) hsrc r hfv
      obtain ⟨t, f, bytes⟩ := r
      dsimp only at ht hf0 hfm hbytes hk hcase ⊢
      have h2 : At64 c r₀ c₀ { st1 with index := st1.index + t } (q + t) :=
        h1.advance t (by omega)
      obtain ⟨ihb, ihs⟩ := ih (readLen + f) (acc ++ bytes) _ (q + t) h2 (by omega) (by omega)
      have e : n - (readLen + f) = n - readLen - f := by omega
      rw [e] at ihb ihs
      have hk' : (n - readLen + 7) / 8 = t + (n - readLen - f + 7) / 8 := hk
      rw [ihb, hk', ← Nat.add_assoc]
      refine ⟨?_, ihs⟩
      rw [List.append_assoc, hbytes]
      congr 1
      refine (take_combine U64.toLE (absStream c r₀ c₀) 8 (fun _ => rfl) q t _ _ f hfm ?_).symm
      rcases hcase with hc | ⟨hc, _⟩
      · exact Or.inl hc
      · refine Or.inr ⟨hc, ?_⟩
        rw [hc]; simp
    · have : n - readLen = 0 := by omega
      simp [hlt, this, h]

theorem fillBytes_spec64 (hs : SizeOK c) (h0 : r₀.size = c.len) (hN : 0 < c.len) (n : Nat)
    (st : BlockRng64 σ) (q : Nat) (h : At64 c r₀ c₀ st q) :
    (BlockRng64.fillBytes c n st).1
        = (wordBytes U64.toLE (absStream c r₀ c₀) q ((n + 7) / 8)).take n
    ∧ At64 c r₀ c₀ (BlockRng64.fillBytes c n st).2 (q + (n + 7) / 8)
    ∧ (BlockRng64.fillBytes c n st).2.halfUsed = false := by
  have h' : At64 c r₀ c₀ { st with halfUsed := false } q := h
  have := fillLoop_spec64 hs h0 hN n (n + 1) 0 [] _ q h' (Nat.zero_le _) (by omega)
  refine ⟨by simpa [BlockRng64.fillBytes] using this.1,
    by simpa [BlockRng64.fillBytes] using this.2, ?_⟩
  unfold BlockRng64.fillBytes
  rw [fillLoop_halfUsed]

theorem step64_sim (hs : SizeOK c) (h0 : r₀.size = c.len) (hN : 0 < c.len) (off : Nat)
    (st : BlockRng64 σ) (cur : Cursor) (op : Op) (h : Rel64 c r₀ c₀ off st cur) :
    (opBlock64 c st op).1 = (stepBlock64 (fun k => absStream c r₀ c₀ (off + k)) cur op).1
    ∧ Rel64 c r₀ c₀ off (opBlock64 c st op).2
        (stepBlock64 (fun k => absStream c r₀ c₀ (off + k)) cur op).2 := by
  obtain ⟨h, hhalf, hpend⟩ := h
  cases op with
  | u32 =>
    by_cases hp : cur.pending = true
    · obtain ⟨hi, hpos⟩ := hpend hp
      obtain ⟨e, h', hh'⟩ := nextU32_pending st _ h (hhalf.trans hp) hi
      have e2 : off + cur.pos - 1 = off + (cur.pos - 1) := by omega
      simp only [opBlock64, stepBlock64, hp, if_true, e, e2]
      exact ⟨trivial, h', hh', fun hf => by cases hf⟩
    · have hp' : cur.pending = false := by simpa using hp
      obtain ⟨e, h', hh', hi'⟩ := nextU32_fresh hN st _ h (hhalf.trans hp')
      simp only [opBlock64, stepBlock64, hp', e]
      refine ⟨by simp, ?_, hh', fun _ => ⟨hi', Nat.le_add_left _ _⟩⟩
      simpa [Nat.add_assoc] using h'
  | u64 =>
    obtain ⟨e, h', hh'⟩ := nextU64_spec64 hN st _ h
    simp only [opBlock64, stepBlock64, e]
    refine ⟨trivial, ?_, hh', fun hf => by cases hf⟩
    simpa [Nat.add_assoc] using h'
  | fill n =>
    obtain ⟨e, h', hh'⟩ := fillBytes_spec64 hs h0 hN n st _ h
    simp only [opBlock64, stepBlock64, e, wordBytes_shift]
    refine ⟨trivial, ?_, hh', fun hf => by cases hf⟩
    simpa [Nat.add_assoc] using h'

/-- **Generic C05 for `BlockRng64`.** -/
theorem block64_refines (hs : SizeOK c) (h0 : r₀.size = c.len) (hN : 0 < c.len) (off : Nat)
    (ops : List Op) (st : BlockRng64 σ) (cur : Cursor) (h : Rel64 c r₀ c₀ off st cur) :
    (run (opBlock64 c) st ops).1
        = (run (stepBlock64 (fun k => absStream c r₀ c₀ (off + k))) cur ops).1
    ∧ Rel64 c r₀ c₀ off (run (opBlock64 c) st ops).2
        (run (stepBlock64 (fun k => absStream c r₀ c₀ (off + k))) cur ops).2 :=
  run_sim (Rel64 c r₀ c₀ off) (opBlock64 c) _
    (fun st cur op h => step64_sim hs h0 hN off st cur op h) ops st cur h

end block64

end BlockRefine
end Rngs
