/-
  Rngs.Lib.BlockRefineInst — the size facts about the three concrete `generate` functions
  that `Rngs.Lib.BlockRefine` takes as hypotheses (`SizeOK`): HC-128, ISAAC, ISAAC-64 write
  into the results array they are given and never change its length.
-/
import Rngs.Lib.BlockRefine
import Rngs.Model.Hc128
import Rngs.Model.Isaac
namespace Rngs
namespace BlockRefine

theorem foldl_inv {α β : Type} (P : β → Prop) (f : β → α → β) (l : List α) (init : β)
    (h0 : P init) (hstep : ∀ b a, P b → P (f b a)) : P (l.foldl f init) := by
  induction l generalizing init with
  | nil => exact h0
  | cons a l ih => exact ih _ (hstep _ _ h0)

theorem wr_size {α : Type} (a : Array α) (i : Nat) (v : α) : (wr a i v).size = a.size := by
  simp [wr]

/-! ### HC-128 -/

theorem hc128_generate_size (core : Hc128.Core) (res : Array U32) :
    (Hc128.generate core res).1.size = res.size := by
  unfold Hc128.generate
  dsimp only
  generalize hF : (fun (acc : Array U32 × Array U32 × Nat) row => _) = F
  have key : (Hc128.TABLE.foldl F (core.t, res, 0)).2.1.size = res.size := by
    apply foldl_inv (fun acc : Array U32 × Array U32 × Nat => acc.2.1.size = res.size)
    · rfl
    · rintro ⟨t, r, k⟩ ⟨r0, r1, r2, r3, r4⟩ h
      subst hF
      dsimp only at h ⊢
      split <;> simp [wr_size, h]
  generalize Hc128.TABLE.foldl F (core.t, res, 0) = y at key
  obtain ⟨a, b, d⟩ := y
  exact key

theorem hc128_sizeOK : SizeOK Hc128.blockCore := by
  intro core res h
  exact (hc128_generate_size core res).trans h

/-! ### ISAAC (both widths) -/

section isaac
variable {w : Nat} (p : Isaac.Params w)

theorem rngstep_size (st : Isaac.GenSt w) (mix : BitVec w) (base m m2 : Nat) :
    (Isaac.rngstep p st mix base m m2).results.size = st.results.size := by
  simp [Isaac.rngstep, wr_size]

theorem halfLoop_size (st : Isaac.GenSt w) (m m2 : Nat) :
    (Isaac.halfLoop p st m m2).results.size = st.results.size := by
  unfold Isaac.halfLoop
  apply foldl_inv (fun s : Isaac.GenSt w => s.results.size = st.results.size)
  · rfl
  · intro s j h
    simp only [rngstep_size, h]

theorem isaac_generate_size (core : Isaac.Core w) (res : Array (BitVec w)) :
    (Isaac.generate p core res).1.size = res.size := by
  simp only [Isaac.generate, halfLoop_size]

end isaac

theorem isaac32_sizeOK : SizeOK Isaac.blockCore32 := by
  intro core res h
  exact (isaac_generate_size Isaac.params32 core res).trans h

theorem isaac64_sizeOK : SizeOK Isaac.blockCore64 := by
  intro core res h
  exact (isaac_generate_size Isaac.params64 core res).trans h

end BlockRefine
end Rngs
