/-
  Rngs.Lib.CheckedLemmas — general lemmas for the C14 proofs: every checked primitive
  reduces to `.ok` of the total operation when its bound holds; loops (`foldlM`, `mapM`)
  of checked steps equal `.ok` of the total loop when every step does.
-/
import Rngs.Checked.Basic
namespace Rngs
namespace Checked

variable {ε α β : Type}

@[simp] theorem ok_bind (a : α) (f : α → Except ε β) : (Except.ok a >>= f) = f a := rfl
@[simp] theorem pure_eq_ok (a : α) : (pure a : Except ε α) = .ok a := rfl
@[simp] theorem map_ok (f : α → β) (a : α) : (f <$> (Except.ok a : Except ε α)) = .ok (f a) := rfl

/-! ## primitives -/

theorem rdC_ok [Inhabited α] {a : Array α} {i : Nat} (h : i < a.size) : rdC a i = .ok (rd a i) := by
  simp [rdC, h]
theorem wrC_ok {a : Array α} {i : Nat} (v : α) (h : i < a.size) : wrC a i v = .ok (wr a i v) := by
  simp [wrC, h]
theorem rdSubC_ok [Inhabited α] {a : Array α} {off len i : Nat} (h : i < len) (h2 : off + i < a.size) :
    rdSubC a off len i = .ok (rd a (off + i)) := by
  simp [rdSubC, h, rdC_ok h2]
theorem wrSubC_ok {a : Array α} {off len i : Nat} (v : α) (h : i < len) (h2 : off + i < a.size) :
    wrSubC a off len i v = .ok (wr a (off + i) v) := by
  simp [wrSubC, h, wrC_ok v h2]
theorem lrdC_ok [Inhabited α] {l : List α} {i : Nat} (h : i < l.length) :
    lrdC l i = .ok (l.getD i default) := by
  simp [lrdC, h]

theorem idxC_ok {len i : Nat} (h : i < len) : idxC len i = .ok () := by
  simp [idxC, h]

theorem sliceFromC_ok {len lo : Nat} (h : lo ≤ len) : sliceFromC len lo = .ok () := by
  simp [sliceFromC, h]
theorem sliceToC_ok {len hi : Nat} (h : hi ≤ len) : sliceToC len hi = .ok () := by
  simp [sliceToC, h]
theorem sliceC_ok {len lo hi : Nat} (h : lo ≤ hi) (h2 : hi ≤ len) : sliceC len lo hi = .ok () := by
  simp [sliceC, h, h2]
theorem sliceInclC_ok {len lo hi : Nat} (h : lo ≤ hi + 1) (h2 : hi < len) :
    sliceInclC len lo hi = .ok () := by
  simp [sliceInclC, h, h2]
theorem splitAtC_ok {len mid : Nat} (h : mid ≤ len) : splitAtC len mid = .ok () := by
  simp [splitAtC, h]
theorem copyLenC_ok {a b : Nat} (h : a = b) : copyLenC a b = .ok () := by
  simp [copyLenC, h]
theorem chunksExactC_ok {n : Nat} (h : n ≠ 0) : chunksExactC n = .ok () := by
  simp [chunksExactC, h]

theorem addB_ok {bound a b : Nat} (h : a + b < bound) : addB bound a b = .ok (a + b) := by
  simp [addB, h]
theorem mulB_ok {bound a b : Nat} (h : a * b < bound) : mulB bound a b = .ok (a * b) := by
  simp [mulB, h]
theorem addC_ok {a b : Nat} (h : a + b < USIZE) : addC a b = .ok (a + b) := addB_ok h
theorem mulC_ok {a b : Nat} (h : a * b < USIZE) : mulC a b = .ok (a * b) := mulB_ok h
theorem add32C_ok {a b : Nat} (h : a + b < U32MAX1) : add32C a b = .ok (a + b) := addB_ok h
theorem subC_ok {a b : Nat} (h : b ≤ a) : subC a b = .ok (a - b) := by
  simp [subC, h]
theorem divC_ok {a b : Nat} (h : b ≠ 0) : divC a b = .ok (a / b) := by
  simp [divC, h]
theorem modC_ok {a b : Nat} (h : b ≠ 0) : modC a b = .ok (a % b) := by
  simp [modC, h]
theorem shiftAmtC_ok {w k : Nat} (h : k < w) : shiftAmtC w k = .ok () := by
  simp [shiftAmtC, h]
theorem assertC_ok {b : Bool} (h : b = true) : assertC b = .ok () := by
  simp [assertC, h]

/-! ## sizes -/

@[simp] theorem size_wr (a : Array α) (i : Nat) (v : α) : (wr a i v).size = a.size := by
  simp [wr]

/-! ## loops -/

/-- a `foldlM` of checked steps is `.ok` of the `foldl` of the total steps, given an
    invariant `I pos acc` (indexed by the number of elements processed) under which every
    checked step succeeds with the total step's value -/
theorem foldlM_ok_idx {γ : Type} (I : Nat → β → Prop) (f : β → γ → β) (fC : β → γ → Except ε β)
    (l : List γ) :
    ∀ (k : Nat) (init : β), I k init →
    (∀ (i : Nat) (hi : i < l.length) (b : β), I (k + i) b →
        fC b l[i] = .ok (f b l[i]) ∧ I (k + i + 1) (f b l[i])) →
    l.foldlM fC init = .ok (l.foldl f init) ∧ I (k + l.length) (l.foldl f init) := by
  induction l with
  | nil => intro k init h0 _; exact ⟨rfl, by simpa using h0⟩
  | cons x xs ih =>
    intro k init h0 hstep
    have h1 := hstep 0 (by simp) init (by simpa using h0)
    simp only [List.getElem_cons_zero, Nat.add_zero] at h1
    have h2 := ih (k + 1) (f init x) h1.2 (by
      intro i hi b hb
      have := hstep (i + 1) (by simp; omega) b (by rw [← Nat.add_assoc, Nat.add_right_comm]; exact hb)
      simp only [List.getElem_cons_succ] at this
      refine ⟨this.1, ?_⟩
      have h3 := this.2
      rw [← Nat.add_assoc, Nat.add_right_comm k i 1] at h3
      exact h3)
    refine ⟨?_, ?_⟩
    · rw [List.foldlM_cons, h1.1, ok_bind, h2.1, List.foldl_cons]
    · have := h2.2
      rw [List.foldl_cons, List.length_cons]
      rw [Nat.add_assoc, Nat.add_comm 1] at this
      exact this

/-- position-independent invariant -/
theorem foldlM_ok {γ : Type} (I : β → Prop) (f : β → γ → β) (fC : β → γ → Except ε β)
    (l : List γ) (init : β) (h0 : I init)
    (hstep : ∀ (x : γ), x ∈ l → ∀ (b : β), I b → fC b x = .ok (f b x) ∧ I (f b x)) :
    l.foldlM fC init = .ok (l.foldl f init) ∧ I (l.foldl f init) := by
  have := foldlM_ok_idx (fun _ b => I b) f fC l 0 init h0
    (fun i hi b hb => hstep l[i] (List.getElem_mem hi) b hb)
  exact this

theorem mapM_ok {γ : Type} (f : γ → β) (fC : γ → Except ε β) (l : List γ)
    (h : ∀ x, x ∈ l → fC x = .ok (f x)) : l.mapM fC = .ok (l.map f) := by
  induction l with
  | nil => rfl
  | cons x xs ih =>
    rw [List.mapM_cons, h x (by simp), ok_bind, ih (fun y hy => h y (by simp [hy])), ok_bind]
    rfl

end Checked
end Rngs
