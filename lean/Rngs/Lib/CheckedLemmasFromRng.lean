/-
  Rngs.Lib.CheckedLemmasFromRng — seeding from any source RNG never panics.
-/
import Rngs.Lib.CheckedLemmasHc128
import Rngs.Lib.CheckedLemmasIsaac
import Rngs.Lib.CheckedLemmasXoshiro
import Rngs.Checked.FromRng
namespace Rngs
namespace Checked

/-- a source RNG fills exactly the buffer it is given: on success the model's byte list has
    the requested length (this is the only assumption on the source; it may fail or
    succeed arbitrarily, with arbitrary bytes, and carry arbitrary state) -/
def SourceWF {ρ : Type} (fill : TryFill ρ) : Prop :=
  ∀ (src : ρ) (n : Nat) (bytes : List U8) (src' : ρ), fill src n = (.ok bytes, src') → bytes.length = n

theorem fromRngDefault_ok {σ ρ : Type} (seedLen : Nat) (fromSeed : List U8 → σ)
    (fromSeedC : List U8 → Except Panic σ)
    (hseed : ∀ bytes, bytes.length = seedLen → fromSeedC bytes = .ok (fromSeed bytes))
    (fill : TryFill ρ) (hf : SourceWF fill) (src : ρ) :
    fromRngDefault seedLen fromSeedC fill src = .ok (Rngs.fromRngDefault seedLen fromSeed fill src) := by
  unfold fromRngDefault Rngs.fromRngDefault
  cases hfill : fill src seedLen with
  | mk res src' =>
    cases res with
    | ok bytes =>
      simp only []
      rw [hseed bytes (hf src seedLen bytes src' hfill), ok_bind]
      rfl
    | error e => rfl

theorem Hc128.fromRng_ok {ρ : Type} (fill : TryFill ρ) (hf : SourceWF fill) (src : ρ) :
    Hc128.fromRng fill src = .ok (Rngs.Hc128.fromRng fill src) :=
  fromRngDefault_ok 32 Rngs.Hc128.fromSeed Hc128.fromSeed
    (fun bytes h => (Hc128.fromSeed_ok bytes h).1) fill hf src

theorem XoGen.fromRng?_ok {σ ρ : Type} (g : Rngs.XoGen σ) (wb nw : Nat) (hwb : wb ≠ 0)
    (hlen : g.seedLen = wb * nw) (hl : g.seedLen < USIZE) (fill : TryFill ρ) (hf : SourceWF fill)
    (src : ρ) :
    XoGen.fromRng? g wb nw fill src = .ok (g.fromRng? fill src) :=
  fromRngDefault_ok g.seedLen g.fromSeed? _
    (fun bytes h => XoGen.fromSeedFuel_ok g wb nw hwb hlen hl _ bytes h) fill hf src

namespace Isaac

theorem fromRng32_ok {ρ : Type} (fill : TryFill ρ) (src : ρ) :
    fromRng32 fill src = .ok (Rngs.Isaac.fromRng32 fill src) ∧
    fromRng32 fill src = .ok (Rngs.Isaac.tryFromRng32 fill src) := by
  unfold fromRng32 Rngs.Isaac.fromRng32 Rngs.Isaac.tryFromRng32
  cases hfill : fill src (Rngs.Isaac.RAND_SIZE * 4) with
  | mk res src' =>
    cases res with
    | ok bytes =>
      simp only []
      rw [(fromRngCore32_ok bytes).1, ok_bind]
      exact ⟨rfl, rfl⟩
    | error e => exact ⟨rfl, rfl⟩

theorem fromRng64_ok {ρ : Type} (fill : TryFill ρ) (src : ρ) :
    fromRng64 fill src = .ok (Rngs.Isaac.fromRng64 fill src) ∧
    fromRng64 fill src = .ok (Rngs.Isaac.tryFromRng64 fill src) := by
  unfold fromRng64 Rngs.Isaac.fromRng64 Rngs.Isaac.tryFromRng64
  cases hfill : fill src (Rngs.Isaac.RAND_SIZE * 8) with
  | mk res src' =>
    cases res with
    | ok bytes =>
      simp only []
      rw [(fromRngCore64_ok bytes).1, ok_bind]
      exact ⟨rfl, rfl⟩
    | error e => exact ⟨rfl, rfl⟩

/-- whatever `from_rng` returns satisfies the generator invariant -/
theorem fromRng32_inv {ρ : Type} (fill : TryFill ρ) (src : ρ) (r : Rngs.Isaac.Rng32) (src' : ρ)
    (h : Rngs.Isaac.fromRng32 fill src = (.ok r, src')) :
    BlockRng.Inv Rngs.Isaac.blockCore32 CoreInv r := by
  unfold Rngs.Isaac.fromRng32 at h
  cases hfill : fill src (Rngs.Isaac.RAND_SIZE * 4) with
  | mk res s' =>
    rw [hfill] at h
    cases res with
    | ok bytes =>
      simp only [Prod.mk.injEq, Except.ok.injEq] at h
      rw [← h.1]
      exact BlockRng.new_inv _ _ _ (fromRngCore32_ok bytes).2
    | error e => simp at h

theorem fromRng64_inv {ρ : Type} (fill : TryFill ρ) (src : ρ) (r : Rngs.Isaac.Rng64) (src' : ρ)
    (h : Rngs.Isaac.fromRng64 fill src = (.ok r, src')) :
    BlockRng64.Inv Rngs.Isaac.blockCore64 CoreInv r := by
  unfold Rngs.Isaac.fromRng64 at h
  cases hfill : fill src (Rngs.Isaac.RAND_SIZE * 8) with
  | mk res s' =>
    rw [hfill] at h
    cases res with
    | ok bytes =>
      simp only [Prod.mk.injEq, Except.ok.injEq] at h
      rw [← h.1]
      exact BlockRng64.new_inv _ _ _ (fromRngCore64_ok bytes).2
    | error e => simp at h

theorem fromSeed32_ok (seed : List U8) (h : seed.length = 32) :
    fromSeed32 seed = .ok (Rngs.Isaac.fromSeed32 seed) := by
  unfold fromSeed32 Rngs.Isaac.fromSeed32
  rw [(fromSeedCore32_ok seed h).1, ok_bind]; rfl
theorem seedFromU64_32_ok (x : U64) : seedFromU64_32 x = .ok (Rngs.Isaac.seedFromU64_32 x) := by
  unfold seedFromU64_32 Rngs.Isaac.seedFromU64_32
  rw [(seedFromU64Core32_ok x).1, ok_bind]; rfl
theorem fromSeed64_ok (seed : List U8) (h : seed.length = 32) :
    fromSeed64 seed = .ok (Rngs.Isaac.fromSeed64 seed) := by
  unfold fromSeed64 Rngs.Isaac.fromSeed64
  rw [(fromSeedCore64_ok seed h).1, ok_bind]; rfl
theorem seedFromU64_64_ok (x : U64) : seedFromU64_64 x = .ok (Rngs.Isaac.seedFromU64_64 x) := by
  unfold seedFromU64_64 Rngs.Isaac.seedFromU64_64
  rw [(seedFromU64Core64_ok x).1, ok_bind]; rfl

end Isaac

/-- whatever `Hc128Rng::from_rng` returns satisfies the generator invariant -/
theorem Hc128.fromRng_inv {ρ : Type} (fill : TryFill ρ) (hf : SourceWF fill) (src : ρ)
    (r : Rngs.Hc128.Rng) (src' : ρ) (h : Rngs.Hc128.fromRng fill src = (.ok r, src')) :
    Hc128.RngInv r := by
  unfold Rngs.Hc128.fromRng Rngs.fromRngDefault at h
  cases hfill : fill src 32 with
  | mk res s' =>
    rw [hfill] at h
    cases res with
    | ok bytes =>
      simp only [Prod.mk.injEq, Except.ok.injEq] at h
      rw [← h.1]
      exact (Hc128.fromSeed_ok bytes (hf src 32 bytes s' hfill)).2
    | error e => simp at h

end Checked
end Rngs
