/-
  Rngs.Lib.CheckedLemmasHc128 — HC-128: the checked functions equal `.ok` of the model,
  under `CoreInv` (table of 1024 words, counter a multiple of 16).
-/
import Rngs.Lib.CheckedLemmasRandCore
import Rngs.Checked.Hc128
namespace Rngs
namespace Checked
namespace Hc128
open Rngs.Hc128 (Core Base TABLE f1 f2)

theorem HUSIZE_eq : Rngs.Hc128.USIZE = 2 ^ 64 := rfl

/-- facts about `cc, dd, ee` for a counter that is a multiple of 16 -/
theorem bases_bounds (counter : Nat) (h : counter % 16 = 0) :
    (Rngs.Hc128.bases counter).1 ≤ 496 ∧ (Rngs.Hc128.bases counter).2.1 ≤ 496 ∧
    (Rngs.Hc128.bases counter).2.2 ≤ 496 := by
  simp only [Rngs.Hc128.bases, HUSIZE_eq]
  omega

theorem bases_ok (counter : Nat) (h : counter % 16 = 0) :
    bases counter = .ok (Rngs.Hc128.bases counter) := by
  have hb := bases_bounds counter h
  have hU := USIZE_eq
  simp only [Rngs.Hc128.bases, HUSIZE_eq] at hb
  unfold bases
  simp only [HUSIZE_eq]
  rw [assertC_ok (by simp [h]), ok_bind, addC_ok (by omega), ok_bind, addC_ok (by omega), ok_bind,
    assertC_ok (by simp; omega), ok_bind, addC_ok (by omega), ok_bind, assertC_ok (by simp; omega),
    ok_bind, assertC_ok (by simp; omega), ok_bind]
  rfl

/-- admissible step argument: offset ≤ 15, and 0 for `dd` -/
def compOK : Base × Nat → Bool
  | (.dd, k) => k == 0
  | (_, k) => k ≤ 15

def rowOK (row : (Base × Nat) × (Base × Nat) × (Base × Nat) × (Base × Nat) × (Base × Nat)) : Bool :=
  compOK row.1 && compOK row.2.1 && compOK row.2.2.1 && compOK row.2.2.2.1 && compOK row.2.2.2.2

theorem table_rowOK : ∀ i (h : i < TABLE.length), rowOK TABLE[i] = true := by decide

theorem table_length : TABLE.length = 16 := rfl

theorem idxAdd_ok (b : Nat × Nat × Nat) (hb : b.1 ≤ 496 ∧ b.2.1 ≤ 496 ∧ b.2.2 ≤ 496)
    (r : Base × Nat) (hr : compOK r = true) :
    idxAdd b r = .ok (Rngs.Hc128.idx b r) ∧ Rngs.Hc128.idx b r < 512 := by
  have hU := USIZE_eq
  obtain ⟨base, k⟩ := r
  cases base <;> simp only [compOK, decide_eq_true_eq, beq_iff_eq] at hr <;>
    simp only [idxAdd, Rngs.Hc128.idx] <;> exact ⟨addC_ok (by omega), by omega⟩


theorem u8_lt (x : U8) (n : Nat) (h : 256 ≤ n) : x.toNat < n := Nat.lt_of_lt_of_le x.isLt h
theorem u8_add_lt (x : U8) (k n : Nat) (h : k + 256 ≤ n) : k + x.toNat < n := by
  have := x.isLt; omega
theorem u8_add_lt_usize (x : U8) : 256 + x.toNat < USIZE := by
  have := x.isLt; have := USIZE_eq; omega


theorem stepP_ok (t : Array U32) (i i511 i3 i10 i12 : Nat) (ht : t.size = 1024)
    (h0 : i < 512) (h1 : i511 < 512) (h2 : i3 < 512) (h3 : i10 < 512) (h4 : i12 < 512) :
    stepP t i i511 i3 i10 i12 = .ok (Rngs.Hc128.stepP t i i511 i3 i10 i12) ∧
    (Rngs.Hc128.stepP t i i511 i3 i10 i12).2.size = 1024 := by
  refine ⟨?_, by simp [Rngs.Hc128.stepP, ht]⟩
  unfold stepP Rngs.Hc128.stepP
  simp (disch := (first | omega | (simp only [size_wr, ht]; omega) | (apply u8_lt; omega) | (apply u8_add_lt; simp only [size_wr, ht]; omega) | exact u8_add_lt_usize _)) only
    [ok_bind, pure_eq_ok, rdSubC_ok, wrSubC_ok, addC_ok, splitAtC_ok, ht, Nat.zero_add, Nat.add_assoc]

set_option linter.unusedSimpArgs false in
theorem stepQ_ok (t : Array U32) (i i511 i3 i10 i12 : Nat) (ht : t.size = 1024)
    (h0 : i < 512) (h1 : i511 < 512) (h2 : i3 < 512) (h3 : i10 < 512) (h4 : i12 < 512) :
    stepQ t i i511 i3 i10 i12 = .ok (Rngs.Hc128.stepQ t i i511 i3 i10 i12) ∧
    (Rngs.Hc128.stepQ t i i511 i3 i10 i12).2.size = 1024 := by
  refine ⟨?_, by simp [Rngs.Hc128.stepQ, ht]⟩
  unfold stepQ Rngs.Hc128.stepQ
  simp (disch := (first | omega | (simp only [size_wr, ht]; omega) | (apply u8_lt; omega) | (apply u8_add_lt; simp only [size_wr, ht]; omega) | exact u8_add_lt_usize _)) only
    [ok_bind, pure_eq_ok, rdSubC_ok, wrSubC_ok, addC_ok, splitAtC_ok, ht, Nat.zero_add, Nat.add_assoc]

abbrev Row := (Base × Nat) × (Base × Nat) × (Base × Nat) × (Base × Nat) × (Base × Nat)

/-- the step function of the model's fold in `generate` -/
def genRowM (b : Nat × Nat × Nat) (isP : Bool) (acc : Array U32 × Array U32 × Nat) (row : Row) :
    Array U32 × Array U32 × Nat :=
  let (t, results, k) := acc
  let (r0, r1, r2, r3, r4) := row
  let (out, t) :=
    if isP then Rngs.Hc128.stepP t (Rngs.Hc128.idx b r0) (Rngs.Hc128.idx b r1) (Rngs.Hc128.idx b r2)
      (Rngs.Hc128.idx b r3) (Rngs.Hc128.idx b r4)
    else Rngs.Hc128.stepQ t (Rngs.Hc128.idx b r0) (Rngs.Hc128.idx b r1) (Rngs.Hc128.idx b r2)
      (Rngs.Hc128.idx b r3) (Rngs.Hc128.idx b r4)
  (t, wr results k out, k + 1)

theorem genRow_ok (b : Nat × Nat × Nat) (hb : b.1 ≤ 496 ∧ b.2.1 ≤ 496 ∧ b.2.2 ≤ 496) (isP : Bool)
    (t results : Array U32) (k : Nat) (row : Row) (hrow : rowOK row = true)
    (ht : t.size = 1024) (hres : results.size = 16) (hk : k < 16) :
    genRow b isP (t, results, k) row = .ok (genRowM b isP (t, results, k) row) ∧
    (genRowM b isP (t, results, k) row).1.size = 1024 ∧
    (genRowM b isP (t, results, k) row).2.1.size = 16 ∧
    (genRowM b isP (t, results, k) row).2.2 = k + 1 := by
  obtain ⟨r0, r1, r2, r3, r4⟩ := row
  simp only [rowOK, Bool.and_eq_true] at hrow
  obtain ⟨⟨⟨⟨c0, c1⟩, c2⟩, c3⟩, c4⟩ := hrow
  obtain ⟨e0, l0⟩ := idxAdd_ok b hb r0 c0
  obtain ⟨e1, l1⟩ := idxAdd_ok b hb r1 c1
  obtain ⟨e2, l2⟩ := idxAdd_ok b hb r2 c2
  obtain ⟨e3, l3⟩ := idxAdd_ok b hb r3 c3
  obtain ⟨e4, l4⟩ := idxAdd_ok b hb r4 c4
  simp only [genRow, genRowM, e0, e1, e2, e3, e4, ok_bind]
  cases isP with
  | true =>
    obtain ⟨s1, s2⟩ := stepP_ok t _ _ _ _ _ ht l0 l1 l2 l3 l4
    simp only [if_true, s1, ok_bind]
    rw [wrC_ok _ (by omega), ok_bind]
    refine ⟨?_, ?_, ?_, ?_⟩ <;> first | rfl | trivial | exact s2 | simp [hres]
  | false =>
    obtain ⟨s1, s2⟩ := stepQ_ok t _ _ _ _ _ ht l0 l1 l2 l3 l4
    simp only [Bool.false_eq_true, if_false, s1, ok_bind]
    rw [wrC_ok _ (by omega), ok_bind]
    refine ⟨?_, ?_, ?_, ?_⟩ <;> first | rfl | trivial | exact s2 | simp [hres]

/-- the invariant of the Hc128 core: table length and counter alignment -/
def CoreInv (c : Core) : Prop := c.t.size = 1024 ∧ c.counter % 16 = 0

theorem generate_eq (c : Core) (results : Array U32) :
    Rngs.Hc128.generate c results =
      (match TABLE.foldl (genRowM (Rngs.Hc128.bases c.counter) ((c.counter &&& 512) == 0))
          (c.t, results, 0) with
       | (t, results, _) => (results, { t := t, counter := (c.counter + 16) % Rngs.Hc128.USIZE })) := rfl

theorem generate_ok (c : Core) (results : Array U32) (hc : CoreInv c) (hres : results.size = 16) :
    generate c results = .ok (Rngs.Hc128.generate c results) ∧
    CoreInv (Rngs.Hc128.generate c results).2 ∧ (Rngs.Hc128.generate c results).1.size = 16 := by
  obtain ⟨ht, hcnt⟩ := hc
  have hb := bases_bounds c.counter hcnt
  have key := foldlM_ok_idx
    (I := fun i (acc : Array U32 × Array U32 × Nat) => acc.1.size = 1024 ∧ acc.2.1.size = 16 ∧ acc.2.2 = i)
    (genRowM (Rngs.Hc128.bases c.counter) ((c.counter &&& 512) == 0))
    (genRow (Rngs.Hc128.bases c.counter) ((c.counter &&& 512) == 0)) TABLE 0 (c.t, results, 0)
    ⟨ht, hres, rfl⟩
    (by
      intro i hi acc hacc
      obtain ⟨t, res, k⟩ := acc
      obtain ⟨a1, a2, a3⟩ := hacc
      simp only at a1 a2 a3
      have hi' : i < 16 := hi
      obtain ⟨g1, g2, g3, g4⟩ := genRow_ok _ hb ((c.counter &&& 512) == 0) t res k TABLE[i]
        (table_rowOK i hi) a1 a2 (by omega)
      exact ⟨g1, g2, g3, g4.trans (by rw [a3])⟩)
  obtain ⟨k1, k2, k3, _⟩ := key
  rw [generate_eq]
  unfold generate
  rw [bases_ok _ hcnt, ok_bind]
  simp only []
  rw [k1, ok_bind]
  generalize TABLE.foldl (genRowM (Rngs.Hc128.bases c.counter) ((c.counter &&& 512) == 0))
          (c.t, results, 0) = p at k2 k3 ⊢
  obtain ⟨t', res', k'⟩ := p
  refine ⟨rfl, ⟨k2, ?_⟩, k3⟩
  simp only [HUSIZE_eq]; omega


/-- the step function of the model's fold in `sixteen_steps` -/
def setupRowM (b : Nat × Nat × Nat) (isP : Bool) (acc : Array U32 × Nat) (row : Row) :
    Array U32 × Nat :=
  let (t, k) := acc
  let (r0, r1, r2, r3, r4) := row
  if isP then
    let (out, t) := Rngs.Hc128.stepP t (Rngs.Hc128.idx b r0) (Rngs.Hc128.idx b r1)
      (Rngs.Hc128.idx b r2) (Rngs.Hc128.idx b r3) (Rngs.Hc128.idx b r4)
    (wr t (b.1 + k) out, k + 1)
  else
    let (out, t) := Rngs.Hc128.stepQ t (Rngs.Hc128.idx b r0) (Rngs.Hc128.idx b r1)
      (Rngs.Hc128.idx b r2) (Rngs.Hc128.idx b r3) (Rngs.Hc128.idx b r4)
    (wr t (b.1 + 512 + k) out, k + 1)

theorem setupRow_ok (b : Nat × Nat × Nat) (hb : b.1 ≤ 496 ∧ b.2.1 ≤ 496 ∧ b.2.2 ≤ 496) (isP : Bool)
    (t : Array U32) (k : Nat) (row : Row) (hrow : rowOK row = true)
    (ht : t.size = 1024) (hk : k < 16) :
    setupRow b isP (t, k) row = .ok (setupRowM b isP (t, k) row) ∧
    (setupRowM b isP (t, k) row).1.size = 1024 ∧
    (setupRowM b isP (t, k) row).2 = k + 1 := by
  have hU := USIZE_eq
  obtain ⟨r0, r1, r2, r3, r4⟩ := row
  simp only [rowOK, Bool.and_eq_true] at hrow
  obtain ⟨⟨⟨⟨c0, c1⟩, c2⟩, c3⟩, c4⟩ := hrow
  obtain ⟨e0, l0⟩ := idxAdd_ok b hb r0 c0
  obtain ⟨e1, l1⟩ := idxAdd_ok b hb r1 c1
  obtain ⟨e2, l2⟩ := idxAdd_ok b hb r2 c2
  obtain ⟨e3, l3⟩ := idxAdd_ok b hb r3 c3
  obtain ⟨e4, l4⟩ := idxAdd_ok b hb r4 c4
  simp only [setupRow, setupRowM, e0, e1, e2, e3, e4, ok_bind]
  cases isP with
  | true =>
    obtain ⟨s1, s2⟩ := stepP_ok t _ _ _ _ _ ht l0 l1 l2 l3 l4
    simp only [if_true, s1, ok_bind]
    rw [addC_ok (by omega), ok_bind, wrC_ok _ (by omega), ok_bind]
    refine ⟨?_, ?_, ?_⟩ <;> first | rfl | trivial | (simp only [size_wr]; exact s2)
  | false =>
    obtain ⟨s1, s2⟩ := stepQ_ok t _ _ _ _ _ ht l0 l1 l2 l3 l4
    simp only [Bool.false_eq_true, if_false, s1, ok_bind]
    rw [addC_ok (by omega), ok_bind, addC_ok (by omega), ok_bind, wrC_ok _ (by omega), ok_bind]
    refine ⟨?_, ?_, ?_⟩ <;> first | rfl | trivial | (simp only [size_wr]; exact s2)

theorem sixteenSteps_eq (c : Core) :
    Rngs.Hc128.sixteenSteps c =
      (match TABLE.foldl (setupRowM (Rngs.Hc128.bases c.counter) (decide (c.counter < 512)))
          (c.t, 0) with
       | (t, _) => { t := t, counter := c.counter + 16 }) := by
  unfold Rngs.Hc128.sixteenSteps
  simp only []
  congr

/-- `sixteen_steps` for any aligned counter for which the CHECKED `counter1024 += 16` does
    not overflow (in `init` the counter runs through 0, 16, …, 1008) -/
theorem sixteenSteps_ok (c : Core) (hc : CoreInv c) (hlt : c.counter + 16 < USIZE) :
    sixteenSteps c = .ok (Rngs.Hc128.sixteenSteps c) ∧
    (Rngs.Hc128.sixteenSteps c).t.size = 1024 ∧
    (Rngs.Hc128.sixteenSteps c).counter = c.counter + 16 := by
  obtain ⟨ht, hcnt⟩ := hc
  have hb := bases_bounds c.counter hcnt
  have key := foldlM_ok_idx
    (I := fun i (acc : Array U32 × Nat) => acc.1.size = 1024 ∧ acc.2 = i)
    (setupRowM (Rngs.Hc128.bases c.counter) (decide (c.counter < 512)))
    (setupRow (Rngs.Hc128.bases c.counter) (decide (c.counter < 512))) TABLE 0 (c.t, 0)
    ⟨ht, rfl⟩
    (by
      intro i hi acc hacc
      obtain ⟨t, k⟩ := acc
      obtain ⟨a1, a3⟩ := hacc
      simp only at a1 a3
      have hi' : i < 16 := hi
      obtain ⟨g1, g2, g4⟩ := setupRow_ok _ hb (decide (c.counter < 512)) t k TABLE[i]
        (table_rowOK i hi) a1 (by omega)
      exact ⟨g1, g2, g4.trans (by rw [a3])⟩)
  obtain ⟨k1, k2, _⟩ := key
  rw [sixteenSteps_eq]
  unfold sixteenSteps
  rw [bases_ok _ hcnt, ok_bind]
  simp only []
  rw [k1, ok_bind]
  generalize TABLE.foldl (setupRowM (Rngs.Hc128.bases c.counter) (decide (c.counter < 512)))
          (c.t, 0) = p at k2 ⊢
  obtain ⟨t', k'⟩ := p
  simp only []
  rw [addC_ok hlt, ok_bind]
  refine ⟨?_, ?_, ?_⟩ <;> first | rfl | trivial | exact k2

theorem expandAt_ok (t : Array U32) (i : Nat) (add : U32) (ht : t.size = 1024)
    (h16 : 16 ≤ i) (hi : i < 1024) :
    expandAt t i add = .ok (Rngs.Hc128.expandAt t i add) ∧
    (Rngs.Hc128.expandAt t i add).size = 1024 := by
  refine ⟨?_, by simp [Rngs.Hc128.expandAt, ht]⟩
  unfold expandAt Rngs.Hc128.expandAt
  simp (disch := omega) only [subC_ok, rdC_ok, wrC_ok, ok_bind]


theorem foldl_inv {β γ : Type} (I : β → Prop) (f : β → γ → β) (l : List γ) (init : β) (h0 : I init)
    (hstep : ∀ x, x ∈ l → ∀ b, I b → I (f b x)) : I (l.foldl f init) := by
  induction l generalizing init with
  | nil => exact h0
  | cons x xs ih =>
    rw [List.foldl_cons]
    exact ih _ (hstep x (by simp) _ h0) (fun y hy b hb => hstep y (by simp [hy]) b hb)

theorem init_ok (seed : List U32) (hs : seed.length = 8) :
    init seed = .ok (Rngs.Hc128.init seed) ∧ CoreInv (Rngs.Hc128.init seed) := by
  have hU := USIZE_eq
  unfold init Rngs.Hc128.init
  have hk : (seed.take 4).length = 4 := by simp [hs]
  have hiv : (seed.drop 4).length = 4 := by simp [hs]
  rw [splitAtC_ok (by omega), ok_bind]
  simp only [Array.size_replicate, hk, hiv]
  rw [sliceToC_ok (by omega), ok_bind, copyLenC_ok rfl, ok_bind, sliceC_ok (by omega) (by omega),
    ok_bind, sliceC_ok (by omega) (by omega), ok_bind, sliceC_ok (by omega) (by omega), ok_bind]
  -- the table after the four `copy_from_slice`s
  generalize hT1 : (List.foldl _ ((Array.replicate 1024 (0 : U32)), 0) _).1 = t1
  have h1 : t1.size = 1024 := by
    rw [← hT1]
    exact foldl_inv (fun (p : Array U32 × Nat) => p.1.size = 1024) _ _ _ (by simp)
      (fun x _ b hb => by simp only [size_wr]; exact hb)
  obtain ⟨e2, h2⟩ := foldlM_ok (fun (t : Array U32) => t.size = 1024)
    (fun t j => Rngs.Hc128.expandAt t (16 + j) (BitVec.ofNat 32 (16 + j)))
    (fun t j => expandAt t (16 + j) (BitVec.ofNat 32 (16 + j))) (List.range 256) t1 h1
    (by
      intro j hj t ht
      have := List.mem_range.mp hj
      exact expandAt_ok t (16 + j) _ ht (by omega) (by omega))
  rw [e2, ok_bind]
  generalize List.foldl _ t1 (List.range 256) = t2 at h2 ⊢
  simp only [ok_bind, h2]
  rw [splitAtC_ok (by omega), ok_bind, sliceC_ok (by omega) (by omega), ok_bind,
    sliceC_ok (by omega) (by omega), ok_bind, copyLenC_ok rfl, ok_bind]
  have h3 : (List.foldl (fun t j => wr t j (rd t (256 + j))) t2 (List.range 16)).size = 1024 :=
    foldl_inv (fun (t : Array U32) => t.size = 1024) _ _ _ h2
      (fun x _ b hb => by simp only [size_wr]; exact hb)
  generalize List.foldl (fun t j => wr t j (rd t (256 + j))) t2 (List.range 16) = t3 at h3 ⊢
  obtain ⟨e4, h4⟩ := foldlM_ok (fun (t : Array U32) => t.size = 1024)
    (fun t j => Rngs.Hc128.expandAt t (16 + j) (BitVec.ofNat 32 (256 + (16 + j))))
    (fun t j => do
      let add ← add32C 256 ((16 + j) % U32MAX1)
      expandAt t (16 + j) (BitVec.ofNat 32 add)) (List.range 1008) t3 h3
    (by
      intro j hj t ht
      have hj' := List.mem_range.mp hj
      have hm : (16 + j) % U32MAX1 = 16 + j := Nat.mod_eq_of_lt (by unfold U32MAX1; omega)
      simp only [hm]
      rw [add32C_ok (by unfold U32MAX1; omega), ok_bind]
      exact expandAt_ok t (16 + j) _ ht (by omega) (by omega))
  rw [e4, ok_bind]
  generalize List.foldl _ t3 (List.range 1008) = t4 at h4 ⊢
  obtain ⟨e5, h5, h5'⟩ := foldlM_ok_idx
    (I := fun k (c : Core) => c.t.size = 1024 ∧ c.counter = 16 * k)
    (fun c (_ : Nat) => Rngs.Hc128.sixteenSteps c) (fun c _ => sixteenSteps c) (List.range 64) 0
    ({ t := t4, counter := 0 } : Core) ⟨h4, rfl⟩
    (by
      intro i hi c hc
      have hi' : i < 64 := by simpa using hi
      obtain ⟨s1, s2, s3⟩ := sixteenSteps_ok c ⟨hc.1, by rw [hc.2]; omega⟩ (by rw [hc.2]; omega)
      exact ⟨s1, s2, by rw [s3, hc.2]; omega⟩)
  rw [e5, ok_bind]
  refine ⟨?_, ?_, ?_⟩
  · simp only [pure_eq_ok]
  · simp only []
    exact h5
  · show 0 % 16 = 0
    rfl


theorem fromSeedCore_ok (seed : List U8) (h : seed.length = 32) :
    fromSeedCore seed = .ok (Rngs.Hc128.fromSeedCore seed) ∧
    CoreInv (Rngs.Hc128.fromSeedCore seed) := by
  have hU := USIZE_eq
  obtain ⟨i1, i2⟩ := init_ok (Rngs.readU32s seed 8) (length_readU32s _ _)
  unfold fromSeedCore Rngs.Hc128.fromSeedCore
  rw [readU32s_ok seed 8 (by omega) (by omega), ok_bind]
  exact ⟨i1, i2⟩

theorem blockOK : BlockOK Rngs.Hc128.blockCore blockCoreC CoreInv where
  len_gt := by decide
  len_lt := by decide
  gen_ok := fun s res hs hr => (generate_ok s res hs hr).1
  gen_inv := fun s res hs hr => (generate_ok s res hs hr).2.1
  gen_size := fun s res hs hr => (generate_ok s res hs hr).2.2

/-- the invariant of `Hc128Rng` -/
abbrev RngInv (r : Rngs.Hc128.Rng) : Prop := BlockRng.Inv Rngs.Hc128.blockCore CoreInv r

theorem fromSeed_ok (seed : List U8) (h : seed.length = 32) :
    fromSeed seed = .ok (Rngs.Hc128.fromSeed seed) ∧ RngInv (Rngs.Hc128.fromSeed seed) := by
  obtain ⟨i1, i2⟩ := fromSeedCore_ok seed h
  unfold fromSeed Rngs.Hc128.fromSeed
  rw [i1, ok_bind]
  exact ⟨rfl, BlockRng.new_inv _ _ _ i2⟩

theorem seedFromU64_ok (x : U64) :
    seedFromU64 x = .ok (Rngs.Hc128.seedFromU64 x) ∧ RngInv (Rngs.Hc128.seedFromU64 x) := by
  obtain ⟨i1, i2⟩ := fromSeed_ok (Rngs.pcg32Seed 32 x) (length_pcg32Seed _ _)
  unfold seedFromU64 Rngs.Hc128.seedFromU64
  rw [pcg32Seed_ok, ok_bind]
  exact ⟨i1, i2⟩

theorem nextU32_ok (r : Rngs.Hc128.Rng) (h : RngInv r) :
    nextU32 r = .ok (Rngs.Hc128.nextU32 r) ∧ RngInv (Rngs.Hc128.nextU32 r).2 :=
  BlockRng.nextU32_ok blockOK r h

theorem nextU64_ok (r : Rngs.Hc128.Rng) (h : RngInv r) :
    nextU64 r = .ok (Rngs.Hc128.nextU64 r) ∧ RngInv (Rngs.Hc128.nextU64 r).2 :=
  BlockRng.nextU64_ok blockOK r h

theorem fill_ok (n : Nat) (hn : n < USIZE) (r : Rngs.Hc128.Rng) (h : RngInv r) :
    fill n r = .ok (Rngs.Hc128.fill n r) ∧ RngInv (Rngs.Hc128.fill n r).2 :=
  BlockRng.fillBytes_ok blockOK n hn r h

end Hc128
end Checked
end Rngs
