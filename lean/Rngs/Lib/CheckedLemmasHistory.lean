/-
  Rngs.Lib.CheckedLemmasHistory — any operation history on a block generator runs without
  panic and preserves the invariant.
-/
import Rngs.Lib.CheckedLemmasRandCore
import Rngs.Checked.History
namespace Rngs
namespace Checked

namespace BlockRng
variable {σ : Type} {c : BlockCore σ 32} {cC : BlockCoreC σ 32} {CI : σ → Prop}

theorem step_ok (ok : BlockOK c cC CI) (r : Rngs.BlockRng σ) (h : Inv c CI r) (op : Op)
    (hop : op.wf) : stepC cC r op = .ok (stepM c r op) ∧ Inv c CI (stepM c r op) := by
  cases op with
  | nextU32 =>
    obtain ⟨e, i⟩ := nextU32_ok ok r h
    exact ⟨by simp only [stepC, stepM, e, ok_bind, pure_eq_ok], i⟩
  | nextU64 =>
    obtain ⟨e, i⟩ := nextU64_ok ok r h
    exact ⟨by simp only [stepC, stepM, e, ok_bind, pure_eq_ok], i⟩
  | fill n =>
    obtain ⟨e, i⟩ := fillBytes_ok ok n hop r h
    exact ⟨by simp only [stepC, stepM, e, ok_bind, pure_eq_ok], i⟩

theorem run_ok (ok : BlockOK c cC CI) (ops : List Op) (hops : ∀ op, op ∈ ops → op.wf)
    (r : Rngs.BlockRng σ) (h : Inv c CI r) :
    runC cC ops r = .ok (runM c ops r) ∧ Inv c CI (runM c ops r) :=
  foldlM_ok (Inv c CI) (stepM c) (stepC cC) ops r h
    (fun op hop r' hr' => step_ok ok r' hr' op (hops op hop))

end BlockRng

namespace BlockRng64
variable {σ : Type} {c : BlockCore σ 64} {cC : BlockCoreC σ 64} {CI : σ → Prop}

theorem step_ok (ok : BlockOK c cC CI) (r : Rngs.BlockRng64 σ) (h : Inv c CI r) (op : Op)
    (hop : op.wf) : stepC cC r op = .ok (stepM c r op) ∧ Inv c CI (stepM c r op) := by
  cases op with
  | nextU32 =>
    obtain ⟨e, i⟩ := nextU32_ok ok r h
    exact ⟨by simp only [stepC, stepM, e, ok_bind, pure_eq_ok], i⟩
  | nextU64 =>
    obtain ⟨e, i⟩ := nextU64_ok ok r h
    exact ⟨by simp only [stepC, stepM, e, ok_bind, pure_eq_ok], i⟩
  | fill n =>
    obtain ⟨e, i⟩ := fillBytes_ok ok n hop r h
    exact ⟨by simp only [stepC, stepM, e, ok_bind, pure_eq_ok], i⟩

theorem run_ok (ok : BlockOK c cC CI) (ops : List Op) (hops : ∀ op, op ∈ ops → op.wf)
    (r : Rngs.BlockRng64 σ) (h : Inv c CI r) :
    runC cC ops r = .ok (runM c ops r) ∧ Inv c CI (runM c ops r) :=
  foldlM_ok (Inv c CI) (stepM c) (stepC cC) ops r h
    (fun op hop r' hr' => step_ok ok r' hr' op (hops op hop))

end BlockRng64

end Checked
end Rngs
