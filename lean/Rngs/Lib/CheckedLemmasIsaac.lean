/-
  Rngs.Lib.CheckedLemmasIsaac — rand_isaac (ISAAC and ISAAC-64): the checked functions of
  `Rngs.Checked.Isaac` equal `.ok` of the model's, for ALL inputs, under the invariant
  `CoreInv` (`mem` has `RAND_SIZE = 256` slots) and for a results buffer of 256 slots; the
  invariant is established by every constructor and preserved by `generate`.

  The index facts: `base + m < 256` and `base + m2 < 256` for `base = j*4 + k`, `j < 32`,
  `k ≤ 3`, `(m, m2) ∈ {(0,128), (128,0)}`; `255 - base - m` does not underflow for the same
  reason; `x % 256 < 256`; in `init`, `j*8 + k < 256` for `j < 32`, `k ≤ 7`.
-/
import Rngs.Lib.CheckedLemmasRandCore
import Rngs.Checked.Isaac
namespace Rngs
namespace Checked
namespace Isaac
open Rngs.Isaac (Params Core Oct GenSt RAND_SIZE RAND_SIZE_LEN MIDPOINT extend params32 params64)
variable {w : Nat}

/-- the data-structure invariant of `IsaacCore` / `Isaac64Core`: `mem : [w32; RAND_SIZE]` -/
def CoreInv {w} (c : Rngs.Isaac.Core w) : Prop := c.mem.size = 256

theorem RAND_SIZE_eq : RAND_SIZE = 256 := rfl
theorem MIDPOINT_eq : MIDPOINT = 128 := rfl

theorem ind_ok (mem : Array (BitVec w)) (v : BitVec w) (amount : Nat) (h : mem.size = 256) :
    ind mem v amount = .ok (Rngs.Isaac.ind mem v amount) := by
  unfold ind Rngs.Isaac.ind
  rw [modC_ok (by decide), ok_bind, rdC_ok (by rw [h, RAND_SIZE_eq]; omega)]

theorem rngstep_ok (p : Params w) (st : GenSt w) (mix : BitVec w) (base m m2 : Nat)
    (hm : st.mem.size = 256) (hr : st.results.size = 256)
    (h1 : base + m < 256) (h2 : base + m2 < 256) :
    rngstep p st mix base m m2 = .ok (Rngs.Isaac.rngstep p st mix base m m2) ∧
    (Rngs.Isaac.rngstep p st mix base m m2).mem.size = 256 ∧
    (Rngs.Isaac.rngstep p st mix base m m2).results.size = 256 := by
  have hU := USIZE_eq
  refine ⟨?_, by simp [Rngs.Isaac.rngstep, hm], by simp [Rngs.Isaac.rngstep, hr]⟩
  unfold rngstep Rngs.Isaac.rngstep
  rw [addC_ok (by omega), ok_bind, rdC_ok (by omega), ok_bind, addC_ok (by omega), ok_bind,
    rdC_ok (by omega), ok_bind, ind_ok _ _ _ hm, ok_bind, ok_bind,
    wrC_ok _ (by omega), ok_bind, ind_ok _ _ _ (by rw [size_wr]; exact hm), ok_bind,
    subC_ok (by rw [RAND_SIZE_eq]; omega), ok_bind, subC_ok (by rw [RAND_SIZE_eq]; omega), ok_bind,
    wrC_ok _ (by rw [RAND_SIZE_eq]; omega), ok_bind]
  rfl

theorem halfLoop_ok (p : Params w) (st : GenSt w) (m m2 : Nat)
    (hm : st.mem.size = 256) (hr : st.results.size = 256) (h1 : m ≤ 128) (h2 : m2 ≤ 128) :
    halfLoop p st m m2 = .ok (Rngs.Isaac.halfLoop p st m m2) ∧
    (Rngs.Isaac.halfLoop p st m m2).mem.size = 256 ∧
    (Rngs.Isaac.halfLoop p st m m2).results.size = 256 := by
  have hU := USIZE_eq
  unfold halfLoop Rngs.Isaac.halfLoop
  refine foldlM_ok (fun st : GenSt w => st.mem.size = 256 ∧ st.results.size = 256) _ _ _ st ⟨hm, hr⟩ ?_
  intro j hj st ⟨hm, hr⟩
  have hj : j < 32 := by simpa [MIDPOINT_eq] using hj
  unfold halfStep
  simp only
  rw [mulC_ok (by omega), ok_bind, addC_ok (by omega), ok_bind]
  obtain ⟨e, hm, hr⟩ := rngstep_ok p st (p.mix0 st.a) (j * 4 + 0) m m2 hm hr (by omega) (by omega)
  rw [e, ok_bind, addC_ok (by omega), ok_bind]
  generalize Rngs.Isaac.rngstep p st (p.mix0 st.a) (j * 4 + 0) m m2 = st at hm hr ⊢
  obtain ⟨e, hm, hr⟩ := rngstep_ok p st (p.mix1 st.a) (j * 4 + 1) m m2 hm hr (by omega) (by omega)
  rw [e, ok_bind, addC_ok (by omega), ok_bind]
  generalize Rngs.Isaac.rngstep p st (p.mix1 st.a) (j * 4 + 1) m m2 = st at hm hr ⊢
  obtain ⟨e, hm, hr⟩ := rngstep_ok p st (p.mix2 st.a) (j * 4 + 2) m m2 hm hr (by omega) (by omega)
  rw [e, ok_bind, addC_ok (by omega), ok_bind]
  generalize Rngs.Isaac.rngstep p st (p.mix2 st.a) (j * 4 + 2) m m2 = st at hm hr ⊢
  obtain ⟨e, hm, hr⟩ := rngstep_ok p st (p.mix3 st.a) (j * 4 + 3) m m2 hm hr (by omega) (by omega)
  rw [e]
  exact ⟨rfl, hm, hr⟩

theorem generate_ok (p : Params w) (core : Core w) (res : Array (BitVec w)) :
    CoreInv core → res.size = 256 →
    generate p core res = .ok (Rngs.Isaac.generate p core res) ∧
    CoreInv (Rngs.Isaac.generate p core res).2 ∧
    (Rngs.Isaac.generate p core res).1.size = 256 := by
  intro hc hr
  unfold generate Rngs.Isaac.generate CoreInv
  simp only
  obtain ⟨e, hm, hr⟩ := halfLoop_ok p { mem := core.mem, results := res, a := core.a, b := core.b + (core.c + 1) } 0 MIDPOINT hc hr (by omega) (by decide)
  rw [e, ok_bind]
  obtain ⟨e, hm, hr⟩ := halfLoop_ok p _ MIDPOINT 0 hm hr (by decide) (by omega)
  rw [e, ok_bind]
  exact ⟨rfl, hm, hr⟩

/-- the body of the model's inner loop of `init` (the anonymous function of
    `Rngs.Isaac.init`, named) -/
def initStepM (p : Params w) (acc : Array (BitVec w) × Oct w) (j : Nat) : Array (BitVec w) × Oct w :=
  let (mem, o) := acc
  let i := j * 8
  let o : Oct w :=
    ⟨o.a + rd mem i, o.b + rd mem (i+1), o.c + rd mem (i+2), o.d + rd mem (i+3),
     o.e + rd mem (i+4), o.f + rd mem (i+5), o.g + rd mem (i+6), o.h + rd mem (i+7)⟩
  let o := p.mix o
  let mem := wr mem i o.a
  let mem := wr mem (i+1) o.b
  let mem := wr mem (i+2) o.c
  let mem := wr mem (i+3) o.d
  let mem := wr mem (i+4) o.e
  let mem := wr mem (i+5) o.f
  let mem := wr mem (i+6) o.g
  let mem := wr mem (i+7) o.h
  (mem, o)

theorem init_eq (p : Params w) (mem : Array (BitVec w)) (rounds : Nat) :
    Rngs.Isaac.init p mem rounds =
      { mem := ((List.range rounds).foldl
          (fun (acc : Array (BitVec w) × Oct w) _ =>
            (List.range (RAND_SIZE / 8)).foldl (initStepM p) acc) (mem, p.golden)).1,
        a := 0, b := 0, c := 0 } := rfl

theorem initInner_ok (p : Params w) (acc : Array (BitVec w) × Oct w) (h : acc.1.size = 256) :
    (List.range (RAND_SIZE / 8)).foldlM (initStep p) acc =
      .ok ((List.range (RAND_SIZE / 8)).foldl (initStepM p) acc) ∧
    ((List.range (RAND_SIZE / 8)).foldl (initStepM p) acc).1.size = 256 := by
  have hU := USIZE_eq
  refine foldlM_ok (fun acc : Array (BitVec w) × Oct w => acc.1.size = 256) _ _ _ acc h ?_
  intro j hj acc h
  have hj : j < 32 := by simpa [RAND_SIZE_eq] using hj
  obtain ⟨mem, o⟩ := acc
  simp only at h
  unfold initStep initStepM
  simp only [size_wr, h, and_true]
  have a1 : addC (j * 8) 1 = .ok (j * 8 + 1) := addC_ok (by omega)
  have a2 : addC (j * 8) 2 = .ok (j * 8 + 2) := addC_ok (by omega)
  have a3 : addC (j * 8) 3 = .ok (j * 8 + 3) := addC_ok (by omega)
  have a4 : addC (j * 8) 4 = .ok (j * 8 + 4) := addC_ok (by omega)
  have a5 : addC (j * 8) 5 = .ok (j * 8 + 5) := addC_ok (by omega)
  have a6 : addC (j * 8) 6 = .ok (j * 8 + 6) := addC_ok (by omega)
  have a7 : addC (j * 8) 7 = .ok (j * 8 + 7) := addC_ok (by omega)
  have r0 := rdC_ok (a := mem) (i := j * 8) (by omega)
  have r1 := rdC_ok (a := mem) (i := j * 8 + 1) (by omega)
  have r2 := rdC_ok (a := mem) (i := j * 8 + 2) (by omega)
  have r3 := rdC_ok (a := mem) (i := j * 8 + 3) (by omega)
  have r4 := rdC_ok (a := mem) (i := j * 8 + 4) (by omega)
  have r5 := rdC_ok (a := mem) (i := j * 8 + 5) (by omega)
  have r6 := rdC_ok (a := mem) (i := j * 8 + 6) (by omega)
  have r7 := rdC_ok (a := mem) (i := j * 8 + 7) (by omega)
  simp only [mulC_ok (a := j) (b := 8) (by omega), ok_bind, a1, a2, a3, a4, a5, a6, a7,
    r0, r1, r2, r3, r4, r5, r6, r7]
  generalize p.mix _ = o'
  rw [wrC_ok _ (by omega), ok_bind,
    wrC_ok _ (by simp only [size_wr]; omega), ok_bind,
    wrC_ok _ (by simp only [size_wr]; omega), ok_bind,
    wrC_ok _ (by simp only [size_wr]; omega), ok_bind,
    wrC_ok _ (by simp only [size_wr]; omega), ok_bind,
    wrC_ok _ (by simp only [size_wr]; omega), ok_bind,
    wrC_ok _ (by simp only [size_wr]; omega), ok_bind,
    wrC_ok _ (by simp only [size_wr]; omega), ok_bind]
  rfl

theorem init_ok (p : Params w) (mem : Array (BitVec w)) (rounds : Nat) :
    mem.size = 256 →
    init p mem rounds = .ok (Rngs.Isaac.init p mem rounds) ∧ CoreInv (Rngs.Isaac.init p mem rounds) := by
  intro h
  rw [init_eq]
  unfold init CoreInv
  obtain ⟨e, hs⟩ := foldlM_ok (fun acc : Array (BitVec w) × Oct w => acc.1.size = 256)
    (fun (acc : Array (BitVec w) × Oct w) (_ : Nat) =>
      (List.range (RAND_SIZE / 8)).foldl (initStepM p) acc)
    (fun (acc : Array (BitVec w) × Oct w) (_ : Nat) =>
      (List.range (RAND_SIZE / 8)).foldlM (initStep p) acc)
    (List.range rounds) (mem, p.golden) h (fun _ _ acc hacc => initInner_ok p acc hacc)
  rw [e, ok_bind]
  exact ⟨rfl, hs⟩

theorem blockOK32 : BlockOK Rngs.Isaac.blockCore32 blockCoreC32 CoreInv where
  len_gt := by decide
  len_lt := by decide
  gen_ok := fun s res hs hr => (generate_ok params32 s res hs hr).1
  gen_inv := fun s res hs hr => (generate_ok params32 s res hs hr).2.1
  gen_size := fun s res hs hr => (generate_ok params32 s res hs hr).2.2

theorem blockOK64 : BlockOK Rngs.Isaac.blockCore64 blockCoreC64 CoreInv where
  len_gt := by decide
  len_lt := by decide
  gen_ok := fun s res hs hr => (generate_ok params64 s res hs hr).1
  gen_inv := fun s res hs hr => (generate_ok params64 s res hs hr).2.1
  gen_size := fun s res hs hr => (generate_ok params64 s res hs hr).2.2

theorem size_extend (ws : List (BitVec w)) (h : ws.length ≤ 256) : (extend ws).size = 256 := by
  simp only [extend, RAND_SIZE_eq, List.size_toArray, List.length_append, List.length_take,
    List.length_replicate]
  omega

theorem length_readU32s (bs : List U8) (n : Nat) : (Rngs.readU32s bs n).length = n := by
  simp [Rngs.readU32s]
theorem length_readU64s (bs : List U8) (n : Nat) : (Rngs.readU64s bs n).length = n := by
  simp [Rngs.readU64s]

theorem fromSeedCore32_ok (seed : List U8) (h : seed.length = 32) :
    fromSeedCore32 seed = .ok (Rngs.Isaac.fromSeedCore32 seed) ∧
    CoreInv (Rngs.Isaac.fromSeedCore32 seed) := by
  have hU := USIZE_eq
  unfold fromSeedCore32 Rngs.Isaac.fromSeedCore32
  rw [readU32s_ok seed 8 (by omega) (by omega), ok_bind]
  exact init_ok _ _ _ (size_extend _ (by rw [length_readU32s]; omega))

theorem fromSeedCore64_ok (seed : List U8) (h : seed.length = 32) :
    fromSeedCore64 seed = .ok (Rngs.Isaac.fromSeedCore64 seed) ∧
    CoreInv (Rngs.Isaac.fromSeedCore64 seed) := by
  have hU := USIZE_eq
  unfold fromSeedCore64 Rngs.Isaac.fromSeedCore64
  rw [readU64s_ok seed 4 (by omega) (by omega), ok_bind]
  exact init_ok _ _ _ (size_extend _ (by rw [length_readU64s]; omega))

theorem extend_two_gen (k : Nat) (a b : BitVec w) :
    wr (wr (Array.replicate (k + 2) 0) 0 a) 1 b =
      (([a, b] : List (BitVec w)).take (k + 2) ++ List.replicate (k + 2 - 2) 0).toArray := by
  simp [wr, List.replicate_succ, ← List.toArray_replicate]

theorem extend_one_gen (k : Nat) (a : BitVec w) :
    wr (Array.replicate (k + 1) 0) 0 a =
      (([a] : List (BitVec w)).take (k + 1) ++ List.replicate (k + 1 - 1) 0).toArray := by
  simp [wr, List.replicate_succ, ← List.toArray_replicate]

theorem extend_two (a b : BitVec w) :
    wr (wr (Array.replicate RAND_SIZE 0) 0 a) 1 b = extend [a, b] := extend_two_gen 254 a b

theorem extend_one (a : BitVec w) :
    wr (Array.replicate RAND_SIZE 0) 0 a = extend [a] := extend_one_gen 255 a

theorem seedFromU64Core32_ok (x : U64) :
    seedFromU64Core32 x = .ok (Rngs.Isaac.seedFromU64Core32 x) ∧
    CoreInv (Rngs.Isaac.seedFromU64Core32 x) := by
  unfold seedFromU64Core32 Rngs.Isaac.seedFromU64Core32
  simp only
  rw [wrC_ok _ (by rw [Array.size_replicate]; decide), ok_bind,
    wrC_ok _ (by rw [size_wr, Array.size_replicate]; decide), ok_bind, extend_two]
  exact init_ok _ _ _ (size_extend _ (by show 2 ≤ 256; omega))

theorem seedFromU64Core64_ok (x : U64) :
    seedFromU64Core64 x = .ok (Rngs.Isaac.seedFromU64Core64 x) ∧
    CoreInv (Rngs.Isaac.seedFromU64Core64 x) := by
  unfold seedFromU64Core64 Rngs.Isaac.seedFromU64Core64
  simp only
  rw [wrC_ok _ (by rw [Array.size_replicate]; decide), ok_bind, extend_one]
  exact init_ok _ _ _ (size_extend _ (by show 1 ≤ 256; omega))

theorem fromRngCore32_ok (bytes : List U8) :
    fromRngCore32 bytes = .ok (Rngs.Isaac.init params32 (Rngs.readU32s bytes RAND_SIZE).toArray 2) ∧
    CoreInv (Rngs.Isaac.init params32 (Rngs.readU32s bytes RAND_SIZE).toArray 2) :=
  init_ok _ _ _ (by rw [List.size_toArray, length_readU32s]; rfl)

theorem fromRngCore64_ok (bytes : List U8) :
    fromRngCore64 bytes = .ok (Rngs.Isaac.init params64 (Rngs.readU64s bytes RAND_SIZE).toArray 2) ∧
    CoreInv (Rngs.Isaac.init params64 (Rngs.readU64s bytes RAND_SIZE).toArray 2) :=
  init_ok _ _ _ (by rw [List.size_toArray, length_readU64s]; rfl)

example : CoreInv (Rngs.Isaac.fromSeedCore32 (List.replicate 32 0)) :=
  (fromSeedCore32_ok _ (List.length_replicate ..)).2
example : CoreInv (Rngs.Isaac.seedFromU64Core64 0) := (seedFromU64Core64_ok 0).2

/-! ### the `BlockRng` / `BlockRng64` invariants of the constructed generators -/

theorem fromSeed32_inv (seed : List U8) (h : seed.length = 32) :
    BlockRng.Inv Rngs.Isaac.blockCore32 CoreInv (Rngs.Isaac.fromSeed32 seed) :=
  BlockRng.new_inv _ _ _ (fromSeedCore32_ok seed h).2

theorem seedFromU64_32_inv (x : U64) :
    BlockRng.Inv Rngs.Isaac.blockCore32 CoreInv (Rngs.Isaac.seedFromU64_32 x) :=
  BlockRng.new_inv _ _ _ (seedFromU64Core32_ok x).2

theorem fromSeed64_inv (seed : List U8) (h : seed.length = 32) :
    BlockRng64.Inv Rngs.Isaac.blockCore64 CoreInv (Rngs.Isaac.fromSeed64 seed) :=
  BlockRng64.new_inv _ _ _ (fromSeedCore64_ok seed h).2

theorem seedFromU64_64_inv (x : U64) :
    BlockRng64.Inv Rngs.Isaac.blockCore64 CoreInv (Rngs.Isaac.seedFromU64_64 x) :=
  BlockRng64.new_inv _ _ _ (seedFromU64Core64_ok x).2

end Isaac
end Checked
end Rngs
