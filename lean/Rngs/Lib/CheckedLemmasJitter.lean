/-
  Rngs.Lib.CheckedLemmasJitter — rand_jitter: every checked function of `Rngs.Checked.Jitter`
  equals the model's function (lifted into the checked timer monad), for ALL timer scripts.
  Hence the checked run is always `.ok` — a value, or blocked on an exhausted script — and never
  `.error`, except for the documented `set_rounds(0)`.
-/
import Rngs.Lib.CheckedLemmasRandCore
import Rngs.Checked.Jitter
namespace Rngs
namespace Checked
namespace Jitter
open Rngs.Jitter (Rng Ec TM TimerError Probe MEMORY_BLOCKSIZE MEMORY_SIZE STIR_CONSTANT STIR_MIXER
  TESTLOOPCOUNT CLEARCACHE LOG2_LOOKUP)

variable {α β : Type}

/-! ## the monad -/

theorem TMC.bind_def (m : TMC α) (f : α → TMC β) :
    (m >>= f) = fun rs => match m rs with
      | .error e => .error e
      | .ok none => .ok none
      | .ok (some (a, rs')) => f a rs' := rfl

theorem TMC.pure_def (a : α) : (pure a : TMC α) = fun rs => .ok (some (a, rs)) := rfl

@[simp] theorem liftE_ok_bind (a : α) (f : α → TMC β) : (liftE (.ok a) >>= f) = f a := rfl
@[simp] theorem liftE_ok (a : α) : liftE (.ok a) = (pure a : TMC α) := rfl
@[simp] theorem TMC.pure_bind (a : α) (f : α → TMC β) : ((pure a : TMC α) >>= f) = f a := rfl
theorem TMC.bind_apply (m : TMC α) (f : α → TMC β) (rs : List U64) :
    (m >>= f) rs = match m rs with
      | .error e => .error e
      | .ok none => .ok none
      | .ok (some (a, rs')) => f a rs' := rfl
theorem TMC.bind_assoc {γ : Type} (m : TMC α) (f : α → TMC β) (g : β → TMC γ) :
    (m >>= f) >>= g = m >>= fun a => f a >>= g := by
  funext rs
  rw [TMC.bind_apply, TMC.bind_apply m, TMC.bind_apply m]
  cases m rs with
  | error e => rfl
  | ok o => cases o with
    | none => rfl
    | some p => obtain ⟨a, rs'⟩ := p; rfl
theorem liftE_error_bind (p : Panic) (f : α → TMC β) : (liftE (.error p) >>= f) = liftE (.error p) := rfl

theorem liftTM_pure (a : α) : liftTM (pure a : TM α) = pure a := rfl
theorem liftTM_tick : liftTM Rngs.Jitter.tick = tick := by
  funext rs; cases rs <;> rfl
theorem liftTM_get : liftTM (get : TM (List U64)) = getScript := rfl
theorem liftTM_failure : liftTM (failure : TM α) = blocked := rfl

theorem liftTM_bind (m : TM α) (f : α → TM β) :
    liftTM (m >>= f) = liftTM m >>= fun a => liftTM (f a) := by
  funext rs
  show Except.ok ((m >>= f) rs) = _
  rw [TMC.bind_def]
  simp only [liftTM]
  show Except.ok (StateT.bind m f rs) = _
  unfold StateT.bind
  cases h : m rs with
  | none => rfl
  | some p => obtain ⟨a, rs'⟩ := p; rfl

theorem liftTM_apply (m : TM α) (rs : List U64) : liftTM m rs = .ok (m rs) := rfl

/-- postcondition of a model computation: whenever the run returns, the value satisfies `P` -/
def Post (m : TM α) (P : α → Prop) : Prop := ∀ rs a rs', m rs = some (a, rs') → P a

theorem Post.trivial (m : TM α) : Post m (fun _ => True) := fun _ _ _ _ => True.intro
theorem Post.mono {m : TM α} {P Q : α → Prop} (h : Post m P) (hpq : ∀ a, P a → Q a) : Post m Q :=
  fun rs a rs' e => hpq a (h rs a rs' e)
theorem Post.pure {a : α} {P : α → Prop} (h : P a) : Post (pure a : TM α) P := by
  intro rs a' rs' e
  have : (a, rs) = (a', rs') := Option.some.inj e
  cases this; exact h
theorem Post.failure {P : α → Prop} : Post (failure : TM α) P := by
  intro rs a' rs' e; cases e
theorem Post.bind {m : TM α} {f : α → TM β} {P : α → Prop} {Q : β → Prop}
    (h1 : Post m P) (h2 : ∀ a, P a → Post (f a) Q) : Post (m >>= f) Q := by
  intro rs b rs' e
  have e' : StateT.bind m f rs = some (b, rs') := e
  unfold StateT.bind at e'
  cases h : m rs with
  | none => rw [h] at e'; cases e'
  | some p =>
    obtain ⟨a, rs1⟩ := p
    rw [h] at e'
    exact h2 a (h1 rs a rs1 h) rs1 b rs' e'

/-- the central composition rule: a checked first step that equals the model's, a
    postcondition of the model's first step, and continuations that agree under it -/
theorem bind_eq_lift {mC : TMC α} {m : TM α} {gC : α → TMC β} {g : α → TM β} (P : α → Prop)
    (h1 : mC = liftTM m) (hP : Post m P) (h2 : ∀ a, P a → gC a = liftTM (g a)) :
    mC >>= gC = liftTM (m >>= g) := by
  subst h1
  rw [liftTM_bind]
  funext rs
  rw [TMC.bind_def, TMC.bind_def]
  simp only [liftTM]
  cases h : m rs with
  | none => rfl
  | some p => obtain ⟨a, rs'⟩ := p; exact congrFun (h2 a (hP rs a rs' h)) rs'


theorem bind_congr_post {m : TM α} (P : α → Prop) (hP : Post m P) {g g' : α → TMC β}
    (h : ∀ a, P a → g a = g' a) : liftTM m >>= g = liftTM m >>= g' := by
  funext rs
  rw [TMC.bind_apply, TMC.bind_apply]
  simp only [liftTM]
  cases hm : m rs with
  | none => rfl
  | some p => obtain ⟨a, rs'⟩ := p; exact congrFun (h a (hP rs a rs' hm)) rs'

/-! ## random_loop_cnt -/

theorem foldlM_all_ok {γ ε : Type} (f : β → γ → β) (fC : β → γ → Except ε β) (l : List γ) (init : β)
    (h : ∀ b x, x ∈ l → fC b x = .ok (f b x)) : l.foldlM fC init = .ok (l.foldl f init) :=
  (foldlM_ok (fun _ => True) f fC l init True.intro (fun x hx b _ => ⟨h b x hx, True.intro⟩)).1

theorem one_shl_toNat {n : Nat} (h : n < 64) : (1#64 <<< n).toNat = 2 ^ n := by
  rw [BitVec.toNat_shiftLeft, Nat.shiftLeft_eq]
  have : 2 ^ n < 2 ^ 64 := Nat.pow_lt_pow_right (by decide) h
  simp only [BitVec.toNat_ofNat]
  rw [Nat.mod_eq_of_lt (by decide : 1 < 2 ^ 64), Nat.one_mul, Nat.mod_eq_of_lt this]

theorem randomLoopCnt_eq (j : Rng) (nBits : Nat) (h0 : 0 < nBits) (h64 : nBits < 64) :
    randomLoopCnt j nBits = liftTM (Rngs.Jitter.randomLoopCnt j nBits) := by
  unfold randomLoopCnt Rngs.Jitter.randomLoopCnt
  refine bind_eq_lift (fun _ => True) liftTM_tick.symm (Post.trivial _) (fun time _ => ?_)
  have hU : U32MAX1 = 2 ^ 32 := rfl
  have hpow : 0 < 2 ^ nBits := Nat.two_pow_pos _
  simp only []
  rw [add32C_ok (by omega), liftE_ok_bind, subC_ok (by omega), liftE_ok_bind,
    divC_ok (by omega), liftE_ok_bind, shiftAmtC_ok h64, liftE_ok_bind,
    subC_ok (by rw [one_shl_toNat h64]; omega), liftE_ok_bind]
  rw [foldlM_all_ok (fun (p : U64 × U64) (_ : Nat) =>
      (p.1 ^^^ (p.2 &&& ((1#64 <<< nBits) - 1)), p.2 >>> nBits)), liftE_ok_bind]
  · rfl
  · intro b x _; rfl


theorem mask4 : (1#64 <<< 4) - 1 = 15#64 := by decide

theorem fold4_lt (l : List Nat) : ∀ (p : U64 × U64), p.1.toNat < 16 →
    (l.foldl (fun (p : U64 × U64) _ => (p.1 ^^^ (p.2 &&& 15#64), p.2 >>> 4)) p).1.toNat < 16 := by
  induction l with
  | nil => intro p h; exact h
  | cons x xs ih =>
    intro p h
    rw [List.foldl_cons]
    apply ih
    show (p.1 ^^^ (p.2 &&& 15#64)).toNat < 2 ^ 4
    rw [BitVec.toNat_xor, BitVec.toNat_and]
    apply Nat.xor_lt_two_pow h
    exact Nat.and_lt_two_pow _ (by decide)

/-- `random_loop_cnt(4) < 16`: what keeps `acc_loop_cnt += ..` from overflowing -/
theorem randomLoopCnt4_post (j : Rng) :
    Post (Rngs.Jitter.randomLoopCnt j 4) (fun r => r.toNat < 16) := by
  unfold Rngs.Jitter.randomLoopCnt
  refine Post.bind (Post.trivial _) (fun time _ => ?_)
  simp only [mask4]
  apply Post.pure
  rw [BitVec.toNat_setWidth]
  exact Nat.lt_of_le_of_lt (Nat.mod_le _ _) (fold4_lt _ _ (by show (0#64).toNat < 16; decide))


/-! ## lfsr, lfsr_time -/

theorem lfsr_ok (data time : U64) : lfsr data time = .ok (Rngs.Jitter.lfsr data time) := by
  unfold lfsr Rngs.Jitter.lfsr
  apply foldlM_all_ok
  intro b k hk
  have hk' : k < 64 := List.mem_range.mp hk
  simp only []
  rw [subC_ok (by omega), ok_bind, shiftAmtC_ok (by omega), ok_bind]
  rfl

theorem lfsrTime_eq (j : Rng) (time : U64) (varRounds : Bool) :
    lfsrTime j time varRounds = liftTM (Rngs.Jitter.lfsrTime j time varRounds) := by
  have throwAway : ∀ n : Nat,
      (List.range n).foldlM (fun t (_ : Nat) => lfsr t time) 0#64 =
        .ok ((List.range n).foldl (fun t _ => Rngs.Jitter.lfsr t time) 0#64) :=
    fun n => foldlM_all_ok _ _ _ _ (fun b _ _ => lfsr_ok b time)
  unfold lfsrTime Rngs.Jitter.lfsrTime
  cases varRounds with
  | false =>
    simp only [Bool.false_eq_true, if_false, TMC.pure_bind]
    rw [throwAway, liftE_ok_bind, lfsr_ok, liftE_ok_bind]
    rfl
  | true =>
    simp only [if_true]
    refine bind_eq_lift (fun _ => True) (randomLoopCnt_eq j 4 (by decide) (by decide))
      (Post.trivial _) (fun cnt _ => ?_)
    rw [throwAway, liftE_ok_bind, lfsr_ok, liftE_ok_bind]
    rfl

theorem lfsrTime_post (j : Rng) (time : U64) (varRounds : Bool) :
    Post (Rngs.Jitter.lfsrTime j time varRounds) (fun j' => j'.memPrevIndex = j.memPrevIndex) := by
  unfold Rngs.Jitter.lfsrTime
  cases varRounds with
  | false => exact Post.pure rfl
  | true => exact Post.bind (Post.trivial _) (fun _ _ => Post.pure rfl)


/-! ## the invariant, memaccess -/

/-- the data-structure invariant: `mem_prev_index` is a `u16` -/
def Inv (j : Rng) : Prop := j.memPrevIndex < 65536

theorem Inv_newWithTimer : Inv Rngs.Jitter.newWithTimer := by
  show (0 : Nat) < 65536; decide

example : ∃ j, Inv j := ⟨_, Inv_newWithTimer⟩

theorem memFold_ok (l : List Nat) (init : Nat) (h : init < 65536) :
    l.foldlM (fun index (_ : Nat) => (do
        let a ← addC index MEMORY_BLOCKSIZE
        let b ← subC a 1
        let index ← modC b MEMORY_SIZE
        idxC MEMORY_SIZE index
        idxC MEMORY_SIZE index
        pure index : Except Panic Nat)) init =
      .ok (l.foldl (fun index _ => (index + MEMORY_BLOCKSIZE - 1) % MEMORY_SIZE) init) := by
  refine (foldlM_ok (fun b => b < 65536) _ _ l init h (fun x _ b hb => ?_)).1
  have hU := USIZE_eq
  simp only [show MEMORY_BLOCKSIZE = 32 from rfl, show MEMORY_SIZE = 2048 from rfl]
  rw [addC_ok (by omega), ok_bind, subC_ok (by omega), ok_bind, modC_ok (by decide), ok_bind,
    idxC_ok (by omega), ok_bind, ok_bind]
  exact ⟨rfl, by omega⟩

theorem memaccess_eq (j : Rng) (varRounds : Bool) (h : Inv j) :
    memaccess j varRounds = liftTM (Rngs.Jitter.memaccess j varRounds) := by
  unfold memaccess Rngs.Jitter.memaccess
  cases varRounds with
  | false =>
    simp only [Bool.false_eq_true, if_false, TMC.pure_bind]
    rw [memFold_ok _ _ h, liftE_ok_bind]
    rfl
  | true =>
    simp only [if_true]
    rw [TMC.bind_assoc]
    refine bind_eq_lift (fun r => r.toNat < 16) (randomLoopCnt_eq j 4 (by decide) (by decide))
      (randomLoopCnt4_post j) (fun extra hx => ?_)
    have hU : U32MAX1 = 2 ^ 32 := rfl
    rw [add32C_ok (by omega), liftE_ok_bind, memFold_ok _ _ h, liftE_ok_bind]
    rfl

theorem memaccess_post (j : Rng) (varRounds : Bool) :
    Post (Rngs.Jitter.memaccess j varRounds) Inv := by
  have hm : ∀ x : Nat, x % 65536 < 65536 := fun x => Nat.mod_lt _ (by decide)
  unfold Rngs.Jitter.memaccess
  cases varRounds with
  | false => exact Post.bind (Post.trivial _) (fun _ _ => Post.pure (hm _))
  | true => exact Post.bind (Post.trivial _) (fun _ _ => Post.pure (hm _))


/-! ## stuck, measure_jitter, stir_pool -/

theorem stuck_ok (ec : Ec) (d : U32) : stuck ec d = .ok (Rngs.Jitter.stuck ec d) := rfl

theorem measureJitter_eq (j : Rng) (ec : Ec) (h : Inv j) :
    measureJitter j ec = liftTM (Rngs.Jitter.measureJitter j ec) := by
  unfold measureJitter Rngs.Jitter.measureJitter
  refine bind_eq_lift Inv (memaccess_eq j true h) (memaccess_post _ _) (fun j1 _ => ?_)
  refine bind_eq_lift (fun _ => True) liftTM_tick.symm (Post.trivial _) (fun time _ => ?_)
  simp only []
  refine bind_eq_lift (fun _ => True) (lfsrTime_eq _ _ _) (Post.trivial _) (fun j2 _ => ?_)
  rw [stuck_ok, liftE_ok_bind]
  generalize Rngs.Jitter.stuck _ _ = p
  obtain ⟨st, ec2⟩ := p
  cases st <;> rfl

theorem measureJitter_post (j : Rng) (ec : Ec) :
    Post (Rngs.Jitter.measureJitter j ec) (fun r => Inv r.2.1) := by
  unfold Rngs.Jitter.measureJitter
  refine Post.bind (memaccess_post _ _) (fun j1 h1 => ?_)
  refine Post.bind (Post.trivial _) (fun time _ => ?_)
  simp only []
  refine Post.bind (lfsrTime_post _ _ _) (fun j2 h2 => ?_)
  have h2' : Inv j2 := by unfold Inv; rw [h2]; exact h1
  generalize Rngs.Jitter.stuck _ _ = p
  obtain ⟨st, ec2⟩ := p
  cases st
  · exact Post.pure h2'
  · exact Post.pure h2'

theorem stir_ok (data : U64) : stir data = .ok (Rngs.Jitter.stir data) := by
  unfold stir Rngs.Jitter.stir
  rw [foldlM_all_ok (fun (mixer : U64) (i : Nat) =>
      (mixer ^^^ (STIR_CONSTANT &&& ~~~(((data >>> i) &&& 1) - 1))).rotateLeft 1)]
  · rfl
  · intro b i hi
    rw [shiftAmtC_ok (List.mem_range.mp hi), ok_bind]
    rfl


/-! ## gen_entropy -/

theorem collect_eq : ∀ (fuel need : Nat) (j : Rng) (ec : Ec), Inv j →
    collect fuel need j ec = liftTM (Rngs.Jitter.collect fuel need j ec) := by
  intro fuel
  induction fuel with
  | zero =>
    intro need j ec _
    cases need with
    | zero => rfl
    | succ need => rfl
  | succ fuel ih =>
    intro need j ec h
    cases need with
    | zero => rfl
    | succ need =>
      rw [collect, Rngs.Jitter.collect]
      refine bind_eq_lift (fun r => Inv r.2.1) (measureJitter_eq j ec h) (measureJitter_post j ec) ?_
      intro ⟨ok, j1, ec1⟩ h1
      cases ok
      · exact ih _ _ _ h1
      · exact ih _ _ _ h1

theorem collect_post : ∀ (fuel need : Nat) (j : Rng) (ec : Ec), Inv j →
    Post (Rngs.Jitter.collect fuel need j ec) (fun r => Inv r.1) := by
  intro fuel
  induction fuel with
  | zero =>
    intro need j ec h
    cases need with
    | zero => exact Post.pure h
    | succ need => exact Post.failure
  | succ fuel ih =>
    intro need j ec h
    cases need with
    | zero => exact Post.pure h
    | succ need =>
      rw [Rngs.Jitter.collect]
      refine Post.bind (measureJitter_post j ec) ?_
      intro ⟨ok, j1, ec1⟩ h1
      cases ok
      · exact ih _ _ _ h1
      · exact ih _ _ _ h1

theorem genEntropy_eq (j : Rng) (h : Inv j) :
    genEntropy j = liftTM (Rngs.Jitter.genEntropy j) := by
  unfold genEntropy Rngs.Jitter.genEntropy
  refine bind_eq_lift (fun _ => True) liftTM_tick.symm (Post.trivial _) (fun t _ => ?_)
  simp only []
  refine bind_eq_lift (fun r => Inv r.2.1) (measureJitter_eq j _ h) (measureJitter_post j _) ?_
  intro ⟨ok, j1, ec1⟩ h1
  refine bind_eq_lift (fun _ => True) liftTM_get.symm (Post.trivial _) (fun rs _ => ?_)
  refine bind_eq_lift (fun _ => True) (collect_eq _ _ _ _ h1) (Post.trivial _) ?_
  intro ⟨j2, ec2⟩ _
  simp only []
  rw [idxC_ok (by decide), liftE_ok_bind, stir_ok, liftE_ok_bind]
  rfl

theorem genEntropy_post (j : Rng) :
    Post (Rngs.Jitter.genEntropy j) (fun r => Inv r.2) := by
  unfold Rngs.Jitter.genEntropy
  refine Post.bind (Post.trivial _) (fun t _ => ?_)
  simp only []
  refine Post.bind (measureJitter_post j _) ?_
  intro ⟨ok, j1, ec1⟩ h1
  refine Post.bind (Post.trivial _) (fun rs _ => ?_)
  refine Post.bind (collect_post _ _ _ _ h1) ?_
  intro ⟨j2, ec2⟩ h2
  exact Post.pure h2

/-! ## RngCore -/

theorem nextU64_eq (j : Rng) (h : Inv j) : nextU64 j = liftTM (Rngs.Jitter.nextU64 j) :=
  genEntropy_eq _ h

theorem nextU64_post (j : Rng) : Post (Rngs.Jitter.nextU64 j) (fun r => Inv r.2) :=
  genEntropy_post _

theorem nextU32_eq (j : Rng) (h : Inv j) : nextU32 j = liftTM (Rngs.Jitter.nextU32 j) := by
  unfold nextU32 Rngs.Jitter.nextU32
  cases hh : j.halfUsed with
  | true => rfl
  | false =>
    simp only [Bool.false_eq_true, if_false]
    refine bind_eq_lift (fun _ => True) (nextU64_eq j h) (Post.trivial _) ?_
    intro ⟨v, j1⟩ _
    rfl

theorem nextU32_post (j : Rng) (h : Inv j) : Post (Rngs.Jitter.nextU32 j) (fun r => Inv r.2) := by
  unfold Rngs.Jitter.nextU32
  cases hh : j.halfUsed with
  | true => exact Post.pure h
  | false =>
    simp only [Bool.false_eq_true, if_false]
    refine Post.bind (nextU64_post j) ?_
    intro ⟨v, j1⟩ h1
    exact Post.pure h1


theorem fillLoop_eq : ∀ (k left : Nat) (j : Rng), Inv j → 8 * k ≤ left →
    fillLoop k left j =
      liftTM (Rngs.Jitter.fillLoop k j) >>= fun r => pure (r.1, r.2, left - 8 * k) := by
  intro k
  induction k with
  | zero => intro left j _ _; rfl
  | succ k ih =>
    intro left j h hl
    rw [fillLoop, Rngs.Jitter.fillLoop, splitAtC_ok (by omega), liftE_ok_bind, nextU64_eq j h,
      liftTM_bind, TMC.bind_assoc]
    refine bind_congr_post (fun r => Inv r.2) (nextU64_post j) ?_
    intro ⟨w, j1⟩ h1
    simp only []
    rw [copyLenC_ok (length_U64_toLE w).symm, liftE_ok_bind, ih (left - 8) j1 h1 (by omega),
      liftTM_bind, TMC.bind_assoc, TMC.bind_assoc]
    refine bind_congr_post (fun _ => True) (Post.trivial _) ?_
    intro ⟨rest, j2⟩ _
    show (pure (U64.toLE w ++ rest, j2, left - 8 - 8 * k) : TMC _) =
      pure (U64.toLE w ++ rest, j2, left - 8 * (k + 1))
    have : left - 8 - 8 * k = left - 8 * (k + 1) := by omega
    rw [this]

theorem fillLoop_post : ∀ (k : Nat) (j : Rng), Inv j →
    Post (Rngs.Jitter.fillLoop k j) (fun r => Inv r.2) := by
  intro k
  induction k with
  | zero => intro j h; exact Post.pure h
  | succ k ih =>
    intro j h
    rw [Rngs.Jitter.fillLoop]
    refine Post.bind (nextU64_post j) ?_
    intro ⟨w, j1⟩ h1
    refine Post.bind (ih j1 h1) ?_
    intro ⟨rest, j2⟩ h2
    exact Post.pure h2

theorem fill_eq (n : Nat) (j : Rng) (h : Inv j) : fill n j = liftTM (Rngs.Jitter.fill n j) := by
  unfold fill Rngs.Jitter.fill
  have hleft : n - 8 * (n / 8) = n % 8 := by omega
  have hr : n % 8 < 8 := Nat.mod_lt _ (by decide)
  rw [fillLoop_eq _ _ _ h (by omega), TMC.bind_assoc, hleft]
  refine bind_eq_lift (fun r => Inv r.2) rfl (fillLoop_post _ _ h) ?_
  intro ⟨pre, j1⟩ h1
  rw [TMC.pure_bind]
  simp only []
  by_cases h4 : n % 8 > 4
  · simp only [h4, if_true]
    refine bind_eq_lift (fun _ => True) (nextU64_eq j1 h1) (Post.trivial _) ?_
    intro ⟨w, j2⟩ _
    simp only []
    rw [sliceToC_ok (by rw [length_U64_toLE]; omega), liftE_ok_bind,
      copyLenC_ok (by rw [List.length_take, length_U64_toLE]; omega), liftE_ok_bind]
    rfl
  · simp only [h4, if_false]
    by_cases h0 : n % 8 > 0
    · simp only [h0, if_true]
      refine bind_eq_lift (fun _ => True) (nextU32_eq j1 h1) (Post.trivial _) ?_
      intro ⟨w, j2⟩ _
      simp only []
      rw [sliceToC_ok (by rw [length_U32_toLE]; omega), liftE_ok_bind,
        copyLenC_ok (by rw [List.length_take, length_U32_toLE]; omega), liftE_ok_bind]
      rfl
    · simp only [h0, if_false]; rfl

theorem fill_post (n : Nat) (j : Rng) (h : Inv j) :
    Post (Rngs.Jitter.fill n j) (fun r => Inv r.2) := by
  unfold Rngs.Jitter.fill
  refine Post.bind (fillLoop_post _ _ h) ?_
  intro ⟨pre, j1⟩ h1
  simp only []
  by_cases h4 : n % 8 > 4
  · simp only [h4, if_true]
    refine Post.bind (nextU64_post j1) ?_
    intro ⟨w, j2⟩ h2
    exact Post.pure h2
  · simp only [h4, if_false]
    by_cases h0 : n % 8 > 0
    · simp only [h0, if_true]
      refine Post.bind (nextU32_post j1 h1) ?_
      intro ⟨w, j2⟩ h2
      exact Post.pure h2
    · simp only [h0, if_false]; exact Post.pure h1

/-! ## timer_stats, set_rounds, clone, new_with_timer -/

theorem timerStats_eq (j : Rng) (varRounds : Bool) (h : Inv j) :
    timerStats j varRounds = liftTM (Rngs.Jitter.timerStats j varRounds) := by
  unfold timerStats Rngs.Jitter.timerStats
  refine bind_eq_lift (fun _ => True) liftTM_tick.symm (Post.trivial _) (fun time _ => ?_)
  refine bind_eq_lift Inv (memaccess_eq j _ h) (memaccess_post _ _) (fun j1 _ => ?_)
  refine bind_eq_lift (fun _ => True) (lfsrTime_eq _ _ _) (Post.trivial _) (fun j2 _ => ?_)
  refine bind_eq_lift (fun _ => True) liftTM_tick.symm (Post.trivial _) (fun time2 _ => ?_)
  rfl

theorem timerStats_post (j : Rng) (varRounds : Bool) :
    Post (Rngs.Jitter.timerStats j varRounds) (fun r => Inv r.2) := by
  unfold Rngs.Jitter.timerStats
  refine Post.bind (Post.trivial _) (fun time _ => ?_)
  refine Post.bind (memaccess_post _ _) (fun j1 h1 => ?_)
  refine Post.bind (lfsrTime_post _ _ _) (fun j2 h2 => ?_)
  refine Post.bind (Post.trivial _) (fun time2 _ => ?_)
  exact Post.pure (by unfold Inv; rw [h2]; exact h1)

/-- the one documented panic -/
theorem setRounds_zero (j : Rng) : setRounds j 0 = .error .assertFailed := rfl

theorem setRounds_pos (j : Rng) (rounds : Nat) (h : 0 < rounds) :
    setRounds j rounds = .ok { j with rounds := rounds } := by
  unfold setRounds
  rw [assertC_ok (by simpa using h), ok_bind]
  rfl

/-- `setRounds` panics exactly when the model says so -/
theorem setRounds_eq (j : Rng) (rounds : Nat) :
    setRounds j rounds =
      match Rngs.Jitter.setRounds j rounds with
      | some j' => .ok j'
      | none => .error .assertFailed := by
  cases rounds with
  | zero => rfl
  | succ r => rw [setRounds_pos j _ (Nat.succ_pos r)]; rfl

theorem setRounds_panics_iff (j : Rng) (rounds : Nat) :
    (∃ p, setRounds j rounds = .error p) ↔ rounds = 0 := by
  constructor
  · intro ⟨p, hp⟩
    cases rounds with
    | zero => rfl
    | succ r => rw [setRounds_pos j _ (Nat.succ_pos r)] at hp; cases hp
  · intro h; subst h; exact ⟨_, rfl⟩

theorem setRounds_inv (j j' : Rng) (rounds : Nat) (h : Inv j)
    (h' : Rngs.Jitter.setRounds j rounds = some j') : Inv j' := by
  unfold Rngs.Jitter.setRounds at h'
  by_cases hr : rounds > 0
  · rw [if_pos hr] at h'; cases h'; exact h
  · rw [if_neg hr] at h'; cases h'

theorem clone_ok (j : Rng) : clone j = .ok (Rngs.Jitter.clone j) := rfl
theorem clone_inv (j : Rng) (h : Inv j) : Inv (Rngs.Jitter.clone j) := h
theorem newWithTimer_ok : newWithTimer = .ok Rngs.Jitter.newWithTimer := rfl


/-! ## test_timer -/

theorem leadingZeros64_eq {x : Nat} (h0 : x ≠ 0) (h : x < 2 ^ 64) :
    64 - leadingZeros64 x = Nat.log2 x + 1 := by
  have := (Nat.log2_lt h0).mpr h
  unfold leadingZeros64
  rw [if_neg h0]
  omega

theorem roundsOf_ok (deltaSum : Nat) (h : deltaSum < 2 ^ 64) :
    roundsOf deltaSum = .ok (Rngs.Jitter.roundsOf deltaSum) := by
  unfold roundsOf Rngs.Jitter.roundsOf
  rw [divC_ok (by decide), ok_bind]
  have havg : deltaSum / TESTLOOPCOUNT < 2 ^ 64 := Nat.lt_of_le_of_lt (Nat.div_le_self _ _) h
  simp only []
  generalize deltaSum / TESTLOOPCOUNT = avg at havg
  by_cases h16 : avg ≥ 16
  · simp only [h16, if_true]
    have hU : U32MAX1 = 2 ^ 32 := rfl
    have hlz := leadingZeros64_eq (x := avg) (by omega) havg
    have hlog := (Nat.log2_lt (n := avg) (k := 64) (by omega)).mpr havg
    rw [subC_ok (by unfold leadingZeros64; split <;> omega), ok_bind, hlz,
      mulB_ok (by decide), ok_bind, add32C_ok (by omega), ok_bind, subC_ok (by omega), ok_bind,
      divC_ok (by omega), ok_bind]
    rfl
  · simp only [h16, if_false]
    rw [lrdC_ok (by show avg < 16; omega)]
    rfl

theorem verdict_ok (p : Probe) (h : p.deltaSum < 2 ^ 64) :
    verdict p = .ok (Rngs.Jitter.verdict p) := by
  unfold verdict Rngs.Jitter.verdict
  have m1 : mulC 2 TESTLOOPCOUNT = .ok (2 * TESTLOOPCOUNT) := mulC_ok (by decide)
  have m2 : mulC TESTLOOPCOUNT 9 = .ok (TESTLOOPCOUNT * 9) := mulC_ok (by decide)
  have d1 : divC (TESTLOOPCOUNT * 9) 10 = .ok (TESTLOOPCOUNT * 9 / 10) := divC_ok (by decide)
  simp only [m1, m2, d1, ok_bind, roundsOf_ok _ h]
  by_cases h1 : p.timeBackwards > 3
  · simp only [h1, if_true]; rfl
  · simp only [h1, if_false]
    by_cases h2 : p.deltaSum < 2 * TESTLOOPCOUNT
    · simp only [h2, if_true]; rfl
    · simp only [h2, if_false]
      by_cases h3 : p.countMod > TESTLOOPCOUNT * 9 / 10
      · simp only [h3, if_true]; rfl
      · simp only [h3, if_false]
        by_cases h4 : p.countStuck > TESTLOOPCOUNT * 9 / 10
        · simp only [h4, if_true]; rfl
        · simp only [h4, if_false]; rfl

/-- the model's accumulating part of one probe iteration, step by step -/
def accStuck (st : Bool) (p : Probe) : Probe :=
  if st then { p with countStuck := p.countStuck + 1 } else p
def accBack (time time2 : U64) (p : Probe) : Probe :=
  if time2 ≤ time then { p with timeBackwards := p.timeBackwards + 1 } else p
def accMod (delta : U32) (p : Probe) : Probe :=
  if delta.toInt % 100 == 0 then { p with countMod := p.countMod + 1 } else p
def accSum (delta : U32) (p : Probe) : Probe :=
  { p with deltaSum := p.deltaSum + (delta.toInt - p.oldDelta.toInt).natAbs, oldDelta := delta }
def probeAccM (st : Bool) (time time2 : U64) (delta : U32) (p : Probe) : Probe :=
  accSum delta (accMod delta (accBack time time2 (accStuck st p)))

/-- bounds on the accumulators -/
def PB (a b c d : Nat) (p : Probe) : Prop :=
  p.deltaSum ≤ a ∧ p.timeBackwards ≤ b ∧ p.countMod ≤ c ∧ p.countStuck ≤ d

/-- after `k` accumulating iterations: every counter is at most `k`, and `delta_sum` at most
    `2^32 * k` (each summand is the distance of two `i32` values) -/
def PInv (k : Nat) (p : Probe) : Prop := PB (2 ^ 32 * k) k k k p

theorem PInv_zero : PInv 0 {} :=
  ⟨Nat.zero_le _, Nat.zero_le _, Nat.zero_le _, Nat.zero_le _⟩

theorem PInv.mono {k k' : Nat} {p : Probe} (h : PInv k p) (hk : k ≤ k') : PInv k' p := by
  obtain ⟨h1, h2, h3, h4⟩ := h
  exact ⟨by omega, by omega, by omega, by omega⟩

/-- the `i64` difference of two `i32` values cannot overflow -/
theorem subI64C_ok (a b : U32) : subI64C a.toInt b.toInt = .ok (a.toInt - b.toInt) := by
  have h1 := BitVec.toInt_lt (x := a)
  have h2 := BitVec.le_toInt a
  have h3 := BitVec.toInt_lt (x := b)
  have h4 := BitVec.le_toInt b
  unfold subI64C
  rw [if_pos]
  omega

theorem natAbs_sub_lt (a b : U32) : (a.toInt - b.toInt).natAbs < 2 ^ 32 := by
  have h1 := BitVec.toInt_lt (x := a)
  have h2 := BitVec.le_toInt a
  have h3 := BitVec.toInt_lt (x := b)
  have h4 := BitVec.le_toInt b
  omega

theorem condInc_ok (c : Prop) [Decidable c] (bound x : Nat) (upd : Nat → Probe) (p : Probe)
    (hx : x + 1 < bound) :
    (if c then (do let v ← addB bound x 1; pure (upd v)) else pure p : Except Panic Probe)
      = .ok (if c then upd (x + 1) else p) := by
  by_cases hc : c
  · rw [if_pos hc, if_pos hc, addB_ok hx, ok_bind]; rfl
  · rw [if_neg hc, if_neg hc]; rfl

theorem accStuck_PB {a b c d : Nat} (st : Bool) {p : Probe} (h : PB a b c d p) :
    PB a b c (d + 1) (accStuck st p) := by
  obtain ⟨h1, h2, h3, h4⟩ := h
  unfold accStuck
  split
  · exact ⟨h1, h2, h3, Nat.succ_le_succ h4⟩
  · exact ⟨h1, h2, h3, Nat.le_succ_of_le h4⟩

theorem accBack_PB {a b c d : Nat} (time time2 : U64) {p : Probe} (h : PB a b c d p) :
    PB a (b + 1) c d (accBack time time2 p) := by
  obtain ⟨h1, h2, h3, h4⟩ := h
  unfold accBack
  split
  · exact ⟨h1, Nat.succ_le_succ h2, h3, h4⟩
  · exact ⟨h1, Nat.le_succ_of_le h2, h3, h4⟩

theorem accMod_PB {a b c d : Nat} (delta : U32) {p : Probe} (h : PB a b c d p) :
    PB a b (c + 1) d (accMod delta p) := by
  obtain ⟨h1, h2, h3, h4⟩ := h
  unfold accMod
  split
  · exact ⟨h1, h2, Nat.succ_le_succ h3, h4⟩
  · exact ⟨h1, h2, Nat.le_succ_of_le h3, h4⟩

theorem accSum_PB {a b c d : Nat} (delta : U32) {p : Probe} (h : PB a b c d p) :
    PB (a + 2 ^ 32) b c d (accSum delta p) := by
  obtain ⟨h1, h2, h3, h4⟩ := h
  have hd := natAbs_sub_lt delta p.oldDelta
  refine ⟨?_, h2, h3, h4⟩
  show p.deltaSum + (delta.toInt - p.oldDelta.toInt).natAbs ≤ a + 2 ^ 32
  omega

theorem probeAcc_ok (st : Bool) (time time2 : U64) (delta : U32) (p : Probe) (k : Nat)
    (h : PInv k p) (hk : k ≤ 1000) :
    probeAcc st time time2 delta p = .ok (probeAccM st time time2 delta p) ∧
      PInv (k + 1) (probeAccM st time time2 delta p) := by
  have hU := USIZE_eq
  have b0 := h
  have b1 := accStuck_PB st h
  have b2 := accBack_PB time time2 b1
  have b3 := accMod_PB delta b2
  have b4 := accSum_PB delta b3
  constructor
  · unfold probeAcc probeAccM
    rw [condInc_ok (st = true) USIZE p.countStuck (fun c => { p with countStuck := c }) p
      (by have := b0.2.2.2; omega), ok_bind]
    show (do
      let p ← (if time2 ≤ time then do
          let c ← addB (2 ^ 31) (accStuck st p).timeBackwards 1
          pure { accStuck st p with timeBackwards := c }
        else pure (accStuck st p))
      remI32C 100
      let p ← (if delta.toInt % 100 == 0 then do
          let c ← addC p.countMod 1
          pure { p with countMod := c }
        else pure p)
      let d ← subI64C delta.toInt p.oldDelta.toInt
      let s ← addC p.deltaSum d.natAbs
      pure { p with deltaSum := s, oldDelta := delta } : Except Panic Probe) = _
    rw [condInc_ok (time2 ≤ time) (2 ^ 31) (accStuck st p).timeBackwards
      (fun c => { accStuck st p with timeBackwards := c }) (accStuck st p)
      (by have := b1.2.1; omega), ok_bind]
    show (do
      remI32C 100
      let p ← (if delta.toInt % 100 == 0 then do
          let c ← addC (accBack time time2 (accStuck st p)).countMod 1
          pure { accBack time time2 (accStuck st p) with countMod := c }
        else pure (accBack time time2 (accStuck st p)))
      let d ← subI64C delta.toInt p.oldDelta.toInt
      let s ← addC p.deltaSum d.natAbs
      pure { p with deltaSum := s, oldDelta := delta } : Except Panic Probe) = _
    have hrem : remI32C 100 = .ok () := rfl
    rw [hrem, ok_bind, condInc_ok ((delta.toInt % 100 == 0) = true) USIZE
      (accBack time time2 (accStuck st p)).countMod
      (fun c => { accBack time time2 (accStuck st p) with countMod := c })
      (accBack time time2 (accStuck st p)) (by have := b2.2.2.1; omega), ok_bind]
    show (do
      let d ← subI64C delta.toInt (accMod delta (accBack time time2 (accStuck st p))).oldDelta.toInt
      let s ← addC (accMod delta (accBack time time2 (accStuck st p))).deltaSum d.natAbs
      pure { accMod delta (accBack time time2 (accStuck st p)) with deltaSum := s, oldDelta := delta }
        : Except Panic Probe) = _
    have hd := natAbs_sub_lt delta (accMod delta (accBack time time2 (accStuck st p))).oldDelta
    rw [subI64C_ok, ok_bind, addC_ok (by have := b3.1; omega), ok_bind]
    rfl
  · obtain ⟨h1, h2, h3, h4⟩ := b4
    unfold probeAccM
    exact ⟨by omega, h2, h3, h4⟩


theorem probeLoop_eq : ∀ (n i : Nat) (j : Rng) (ec : Ec) (p : Probe) (k : Nat),
    Inv j → PInv k p → k + n ≤ 1000 →
    probeLoop n i j ec p = liftTM (Rngs.Jitter.probeLoop n i j ec p) := by
  intro n
  induction n with
  | zero => intro i j ec p k _ _ _; rfl
  | succ n ih =>
    intro i j ec p k h hp hk
    rw [probeLoop, Rngs.Jitter.probeLoop]
    refine bind_eq_lift (fun _ => True) liftTM_tick.symm (Post.trivial _) (fun time _ => ?_)
    refine bind_eq_lift Inv (memaccess_eq j true h) (memaccess_post _ _) (fun j1 h1 => ?_)
    refine bind_eq_lift (fun j2 => j2.memPrevIndex = j1.memPrevIndex) (lfsrTime_eq _ _ _)
      (lfsrTime_post _ _ _) (fun j2 h2 => ?_)
    have h2' : Inv j2 := by unfold Inv; rw [h2]; exact h1
    refine bind_eq_lift (fun _ => True) liftTM_tick.symm (Post.trivial _) (fun time2 _ => ?_)
    by_cases hz : (time == 0 || time2 == 0) = true
    · rw [if_pos hz, if_pos hz]; rfl
    · rw [if_neg hz, if_neg hz]
      simp only []
      by_cases hd : ((time2 - time).setWidth 32 == (0 : U32)) = true
      · rw [if_pos hd, if_pos hd]; rfl
      · rw [if_neg hd, if_neg hd]
        by_cases hc : i < CLEARCACHE
        · rw [if_pos hc, if_pos hc]
          exact ih _ _ _ _ k h2' hp (by omega)
        · rw [if_neg hc, if_neg hc, stuck_ok, liftE_ok_bind]
          generalize Rngs.Jitter.stuck ec _ = q
          obtain ⟨st, ec2⟩ := q
          simp only []
          obtain ⟨e1, e2⟩ := probeAcc_ok st time time2 ((time2 - time).setWidth 32) p k hp (by omega)
          rw [e1, liftE_ok_bind]
          exact ih _ _ _ _ (k + 1) h2' e2 (by omega)

theorem probeLoop_post : ∀ (n i : Nat) (j : Rng) (ec : Ec) (p : Probe) (k : Nat),
    Inv j → PInv k p → k + n ≤ 1000 →
    Post (Rngs.Jitter.probeLoop n i j ec p)
      (fun r => Inv r.2 ∧ ∀ p', r.1 = .ok p' → PInv (k + n) p') := by
  intro n
  induction n with
  | zero =>
    intro i j ec p k h hp _
    exact Post.pure ⟨h, fun p' e => by cases e; exact hp⟩
  | succ n ih =>
    intro i j ec p k h hp hk
    rw [Rngs.Jitter.probeLoop]
    refine Post.bind (Post.trivial _) (fun time _ => ?_)
    refine Post.bind (memaccess_post _ _) (fun j1 h1 => ?_)
    refine Post.bind (lfsrTime_post _ _ _) (fun j2 h2 => ?_)
    have h2' : Inv j2 := by unfold Inv; rw [h2]; exact h1
    refine Post.bind (Post.trivial _) (fun time2 _ => ?_)
    by_cases hz : (time == 0 || time2 == 0) = true
    · rw [if_pos hz]; exact Post.pure ⟨h2', fun p' e => by cases e⟩
    · rw [if_neg hz]
      simp only []
      by_cases hd : ((time2 - time).setWidth 32 == (0 : U32)) = true
      · rw [if_pos hd]; exact Post.pure ⟨h2', fun p' e => by cases e⟩
      · rw [if_neg hd]
        by_cases hc : i < CLEARCACHE
        · rw [if_pos hc]
          refine Post.mono (ih _ _ _ _ k h2' hp (by omega)) ?_
          intro r ⟨r1, r2⟩
          exact ⟨r1, fun p' e => (r2 p' e).mono (by omega)⟩
        · rw [if_neg hc]
          generalize Rngs.Jitter.stuck ec _ = q
          obtain ⟨st, ec2⟩ := q
          simp only []
          obtain ⟨_, e2⟩ := probeAcc_ok st time time2 ((time2 - time).setWidth 32) p k hp (by omega)
          refine Post.mono (ih _ _ _ _ (k + 1) h2' e2 (by omega)) ?_
          intro r ⟨r1, r2⟩
          exact ⟨r1, fun p' e => (r2 p' e).mono (by omega)⟩

theorem testTimer_eq (j : Rng) (h : Inv j) : testTimer j = liftTM (Rngs.Jitter.testTimer j) := by
  unfold testTimer Rngs.Jitter.testTimer
  refine bind_eq_lift (fun _ => True) liftTM_tick.symm (Post.trivial _) (fun t _ => ?_)
  simp only []
  rw [addC_ok (by decide), liftE_ok_bind]
  refine bind_eq_lift _ (probeLoop_eq _ 0 j _ {} 0 h PInv_zero (by decide))
    (probeLoop_post _ 0 j _ {} 0 h PInv_zero (by decide)) ?_
  intro ⟨r, j1⟩ ⟨_, hr⟩
  cases r with
  | error e => rfl
  | ok p =>
    have hp := (hr p rfl).1
    have hlt : p.deltaSum < 2 ^ 64 := by
      have : CLEARCACHE + TESTLOOPCOUNT = 400 := rfl
      rw [this] at hp
      omega
    simp only []
    rw [idxC_ok (by decide), liftE_ok_bind, verdict_ok p hlt, liftE_ok_bind]
    rfl

theorem testTimer_post (j : Rng) (h : Inv j) :
    Post (Rngs.Jitter.testTimer j) (fun r => Inv r.2) := by
  unfold Rngs.Jitter.testTimer
  refine Post.bind (Post.trivial _) (fun t _ => ?_)
  simp only []
  refine Post.bind (probeLoop_post _ 0 j _ {} 0 h PInv_zero (by decide)) ?_
  intro ⟨r, j1⟩ ⟨h1, _⟩
  cases r with
  | error e => exact Post.pure h1
  | ok p => exact Post.pure h1


/-! ## C14 for JitterRng: the public operations, pointwise

  For EVERY list `rs` of timer readings the checked run is `.ok`: a value (`some`) or blocked on
  the exhausted script (`none`) — never `.error`. -/

theorem run_ok {mC : TMC α} {m : TM α} (h : mC = liftTM m) (rs : List U64) :
    mC rs = .ok (m rs) := by rw [h]; rfl

/-- `m` never panics, whatever the timer returns -/
def NoPanic (mC : TMC α) : Prop := ∀ rs p, mC rs ≠ .error p

theorem NoPanic.of_eq {mC : TMC α} {m : TM α} (h : mC = liftTM m) : NoPanic mC := by
  intro rs p e
  rw [run_ok h rs] at e
  cases e

theorem randomLoopCnt_run (j : Rng) (nBits : Nat) (h0 : 0 < nBits) (h64 : nBits < 64)
    (rs : List U64) : randomLoopCnt j nBits rs = .ok (Rngs.Jitter.randomLoopCnt j nBits rs) :=
  run_ok (randomLoopCnt_eq j nBits h0 h64) rs
theorem lfsrTime_run (j : Rng) (time : U64) (v : Bool) (rs : List U64) :
    lfsrTime j time v rs = .ok (Rngs.Jitter.lfsrTime j time v rs) := run_ok (lfsrTime_eq j time v) rs
theorem memaccess_run (j : Rng) (v : Bool) (h : Inv j) (rs : List U64) :
    memaccess j v rs = .ok (Rngs.Jitter.memaccess j v rs) := run_ok (memaccess_eq j v h) rs
theorem measureJitter_run (j : Rng) (ec : Ec) (h : Inv j) (rs : List U64) :
    measureJitter j ec rs = .ok (Rngs.Jitter.measureJitter j ec rs) :=
  run_ok (measureJitter_eq j ec h) rs
theorem collect_run (fuel need : Nat) (j : Rng) (ec : Ec) (h : Inv j) (rs : List U64) :
    collect fuel need j ec rs = .ok (Rngs.Jitter.collect fuel need j ec rs) :=
  run_ok (collect_eq fuel need j ec h) rs
theorem genEntropy_run (j : Rng) (h : Inv j) (rs : List U64) :
    genEntropy j rs = .ok (Rngs.Jitter.genEntropy j rs) := run_ok (genEntropy_eq j h) rs
theorem nextU64_run (j : Rng) (h : Inv j) (rs : List U64) :
    nextU64 j rs = .ok (Rngs.Jitter.nextU64 j rs) := run_ok (nextU64_eq j h) rs
theorem nextU32_run (j : Rng) (h : Inv j) (rs : List U64) :
    nextU32 j rs = .ok (Rngs.Jitter.nextU32 j rs) := run_ok (nextU32_eq j h) rs
theorem fill_run (n : Nat) (j : Rng) (h : Inv j) (rs : List U64) :
    fill n j rs = .ok (Rngs.Jitter.fill n j rs) := run_ok (fill_eq n j h) rs
theorem timerStats_run (j : Rng) (v : Bool) (h : Inv j) (rs : List U64) :
    timerStats j v rs = .ok (Rngs.Jitter.timerStats j v rs) := run_ok (timerStats_eq j v h) rs
theorem testTimer_run (j : Rng) (h : Inv j) (rs : List U64) :
    testTimer j rs = .ok (Rngs.Jitter.testTimer j rs) := run_ok (testTimer_eq j h) rs

/-- state preservation, pointwise: whenever the model run returns, the invariant holds again -/
theorem genEntropy_inv (j : Rng) (rs rs' : List U64) (v : U64) (j' : Rng)
    (e : Rngs.Jitter.genEntropy j rs = some ((v, j'), rs')) : Inv j' := genEntropy_post j rs _ rs' e
theorem nextU64_inv (j : Rng) (rs rs' : List U64) (v : U64) (j' : Rng)
    (e : Rngs.Jitter.nextU64 j rs = some ((v, j'), rs')) : Inv j' := nextU64_post j rs _ rs' e
theorem nextU32_inv (j : Rng) (h : Inv j) (rs rs' : List U64) (v : U32) (j' : Rng)
    (e : Rngs.Jitter.nextU32 j rs = some ((v, j'), rs')) : Inv j' := nextU32_post j h rs _ rs' e
theorem fill_inv (n : Nat) (j : Rng) (h : Inv j) (rs rs' : List U64) (bs : List U8) (j' : Rng)
    (e : Rngs.Jitter.fill n j rs = some ((bs, j'), rs')) : Inv j' := fill_post n j h rs _ rs' e
theorem timerStats_inv (j : Rng) (v : Bool) (rs rs' : List U64) (d : U64) (j' : Rng)
    (e : Rngs.Jitter.timerStats j v rs = some ((d, j'), rs')) : Inv j' :=
  timerStats_post j v rs _ rs' e
theorem testTimer_inv (j : Rng) (h : Inv j) (rs rs' : List U64) (r : Except TimerError Nat) (j' : Rng)
    (e : Rngs.Jitter.testTimer j rs = some ((r, j'), rs')) : Inv j' := testTimer_post j h rs _ rs' e

/-! ## any sequence of public operations -/

/-- the public operations of `JitterRng` (besides `new_with_timer`) -/
inductive Op
  | nextU32 | nextU64 | fill (n : Nat) | genEntropy | testTimer | timerStats (varRounds : Bool)
  | setRounds (rounds : Nat) | clone

/-- one operation on the generator state, results dropped (`clone`: continue with the clone) -/
def stepC : Op → Rng → TMC Rng
  | .nextU32, j => do let (_, j) ← nextU32 j; pure j
  | .nextU64, j => do let (_, j) ← nextU64 j; pure j
  | .fill n, j => do let (_, j) ← fill n j; pure j
  | .genEntropy, j => do let (_, j) ← genEntropy j; pure j
  | .testTimer, j => do let (_, j) ← testTimer j; pure j
  | .timerStats v, j => do let (_, j) ← timerStats j v; pure j
  | .setRounds r, j => liftE (setRounds j r)
  | .clone, j => liftE (clone j)

def stepM : Op → Rng → TM Rng
  | .nextU32, j => do let (_, j) ← Rngs.Jitter.nextU32 j; pure j
  | .nextU64, j => do let (_, j) ← Rngs.Jitter.nextU64 j; pure j
  | .fill n, j => do let (_, j) ← Rngs.Jitter.fill n j; pure j
  | .genEntropy, j => do let (_, j) ← Rngs.Jitter.genEntropy j; pure j
  | .testTimer, j => do let (_, j) ← Rngs.Jitter.testTimer j; pure j
  | .timerStats v, j => do let (_, j) ← Rngs.Jitter.timerStats j v; pure j
  | .setRounds r, j => pure { j with rounds := r }
  | .clone, j => pure (Rngs.Jitter.clone j)

def runC : List Op → Rng → TMC Rng
  | [], j => pure j
  | op :: ops, j => stepC op j >>= runC ops

def runM : List Op → Rng → TM Rng
  | [], j => pure j
  | op :: ops, j => stepM op j >>= runM ops

theorem stepC_eq (op : Op) (j : Rng) (h : Inv j) (hop : op ≠ .setRounds 0) :
    stepC op j = liftTM (stepM op j) ∧ Post (stepM op j) Inv := by
  cases op with
  | nextU32 =>
    exact ⟨bind_eq_lift (fun _ => True) (nextU32_eq j h) (Post.trivial _) (fun ⟨_, _⟩ _ => rfl),
      Post.bind (nextU32_post j h) (fun ⟨_, _⟩ h1 => Post.pure h1)⟩
  | nextU64 =>
    exact ⟨bind_eq_lift (fun _ => True) (nextU64_eq j h) (Post.trivial _) (fun ⟨_, _⟩ _ => rfl),
      Post.bind (nextU64_post j) (fun ⟨_, _⟩ h1 => Post.pure h1)⟩
  | fill n =>
    exact ⟨bind_eq_lift (fun _ => True) (fill_eq n j h) (Post.trivial _) (fun ⟨_, _⟩ _ => rfl),
      Post.bind (fill_post n j h) (fun ⟨_, _⟩ h1 => Post.pure h1)⟩
  | genEntropy =>
    exact ⟨bind_eq_lift (fun _ => True) (genEntropy_eq j h) (Post.trivial _) (fun ⟨_, _⟩ _ => rfl),
      Post.bind (genEntropy_post j) (fun ⟨_, _⟩ h1 => Post.pure h1)⟩
  | testTimer =>
    exact ⟨bind_eq_lift (fun _ => True) (testTimer_eq j h) (Post.trivial _) (fun ⟨_, _⟩ _ => rfl),
      Post.bind (testTimer_post j h) (fun ⟨_, _⟩ h1 => Post.pure h1)⟩
  | timerStats v =>
    exact ⟨bind_eq_lift (fun _ => True) (timerStats_eq j v h) (Post.trivial _) (fun ⟨_, _⟩ _ => rfl),
      Post.bind (timerStats_post j v) (fun ⟨_, _⟩ h1 => Post.pure h1)⟩
  | setRounds r =>
    have hr : 0 < r := by
      cases r with
      | zero => exact absurd rfl hop
      | succ r => exact Nat.succ_pos r
    refine ⟨?_, Post.pure h⟩
    show liftE (setRounds j r) = _
    rw [setRounds_pos j r hr]
    rfl
  | clone => exact ⟨rfl, Post.pure h⟩

/-- C14 (JitterRng): any sequence of public operations not containing `set_rounds(0)`, from any
    state satisfying the invariant (e.g. `new_with_timer`), for any timer: no panic -/
theorem runC_eq : ∀ (ops : List Op) (j : Rng), Inv j → (∀ op, op ∈ ops → op ≠ .setRounds 0) →
    runC ops j = liftTM (runM ops j) := by
  intro ops
  induction ops with
  | nil => intro j _ _; rfl
  | cons op ops ih =>
    intro j h hops
    obtain ⟨e1, e2⟩ := stepC_eq op j h (hops op (List.mem_cons_self ..))
    exact bind_eq_lift Inv e1 e2 (fun j1 h1 => ih j1 h1 (fun o ho => hops o (List.mem_cons_of_mem _ ho)))

theorem runC_noPanic (ops : List Op) (hops : ∀ op, op ∈ ops → op ≠ .setRounds 0) :
    NoPanic (runC ops Rngs.Jitter.newWithTimer) :=
  NoPanic.of_eq (runC_eq ops _ Inv_newWithTimer hops)

/-- … and `set_rounds(0)` does panic, whatever the timer -/
theorem runC_setRounds_zero (j : Rng) (ops : List Op) (rs : List U64) :
    runC (.setRounds 0 :: ops) j rs = .error .assertFailed := rfl

/-! ## `JitterRng::new()`: `test_timer`, then `set_rounds` with its result

  `new()` is not part of the model (its timer is the platform's); what matters for C14 is that
  `set_rounds(rounds)` is called with the value `test_timer` returned, so that value must be
  positive. -/

theorem lookup_pos : ∀ a, a < 16 → 2 ≤ a → 0 < LOG2_LOOKUP.getD a 0 ∧ LOG2_LOOKUP.getD a 0 < 256 := by
  decide

theorem roundsOf_pos (deltaSum : Nat) (h2 : 2 * TESTLOOPCOUNT ≤ deltaSum) (h : deltaSum < 2 ^ 64) :
    0 < Rngs.Jitter.roundsOf deltaSum ∧ Rngs.Jitter.roundsOf deltaSum < 256 := by
  have hT : TESTLOOPCOUNT = 300 := rfl
  unfold Rngs.Jitter.roundsOf
  rw [hT] at h2 ⊢
  have havg : deltaSum / 300 < 2 ^ 64 := by omega
  have havg2 : 2 ≤ deltaSum / 300 := by omega
  simp only []
  generalize deltaSum / 300 = avg at havg havg2
  by_cases h16 : avg ≥ 16
  · rw [if_pos h16]
    have hlog := (Nat.log2_lt (n := avg) (k := 64) (by omega)).mpr havg
    generalize Nat.log2 avg = L at hlog
    have h1 : 0 < (64 * 2 + (L + 1) - 1) / (L + 1) := Nat.div_pos (by omega) (by omega)
    have h3 : (64 * 2 + (L + 1) - 1) / (L + 1) ≤ 64 * 2 + (L + 1) - 1 := Nat.div_le_self _ _
    rw [Nat.mod_eq_of_lt (by omega)]
    exact ⟨h1, by omega⟩
  · rw [if_neg h16]
    exact lookup_pos avg (by omega) havg2

theorem verdict_pos (p : Probe) (h : p.deltaSum < 2 ^ 64) (r : Nat)
    (e : Rngs.Jitter.verdict p = .ok r) : 0 < r ∧ r < 256 := by
  unfold Rngs.Jitter.verdict at e
  split at e
  · cases e
  · split at e
    · cases e
    · rename_i h2
      split at e
      · cases e
      · split at e
        · cases e
        · cases e
          exact roundsOf_pos _ (by omega) h

theorem testTimer_rounds_post (j : Rng) (h : Inv j) :
    Post (Rngs.Jitter.testTimer j) (fun r => Inv r.2 ∧ ∀ n, r.1 = .ok n → 0 < n ∧ n < 256) := by
  unfold Rngs.Jitter.testTimer
  refine Post.bind (Post.trivial _) (fun t _ => ?_)
  simp only []
  refine Post.bind (probeLoop_post _ 0 j _ {} 0 h PInv_zero (by decide)) ?_
  intro ⟨r, j1⟩ ⟨h1, hr⟩
  cases r with
  | error e => exact Post.pure ⟨h1, fun n e => by cases e⟩
  | ok p =>
    have hp := (hr p rfl).1
    have hlt : p.deltaSum < 2 ^ 64 := by
      have : CLEARCACHE + TESTLOOPCOUNT = 400 := rfl
      rw [this] at hp
      omega
    exact Post.pure ⟨h1, fun n e => verdict_pos p hlt n e⟩

/-- the model-level reading of `JitterRng::new()` -/
def newM (cached : Nat) : TM (Except TimerError Rng) := do
  let state := Rngs.Jitter.newWithTimer
  let (r, state) ← (if cached == 0 then Rngs.Jitter.testTimer state else pure (.ok cached, state))
  match r with
  | .error e => pure (.error e)
  | .ok rounds =>
    let state := { state with rounds := rounds }
    let (_, state) ← Rngs.Jitter.genEntropy state
    pure (.ok state)

/-- `new()` never panics: `test_timer` never returns `Ok(0)` -/
theorem new_eq (cached : Nat) : new cached = liftTM (newM cached) := by
  unfold new newM
  rw [newWithTimer_ok, liftE_ok_bind]
  simp only []
  have key : ∀ (x : Except TimerError Nat × Rng), (Inv x.2 ∧ ∀ n, x.1 = .ok n → 0 < n) →
      (match x with
        | (r, state) =>
          match r with
          | .error e => (pure (.error e) : TMC (Except TimerError Rng))
          | .ok rounds => do
            let state ← liftE (setRounds state rounds)
            let (_, state) ← genEntropy state
            pure (.ok state)) =
      liftTM (match x with
        | (r, state) =>
          match r with
          | .error e => pure (.error e)
          | .ok rounds =>
            let state := { state with rounds := rounds }
            do
              let (_, state) ← Rngs.Jitter.genEntropy state
              pure (.ok state)) := by
    intro ⟨r, st⟩ ⟨h1, h2⟩
    cases r with
    | error e => rfl
    | ok rounds =>
      simp only []
      rw [setRounds_pos st rounds (h2 rounds rfl), liftE_ok_bind]
      refine bind_eq_lift (fun _ => True) (genEntropy_eq _ h1) (Post.trivial _) ?_
      intro ⟨_, _⟩ _
      rfl
  by_cases hc : (cached == 0) = true
  · rw [if_pos hc, if_pos hc]
    exact bind_eq_lift _ (testTimer_eq _ Inv_newWithTimer)
      ((testTimer_rounds_post _ Inv_newWithTimer).mono (fun r hr => ⟨hr.1, fun n e => (hr.2 n e).1⟩)) key
  · rw [if_neg hc, if_neg hc, TMC.pure_bind]
    have hpos : 0 < cached := by
      cases cached with
      | zero => exact absurd rfl hc
      | succ c => exact Nat.succ_pos c
    exact key (.ok cached, Rngs.Jitter.newWithTimer)
      ⟨Inv_newWithTimer, fun n e => by cases e; exact hpos⟩

theorem new_noPanic (cached : Nat) : NoPanic (new cached) := NoPanic.of_eq (new_eq cached)

/-! ## the checks are not vacuous: outside the proven preconditions they do fire -/

example (j : Rng) : randomLoopCnt j 0 [5#64] = .error .divByZero := rfl
example (j : Rng) : randomLoopCnt j 64 [5#64] = .error .overflow := rfl
example : memaccess { Rngs.Jitter.newWithTimer with memPrevIndex := 2 ^ 64 - 1 } false [] =
    .error .overflow := rfl
example : subI64C (2 ^ 62) (-(2 ^ 62)) = .error .overflow := rfl
example : probeAcc false 0 1 1 { deltaSum := 2 ^ 64 - 1 } = .error .overflow := rfl
/-- blocked is not a panic: an exhausted timer script gives `.ok none` -/
example (j : Rng) : nextU64 j [] = .ok none := rfl

end Jitter
end Checked
end Rngs
