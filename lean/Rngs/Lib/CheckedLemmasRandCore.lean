/-
  Rngs.Lib.CheckedLemmasRandCore — rand_core: the checked functions equal `.ok` of the model.
-/
import Rngs.Lib.CheckedLemmas
import Rngs.Checked.RandCore
namespace Rngs
namespace Checked

theorem length_U32_toLE (w : U32) : (U32.toLE w).length = 4 := rfl
theorem length_U64_toLE (w : U64) : (U64.toLE w).length = 8 := rfl

/-! ## read_*_into -/

theorem readU32s_ok (bs : List U8) (n : Nat) (h : 4 * n ≤ bs.length) (hl : bs.length < USIZE) :
    readU32s bs n = .ok (Rngs.readU32s bs n) := by
  have h1 : 4 * n < USIZE := by omega
  simp [readU32s, mulC_ok h1, assertC_ok (b := decide (bs.length ≥ 4 * n)) (by simpa using h),
    chunksExactC_ok (n := 4) (by decide)]

theorem readU64s_ok (bs : List U8) (n : Nat) (h : 8 * n ≤ bs.length) (hl : bs.length < USIZE) :
    readU64s bs n = .ok (Rngs.readU64s bs n) := by
  have h1 : 8 * n < USIZE := by omega
  simp [readU64s, mulC_ok h1, assertC_ok (b := decide (bs.length ≥ 8 * n)) (by simpa using h),
    chunksExactC_ok (n := 8) (by decide)]

/-! ## fill_bytes_via_next -/

theorem fillLoop_ok {σ : Type} (n64 : σ → U64 × σ) :
    ∀ (k left : Nat) (s : σ), 8 * k ≤ left →
      fillLoop n64 k left s =
        .ok ((Rngs.fillLoop n64 k s).1, (Rngs.fillLoop n64 k s).2, left - 8 * k) := by
  intro k
  induction k with
  | zero => intro left s _; rfl
  | succ k ih =>
    intro left s h
    have h8 : 8 ≤ left := by omega
    simp only [fillLoop, Rngs.fillLoop, splitAtC_ok h8, ok_bind,
      copyLenC_ok (length_U64_toLE _).symm, ih (left - 8) _ (by omega), pure_eq_ok]
    congr 3
    omega

theorem fillBytesViaNext_ok {σ : Type} (g : Direct σ) (n : Nat) (s : σ) :
    fillBytesViaNext g n s = .ok (Rngs.fillBytesViaNext g n s) := by
  have hleft : n - 8 * (n / 8) = n % 8 := by omega
  simp only [fillBytesViaNext, Rngs.fillBytesViaNext, fillLoop_ok g.nextU64 (n / 8) n s (by omega),
    ok_bind, hleft]
  have hr : n % 8 < 8 := Nat.mod_lt _ (by decide)
  by_cases h4 : n % 8 > 4
  · simp only [h4, if_true]
    rw [sliceToC_ok (by rw [length_U64_toLE]; omega), ok_bind,
      copyLenC_ok (by rw [List.length_take, length_U64_toLE]; omega), ok_bind]
    rfl
  · simp only [h4, if_false]
    by_cases h0 : n % 8 > 0
    · simp only [h0, if_true]
      rw [sliceToC_ok (by rw [length_U32_toLE]; omega), ok_bind,
        copyLenC_ok (by rw [List.length_take, length_U32_toLE]; omega), ok_bind]
      rfl
    · simp only [h0, if_false]; rfl

/-! ## fill_via_chunks -/

theorem fillViaChunks_bounds {w : Nat} (size : Nat) (toLE : BitVec w → List U8)
    (src : List (BitVec w)) (destLen : Nat) (hs : size ≠ 0) :
    (Rngs.fillViaChunks size toLE src destLen).1 ≤ src.length ∧
    (Rngs.fillViaChunks size toLE src destLen).2.1 ≤ destLen ∧
    (0 < destLen → 0 < src.length → 0 < (Rngs.fillViaChunks size toLE src destLen).2.1) := by
  have hpos : 0 < size := Nat.pos_of_ne_zero hs
  have hmul : destLen / size * size ≤ destLen := Nat.div_mul_le_self _ _
  have hmin1 : min (destLen / size) src.length ≤ destLen / size := Nat.min_le_left _ _
  have hmin2 : min (destLen / size) src.length ≤ src.length := Nat.min_le_right _ _
  have hle : min (destLen / size) src.length * size ≤ destLen :=
    Nat.le_trans (Nat.mul_le_mul_right _ hmin1) hmul
  have hdm : size * (destLen / size) + destLen % size = destLen := Nat.div_add_mod _ _
  unfold Rngs.fillViaChunks
  simp only
  split
  · rename_i x rest hd
    have hlen : min (destLen / size) src.length < src.length := by
      have := congrArg List.length hd
      simp at this; omega
    have hm : min (destLen / size) src.length = destLen / size := by omega
    split
    · rename_i hn
      refine ⟨by simp; omega, ?_, fun _ _ => by simp; omega⟩
      simp only [hm]
      rw [Nat.mul_comm]; omega
    · rename_i hn
      refine ⟨by simp; omega, by simpa using hle, fun hd0 _ => ?_⟩
      simp only [hm]
      have : destLen % size = 0 := by omega
      have h2 : size * (destLen / size) = destLen := by omega
      rw [Nat.mul_comm, h2]; exact hd0
  · rename_i hd
    refine ⟨by simpa using hmin2, by simpa using hle, fun hd0 hs0 => ?_⟩
    have hlen : src.length ≤ min (destLen / size) src.length := by
      have := congrArg List.length hd
      simp at this; omega
    simp only
    have : 0 < min (destLen / size) src.length := by omega
    exact Nat.mul_pos this hpos

theorem fillViaChunks_ok {w : Nat} (size : Nat) (toLE : BitVec w → List U8)
    (src : List (BitVec w)) (destLen : Nat) (hs : size ≠ 0) (hle : ∀ x, (toLE x).length = size)
    (hd : destLen < USIZE) (hsrc : src.length < USIZE) :
    fillViaChunks size toLE src destLen = .ok (Rngs.fillViaChunks size toLE src destLen) := by
  have hb := fillViaChunks_bounds size toLE src destLen hs
  have hpos : 0 < size := Nat.pos_of_ne_zero hs
  have hmul : destLen / size * size ≤ destLen := Nat.div_mul_le_self _ _
  have hmin1 : min (destLen / size) src.length ≤ destLen / size := Nat.min_le_left _ _
  have hmin2 : min (destLen / size) src.length ≤ src.length := Nat.min_le_right _ _
  have hle2 : min (destLen / size) src.length * size ≤ destLen :=
    Nat.le_trans (Nat.mul_le_mul_right _ hmin1) hmul
  have hmap : (src.take (min (destLen / size) src.length)).mapM
      (fun x => do copyLenC size (toLE x).length; pure (toLE x) : BitVec w → Except Panic (List U8))
      = .ok ((src.take (min (destLen / size) src.length)).map toLE) :=
    mapM_ok toLE _ _ (fun x _ => by rw [copyLenC_ok (hle x).symm]; rfl)
  unfold fillViaChunks
  rw [chunksExactC_ok hs, ok_bind]
  simp only [hmap, ok_bind, mulC_ok (Nat.lt_of_le_of_lt hle2 hd)]
  unfold Rngs.fillViaChunks at hb ⊢
  simp only at hb ⊢
  rw [List.flatMap_def] at hb ⊢
  cases hdrop : List.drop (min (destLen / size) src.length) src with
  | nil => rfl
  | cons x rest =>
    simp only [hdrop] at hb ⊢
    have hmod : destLen % size < size := Nat.mod_lt _ hpos
    by_cases hn : destLen % size > 0
    · simp only [hn, if_true] at hb ⊢
      rw [sliceToC_ok (by rw [hle]; omega), ok_bind,
        copyLenC_ok (by rw [List.length_take, hle]; omega), ok_bind,
        addC_ok (by omega), ok_bind, addC_ok (by omega), ok_bind]
      rfl
    · simp only [hn, if_false]; rfl

end Checked
end Rngs
