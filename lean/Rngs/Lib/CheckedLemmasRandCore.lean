/-
  Rngs.Lib.CheckedLemmasRandCore — rand_core: the checked functions equal `.ok` of the model.
-/
import Rngs.Lib.CheckedLemmas
import Rngs.Checked.RandCore
namespace Rngs
namespace Checked

theorem length_U32_toLE (w : U32) : (U32.toLE w).length = 4 := rfl
theorem length_U64_toLE (w : U64) : (U64.toLE w).length = 8 := rfl

/-! ## read_*_into -/

theorem readU32s_ok (bs : List U8) (n : Nat) (h : 4 * n ≤ bs.length) (hl : bs.length < USIZE) :
    readU32s bs n = .ok (Rngs.readU32s bs n) := by
  have h1 : 4 * n < USIZE := by omega
  simp [readU32s, mulC_ok h1, assertC_ok (b := decide (bs.length ≥ 4 * n)) (by simpa using h),
    chunksExactC_ok (n := 4) (by decide)]

theorem readU64s_ok (bs : List U8) (n : Nat) (h : 8 * n ≤ bs.length) (hl : bs.length < USIZE) :
    readU64s bs n = .ok (Rngs.readU64s bs n) := by
  have h1 : 8 * n < USIZE := by omega
  simp [readU64s, mulC_ok h1, assertC_ok (b := decide (bs.length ≥ 8 * n)) (by simpa using h),
    chunksExactC_ok (n := 8) (by decide)]

/-! ## fill_bytes_via_next -/

theorem fillLoop_ok {σ : Type} (n64 : σ → U64 × σ) :
    ∀ (k left : Nat) (s : σ), 8 * k ≤ left →
      fillLoop n64 k left s =
        .ok ((Rngs.fillLoop n64 k s).1, (Rngs.fillLoop n64 k s).2, left - 8 * k) := by
  intro k
  induction k with
  | zero => intro left s _; rfl
  | succ k ih =>
    intro left s h
    have h8 : 8 ≤ left := by omega
    simp only [fillLoop, Rngs.fillLoop, splitAtC_ok h8, ok_bind,
      copyLenC_ok (length_U64_toLE _).symm, ih (left - 8) _ (by omega), pure_eq_ok]
    congr 3
    omega

theorem fillBytesViaNext_ok {σ : Type} (g : Direct σ) (n : Nat) (s : σ) :
    fillBytesViaNext g n s = .ok (Rngs.fillBytesViaNext g n s) := by
  have hleft : n - 8 * (n / 8) = n % 8 := by omega
  simp only [fillBytesViaNext, Rngs.fillBytesViaNext, fillLoop_ok g.nextU64 (n / 8) n s (by omega),
    ok_bind, hleft]
  have hr : n % 8 < 8 := Nat.mod_lt _ (by decide)
  by_cases h4 : n % 8 > 4
  · simp only [h4, if_true]
    rw [sliceToC_ok (by rw [length_U64_toLE]; omega), ok_bind,
      copyLenC_ok (by rw [List.length_take, length_U64_toLE]; omega), ok_bind]
    rfl
  · simp only [h4, if_false]
    by_cases h0 : n % 8 > 0
    · simp only [h0, if_true]
      rw [sliceToC_ok (by rw [length_U32_toLE]; omega), ok_bind,
        copyLenC_ok (by rw [List.length_take, length_U32_toLE]; omega), ok_bind]
      rfl
    · simp only [h0, if_false]; rfl

/-! ## fill_via_chunks -/

theorem fillViaChunks_bounds {w : Nat} (size : Nat) (toLE : BitVec w → List U8)
    (src : List (BitVec w)) (destLen : Nat) (hs : size ≠ 0) :
    (Rngs.fillViaChunks size toLE src destLen).1 ≤ src.length ∧
    (Rngs.fillViaChunks size toLE src destLen).2.1 ≤ destLen ∧
    (0 < destLen → 0 < src.length → 0 < (Rngs.fillViaChunks size toLE src destLen).2.1) := by
  have hpos : 0 < size := Nat.pos_of_ne_zero hs
  have hmul : destLen / size * size ≤ destLen := Nat.div_mul_le_self _ _
  have hmin1 : min (destLen / size) src.length ≤ destLen / size := Nat.min_le_left _ _
  have hmin2 : min (destLen / size) src.length ≤ src.length := Nat.min_le_right _ _
  have hle : min (destLen / size) src.length * size ≤ destLen :=
    Nat.le_trans (Nat.mul_le_mul_right _ hmin1) hmul
  have hdm : size * (destLen / size) + destLen % size = destLen := Nat.div_add_mod _ _
  unfold Rngs.fillViaChunks
  simp only
  split
  · rename_i x rest hd
    have hlen : min (destLen / size) src.length < src.length := by
      have := congrArg List.length hd
      simp at this; omega
    have hm : min (destLen / size) src.length = destLen / size := by omega
    split
    · rename_i hn
      refine ⟨by simp; omega, ?_, fun _ _ => by simp; omega⟩
      simp only [hm]
      rw [Nat.mul_comm]; omega
    · rename_i hn
      refine ⟨by simp; omega, by simpa using hle, fun hd0 _ => ?_⟩
      simp only [hm]
      have : destLen % size = 0 := by omega
      have h2 : size * (destLen / size) = destLen := by omega
      rw [Nat.mul_comm, h2]; exact hd0
  · rename_i hd
    refine ⟨by simpa using hmin2, by simpa using hle, fun hd0 hs0 => ?_⟩
    have hlen : src.length ≤ min (destLen / size) src.length := by
      have := congrArg List.length hd
      simp at this; omega
    simp only
    have : 0 < min (destLen / size) src.length := by omega
    exact Nat.mul_pos this hpos

theorem fillViaChunks_ok {w : Nat} (size : Nat) (toLE : BitVec w → List U8)
    (src : List (BitVec w)) (destLen : Nat) (hs : size ≠ 0) (hle : ∀ x, (toLE x).length = size)
    (hd : destLen < USIZE) (hsrc : src.length < USIZE) :
    fillViaChunks size toLE src destLen = .ok (Rngs.fillViaChunks size toLE src destLen) := by
  have hb := fillViaChunks_bounds size toLE src destLen hs
  have hpos : 0 < size := Nat.pos_of_ne_zero hs
  have hmul : destLen / size * size ≤ destLen := Nat.div_mul_le_self _ _
  have hmin1 : min (destLen / size) src.length ≤ destLen / size := Nat.min_le_left _ _
  have hmin2 : min (destLen / size) src.length ≤ src.length := Nat.min_le_right _ _
  have hle2 : min (destLen / size) src.length * size ≤ destLen :=
    Nat.le_trans (Nat.mul_le_mul_right _ hmin1) hmul
  have hmap : (src.take (min (destLen / size) src.length)).mapM
      (fun x => do copyLenC size (toLE x).length; pure (toLE x) : BitVec w → Except Panic (List U8))
      = .ok ((src.take (min (destLen / size) src.length)).map toLE) :=
    mapM_ok toLE _ _ (fun x _ => by rw [copyLenC_ok (hle x).symm]; rfl)
  unfold fillViaChunks
  rw [chunksExactC_ok hs, ok_bind]
  simp only [hmap, ok_bind, mulC_ok (Nat.lt_of_le_of_lt hle2 hd)]
  unfold Rngs.fillViaChunks at hb ⊢
  simp only at hb ⊢
  rw [List.flatMap_def] at hb ⊢
  cases hdrop : List.drop (min (destLen / size) src.length) src with
  | nil => rfl
  | cons x rest =>
    simp only [hdrop] at hb ⊢
    have hmod : destLen % size < size := Nat.mod_lt _ hpos
    by_cases hn : destLen % size > 0
    · simp only [hn, if_true] at hb ⊢
      rw [sliceToC_ok (by rw [hle]; omega), ok_bind,
        copyLenC_ok (by rw [List.length_take, hle]; omega), ok_bind,
        addC_ok (by omega), ok_bind, addC_ok (by omega), ok_bind]
      rfl
    · simp only [hn, if_false]; rfl

/-! ## BlockRng, BlockRng64 -/

theorem USIZE_eq : USIZE = 2 ^ 64 := rfl

/-- what a checked block core must satisfy relative to the model's: under the core invariant
    `CI` and for a results buffer of the right length, the checked `generate` does not panic,
    returns what the model returns, and the invariant and the buffer length are preserved.
    `2 < len` is what `BlockRng::next_u64` needs (`generate_and_set(2)`). -/
structure BlockOK {σ : Type} {w : Nat} (c : BlockCore σ w) (cC : BlockCoreC σ w) (CI : σ → Prop) : Prop where
  len_gt : 2 < c.len
  len_lt : c.len < 2 ^ 63
  gen_ok : ∀ s res, CI s → res.size = c.len → cC.generate s res = .ok (c.generate s res)
  gen_inv : ∀ s res, CI s → res.size = c.len → CI (c.generate s res).2
  gen_size : ∀ s res, CI s → res.size = c.len → (c.generate s res).1.size = c.len

namespace BlockRng
variable {σ : Type}

/-- the data-structure invariant of `BlockRng` -/
def Inv (c : BlockCore σ 32) (CI : σ → Prop) (r : Rngs.BlockRng σ) : Prop :=
  r.index ≤ c.len ∧ r.results.size = c.len ∧ CI r.core

theorem new_inv (c : BlockCore σ 32) (CI : σ → Prop) (core : σ) (h : CI core) :
    Inv c CI (Rngs.BlockRng.new c core) := by
  simp [Inv, Rngs.BlockRng.new, h]

variable {c : BlockCore σ 32} {cC : BlockCoreC σ 32} {CI : σ → Prop}

theorem generateAndSet_ok (ok : BlockOK c cC CI) (r : Rngs.BlockRng σ) (h : Inv c CI r)
    (i : Nat) (hi : i < c.len) :
    generateAndSet cC r i = .ok (r.generateAndSet c i) ∧ Inv c CI (r.generateAndSet c i)
      ∧ (r.generateAndSet c i).index = i := by
  obtain ⟨h1, h2, h3⟩ := h
  refine ⟨?_, ⟨?_, ?_, ?_⟩, rfl⟩
  · simp only [generateAndSet, Rngs.BlockRng.generateAndSet]
    rw [assertC_ok (by simp [h2, hi]), ok_bind, ok.gen_ok _ _ h3 h2, ok_bind]
    rfl
  · exact Nat.le_of_lt hi
  · exact ok.gen_size _ _ h3 h2
  · exact ok.gen_inv _ _ h3 h2


theorem nextU32_ok (ok : BlockOK c cC CI) (r : Rngs.BlockRng σ) (h : Inv c CI r) :
    nextU32 cC r = .ok (r.nextU32 c) ∧ Inv c CI (r.nextU32 c).2 := by
  have hl := ok.len_gt
  have hl2 := ok.len_lt
  have hU := USIZE_eq
  have hsz := h.2.1
  unfold nextU32 Rngs.BlockRng.nextU32
  rw [hsz]
  by_cases hge : r.index ≥ c.len
  · obtain ⟨g1, g2, g3⟩ := generateAndSet_ok ok r h 0 (by omega)
    simp only [hge, if_true, g1, ok_bind]
    obtain ⟨i1, i2, i3⟩ := g2
    rw [rdC_ok (by omega), ok_bind, addC_ok (by omega), ok_bind]
    exact ⟨rfl, by simp only; omega, i2, i3⟩
  · simp only [hge, if_false, pure_eq_ok, ok_bind]
    obtain ⟨i1, i2, i3⟩ := h
    rw [rdC_ok (by omega), ok_bind, addC_ok (by omega), ok_bind]
    exact ⟨rfl, by simp only; omega, i2, i3⟩

theorem readU64_ok (results : Array U32) (i : Nat) (h : i + 1 < results.size) (h2 : results.size < 2^63) :
    readU64 results i = .ok (Rngs.BlockRng.readU64 results i) := by
  have hU := USIZE_eq
  unfold readU64 Rngs.BlockRng.readU64
  rw [addC_ok (by omega), ok_bind, sliceInclC_ok (by omega) h, ok_bind]
  simp only
  rw [rdSubC_ok (by omega) h, ok_bind, rdSubC_ok (by omega) (by omega), ok_bind]
  rfl

theorem nextU64_ok (ok : BlockOK c cC CI) (r : Rngs.BlockRng σ) (h : Inv c CI r) :
    nextU64 cC r = .ok (r.nextU64 c) ∧ Inv c CI (r.nextU64 c).2 := by
  have hl := ok.len_gt
  have hl2 := ok.len_lt
  have hU := USIZE_eq
  have hsz := h.2.1
  unfold nextU64 Rngs.BlockRng.nextU64
  simp only [hsz]
  rw [subC_ok (by omega), ok_bind]
  by_cases h1 : r.index < c.len - 1
  · simp only [h1, if_true]
    rw [addC_ok (by omega), ok_bind, readU64_ok _ _ (by omega) (by omega), ok_bind]
    obtain ⟨i1, i2, i3⟩ := h
    exact ⟨rfl, by simp only; omega, i2, i3⟩
  · simp only [h1, if_false]
    by_cases h2 : r.index ≥ c.len
    · simp only [h2, if_true]
      obtain ⟨g1, g2, g3⟩ := generateAndSet_ok ok r h 2 (by omega)
      rw [g1, ok_bind, readU64_ok _ _ (by rw [g2.2.1]; omega) (by rw [g2.2.1]; omega), ok_bind]
      exact ⟨rfl, g2⟩
    · simp only [h2, if_false]
      obtain ⟨g1, g2, g3⟩ := generateAndSet_ok ok r h 1 (by omega)
      rw [ok_bind, rdC_ok (by omega), ok_bind, g1, ok_bind,
        rdC_ok (by rw [g2.2.1]; omega), ok_bind]
      exact ⟨rfl, g2⟩


theorem fillLoop_ok (ok : BlockOK c cC CI) (n : Nat) (hn : n < USIZE) :
    ∀ (fuel readLen : Nat) (acc : List U8) (r : Rngs.BlockRng σ), Inv c CI r → readLen ≤ n →
      fillLoop cC n fuel readLen acc r = .ok (Rngs.BlockRng.fillLoop c n fuel readLen acc r) ∧
      Inv c CI (Rngs.BlockRng.fillLoop c n fuel readLen acc r).2 := by
  have hl := ok.len_gt
  have hl2 := ok.len_lt
  have hU := USIZE_eq
  intro fuel
  induction fuel with
  | zero => intro readLen acc r h _; exact ⟨rfl, h⟩
  | succ fuel ih =>
    intro readLen acc r h hr
    unfold fillLoop Rngs.BlockRng.fillLoop
    by_cases hlt : readLen < n
    · simp only [hlt, if_true]
      -- the state after the optional refill
      have key : ∃ r', (if r.index ≥ r.results.size then generateAndSet cC r 0 else pure r) = .ok r' ∧
          (if r.index ≥ c.len then r.generateAndSet c 0 else r) = r' ∧ Inv c CI r' := by
        rw [h.2.1]
        by_cases hge : r.index ≥ c.len
        · obtain ⟨g1, g2, _⟩ := generateAndSet_ok ok r h 0 (by omega)
          exact ⟨_, by simp only [hge, if_true, g1], by simp only [hge, if_true], g2⟩
        · exact ⟨r, by simp only [hge, if_false, pure_eq_ok], by simp only [hge, if_false], h⟩
      obtain ⟨r', k1, k2, k3⟩ := key
      rw [k1, ok_bind, k2]
      obtain ⟨i1, i2, i3⟩ := k3
      have hsrc : (r'.results.toList.drop r'.index).length = c.len - r'.index := by
        simp [i2]
      rw [sliceFromC_ok (by omega), ok_bind, sliceFromC_ok (by omega), ok_bind,
        fillViaChunks_ok 4 U32.toLE _ _ (by decide) length_U32_toLE (by omega) (by omega), ok_bind]
      have hb := fillViaChunks_bounds 4 U32.toLE (r'.results.toList.drop r'.index) (n - readLen) (by decide)
      rw [hsrc] at hb
      generalize Rngs.fillViaChunks 4 U32.toLE (r'.results.toList.drop r'.index) (n - readLen) = p at hb ⊢
      obtain ⟨consumed, filled, bytes⟩ := p
      simp only at hb ⊢
      rw [addC_ok (by omega), ok_bind, addC_ok (by omega), ok_bind]
      exact ih _ _ _ ⟨by simp only; omega, i2, i3⟩ (by omega)
    · simp only [hlt, if_false]; exact ⟨rfl, h⟩

theorem fillBytes_ok (ok : BlockOK c cC CI) (n : Nat) (hn : n < USIZE) (r : Rngs.BlockRng σ)
    (h : Inv c CI r) :
    fillBytes cC n r = .ok (r.fillBytes c n) ∧ Inv c CI (r.fillBytes c n).2 :=
  fillLoop_ok ok n hn _ _ _ r h (Nat.zero_le _)

end BlockRng
namespace BlockRng64
variable {σ : Type}

/-- the data-structure invariant of `BlockRng64`; `halfUsed → 1 ≤ index` is what keeps
    `self.index - self.half_used as usize` from underflowing -/
def Inv (c : BlockCore σ 64) (CI : σ → Prop) (r : Rngs.BlockRng64 σ) : Prop :=
  r.index ≤ c.len ∧ r.results.size = c.len ∧ (r.halfUsed = true → 1 ≤ r.index) ∧ CI r.core

theorem new_inv (c : BlockCore σ 64) (CI : σ → Prop) (core : σ) (h : CI core) :
    Inv c CI (Rngs.BlockRng64.new c core) := by
  simp [Inv, Rngs.BlockRng64.new, h]

variable {c : BlockCore σ 64} {cC : BlockCoreC σ 64} {CI : σ → Prop}

theorem nextU32_ok (ok : BlockOK c cC CI) (r : Rngs.BlockRng64 σ) (h : Inv c CI r) :
    nextU32 cC r = .ok (r.nextU32 c) ∧ Inv c CI (r.nextU32 c).2 := by
  have hl := ok.len_gt
  have hl2 := ok.len_lt
  have hU := USIZE_eq
  obtain ⟨i1, i2, i3, i4⟩ := h
  unfold nextU32 Rngs.BlockRng64.nextU32
  rw [i2]
  cases hh : r.halfUsed with
  | true =>
    have i3' := i3 hh
    have hlt : ¬ (r.index - 1 ≥ c.len) := by omega
    simp only [Bool.toNat_true, subC_ok i3', ok_bind, hlt, if_false, pure_eq_ok, hh]
    rw [mulC_ok (by omega), ok_bind]
    simp only [Bool.not_true, Bool.toNat_false]
    rw [addC_ok (by omega), ok_bind, rdC_ok (by omega), ok_bind, shiftAmtC_ok (by omega), ok_bind]
    exact ⟨rfl, by simp only [Nat.add_zero]; exact i1, i2, by simp, i4⟩
  | false =>
    simp only [Bool.toNat_false, subC_ok (Nat.zero_le _), ok_bind, Nat.sub_zero]
    by_cases hge : r.index ≥ c.len
    · simp only [hge, if_true, ok.gen_ok _ _ i4 i2, ok_bind, pure_eq_ok, Bool.not_false,
        Bool.toNat_true, Bool.toNat_false]
      rw [mulC_ok (by omega), ok_bind]
      rw [addC_ok (by omega), ok_bind, rdC_ok (by simp only [ok.gen_size _ _ i4 i2]; omega), ok_bind,
        shiftAmtC_ok (by omega), ok_bind]
      exact ⟨rfl, by simp only; omega, ok.gen_size _ _ i4 i2, by simp, ok.gen_inv _ _ i4 i2⟩
    · simp only [hge, if_false, pure_eq_ok, ok_bind, hh, Bool.not_false,
        Bool.toNat_true, Bool.toNat_false]
      rw [mulC_ok (by omega), ok_bind]
      rw [addC_ok (by omega), ok_bind, rdC_ok (by omega), ok_bind, shiftAmtC_ok (by omega), ok_bind]
      exact ⟨rfl, by simp only; omega, i2, by simp, i4⟩

theorem nextU64_ok (ok : BlockOK c cC CI) (r : Rngs.BlockRng64 σ) (h : Inv c CI r) :
    nextU64 cC r = .ok (r.nextU64 c) ∧ Inv c CI (r.nextU64 c).2 := by
  have hl := ok.len_gt
  have hl2 := ok.len_lt
  have hU := USIZE_eq
  obtain ⟨i1, i2, i3, i4⟩ := h
  unfold nextU64 Rngs.BlockRng64.nextU64
  rw [i2]
  by_cases hge : r.index ≥ c.len
  · simp only [hge, if_true, ok.gen_ok _ _ i4 i2, ok_bind, pure_eq_ok]
    rw [rdC_ok (by simp only [ok.gen_size _ _ i4 i2]; omega), ok_bind, addC_ok (by omega), ok_bind]
    exact ⟨rfl, by simp only; omega, ok.gen_size _ _ i4 i2, by simp, ok.gen_inv _ _ i4 i2⟩
  · simp only [hge, if_false, pure_eq_ok, ok_bind]
    rw [rdC_ok (by omega), ok_bind, addC_ok (by omega), ok_bind]
    exact ⟨rfl, by simp only; omega, i2, by simp, i4⟩

theorem fillLoop_ok (ok : BlockOK c cC CI) (n : Nat) (hn : n < USIZE) :
    ∀ (fuel readLen : Nat) (acc : List U8) (r : Rngs.BlockRng64 σ), Inv c CI r → r.halfUsed = false →
      readLen ≤ n →
      fillLoop cC n fuel readLen acc r = .ok (Rngs.BlockRng64.fillLoop c n fuel readLen acc r) ∧
      Inv c CI (Rngs.BlockRng64.fillLoop c n fuel readLen acc r).2 := by
  have hl := ok.len_gt
  have hl2 := ok.len_lt
  have hU := USIZE_eq
  intro fuel
  induction fuel with
  | zero => intro readLen acc r h _ _; exact ⟨rfl, h⟩
  | succ fuel ih =>
    intro readLen acc r h hhu hr
    unfold fillLoop Rngs.BlockRng64.fillLoop
    by_cases hlt : readLen < n
    · simp only [hlt, if_true]
      generalize hr' : (if r.index ≥ c.len then _ else r : Rngs.BlockRng64 σ) = r'
      have key : (if r.index ≥ r.results.size then (do
            let (res, core) ← cC.generate r.core r.results
            pure { r with results := res, core := core, index := 0 }) else pure r) = .ok r' ∧
          Inv c CI r' ∧ r'.halfUsed = false := by
        obtain ⟨i1, i2, i3, i4⟩ := h
        rw [i2, ← hr']
        by_cases hge : r.index ≥ c.len
        · simp only [hge, if_true, ok.gen_ok _ _ i4 i2, ok_bind]
          exact ⟨rfl, ⟨Nat.zero_le _, ok.gen_size _ _ i4 i2, by simp [hhu], ok.gen_inv _ _ i4 i2⟩, hhu⟩
        · simp only [hge, if_false, pure_eq_ok]
          exact ⟨trivial, ⟨i1, i2, i3, i4⟩, hhu⟩
      obtain ⟨k1, k3, k4⟩ := key
      rw [k1, ok_bind]
      obtain ⟨i1, i2, i3, i4⟩ := k3
      have hsrc : (r'.results.toList.drop r'.index).length = c.len - r'.index := by
        simp [i2]
      rw [sliceFromC_ok (by omega), ok_bind, sliceFromC_ok (by omega), ok_bind,
        fillViaChunks_ok 8 U64.toLE _ _ (by decide) length_U64_toLE (by omega) (by omega), ok_bind]
      have hb := fillViaChunks_bounds 8 U64.toLE (r'.results.toList.drop r'.index) (n - readLen) (by decide)
      rw [hsrc] at hb
      generalize Rngs.fillViaChunks 8 U64.toLE (r'.results.toList.drop r'.index) (n - readLen) = p at hb ⊢
      obtain ⟨consumed, filled, bytes⟩ := p
      simp only at hb ⊢
      rw [addC_ok (by omega), ok_bind, addC_ok (by omega), ok_bind]
      exact ih _ _ _ ⟨by simp only; omega, i2, by simp [k4], i4⟩ k4 (by omega)
    · simp only [hlt, if_false]; exact ⟨rfl, h⟩

theorem fillBytes_ok (ok : BlockOK c cC CI) (n : Nat) (hn : n < USIZE) (r : Rngs.BlockRng64 σ)
    (h : Inv c CI r) :
    fillBytes cC n r = .ok (r.fillBytes c n) ∧ Inv c CI (r.fillBytes c n).2 :=
  fillLoop_ok ok n hn _ _ _ _ ⟨h.1, h.2.1, by simp, h.2.2.2⟩ rfl (Nat.zero_le _)

end BlockRng64

/-! ## seed_from_u64 (PCG32) -/

theorem length_pcg32 (st : U64) : (pcg32 st).1.length = 4 := rfl

/-- the rotate amount of `pcg32` is below the width anyway -/
theorem pcg32_rot_lt (state : U64) : ((state >>> 59).setWidth 32 : U32).toNat < 32 := by
  have h : (state >>> 59).toNat < 32 := by
    rw [BitVec.toNat_ushiftRight, Nat.shiftRight_eq_div_pow]
    have := state.isLt
    omega
  rw [BitVec.toNat_setWidth]
  exact Nat.lt_of_le_of_lt (Nat.mod_le _ _) h

theorem pcg32Chunks_ok : ∀ (k : Nat) (st : U64), pcg32Chunks k st = .ok (Rngs.pcg32Chunks k st) := by
  intro k
  induction k with
  | zero => intro st; rfl
  | succ k ih =>
    intro st
    simp only [pcg32Chunks, Rngs.pcg32Chunks, copyLenC_ok (length_pcg32 _).symm, ok_bind, ih,
      pure_eq_ok]

theorem pcg32Seed_ok (len : Nat) (state : U64) :
    pcg32Seed len state = .ok (Rngs.pcg32Seed len state) := by
  have hr : len % 4 < 4 := Nat.mod_lt _ (by decide)
  simp only [pcg32Seed, Rngs.pcg32Seed, chunksExactC_ok (n := 4) (by decide), ok_bind,
    pcg32Chunks_ok]
  by_cases h : len % 4 ≠ 0
  · rw [if_pos h, if_pos h]
    rw [sliceToC_ok (by rw [length_pcg32]; omega), ok_bind,
      copyLenC_ok (by rw [List.length_take, length_pcg32]; omega), ok_bind]
    rfl
  · rw [if_neg h, if_neg h]; rfl

theorem length_readU32s (bs : List U8) (n : Nat) : (Rngs.readU32s bs n).length = n := by
  simp [Rngs.readU32s]

theorem length_pcg32Chunks : ∀ (k : Nat) (st : U64), (Rngs.pcg32Chunks k st).1.length = 4 * k := by
  intro k
  induction k with
  | zero => intro st; rfl
  | succ k ih =>
    intro st
    simp only [Rngs.pcg32Chunks, List.length_append, length_pcg32, ih]
    omega

theorem length_pcg32Seed (len : Nat) (st : U64) : (Rngs.pcg32Seed len st).length = len := by
  unfold Rngs.pcg32Seed
  simp only []
  by_cases h : len % 4 ≠ 0
  · rw [if_pos h, List.length_append, length_pcg32Chunks, List.length_take, length_pcg32]
    omega
  · rw [if_neg h, length_pcg32Chunks]
    omega

end Checked
end Rngs
