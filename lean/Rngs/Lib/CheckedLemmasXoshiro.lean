/-
  Rngs.Lib.CheckedLemmasXoshiro — xoshiro family, SplitMix64, XorShift: jumps and seeding.
-/
import Rngs.Lib.CheckedLemmasRandCore
import Rngs.Checked.Xoshiro
namespace Rngs
namespace Checked

theorem jumpWord_ok {σ : Type} {w : Nat} (step : σ → σ) (xor : σ → σ → σ) (j : BitVec w) (p : σ × σ) :
    jumpWord step xor j p = .ok (Rngs.jumpWord step xor j p) := by
  unfold jumpWord Rngs.jumpWord
  refine (foldlM_ok (fun _ => True) _ _ (List.range w) p trivial ?_).1
  intro b hb q _
  rw [shiftAmtC_ok (List.mem_range.mp hb), ok_bind]
  exact ⟨rfl, trivial⟩

theorem jumpLoop_ok {σ : Type} {w : Nat} (step : σ → σ) (xor : σ → σ → σ) (zero : σ)
    (words : List (BitVec w)) (s : σ) :
    jumpLoop step xor zero words s = .ok (Rngs.jumpLoop step xor zero words s) := by
  unfold jumpLoop Rngs.jumpLoop
  rw [(foldlM_ok (fun _ => True) (fun p j => Rngs.jumpWord step xor j p)
    (fun p j => jumpWord step xor j p) words (zero, s) trivial
    (fun j _ q _ => ⟨jumpWord_ok step xor j q, trivial⟩)).1, ok_bind]
  rfl

/-! ## lengths -/

theorem length_fillLoop {σ : Type} (n64 : σ → U64 × σ) :
    ∀ (k : Nat) (s : σ), (Rngs.fillLoop n64 k s).1.length = 8 * k := by
  intro k
  induction k with
  | zero => intro s; rfl
  | succ k ih =>
    intro s
    simp only [Rngs.fillLoop, List.length_append, length_U64_toLE, ih]
    omega

theorem length_fillBytesViaNext {σ : Type} (g : Direct σ) (n : Nat) (s : σ) :
    (Rngs.fillBytesViaNext g n s).1.length = n := by
  unfold Rngs.fillBytesViaNext
  simp only []
  by_cases h4 : n % 8 > 4
  · rw [if_pos h4]
    simp only [List.length_append, length_fillLoop, List.length_take, length_U64_toLE]
    omega
  · rw [if_neg h4]
    by_cases h0 : n % 8 > 0
    · rw [if_pos h0]
      simp only [List.length_append, length_fillLoop, List.length_take, length_U32_toLE]
      omega
    · rw [if_neg h0]
      simp only [length_fillLoop]
      omega

/-! ## SplitMix64 -/

theorem SplitMix64.fromSeed_ok (seed : List U8) (h : seed.length = 8) :
    SplitMix64.fromSeed seed = .ok (Rngs.SplitMix64.fromSeed seed) := by
  have hU := USIZE_eq
  unfold SplitMix64.fromSeed Rngs.SplitMix64.fromSeed
  rw [readU64s_ok seed 1 (by omega) (by omega), ok_bind, lrdC_ok (by simp [Rngs.readU64s])]
  simp [Rngs.readU64s, List.range, List.range.loop]

theorem SplitMix64.seedFromU64_ok (x : U64) :
    SplitMix64.seedFromU64 x = .ok (Rngs.SplitMix64.seedFromU64 x) :=
  SplitMix64.fromSeed_ok _ (length_U64_toLE x)

theorem SplitMix64.fill_ok (n : Nat) (x : U64) :
    SplitMix64.fill n x = .ok (Rngs.SplitMix64.fill n x) :=
  fillBytesViaNext_ok _ n x

/-! ## XoGen -/

namespace XoGen
variable {σ : Type}

theorem fill_ok (g : Rngs.XoGen σ) (n : Nat) (s : σ) : fill g n s = .ok (g.fill n s) :=
  fillBytesViaNext_ok _ n s

theorem decode_ok (g : Rngs.XoGen σ) (wb nw : Nat) (hwb : wb ≠ 0) (seed : List U8)
    (h : wb * nw ≤ seed.length) (hl : seed.length < USIZE) :
    decode g wb nw seed = .ok (g.decode seed) := by
  unfold decode
  rw [mulC_ok (by omega), ok_bind, assertC_ok (by simpa using h), ok_bind, chunksExactC_ok hwb,
    ok_bind]
  rfl

theorem splitmixBytes_ok (g : Rngs.XoGen σ) (x : U64) :
    splitmixBytes g x = .ok (Rngs.SplitMix64.fill g.seedLen (Rngs.SplitMix64.seedFromU64 x)).1 ∧
    (Rngs.SplitMix64.fill g.seedLen (Rngs.SplitMix64.seedFromU64 x)).1.length = g.seedLen := by
  refine ⟨?_, length_fillBytesViaNext _ _ _⟩
  unfold splitmixBytes
  rw [SplitMix64.seedFromU64_ok, ok_bind, SplitMix64.fill_ok, ok_bind]
  rfl

/-- `from_seed` never panics: the seed array has exactly `seedLen = wb * nw` bytes -/
theorem fromSeedFuel_ok (g : Rngs.XoGen σ) (wb nw : Nat) (hwb : wb ≠ 0)
    (hlen : g.seedLen = wb * nw) (hl : g.seedLen < USIZE) :
    ∀ (fuel : Nat) (seed : List U8), seed.length = g.seedLen →
      fromSeedFuel g wb nw fuel seed = .ok (g.fromSeedFuel fuel seed) := by
  intro fuel
  induction fuel with
  | zero => intro seed _; rfl
  | succ fuel ih =>
    intro seed hs
    unfold fromSeedFuel Rngs.XoGen.fromSeedFuel
    by_cases hz : isAllZero seed = true
    · rw [if_pos hz, if_pos hz]
      obtain ⟨b1, b2⟩ := splitmixBytes_ok g 0
      rw [b1, ok_bind]
      exact ih _ b2
    · rw [if_neg hz, if_neg hz, decode_ok g wb nw hwb seed (by omega) (by omega), ok_bind]
      rfl

theorem seedFromU64Fuel_ok (g : Rngs.XoGen σ) (wb nw : Nat) (hwb : wb ≠ 0)
    (hlen : g.seedLen = wb * nw) (hl : g.seedLen < USIZE) (fuel : Nat) (x : U64) :
    seedFromU64Fuel g wb nw fuel x = .ok (g.seedFromU64Fuel fuel x) := by
  obtain ⟨b1, b2⟩ := splitmixBytes_ok g x
  unfold seedFromU64Fuel Rngs.XoGen.seedFromU64Fuel
  rw [b1, ok_bind]
  exact fromSeedFuel_ok g wb nw hwb hlen hl fuel _ b2

end XoGen

/-! ## XorShift -/

namespace XorShift

theorem fromSeed_ok (seed : List U8) (h : seed.length = 16) :
    fromSeed seed = .ok (Rngs.XorShift.fromSeed seed) := by
  have hU := USIZE_eq
  unfold fromSeed
  rw [readU32s_ok seed 4 (by omega) (by omega), ok_bind]
  rfl

theorem seedFromU64_ok (x : U64) : seedFromU64 x = .ok (Rngs.XorShift.seedFromU64 x) := by
  unfold seedFromU64 Rngs.XorShift.seedFromU64
  rw [pcg32Seed_ok, ok_bind]
  exact fromSeed_ok _ (length_pcg32Seed _ _)

theorem fill_ok (n : Nat) (s : Rngs.XorShift.State) : fill n s = .ok (Rngs.XorShift.fill n s) :=
  fillBytesViaNext_ok _ n s

end XorShift

end Checked
end Rngs
