/-
  Rngs.Lib.Codec — little-endian codec laws: `from_le_bytes ∘ to_le_bytes = id` and back.
-/
import Rngs.Model.Words
namespace Rngs.Codec
open Rngs

theorem toLE_ofLE32 (b0 b1 b2 b3 : U8) : U32.toLE (U32.ofLE b0 b1 b2 b3) = [b0, b1, b2, b3] := by
  simp only [U32.toLE, List.cons.injEq, and_true]
  refine ⟨?_, ?_, ?_, ?_⟩ <;> (ext i hi; simp [U32.ofLE]; try grind)

theorem ofLE_toLE32 (w : U32) :
    U32.ofLE (w.setWidth 8) ((w >>> 8).setWidth 8) ((w >>> 16).setWidth 8) ((w >>> 24).setWidth 8) = w := by
  ext i hi
  simp [U32.ofLE]
  grind

theorem toLE_ofLE64 (b0 b1 b2 b3 b4 b5 b6 b7 : U8) :
    U64.toLE (U64.ofLE b0 b1 b2 b3 b4 b5 b6 b7) = [b0, b1, b2, b3, b4, b5, b6, b7] := by
  simp only [U64.toLE, List.cons.injEq, and_true]
  refine ⟨?_, ?_, ?_, ?_, ?_, ?_, ?_, ?_⟩ <;> (ext i hi; simp [U64.ofLE]; try grind)

theorem ofLE_toLE64 (w : U64) :
    U64.ofLE (w.setWidth 8) ((w >>> 8).setWidth 8) ((w >>> 16).setWidth 8) ((w >>> 24).setWidth 8)
      ((w >>> 32).setWidth 8) ((w >>> 40).setWidth 8) ((w >>> 48).setWidth 8) ((w >>> 56).setWidth 8) = w := by
  ext i hi
  simp [U64.ofLE]
  grind

/-- a word decoded from bytes is zero only if the bytes are -/
theorem ofLE32_eq_zero {b0 b1 b2 b3 : U8} (h : U32.ofLE b0 b1 b2 b3 = 0) : b0 = 0 ∧ b1 = 0 ∧ b2 = 0 ∧ b3 = 0 := by
  have := toLE_ofLE32 b0 b1 b2 b3
  rw [h] at this
  simp [U32.toLE] at this
  obtain ⟨h0, h1, h2, h3⟩ := this
  exact ⟨h0.symm, h1.symm, h2.symm, h3.symm⟩

theorem ofLE64_eq_zero {b0 b1 b2 b3 b4 b5 b6 b7 : U8} (h : U64.ofLE b0 b1 b2 b3 b4 b5 b6 b7 = 0) :
    b0 = 0 ∧ b1 = 0 ∧ b2 = 0 ∧ b3 = 0 ∧ b4 = 0 ∧ b5 = 0 ∧ b6 = 0 ∧ b7 = 0 := by
  have := toLE_ofLE64 b0 b1 b2 b3 b4 b5 b6 b7
  rw [h] at this
  simp [U64.toLE] at this
  obtain ⟨h0, h1, h2, h3, h4, h5, h6, h7⟩ := this
  exact ⟨h0.symm, h1.symm, h2.symm, h3.symm, h4.symm, h5.symm, h6.symm, h7.symm⟩

/-- `from_le_bytes(x.to_le_bytes()) = x` through the seed readers -/
theorem le64At_toLE (x : U64) : le64At (U64.toLE x) 0 = x := by
  simp [le64At, byteAt, U64.toLE, ofLE_toLE64]

theorem le32At_toLE (x : U32) : le32At (U32.toLE x) 0 = x := by
  simp [le32At, byteAt, U32.toLE, ofLE_toLE32]

theorem toLE32_length (w : U32) : (U32.toLE w).length = 4 := rfl
theorem toLE64_length (w : U64) : (U64.toLE w).length = 8 := rfl

/-- a byte string all of whose positions read zero is all zero -/
theorem isAllZero_of_byteAt (bs : List U8) (h : ∀ i, i < bs.length → byteAt bs i = 0) : isAllZero bs = true := by
  simp only [isAllZero, List.all_eq_true, beq_iff_eq]
  intro b hb
  obtain ⟨i, hi, rfl⟩ := List.getElem_of_mem hb
  have := h i hi
  simpa [byteAt, List.getD_eq_getElem?_getD, List.getElem?_eq_getElem hi] using this

theorem byteAt_of_isAllZero (bs : List U8) (h : isAllZero bs = true) (i : Nat) : byteAt bs i = 0 := by
  simp only [isAllZero, List.all_eq_true, beq_iff_eq] at h
  unfold byteAt
  by_cases hi : i < bs.length
  · simp [List.getD_eq_getElem?_getD, List.getElem?_eq_getElem hi, h _ (List.getElem_mem hi)]
  · simp [List.getD_eq_getElem?_getD, List.getElem?_eq_none (Nat.le_of_not_lt hi)]

end Rngs.Codec
