/-
  Rngs.Lib.DimCert — the certificate machinery behind `Extra/EquidistributionDim` (core Lean only,
  imported by the generated `Cert/Dim*` modules):

  * `phi2 / phi4 / phi8 T π`: the map `s ↦ (π s, π (T s), …, π (T^(k-1) s))` from a state of `k`
    words to a `k`-tuple of words, the tuple written in the same shape as the state; additive when
    `T` and `π` are;
  * `psi2 / psi4 / psi8 cols`: the map given by a literal table — the xor of the table entries
    selected by the bits of the argument (every entry a state packed into one `Nat`, so that the
    kernel's GMP arithmetic does the xors); additive whatever the table holds;
  * `dimCheck F emb lo cnt`: the closed, decidable statement `F (emb eᵢ) = emb eᵢ` for the one-bit
    words `eᵢ`, `lo ≤ i < lo + cnt` — evaluated by the kernel with `F = psi ∘ phi`;
  * `leftInv_S2 / _S4 / _S8`: two additive maps whose composition fixes the one-bit states compose
    to the identity (`XorLinear`'s "an additive map that vanishes on the basis vanishes").
-/
import Rngs.Lib.XorLinear
namespace Rngs
namespace DimCert
open XorSpace

/-! ## `Nat` under xor -/

instance instXorSpaceNat : XorSpace Nat where
  xor a b := a ^^^ b
  zero := 0
  xor_assoc := Nat.xor_assoc
  xor_comm := Nat.xor_comm
  xor_zero := Nat.xor_zero
  xor_self := Nat.xor_self

/-! ## the forward map: `k` consecutive values of one state word -/

/-- `(π s, π (T s))` -/
def phi2 {σ : Type} {w : Nat} (T : σ → σ) (π : σ → BitVec w) (s : σ) : S2 w :=
  ⟨π s, π (T s)⟩

/-- `(π s, π (T s), π (T² s), π (T³ s))` -/
def phi4 {σ : Type} {w : Nat} (T : σ → σ) (π : σ → BitVec w) (s : σ) : S4 w :=
  ⟨π s, π (T s), π (T (T s)), π (T (T (T s)))⟩

/-- `(π s, π (T s), …, π (T⁷ s))` -/
def phi8 {σ : Type} (T : σ → σ) (π : σ → U64) (s : σ) : S8 :=
  ⟨π s, π (T s), π (T (T s)), π (T (T (T s))), π (T (T (T (T s)))), π (T (T (T (T (T s))))),
   π (T (T (T (T (T (T s)))))), π (T (T (T (T (T (T (T s)))))))⟩

theorem phi2_add {σ : Type} [XorSpace σ] {w : Nat} {T : σ → σ} {π : σ → BitVec w}
    (hT : IsAdd T) (hπ : IsAdd π) : IsAdd (phi2 T π) := by
  intro a b
  have hT' : ∀ a b, T (XorSpace.xor a b) = XorSpace.xor (T a) (T b) := hT
  have hπ' : ∀ a b, π (XorSpace.xor a b) = π a ^^^ π b := hπ
  simp only [phi2, hT', hπ']
  rfl

theorem phi4_add {σ : Type} [XorSpace σ] {w : Nat} {T : σ → σ} {π : σ → BitVec w}
    (hT : IsAdd T) (hπ : IsAdd π) : IsAdd (phi4 T π) := by
  intro a b
  have hT' : ∀ a b, T (XorSpace.xor a b) = XorSpace.xor (T a) (T b) := hT
  have hπ' : ∀ a b, π (XorSpace.xor a b) = π a ^^^ π b := hπ
  simp only [phi4, hT', hπ']
  rfl

theorem phi8_add {σ : Type} [XorSpace σ] {T : σ → σ} {π : σ → U64}
    (hT : IsAdd T) (hπ : IsAdd π) : IsAdd (phi8 T π) := by
  intro a b
  have hT' : ∀ a b, T (XorSpace.xor a b) = XorSpace.xor (T a) (T b) := hT
  have hπ' : ∀ a b, π (XorSpace.xor a b) = π a ^^^ π b := hπ
  simp only [phi8, hT', hπ']
  rfl

/-! ## the table map -/

/-- xor of the entries `c₀, c₁, …` of the list selected by the bits `i, i+1, …` of `x` -/
def selXor {w : Nat} (x : BitVec w) : List Nat → Nat → Nat
  | [], _ => 0
  | c :: cs, i => (if x.getLsbD i then c else 0) ^^^ selXor x cs (i + 1)

theorem selXor_xor {w : Nat} (x y : BitVec w) (cs : List Nat) (i : Nat) :
    selXor (x ^^^ y) cs i = selXor x cs i ^^^ selXor y cs i := by
  induction cs generalizing i with
  | nil => simp [selXor]
  | cons c cs ih =>
    simp only [selXor, ih, BitVec.getLsbD_xor]
    have e : ∀ p q r s : Nat, (p ^^^ q) ^^^ (r ^^^ s) = (p ^^^ r) ^^^ (q ^^^ s) :=
      fun p q r s => XorSpace.xor_xor_xor_comm (σ := Nat) p q r s
    rw [← e]
    congr 1
    cases x.getLsbD i <;> cases y.getLsbD i <;> simp

theorem selXor_add {w : Nat} (cs : List Nat) (i : Nat) :
    IsAdd (fun x : BitVec w => selXor x cs i) := fun x y => selXor_xor x y cs i

/-- unpack: word `a` of the state is bits `[a·w, (a+1)·w)` of `N` -/
def ofNat2 {w : Nat} (N : Nat) : S2 w := ⟨BitVec.ofNat w N, BitVec.ofNat w (N >>> w)⟩

def ofNat4 {w : Nat} (N : Nat) : S4 w :=
  ⟨BitVec.ofNat w N, BitVec.ofNat w (N >>> w), BitVec.ofNat w (N >>> (2 * w)),
   BitVec.ofNat w (N >>> (3 * w))⟩

def ofNat8 (N : Nat) : S8 :=
  ⟨BitVec.ofNat 64 N, BitVec.ofNat 64 (N >>> 64), BitVec.ofNat 64 (N >>> 128),
   BitVec.ofNat 64 (N >>> 192), BitVec.ofNat 64 (N >>> 256), BitVec.ofNat 64 (N >>> 320),
   BitVec.ofNat 64 (N >>> 384), BitVec.ofNat 64 (N >>> 448)⟩

theorem ofNat2_add {w : Nat} : IsAdd (ofNat2 (w := w)) := by
  intro a b
  show ofNat2 (a ^^^ b) = S2.xor (ofNat2 a) (ofNat2 b)
  simp only [ofNat2, S2.xor, Nat.shiftRight_xor_distrib, BitVec.ofNat_xor]

theorem ofNat4_add {w : Nat} : IsAdd (ofNat4 (w := w)) := by
  intro a b
  show ofNat4 (a ^^^ b) = S4.xor (ofNat4 a) (ofNat4 b)
  simp only [ofNat4, S4.xor, Nat.shiftRight_xor_distrib, BitVec.ofNat_xor]

theorem ofNat8_add : IsAdd ofNat8 := by
  intro a b
  show ofNat8 (a ^^^ b) = S8.xor (ofNat8 a) (ofNat8 b)
  simp only [ofNat8, S8.xor, Nat.shiftRight_xor_distrib, BitVec.ofNat_xor]

/-- the map with table `cols`: `cols[a][i]` is the (packed) image of bit `i` of word `a` -/
def psi2 {w : Nat} (cols : List (List Nat)) (y : S2 w) : S2 w :=
  ofNat2 (selXor y.s0 (cols.getD 0 []) 0 ^^^ selXor y.s1 (cols.getD 1 []) 0)

def psi4 {w : Nat} (cols : List (List Nat)) (y : S4 w) : S4 w :=
  ofNat4 ((selXor y.s0 (cols.getD 0 []) 0 ^^^ selXor y.s1 (cols.getD 1 []) 0) ^^^
          (selXor y.s2 (cols.getD 2 []) 0 ^^^ selXor y.s3 (cols.getD 3 []) 0))

def psi8 (cols : List (List Nat)) (y : S8) : S8 :=
  ofNat8 (((selXor y.s0 (cols.getD 0 []) 0 ^^^ selXor y.s1 (cols.getD 1 []) 0) ^^^
           (selXor y.s2 (cols.getD 2 []) 0 ^^^ selXor y.s3 (cols.getD 3 []) 0)) ^^^
          ((selXor y.s4 (cols.getD 4 []) 0 ^^^ selXor y.s5 (cols.getD 5 []) 0) ^^^
           (selXor y.s6 (cols.getD 6 []) 0 ^^^ selXor y.s7 (cols.getD 7 []) 0)))

private theorem word_add {σ : Type} [XorSpace σ] {w : Nat} {π : σ → BitVec w} (hπ : IsAdd π)
    (cs : List Nat) : IsAdd (fun y : σ => selXor (π y) cs 0) :=
  IsAdd.comp (selXor_add cs 0) hπ

theorem psi2_add {w : Nat} (cols : List (List Nat)) : IsAdd (psi2 (w := w) cols) :=
  have h := IsAdd.comp (ofNat2_add (w := w)) (IsAdd.xor' (word_add (π := S2.s0) (fun _ _ => rfl) (cols.getD 0 [])) (word_add (π := S2.s1) (fun _ _ => rfl) (cols.getD 1 [])))
  fun a b => h a b

theorem psi4_add {w : Nat} (cols : List (List Nat)) : IsAdd (psi4 (w := w) cols) :=
  have h := IsAdd.comp (ofNat4_add (w := w))
    (IsAdd.xor' (IsAdd.xor' (word_add (π := S4.s0) (fun _ _ => rfl) (cols.getD 0 [])) (word_add (π := S4.s1) (fun _ _ => rfl) (cols.getD 1 []))) (IsAdd.xor' (word_add (π := S4.s2) (fun _ _ => rfl) (cols.getD 2 [])) (word_add (π := S4.s3) (fun _ _ => rfl) (cols.getD 3 []))))
  fun a b => h a b

theorem psi8_add (cols : List (List Nat)) : IsAdd (psi8 cols) :=
  have h := IsAdd.comp ofNat8_add
    (IsAdd.xor' (IsAdd.xor' (IsAdd.xor' (word_add (π := S8.s0) (fun _ _ => rfl) (cols.getD 0 [])) (word_add (π := S8.s1) (fun _ _ => rfl) (cols.getD 1 []))) (IsAdd.xor' (word_add (π := S8.s2) (fun _ _ => rfl) (cols.getD 2 [])) (word_add (π := S8.s3) (fun _ _ => rfl) (cols.getD 3 [])))) (IsAdd.xor' (IsAdd.xor' (word_add (π := S8.s4) (fun _ _ => rfl) (cols.getD 4 [])) (word_add (π := S8.s5) (fun _ _ => rfl) (cols.getD 5 []))) (IsAdd.xor' (word_add (π := S8.s6) (fun _ _ => rfl) (cols.getD 6 [])) (word_add (π := S8.s7) (fun _ _ => rfl) (cols.getD 7 [])))))
  fun a b => h a b

/-! ## the kernel-evaluated check and its soundness -/

/-- `F` fixes `emb eᵢ` for the one-bit words `eᵢ = 2^i`, `lo ≤ i < lo + cnt` -/
def dimCheck {σ : Type} [DecidableEq σ] {w : Nat} (F : σ → σ) (emb : BitVec w → σ)
    (lo cnt : Nat) : Bool :=
  (List.range' lo cnt).all fun i =>
    decide (F (emb (BitVec.twoPow w i)) = emb (BitVec.twoPow w i))

theorem dimCheck_sound {σ : Type} [DecidableEq σ] {w : Nat} {F : σ → σ} {emb : BitVec w → σ}
    {lo cnt : Nat} (h : dimCheck F emb lo cnt = true) :
    ∀ i, lo ≤ i → i < lo + cnt → F (emb (BitVec.twoPow w i)) = emb (BitVec.twoPow w i) := by
  intro i h1 h2
  exact of_decide_eq_true ((List.all_eq_true.mp h) i (List.mem_range'_1.mpr ⟨h1, h2⟩))

/-- cover `0 ≤ i < w` by chunks of `chunk` indices -/
theorem dimCheck_cover {σ : Type} [DecidableEq σ] {w : Nat} {F : σ → σ} {emb : BitVec w → σ}
    (chunk : Nat) (hc : 0 < chunk)
    (h : ∀ c, c * chunk < w → dimCheck F emb (c * chunk) chunk = true) :
    ∀ i, i < w → F (emb (BitVec.twoPow w i)) = emb (BitVec.twoPow w i) := by
  intro i hi
  have h1 : i / chunk * chunk ≤ i := Nat.div_mul_le_self i chunk
  have h2 : i < i / chunk * chunk + chunk := by
    have := Nat.lt_div_mul_add (a := i) hc
    omega
  exact dimCheck_sound (h (i / chunk) (by omega)) i h1 h2

/-! ## from the one-bit states to all states -/

private theorem fix_add {σ : Type} [XorSpace σ] {F : σ → σ} (hF : IsAdd F) :
    IsAdd (fun s => XorSpace.xor (F s) s) := IsAdd.xor' hF IsAdd.id

theorem leftInv_S2 {w : Nat} {Φ Ψ : S2 w → S2 w} (hΦ : IsAdd Φ) (hΨ : IsAdd Ψ)
    (h0 : ∀ i, i < w → Ψ (Φ ⟨BitVec.twoPow w i, 0⟩) = ⟨BitVec.twoPow w i, 0⟩)
    (h1 : ∀ i, i < w → Ψ (Φ ⟨0, BitVec.twoPow w i⟩) = ⟨0, BitVec.twoPow w i⟩)
    (s : S2 w) : Ψ (Φ s) = s :=
  xor_eq_zero_iff.mp
    (S2.eq_zero_of_basis (fix_add (IsAdd.comp hΨ hΦ))
      (fun i hi => xor_eq_zero_iff.mpr (h0 i hi)) (fun i hi => xor_eq_zero_iff.mpr (h1 i hi)) s)

theorem leftInv_S4 {w : Nat} {Φ Ψ : S4 w → S4 w} (hΦ : IsAdd Φ) (hΨ : IsAdd Ψ)
    (h0 : ∀ i, i < w → Ψ (Φ ⟨BitVec.twoPow w i, 0, 0, 0⟩) = ⟨BitVec.twoPow w i, 0, 0, 0⟩)
    (h1 : ∀ i, i < w → Ψ (Φ ⟨0, BitVec.twoPow w i, 0, 0⟩) = ⟨0, BitVec.twoPow w i, 0, 0⟩)
    (h2 : ∀ i, i < w → Ψ (Φ ⟨0, 0, BitVec.twoPow w i, 0⟩) = ⟨0, 0, BitVec.twoPow w i, 0⟩)
    (h3 : ∀ i, i < w → Ψ (Φ ⟨0, 0, 0, BitVec.twoPow w i⟩) = ⟨0, 0, 0, BitVec.twoPow w i⟩)
    (s : S4 w) : Ψ (Φ s) = s :=
  xor_eq_zero_iff.mp
    (S4.eq_zero_of_basis (fix_add (IsAdd.comp hΨ hΦ))
      (fun i hi => xor_eq_zero_iff.mpr (h0 i hi)) (fun i hi => xor_eq_zero_iff.mpr (h1 i hi))
      (fun i hi => xor_eq_zero_iff.mpr (h2 i hi)) (fun i hi => xor_eq_zero_iff.mpr (h3 i hi)) s)

theorem leftInv_S8 {Φ Ψ : S8 → S8} (hΦ : IsAdd Φ) (hΨ : IsAdd Ψ)
    (h : ∀ a, a < 8 → ∀ i, i < 64 →
      Ψ (Φ (S8.single a (BitVec.twoPow 64 i))) = S8.single a (BitVec.twoPow 64 i))
    (s : S8) : Ψ (Φ s) = s :=
  xor_eq_zero_iff.mp
    (S8.eq_zero_of_basis (fix_add (IsAdd.comp hΨ hΦ))
      (fun a ha i hi => xor_eq_zero_iff.mpr (h a ha i hi)) s)

/-- a left inverse makes the map injective -/
theorem injective_of_leftInv {σ : Type} {Φ Ψ : σ → σ} (h : ∀ s, Ψ (Φ s) = s) :
    ∀ a b, Φ a = Φ b → a = b := fun a b e => by rw [← h a, e, h b]

end DimCert
end Rngs
