/-
  Rngs.Lib.EqCongr — generic part of property C10 (`==` and `clone` are congruences):
    * `BEquiv`: the equivalence "same core, same index, and — unless the buffer is exhausted —
      same buffered words" on `BlockRng` states, and the proof that every `RngCore` call
      respects it for a core whose `generate` overwrites its whole results buffer;
    * HC-128: the invariant of the reachable `Hc128Rng` states ("the buffer, if any of it is
      unread, is what the `generate` call that produced the current core wrote"), under which
      the hand-written `==` (core and index only) implies `BEquiv`;
    * `Isaac.Core.beq` is equality.
-/
import Rngs.Lib.BlockRefineInst
import Rngs.Lib.Hc128Inj
namespace Rngs
namespace EqCongr
open Rngs.Spec.Stream Rngs.StreamRefine Rngs.BlockRefine

/-! ## `BlockRng`: equality up to a stale buffer -/

section blockrng
variable {σ : Type} (c : BlockCore σ 32)

/-- same core, same index, and the same buffered words unless nothing of the buffer is left
    to read (then the buffer contents can never be observed) -/
structure BEquiv (a b : BlockRng σ) : Prop where
  core : a.core = b.core
  index : a.index = b.index
  le : a.index ≤ c.len
  sa : a.results.size = c.len
  sb : b.results.size = c.len
  buf : a.index < c.len → a.results = b.results

variable {c}

theorem BEquiv.rfl' {a : BlockRng σ} (sa : a.results.size = c.len) (le : a.index ≤ c.len) :
    BEquiv c a a := ⟨rfl, rfl, le, sa, sa, fun _ => rfl⟩

theorem BEquiv.eq_of_lt {a b : BlockRng σ} (h : BEquiv c a b) (hi : a.index < c.len) : a = b := by
  have h1 := h.core; have h2 := h.index; have h3 := h.buf hi
  cases a; cases b; simp_all

/-- every call keeps the buffer length and the index range -/
theorem op_wf (hs : SizeOK c) (hN : 2 ≤ c.len) (a : BlockRng σ) (op : Op)
    (sa : a.results.size = c.len) (le : a.index ≤ c.len) :
    (opBlock32 c a op).2.results.size = c.len ∧ (opBlock32 c a op).2.index ≤ c.len := by
  obtain ⟨-, hrel, -⟩ := step32_sim (c := c) (r₀ := a.results) (c₀ := a.core) hs sa hN a.index a
    ⟨0, false⟩ op ⟨At.start le, rfl⟩
  exact ⟨hrel.size hs sa, hrel.le⟩

/-- **Every call respects `BEquiv`**: same output, equivalent successor states. -/
theorem op_congr (hs : SizeOK c) (hN : 2 ≤ c.len)
    (hind : ∀ core r r', r.size = c.len → r'.size = c.len → c.generate core r = c.generate core r')
    (a b : BlockRng σ) (op : Op) (h : BEquiv c a b) :
    (opBlock32 c a op).1 = (opBlock32 c b op).1
    ∧ BEquiv c (opBlock32 c a op).2 (opBlock32 c b op).2 := by
  by_cases hi : a.index < c.len
  · have := h.eq_of_lt hi
    subst this
    obtain ⟨w1, w2⟩ := op_wf hs hN a op h.sa h.le
    exact ⟨rfl, BEquiv.rfl' w1 w2⟩
  · -- both buffers are exhausted: the call starts with a refill, which overwrites them
    have hia : a.index ≥ c.len := by omega
    have hib : b.index ≥ c.len := by rw [← h.index]; exact hia
    have hg : c.generate a.core a.results = c.generate b.core b.results := by
      rw [h.core]; exact hind _ _ _ h.sa h.sb
    have hfull : op ≠ .fill 0 → opBlock32 c a op = opBlock32 c b op := by
      intro hop
      cases op with
      | u32 =>
        simp only [opBlock32, BlockRng.nextU32, hia, hib, if_true, BlockRng.generateAndSet, hg]
      | u64 =>
        have na : ¬ a.index < c.len - 1 := by omega
        have nb : ¬ b.index < c.len - 1 := by omega
        simp only [opBlock32, BlockRng.nextU64, na, nb, hia, hib, if_true, if_false,
          BlockRng.generateAndSet, hg]
      | fill n =>
        have hn : 0 < n := by
          rcases Nat.eq_zero_or_pos n with h0 | h0
          · subst h0; exact absurd rfl hop
          · exact h0
        simp only [opBlock32, BlockRng.fillBytes]
        rw [BlockRng.fillLoop, BlockRng.fillLoop]
        simp only [hn, hia, hib, if_true, BlockRng.generateAndSet, hg]
    by_cases hop : op = .fill 0
    · subst hop
      exact ⟨rfl, h⟩
    · have e := hfull hop
      obtain ⟨w1, w2⟩ := op_wf hs hN b op h.sb (by rw [← h.index]; exact h.le)
      rw [e]
      exact ⟨rfl, BEquiv.rfl' w1 w2⟩

/-- whole histories -/
theorem run_congr (hs : SizeOK c) (hN : 2 ≤ c.len)
    (hind : ∀ core r r', r.size = c.len → r'.size = c.len → c.generate core r = c.generate core r')
    (ops : List Op) (a b : BlockRng σ) (h : BEquiv c a b) :
    (run (opBlock32 c) a ops).1 = (run (opBlock32 c) b ops).1
    ∧ BEquiv c (run (opBlock32 c) a ops).2 (run (opBlock32 c) b ops).2 :=
  run_sim (BEquiv c) (opBlock32 c) (opBlock32 c) (fun a b op h => op_congr hs hN hind a b op h)
    ops a b h

end blockrng

/-! ## HC-128 -/

section hc128
open Rngs.Hc128 Rngs.Hc128Inj Rngs.Hc128R

theorem hc128_hind : ∀ (core : Core) (r r' : Array U32), r.size = blockCore.len →
    r'.size = blockCore.len → blockCore.generate core r = blockCore.generate core r' :=
  fun core r r' h h' => generate_indep core r r' h h'

/-- `==` of `Hc128Rng` is: same table, same counter, same index -/
theorem beq_iff (a b : Hc128.Rng) :
    Hc128.beq a b = true ↔ a.core = b.core ∧ a.index = b.index := by
  unfold Hc128.beq Hc128.Core.beq
  constructor
  · intro h
    simp only [Bool.and_eq_true, beq_iff_eq] at h
    obtain ⟨⟨h1, h2⟩, h3⟩ := h
    refine ⟨?_, h3⟩
    cases ha : a.core; cases hb : b.core
    simp_all
  · rintro ⟨h1, h2⟩
    simp [h1, h2]

/-- what every reachable `Hc128Rng` satisfies -/
def Inv (a : Hc128.Rng) : Prop :=
  WF a.core ∧ a.results.size = 16 ∧ a.index ≤ 16
  ∧ (a.index < 16 → ∃ c₀ r₀, WF c₀ ∧ r₀.size = 16 ∧ generate c₀ r₀ = (a.results, a.core))

theorem coreAfter_WF (r₀ : Array U32) (c₀ : Core) (h : WF c₀) :
    ∀ b, WF (coreAfter blockCore r₀ c₀ b)
  | 0 => h
  | b + 1 => generate_WF (coreAfter_WF r₀ c₀ h b) _

theorem generate_blk {σ : Type} (c : BlockCore σ 32) (r₀ : Array U32) (c₀ : σ) (b : Nat) :
    c.generate (coreAfter c r₀ c₀ b) (blk c r₀ c₀ b)
      = (blk c r₀ c₀ (b + 1), coreAfter c r₀ c₀ (b + 1)) := rfl

theorem Inv.new {core : Core} (h : WF core) : Inv (BlockRng.new blockCore core) :=
  ⟨h, by simp [BlockRng.new, blockCore], Nat.le_refl _, fun hlt => absurd hlt (Nat.lt_irrefl _)⟩

theorem Inv.op {a : Hc128.Rng} (h : Inv a) (op : Op) : Inv (opBlock32 blockCore a op).2 := by
  obtain ⟨hwf, hsz, hle, hbuf⟩ := h
  obtain ⟨-, hrel, -⟩ := step32_sim (c := blockCore) (r₀ := a.results) (c₀ := a.core)
    hc128_sizeOK hsz (by decide) a.index a ⟨0, false⟩ op ⟨At.start hle, rfl⟩
  have hsz' := hrel.size hc128_sizeOK hsz
  obtain ⟨b, hr, hc, hle', hpos⟩ := hrel
  refine ⟨by rw [hc]; exact coreAfter_WF _ _ hwf b, hsz', hle', fun hlt => ?_⟩
  cases b with
  | zero =>
    have e1 : (opBlock32 blockCore a op).2.results = a.results := hr
    have e2 : (opBlock32 blockCore a op).2.core = a.core := hc
    rw [e1, e2]
    exact hbuf (by omega)
  | succ b =>
    refine ⟨coreAfter blockCore a.results a.core b, blk blockCore a.results a.core b,
      coreAfter_WF _ _ hwf b, blk_size blockCore _ _ hc128_sizeOK hsz b, ?_⟩
    rw [hr, hc]
    exact generate_blk blockCore a.results a.core b

/-- under the invariant, the hand-written `==` implies `BEquiv` — the part that needs the
    injectivity of `generate` -/
theorem bequiv_of_beq {a b : Hc128.Rng} (ha : Inv a) (hb : Inv b) (h : Hc128.beq a b = true) :
    BEquiv blockCore a b := by
  obtain ⟨hc, hi⟩ := (beq_iff a b).mp h
  refine ⟨hc, hi, ha.2.2.1, ha.2.1, hb.2.1, fun hlt => ?_⟩
  obtain ⟨c₁, r₁, w₁, s₁, e₁⟩ := ha.2.2.2 hlt
  obtain ⟨c₂, r₂, w₂, s₂, e₂⟩ := hb.2.2.2 (by rw [← hi]; exact hlt)
  have hcore : (generate c₁ r₁).2 = (generate c₂ r₂).2 := by rw [e₁, e₂]; exact hc
  have := generate_results_determined w₁ w₂ r₁ r₂ s₁ s₂ hcore
  rw [e₁, e₂] at this
  exact this

theorem beq_of_bequiv {a b : Hc128.Rng} (h : BEquiv blockCore a b) : Hc128.beq a b = true :=
  (beq_iff a b).mpr ⟨h.core, h.index⟩

/-! ### the cores `from_seed` builds are well-formed -/

theorem wr_size' (t : Array U32) (i : Nat) (v : U32) : (wr t i v).size = t.size := by simp [wr]

theorem sixteenSteps_size (c : Core) : (sixteenSteps c).t.size = c.t.size := by
  rw [sixteenSteps_eq]
  dsimp only
  generalize hF : setF (bases c.counter) (decide (c.counter < 512)) = F
  have : ∀ (rows : List Row) (acc : Array U32 × Nat), (rows.foldl F acc).1.size = acc.1.size := by
    intro rows
    induction rows with
    | nil => intro acc; rfl
    | cons row rows ih =>
      intro acc
      rw [List.foldl_cons, ih]
      subst hF
      simp only [setF, wr_size', stepRow_size]
  exact this TABLE _

theorem init_WF (seed : List U32) : WF (init seed) := by
  unfold init
  refine ⟨?_, ?_, ?_⟩
  rotate_left
  · show (0 : Nat) % 16 = 0
    rfl
  · show (0 : Nat) < USIZE
    decide
  dsimp only
  have h64 : ∀ (l : List Nat) (c : Core), c.t.size = 1024 →
      (l.foldl (fun c _ => sixteenSteps c) c).t.size = 1024 := by
    intro l
    induction l with
    | nil => intro c h; exact h
    | cons x l ih => intro c h; exact ih _ ((sixteenSteps_size c).trans h)
  apply h64
  dsimp only
  apply foldl_inv (fun t : Array U32 => t.size = 1024)
  · apply foldl_inv (fun t : Array U32 => t.size = 1024)
    · apply foldl_inv (fun t : Array U32 => t.size = 1024)
      · have : ∀ (l : List U32) (p : Array U32 × Nat), p.1.size = 1024 →
            (l.foldl (fun (p : Array U32 × Nat) x => (wr p.1 p.2 x, p.2 + 1)) p).1.size = 1024 := by
          intro l
          induction l with
          | nil => intro p h; exact h
          | cons x l ih => intro p h; exact ih _ (by simp [wr, h])
        exact this _ _ (by simp)
      · intro t j h; simp [expandAt, wr, h]
    · intro t j h; simp [wr, h]
  · intro t j h; simp [expandAt, wr, h]

theorem fromSeed_Inv (seed : List U8) : Inv (Hc128.fromSeed seed) :=
  Inv.new (init_WF _)

end hc128

/-! ## ISAAC cores: `==` is equality -/

theorem isaac_core_beq_iff {w : Nat} (x y : Isaac.Core w) : Isaac.Core.beq x y = true ↔ x = y := by
  unfold Isaac.Core.beq
  constructor
  · intro h
    simp only [Bool.and_eq_true, beq_iff_eq] at h
    obtain ⟨⟨⟨h1, h2⟩, h3⟩, h4⟩ := h
    cases x; cases y; simp_all
  · rintro rfl
    simp

end EqCongr
end Rngs
