/-
  Rngs.Lib.Equidist — counting lemmas behind `Extra/Equidistribution`:

  * rotations are bijections of `BitVec w` (`rotateRight r` inverts `rotateLeft r`), multiplication
    by a unit is a bijection, and with them explicit inverses of the scramblers of
    rand_xoshiro/src/common.rs (`**`, `++`, `+`, `*`) in the state word that the count runs over;
  * `card_fibre`: if the state type splits as `α × ρ` and the output function is, for every value
    of the `ρ`-part, a bijection `α → β` of the `α`-part, then every output value has exactly
    `|ρ|` preimages;
  * `card_nonzero_fibre`: removing one state from a fibre;
  * `count_period`: if `k ↦ T^k s` runs through the states `≠ z` without repetition for
    `k < N`, then counting over one period is counting over the states `≠ z`;
  * the six splittings of `S2`, `S4`, `S8` used by the 14 generators and the sizes of their
    complements;
  * `card_fibre_comp`, `states_count_comp`, `card_upper`, `card_lower`: a function of the output
    (the halves of a `u64`);
  * `stride2`: walking an odd cycle two steps at a time; `pair64_states`: the packed pair of two
    consecutive outputs of a xoroshiro64 generator is a bijection of the state.
-/
import Rngs.Lib.FullPeriod
import Rngs.Lib.BitInj
import Mathlib.Data.Fintype.Card
import Mathlib.Data.Fintype.Prod
namespace Rngs.Equidist
open Rngs

/-! ## bijections of `BitVec w` -/

theorem rotateRight_rotateLeft {w : Nat} (x : BitVec w) (r : Nat) :
    (x.rotateLeft r).rotateRight r = x := by
  apply BitVec.eq_of_getLsbD_eq
  intro i hi
  simp only [BitVec.getLsbD_rotateRight, BitVec.getLsbD_rotateLeft]
  have hr : r % w < w := Nat.mod_lt _ (by omega)
  by_cases h1 : i < w - r % w
  · have h2 : ¬ (r % w + i < r % w) := by omega
    have h3 : r % w + i < w := by omega
    simp [h1, h2, h3]
  · have h2 : i - (w - r % w) < r % w := by omega
    have e : w - r % w + (i - (w - r % w)) = i := by omega
    simp [h1, h2, hi, e]

theorem rotateLeft_rotateRight {w : Nat} (x : BitVec w) (r : Nat) :
    (x.rotateRight r).rotateLeft r = x := by
  apply BitVec.eq_of_getLsbD_eq
  intro i hi
  simp only [BitVec.getLsbD_rotateRight, BitVec.getLsbD_rotateLeft]
  have hr : r % w < w := Nat.mod_lt _ (by omega)
  by_cases h1 : i < r % w
  · have h2 : ¬ (w - r % w + i < w - r % w) := by omega
    have h3 : w - r % w + i < w := by omega
    have e : w - r % w + i - (w - r % w) = i := by omega
    simp [h1, h2, h3, e]
  · have h2 : i - r % w < w - r % w := by omega
    have e : r % w + (i - r % w) = i := by omega
    simp [h1, h2, hi, e]

theorem mul_mul_inv {w : Nat} {c cinv : BitVec w} (h : c * cinv = 1#w) (a : BitVec w) :
    a * c * cinv = a := by
  rw [BitVec.mul_assoc, h, BitVec.mul_one]

theorem mul_inv_mul {w : Nat} {c cinv : BitVec w} (h : c * cinv = 1#w) (a : BitVec w) :
    a * cinv * c = a := by
  rw [BitVec.mul_assoc, BitVec.mul_comm cinv c, h, BitVec.mul_one]

theorem add_sub_cancel_left' {w : Nat} (x b : BitVec w) : x + (b - x) = b := by
  rw [BitVec.add_comm]; exact BitVec.sub_add_cancel b x

theorem add_sub_cancel_left'' {w : Nat} (x y : BitVec w) : x + y - x = y := by
  rw [BitVec.add_comm]; exact BitVec.add_sub_cancel y x

/-! ### the scramblers and their inverses -/

/-- inverse of `starstar_u64!` (width 64): `5⁻¹ = 0xcccccccccccccccd`, `9⁻¹ = 0x8e38e38e38e38e39` -/
def unStarstar64 (y : U64) : U64 :=
  ((y * 0x8e38e38e38e38e39#64).rotateRight 7) * 0xcccccccccccccccd#64

theorem five_inv64 : (5 : U64) * 0xcccccccccccccccd#64 = 1#64 := by decide +kernel
theorem nine_inv64 : (9 : U64) * 0x8e38e38e38e38e39#64 = 1#64 := by decide +kernel

theorem unStarstar64_starstar (x : U64) : unStarstar64 (starstarU64 x) = x := by
  unfold unStarstar64 starstarU64
  rw [mul_mul_inv nine_inv64, rotateRight_rotateLeft, mul_mul_inv five_inv64]

theorem starstar_unStarstar64 (y : U64) : starstarU64 (unStarstar64 y) = y := by
  unfold unStarstar64 starstarU64
  rw [mul_inv_mul five_inv64, rotateLeft_rotateRight, mul_inv_mul nine_inv64]

/-- inverse of `starstar_u64!` used at width 32 (xoshiro128**): `5⁻¹ = 0xcccccccd`,
    `9⁻¹ = 0x38e38e39` -/
def unStarstar32 (y : U32) : U32 :=
  ((y * 0x38e38e39#32).rotateRight 7) * 0xcccccccd#32

theorem five_inv32 : (5 : U32) * 0xcccccccd#32 = 1#32 := by decide +kernel
theorem nine_inv32 : (9 : U32) * 0x38e38e39#32 = 1#32 := by decide +kernel

theorem unStarstar32_starstar (x : U32) : unStarstar32 (starstarU64 x) = x := by
  unfold unStarstar32 starstarU64
  rw [mul_mul_inv nine_inv32, rotateRight_rotateLeft, mul_mul_inv five_inv32]

theorem starstar_unStarstar32 (y : U32) : starstarU64 (unStarstar32 y) = y := by
  unfold unStarstar32 starstarU64
  rw [mul_inv_mul five_inv32, rotateLeft_rotateRight, mul_inv_mul nine_inv32]

/-- `0x9E3779BB⁻¹ = 0xbe736373` modulo 2^32 -/
theorem golden_inv32 : (0x9E3779BB#32 : U32) * 0xbe736373#32 = 1#32 := by decide +kernel

/-- inverse of `starstar_u32!` (xoroshiro64**) -/
def unStarstarU32 (y : U32) : U32 :=
  ((y * 0xcccccccd#32).rotateRight 5) * 0xbe736373#32

theorem unStarstarU32_starstar (x : U32) : unStarstarU32 (starstarU32 x) = x := by
  unfold unStarstarU32 starstarU32
  rw [mul_mul_inv five_inv32, rotateRight_rotateLeft, mul_mul_inv golden_inv32]

theorem starstar_unStarstarU32 (y : U32) : starstarU32 (unStarstarU32 y) = y := by
  unfold unStarstarU32 starstarU32
  rw [mul_inv_mul golden_inv32, rotateLeft_rotateRight, mul_inv_mul five_inv32]

/-- inverse of `y ↦ plusplus(x, y)` for fixed `x` (any width, any rotation) -/
def unPlusplus {w : Nat} (rot : Nat) (x v : BitVec w) : BitVec w := (v - x).rotateRight rot - x

theorem unPlusplus_plusplus {w : Nat} (rot : Nat) (x y : BitVec w) :
    unPlusplus rot x ((x + y).rotateLeft rot + x) = y := by
  unfold unPlusplus
  rw [BitVec.add_sub_cancel, rotateRight_rotateLeft, add_sub_cancel_left'']

theorem plusplus_unPlusplus {w : Nat} (rot : Nat) (x v : BitVec w) :
    (x + unPlusplus rot x v).rotateLeft rot + x = v := by
  unfold unPlusplus
  rw [add_sub_cancel_left', rotateLeft_rotateRight, BitVec.sub_add_cancel]

/-- the part of `XorShiftRng::next_u32`'s result that depends on `x` only:
    `t ^ (t >> 8)` with `t = x ^ (x << 11)` -/
def xorShiftT (x : U32) : U32 :=
  let t := x ^^^ (x <<< 11)
  t ^^^ (t >>> 8)

theorem xorShift_out_inv (x v : U32) :
    BitInj.xsr 19 (BitInj.unxsr 19 (v ^^^ xorShiftT x)) ^^^ xorShiftT x = v := by
  rw [BitInj.xsr_unxsr 19 (by decide), BitInj.xor_cancel_right]

theorem xorShift_inv_out (x a : U32) :
    BitInj.unxsr 19 (BitInj.xsr 19 a ^^^ xorShiftT x ^^^ xorShiftT x) = a := by
  rw [BitInj.xor_cancel_right, BitInj.unxsr_xsr 19 (by decide)]

/-! ## counting -/

/-- A way of reading the state type `σ` as `α × ρ` (one distinguished coordinate of type `α`). -/
structure Split (σ α ρ : Type) where
  join : α → ρ → σ
  fst : σ → α
  snd : σ → ρ
  join_eta : ∀ t, join (fst t) (snd t) = t
  snd_join : ∀ a r, snd (join a r) = r

/-- If, for every value `r` of the remaining coordinates, the output is a bijection `φ r`
    (inverse `ψ r`) of the distinguished coordinate, then every output value `y` has exactly
    `|ρ|` preimages. -/
theorem card_fibre {σ ρ α β : Type} [Fintype σ] [Fintype ρ] [DecidableEq β]
    (sp : Split σ α ρ) (out : σ → β) (φ : ρ → α → β) (ψ : ρ → β → α)
    (hout : ∀ a r, out (sp.join a r) = φ r a)
    (hφψ : ∀ r y, φ r (ψ r y) = y) (hψφ : ∀ r a, ψ r (φ r a) = a) (y : β) :
    (Finset.univ.filter (fun t : σ => out t = y)).card = Fintype.card ρ := by
  rw [← Finset.card_univ]
  symm
  apply Finset.card_bij (fun r _ => sp.join (ψ r y) r)
  · intro r _
    simp only [Finset.mem_filter, Finset.mem_univ, true_and]
    rw [hout, hφψ]
  · intro r _ r' _ h
    have := congrArg sp.snd h
    rwa [sp.snd_join, sp.snd_join] at this
  · intro t ht
    simp only [Finset.mem_filter, Finset.mem_univ, true_and] at ht
    refine ⟨sp.snd t, Finset.mem_univ _, ?_⟩
    have e : out t = φ (sp.snd t) (sp.fst t) := by rw [← hout, sp.join_eta]
    rw [← ht, e, hψφ, sp.join_eta]

/-- the states `≠ z` in a fibre: one less if `z` lies in it -/
theorem card_nonzero_fibre {σ β : Type} [Fintype σ] [DecidableEq σ] [DecidableEq β]
    (out : σ → β) (z : σ) (y : β) :
    (Finset.univ.filter (fun t : σ => t ≠ z ∧ out t = y)).card
      = if out z = y then (Finset.univ.filter (fun t : σ => out t = y)).card - 1
        else (Finset.univ.filter (fun t : σ => out t = y)).card := by
  have e : Finset.univ.filter (fun t : σ => t ≠ z ∧ out t = y)
      = (Finset.univ.filter (fun t : σ => out t = y)).erase z := by
    ext t
    simp only [Finset.mem_filter, Finset.mem_univ, true_and, Finset.mem_erase]
  rw [e, Finset.card_erase_eq_ite]
  simp only [Finset.mem_filter, Finset.mem_univ, true_and]

/-- **Equidistribution on the states.**  With a splitting as in `card_fibre`, `|ρ| = 2^m` and
    `out z = 0`: the value 0 is the output of `2^m - 1` states `≠ z`, every other value of
    exactly `2^m`. -/
theorem states_count {σ ρ : Type} {w m : Nat} [Fintype σ] [DecidableEq σ] [Fintype ρ]
    (sp : Split σ (BitVec w) ρ) (hρ : Fintype.card ρ = 2 ^ m) (z : σ) (out : σ → BitVec w)
    (φ : ρ → BitVec w → BitVec w) (ψ : ρ → BitVec w → BitVec w)
    (hout : ∀ a r, out (sp.join a r) = φ r a)
    (hφψ : ∀ r y, φ r (ψ r y) = y) (hψφ : ∀ r a, ψ r (φ r a) = a) (hz : out z = 0)
    (y : BitVec w) :
    (Finset.univ.filter (fun t : σ => t ≠ z ∧ out t = y)).card
      = if y = 0 then 2 ^ m - 1 else 2 ^ m := by
  rw [card_nonzero_fibre, card_fibre sp out φ ψ hout hφψ hψφ, hρ, hz]
  by_cases h : y = 0
  · subst h; simp
  · rw [if_neg h, if_neg (fun e => h e.symm)]

/-- **From the states to the stream.**  If the orbit `s, T s, …, T^(N-1) s` avoids `z`, has no
    repetition and reaches every state `≠ z`, then for every property of states the number of
    `k < N` with `T^k s` having it is the number of states `≠ z` having it. -/
theorem count_period {σ β : Type} [Fintype σ] [DecidableEq σ] [DecidableEq β]
    {T : σ → σ} {N : Nat} {z s : σ}
    (hnz : ∀ k, iter T k s ≠ z)
    (hnr : ∀ i j, i < j → j < N → iter T i s ≠ iter T j s)
    (hsc : ∀ t, t ≠ z → ∃ k, k < N ∧ iter T k s = t)
    (out : σ → β) (y : β) :
    ((Finset.range N).filter (fun k => out (iter T k s) = y)).card
      = (Finset.univ.filter (fun t : σ => t ≠ z ∧ out t = y)).card := by
  apply Finset.card_bij (fun k _ => iter T k s)
  · intro k hk
    simp only [Finset.mem_filter, Finset.mem_univ, true_and, Finset.mem_range] at hk ⊢
    exact ⟨hnz k, hk.2⟩
  · intro i hi j hj e
    simp only [Finset.mem_filter, Finset.mem_range] at hi hj
    rcases Nat.lt_trichotomy i j with hij | hij | hij
    · exact absurd e (hnr i j hij hj.1)
    · exact hij
    · exact absurd e.symm (hnr j i hij hi.1)
  · intro t ht
    simp only [Finset.mem_filter, Finset.mem_univ, true_and] at ht
    obtain ⟨k, hk, e⟩ := hsc t ht.1
    refine ⟨k, ?_, e⟩
    simp only [Finset.mem_filter, Finset.mem_range]
    exact ⟨hk, by rw [e]; exact ht.2⟩

/-- a positive count has a witness -/
theorem exists_of_count_pos {N : Nat} {p : Nat → Prop} [DecidablePred p]
    (h : 0 < ((Finset.range N).filter p).card) : ∃ k, k < N ∧ p k := by
  obtain ⟨k, hk⟩ := Finset.card_pos.mp h
  simp only [Finset.mem_filter, Finset.mem_range] at hk
  exact ⟨k, hk⟩

/-- a function `f` of the output: the states with `f (out t) = v` correspond to the pairs
    (an output value `y` with `f y = v`, a value of the remaining coordinates) -/
theorem card_fibre_comp {σ ρ α β γ : Type} [Fintype σ] [Fintype ρ] [Fintype β] [DecidableEq β]
    [DecidableEq γ] (sp : Split σ α ρ) (out : σ → β) (φ : ρ → α → β) (ψ : ρ → β → α)
    (hout : ∀ a r, out (sp.join a r) = φ r a)
    (hφψ : ∀ r y, φ r (ψ r y) = y) (hψφ : ∀ r a, ψ r (φ r a) = a) (f : β → γ) (v : γ) :
    (Finset.univ.filter (fun t : σ => f (out t) = v)).card
      = (Finset.univ.filter (fun y : β => f y = v)).card * Fintype.card ρ := by
  rw [← Finset.card_univ (α := ρ), ← Finset.card_product]
  have key : ∀ t, sp.join (ψ (sp.snd t) (out t)) (sp.snd t) = t := by
    intro t
    have e : out t = φ (sp.snd t) (sp.fst t) := by rw [← hout, sp.join_eta]
    rw [e, hψφ, sp.join_eta]
  apply Finset.card_bij (fun t _ => (out t, sp.snd t))
  · intro t ht
    simp only [Finset.mem_filter, Finset.mem_univ, true_and] at ht
    simp only [Finset.mem_product, Finset.mem_filter, Finset.mem_univ, true_and, and_true]
    exact ht
  · intro t _ t' _ h
    have h1 : out t = out t' := congrArg Prod.fst h
    have h2 : sp.snd t = sp.snd t' := congrArg Prod.snd h
    rw [← key t, ← key t', h1, h2]
  · intro p hp
    simp only [Finset.mem_product, Finset.mem_filter, Finset.mem_univ, true_and, and_true] at hp
    refine ⟨sp.join (ψ p.2 p.1) p.2, ?_, ?_⟩
    · simp only [Finset.mem_filter, Finset.mem_univ, true_and]
      rw [hout, hφψ]; exact hp
    · rw [hout, hφψ, sp.snd_join]

/-- **Equidistribution of a derived output** `out' = f ∘ out` when every value of `f` has `2^d`
    preimages (e.g. the upper or lower half of a 64-bit output). -/
theorem states_count_comp {σ ρ : Type} {w w' m d : Nat} [Fintype σ] [DecidableEq σ] [Fintype ρ]
    (sp : Split σ (BitVec w) ρ) (hρ : Fintype.card ρ = 2 ^ m) (z : σ) (out : σ → BitVec w)
    (φ : ρ → BitVec w → BitVec w) (ψ : ρ → BitVec w → BitVec w)
    (hout : ∀ a r, out (sp.join a r) = φ r a)
    (hφψ : ∀ r y, φ r (ψ r y) = y) (hψφ : ∀ r a, ψ r (φ r a) = a)
    (f : BitVec w → BitVec w')
    (hf : ∀ v, (@Finset.univ _ (bitVecFintype w) |>.filter (fun y : BitVec w => f y = v)).card = 2 ^ d)
    (out' : σ → BitVec w') (hout' : ∀ t, out' t = f (out t)) (hz : out' z = 0)
    (v : BitVec w') :
    (Finset.univ.filter (fun t : σ => t ≠ z ∧ out' t = v)).card
      = if v = 0 then 2 ^ (d + m) - 1 else 2 ^ (d + m) := by
  have e : (Finset.univ.filter (fun t : σ => out' t = v)).card = 2 ^ (d + m) := by
    have : (fun t : σ => out' t = v) = (fun t : σ => f (out t) = v) := by
      funext t; rw [hout']
    simp only [this]
    rw [@card_fibre_comp σ ρ (BitVec w) (BitVec w) (BitVec w') _ _ (bitVecFintype w) _ _
      sp out φ ψ hout hφψ hψφ f v, hf, hρ, Nat.pow_add]
  rw [card_nonzero_fibre, e, hz]
  by_cases h : v = 0
  · subst h; simp
  · rw [if_neg h, if_neg (fun e => h e.symm)]

/-! ### the two halves of a `u64` -/

/-- `hi‖lo` -/
def joinHL (hi lo : U32) : U64 := (hi.setWidth 64 <<< 32) ||| lo.setWidth 64

theorem upper_join (hi lo : U32) : ((joinHL hi lo) >>> 32).setWidth 32 = hi := by
  unfold joinHL
  apply BitVec.eq_of_getLsbD_eq
  intro i hi'
  simp only [BitVec.getLsbD_setWidth, BitVec.getLsbD_ushiftRight, BitVec.getLsbD_or,
    BitVec.getLsbD_shiftLeft]
  have h1 : ¬ (32 + i < 32) := by omega
  have h2 : 32 + i < 64 := by omega
  have h3 : 32 + i - 32 = i := by omega
  have h5 : i < 64 := by omega
  simp [hi', h1, h2, h3, h5]

theorem lower_join (hi lo : U32) : (joinHL hi lo).setWidth 32 = lo := by
  unfold joinHL
  apply BitVec.eq_of_getLsbD_eq
  intro i hi'
  simp only [BitVec.getLsbD_setWidth, BitVec.getLsbD_or, BitVec.getLsbD_shiftLeft]
  have h1 : i < 32 := hi'
  have h2 : i < 64 := by omega
  simp [h1, h2]

theorem joinHL_eta (y : U64) : joinHL ((y >>> 32).setWidth 32) (y.setWidth 32) = y := by
  unfold joinHL
  apply BitVec.eq_of_getLsbD_eq
  intro i hi'
  simp only [BitVec.getLsbD_setWidth, BitVec.getLsbD_ushiftRight, BitVec.getLsbD_or,
    BitVec.getLsbD_shiftLeft]
  by_cases h : i < 32
  · simp [h, hi']
  · have h3 : 32 + (i - 32) = i := by omega
    have h4 : i - 32 < 32 := by omega
    have h5 : i - 32 < 64 := by omega
    simp [h, hi', h3, h4, h5]

/-- both frequencies are positive -/
theorem count_pos {w m : Nat} (hm : m ≠ 0) (y : BitVec w) :
    0 < (if y = 0 then 2 ^ m - 1 else 2 ^ m) := by
  have : 1 < 2 ^ m := Nat.one_lt_two_pow hm
  split <;> omega

/-! ## the splittings of the state shapes -/

attribute [local instance] bitVecFintype

/-- `S2`, distinguished word `s0` -/
def split2_0 (w : Nat) : Split (S2 w) (BitVec w) (BitVec w) where
  join a r := ⟨a, r⟩
  fst t := t.s0
  snd t := t.s1
  join_eta _ := rfl
  snd_join _ _ := rfl

/-- `S2`, distinguished word `s1` -/
def split2_1 (w : Nat) : Split (S2 w) (BitVec w) (BitVec w) where
  join a r := ⟨r, a⟩
  fst t := t.s1
  snd t := t.s0
  join_eta _ := rfl
  snd_join _ _ := rfl

/-- `S4`, distinguished word `s1` -/
def split4_1 (w : Nat) : Split (S4 w) (BitVec w) (BitVec w × BitVec w × BitVec w) where
  join a r := ⟨r.1, a, r.2.1, r.2.2⟩
  fst t := t.s1
  snd t := (t.s0, t.s2, t.s3)
  join_eta _ := rfl
  snd_join _ _ := rfl

/-- `S4`, distinguished word `s3` -/
def split4_3 (w : Nat) : Split (S4 w) (BitVec w) (BitVec w × BitVec w × BitVec w) where
  join a r := ⟨r.1, r.2.1, r.2.2, a⟩
  fst t := t.s3
  snd t := (t.s0, t.s1, t.s2)
  join_eta _ := rfl
  snd_join _ _ := rfl

/-- the seven other words of an `S8` -/
abbrev R7 := U64 × U64 × U64 × U64 × U64 × U64 × U64

/-- `S8`, distinguished word `s0` -/
def split8_0 : Split S8 U64 R7 where
  join a r := ⟨a, r.1, r.2.1, r.2.2.1, r.2.2.2.1, r.2.2.2.2.1, r.2.2.2.2.2.1, r.2.2.2.2.2.2⟩
  fst t := t.s0
  snd t := (t.s1, t.s2, t.s3, t.s4, t.s5, t.s6, t.s7)
  join_eta _ := rfl
  snd_join _ _ := rfl

/-- `S8`, distinguished word `s1` -/
def split8_1 : Split S8 U64 R7 where
  join a r := ⟨r.1, a, r.2.1, r.2.2.1, r.2.2.2.1, r.2.2.2.2.1, r.2.2.2.2.2.1, r.2.2.2.2.2.2⟩
  fst t := t.s1
  snd t := (t.s0, t.s2, t.s3, t.s4, t.s5, t.s6, t.s7)
  join_eta _ := rfl
  snd_join _ _ := rfl

theorem card_R1 (w : Nat) : Fintype.card (BitVec w) = 2 ^ w := card_bitVec w

theorem card_R3 (w : Nat) : Fintype.card (BitVec w × BitVec w × BitVec w) = 2 ^ (3 * w) := by
  rw [Fintype.card_prod, Fintype.card_prod, card_bitVec, ← Nat.pow_add, ← Nat.pow_add]
  congr 1; omega

set_option exponentiation.threshold 600 in
theorem card_R7 : Fintype.card R7 = 2 ^ 448 := by
  rw [Fintype.card_prod, Fintype.card_prod, Fintype.card_prod, Fintype.card_prod,
    Fintype.card_prod, Fintype.card_prod, card_bitVec, ← Nat.pow_add, ← Nat.pow_add,
    ← Nat.pow_add, ← Nat.pow_add, ← Nat.pow_add, ← Nat.pow_add]

/-! ## every second state of an odd cycle -/

theorem iter_twice {σ : Type} (T : σ → σ) (k : Nat) (s : σ) :
    iter (fun s => T (T s)) k s = iter T (2 * k) s := by
  rw [Nat.mul_comm, iter_mul]
  rfl

/-- Walking an odd cycle two steps at a time visits every state of the cycle exactly once in
    `N` double steps: the three facts `count_period` needs, for `T ∘ T`. -/
theorem stride2 {σ : Type} {T : σ → σ} {N : Nat} {z s : σ} (hodd : N % 2 = 1)
    (hinj : Function.Injective T) (hper : iter T N s = s)
    (hmin : ∀ k, 0 < k → k < N → iter T k s ≠ s)
    (hnz : ∀ k, iter T k s ≠ z)
    (hsc : ∀ t, t ≠ z → ∃ k, k < N ∧ iter T k s = t) :
    (∀ k, iter (fun s => T (T s)) k s ≠ z) ∧
    (∀ i j, i < j → j < N → iter (fun s => T (T s)) i s ≠ iter (fun s => T (T s)) j s) ∧
    (∀ t, t ≠ z → ∃ k, k < N ∧ iter (fun s => T (T s)) k s = t) := by
  refine ⟨fun k => ?_, fun i j hij hj => ?_, fun t ht => ?_⟩
  · rw [iter_twice]; exact hnz _
  · rw [iter_twice, iter_twice]
    intro he
    obtain ⟨d, rfl⟩ := Nat.exists_eq_add_of_lt hij
    have e : 2 * (i + d + 1) = 2 * i + (2 * d + 2) := by omega
    rw [e, iter_add] at he
    have h2 : iter T (2 * d + 2) s = s := (iter_injective hinj (2 * i) he).symm
    by_cases hlt : 2 * d + 2 < N
    · exact hmin _ (by omega) hlt h2
    · have e2 : 2 * d + 2 = (2 * d + 2 - N) + N := by omega
      rw [e2, iter_add, hper] at h2
      exact hmin _ (by omega) (by omega) h2
  · obtain ⟨k, hk, e⟩ := hsc t ht
    by_cases hev : k % 2 = 0
    · refine ⟨k / 2, by omega, ?_⟩
      rw [iter_twice, show 2 * (k / 2) = k by omega]; exact e
    · refine ⟨(k + N) / 2, by omega, ?_⟩
      rw [iter_twice, show 2 * ((k + N) / 2) = k + N by omega, iter_add, hper]; exact e

/-- if no value is counted more than once, the outputs at different positions differ -/
theorem distinct_of_count_le_one {β : Type} [DecidableEq β] {N : Nat} (g : Nat → β)
    (h : ∀ y, ((Finset.range N).filter (fun k => g k = y)).card ≤ 1)
    {i j : Nat} (hi : i < N) (hj : j < N) (hij : i ≠ j) : g i ≠ g j := by
  intro e
  have := Finset.card_le_one.mp (h (g j)) i
    (Finset.mem_filter.mpr ⟨Finset.mem_range.mpr hi, e⟩) j
    (Finset.mem_filter.mpr ⟨Finset.mem_range.mpr hj, rfl⟩)
  exact hij this

/-- a value counted zero times does not occur -/
theorem not_occurs_of_count_zero {β : Type} [DecidableEq β] {N : Nat} (g : Nat → β) (y : β)
    (h : ((Finset.range N).filter (fun k => g k = y)).card = 0) {k : Nat} (hk : k < N) :
    g k ≠ y := by
  intro e
  have := Finset.card_eq_zero.mp h
  have hm : k ∈ (Finset.range N).filter (fun k => g k = y) := by
    simp only [Finset.mem_filter, Finset.mem_range]; exact ⟨hk, e⟩
  rw [this] at hm
  exact absurd hm (Finset.notMem_empty k)

/-- `U64`, distinguished: the upper half -/
def splitHi : Split U64 U32 U32 where
  join a r := joinHL a r
  fst y := (y >>> 32).setWidth 32
  snd y := y.setWidth 32
  join_eta := joinHL_eta
  snd_join := lower_join

/-- `U64`, distinguished: the lower half -/
def splitLo : Split U64 U32 U32 where
  join a r := joinHL r a
  fst y := y.setWidth 32
  snd y := (y >>> 32).setWidth 32
  join_eta := joinHL_eta
  snd_join a r := upper_join r a

/-- every 32-bit value is the upper half of exactly `2^32` 64-bit values -/
theorem card_upper (v : U32) :
    (Finset.univ.filter (fun y : U64 => (y >>> 32).setWidth 32 = v)).card = 2 ^ 32 :=
  (card_fibre splitHi (fun y : U64 => ((y >>> 32).setWidth 32 : U32)) (fun _ a => a) (fun _ y => y)
    (fun a r => upper_join a r) (fun _ _ => rfl) (fun _ _ => rfl) v).trans (card_bitVec 32)

/-- every 32-bit value is the lower half of exactly `2^32` 64-bit values -/
theorem card_lower (v : U32) :
    (Finset.univ.filter (fun y : U64 => (y.setWidth 32 : U32) = v)).card = 2 ^ 32 :=
  (card_fibre splitLo (fun y : U64 => (y.setWidth 32 : U32)) (fun _ a => a) (fun _ y => y)
    (fun a r => lower_join r a) (fun _ _ => rfl) (fun _ _ => rfl) v).trans (card_bitVec 32)

/-! ## two consecutive outputs of the xoroshiro64 generators (`next_u64_via_u32`) -/

/-- an injective map between finite types of the same size hits every value exactly once -/
theorem card_fibre_of_injective {σ β : Type} [Fintype σ] [Fintype β] [DecidableEq β]
    (f : σ → β) (hinj : Function.Injective f) (hcard : Fintype.card σ = Fintype.card β) (y : β) :
    (Finset.univ.filter (fun t : σ => f t = y)).card = 1 := by
  obtain ⟨t₀, h₀⟩ := ((Fintype.bijective_iff_injective_and_card f).mpr ⟨hinj, hcard⟩).2 y
  rw [Finset.card_eq_one]
  refine ⟨t₀, ?_⟩
  ext t
  simp only [Finset.mem_filter, Finset.mem_univ, true_and, Finset.mem_singleton]
  constructor
  · intro h; exact hinj (h.trans h₀.symm)
  · intro h; rw [h]; exact h₀

theorem joinHL_injective {a b c d : U32} (h : joinHL a b = joinHL c d) : a = c ∧ b = d := by
  constructor
  · have := congrArg (fun y : U64 => ((y >>> 32).setWidth 32 : U32)) h
    simpa only [upper_join] using this
  · have := congrArg (fun y : U64 => (y.setWidth 32 : U32)) h
    simpa only [lower_join] using this

/-- two consecutive outputs of a xoroshiro64 generator with scrambler `f` of `s0`, packed as
    `next_u64_via_u32` packs them -/
def pair64 (f : U32 → U32) (t : S2 32) : U64 := joinHL (f (xoroshiroU32 t).s0) (f t.s0)

theorem pair64_injective (f : U32 → U32) (hf : Function.Injective f) :
    Function.Injective (pair64 f) := by
  intro t t' h
  obtain ⟨h1, h2⟩ := joinHL_injective h
  have e0 : t.s0 = t'.s0 := hf h2
  have e1 := hf h1
  have x : ∀ u : S2 32, (xoroshiroU32 u).s0
      = u.s0.rotateLeft 26 ^^^ ((u.s1 ^^^ u.s0) ^^^ ((u.s1 ^^^ u.s0) <<< 9)) := by
    intro u; simp only [xoroshiroU32, BitVec.xor_assoc]
  rw [x, x, e0] at e1
  have e2 := BitInj.xorShl_injective 9 (by decide) ((BitVec.xor_right_inj _).mp e1)
  have e3 : t.s1 = t'.s1 := (BitVec.xor_left_inj _).mp e2
  cases t; cases t'
  simp_all

theorem card_U64_eq_S2 : Fintype.card (S2 32) = Fintype.card U64 := by
  rw [card_S2, card_bitVec]

/-- every 64-bit value is the packed pair of consecutive outputs of exactly one state; for the
    non-zero states: 0 of none, every other value of exactly one -/
theorem pair64_states (f : U32 → U32) (hf : Function.Injective f) (h0 : f 0 = 0) (y : U64) :
    (Finset.univ.filter (fun t : S2 32 => t ≠ S2.zero ∧ pair64 f t = y)).card
      = if y = 0 then 0 else 1 := by
  have hz : pair64 f S2.zero = 0 := by
    have : xoroshiroU32 S2.zero = S2.zero := by decide
    unfold pair64
    rw [this]
    show joinHL (f 0) (f 0) = 0
    rw [h0]; decide
  rw [card_nonzero_fibre, card_fibre_of_injective _ (pair64_injective f hf) card_U64_eq_S2, hz]
  by_cases h : y = 0
  · subst h; simp
  · rw [if_neg h, if_neg (fun e => h e.symm)]

end Rngs.Equidist
