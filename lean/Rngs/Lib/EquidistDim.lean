/-
  Rngs.Lib.EquidistDim — from "the k-window map is a bijection" to k-dimensional
  equidistribution over a full period (the counting side of `Extra/EquidistributionDim`; the
  linear-algebra side is `Lib/DimCert` + the generated `Cert/Dim*`).

  * `window k out T s`: the `k`-tuple `j ↦ out (T^j s)` of consecutive outputs from state `s`,
    as a function on `Fin k`;
  * `Shape`: reading a structure of `k` words (`S2 w`, `S4 w`, `S8`) as such a tuple
    (`shape2`, `shape4`, `shape8`);
  * `window_bijective`: if `Φ s = (π s, π (T s), …, π (T^(k-1) s))` is injective on a finite state
    type of the same shape and the scrambler `ss` is a bijection of the word, then the window map of
    `out = ss ∘ π` is a bijection from states to `k`-tuples;
  * `recover`: with a left inverse `Ψ` of `Φ` the state is `Ψ` of the unscrambled window;
  * `dim_states`, `dim_states_zero`, `dim_states_count` (D1) and `dim_period`, `dim_period_zero`,
    `dim_period_count`, `dim_windows_distinct`, `dim_period_pair` (D2): the statements on states
    and — with the three facts of a full cycle that C07 provides (`count_period`'s hypotheses) — on
    the stream;
  * `window_fibre_card`, `dim_states_count_le`, `dim_period_count_le`: every lower dimension
    `d ≤ k` — a `d`-tuple occurs `2^(w(k-d))` times per period, the all-zero one once less.
-/
import Rngs.Lib.Equidist
import Rngs.Lib.DimCert
import Mathlib.Data.Fintype.Pi
import Mathlib.Algebra.BigOperators.Group.Finset.Basic
namespace Rngs.EquidistDim
open Rngs Rngs.Equidist

/-! ## windows -/

/-- the `k` consecutive outputs `out s, out (T s), …, out (T^(k-1) s)` -/
def window {σ β : Type} (k : Nat) (out : σ → β) (T : σ → σ) (s : σ) : Fin k → β :=
  fun j => out (iter T j.val s)

theorem window_iter {σ β : Type} (k : Nat) (out : σ → β) (T : σ → σ) (i : Nat) (s : σ)
    (j : Fin k) : window k out T (iter T i s) j = out (iter T (i + j.val) s) := by
  show out (iter T j.val (iter T i s)) = _
  rw [← iter_add, Nat.add_comm]

theorem iter_fixed {σ : Type} {T : σ → σ} {z : σ} (hz : T z = z) (j : Nat) : iter T j z = z := by
  induction j with
  | zero => rfl
  | succ j ih => rw [iter_succ, ih, hz]

theorem window_fixed {σ β : Type} (k : Nat) {out : σ → β} {T : σ → σ} {z : σ} {o : β}
    (hTz : T z = z) (hoz : out z = o) : window k out T z = fun _ => o := by
  funext j
  show out (iter T j.val z) = o
  rw [iter_fixed hTz, hoz]

/-! ## structures of `k` words as `k`-tuples -/

/-- a type `τ` whose elements are the `k`-tuples over `β` -/
structure Shape (τ β : Type) (k : Nat) where
  toFn : τ → Fin k → β
  ofFn : (Fin k → β) → τ
  toFn_ofFn : ∀ f, toFn (ofFn f) = f
  ofFn_toFn : ∀ t, ofFn (toFn t) = t

theorem Shape.toFn_injective {τ β : Type} {k : Nat} (sh : Shape τ β k) {a b : τ}
    (h : sh.toFn a = sh.toFn b) : a = b := by
  rw [← sh.ofFn_toFn a, h, sh.ofFn_toFn]

def shape2 (w : Nat) : Shape (S2 w) (BitVec w) 2 where
  toFn t j := match j with
    | ⟨0, _⟩ => t.s0
    | ⟨_ + 1, _⟩ => t.s1
  ofFn f := ⟨f 0, f 1⟩
  toFn_ofFn f := by
    funext j
    match j with
    | ⟨0, _⟩ => rfl
    | ⟨1, _⟩ => rfl
    | ⟨n + 2, h⟩ => exact absurd h (by omega)
  ofFn_toFn _ := rfl

def shape4 (w : Nat) : Shape (S4 w) (BitVec w) 4 where
  toFn t j := match j with
    | ⟨0, _⟩ => t.s0
    | ⟨1, _⟩ => t.s1
    | ⟨2, _⟩ => t.s2
    | ⟨_ + 3, _⟩ => t.s3
  ofFn f := ⟨f 0, f 1, f 2, f 3⟩
  toFn_ofFn f := by
    funext j
    match j with
    | ⟨0, _⟩ => rfl
    | ⟨1, _⟩ => rfl
    | ⟨2, _⟩ => rfl
    | ⟨3, _⟩ => rfl
    | ⟨n + 4, h⟩ => exact absurd h (by omega)
  ofFn_toFn _ := rfl

def shape8 : Shape S8 U64 8 where
  toFn t j := match j with
    | ⟨0, _⟩ => t.s0
    | ⟨1, _⟩ => t.s1
    | ⟨2, _⟩ => t.s2
    | ⟨3, _⟩ => t.s3
    | ⟨4, _⟩ => t.s4
    | ⟨5, _⟩ => t.s5
    | ⟨6, _⟩ => t.s6
    | ⟨_ + 7, _⟩ => t.s7
  ofFn f := ⟨f 0, f 1, f 2, f 3, f 4, f 5, f 6, f 7⟩
  toFn_ofFn f := by
    funext j
    match j with
    | ⟨0, _⟩ => rfl
    | ⟨1, _⟩ => rfl
    | ⟨2, _⟩ => rfl
    | ⟨3, _⟩ => rfl
    | ⟨4, _⟩ => rfl
    | ⟨5, _⟩ => rfl
    | ⟨6, _⟩ => rfl
    | ⟨7, _⟩ => rfl
    | ⟨n + 8, h⟩ => exact absurd h (by omega)
  ofFn_toFn _ := rfl

/-- entry `j` of `phi2 T π s` is `π (T^j s)` -/
theorem phi2_entry {σ : Type} {w : Nat} (T : σ → σ) (π : σ → BitVec w) (s : σ) (j : Fin 2) :
    (shape2 w).toFn (DimCert.phi2 T π s) j = π (iter T j.val s) := by
  match j with
  | ⟨0, _⟩ => rfl
  | ⟨1, _⟩ => rfl
  | ⟨n + 2, h⟩ => exact absurd h (by omega)

theorem phi4_entry {σ : Type} {w : Nat} (T : σ → σ) (π : σ → BitVec w) (s : σ) (j : Fin 4) :
    (shape4 w).toFn (DimCert.phi4 T π s) j = π (iter T j.val s) := by
  match j with
  | ⟨0, _⟩ => rfl
  | ⟨1, _⟩ => rfl
  | ⟨2, _⟩ => rfl
  | ⟨3, _⟩ => rfl
  | ⟨n + 4, h⟩ => exact absurd h (by omega)

theorem phi8_entry {σ : Type} (T : σ → σ) (π : σ → U64) (s : σ) (j : Fin 8) :
    shape8.toFn (DimCert.phi8 T π s) j = π (iter T j.val s) := by
  match j with
  | ⟨0, _⟩ => rfl
  | ⟨1, _⟩ => rfl
  | ⟨2, _⟩ => rfl
  | ⟨3, _⟩ => rfl
  | ⟨4, _⟩ => rfl
  | ⟨5, _⟩ => rfl
  | ⟨6, _⟩ => rfl
  | ⟨7, _⟩ => rfl
  | ⟨n + 8, h⟩ => exact absurd h (by omega)

/-! ## the window map is a bijection -/

/-- an injective linear-window map `Φ` on a finite state type of the shape of the tuples, followed
    by a bijective scrambler in every entry: the window map is a bijection -/
theorem window_bijective {σ β : Type} {k : Nat} [Finite σ] (sh : Shape σ β k) (T : σ → σ)
    (π : σ → β) (ss unss : β → β) (h1 : ∀ x, unss (ss x) = x) (h2 : ∀ y, ss (unss y) = y)
    (Φ : σ → σ) (hΦ : ∀ s j, sh.toFn (Φ s) j = π (iter T j.val s))
    (hinj : Function.Injective Φ) :
    Function.Bijective (window k (fun s => ss (π s)) T) := by
  constructor
  · intro a b h
    apply hinj
    apply sh.toFn_injective
    funext j
    rw [hΦ, hΦ]
    have := congrArg unss (congrFun h j)
    simpa only [window, h1] using this
  · intro y
    obtain ⟨s, hs⟩ := (Finite.injective_iff_surjective.mp hinj) (sh.ofFn (fun j => unss (y j)))
    refine ⟨s, ?_⟩
    funext j
    show ss (π (iter T j.val s)) = y j
    rw [← hΦ, hs, sh.toFn_ofFn, h2]

/-- state recovery: a left inverse `Ψ` of `Φ` computes the state from its window — unscramble the
    `k` outputs, apply `Ψ` -/
theorem recover {σ β : Type} {k : Nat} (sh : Shape σ β k) (T : σ → σ) (π : σ → β)
    (ss unss : β → β) (h1 : ∀ x, unss (ss x) = x) (Φ Ψ : σ → σ)
    (hΦ : ∀ s j, sh.toFn (Φ s) j = π (iter T j.val s)) (hleft : ∀ s, Ψ (Φ s) = s)
    (s : σ) (y : Fin k → β) (h : ∀ j : Fin k, ss (π (iter T j.val s)) = y j) :
    s = Ψ (sh.ofFn (fun j => unss (y j))) := by
  have e : sh.ofFn (fun j => unss (y j)) = Φ s := by
    apply sh.toFn_injective
    rw [sh.toFn_ofFn]
    funext j
    rw [hΦ, ← h j, h1]
  rw [e, hleft]

/-! ## (D1) on the states -/

section states
variable {σ β : Type} {k : Nat} {out : σ → β} {T : σ → σ}

/-- every `k`-tuple is the window of exactly one state -/
theorem dim_states (hW : Function.Bijective (window k out T)) (y : Fin k → β) :
    ∃! s, ∀ j : Fin k, out (iter T j.val s) = y j := by
  obtain ⟨s, hs⟩ := hW.2 y
  refine ⟨s, fun j => congrFun hs j, fun t ht => hW.1 ?_⟩
  rw [hs]
  funext j
  exact ht j

/-- … and that state is the fixed state `z` iff the tuple is constant `out z` -/
theorem dim_states_zero (hW : Function.Bijective (window k out T)) {z : σ} {o : β} (hTz : T z = z)
    (hoz : out z = o) (s : σ) : (∀ j : Fin k, out (iter T j.val s) = o) ↔ s = z := by
  constructor
  · intro h
    apply hW.1
    rw [window_fixed k hTz hoz]
    funext j
    exact h j
  · intro h j
    rw [h, iter_fixed hTz, hoz]

/-- a bijection hits every value exactly once -/
theorem card_fibre_of_bijective {γ : Type} [Fintype σ] [DecidableEq γ] {W : σ → γ}
    (hW : Function.Bijective W) (y : γ) : (Finset.univ.filter (fun t : σ => W t = y)).card = 1 := by
  obtain ⟨t₀, h₀⟩ := hW.2 y
  rw [Finset.card_eq_one]
  refine ⟨t₀, ?_⟩
  ext t
  simp only [Finset.mem_filter, Finset.mem_univ, true_and, Finset.mem_singleton]
  constructor
  · intro h; exact hW.1 (h.trans h₀.symm)
  · intro h; rw [h]; exact h₀

/-- among the states `≠ z`: the window of `z` belongs to no state, every other tuple to exactly one -/
theorem dim_states_count {γ : Type} [Fintype σ] [DecidableEq σ] [DecidableEq γ] {W : σ → γ}
    (hW : Function.Bijective W) (z : σ) (y : γ) :
    (Finset.univ.filter (fun t : σ => t ≠ z ∧ W t = y)).card = if y = W z then 0 else 1 := by
  rw [card_nonzero_fibre, card_fibre_of_bijective hW]
  by_cases h : y = W z
  · rw [if_pos h.symm, if_pos h]
  · rw [if_neg (fun e => h e.symm), if_neg h]

end states

/-! ## (D2) on the stream over one full cycle -/

section stream
variable {σ γ : Type} {T : σ → σ} {N : Nat} {z s₀ : σ} {W : σ → γ}

/-- counting positions of one period = counting states `≠ z` -/
theorem stream_count [Fintype σ] [DecidableEq σ] [DecidableEq γ] (hW : Function.Bijective W)
    (hnz : ∀ i, iter T i s₀ ≠ z)
    (hnr : ∀ i j, i < j → j < N → iter T i s₀ ≠ iter T j s₀)
    (hsc : ∀ t, t ≠ z → ∃ i, i < N ∧ iter T i s₀ = t) (y : γ) :
    ((Finset.range N).filter (fun i => W (iter T i s₀) = y)).card = if y = W z then 0 else 1 :=
  (count_period hnz hnr hsc W y).trans (dim_states_count hW z y)

theorem stream_existsUnique (hW : Function.Bijective W)
    (hnr : ∀ i j, i < j → j < N → iter T i s₀ ≠ iter T j s₀)
    (hsc : ∀ t, t ≠ z → ∃ i, i < N ∧ iter T i s₀ = t) {y : γ} (hy : y ≠ W z) :
    ∃! i, i < N ∧ W (iter T i s₀) = y := by
  obtain ⟨t, ht⟩ := hW.2 y
  have htz : t ≠ z := fun e => hy (by rw [← ht, e])
  obtain ⟨i, hi, e⟩ := hsc t htz
  refine ⟨i, ⟨hi, by rw [e, ht]⟩, ?_⟩
  rintro i' ⟨hi', e'⟩
  have h : iter T i' s₀ = iter T i s₀ := hW.1 (by rw [e', e, ht])
  rcases Nat.lt_trichotomy i' i with hlt | heq | hgt
  · exact absurd h (hnr i' i hlt hi)
  · exact heq
  · exact absurd h.symm (hnr i i' hgt hi')

theorem stream_ne_zero (hW : Function.Bijective W) (hnz : ∀ i, iter T i s₀ ≠ z) (i : Nat) :
    W (iter T i s₀) ≠ W z := fun h => hnz i (hW.1 h)

theorem stream_distinct (hW : Function.Bijective W)
    (hnr : ∀ i j, i < j → j < N → iter T i s₀ ≠ iter T j s₀) {i i' : Nat} (hi : i < N)
    (hi' : i' < N) (hne : i ≠ i') : W (iter T i s₀) ≠ W (iter T i' s₀) := by
  intro h
  have e := hW.1 h
  rcases Nat.lt_trichotomy i i' with hlt | heq | hgt
  · exact hnr i i' hlt hi' e
  · exact hne heq
  · exact hnr i' i hgt hi e.symm

end stream

/-! ### … for windows, in terms of the outputs at positions `i, i+1, …, i+k-1` -/

section period
variable {σ : Type} {w k : Nat} {out : σ → BitVec w} {T : σ → σ} {N : Nat} {z s₀ : σ}

theorem ne_zero_tuple {y : Fin k → BitVec w} (hy : ∃ j, y j ≠ 0) : y ≠ fun _ => 0 := by
  obtain ⟨j, hj⟩ := hy
  intro e
  exact hj (by rw [e])

/-- every non-zero `k`-tuple occurs at exactly one position of the period -/
theorem dim_period (hW : Function.Bijective (window k out T)) (hTz : T z = z) (hoz : out z = 0)
    (hnr : ∀ i j, i < j → j < N → iter T i s₀ ≠ iter T j s₀)
    (hsc : ∀ t, t ≠ z → ∃ i, i < N ∧ iter T i s₀ = t)
    (y : Fin k → BitVec w) (hy : ∃ j, y j ≠ 0) :
    ∃! i, i < N ∧ ∀ j : Fin k, out (iter T (i + j.val) s₀) = y j := by
  have hy' : y ≠ window k out T z := by rw [window_fixed k hTz hoz]; exact ne_zero_tuple hy
  obtain ⟨i, ⟨hi, e⟩, huniq⟩ := stream_existsUnique hW hnr hsc hy'
  refine ⟨i, ⟨hi, fun j => by rw [← window_iter k out T i s₀ j, e]⟩, ?_⟩
  rintro i' ⟨hi', e'⟩
  apply huniq i' ⟨hi', ?_⟩
  funext j
  rw [window_iter, e']

/-- the all-zero `k`-tuple occurs at no position -/
theorem dim_period_zero (hW : Function.Bijective (window k out T)) (hTz : T z = z)
    (hoz : out z = 0) (hnz : ∀ i, iter T i s₀ ≠ z) (i : Nat) :
    ∃ j : Fin k, out (iter T (i + j.val) s₀) ≠ 0 := by
  apply Classical.byContradiction
  intro h
  have h' : ∀ j : Fin k, out (iter T (i + j.val) s₀) = 0 := fun j =>
    Classical.byContradiction fun hj => h ⟨j, hj⟩
  apply stream_ne_zero hW hnz i
  rw [window_fixed k hTz hoz]
  funext j
  rw [window_iter, h']

/-- the count over one period: 0 for the all-zero tuple, 1 for every other tuple -/
theorem dim_period_count [Fintype σ] [DecidableEq σ] (hW : Function.Bijective (window k out T))
    (hTz : T z = z) (hoz : out z = 0) (hnz : ∀ i, iter T i s₀ ≠ z)
    (hnr : ∀ i j, i < j → j < N → iter T i s₀ ≠ iter T j s₀)
    (hsc : ∀ t, t ≠ z → ∃ i, i < N ∧ iter T i s₀ = t) (y : Fin k → BitVec w) :
    ((Finset.range N).filter (fun i => ∀ j : Fin k, out (iter T (i + j.val) s₀) = y j)).card
      = if ∀ j, y j = 0 then 0 else 1 := by
  have e : ∀ i, (∀ j : Fin k, out (iter T (i + j.val) s₀) = y j) ↔ window k out T (iter T i s₀) = y :=
    fun i => ⟨fun h => funext fun j => by rw [window_iter, h], fun h j => by rw [← window_iter k out T i s₀ j, h]⟩
  have e2 : (∀ j, y j = 0) ↔ y = window k out T z := by
    rw [window_fixed k hTz hoz]
    exact ⟨fun h => funext h, fun h j => by rw [h]⟩
  simp only [e, e2]
  exact stream_count hW hnz hnr hsc y

/-- the `N` windows of one period are pairwise distinct -/
theorem dim_windows_distinct (hW : Function.Bijective (window k out T))
    (hnr : ∀ i j, i < j → j < N → iter T i s₀ ≠ iter T j s₀) {i i' : Nat} (hi : i < N)
    (hi' : i' < N) (hne : i ≠ i') :
    ∃ j : Fin k, out (iter T (i + j.val) s₀) ≠ out (iter T (i' + j.val) s₀) := by
  apply Classical.byContradiction
  intro h
  have h' : ∀ j : Fin k, out (iter T (i + j.val) s₀) = out (iter T (i' + j.val) s₀) := fun j =>
    Classical.byContradiction fun hj => h ⟨j, hj⟩
  apply stream_distinct hW hnr hi hi' hne
  funext j
  rw [window_iter, window_iter, h']

/-- `k = 2`, written with the two outputs: every pair `(a, b) ≠ (0, 0)` occurs as (output `i`,
    output `i + 1`) for exactly one `i` of the period -/
theorem dim_period_pair {out : σ → BitVec w} (hW : Function.Bijective (window 2 out T))
    (hTz : T z = z) (hoz : out z = 0)
    (hnr : ∀ i j, i < j → j < N → iter T i s₀ ≠ iter T j s₀)
    (hsc : ∀ t, t ≠ z → ∃ i, i < N ∧ iter T i s₀ = t)
    (a b : BitVec w) (hab : a ≠ 0 ∨ b ≠ 0) :
    ∃! i, i < N ∧ out (iter T i s₀) = a ∧ out (iter T (i + 1) s₀) = b := by
  let y : Fin 2 → BitVec w := fun j => if j.val = 0 then a else b
  have hy : ∃ j, y j ≠ 0 := by
    rcases hab with h | h
    · exact ⟨⟨0, by omega⟩, h⟩
    · exact ⟨⟨1, by omega⟩, h⟩
  have key : ∀ i, (∀ j : Fin 2, out (iter T (i + j.val) s₀) = y j)
      ↔ (out (iter T i s₀) = a ∧ out (iter T (i + 1) s₀) = b) := by
    intro i
    constructor
    · intro h
      exact ⟨h ⟨0, by omega⟩, h ⟨1, by omega⟩⟩
    · rintro ⟨h0, h1⟩ j
      match j with
      | ⟨0, _⟩ => exact h0
      | ⟨1, _⟩ => exact h1
      | ⟨n + 2, h⟩ => exact absurd h (by omega)
  obtain ⟨i, ⟨hi, e⟩, huniq⟩ := dim_period hW hTz hoz hnr hsc y hy
  exact ⟨i, ⟨hi, (key i).mp e⟩, fun i' ⟨hi', e'⟩ => huniq i' ⟨hi', (key i').mpr e'⟩⟩

end period

/-! ## lower dimensions: `d ≤ k` consecutive outputs

  A generator whose `k`-windows are in bijection with the states is `d`-dimensionally
  equidistributed for every `d ≤ k`: a `d`-tuple extends to `|β|^(k-d)` `k`-tuples. -/

section lower
variable {σ β : Type} {k : Nat} {out : σ → β} {T : σ → σ}

/-- a `(d+1)`-window is a `d`-window and one more output -/
theorem window_snoc_iff (d : Nat) (t : σ) (y : Fin d → β) (v : β) :
    window (d + 1) out T t = Fin.snoc (α := fun _ => β) y v
      ↔ (window d out T t = y ∧ out (iter T d t) = v) := by
  constructor
  · intro h
    refine ⟨funext fun j => ?_, ?_⟩
    · have := congrFun h j.castSucc
      rw [Fin.snoc_castSucc] at this
      exact this
    · have := congrFun h (Fin.last d)
      rw [Fin.snoc_last] at this
      exact this
  · rintro ⟨h1, h2⟩
    funext j
    refine Fin.lastCases ?_ (fun i => ?_) j
    · rw [Fin.snoc_last]; exact h2
    · rw [Fin.snoc_castSucc]; exact congrFun h1 i

/-- among all states, every `d`-tuple (`d + m = k`) is the `d`-window of exactly `|β|^m` states -/
theorem window_fibre_card [Fintype σ] [Fintype β] [DecidableEq β]
    (hW : Function.Bijective (window k out T)) :
    ∀ m d, d + m = k → ∀ y : Fin d → β,
      (Finset.univ.filter (fun t : σ => window d out T t = y)).card = Fintype.card β ^ m := by
  intro m
  induction m with
  | zero =>
    intro d hd y
    have : d = k := by omega
    subst this
    rw [card_fibre_of_bijective hW y, Nat.pow_zero]
  | succ m ih =>
    intro d hd y
    rw [Finset.card_eq_sum_card_fiberwise (f := fun t : σ => out (iter T d t)) (t := Finset.univ)
      (fun _ _ => Finset.mem_coe.mpr (Finset.mem_univ _))]
    have e : ∀ v ∈ (Finset.univ : Finset β),
        ((Finset.univ.filter (fun t : σ => window d out T t = y)).filter
          (fun t => out (iter T d t) = v)).card = Fintype.card β ^ m := by
      intro v _
      rw [← ih (d + 1) (by omega) (Fin.snoc (α := fun _ => β) y v)]
      congr 1
      ext t
      simp only [Finset.mem_filter, Finset.mem_univ, true_and, window_snoc_iff]
    rw [Finset.sum_const_nat e, Finset.card_univ, Nat.pow_succ, Nat.mul_comm]

end lower

section lowerPeriod
attribute [local instance] bitVecFintype
variable {σ : Type} {w k : Nat} {out : σ → BitVec w} {T : σ → σ} {N : Nat} {z s₀ : σ}

/-- (D1, `d ≤ k`) among the states `≠ z`, every `d`-tuple is the `d`-window of `2^(w(k-d))` states,
    the all-zero tuple of one less -/
theorem dim_states_count_le [Fintype σ] [DecidableEq σ]
    (hW : Function.Bijective (window k out T)) (hTz : T z = z) (hoz : out z = 0)
    (d : Nat) (hd : d ≤ k) (y : Fin d → BitVec w) :
    (Finset.univ.filter (fun t : σ => t ≠ z ∧ ∀ j : Fin d, out (iter T j.val t) = y j)).card
      = if ∀ j, y j = 0 then 2 ^ (w * (k - d)) - 1 else 2 ^ (w * (k - d)) := by
  have e : ∀ t, (∀ j : Fin d, out (iter T j.val t) = y j) ↔ window d out T t = y :=
    fun t => ⟨fun h => funext h, fun h j => congrFun h j⟩
  have e2 : (∀ j, y j = 0) ↔ window d out T z = y := by
    rw [window_fixed d hTz hoz]
    exact ⟨fun h => (funext h).symm, fun h j => by rw [← h]⟩
  simp only [e, e2]
  rw [card_nonzero_fibre, window_fibre_card hW (k - d) d (by omega) y, card_bitVec, ← Nat.pow_mul]

/-- (D2, `d ≤ k`) over one period every `d`-tuple occurs at `2^(w(k-d))` positions, the all-zero
    tuple at one less -/
theorem dim_period_count_le [Fintype σ] [DecidableEq σ]
    (hW : Function.Bijective (window k out T)) (hTz : T z = z) (hoz : out z = 0)
    (hnz : ∀ i, iter T i s₀ ≠ z)
    (hnr : ∀ i j, i < j → j < N → iter T i s₀ ≠ iter T j s₀)
    (hsc : ∀ t, t ≠ z → ∃ i, i < N ∧ iter T i s₀ = t)
    (d : Nat) (hd : d ≤ k) (y : Fin d → BitVec w) :
    ((Finset.range N).filter (fun i => ∀ j : Fin d, out (iter T (i + j.val) s₀) = y j)).card
      = if ∀ j, y j = 0 then 2 ^ (w * (k - d)) - 1 else 2 ^ (w * (k - d)) := by
  have e : ∀ i, (∀ j : Fin d, out (iter T (i + j.val) s₀) = y j) ↔ window d out T (iter T i s₀) = y :=
    fun i => ⟨fun h => funext fun j => by rw [window_iter, h],
      fun h j => by rw [← window_iter d out T i s₀ j, h]⟩
  have e' : ∀ t, (∀ j : Fin d, out (iter T j.val t) = y j) ↔ window d out T t = y :=
    fun t => ⟨fun h => funext h, fun h j => congrFun h j⟩
  have h := dim_states_count_le hW hTz hoz d hd y
  simp only [e'] at h
  simp only [e]
  exact (count_period hnz hnr hsc (window d out T) y).trans h

end lowerPeriod

end Rngs.EquidistDim
