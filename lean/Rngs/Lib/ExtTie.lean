/-
  Rngs.Lib.ExtTie — tactics and lemmas used by the *generated* correspondence file (tools/rs2lean.py):
  each definition translated from the current Rust source is proved equal to the hand-written model.
  `rfl` closes the goal whenever the translation unfolds to the model (the normal case); the fall-backs make the
  proofs survive behaviour-preserving rewrites of the source (reordered xors, …).
-/
import Rngs.Model.Xoshiro
import Rngs.Model.XorShift
import Rngs.Lib.XorLinear
namespace Rngs

/-- step functions (`next_u32`, `next_u64`): definitional unfolding first -/
macro "ext_tie_step" f:ident : tactic =>
  `(tactic| first
    | rfl
    | (funext st; rfl))

macro "ext_tie_fill" f:ident : tactic =>
  `(tactic| first
    | (intro st n; rfl))

macro "ext_tie_jump" f:ident : tactic =>
  `(tactic| first
    | rfl
    | (funext st; rfl))

macro "ext_tie_seed" f:ident : tactic =>
  `(tactic| first
    | rfl
    | (intro k x; rfl)
    | (funext x; rfl)
    | (funext seed
       simp only [$f:ident, XorShift.fromSeed, S4.decode32, S4.zero, XorShift.BAD_SEED, S4.mk.injEq]
       split <;> rename_i h <;> simp_all))

end Rngs
