/-
  Rngs.Lib.ExtTie — tactics and lemmas used by the *generated* correspondence file (tools/rs2lean.py):
  each definition translated from the current Rust source is proved equal to the hand-written model.
  `rfl` closes the goal whenever the translation unfolds to the model (the normal case); the fall-backs make the
  proofs survive behaviour-preserving rewrites of the source (reordered xors, …).
-/
import Lean
import Rngs.Model.Xoshiro
import Rngs.Model.XorShift
import Rngs.Model.Jitter
import Rngs.Model.Hc128
import Rngs.Model.Isaac
import Rngs.Lib.XorLinear
import Rngs.Lib.ExtTieBlock
import Rngs.Lib.ExtTieShapes
import Rngs.Lib.ExtTieRc
open Lean Elab Tactic Meta in
/-- `bounded n => tac`: run `tac` with a budget of `n` thousand heartbeats of its own (not charged to the enclosing
    declaration); running out of it (or any other failure)
    is an ordinary failure, so that `first | bounded 100 => rfl | …` can go on to a normalising script instead of ending the
    whole proof with a timeout.  (Elaboration-time control only: whatever proof comes out is checked by the kernel as always.) -/
elab "bounded " n:num " => " t:tacticSeq : tactic => do
  let budget := n.getNat * 1000
  let s ← saveState
  let h0 ← IO.getNumHeartbeats
  let ok ← tryCatchRuntimeEx
      (do withTheReader Core.Context (fun ctx => { ctx with maxHeartbeats := budget * 1000 }) <|
            withCurrHeartbeats (evalTactic t)
          pure true)
      (fun _ => pure false)
  -- what the bounded tactic used is not charged to the enclosing declaration (it has its own budget)
  IO.setNumHeartbeats h0
  unless ok do
    s.restore
    throwError "bounded: the tactic failed or ran out of its budget"

namespace Rngs

/-- `next_u64_via_u32` written out with projections (the source may inline it as two `next_u32` calls) -/
theorem nextU64ViaU32_eq {σ : Type} (f : σ → U32 × σ) (s : σ) :
    nextU64ViaU32 f s = ((f (f s).2).1.setWidth 64 <<< 32 ||| (f s).1.setWidth 64, (f (f s).2).2) := rfl

/-- step functions (`next_u32`, `next_u64`): definitional unfolding first -/
macro "ext_tie_step" f:ident : tactic =>
  `(tactic| first
    | rfl
    | (funext st; rfl))

macro "ext_tie_fill" f:ident : tactic =>
  `(tactic| first
    | (intro st n; rfl))

macro "ext_tie_jump" f:ident : tactic =>
  `(tactic| first
    | rfl
    | (funext st; rfl))

macro "ext_tie_seed" f:ident : tactic =>
  `(tactic| first
    | rfl
    | (intro k x; rfl)
    | (funext x; rfl)
    | (funext seed
       simp only [$f:ident, XorShift.fromSeed, S4.decode32, S4.zero, XorShift.BAD_SEED, S4.mk.injEq]
       split <;> rename_i h <;> simp_all))

/-- `stir_pool` -/
macro "ext_tie_stir" f:ident : tactic =>
  `(tactic| first
    | (intro st; rfl))

/-- a fold over `1..65` in the source is a fold over `List.range 64` with `i = k + 1` in the model -/
theorem foldl_range'_one {α : Type} (f : α → Nat → α) (a : α) (n : Nat) :
    List.foldl f a (List.range' 1 n) = List.foldl (fun acc k => f acc (k + 1)) a (List.range n) := by
  rw [List.range'_eq_map_range]
  simp only [List.foldl_map, Nat.add_comm]

macro "ext_tie_lfsr" f:ident : tactic =>
  `(tactic| first
    | rfl
    | (funext data time; rfl)
    | (funext data time
       simp only [$f:ident, Jitter.lfsr, foldl_range'_one]
       rfl))

/-! ### rand_hc / rand_isaac (the larger proofs are scripts emitted by tools/extract_units.py; lemmas: ExtTieBlock, ExtTieShapes) -/

/-- `f1`, `f2` of HC-128's key expansion: rotations in either direction, xor in any order -/
macro "ext_tie_hc_fn" f:ident : tactic =>
  `(tactic| first
    | bounded 20 => rfl
    | (funext x
       simp only [$f:ident, Hc128.f1, Hc128.f2, rotl_eq_rotr, Nat.reduceSub, Nat.reduceLT]
       first | done | ac_rfl))

/-- `step_p`, `step_q`: the translation (slice views resolved to `self.t` at index + offset) unfolds to the model.  Both sides
    are unfolded to let-free terms; left rotations are written as right rotations, a store split in two
    (`p[i] = p[i] + a; p[i] = p[i] + b`) is merged (`wr_wr_same`, and `rd (wr t i x) i = x` when `i` is in bounds — out of
    bounds every store is void), sums are re-associated.  No unbounded `rfl`: a failing script must fail fast. -/
macro "ext_tie_hc_step_at" f:ident idx:term : tactic =>
  `(tactic| (simp only [$f:ident, Hc128.stepP, Hc128.stepQ, wr_wr_same, rotl_eq_rotr, Nat.reduceSub, Nat.reduceLT, Nat.add_zero,
               -- the table index bytes: `x as u8`, `x & 0xff`, `x % 256` all are `x.toNat % 256`
               BitVec.toNat_setWidth, BitVec.toNat_and, BitVec.toNat_umod, BitVec.toNat_ofNat, Nat.reducePow, Nat.reduceMod, and_255]
             first
             | done
             | (by_cases h : $idx
                · simp only [rd_wr_same _ _ _ h, BitVec.add_assoc]
                  first | done | ac_rfl
                · simp only [wr_of_le _ _ _ (Nat.le_of_not_lt h)]
                  first | done | ac_rfl)
             | ac_rfl))
macro "ext_tie_hc_step" f:ident : tactic =>
  `(tactic| (intro st i i511 i3 i10 i12
             first
             | ext_tie_hc_step_at $f (i < st.t.size)
             | ext_tie_hc_step_at $f (512 + i < st.t.size)))

/-- ISAAC's nested `rngstep`, `mix` with their `&mut` parameters returned as a tuple -/
macro "ext_tie_isaac_step" f:ident : tactic =>
  `(tactic| first
    | bounded 100 => (intros; rfl)
    | bounded 400 => (intros
                      unfold $f:ident
                      simp (config := {zeta := false}) only [Isaac.params32, Isaac.params64]
                      ac_nf
                      first | done | bounded 100 => rfl)
    | (intros
       simp only [$f:ident, Isaac.rngstep, Isaac.ind, Isaac.params32, Isaac.params64, BitVec.add_assoc]
       first | done | ac_rfl))

/-- the hand-written `PartialEq` of the cores: field-wise comparison = the model's `beq` -/
macro "ext_tie_core_eq" f:ident : tactic =>
  `(tactic| first
    | (intros; rfl)
    | (intro a b
       simp only [$f:ident, Hc128.Core.beq, Isaac.Core.beq, Bool.and_assoc, Bool.and_comm, Bool.and_left_comm]))

/-- `ind`: `Wrapping >> usize` masks the amount, the model shifts by it: equal for amounts below the width -/
macro "ext_tie_isaac_ind" f:ident : tactic =>
  `(tactic| (intro mem v amount h
             simp only [$f:ident, Isaac.ind, Nat.mod_eq_of_lt h, Isaac.RAND_SIZE, Isaac.RAND_SIZE_LEN, Nat.reduceSub, Nat.reducePow,
               and_255]
             first | done | rfl))

end Rngs
