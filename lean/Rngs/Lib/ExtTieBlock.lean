/-
  Rngs.Lib.ExtTieBlock — bridge lemmas for the generated correspondence file (tools/rs2lean.py, DESIGN §3b) for the two
  block generators rand_hc and rand_isaac.

  The translator turns the Rust into straight-line / fold code over tuples of the assigned variables; the hand-written
  model uses an index TABLE (HC-128) resp. small structures `GenSt`, `Oct` (ISAAC).  The lemmas here restate the model
  functions in the translator's style once (compiled, cached by lake); the generated file then only has to unfold the
  translated definition (`simp only`, `rfl`).
-/
import Rngs.Model.Hc128
import Rngs.Model.Isaac
set_option maxRecDepth 4096
namespace Rngs

/-- `for i in lo..hi` is translated as a fold over `List.range' lo (hi - lo)`; the model writes `List.range n` with `i = lo + j` -/
theorem foldl_range'_add {α : Type} (f : α → Nat → α) (a : α) (s n : Nat) :
    List.foldl f a (List.range' s n) = List.foldl (fun acc k => f acc (s + k)) a (List.range n) := by
  rw [List.range'_eq_map_range]
  simp only [List.foldl_map]

/-! ## normal forms that make the generated proofs insensitive to harmless rewrites of the source -/

/-- a left rotation is the right rotation by the complementary amount -/
theorem rotl_eq_rotr {w : Nat} (x : BitVec w) (k : Nat) (h0 : 0 < k) (hk : k < w) : x.rotateLeft k = x.rotateRight (w - k) := by
  rw [BitVec.rotateLeft_def, BitVec.rotateRight_def]
  rw [Nat.mod_eq_of_lt hk, Nat.mod_eq_of_lt (by omega : w - k < w)]
  rw [show w - (w - k) = k by omega, BitVec.or_comm]

theorem wr_wr_same {α : Type} (a : Array α) (i : Nat) (x y : α) : wr (wr a i x) i y = wr a i y := by
  unfold wr; simp

theorem wr_wr_sort {α : Type} (a : Array α) (i j : Nat) (x y : α) (h : j < i) : wr (wr a i x) j y = wr (wr a j y) i x := by
  unfold wr
  exact Array.setIfInBounds_comm _ _ (by omega) |>.symm

theorem rd_wr_same {α : Type} [Inhabited α] (a : Array α) (i : Nat) (x : α) (h : i < a.size) : rd (wr a i x) i = x := by
  unfold rd wr; simp [h]

theorem wr_of_le {α : Type} (a : Array α) (i : Nat) (x : α) (h : a.size ≤ i) : wr a i x = a := by
  unfold wr; simp [Array.setIfInBounds, h]; omega

theorem and_255 (x : Nat) : x &&& 255 = x % 256 := by
  simpa using Nat.and_two_pow_sub_one_eq_mod x 8

theorem and_15 (x : Nat) : x &&& 15 = x % 16 := by simpa using Nat.and_two_pow_sub_one_eq_mod x 4
theorem and_511 (x : Nat) : x &&& 511 = x % 512 := by simpa using Nat.and_two_pow_sub_one_eq_mod x 9
theorem and_1023 (x : Nat) : x &&& 1023 = x % 1024 := by simpa using Nat.and_two_pow_sub_one_eq_mod x 10

theorem and_pow2_sub_one (x k : Nat) : x &&& (2 ^ k - 1) = x % 2 ^ k := Nat.and_two_pow_sub_one_eq_mod x k

namespace Hc128

/-- `step_p` as a function on the whole core (the Rust method signature): keystream word and updated core -/
def stepPC (c : Core) (i i511 i3 i10 i12 : Nat) : U32 × Core :=
  ((stepP c.t i i511 i3 i10 i12).1, { c with t := (stepP c.t i i511 i3 i10 i12).2 })
def stepQC (c : Core) (i i511 i3 i10 i12 : Nat) : U32 × Core :=
  ((stepQ c.t i i511 i3 i10 i12).1, { c with t := (stepQ c.t i i511 i3 i10 i12).2 })

@[simp] theorem stepPC_counter (c : Core) (i i511 i3 i10 i12 : Nat) : (stepPC c i i511 i3 i10 i12).2.counter = c.counter := rfl
@[simp] theorem stepQC_counter (c : Core) (i i511 i3 i10 i12 : Nat) : (stepQC c i i511 i3 i10 i12).2.counter = c.counter := rfl

abbrev StepFn := Core → Nat → Nat → Nat → Nat → Nat → U32 × Core

/-- the sixteen steps of `generate` with the step function fixed -/
def blockWith (step : StepFn) (b : Nat × Nat × Nat) (c : Core) (results : Array U32) : Array U32 × Core :=
  let (results, c, _) :=
    TABLE.foldl
      (fun (acc : Array U32 × Core × Nat) row =>
        let (results, c, k) := acc
        let (r0, r1, r2, r3, r4) := row
        let r := step c (idx b r0) (idx b r1) (idx b r2) (idx b r3) (idx b r4)
        (wr results k r.1, r.2, k + 1))
      (results, c, 0)
  (results, c)

/-- the sixteen steps of `sixteen_steps`: the output of step k is written to `t[base + k]` -/
def feedWith (step : StepFn) (b : Nat × Nat × Nat) (base : Nat) (c : Core) : Core :=
  (TABLE.foldl
      (fun (acc : Core × Nat) row =>
        let (c, k) := acc
        let (r0, r1, r2, r3, r4) := row
        let r := step c (idx b r0) (idx b r1) (idx b r2) (idx b r3) (idx b r4)
        ({ r.2 with t := wr r.2.t (base + k) r.1 }, k + 1))
      (c, 0)).1

/-- `generate` with the P/Q decision hoisted out of the fold -/
theorem generate_hoisted (c : Core) (results : Array U32) :
    generate c results =
      (if (c.counter &&& 512) == 0
        then ((blockWith stepPC (bases c.counter) c results).1,
              { (blockWith stepPC (bases c.counter) c results).2 with counter := (c.counter + 16) % USIZE })
        else ((blockWith stepQC (bases c.counter) c results).1,
              { (blockWith stepQC (bases c.counter) c results).2 with counter := (c.counter + 16) % USIZE })) := by
  unfold generate
  cases h : ((c.counter &&& 512) == 0)
  · simp only [blockWith, stepQC, TABLE, List.foldl, idx, Bool.false_eq_true, if_false]
  · simp only [blockWith, stepPC, TABLE, List.foldl, idx, if_true]

theorem sixteenSteps_hoisted (c : Core) :
    sixteenSteps c =
      (if decide (c.counter < 512)
        then { feedWith stepPC (bases c.counter) (bases c.counter).1 c with counter := c.counter + 16 }
        else { feedWith stepQC (bases c.counter) ((bases c.counter).1 + 512) c with counter := c.counter + 16 }) := by
  unfold sixteenSteps
  cases h : decide (c.counter < 512)
  · simp only [feedWith, stepQC, TABLE, List.foldl, idx, Bool.false_eq_true, if_false]
  · simp only [feedWith, stepPC, TABLE, List.foldl, idx, if_true]

end Hc128

/-! ## folds over tuples of variables vs folds over the model's small structures -/

/-- conjugating a fold: if `φ` maps the translator's accumulator to the model's, `ψ` back, and the loop bodies commute with
    `φ`, then the translated loop is `ψ` of the model's loop -/
theorem foldl_conj {α β γ : Type} (φ : α → β) (ψ : β → α) (hψ : ∀ a, ψ (φ a) = a)
    (f : α → γ → α) (g : β → γ → β) (h : ∀ a x, φ (f a x) = g (φ a) x) (l : List γ) (a : α) :
    List.foldl f a l = ψ (List.foldl g (φ a) l) := by
  have key : ∀ (l : List γ) (a : α), φ (List.foldl f a l) = List.foldl g (φ a) l := by
    intro l
    induction l with
    | nil => intro a; rfl
    | cons x xs ih => intro a; simp only [List.foldl_cons, ih, h]
  rw [← key, hψ]

/-- a component that the loop body does not touch -/
theorem foldl_prod_const {β δ γ : Type} (H : β → γ → β) (d : δ) (l : List γ) (s : β) :
    List.foldl (fun (p : β × δ) j => (H p.1 j, p.2)) (s, d) l = (List.foldl H s l, d) := by
  induction l generalizing s with
  | nil => rfl
  | cons x xs ih => simp only [List.foldl_cons, ih]

namespace Isaac
variable {w : Nat}

/-- `rngstep` with the Rust signature: the `&mut` parameters `mem, results, a, b` are returned as a tuple -/
def rngstepT (p : Params w) (mem results : Array (BitVec w)) (mix a b : BitVec w) (base m m2 : Nat) :
    Array (BitVec w) × Array (BitVec w) × BitVec w × BitVec w :=
  let s := rngstep p ⟨mem, results, a, b⟩ mix base m m2
  (s.mem, s.results, s.a, s.b)

/-- `init`'s `mix` with the Rust signature: eight `&mut` words -/
def mixT (p : Params w) (a b c d e f g h : BitVec w) :
    BitVec w × BitVec w × BitVec w × BitVec w × BitVec w × BitVec w × BitVec w × BitVec w :=
  let o := p.mix ⟨a, b, c, d, e, f, g, h⟩
  (o.a, o.b, o.c, o.d, o.e, o.f, o.g, o.h)

/-- accumulator of the translated half loop of `generate`: `(self, a, b, results)` (self first, then by name) -/
abbrev GenAcc (w : Nat) := Core w × BitVec w × BitVec w × Array (BitVec w)

/-- body of one translated half loop (`i` is already the multiple of four) -/
def halfBodyT (p : Params w) (m m2 : Nat) (acc : GenAcc w) (i : Nat) : GenAcc w :=
  let (st, a, b, results) := acc
  let r_1 := rngstepT p st.mem results (p.mix0 a) a b (i + 0) m m2
  let st : Core w := { st with mem := r_1.1 }; let results := r_1.2.1; let a := r_1.2.2.1; let b := r_1.2.2.2
  let r_2 := rngstepT p st.mem results (p.mix1 a) a b (i + 1) m m2
  let st : Core w := { st with mem := r_2.1 }; let results := r_2.2.1; let a := r_2.2.2.1; let b := r_2.2.2.2
  let r_3 := rngstepT p st.mem results (p.mix2 a) a b (i + 2) m m2
  let st : Core w := { st with mem := r_3.1 }; let results := r_3.2.1; let a := r_3.2.2.1; let b := r_3.2.2.2
  let r_4 := rngstepT p st.mem results (p.mix3 a) a b (i + 3) m m2
  let st : Core w := { st with mem := r_4.1 }; let results := r_4.2.1; let a := r_4.2.2.1; let b := r_4.2.2.2
  (st, a, b, results)

/-- the model's loop body of `halfLoop` -/
def halfStep (p : Params w) (m m2 : Nat) (st : GenSt w) (j : Nat) : GenSt w :=
  let i := j * 4
  let st := rngstep p st (p.mix0 st.a) (i + 0) m m2
  let st := rngstep p st (p.mix1 st.a) (i + 1) m m2
  let st := rngstep p st (p.mix2 st.a) (i + 2) m m2
  let st := rngstep p st (p.mix3 st.a) (i + 3) m m2
  st

theorem halfLoop_eq (p : Params w) (st : GenSt w) (m m2 : Nat) :
    halfLoop p st m m2 = List.foldl (halfStep p m m2) st (List.range (MIDPOINT / 4)) := rfl

/-- the translated half loop in terms of the model's -/
theorem halfT_eq (p : Params w) (m m2 : Nat) (l : List Nat) (st : Core w) (results : Array (BitVec w)) (a b : BitVec w) :
    List.foldl (halfBodyT p m m2) (st, a, b, results) (List.map (fun i => i * 4) l) =
      (let s := List.foldl (halfStep p m m2) ⟨st.mem, results, a, b⟩ l
       ({ st with mem := s.mem }, s.a, s.b, s.results)) := by
  rw [List.foldl_map]
  rw [foldl_conj
        (φ := fun (acc : GenAcc w) => ((⟨acc.1.mem, acc.2.2.2, acc.2.1, acc.2.2.1⟩ : GenSt w), (acc.1.a, acc.1.b, acc.1.c)))
        (ψ := fun q => (({ mem := q.1.mem, a := q.2.1, b := q.2.2.1, c := q.2.2.2 } : Core w), q.1.a, q.1.b, q.1.results))
        (g := fun q j => (halfStep p m m2 q.1 j, q.2))
        (hψ := fun _ => rfl) (h := fun _ _ => rfl)]
  rw [foldl_prod_const]


/-- `generate` in the translator's style -/
def generateT (p : Params w) (st : Core w) (results : Array (BitVec w)) : Array (BitVec w) × Core w :=
  let st : Core w := { st with c := st.c + 1 }
  let a := st.a
  let b := st.b + st.c
  let MIDPOINT := 256 / 2
  let m := 0
  let m2 := MIDPOINT
  let (st, a, b, results) :=
    List.foldl (halfBodyT p m m2) (st, a, b, results) (List.map (fun i => i * 4) (List.range (MIDPOINT / 4)))
  let m := MIDPOINT
  let m2 := 0
  let (st, a, b, results) :=
    List.foldl (halfBodyT p m m2) (st, a, b, results) (List.map (fun i => i * 4) (List.range (MIDPOINT / 4)))
  let st : Core w := { st with a := a }
  let st : Core w := { st with b := b }
  (results, st)

theorem generateT_eq (p : Params w) (st : Core w) (results : Array (BitVec w)) :
    generateT p st results = generate p st results := by
  unfold generateT generate
  simp only [halfT_eq, halfLoop_eq, MIDPOINT, Nat.reduceDiv]

/-- accumulator of the translated loops of `init`: `(a, …, h, mem)` -/
abbrev InitAcc (w : Nat) :=
  BitVec w × BitVec w × BitVec w × BitVec w × BitVec w × BitVec w × BitVec w × BitVec w × Array (BitVec w)

def initBodyT (p : Params w) (acc : InitAcc w) (i : Nat) : InitAcc w :=
  let (a, b, c, d, e, f, g, h, mem) := acc
  let a := a + rd mem i; let b := b + rd mem (i + 1); let c := c + rd mem (i + 2); let d := d + rd mem (i + 3)
  let e := e + rd mem (i + 4); let f := f + rd mem (i + 5); let g := g + rd mem (i + 6); let h := h + rd mem (i + 7)
  let r_1 := mixT p a b c d e f g h
  let a := r_1.1; let b := r_1.2.1; let c := r_1.2.2.1; let d := r_1.2.2.2.1; let e := r_1.2.2.2.2.1
  let f := r_1.2.2.2.2.2.1; let g := r_1.2.2.2.2.2.2.1; let h := r_1.2.2.2.2.2.2.2
  let mem := wr mem i a; let mem := wr mem (i + 1) b; let mem := wr mem (i + 2) c; let mem := wr mem (i + 3) d
  let mem := wr mem (i + 4) e; let mem := wr mem (i + 5) f; let mem := wr mem (i + 6) g; let mem := wr mem (i + 7) h
  (a, b, c, d, e, f, g, h, mem)

/-- the model's inner loop body of `init` -/
def initStep (p : Params w) (acc : Array (BitVec w) × Oct w) (j : Nat) : Array (BitVec w) × Oct w :=
  let (mem, o) := acc
  let i := j * 8
  let o : Oct w :=
    ⟨o.a + rd mem i, o.b + rd mem (i+1), o.c + rd mem (i+2), o.d + rd mem (i+3),
     o.e + rd mem (i+4), o.f + rd mem (i+5), o.g + rd mem (i+6), o.h + rd mem (i+7)⟩
  let o := p.mix o
  let mem := wr mem i o.a
  let mem := wr mem (i+1) o.b
  let mem := wr mem (i+2) o.c
  let mem := wr mem (i+3) o.d
  let mem := wr mem (i+4) o.e
  let mem := wr mem (i+5) o.f
  let mem := wr mem (i+6) o.g
  let mem := wr mem (i+7) o.h
  (mem, o)

def initφ (acc : InitAcc w) : Array (BitVec w) × Oct w :=
  (acc.2.2.2.2.2.2.2.2, ⟨acc.1, acc.2.1, acc.2.2.1, acc.2.2.2.1, acc.2.2.2.2.1, acc.2.2.2.2.2.1, acc.2.2.2.2.2.2.1, acc.2.2.2.2.2.2.2.1⟩)
def initψ (q : Array (BitVec w) × Oct w) : InitAcc w :=
  (q.2.a, q.2.b, q.2.c, q.2.d, q.2.e, q.2.f, q.2.g, q.2.h, q.1)

theorem initInnerT_eq (p : Params w) (l : List Nat) (acc : InitAcc w) :
    List.foldl (initBodyT p) acc (List.map (fun i => i * 8) l) = initψ (List.foldl (initStep p) (initφ acc) l) := by
  rw [List.foldl_map]
  refine foldl_conj initφ initψ (fun _ => rfl) _ _ (fun ⟨a, b, c, d, e, f, g, h, mem⟩ x => ?_) l acc
  simp only [initφ, initBodyT, initStep, mixT]

theorem initOuterT_eq (p : Params w) (l : List Nat) (ls : List Nat) (acc : InitAcc w) :
    List.foldl (fun (acc : InitAcc w) (_ : Nat) => List.foldl (initBodyT p) acc (List.map (fun i => i * 8) l)) acc ls =
      initψ (List.foldl (fun acc _ => List.foldl (initStep p) acc l) (initφ acc) ls) := by
  refine foldl_conj initφ initψ (fun _ => rfl) _ _ (fun a _ => ?_) ls acc
  rw [initInnerT_eq]
  rfl

/-- `init` in the translator's style -/
def initT (p : Params w) (mem : Array (BitVec w)) (rounds : Nat) : Core w :=
  let a := p.golden.a; let b := p.golden.b; let c := p.golden.c; let d := p.golden.d
  let e := p.golden.e; let f := p.golden.f; let g := p.golden.g; let h := p.golden.h
  let (_a, _b, _c, _d, _e, _f, _g, _h, mem) :=
    List.foldl (fun (acc : InitAcc w) (_ : Nat) => List.foldl (initBodyT p) acc (List.map (fun i => i * 8) (List.range (256 / 8))))
      (a, b, c, d, e, f, g, h, mem) (List.range rounds)
  { mem := mem, a := 0, b := 0, c := 0 }

theorem initT_eq (p : Params w) (mem : Array (BitVec w)) (rounds : Nat) : initT p mem rounds = init p mem rounds := by
  unfold initT init
  simp only [initOuterT_eq]
  rfl

/-! ### key arrays: `[w(0); RAND_SIZE]` with the first words stored one by one is the model's zero-extension -/

theorem extend_writes1 (x0 : BitVec w) : wr (Array.replicate 256 (0#w)) 0 x0 = extend [x0] := by
  apply Array.ext'
  simp [extend, wr, RAND_SIZE, List.replicate]
theorem extend_writes2 (x0 x1 : BitVec w) :
    wr (wr (Array.replicate 256 (0#w)) 0 x0) 1 x1 = extend [x0, x1] := by
  apply Array.ext'
  simp [extend, wr, RAND_SIZE, List.replicate]
theorem extend_writes4 (x0 x1 x2 x3 : BitVec w) :
    wr (wr (wr (wr (Array.replicate 256 (0#w)) 0 x0) 1 x1) 2 x2) 3 x3 = extend [x0, x1, x2, x3] := by
  apply Array.ext'
  simp [extend, wr, RAND_SIZE, List.replicate]
theorem extend_writes8 (x0 x1 x2 x3 x4 x5 x6 x7 : BitVec w) :
    wr (wr (wr (wr (wr (wr (wr (wr (Array.replicate 256 (0#w)) 0 x0) 1 x1) 2 x2) 3 x3) 4 x4) 5 x5) 6 x6) 7 x7 =
      extend [x0, x1, x2, x3, x4, x5, x6, x7] := by
  apply Array.ext'
  simp [extend, wr, RAND_SIZE, List.replicate]

/-! ### `from_rng` / `try_from_rng` of the cores: the model states them for the wrappers (`fromRng32` …); this is their core part -/

def coreFromRng32 {ρ : Type} (fill : TryFill ρ) (src : ρ) : Except SrcErr (Core 32) × ρ :=
  match fill src (RAND_SIZE * 4) with
  | (.ok bytes, src) => (.ok (init params32 (readU32s bytes RAND_SIZE).toArray 2), src)
  | (.error e, src) => (.error e, src)

def coreFromRng64 {ρ : Type} (fill : TryFill ρ) (src : ρ) : Except SrcErr (Core 64) × ρ :=
  match fill src (RAND_SIZE * 8) with
  | (.ok bytes, src) => (.ok (init params64 (readU64s bytes RAND_SIZE).toArray 2), src)
  | (.error e, src) => (.error e, src)

theorem fromRng32_eq_core {ρ : Type} (fill : TryFill ρ) (src : ρ) :
    fromRng32 fill src = (match coreFromRng32 fill src with
      | (.ok c, s) => (.ok (BlockRng.new blockCore32 c), s)
      | (.error e, s) => (.error e, s)) := by
  unfold fromRng32 coreFromRng32
  split <;> simp_all
theorem tryFromRng32_eq_core {ρ : Type} (fill : TryFill ρ) (src : ρ) :
    tryFromRng32 fill src = (match coreFromRng32 fill src with
      | (.ok c, s) => (.ok (BlockRng.new blockCore32 c), s)
      | (.error e, s) => (.error e, s)) := by
  unfold tryFromRng32 coreFromRng32
  split <;> simp_all
theorem fromRng64_eq_core {ρ : Type} (fill : TryFill ρ) (src : ρ) :
    fromRng64 fill src = (match coreFromRng64 fill src with
      | (.ok c, s) => (.ok (BlockRng64.new blockCore64 c), s)
      | (.error e, s) => (.error e, s)) := by
  unfold fromRng64 coreFromRng64
  split <;> simp_all
theorem tryFromRng64_eq_core {ρ : Type} (fill : TryFill ρ) (src : ρ) :
    tryFromRng64 fill src = (match coreFromRng64 fill src with
      | (.ok c, s) => (.ok (BlockRng64.new blockCore64 c), s)
      | (.error e, s) => (.error e, s)) := by
  unfold tryFromRng64 coreFromRng64
  split <;> simp_all

end Isaac

/-- `for x in a.iter_mut() { *x = w(x.0.to_le()) }` on a little-endian host: every element is stored back unchanged -/
theorem wr_rd_self {α : Type} [Inhabited α] (a : Array α) (j : Nat) : wr a j (rd a j) = a := by
  unfold wr rd
  by_cases h : j < a.size
  · simp [Array.setIfInBounds, h]
  · simp [Array.setIfInBounds, h]

theorem foldl_wr_rd_self {α : Type} [Inhabited α] (l : List Nat) (a : Array α) :
    List.foldl (fun a j => wr a j (rd a j)) a l = a := by
  induction l generalizing a with
  | nil => rfl
  | cons x xs ih => rw [List.foldl_cons, wr_rd_self, ih]

end Rngs
