/-
  Rngs.Lib.ExtTieJitter — the timer-monad part of the translator tie (tools/rs2lean_tm.py, rand_jitter).

  Part 1: the combinators the translator emits for loops in `Jitter.TM = StateT (List U64) Option`
          (`forRange`, `forRangeE` = `for` with early exits, `whileFuel` = `while` whose every iteration reads the timer),
          the model of `rand_core::impls::fill_bytes_via_next` in that monad, `u64::leading_zeros`.
  Part 2: lemmas that relate them to the recursion schemes of the hand-written model (`collect`, `probeLoop`, `fillLoop`).
  Part 3: one lemma per translated function: the shape the translator produces (callees as parameters, with the
          hypothesis that they equal the model's functions) equals the model's function.  The generated file
          instantiates them with the definitions it regenerated from the current source; the instantiation is checked by
          definitional unfolding, so any change of the translated definition that is not a mere re-arrangement breaks it.
-/
import Rngs.Lib.ExtTie
set_option linter.unusedVariables false
set_option linter.unusedSimpArgs false
namespace Rngs
namespace Jitter
namespace TM

/-! ## Part 1: combinators -/

/-- `for i in lo..lo+n { s = body(i, s) }` -/
def forRange {σ : Type} (lo n : Nat) (body : Nat → σ → TM σ) (s : σ) : TM σ :=
  match n with
  | 0 => pure s
  | n + 1 => do
    let s ← body lo s
    forRange (lo + 1) n body s

/-- `for` with early exits: the body answers `.ok s` (next iteration; also `continue`) or `.error r`
    (`return r` from the enclosing function). -/
def forRangeE {ρ σ : Type} (lo n : Nat) (body : Nat → σ → TM (Except ρ σ)) (s : σ) : TM (Except ρ σ) :=
  match n with
  | 0 => pure (.ok s)
  | n + 1 => do
    match ← body lo s with
    | .error r => pure (.error r)
    | .ok s => forRangeE (lo + 1) n body s

/-- `while` with fuel: `step` evaluates the condition (and, when it holds, the body). -/
def whileLoop {σ : Type} (step : σ → TM (Bool × σ)) : Nat → σ → TM σ
  | 0, _ => failure
  | fuel + 1, s => do
    let r ← step s
    if r.1 then whileLoop step fuel r.2 else pure r.2

/-- a `while` loop every iteration of which reads the timer at least once (checked by the translator): it cannot
    run more often than there are readings left, so `remaining + 1` is enough fuel; running dry is `none` as everywhere. -/
def whileFuel {σ : Type} (step : σ → TM (Bool × σ)) (s : σ) : TM σ := do
  let fuel := (← get).length + 1
  whileLoop step fuel s

/-- `u64::leading_zeros` -/
def leadingZeros64 (x : U64) : U32 :=
  BitVec.ofNat 32 (if x.toNat = 0 then 64 else 63 - Nat.log2 x.toNat)

/-- the `while left.len() >= 8` loop of `rand_core::impls::fill_bytes_via_next` for a generator in the timer monad -/
def fillLoopM {σ : Type} (n64 : σ → TM (U64 × σ)) : Nat → σ → TM (List U8 × σ)
  | 0, s => pure ([], s)
  | k + 1, s => do
    let r ← n64 s
    let q ← fillLoopM n64 k r.2
    pure (U64.toLE r.1 ++ q.1, q.2)

/-- `rand_core::impls::fill_bytes_via_next(rng, dest)` with `dest.len() = n` (cf. `Rngs.fillBytesViaNext`) -/
def fillBytesViaNext {σ : Type} (n32 : σ → TM (U32 × σ)) (n64 : σ → TM (U64 × σ)) (n : Nat) (s : σ) : TM (List U8 × σ) := do
  let p ← fillLoopM n64 (n / 8) s
  let r := n % 8
  if r > 4 then
    let w ← n64 p.2
    pure (p.1 ++ (U64.toLE w.1).take r, w.2)
  else if r > 0 then
    let w ← n32 p.2
    pure (p.1 ++ (U32.toLE w.1).take r, w.2)
  else pure p

/-! ## Part 2: running the monad, postconditions, consumption of readings -/

variable {α β : Type}

theorem bind_apply (m : TM α) (f : α → TM β) (rs : List U64) :
    (m >>= f) rs = match m rs with
      | none => none
      | some (a, rs') => f a rs' := by
  show StateT.bind m f rs = _
  unfold StateT.bind
  cases m rs with
  | none => rfl
  | some p => rfl

theorem pure_apply (a : α) (rs : List U64) : (pure a : TM α) rs = some (a, rs) := rfl
theorem failure_apply (rs : List U64) : (failure : TM α) rs = none := rfl
theorem get_apply (rs : List U64) : (get : TM (List U64)) rs = some (rs, rs) := rfl
theorem tick_nil : tick [] = none := rfl
theorem tick_cons (r : U64) (rs : List U64) : tick (r :: rs) = some (r, rs) := rfl

/-- whenever the run returns, the value satisfies `P` -/
def Post (m : TM α) (P : α → Prop) : Prop := ∀ rs a rs', m rs = some (a, rs') → P a

theorem Post.trivial (m : TM α) : Post m (fun _ => True) := fun _ _ _ _ => True.intro
theorem Post.pure {a : α} {P : α → Prop} (h : P a) : Post (pure a : TM α) P := by
  intro rs a' rs' e
  have : (a, rs) = (a', rs') := Option.some.inj e
  cases this; exact h
theorem Post.bind {m : TM α} {f : α → TM β} {P : α → Prop} {Q : β → Prop}
    (h1 : Post m P) (h2 : ∀ a, P a → Post (f a) Q) : Post (m >>= f) Q := by
  intro rs b rs' e
  rw [bind_apply] at e
  cases h : m rs with
  | none => rw [h] at e; cases e
  | some p =>
    obtain ⟨a, rs1⟩ := p
    rw [h] at e
    exact h2 a (h1 rs a rs1 h) rs1 b rs' e

/-- continuations need to agree only on the values the first step can return -/
theorem bind_congr_post {m : TM α} {P : α → Prop} (hP : Post m P) {f g : α → TM β}
    (h : ∀ a, P a → f a = g a) : m >>= f = m >>= g := by
  funext rs
  rw [bind_apply, bind_apply]
  cases hm : m rs with
  | none => rfl
  | some p => obtain ⟨a, rs'⟩ := p; exact congrFun (h a (hP rs a rs' hm)) rs'

theorem map_congr_post {m : TM α} {P : α → Prop} (hP : Post m P) {f g : α → β}
    (h : ∀ a, P a → f a = g a) : f <$> m = g <$> m := by
  rw [map_eq_pure_bind, map_eq_pure_bind]
  exact bind_congr_post hP (fun a ha => by rw [h a ha])

/-- the run does not give readings back / consumes at least one -/
def NonInc (m : TM α) : Prop := ∀ rs a rs', m rs = some (a, rs') → rs'.length ≤ rs.length
def Dec (m : TM α) : Prop := ∀ rs a rs', m rs = some (a, rs') → rs'.length < rs.length

theorem Dec.nonInc {m : TM α} (h : Dec m) : NonInc m := fun rs a rs' e => Nat.le_of_lt (h rs a rs' e)
theorem NonInc.pure (a : α) : NonInc (pure a : TM α) := by
  intro rs a' rs' e
  have : (a, rs) = (a', rs') := Option.some.inj e
  cases this; exact Nat.le_refl _
theorem Dec.tick : Dec tick := by
  intro rs a rs' e
  cases rs with
  | nil => cases e
  | cons r rs => cases e; exact Nat.lt_succ_self _
theorem NonInc.bind {m : TM α} {f : α → TM β} (h1 : NonInc m) (h2 : ∀ a, NonInc (f a)) : NonInc (m >>= f) := by
  intro rs b rs' e
  rw [bind_apply] at e
  cases h : m rs with
  | none => rw [h] at e; cases e
  | some p =>
    obtain ⟨a, rs1⟩ := p
    rw [h] at e
    exact Nat.le_trans (h2 a rs1 b rs' e) (h1 rs a rs1 h)
theorem Dec.bind_left {m : TM α} {f : α → TM β} (h1 : Dec m) (h2 : ∀ a, NonInc (f a)) : Dec (m >>= f) := by
  intro rs b rs' e
  rw [bind_apply] at e
  cases h : m rs with
  | none => rw [h] at e; cases e
  | some p =>
    obtain ⟨a, rs1⟩ := p
    rw [h] at e
    exact Nat.lt_of_le_of_lt (h2 a rs1 b rs' e) (h1 rs a rs1 h)
theorem Dec.bind_right {m : TM α} {f : α → TM β} (h1 : NonInc m) (h2 : ∀ a, Dec (f a)) : Dec (m >>= f) := by
  intro rs b rs' e
  rw [bind_apply] at e
  cases h : m rs with
  | none => rw [h] at e; cases e
  | some p =>
    obtain ⟨a, rs1⟩ := p
    rw [h] at e
    exact Nat.lt_of_lt_of_le (h2 a rs1 b rs' e) (h1 rs a rs1 h)

theorem randomLoopCnt_nonInc (j : Rng) (n : Nat) : NonInc (randomLoopCnt j n) := by
  unfold randomLoopCnt
  exact NonInc.bind Dec.tick.nonInc (fun _ => NonInc.pure _)

theorem lfsrTime_nonInc (j : Rng) (t : U64) (b : Bool) : NonInc (lfsrTime j t b) := by
  unfold lfsrTime
  cases b with
  | false =>
    simp only [Bool.false_eq_true, if_false]
    first | exact NonInc.pure _ | exact NonInc.bind (NonInc.pure _) (fun _ => NonInc.pure _)
  | true =>
    simp only [if_true]
    exact NonInc.bind (randomLoopCnt_nonInc j 4) (fun _ => NonInc.pure _)

theorem memaccess_nonInc (j : Rng) (b : Bool) : NonInc (memaccess j b) := by
  unfold memaccess
  cases b with
  | false =>
    simp only [Bool.false_eq_true, if_false]
    first | exact NonInc.pure _ | exact NonInc.bind (NonInc.pure _) (fun _ => NonInc.pure _)
  | true =>
    simp only [if_true]
    exact NonInc.bind (randomLoopCnt_nonInc j 4) (fun _ => NonInc.pure _)

theorem measureJitter_dec (j : Rng) (ec : Ec) : Dec (measureJitter j ec) := by
  unfold measureJitter
  refine Dec.bind_right (memaccess_nonInc j true) (fun j1 => ?_)
  refine Dec.bind_left Dec.tick (fun t => ?_)
  refine NonInc.bind (lfsrTime_nonInc _ _ _) (fun j2 => ?_)
  simp only []
  split <;> exact NonInc.pure _

/-! ### `random_loop_cnt(4) < 16` -/

theorem mask4 : (1#64 <<< 4) - 1 = 15#64 := by decide

theorem fold4_lt (l : List Nat) : ∀ (p : U64 × U64), p.1.toNat < 16 →
    (l.foldl (fun (p : U64 × U64) _ => (p.1 ^^^ (p.2 &&& 15#64), p.2 >>> 4)) p).1.toNat < 16 := by
  induction l with
  | nil => intro p h; exact h
  | cons x xs ih =>
    intro p h
    rw [List.foldl_cons]
    apply ih
    show (p.1 ^^^ (p.2 &&& 15#64)).toNat < 2 ^ 4
    rw [BitVec.toNat_xor, BitVec.toNat_and]
    apply Nat.xor_lt_two_pow h
    exact Nat.and_lt_two_pow _ (by decide)

theorem randomLoopCnt4_post (j : Rng) : Post (randomLoopCnt j 4) (fun r => r.toNat < 16) := by
  unfold randomLoopCnt
  refine Post.bind (Post.trivial _) (fun time _ => ?_)
  simp only [mask4]
  apply Post.pure
  rw [BitVec.toNat_setWidth]
  exact Nat.lt_of_le_of_lt (Nat.mod_le _ _) (fold4_lt _ _ (by show (0#64).toNat < 16; decide))

/-! ### `collect`: the `for _ in 0..rounds { while measure_jitter().is_none() {} }` loops -/

theorem collect_zero (fuel : Nat) (j : Rng) (ec : Ec) : collect fuel 0 j ec = pure (j, ec) := by
  cases fuel <;> rfl

theorem collect_nofuel (need : Nat) (j : Rng) (ec : Ec) : collect 0 (need + 1) j ec = failure := rfl

theorem collect_succ (fuel need : Nat) (j : Rng) (ec : Ec) :
    collect (fuel + 1) (need + 1) j ec =
      (measureJitter j ec >>= fun r => if r.1 then collect fuel need r.2.1 r.2.2 else collect fuel (need + 1) r.2.1 r.2.2) := rfl

/-- enough fuel is enough: every attempt consumes a reading -/
theorem collect_fuel : ∀ (F F' need : Nat) (j : Rng) (ec : Ec) (rs : List U64),
    rs.length < F → rs.length < F' → collect F need j ec rs = collect F' need j ec rs := by
  intro F
  induction F with
  | zero => intro F' need j ec rs h; exact absurd h (Nat.not_lt_zero _)
  | succ F ih =>
    intro F' need j ec rs h h'
    cases F' with
    | zero => exact absurd h' (Nat.not_lt_zero _)
    | succ F' =>
      cases need with
      | zero => rw [collect_zero, collect_zero]
      | succ need =>
        rw [collect_succ, collect_succ, bind_apply, bind_apply]
        cases hm : measureJitter j ec rs with
        | none => rfl
        | some p =>
          obtain ⟨r, rs'⟩ := p
          have hlt : rs'.length < rs.length := measureJitter_dec j ec rs r rs' hm
          simp only []
          split
          · exact ih F' need _ _ rs' (by omega) (by omega)
          · exact ih F' (need + 1) _ _ rs' (by omega) (by omega)

/-- `collect` with the canonical fuel (one more than the readings left) -/
def col (need : Nat) (j : Rng) (ec : Ec) : TM (Rng × Ec) := fun rs => collect (rs.length + 1) need j ec rs

theorem col_eq (F need : Nat) (j : Rng) (ec : Ec) (rs : List U64) (h : rs.length < F) :
    collect F need j ec rs = col need j ec rs := collect_fuel _ _ _ _ _ _ h (Nat.lt_succ_self _)

theorem col_zero (j : Rng) (ec : Ec) : col 0 j ec = pure (j, ec) := by
  funext rs; unfold col; rw [collect_zero]

theorem col_succ (need : Nat) (j : Rng) (ec : Ec) :
    col (need + 1) j ec = (measureJitter j ec >>= fun r => if r.1 then col need r.2.1 r.2.2 else col (need + 1) r.2.1 r.2.2) := by
  funext rs
  show collect (rs.length + 1) (need + 1) j ec rs = _
  rw [collect_succ, bind_apply, bind_apply]
  cases hm : measureJitter j ec rs with
  | none => rfl
  | some p =>
    obtain ⟨r, rs'⟩ := p
    have hlt : rs'.length < rs.length := measureJitter_dec j ec rs r rs' hm
    simp only []
    split
    · exact col_eq _ _ _ _ _ hlt
    · exact col_eq _ _ _ _ _ hlt

/-- the condition of the translated `while`: measure, continue while the measurement was stuck -/
def stepMJ (a : Rng × Ec) : TM (Bool × Rng × Ec) := do
  let r ← measureJitter a.1 a.2
  pure (!r.1, r.2.1, r.2.2)

theorem whileLoop_stepMJ : ∀ (fuel : Nat) (j : Rng) (ec : Ec), whileLoop stepMJ fuel (j, ec) = collect fuel 1 j ec := by
  intro fuel
  induction fuel with
  | zero => intro j ec; rfl
  | succ fuel ih =>
    intro j ec
    rw [collect_succ]
    unfold whileLoop stepMJ
    simp only [bind_assoc, pure_bind]
    congr 1
    funext r
    cases h : r.1 with
    | true => simp only [Bool.not_true, Bool.false_eq_true, if_false, if_true, collect_zero]
    | false => simp only [Bool.not_false, if_true, Bool.false_eq_true, if_false]; exact ih _ _

theorem whileFuel_stepMJ (j : Rng) (ec : Ec) : whileFuel stepMJ (j, ec) = col 1 j ec := by
  funext rs
  unfold whileFuel
  rw [bind_apply, get_apply]
  simp only []
  rw [whileLoop_stepMJ]
  rfl

theorem forRange_col : ∀ (n lo : Nat) (j : Rng) (ec : Ec),
    forRange lo n (fun _ a => whileFuel stepMJ a) (j, ec) = col n j ec := by
  intro n
  induction n with
  | zero => intro lo j ec; rw [col_zero]; rfl
  | succ n ih =>
    intro lo j ec
    funext rs
    -- inner induction on the number of readings left (a stuck measurement retries with fewer)
    induction hk : rs.length using Nat.strongRecOn generalizing lo j ec rs with
    | _ k ihk =>
      unfold forRange
      rw [bind_apply, whileFuel_stepMJ, col_succ, col_succ, bind_apply, bind_apply]
      cases hm : measureJitter j ec rs with
      | none => rfl
      | some p =>
        obtain ⟨r, rs'⟩ := p
        have hlt : rs'.length < rs.length := measureJitter_dec j ec rs r rs' hm
        simp only []
        cases hr : r.1 with
        | true =>
          simp only [if_true, col_zero, pure_apply]
          exact congrFun (ih (lo + 1) r.2.1 r.2.2) rs'
        | false =>
          simp only [Bool.false_eq_true, if_false]
          have := ihk rs'.length (by omega) lo r.2.1 r.2.2 rs' rfl
          unfold forRange at this
          rw [bind_apply, whileFuel_stepMJ] at this
          exact this



theorem col_eq_get (n : Nat) (j : Rng) (ec : Ec) : col n j ec = (do let rs ← get; collect (rs.length + 1) n j ec) := by
  funext rs
  rw [bind_apply, get_apply]
  rfl

theorem isNone_ite (b : Bool) : Option.isNone (if b = true then some () else none) = !b := by cases b <;> rfl

theorem gen_entropy_tie
    (mj : Rng → Ec → TM (Option Unit × Rng × Ec))
    (hmj : ∀ st ec, mj st ec = (do let r ← measureJitter st ec; pure (if r.1 then some () else none, r.2.1, r.2.2)))
    (stirp : Rng → Rng) (hstir : ∀ st, stirp st = { st with data := stir st.data }) (st : Rng) :
    (do
      let t_1 ← tick
      let ec : Ec := { prevTime := t_1, lastDelta := 0#32, lastDelta2 := 0#32 }
      let r_2 ← mj st ec
      let st := r_2.2.1
      let ec := r_2.2.2
      let acc_8 ← forRange 0 st.rounds (fun i_4 acc_3 => do
          let st := acc_3.1
          let ec := acc_3.2
          let acc_7 ← whileFuel (fun acc_5 => do
              let st := acc_5.1
              let ec := acc_5.2
              let r_6 ← mj st ec
              let st := r_6.2.1
              let ec := r_6.2.2
              pure (Option.isNone r_6.1, (st, ec))) (st, ec)
          let st := acc_7.1
          let ec := acc_7.2
          pure (st, ec)) (st, ec)
      let st := acc_8.1
      let ec := acc_8.2
      let r_9 := stirp st
      let st := r_9
      pure (st.data, st)) = genEntropy st := by
  have e1 : mj = fun st ec => (do let r ← measureJitter st ec; pure (if r.1 then some () else none, r.2.1, r.2.2)) :=
    funext fun st => funext fun ec => hmj st ec
  have e2 : stirp = fun st => { st with data := stir st.data } := funext hstir
  subst e1 e2
  have hstep : (fun (acc_5 : Rng × Ec) => (do
      let r_6 ← (do let r ← measureJitter acc_5.1 acc_5.2; pure (if r.1 then some () else none, r.2.1, r.2.2))
      pure (Option.isNone r_6.1, (r_6.2.1, r_6.2.2)) : TM (Bool × Rng × Ec))) = stepMJ := by
    funext a
    unfold stepMJ
    simp only [bind_assoc, pure_bind, isNone_ite]
  have hbody : (fun (i_4 : Nat) (acc_3 : Rng × Ec) => (do
      let acc_7 ← whileFuel stepMJ (acc_3.1, acc_3.2)
      pure (acc_7.1, acc_7.2) : TM (Rng × Ec))) = fun _ a => whileFuel stepMJ a := by
    funext i a
    exact bind_pure (whileFuel stepMJ a)
  simp only [hstep, hbody, forRange_col, col_eq_get]
  unfold genEntropy
  simp only [bind_assoc, pure_bind]
  rfl



theorem abs_sext_sub (d o : BitVec 32) :
    BitVec.abs (d.signExtend 64 - o.signExtend 64) = BitVec.ofNat 64 ((d.toInt - o.toInt).natAbs) := by
  have hd1 := BitVec.le_toInt d
  have hd2 := BitVec.toInt_lt (x := d)
  have ho1 := BitVec.le_toInt o
  have ho2 := BitVec.toInt_lt (x := o)
  have hx : (d.signExtend 64 - o.signExtend 64).toInt = d.toInt - o.toInt := by
    rw [BitVec.toInt_sub, BitVec.toInt_signExtend_of_le (by decide), BitVec.toInt_signExtend_of_le (by decide)]
    simp only [Int.bmod_def]
    omega
  apply BitVec.eq_of_toNat_eq
  rw [BitVec.toNat_abs, BitVec.msb_eq_toInt, BitVec.toNat_ofNat]
  have hc := BitVec.toInt_eq_toNat_cond (d.signExtend 64 - o.signExtend 64)
  rw [hx] at hc
  rw [hx]
  split at hc <;> simp only [decide_eq_true_eq] <;> split <;> omega

theorem srem100 (d : BitVec 32) : (BitVec.srem d 100#32 == 0#32) = (d.toInt % 100 == 0) := by
  have h100 : (100#32 : BitVec 32).toInt = 100 := by decide
  have h0 : (0#32 : BitVec 32).toInt = 0 := by decide
  have h : (BitVec.srem d 100#32 = 0#32) ↔ d.toInt % 100 = 0 := by
    constructor
    · intro e
      have := congrArg BitVec.toInt e
      rw [BitVec.toInt_srem, h100, h0] at this
      exact Int.emod_eq_zero_of_dvd (Int.dvd_of_tmod_eq_zero this)
    · intro e
      apply BitVec.eq_of_toInt_eq
      rw [BitVec.toInt_srem, h100, h0]
      exact Int.tmod_eq_zero_of_dvd (Int.dvd_of_emod_eq_zero e)
  rw [Bool.eq_iff_iff]
  simp only [beq_iff_eq]
  exact h

abbrev PW := Rng × U64 × U32 × U32 × U64 × U64 × Ec

def encP (j : Rng) (ec : Ec) (p : Probe) : PW :=
  (j, BitVec.ofNat 64 p.deltaSum, p.oldDelta, BitVec.ofNat 32 p.timeBackwards, BitVec.ofNat 64 p.countMod,
   BitVec.ofNat 64 p.countStuck, ec)

/-- the accumulating part of one probe iteration -/
def probeAcc (st : Bool) (time time2 : U64) (delta : U32) (p : Probe) : Probe :=
  let p := if st then { p with countStuck := p.countStuck + 1 } else p
  let p := if time2 ≤ time then { p with timeBackwards := p.timeBackwards + 1 } else p
  let p := if delta.toInt % 100 == 0 then { p with countMod := p.countMod + 1 } else p
  { p with deltaSum := p.deltaSum + (delta.toInt - p.oldDelta.toInt).natAbs, oldDelta := delta }

/-- `probeLoop` that also returns the collector state (the translated loop carries it) -/
def probeLoopE : Nat → Nat → Rng → Ec → Probe → TM (Except TimerError (Probe × Ec) × Rng)
  | 0, _, j, ec, p => pure (.ok (p, ec), j)
  | n + 1, i, j, ec, p => do
    let time ← tick
    let j ← memaccess j true
    let j ← lfsrTime j time true
    let time2 ← tick
    if time == 0 || time2 == 0 then pure (.error .NoTimer, j)
    else
      if (time2 - time).setWidth 32 == (0 : U32) then pure (.error .CoarseTimer, j)
      else if i < CLEARCACHE then probeLoopE n (i + 1) j ec p
      else
        probeLoopE n (i + 1) j (stuck ec ((time2 - time).setWidth 32)).2
          (probeAcc (stuck ec ((time2 - time).setWidth 32)).1 time time2 ((time2 - time).setWidth 32) p)

theorem probeLoop_eq_E : ∀ (n i : Nat) (j : Rng) (ec : Ec) (p : Probe),
    probeLoop n i j ec p = (fun r => (r.1.map Prod.fst, r.2)) <$> probeLoopE n i j ec p := by
  intro n
  induction n with
  | zero => intro i j ec p; rfl
  | succ n ih =>
    intro i j ec p
    unfold probeLoop probeLoopE
    simp only [map_bind]
    congr 1; funext time
    congr 1; funext j1
    congr 1; funext j2
    congr 1; funext time2
    split
    · rfl
    · split
      · rfl
      · split
        · exact ih _ _ _ _
        · exact ih _ _ _ _

theorem enc_acc (j : Rng) (ec' : Ec) (st : Bool) (time time2 : U64) (d : U32) (p : Probe) :
    ((j, BitVec.ofNat 64 p.deltaSum + (BitVec.signExtend 64 d - BitVec.signExtend 64 p.oldDelta).abs, d,
      (if decide (time2 ≤ time) = true then BitVec.ofNat 32 p.timeBackwards + 1#32 else BitVec.ofNat 32 p.timeBackwards),
      (if (d.srem 100#32 == 0#32) = true then BitVec.ofNat 64 p.countMod + 1#64 else BitVec.ofNat 64 p.countMod),
      (if st = true then BitVec.ofNat 64 p.countStuck + 1#64 else BitVec.ofNat 64 p.countStuck), ec') : PW) =
    encP j ec' (probeAcc st time time2 d p) := by
  unfold probeAcc encP
  rw [srem100, abs_sext_sub]
  cases st <;> by_cases h1 : time2 ≤ time <;> by_cases h2 : (d.toInt % 100 == 0) = true <;>
    simp [h1, h2, BitVec.ofNat_add]

/-- the body of the probe loop as the translator produces it (callees as parameters) -/
def probeBodyW (memacc : Rng → Bool → TM Rng) (lfsrt : Rng → U64 → Bool → TM Rng) (stuckf : Ec → U32 → Bool × Ec)
    (CLEARCACHE : U64) (i_3 : Nat) (acc_2 : PW) : TM (Except (Except TimerError (BitVec 8) × Rng) PW) := do
      let st := acc_2.1;
      let delta_sum := acc_2.2.1;
      let old_delta := acc_2.2.2.1;
      let time_backwards := acc_2.2.2.2.1;
      let count_mod := acc_2.2.2.2.2.1;
      let count_stuck := acc_2.2.2.2.2.2.1;
      let ec := acc_2.2.2.2.2.2.2;
      let i := BitVec.ofNat 64 i_3;
      let t_4 ← Jitter.tick;
      let time := t_4;
      let r_5 ← memacc st true;
      let st := r_5;
      let r_6 ← lfsrt st time true;
      let st := r_6;
      let t_7 ← Jitter.tick;
      let time2 := t_7;
      if (time == (0#64)) || (time2 == (0#64)) then pure (Except.error (Except.error Jitter.TimerError.NoTimer, st))
      else do
          let delta := (time2 - time).setWidth 32;
          if delta == (0#32) then pure (Except.error (Except.error Jitter.TimerError.CoarseTimer, st))
          else if decide (i < CLEARCACHE) then pure (Except.ok (st, delta_sum, old_delta, time_backwards, count_mod, count_stuck, ec))
            else do
                let r_8 := stuckf ec delta;
                let ec := r_8.2;
                let c_9 := if r_8.1 then (let count_stuck := count_stuck + (1#64); count_stuck) else count_stuck;
                let count_stuck := c_9;
                let c_10 := if decide (time2 <= time) then (let time_backwards := time_backwards + (1#32); time_backwards) else time_backwards;
                let time_backwards := c_10;
                let c_11 := if (BitVec.srem delta (0x64#32)) == (0#32) then (let count_mod := count_mod + (1#64); count_mod) else count_mod;
                let count_mod := c_11;
                let delta_sum := delta_sum + (BitVec.abs ((delta.signExtend 64) - (old_delta.signExtend 64)));
                let old_delta := delta;
                pure (Except.ok (st, delta_sum, old_delta, time_backwards, count_mod, count_stuck, ec))

def decP (r : Except TimerError (Probe × Ec) × Rng) : Except (Except TimerError (BitVec 8) × Rng) PW :=
  match r.1 with
  | .error e => .error (.error e, r.2)
  | .ok pe => .ok (encP r.2 pe.2 pe.1)

theorem lt_clearcache (i : Nat) (h : i < 2 ^ 64) : decide (BitVec.ofNat 64 i < 0x64#64) = decide (i < CLEARCACHE) := by
  simp only [BitVec.lt_def, BitVec.toNat_ofNat, Nat.mod_eq_of_lt h]
  rfl

theorem forRangeE_probe : ∀ (n i : Nat) (j : Rng) (ec : Ec) (p : Probe), i + n ≤ 2 ^ 63 →
    forRangeE i n (probeBodyW memaccess lfsrTime stuck 0x64#64) (encP j ec p) = decP <$> probeLoopE n i j ec p := by
  intro n
  induction n with
  | zero => intro i j ec p _; rfl
  | succ n ih =>
    intro i j ec p hi
    unfold forRangeE probeLoopE
    simp only [probeBodyW, encP, bind_assoc, map_bind, pure_bind]
    congr 1; funext time
    congr 1; funext j1
    congr 1; funext j2
    congr 1; funext time2
    rw [lt_clearcache i (by omega)]
    by_cases h1 : (time == 0#64 || time2 == 0#64) = true
    · have h1' : (time == 0 || time2 == 0) = true := h1
      simp only [h1, h1', if_true, pure_bind, map_pure]
      rfl
    · have h1' : ¬ (time == 0 || time2 == 0) = true := h1
      simp only [h1, h1', if_false]
      by_cases h2 : (BitVec.setWidth 32 (time2 - time) == 0#32) = true
      · have h2' : (BitVec.setWidth 32 (time2 - time) == (0 : U32)) = true := h2
        simp only [h2, h2', if_true, pure_bind, map_pure]
        rfl
      · have h2' : ¬ (BitVec.setWidth 32 (time2 - time) == (0 : U32)) = true := h2
        simp only [h2, h2', if_false]
        by_cases h3 : i < CLEARCACHE
        · simp only [h3, decide_true, if_true, pure_bind]
          exact ih (i + 1) j2 ec p (by omega)
        · simp only [h3, decide_false, Bool.false_eq_true, if_false, pure_bind]
          exact (congrArg (forRangeE (i + 1) n _) (enc_acc j2 _ _ time time2 _ p)).trans (ih (i + 1) j2 _ _ (by omega))


/-! ### bounds on the accumulators, the checks after the loop -/

def PB (k : Nat) (p : Probe) : Prop :=
  p.deltaSum ≤ 2 ^ 32 * k ∧ p.timeBackwards ≤ k ∧ p.countMod ≤ k ∧ p.countStuck ≤ k

theorem natAbs_sub_lt (a b : U32) : (a.toInt - b.toInt).natAbs < 2 ^ 32 := by
  have h1 := BitVec.le_toInt a
  have h2 := BitVec.toInt_lt (x := a)
  have h3 := BitVec.le_toInt b
  have h4 := BitVec.toInt_lt (x := b)
  omega

theorem probeAcc_PB {k : Nat} {p : Probe} (h : PB k p) (st : Bool) (time time2 : U64) (d : U32) :
    PB (k + 1) (probeAcc st time time2 d p) := by
  obtain ⟨h1, h2, h3, h4⟩ := h
  have hn := natAbs_sub_lt d p.oldDelta
  unfold probeAcc PB
  cases st <;> by_cases a : time2 ≤ time <;> by_cases b : (d.toInt % 100 == 0) = true <;>
    simp only [a, b, if_true, if_false, Bool.false_eq_true] <;> (refine ⟨?_, ?_, ?_, ?_⟩ <;> (try simp only []) <;> omega)

theorem probeLoopE_post : ∀ (n i : Nat) (j : Rng) (ec : Ec) (p : Probe) (k : Nat), PB k p →
    Post (probeLoopE n i j ec p) (fun r => ∀ pe, r.1 = .ok pe → PB (k + n) pe.1) := by
  intro n
  induction n with
  | zero =>
    intro i j ec p k h
    apply Post.pure
    intro pe e
    cases e
    exact h
  | succ n ih =>
    intro i j ec p k h
    unfold probeLoopE
    refine Post.bind (Post.trivial _) (fun time _ => ?_)
    refine Post.bind (Post.trivial _) (fun j1 _ => ?_)
    refine Post.bind (Post.trivial _) (fun j2 _ => ?_)
    refine Post.bind (Post.trivial _) (fun time2 _ => ?_)
    split
    · exact Post.pure (fun pe e => by cases e)
    · split
      · exact Post.pure (fun pe e => by cases e)
      · split
        · intro rs a rs' e pe hpe
          have := ih (i + 1) j2 ec p k h rs a rs' e pe hpe
          obtain ⟨a1, a2, a3, a4⟩ := this
          exact ⟨by omega, by omega, by omega, by omega⟩
        · intro rs a rs' e pe hpe
          have := ih (i + 1) j2 _ _ (k + 1) (probeAcc_PB h _ time time2 _) rs a rs' e pe hpe
          rw [show k + 1 + n = k + (n + 1) by omega] at this
          exact this

/-- the checks after the loop, as translated (`TESTLOOPCOUNT` is the local constant of the function) -/
def probeEpiW (TESTLOOPCOUNT : U64) (acc_14 : PW) : TM (Except TimerError (BitVec 8) × Rng) := do
      let st := acc_14.1;
      let delta_sum := acc_14.2.1;
      let old_delta := acc_14.2.2.1;
      let time_backwards := acc_14.2.2.2.1;
      let count_mod := acc_14.2.2.2.2.1;
      let count_stuck := acc_14.2.2.2.2.2.1;
      let ec := acc_14.2.2.2.2.2.2;
      if (3#32).slt time_backwards then pure (Except.error Jitter.TimerError.NotMonotonic, st)
      else if decide (delta_sum < ((2#64) * TESTLOOPCOUNT)) then pure (Except.error Jitter.TimerError.TinyVariations, st)
        else if decide (count_mod > ((TESTLOOPCOUNT * (9#64)) / (0xa#64))) then pure (Except.error Jitter.TimerError.CoarseTimer, st)
          else if decide (count_stuck > ((TESTLOOPCOUNT * (9#64)) / (0xa#64))) then pure (Except.error Jitter.TimerError.TooManyStuck, st)
            else do
                let delta_average := delta_sum / TESTLOOPCOUNT;
                pure (if decide (delta_average >= (0x10#64)) then (let log2 := (0x40#32) - (Jitter.TM.leadingZeros64 delta_average); Except.ok ((((((0x40#32) * (2#32)) + log2) - (1#32)) / log2).setWidth 8)) else (let log2_lookup : List (BitVec 8) := [0#8, 0#8, 0x80#8, 0x51#8, 0x40#8, 0x38#8, 0x32#8, 0x2e#8, 0x2b#8, 0x29#8, 0x27#8, 0x26#8, 0x24#8, 0x23#8, 0x22#8, 0x21#8]; Except.ok (log2_lookup.getD delta_average.toNat 0#8)), st)

theorem rounds_tab : ∀ L : Fin 64,
    (((((0x40#32) * (2#32)) + ((0x40#32) - BitVec.ofNat 32 (63 - L.val)) - (1#32)) / ((0x40#32) - BitVec.ofNat 32 (63 - L.val))).setWidth 8).toNat
      = ((64 * 2 + (L.val + 1) - 1) / (L.val + 1)) % 256 := by decide

theorem lookup_tab : ∀ a : Fin 16,
    (([0#8, 0#8, 0x80#8, 0x51#8, 0x40#8, 0x38#8, 0x32#8, 0x2e#8, 0x2b#8, 0x29#8, 0x27#8, 0x26#8, 0x24#8, 0x23#8, 0x22#8, 0x21#8] : List (BitVec 8)).getD a.val 0#8).toNat
      = LOG2_LOOKUP.getD a.val 0 := by decide

theorem slt3 (tb : Nat) (h : tb ≤ 2 ^ 30) : (3#32).slt (BitVec.ofNat 32 tb) = decide (tb > 3) := by
  have e : (BitVec.ofNat 32 tb).toInt = tb := by
    rw [BitVec.toInt_ofNat']
    simp only [Int.bmod_def]
    omega
  have e3 : (3#32 : BitVec 32).toInt = 3 := by decide
  simp only [BitVec.slt, e, e3]
  by_cases h' : tb > 3 <;> simp [h'] <;> omega

theorem ofNat64_lt (a : Nat) (c : Nat) (h : a < 2 ^ 64) (hc : c < 2 ^ 64) :
    decide (BitVec.ofNat 64 a < BitVec.ofNat 64 c) = decide (a < c) := by
  simp only [BitVec.lt_def, BitVec.toNat_ofNat, Nat.mod_eq_of_lt h, Nat.mod_eq_of_lt hc]

theorem probeEpiW_eq (j : Rng) (ec : Ec) (p : Probe) (h : PB 400 p) :
    (do let r ← probeEpiW 0x12c#64 (encP j ec p); pure (r.1.map BitVec.toNat, r.2)) = pure (verdict p, j) := by
  obtain ⟨h1, h2, h3, h4⟩ := h
  have hds : p.deltaSum < 2 ^ 64 := by omega
  unfold probeEpiW encP verdict
  simp only [slt3 p.timeBackwards (by omega)]
  have c600 : (2#64) * (0x12c#64) = BitVec.ofNat 64 600 := by decide
  have c270 : ((0x12c#64) * (9#64)) / (0xa#64) = BitVec.ofNat 64 270 := by decide
  simp only [c600, c270, gt_iff_lt, ge_iff_le, ofNat64_lt p.deltaSum 600 hds (by decide),
    ofNat64_lt 270 p.countMod (by decide) (by omega), ofNat64_lt 270 p.countStuck (by decide) (by omega)]
  have t1 : 2 * TESTLOOPCOUNT = 600 := rfl
  have t2 : TESTLOOPCOUNT * 9 / 10 = 270 := rfl
  simp only [decide_eq_true_eq, t1, t2]
  by_cases c1 : 3 < p.timeBackwards
  · simp only [c1, if_true, pure_bind]; rfl
  · simp only [c1, if_false]
    by_cases c2 : p.deltaSum < 600
    · simp only [c2, if_true, pure_bind]; rfl
    · simp only [c2, if_false]
      by_cases c3 : 270 < p.countMod
      · simp only [c3, if_true, pure_bind]; rfl
      · simp only [c3, if_false]
        by_cases c4 : 270 < p.countStuck
        · simp only [c4, if_true, pure_bind]; rfl
        · simp only [c4, if_false, pure_bind]
          have havg : BitVec.ofNat 64 p.deltaSum / 300#64 = BitVec.ofNat 64 (p.deltaSum / 300) := by
            apply BitVec.eq_of_toNat_eq
            have hq : p.deltaSum / 300 < 2 ^ 64 := Nat.lt_of_le_of_lt (Nat.div_le_self _ _) hds
            rw [BitVec.toNat_udiv, BitVec.toNat_ofNat, BitVec.toNat_ofNat, BitVec.toNat_ofNat, Nat.mod_eq_of_lt hds,
              Nat.mod_eq_of_lt hq]
          rw [havg]
          unfold roundsOf
          rw [show TESTLOOPCOUNT = 300 from rfl]
          generalize ha : p.deltaSum / 300 = a
          have hq : a < 2 ^ 64 := by rw [← ha]; exact Nat.lt_of_le_of_lt (Nat.div_le_self _ _) hds
          have hle : (16#64 ≤ BitVec.ofNat 64 a) ↔ 16 ≤ a := by
            simp only [BitVec.le_def, BitVec.toNat_ofNat, Nat.mod_eq_of_lt hq]
          congr 1
          simp only [hle]
          by_cases c5 : 16 ≤ a
          · have hL : Nat.log2 a < 64 := (Nat.log2_lt (by omega)).mpr hq
            have hz : leadingZeros64 (BitVec.ofNat 64 a) = BitVec.ofNat 32 (63 - Nat.log2 a) := by
              unfold leadingZeros64
              rw [BitVec.toNat_ofNat, Nat.mod_eq_of_lt hq, if_neg (by omega)]
            simp only [c5, if_true, ge_iff_le, hz, Except.map]
            congr 1
            exact congrArg _ (rounds_tab ⟨Nat.log2 a, hL⟩)
          · have hlt : a < 16 := by omega
            simp only [c5, if_false, ge_iff_le, Except.map, BitVec.toNat_ofNat, Nat.mod_eq_of_lt hq]
            congr 1
            exact congrArg _ (lookup_tab ⟨a, hlt⟩)


theorem test_timer_tie
    (memacc : Rng → Bool → TM Rng) (hmem : ∀ st b, memacc st b = memaccess st b)
    (lfsrt : Rng → U64 → Bool → TM Rng) (hl : ∀ st t b, lfsrt st t b = lfsrTime st t b)
    (stuckf : Ec → U32 → Bool × Ec) (hs : stuckf = stuck) (st : Rng) :
    (do
      let r ← (do
        let delta_sum := 0#64;
        let old_delta := 0#32;
        let time_backwards := 0#32;
        let count_mod := 0#64;
        let count_stuck := 0#64;
        let t_1 ← Jitter.tick;
        let ec : Jitter.Ec := { prevTime := t_1, lastDelta := 0#32, lastDelta2 := 0#32 : Jitter.Ec };
        let TESTLOOPCOUNT := 0x12c#64;
        let CLEARCACHE := 0x64#64;
        let r_12 ← Jitter.TM.forRangeE (ρ := (Except Jitter.TimerError (BitVec 8)) × Jitter.Rng) 0 ((CLEARCACHE + TESTLOOPCOUNT).toNat)
          (probeBodyW memacc lfsrt stuckf CLEARCACHE) (st, delta_sum, old_delta, time_backwards, count_mod, count_stuck, ec);
        match r_12 with
        | Except.error e_13 => pure e_13
        | Except.ok acc_14 => probeEpiW TESTLOOPCOUNT acc_14 : TM (Except TimerError (BitVec 8) × Rng))
      pure (r.1.map BitVec.toNat, r.2)) = testTimer st := by
  have e1 : memacc = memaccess := funext fun st => funext fun b => hmem st b
  have e2 : lfsrt = lfsrTime := funext fun st => funext fun t => funext fun b => hl st t b
  subst e1 e2 hs
  unfold testTimer
  simp only [bind_assoc]
  congr 1; funext t
  have h400 : ((0x64#64 : U64) + 0x12c#64).toNat = 400 := by decide
  rw [h400]
  have henc : ((st, 0#64, 0#32, 0#32, 0#64, 0#64, ({ prevTime := t, lastDelta := 0#32, lastDelta2 := 0#32 } : Ec)) : PW)
      = encP st { prevTime := t, lastDelta := 0, lastDelta2 := 0 } {} := rfl
  rw [henc, forRangeE_probe 400 0 st _ {} (by decide), probeLoop_eq_E]
  simp only [map_eq_pure_bind, bind_assoc, pure_bind]
  refine bind_congr_post (probeLoopE_post 400 0 st _ {} 0 ⟨Nat.le_refl _, Nat.le_refl _, Nat.le_refl _, Nat.le_refl _⟩) (fun r hr => ?_)
  obtain ⟨r1, j'⟩ := r
  cases r1 with
  | error e => rfl
  | ok pe =>
    have hb := hr pe rfl
    simp only [decP]
    exact probeEpiW_eq j' pe.2 pe.1 (by simpa using hb)


/-! ### census of partial operations

  The translation treats plain `+ - * / % << >>`, indexing and `assert!` as total (wrapping / default) operations; whether
  they can fail is the subject of C14 (`Rngs.Checked.Jitter` states each of them with its check, `CheckedLemmasJitter`
  proves that none fails).  The translator lists the partial operations it finds in each translated function, as a sorted
  list of `op:type`; the list must be the one below — the operations `Checked.Jitter` accounts for.  A source change
  that turns `wrapping_sub` into `-`, adds an index or an assertion changes the list and breaks the (C14) theorem. -/

def partialOps : String → List String
  | "random_loop_cnt" => ["+:u32", "-:u32", "-:u64", "/:u32", "<<:u64", ">>:u64"]
  | "memaccess" => ["%:nat", "+:nat", "+:u32", "-:nat"]
  | "test_timer" => ["%:i32", "*:u32", "*:u64", "*:u64", "*:u64", "+:i32", "+:u32", "+:u64", "+:u64", "+:u64", "+:u64", "-:i64", "-:u32", "-:u32", "/:u32", "/:u64", "/:u64", "/:u64", "index"]
  | "set_rounds" => ["assert"]
  | _ => []

/-- the side condition of `random_loop_cnt` (the shift amounts) is satisfiable: the only caller passes 4 -/
example : ∃ n : BitVec 32, n.toNat < 64 := ⟨4#32, by decide⟩

/-! ### smaller facts used by the generated proofs -/

theorem rlc_folds (n : BitVec 32) (h : n.toNat < 64) : ((64#32 + n - 1#32) / n).toNat = (64 + n.toNat - 1) / n.toNat := by
  rw [BitVec.toNat_udiv]
  congr 1
  bv_omega

/-- `memaccess` as translated (the callee `random_loop_cnt` as a parameter) -/
theorem memaccess_tie (rlc : Rng → BitVec 32 → TM (BitVec 32 × Rng))
    (hrlc : ∀ st, rlc st 4#32 = (do let r ← randomLoopCnt st 4; pure (r, st))) (st : Rng) (var_rounds : Bool) :
    (do
      let acc_loop_cnt := 0x80#32;
      let c_2 ← (if var_rounds then do
          let r_1 ← rlc st (4#32);
          let st := r_1.2;
          let acc_loop_cnt := acc_loop_cnt + r_1.1;
          pure (st, acc_loop_cnt)
        else pure (st, acc_loop_cnt));
      let st := c_2.1;
      let acc_loop_cnt := c_2.2;
      let index := st.memPrevIndex;
      let acc_5 := List.foldl (fun acc_3 i_4 => (let index := acc_3; let index := ((index + 32) - 1) % 2048; index)) index (List.range acc_loop_cnt.toNat);
      let index := acc_5;
      let st : Jitter.Rng := { st with memPrevIndex := (BitVec.ofNat 16 index).toNat };
      pure st) = memaccess st var_rounds := by
  unfold memaccess
  cases var_rounds with
  | false =>
    simp only [Bool.false_eq_true, if_false, pure_bind, BitVec.toNat_ofNat]
    rfl
  | true =>
    simp only [if_true, hrlc, bind_assoc, pure_bind]
    refine bind_congr_post (randomLoopCnt4_post st) (fun a ha => ?_)
    have e : (0x80#32 + a).toNat = 128 + a.toNat := by
      rw [BitVec.toNat_add]
      have : (0x80#32 : BitVec 32).toNat = 128 := by decide
      rw [this]
      omega
    simp only [e, BitVec.toNat_ofNat]
    rfl

/-- `fill_bytes_via_next` over the model's `next_u32` / `next_u64` is the model's `fill` -/
theorem fillLoopM_eq : ∀ (k : Nat) (j : Rng), fillLoopM nextU64 k j = fillLoop k j := by
  intro k
  induction k with
  | zero => intro j; rfl
  | succ k ih =>
    intro j
    unfold fillLoopM fillLoop
    simp only [ih]

theorem fill_tie (n32 : Rng → TM (U32 × Rng)) (h32 : ∀ st, n32 st = nextU32 st)
    (n64 : Rng → TM (U64 × Rng)) (h64 : ∀ st, n64 st = nextU64 st) (st : Rng) (n : Nat) :
    fillBytesViaNext n32 n64 n st = fill n st := by
  have e1 : n32 = nextU32 := funext h32
  have e2 : n64 = nextU64 := funext h64
  subst e1 e2
  unfold fillBytesViaNext fill
  rw [fillLoopM_eq]

end TM
end Jitter

/-- `gen_entropy` returns the pool it leaves behind: the value IS `self.data` afterwards (so storing it back is a no-op) -/
theorem Jitter.genEntropy_value_is_data (j : Jitter.Rng) :
    Jitter.genEntropy j = (fun a => (a.2.data, a.2)) <$> Jitter.genEntropy j := by
  unfold Jitter.genEntropy
  simp only [map_bind, map_pure]

theorem Jitter.nextU64_value_is_data (j : Jitter.Rng) :
    Jitter.nextU64 j = (fun a => (a.2.data, a.2)) <$> Jitter.nextU64 j := by
  unfold Jitter.nextU64
  exact Jitter.genEntropy_value_is_data _

end Rngs
