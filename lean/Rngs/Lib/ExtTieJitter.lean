/-
  Rngs.Lib.ExtTieJitter — the timer-monad part of the translator tie (tools/rs2lean_tm.py, rand_jitter).

  Part 1: the combinators the translator emits for loops in `Jitter.TM = StateT (List U64) Option`
          (`forRange`, `forRangeE` = `for` with early exits, `whileFuel` = `while` whose every iteration reads the timer),
          the model of `rand_core::impls::fill_bytes_via_next` in that monad, `u64::leading_zeros`.
  Part 2: lemmas that relate them to the recursion schemes of the hand-written model (`collect`, `probeLoop`, `fillLoop`).
  Part 3: one lemma per translated function: the shape the translator produces (callees as parameters, with the
          hypothesis that they equal the model's functions) equals the model's function.  The generated file
          instantiates them with the definitions it regenerated from the current source; the instantiation is checked by
          definitional unfolding, so any change of the translated definition that is not a mere re-arrangement breaks it.
-/
import Rngs.Lib.ExtTie
namespace Rngs
namespace Jitter
namespace TM

/-! ## Part 1: combinators -/

/-- `for i in lo..lo+n { s = body(i, s) }` -/
def forRange {σ : Type} (lo n : Nat) (body : Nat → σ → TM σ) (s : σ) : TM σ :=
  match n with
  | 0 => pure s
  | n + 1 => do
    let s ← body lo s
    forRange (lo + 1) n body s

/-- `for` with early exits: the body answers `.ok s` (next iteration; also `continue`) or `.error r`
    (`return r` from the enclosing function). -/
def forRangeE {ρ σ : Type} (lo n : Nat) (body : Nat → σ → TM (Except ρ σ)) (s : σ) : TM (Except ρ σ) :=
  match n with
  | 0 => pure (.ok s)
  | n + 1 => do
    match ← body lo s with
    | .error r => pure (.error r)
    | .ok s => forRangeE (lo + 1) n body s

/-- `while` with fuel: `step` evaluates the condition (and, when it holds, the body). -/
def whileLoop {σ : Type} (step : σ → TM (Bool × σ)) : Nat → σ → TM σ
  | 0, _ => failure
  | fuel + 1, s => do
    let r ← step s
    if r.1 then whileLoop step fuel r.2 else pure r.2

/-- a `while` loop every iteration of which reads the timer at least once (checked by the translator): it cannot
    run more often than there are readings left, so `remaining + 1` is enough fuel; running dry is `none` as everywhere. -/
def whileFuel {σ : Type} (step : σ → TM (Bool × σ)) (s : σ) : TM σ := do
  let fuel := (← get).length + 1
  whileLoop step fuel s

/-- `u64::leading_zeros` -/
def leadingZeros64 (x : U64) : U32 :=
  BitVec.ofNat 32 (if x.toNat = 0 then 64 else 63 - Nat.log2 x.toNat)

/-- the `while left.len() >= 8` loop of `rand_core::impls::fill_bytes_via_next` for a generator in the timer monad -/
def fillLoopM {σ : Type} (n64 : σ → TM (U64 × σ)) : Nat → σ → TM (List U8 × σ)
  | 0, s => pure ([], s)
  | k + 1, s => do
    let r ← n64 s
    let q ← fillLoopM n64 k r.2
    pure (U64.toLE r.1 ++ q.1, q.2)

/-- `rand_core::impls::fill_bytes_via_next(rng, dest)` with `dest.len() = n` (cf. `Rngs.fillBytesViaNext`) -/
def fillBytesViaNext {σ : Type} (n32 : σ → TM (U32 × σ)) (n64 : σ → TM (U64 × σ)) (n : Nat) (s : σ) : TM (List U8 × σ) := do
  let p ← fillLoopM n64 (n / 8) s
  let r := n % 8
  if r > 4 then
    let w ← n64 p.2
    pure (p.1 ++ (U64.toLE w.1).take r, w.2)
  else if r > 0 then
    let w ← n32 p.2
    pure (p.1 ++ (U32.toLE w.1).take r, w.2)
  else pure p

end TM
end Jitter
end Rngs
