/-
  Rngs.Lib.ExtTieRc — the translator tie for rand_core 0.9.5 (tools/rs2lean_rc.py) and for the wrapper types built on it.

  Part 1: the two combinators the translator emits for this library code:
            `whileF`  — a `while` loop run for at most `fuel` iterations,
            `splice`  — `buf[off .. off + src.len()].copy_from_slice(src)` on a byte buffer held as a list.
  Part 2: bridge lemmas between the translated loops and the recursion schemes of Model/RandCore.lean.
-/
import Rngs.Model.RandCore
import Rngs.Lib.BlockRefine
import Rngs.Lib.BlockRefineInst
import Rngs.Lib.ExtTieBlock
import Rngs.Model.XorShift
import Rngs.Lib.SeedLemmas
namespace Rngs

/-- `while cond s { s = body s }`, at most `fuel` times.  The correspondence theorems are stated for every `fuel`;
    the model's loops carry the same fuel, and that the fuel the model supplies is enough is proved on the model
    (`BlockRefine.fillLoop_spec`, `StreamRefine.fillLoop_eq`). -/
def whileF {σ : Type} : Nat → (σ → Bool) → (σ → σ) → σ → σ
  | 0, _, _, s => s
  | fuel + 1, cond, body, s => if cond s then whileF fuel cond body (body s) else s

/-- `loop { … break … }` whose body draws from a byte source: the body fails with the source's error or finishes one
    iteration saying whether to go on (`true`) or to leave the loop (`break`: `false`).  At most `fuel` iterations; running
    out of fuel is `diverged`, as in the model (`XorShift.fromRngFuel`). -/
def loopF {ρ β : Type} : Nat → (β → ρ → Except SrcErr (Bool × β) × ρ) → β → ρ → Except SrcErr β × ρ
  | 0, _, _, r => (.error .diverged, r)
  | fuel + 1, body, b, r =>
    match body b r with
    | (.ok (true, b'), r') => loopF fuel body b' r'
    | (.ok (false, b'), r') => (.ok b', r')
    | (.error e, r') => (.error e, r')

/-- `buf[off .. off + src.length].copy_from_slice(src)` -/
def splice (buf : List U8) (off : Nat) (src : List U8) : List U8 :=
  buf.take off ++ src ++ buf.drop (off + src.length)

theorem splice_length (buf : List U8) (off : Nat) (src : List U8) (h : off + src.length ≤ buf.length) :
    (splice buf off src).length = buf.length := by
  simp only [splice, List.length_append, List.length_take, List.length_drop]
  omega

/-- writing right after an already written prefix -/
theorem splice_append (acc rest src : List U8) :
    splice (acc ++ rest) acc.length src = acc ++ src ++ rest.drop src.length := by
  simp only [splice, List.take_left', List.drop_append, List.append_assoc, List.length_append]
  congr 2
  rw [List.drop_eq_nil_of_le (by omega)]
  simp

theorem foldl_wr_range_aux {α : Type} (f : Nat → α) (d : Array α) : ∀ n, n ≤ d.size →
    List.foldl (fun d j => wr d j (f j)) d (List.range n) = ((List.range n).map f ++ d.toList.drop n).toArray := by
  intro n
  induction n with
  | zero => intro _; simp
  | succ n ih =>
    intro h
    rw [List.range_succ, List.foldl_append, ih (by omega)]
    simp only [List.foldl_cons, List.foldl_nil, wr, List.map_append, List.map_cons, List.map_nil]
    apply Array.ext'
    simp only [Array.toList_setIfInBounds, List.set_append, List.length_map, List.length_range, Nat.lt_irrefl, if_false, Nat.sub_self]
    rw [List.drop_eq_getElem_cons (by simp; omega)]
    simp
/-- storing `f j` at every position `j` of an array, in increasing order -/
theorem foldl_wr_range {α : Type} (f : Nat → α) (d : Array α) :
    List.foldl (fun d j => wr d j (f j)) d (List.range d.size) = ((List.range d.size).map f).toArray := by
  rw [foldl_wr_range_aux f d d.size (Nat.le_refl _)]
  simp

/-- the last, partial chunk: the buffer is `pre ++` (the `n % 8` bytes not yet written) -/
theorem splice_tail (pre dest x : List U8) (hp : pre.length = 8 * (dest.length / 8)) (hx : x.length = dest.length % 8) :
    splice (pre ++ dest.drop (8 * (dest.length / 8))) (8 * (dest.length / 8)) x = pre ++ x := by
  rw [← hp, splice_append _ _ _]
  rw [List.drop_eq_nil_of_le (by simp [hp]; omega)]
  simp

section
variable {σ : Type}

/-- the `while left.len() >= 8` loop of `fill_bytes_via_next` on the buffer `acc ++ rest` with `left = rest` -/
theorem whileF_fillLoop (g : Direct σ)
    (cond : Nat × Nat × σ × List U8 → Bool) (body : Nat × Nat × σ × List U8 → Nat × Nat × σ × List U8)
    (hc : ∀ o n r d, cond (o, n, r, d) = decide (n ≥ 8))
    (hb : ∀ o n r d, body (o, n, r, d) = (o + 8, n - 8, (g.nextU64 r).2, splice d o (U64.toLE (g.nextU64 r).1))) :
    ∀ (fuel : Nat) (acc rest : List U8) (r : σ), rest.length / 8 ≤ fuel →
      whileF fuel cond body (acc.length, rest.length, r, acc ++ rest) =
        (acc.length + 8 * (rest.length / 8), rest.length % 8, (fillLoop g.nextU64 (rest.length / 8) r).2,
         acc ++ (fillLoop g.nextU64 (rest.length / 8) r).1 ++ rest.drop (8 * (rest.length / 8))) := by
  intro fuel
  induction fuel with
  | zero =>
    intro acc rest r h
    have h8 : rest.length / 8 = 0 := by omega
    have hlt : rest.length < 8 := by omega
    simp only [whileF, h8, fillLoop, Nat.mul_zero, Nat.add_zero, List.append_nil, List.drop_zero, Nat.mod_eq_of_lt hlt]
  | succ fuel ih =>
    intro acc rest r h
    unfold whileF
    rw [hc]
    by_cases h8 : rest.length ≥ 8
    · simp only [h8, decide_true, if_true]
      rw [hb]
      have hchunk : (U64.toLE (g.nextU64 r).1).length = 8 := rfl
      rw [splice_append acc rest _]
      have e1 : acc.length + 8 = (acc ++ U64.toLE (g.nextU64 r).1).length := by simp [hchunk]
      have e2 : rest.length - 8 = (rest.drop (U64.toLE (g.nextU64 r).1).length).length := by simp [hchunk]
      rw [e1, e2, ih _ _ _ (by simp [hchunk]; omega)]
      have hk : rest.length / 8 = (rest.length - 8) / 8 + 1 := by omega
      simp only [List.length_drop, hchunk, List.length_append, hk, fillLoop, List.drop_drop, List.append_assoc]
      refine Prod.ext ?_ (Prod.ext ?_ (Prod.ext rfl ?_)) <;> simp <;> omega
    · have hlt : rest.length < 8 := by omega
      have h80 : rest.length / 8 = 0 := by omega
      simp only [h8, decide_false, Bool.false_eq_true, if_false, h80, fillLoop, Nat.mul_zero, Nat.add_zero, List.append_nil,
        List.drop_zero, Nat.mod_eq_of_lt hlt]

end

section
variable {w : Nat}
/-- the `zipped.for_each` of `fill_via_chunks`: the first `n` words written chunk by chunk at the start of the buffer -/
theorem foldl_splice_words (size : Nat) (toLE : BitVec w → List U8) (hlen : ∀ x, (toLE x).length = size)
    (src : List (BitVec w)) (dest : List U8) : ∀ n, n ≤ src.length →
    List.foldl (fun d j => splice d (j * size) (toLE (src.getD j 0))) dest (List.range n) =
      (src.take n).flatMap toLE ++ dest.drop (n * size) := by
  intro n
  induction n with
  | zero => intro _; simp
  | succ n ih =>
    intro h
    rw [List.range_succ, List.foldl_append, ih (by omega)]
    have hB : ((src.take n).flatMap toLE).length = n * size := by
      have : ∀ (l : List (BitVec w)), (l.flatMap toLE).length = l.length * size := by
        intro l; induction l with
        | nil => simp
        | cons x xs ih => simp [List.flatMap_cons, hlen, ih, Nat.succ_mul]; omega
      rw [this, List.length_take, Nat.min_eq_left (by omega)]
    simp only [List.foldl_cons, List.foldl_nil]
    rw [← hB, splice_append]
    have hn : n < src.length := by omega
    have hg : src.getD n 0 = src[n] := by simp [List.getD, hn]
    rw [hg, List.take_succ_eq_append_getElem hn, List.flatMap_append, List.drop_drop, hlen, hB]
    simp [Nat.succ_mul, Nat.add_comm]
end

section
variable {w : Nat}
theorem flatMap_length_const (toLE : BitVec w → List U8) (size : Nat) (hlen : ∀ x, (toLE x).length = size) :
    ∀ (l : List (BitVec w)), (l.flatMap toLE).length = l.length * size := by
  intro l; induction l with
  | nil => simp
  | cons x xs ih => simp [List.flatMap_cons, hlen, ih, Nat.succ_mul]; omega

/-- `fill_via_chunks` writes exactly the bytes it reports, and never more than the destination holds -/
theorem fillViaChunks_facts (size : Nat) (toLE : BitVec w → List U8) (hs : 0 < size) (hlen : ∀ x, (toLE x).length = size)
    (src : List (BitVec w)) (m : Nat) :
    (fillViaChunks size toLE src m).2.2.length = (fillViaChunks size toLE src m).2.1 ∧ (fillViaChunks size toLE src m).2.1 ≤ m := by
  unfold fillViaChunks
  simp only []
  have hk : min (m / size) src.length ≤ src.length := Nat.min_le_right _ _
  have hk2 : min (m / size) src.length ≤ m / size := Nat.min_le_left _ _
  generalize hK : min (m / size) src.length = K at hk hk2
  have hB : (List.flatMap toLE (List.take K src)).length = K * size := by
    rw [flatMap_length_const toLE size hlen, List.length_take, Nat.min_eq_left hk]
  have hKm : K * size ≤ m := Nat.le_trans (Nat.mul_le_mul_right _ hk2) (Nat.div_mul_le_self _ _)
  cases hd : List.drop K src with
  | nil => simp only [hB]; exact ⟨by simp, hKm⟩
  | cons x tl =>
    have hlt : K < src.length := by
      have := congrArg List.length hd; simp at this; omega
    have hKe : K = m / size := by omega
    simp only []
    split
    · simp only [List.length_append, hB, List.length_take, hlen]
      have := Nat.mod_lt m hs
      have := Nat.div_add_mod m size
      rw [Nat.min_eq_left (by omega)]
      refine ⟨by simp, ?_⟩
      rw [hKe, Nat.mul_comm]; omega
    · simp only [hB]; exact ⟨by simp, hKm⟩
end

theorem drop_after_write (acc bytes rest : List U8) (k : Nat) (h : acc.length + bytes.length ≤ k) :
    (acc ++ bytes ++ rest.drop bytes.length).drop k = (acc ++ rest).drop k := by
  rw [List.drop_append, List.drop_append, List.drop_append]
  rw [List.drop_eq_nil_of_le (by omega : acc.length ≤ k), List.drop_eq_nil_of_le (by omega : bytes.length ≤ k - acc.length)]
  simp only [List.nil_append, List.length_append, List.drop_drop]
  congr 1
  omega

section
variable {σ : Type}

theorem BlockRng.fillLoop_acc_le (c : BlockCore σ 32) (n : Nat) : ∀ (fuel rl : Nat) (acc : List U8) (r : BlockRng σ),
    acc.length ≤ (BlockRng.fillLoop c n fuel rl acc r).1.length := by
  intro fuel
  induction fuel with
  | zero => intro rl acc r; simp [BlockRng.fillLoop]
  | succ fuel ih =>
    intro rl acc r
    unfold BlockRng.fillLoop
    split
    · simp only []
      refine Nat.le_trans ?_ (ih _ _ _)
      simp
    · exact Nat.le_refl _

/-- the `while read_len < dest.len()` loop of `BlockRng::fill_bytes` on the buffer `acc ++ rest` with `read_len = acc.length` -/
theorem whileF_blockFill32 (c : BlockCore σ 32) (hs : BlockRefine.SizeOK c) (n : Nat)
    (cond : BlockRng σ × List U8 × Nat → Bool) (body : BlockRng σ × List U8 × Nat → BlockRng σ × List U8 × Nat)
    (hc : ∀ st d rl, cond (st, d, rl) = decide (rl < n))
    (hb : ∀ st d rl, body (st, d, rl) =
      (let st' := if st.index ≥ st.results.size then BlockRng.generateAndSet c st 0 else st
       let fv := fillViaChunks 4 U32.toLE (st'.results.toList.drop st'.index) (d.drop rl).length
       ({ st' with index := st'.index + fv.1 }, splice d rl (fv.2.2 ++ (d.drop rl).drop fv.2.1), rl + fv.2.1))) :
    ∀ (fuel : Nat) (acc rest : List U8) (st : BlockRng σ), st.results.size = c.len → (acc ++ rest).length = n →
      whileF fuel cond body (st, acc ++ rest, acc.length) =
        ((BlockRng.fillLoop c n fuel acc.length acc st).2,
         (BlockRng.fillLoop c n fuel acc.length acc st).1 ++ (acc ++ rest).drop (BlockRng.fillLoop c n fuel acc.length acc st).1.length,
         (BlockRng.fillLoop c n fuel acc.length acc st).1.length) := by
  intro fuel
  induction fuel with
  | zero => intro acc rest st _ _; simp [whileF, BlockRng.fillLoop]
  | succ fuel ih =>
    intro acc rest st hsz hn
    unfold whileF BlockRng.fillLoop
    rw [hc]
    by_cases hlt : acc.length < n
    · simp only [hlt, decide_true, if_true]
      rw [hb]
      simp only [hsz, List.drop_left']
      generalize hst' : (if st.index ≥ c.len then BlockRng.generateAndSet c st 0 else st) = st'
      have hsz' : st'.results.size = c.len := by
        rw [← hst']; split
        · exact hs _ _ hsz
        · exact hsz
      have hrl : n - acc.length = rest.length := by simp at hn; omega
      rw [hrl]
      generalize hfv : fillViaChunks 4 U32.toLE (st'.results.toList.drop st'.index) rest.length = fv
      have hf := fillViaChunks_facts 4 U32.toLE (by decide) (fun _ => rfl) (st'.results.toList.drop st'.index) rest.length
      rw [hfv] at hf
      obtain ⟨hf1, hf2⟩ := hf
      have hsp : splice (acc ++ rest) acc.length (fv.2.2 ++ rest.drop fv.2.1) = (acc ++ fv.2.2) ++ rest.drop fv.2.1 := by
        rw [splice_append]
        have : (fv.2.2 ++ List.drop fv.2.1 rest).length = rest.length := by simp [hf1]; omega
        rw [this, List.drop_length]; simp
      rw [hsp]
      have hl : acc.length + fv.2.1 = (acc ++ fv.2.2).length := by simp [hf1]
      rw [hl, ih (acc ++ fv.2.2) (rest.drop fv.2.1) { st' with index := st'.index + fv.1 } hsz' (by simp [hf1] at hn ⊢; omega)]
      have hge := BlockRng.fillLoop_acc_le c n fuel (acc ++ fv.2.2).length (acc ++ fv.2.2) { st' with index := st'.index + fv.1 }
      generalize BlockRng.fillLoop c n fuel (acc ++ fv.2.2).length (acc ++ fv.2.2) { st' with index := st'.index + fv.1 } = p at hge ⊢
      refine Prod.ext rfl (Prod.ext ?_ rfl)
      simp only []
      congr 1
      rw [← hf1]
      exact drop_after_write acc fv.2.2 rest p.1.length (by simpa using hge)
    · simp [hlt]

theorem BlockRng64.fillLoop_acc_le (c : BlockCore σ 64) (n : Nat) : ∀ (fuel rl : Nat) (acc : List U8) (r : BlockRng64 σ),
    acc.length ≤ (BlockRng64.fillLoop c n fuel rl acc r).1.length := by
  intro fuel
  induction fuel with
  | zero => intro rl acc r; simp [BlockRng64.fillLoop]
  | succ fuel ih =>
    intro rl acc r
    unfold BlockRng64.fillLoop
    split
    · simp only []
      refine Nat.le_trans ?_ (ih _ _ _)
      simp
    · exact Nat.le_refl _

/-- the `while read_len < dest.len()` loop of `BlockRng64::fill_bytes` on the buffer `acc ++ rest` with `read_len = acc.length` -/
theorem whileF_blockFill64 (c : BlockCore σ 64) (hs : BlockRefine.SizeOK c) (n : Nat)
    (cond : BlockRng64 σ × List U8 × Nat → Bool) (body : BlockRng64 σ × List U8 × Nat → BlockRng64 σ × List U8 × Nat)
    (hc : ∀ st d rl, cond (st, d, rl) = decide (rl < n))
    (hb : ∀ st d rl, body (st, d, rl) =
      (let st' := if st.index ≥ st.results.size then { st with results := (c.generate st.core st.results).1, core := (c.generate st.core st.results).2, index := 0 } else st
       let fv := fillViaChunks 8 U64.toLE (st'.results.toList.drop st'.index) (d.drop rl).length
       ({ st' with index := st'.index + fv.1 }, splice d rl (fv.2.2 ++ (d.drop rl).drop fv.2.1), rl + fv.2.1))) :
    ∀ (fuel : Nat) (acc rest : List U8) (st : BlockRng64 σ), st.results.size = c.len → (acc ++ rest).length = n →
      whileF fuel cond body (st, acc ++ rest, acc.length) =
        ((BlockRng64.fillLoop c n fuel acc.length acc st).2,
         (BlockRng64.fillLoop c n fuel acc.length acc st).1 ++ (acc ++ rest).drop (BlockRng64.fillLoop c n fuel acc.length acc st).1.length,
         (BlockRng64.fillLoop c n fuel acc.length acc st).1.length) := by
  intro fuel
  induction fuel with
  | zero => intro acc rest st _ _; simp [whileF, BlockRng64.fillLoop]
  | succ fuel ih =>
    intro acc rest st hsz hn
    unfold whileF BlockRng64.fillLoop
    rw [hc]
    by_cases hlt : acc.length < n
    · simp only [hlt, decide_true, if_true]
      rw [hb]
      simp only [hsz, List.drop_left']
      generalize hst' : (if st.index ≥ c.len then { st with results := (c.generate st.core st.results).1, core := (c.generate st.core st.results).2, index := 0 } else st) = st'
      have hsz' : st'.results.size = c.len := by
        rw [← hst']; split
        · exact hs _ _ hsz
        · exact hsz
      have hrl : n - acc.length = rest.length := by simp at hn; omega
      rw [hrl]
      generalize hfv : fillViaChunks 8 U64.toLE (st'.results.toList.drop st'.index) rest.length = fv
      have hf := fillViaChunks_facts 8 U64.toLE (by decide) (fun _ => rfl) (st'.results.toList.drop st'.index) rest.length
      rw [hfv] at hf
      obtain ⟨hf1, hf2⟩ := hf
      have hsp : splice (acc ++ rest) acc.length (fv.2.2 ++ rest.drop fv.2.1) = (acc ++ fv.2.2) ++ rest.drop fv.2.1 := by
        rw [splice_append]
        have : (fv.2.2 ++ List.drop fv.2.1 rest).length = rest.length := by simp [hf1]; omega
        rw [this, List.drop_length]; simp
      rw [hsp]
      have hl : acc.length + fv.2.1 = (acc ++ fv.2.2).length := by simp [hf1]
      rw [hl, ih (acc ++ fv.2.2) (rest.drop fv.2.1) { st' with index := st'.index + fv.1 } hsz' (by simp [hf1] at hn ⊢; omega)]
      have hge := BlockRng64.fillLoop_acc_le c n fuel (acc ++ fv.2.2).length (acc ++ fv.2.2) { st' with index := st'.index + fv.1 }
      generalize BlockRng64.fillLoop c n fuel (acc ++ fv.2.2).length (acc ++ fv.2.2) { st' with index := st'.index + fv.1 } = p at hge ⊢
      refine Prod.ext rfl (Prod.ext ?_ rfl)
      simp only []
      congr 1
      rw [← hf1]
      exact drop_after_write acc fv.2.2 rest p.1.length (by simpa using hge)
    · simp [hlt]

end

theorem splice_at_end (pre r x : List U8) (k : Nat) (hp : pre.length = k) (hx : x.length = r.length) :
    splice (pre ++ r) k x = pre ++ x := by
  rw [← hp, splice_append, hx, List.drop_length]; simp

theorem pcg32_length (s : U64) : (pcg32 s).1.length = 4 := rfl

theorem pcg32Chunks_length : ∀ (k : Nat) (s : U64), (pcg32Chunks k s).1.length = 4 * k := by
  intro k; induction k with
  | zero => intro s; rfl
  | succ k ih => intro s; simp only [pcg32Chunks, List.length_append, ih]; rw [pcg32_length]; omega

/-- `k` consecutive outputs of a byte generator, concatenated (the recursion of `pcg32Chunks`) -/
def chunksOf {τ : Type} (gen : τ → List U8 × τ) : Nat → τ → List U8 × τ
  | 0, s => ([], s)
  | k + 1, s => ((gen s).1 ++ (chunksOf gen k (gen s).2).1, (chunksOf gen k (gen s).2).2)

theorem chunksOf_pcg32 : ∀ (k : Nat) (s : U64), chunksOf pcg32 k s = pcg32Chunks k s := by
  intro k; induction k with
  | zero => intro s; rfl
  | succ k ih => intro s; simp only [chunksOf, pcg32Chunks, ih]

/-- the `for chunk in &mut iter` loop of the default `seed_from_u64`: chunk `j` of the buffer receives the j-th output -/
theorem foldl_chunks {τ : Type} (gen : τ → List U8 × τ) (size : Nat) (hl : ∀ s, (gen s).1.length = size)
    (body : τ × List U8 → Nat → τ × List U8)
    (hb : ∀ s buf j, body (s, buf) j = ((gen s).2, splice buf (j * size) (gen s).1)) :
    ∀ (n off : Nat) (s : τ) (acc rest : List U8), acc.length = off * size →
      List.foldl body (s, acc ++ rest) (List.range' off n) =
        ((chunksOf gen n s).2, acc ++ (chunksOf gen n s).1 ++ rest.drop (n * size)) := by
  intro n
  induction n with
  | zero => intro off s acc rest _; simp [chunksOf]
  | succ n ih =>
    intro off s acc rest h
    rw [List.range'_succ, List.foldl_cons, hb, ← h, splice_append]
    rw [ih (off + 1) _ (acc ++ (gen s).1) _ (by simp [h, Nat.succ_mul, hl])]
    simp only [chunksOf, List.drop_drop, List.append_assoc]
    rw [hl, Nat.succ_mul, Nat.add_comm (n * size) size]

/-! ## constructors that pass a byte source on -/

section
variable {σ τ ρ : Type}

/-- `Self::new(R::from_rng(rng))` after the default `from_rng` of `R` -/
theorem fromRngDefault_map (n : Nat) (f : List U8 → σ) (g : σ → τ) (fill : TryFill ρ) (src : ρ) :
    (match fromRngDefault n f fill src with
      | (.ok v, s) => (.ok (g v), s)
      | (.error e, s) => (.error e, s)) = fromRngDefault n (fun b => g (f b)) fill src := by
  unfold fromRngDefault
  split <;> rename_i h <;> split at h <;> simp_all

/-- a newtype constructor mapped over the result -/
theorem except_pair_eta (x : Except SrcErr σ × ρ) :
    (match x with
      | (.ok v, s) => (.ok v, s)
      | (.error e, s) => (.error e, s)) = x := by
  obtain ⟨r, s⟩ := x
  cases r <;> rfl
end

/-- XorShiftRng::from_rng / try_from_rng: redraw 16 bytes while they are all zero -/
theorem loopF_redraw {ρ : Type} (fill : TryFill ρ) (body : List U8 → ρ → Except SrcErr (Bool × List U8) × ρ)
    (hb : ∀ b r, body b r = (match fill r 16 with
      | (.ok bytes, r') => if !(isAllZero bytes) then (.ok (false, bytes), r') else (.ok (true, bytes), r')
      | (.error e, r') => (.error e, r'))) :
    ∀ (fuel : Nat) (b : List U8) (r : ρ),
      (match loopF fuel body b r with
        | (.ok b, r) => (.ok (S4.decode32 b), r)
        | (.error e, r) => (.error e, r)) = XorShift.fromRngFuel fill fuel r := by
  intro fuel
  induction fuel with
  | zero => intro b r; rfl
  | succ fuel ih =>
    intro b r
    unfold loopF XorShift.fromRngFuel
    rw [hb]
    cases hx : fill r 16 with
    | mk res r' =>
      cases res with
      | error e => rfl
      | ok bytes =>
        by_cases hz : isAllZero bytes = true
        · simp only [hz, Bool.not_true, Bool.false_eq_true, if_false]
          exact ih bytes r'
        · simp only [hz, Bool.not_false, if_true]

theorem XorShift.tryFromRngFuel_eq {ρ : Type} (fill : TryFill ρ) : ∀ (fuel : Nat) (r : ρ),
    XorShift.tryFromRngFuel fill fuel r = XorShift.fromRngFuel fill fuel r := by
  intro fuel
  induction fuel with
  | zero => intro r; rfl
  | succ fuel ih =>
    intro r
    unfold XorShift.tryFromRngFuel XorShift.fromRngFuel
    cases hx : fill r 16 with
    | mk res r' => cases res <;> simp [ih]

end Rngs
