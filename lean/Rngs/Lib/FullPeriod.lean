/-
  Rngs.Lib.FullPeriod — from the certificates of `OrbitCert` to the full-period statement:
  the step is a bijection fixing zero, every non-zero state has minimal period exactly `2^n-1`,
  and the non-zero states form one cycle.  Uses Mathlib for: gcd of periods
  (`Function.IsPeriodicPt.gcd`), primes dividing a list product, and a cardinality argument.
-/
import Rngs.Lib.OrbitCert
import Mathlib.Dynamics.PeriodicPts.Defs
import Mathlib.Data.List.Prime
import Mathlib.Data.Nat.Prime.Basic
import Mathlib.Data.Fintype.Card
import Mathlib.Data.Fintype.EquivFin
import Mathlib.Data.Fintype.Prod

namespace Rngs
open XorSpace

theorem iter_eq_iterate {α : Type} (f : α → α) (k : Nat) (s : α) : iter f k s = f^[k] s := by
  induction k generalizing s with
  | zero => rfl
  | succ k ih => rw [iter_succ', ih, Function.iterate_succ_apply]

theorem iter_fixed_mul {α : Type} {f : α → α} {g : Nat} {s : α} (h : iter f g s = s) (m : Nat) :
    iter f (m * g) s = s := by
  rw [iter_mul]
  induction m with
  | zero => rfl
  | succ m ih => rw [iter_succ, ih, h]

theorem iter_injective {α : Type} {f : α → α} (hf : Function.Injective f) (k : Nat) :
    Function.Injective (iter f k) := by
  induction k with
  | zero => exact fun _ _ h => h
  | succ k ih => exact fun a b h => ih (hf h)

/-- The conclusion of C07 for an engine `T` on an `n`-bit state space. -/
structure FullPeriod {σ : Type} [XorSpace σ] (T : σ → σ) (n : Nat) : Prop where
  bijective : Function.Bijective T
  map_zero : T zero = zero
  period : ∀ s, iter T (2 ^ n - 1) s = s
  minimal : ∀ s, s ≠ zero → ∀ k, 0 < k → k < 2 ^ n - 1 → iter T k s ≠ s
  single_cycle : ∀ s t, s ≠ zero → t ≠ zero → ∃ k, k < 2 ^ n - 1 ∧ iter T k s = t

section
variable {σ : Type} [XorSpace σ] {T : σ → σ} {P n : Nat}

theorem PolyMod.bijective (c : PolyMod T P n) (odd : P % 2 = 1) : Function.Bijective T :=
  ⟨c.injective odd, c.surjective odd⟩

/-- minimal period: number theory on the prime list -/
theorem PolyMod.minimal_period (c : PolyMod T P n)
    (hfull : powx P n n (2 ^ n - 1) 1 = 1)
    (primes : List Nat) (hprod : primes.prod = 2 ^ n - 1) (hprime : ∀ p ∈ primes, p.Prime)
    (hcof : ∀ p ∈ primes, CofCert P n (2 ^ n - 1) p)
    (s : σ) (hs : s ≠ zero) (k : Nat) (hk0 : 0 < k) (hkN : k < 2 ^ n - 1) :
    iter T k s ≠ s := by
  intro hks
  have hNs := c.period_of_powx hfull s
  -- the gcd is a period
  have hg : iter T (Nat.gcd k (2 ^ n - 1)) s = s := by
    have h1 : Function.IsPeriodicPt T k s := by
      rw [Function.IsPeriodicPt, Function.IsFixedPt, ← iter_eq_iterate]; exact hks
    have h2 : Function.IsPeriodicPt T (2 ^ n - 1) s := by
      rw [Function.IsPeriodicPt, Function.IsFixedPt, ← iter_eq_iterate]; exact hNs
    have := h1.gcd h2
    rwa [Function.IsPeriodicPt, Function.IsFixedPt, ← iter_eq_iterate] at this
  generalize hgdef : Nat.gcd k (2 ^ n - 1) = g at hg
  have hgdvd : g ∣ 2 ^ n - 1 := hgdef ▸ Nat.gcd_dvd_right _ _
  have hgk : g ≤ k := hgdef ▸ Nat.le_of_dvd hk0 (Nat.gcd_dvd_left _ _)
  have hgpos : 0 < g := hgdef ▸ Nat.gcd_pos_of_pos_left _ hk0
  obtain ⟨m, hm⟩ := hgdvd
  have hm1 : m ≠ 1 := by
    intro h; rw [h, Nat.mul_one] at hm; omega
  obtain ⟨q, hq, hqm⟩ := Nat.exists_prime_and_dvd hm1
  obtain ⟨m', hm'⟩ := hqm
  have hqN : q ∣ primes.prod := by
    rw [hprod, hm, hm']; exact ⟨g * m', by rw [Nat.mul_left_comm]⟩
  obtain ⟨a, ha, hqa⟩ := (Prime.dvd_prod_iff hq.prime).mp hqN
  have hqa' : q = a := (Nat.prime_dvd_prime_iff_eq hq (hprime a ha)).mp hqa
  subst hqa'
  have hdiv : (2 ^ n - 1) / q = m' * g := by
    rw [hm, hm', Nat.mul_left_comm, Nat.mul_div_cancel_left _ hq.pos, Nat.mul_comm]
  have hlt : (2 ^ n - 1) / q < 2 ^ n :=
    Nat.lt_of_le_of_lt (Nat.div_le_self _ _) (Nat.sub_lt (Nat.two_pow_pos n) (by omega))
  apply hs
  apply c.no_short_period hlt (hcof q ha) s
  rw [hdiv]
  exact iter_fixed_mul hg m'

/-- the orbit of a non-zero state is all non-zero states: counting -/
theorem single_cycle_of_minimal [Fintype σ] [DecidableEq σ]
    (hinj : Function.Injective T) (h0 : T zero = zero)
    (hcard : Fintype.card σ = 2 ^ n)
    (hmin : ∀ s, s ≠ zero → ∀ k, 0 < k → k < 2 ^ n - 1 → iter T k s ≠ s)
    (s t : σ) (hs : s ≠ zero) (ht : t ≠ zero) : ∃ k, k < 2 ^ n - 1 ∧ iter T k s = t := by
  have hz : ∀ k, iter T k zero = (zero : σ) := by
    intro k; induction k with
    | zero => rfl
    | succ k ih => rw [iter_succ, ih, h0]
  have hne : ∀ k, iter T k s ≠ zero := by
    intro k h
    exact hs (iter_injective hinj k (h.trans (hz k).symm))
  let φ : Fin (2 ^ n - 1) → {t : σ // ¬ t = zero} := fun k => ⟨iter T k.1 s, hne k.1⟩
  have key : ∀ i j : Nat, i ≤ j → j < 2 ^ n - 1 → iter T i s = iter T j s → i = j := by
    intro i j hij hj h
    obtain ⟨d, rfl⟩ := Nat.exists_eq_add_of_le hij
    rw [iter_add] at h
    have h2 := iter_injective hinj i h
    by_cases hd : d = 0
    · omega
    · exact absurd h2.symm (hmin s hs d (by omega) (by omega))
  have φinj : Function.Injective φ := by
    intro i j h
    have h' : iter T i.1 s = iter T j.1 s := congrArg Subtype.val h
    apply Fin.ext
    rcases Nat.le_total i.1 j.1 with hij | hij
    · exact key _ _ hij j.2 h'
    · exact (key _ _ hij i.2 h'.symm).symm
  have hc : Fintype.card (Fin (2 ^ n - 1)) = Fintype.card {t : σ // ¬ t = zero} := by
    rw [Fintype.card_fin, Fintype.card_subtype_compl, Fintype.card_subtype_eq, hcard]
  obtain ⟨k, hk⟩ := ((Fintype.bijective_iff_injective_and_card φ).mpr ⟨φinj, hc⟩).2 ⟨t, ht⟩
  exact ⟨k.1, k.2, congrArg Subtype.val hk⟩

/-- Soundness of the whole certificate. -/
theorem PolyMod.fullPeriod [Fintype σ] [DecidableEq σ] (c : PolyMod T P n) (odd : P % 2 = 1)
    (hcard : Fintype.card σ = 2 ^ n)
    (hfull : powx P n n (2 ^ n - 1) 1 = 1)
    (primes : List Nat) (hprod : primes.prod = 2 ^ n - 1) (hprime : ∀ p ∈ primes, p.Prime)
    (hcof : ∀ p ∈ primes, CofCert P n (2 ^ n - 1) p) : FullPeriod T n where
  bijective := c.bijective odd
  map_zero := c.add.map_zero
  period := c.period_of_powx hfull
  minimal := c.minimal_period hfull primes hprod hprime hcof
  single_cycle :=
    single_cycle_of_minimal (c.injective odd) c.add.map_zero hcard
      (c.minimal_period hfull primes hprod hprime hcof)

end

namespace FullPeriod
variable {σ : Type} [XorSpace σ] {T : σ → σ} {n : Nat}

theorem iter_zero_state (h : FullPeriod T n) (k : Nat) : iter T k (zero : σ) = zero := by
  induction k with
  | zero => rfl
  | succ k ih => rw [iter_succ, ih, h.map_zero]

/-- a non-zero state never reaches the all-zero state -/
theorem iter_ne_zero (h : FullPeriod T n) {s : σ} (hs : s ≠ zero) (k : Nat) :
    iter T k s ≠ zero := fun hk =>
  hs (iter_injective h.bijective.1 k (hk.trans (h.iter_zero_state k).symm))

/-- the state sequence of a non-zero state does not repeat before `2^n - 1` steps -/
theorem no_repeat (h : FullPeriod T n) {s : σ} (hs : s ≠ zero) {i j : Nat} (hij : i < j)
    (hj : j < 2 ^ n - 1) : iter T i s ≠ iter T j s := by
  intro he
  obtain ⟨d, rfl⟩ := Nat.exists_eq_add_of_le (Nat.le_of_lt hij)
  rw [iter_add] at he
  exact h.minimal s hs d (by omega) (by omega) (iter_injective h.bijective.1 i he).symm

end FullPeriod

/-! ## the state spaces are finite of the right size -/

/-- `BitVec w ≃ Fin (2^w)` (Mathlib has no `Fintype (BitVec w)` instance) -/
@[reducible] def bitVecFintype (w : Nat) : Fintype (BitVec w) :=
  Fintype.ofEquiv (Fin (2 ^ w)) ⟨BitVec.ofFin, BitVec.toFin, fun _ => rfl, fun _ => rfl⟩

theorem card_bitVec (w : Nat) : @Fintype.card (BitVec w) (bitVecFintype w) = 2 ^ w := by
  rw [bitVecFintype, Fintype.ofEquiv_card, Fintype.card_fin]

attribute [local instance] bitVecFintype

instance (w : Nat) : Fintype (S2 w) :=
  Fintype.ofEquiv (BitVec w × BitVec w)
    ⟨fun p => ⟨p.1, p.2⟩, fun s => (s.s0, s.s1), fun _ => rfl, fun _ => rfl⟩

instance (w : Nat) : Fintype (S4 w) :=
  Fintype.ofEquiv (BitVec w × BitVec w × BitVec w × BitVec w)
    ⟨fun p => ⟨p.1, p.2.1, p.2.2.1, p.2.2.2⟩, fun s => (s.s0, s.s1, s.s2, s.s3),
      fun _ => rfl, fun _ => rfl⟩

instance : Fintype S8 :=
  Fintype.ofEquiv ((U64 × U64 × U64 × U64) × (U64 × U64 × U64 × U64))
    ⟨fun p => ⟨p.1.1, p.1.2.1, p.1.2.2.1, p.1.2.2.2, p.2.1, p.2.2.1, p.2.2.2.1, p.2.2.2.2⟩,
      fun s => ((s.s0, s.s1, s.s2, s.s3), (s.s4, s.s5, s.s6, s.s7)),
      fun _ => rfl, fun _ => rfl⟩

theorem card_S2 (w : Nat) : Fintype.card (S2 w) = 2 ^ (2 * w) := by
  rw [Fintype.ofEquiv_card, Fintype.card_prod, card_bitVec, ← Nat.pow_add]
  congr 1; omega

theorem card_S4 (w : Nat) : Fintype.card (S4 w) = 2 ^ (4 * w) := by
  rw [Fintype.ofEquiv_card, Fintype.card_prod, Fintype.card_prod, Fintype.card_prod, card_bitVec,
    ← Nat.pow_add, ← Nat.pow_add, ← Nat.pow_add]
  congr 1; omega

set_option exponentiation.threshold 600 in
theorem card_S8 : Fintype.card S8 = 2 ^ 512 := by
  rw [Fintype.ofEquiv_card, Fintype.card_prod, Fintype.card_prod, Fintype.card_prod,
    Fintype.card_prod, card_bitVec, ← Nat.pow_add, ← Nat.pow_add, ← Nat.pow_add, ← Nat.pow_add]

end Rngs
