/-
  Rngs.Lib.Hc128Basic — the abstraction relation between the HC-128 model table
  (`Array U32`, 1024 words, P = t[0..512], Q = t[512..1024]) and the two tables of the
  specification (`Rngs.Spec.Wu.State`), the index table of the unrolled 16-step block, and
  the refinement of one `step_p` / `step_q` call to one step of the specification.
-/
import Rngs.Model.Hc128
import Rngs.Spec.Wu
namespace Rngs.Hc128R
open Rngs Rngs.Hc128 Rngs.Spec Rngs.Spec.Wu

/-! ## total array access -/

theorem size_wr (t : Array U32) (i : Nat) (v : U32) : (wr t i v).size = t.size := by
  simp [wr]

theorem rd_wr {t : Array U32} {i : Nat} (h : i < t.size) (v : U32) (j : Nat) :
    rd (wr t i v) j = if j = i then v else rd t j := by
  simp only [rd, wr, getElem!_def, Array.getElem?_setIfInBounds]
  by_cases hji : j = i
  · subst hji; simp [h]
  · have : ¬ i = j := fun e => hji e.symm
    simp [hji, this]

theorem rd_wr_same {t : Array U32} {i : Nat} (h : i < t.size) (v : U32) :
    rd (wr t i v) i = v := by rw [rd_wr h]; simp

theorem rd_wr_ne {t : Array U32} {i j : Nat} (h : j ≠ i) (v : U32) :
    rd (wr t i v) j = rd t j := by
  simp only [rd, wr, getElem!_def, Array.getElem?_setIfInBounds]
  have : ¬ i = j := fun e => h e.symm
  simp [this]

/-! ## the abstraction relation -/

/-- the model table `t` represents the specification tables `s` -/
structure Abs (t : Array U32) (s : Wu.State) : Prop where
  size : t.size = 1024
  p : ∀ j, j < 512 → rd t j = s.P j
  q : ∀ j, j < 512 → rd t (512 + j) = s.Q j

theorem Abs.wrP {t : Array U32} {s : Wu.State} (h : Abs t s) {j : Nat} (hj : j < 512) (v : U32) :
    Abs (wr t j v) { s with P := upd s.P j v } := by
  refine ⟨by rw [size_wr]; exact h.size, ?_, ?_⟩
  · intro n hn
    rw [rd_wr (by rw [h.size]; omega)]
    simp only [upd]
    split
    · rfl
    · exact h.p n hn
  · intro n hn
    rw [rd_wr_ne (by omega)]
    exact h.q n hn

theorem Abs.wrQ {t : Array U32} {s : Wu.State} (h : Abs t s) {j : Nat} (hj : j < 512) (v : U32) :
    Abs (wr t (512 + j) v) { s with Q := upd s.Q j v } := by
  refine ⟨by rw [size_wr]; exact h.size, ?_, ?_⟩
  · intro n hn
    rw [rd_wr_ne (by omega)]
    exact h.p n hn
  · intro n hn
    rw [rd_wr (by rw [h.size]; omega)]
    simp only [upd]
    by_cases e : n = j
    · subst e; simp
    · have : ¬ 512 + n = 512 + j := by omega
      simp only [this, e, if_false]
      exact h.q n hn

theorem upd_upd (T : Tbl) (i : Nat) (a b : U32) : upd (upd T i a) i b = upd T i b := by
  funext j; simp only [upd]; split <;> rfl

theorem upd_same (T : Tbl) (i : Nat) (a : U32) : upd T i a i = a := by simp [upd]

theorem upd_ne (T : Tbl) {i j : Nat} (h : j ≠ i) (a : U32) : upd T i a j = T j := by simp [upd, h]

theorem sub512_lt (a b : Nat) : a ⊟ b < 512 := by
  unfold sub512; omega

/-! ## one step of the specification in either phase -/

/-- the P branch of `Wu.genStep` at table position `j` -/
def specP (s : Wu.State) (j : Nat) : U32 × Wu.State :=
  let P := upd s.P j (s.P j + g1 (s.P (j ⊟ 3)) (s.P (j ⊟ 10)) (s.P (j ⊟ 511)))
  (h1 s.Q (P (j ⊟ 12)) ^^^ P j, { s with P := P })

/-- the Q branch of `Wu.genStep` at table position `j` -/
def specQ (s : Wu.State) (j : Nat) : U32 × Wu.State :=
  let Q := upd s.Q j (s.Q j + g2 (s.Q (j ⊟ 3)) (s.Q (j ⊟ 10)) (s.Q (j ⊟ 511)))
  (h2 s.P (Q (j ⊟ 12)) ^^^ Q j, { s with Q := Q })

theorem genStep_eq (s : Wu.State) (i : Nat) :
    genStep s i = if i % 1024 < 512 then specP s (i % 512) else specQ s (i % 512) := rfl

theorem sub512_12_ne {j : Nat} (hj : j < 512) : j ⊟ 12 ≠ j := by
  unfold sub512; omega

/-- the set-up step is the keystream step with the output written back -/
theorem setupP_eq (s : Wu.State) {j : Nat} (hj : j < 512) :
    setupP s j = { (specP s j).2 with P := upd (specP s j).2.P j (specP s j).1 } := by
  simp only [setupP, specP, upd_upd, upd_same, upd_ne _ (sub512_12_ne hj)]
  rw [BitVec.xor_comm]

theorem setupQ_eq (s : Wu.State) {j : Nat} (hj : j < 512) :
    setupQ s j = { (specQ s j).2 with Q := upd (specQ s j).2.Q j (specQ s j).1 } := by
  simp only [setupQ, specQ, upd_upd, upd_same, upd_ne _ (sub512_12_ne hj)]
  rw [BitVec.xor_comm]

/-! ## `step_p` / `step_q` refine `specP` / `specQ` -/

theorem toNat_lowByte (x : U32) : (x.setWidth 8 : U8).toNat = byte x 0 := by
  simp [byte]

theorem toNat_thirdByte (x : U32) : ((x >>> 16).setWidth 8 : U8).toNat = byte x 2 := by
  simp [byte, Nat.shiftRight_eq_div_pow]

theorem byte_lt (x : U32) (n : Nat) : byte x n < 256 := by
  unfold byte; omega

theorem stepP_refine {t : Array U32} {s : Wu.State} (h : Abs t s) {j : Nat} (hj : j < 512) :
    (stepP t j (j ⊟ 511) (j ⊟ 3) (j ⊟ 10) (j ⊟ 12)).1 = (specP s j).1 ∧
    Abs (stepP t j (j ⊟ 511) (j ⊟ 3) (j ⊟ 10) (j ⊟ 12)).2 (specP s j).2 := by
  have e : rd t j + (rd t (j ⊟ 10)).rotateRight 8 +
        ((rd t (j ⊟ 511)).rotateRight 23 ^^^ (rd t (j ⊟ 3)).rotateRight 10)
      = s.P j + g1 (s.P (j ⊟ 3)) (s.P (j ⊟ 10)) (s.P (j ⊟ 511)) := by
    rw [h.p _ hj, h.p _ (sub512_lt _ _), h.p _ (sub512_lt _ _), h.p _ (sub512_lt _ _), g1,
      BitVec.xor_comm, BitVec.add_assoc, BitVec.add_comm ((s.P (j ⊟ 10)).rotateRight 8)]
  have h' := h.wrP hj (s.P j + g1 (s.P (j ⊟ 3)) (s.P (j ⊟ 10)) (s.P (j ⊟ 511)))
  simp only [stepP, toNat_thirdByte, e]
  simp only [toNat_lowByte, specP]
  refine ⟨?_, h'⟩
  generalize hP : upd s.P j (s.P j + g1 (s.P (j ⊟ 3)) (s.P (j ⊟ 10)) (s.P (j ⊟ 511))) = P' at h' ⊢
  have b0 := byte_lt (P' (j ⊟ 12)) 0
  have b2 := byte_lt (P' (j ⊟ 12)) 2
  have e12 : rd (wr t j (s.P j + g1 (s.P (j ⊟ 3)) (s.P (j ⊟ 10)) (s.P (j ⊟ 511)))) (j ⊟ 12)
      = P' (j ⊟ 12) := h'.p _ (sub512_lt _ _)
  rw [e12, h'.p _ hj, h'.q _ (by omega), Nat.add_assoc 512 256, h'.q _ (by omega)]
  rfl

theorem stepQ_refine {t : Array U32} {s : Wu.State} (h : Abs t s) {j : Nat} (hj : j < 512) :
    (stepQ t j (j ⊟ 511) (j ⊟ 3) (j ⊟ 10) (j ⊟ 12)).1 = (specQ s j).1 ∧
    Abs (stepQ t j (j ⊟ 511) (j ⊟ 3) (j ⊟ 10) (j ⊟ 12)).2 (specQ s j).2 := by
  have e : rd t (512 + j) + (rd t (512 + (j ⊟ 10))).rotateLeft 8 +
        ((rd t (512 + (j ⊟ 511))).rotateLeft 23 ^^^ (rd t (512 + (j ⊟ 3))).rotateLeft 10)
      = s.Q j + g2 (s.Q (j ⊟ 3)) (s.Q (j ⊟ 10)) (s.Q (j ⊟ 511)) := by
    rw [h.q _ hj, h.q _ (sub512_lt _ _), h.q _ (sub512_lt _ _), h.q _ (sub512_lt _ _), g2,
      BitVec.xor_comm, BitVec.add_assoc, BitVec.add_comm ((s.Q (j ⊟ 10)).rotateLeft 8)]
  have h' := h.wrQ hj (s.Q j + g2 (s.Q (j ⊟ 3)) (s.Q (j ⊟ 10)) (s.Q (j ⊟ 511)))
  simp only [stepQ, toNat_thirdByte, e]
  simp only [toNat_lowByte, specQ]
  refine ⟨?_, h'⟩
  generalize hQ : upd s.Q j (s.Q j + g2 (s.Q (j ⊟ 3)) (s.Q (j ⊟ 10)) (s.Q (j ⊟ 511))) = Q' at h' ⊢
  have b0 := byte_lt (Q' (j ⊟ 12)) 0
  have b2 := byte_lt (Q' (j ⊟ 12)) 2
  have e12 : rd (wr t (512 + j) (s.Q j + g2 (s.Q (j ⊟ 3)) (s.Q (j ⊟ 10)) (s.Q (j ⊟ 511))))
      (512 + (j ⊟ 12)) = Q' (j ⊟ 12) := h'.q _ (sub512_lt _ _)
  rw [e12, h'.q _ hj, h'.p _ (by omega), h'.p _ (by omega)]
  rfl

end Rngs.Hc128R
