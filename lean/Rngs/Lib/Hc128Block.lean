/-
  Rngs.Lib.Hc128Block — the buffering layer `BlockRng<Hc128Core>` for `next_u32`, and the
  composition of the pieces of the HC-128 refinement:
    * `generate` updates the core independently of the results buffer it is given;
    * `core_inv`: after `b` blocks the model table represents the specification state
      before step `16 b`, and `counter = 16 b mod 2^64`;
    * `nextU32_nth`: the k-th `next_u32` of a fresh `BlockRng` over a 16-word block core
      is word `k mod 16` of the `(k / 16)`-th generated block.
-/
import Rngs.Lib.Hc128Init
namespace Rngs.Hc128R
open Rngs Rngs.Hc128 Rngs.Spec Rngs.Spec.Wu

/-! ## the core does not depend on the results buffer -/

theorem genF_fold_indep (b : Nat × Nat × Nat) (isP : Bool) :
    ∀ (rows : List Row) (t res res' : Array U32) (k k' : Nat),
      (rows.foldl (genF b isP) (t, res, k)).1 = (rows.foldl (genF b isP) (t, res', k')).1
  | [], _, _, _, _, _ => rfl
  | row :: rows, t, res, res', k, k' => by
    simp only [List.foldl_cons, genF]
    exact genF_fold_indep b isP rows _ _ _ _ _

theorem generate_core_indep (c : Core) (res res' : Array U32) :
    (generate c res).2 = (generate c res').2 := by
  rw [generate_eq, generate_eq]
  dsimp only
  rw [genF_fold_indep _ _ TABLE c.t res res' 0 0]

/-! ## the core after `b` blocks -/

/-- the core after `b` calls of `generate` (by `generate_core_indep` the buffer passed to
    `generate` is immaterial) -/
def coreAfter (core : Core) (b : Nat) : Core :=
  iter (fun c => (generate c (Array.replicate 16 0)).2) b core

theorem replicate16_size : (Array.replicate 16 (0 : U32)).size = 16 := by simp

theorem core_inv (K IV : Vector U32 4) (core : Core) (h0 : Abs core.t (initState K IV))
    (hc : core.counter = 0) :
    ∀ b, Abs (coreAfter core b).t (stateAt K IV (16 * b)) ∧
      (coreAfter core b).counter = (16 * b) % USIZE
  | 0 => ⟨h0, by rw [show coreAfter core 0 = core from rfl, hc]; rfl⟩
  | b + 1 => by
    obtain ⟨i1, i2⟩ := core_inv K IV core h0 hc b
    have hU : USIZE = 18446744073709551616 := by decide
    rw [hU] at i2
    have h := generate_refine K IV (coreAfter core b) (Array.replicate 16 0) (16 * b)
      (by omega) (by omega) i1 replicate16_size
    have e : coreAfter core (b + 1) = (generate (coreAfter core b) (Array.replicate 16 0)).2 := rfl
    rw [e]
    refine ⟨h.1, ?_⟩
    have hcnt : (generate (coreAfter core b) (Array.replicate 16 0)).2.counter =
        ((coreAfter core b).counter + 16) % USIZE := by rw [generate_eq]
    rw [hcnt, hU, i2]
    omega

theorem array_eq_ofFn {a : Array U32} (hs : a.size = 16) (f : Nat → U32)
    (h : ∀ k, k < 16 → rd a k = f k) : a = Array.ofFn (n := 16) (fun k => f k.val) := by
  apply Array.ext
  · simp [hs]
  · intro i h1 h2
    have := h i (by omega)
    simp only [rd, getElem!_pos, h1] at this
    simp [this]

/-- the block form: on the core reached after `b` blocks, `generate` fills any 16-word
    buffer with s_{16b}, …, s_{16b+15}. -/
theorem generate_block (K IV : Vector U32 4) (core : Core) (h0 : Abs core.t (initState K IV))
    (hc : core.counter = 0) (b : Nat) (res : Array U32) (hres : res.size = 16) :
    (generate (coreAfter core b) res).1 =
      Array.ofFn (n := 16) (fun k => keystream K IV (16 * b + k.val)) := by
  obtain ⟨i1, i2⟩ := core_inv K IV core h0 hc b
  have hU : USIZE = 18446744073709551616 := by decide
  rw [hU] at i2
  have h := generate_refine K IV (coreAfter core b) res (16 * b) (by omega) (by omega) i1 hres
  exact array_eq_ofFn h.2.2.2.1 (fun k => keystream K IV (16 * b + k)) h.2.2.2.2

/-! ## `BlockRng::next_u32` -/

/-- the results buffer and the core after `b` refills of a `BlockRng` -/
def blocks {σ : Type} (c : BlockCore σ 32) (core : σ) (res : Array U32) : Nat → Array U32 × σ
  | 0 => (res, core)
  | b + 1 => c.generate (blocks c core res b).2 (blocks c core res b).1

/-- the generator after `k` calls of `next_u32` -/
def rngAt {σ : Type} (c : BlockCore σ 32) (r : BlockRng σ) (k : Nat) : BlockRng σ :=
  iter (fun r => (BlockRng.nextU32 c r).2) k r

theorem nextU32_refill {σ : Type} (c : BlockCore σ 32) (r : BlockRng σ) (h : r.index ≥ c.len) :
    BlockRng.nextU32 c r =
      (rd (c.generate r.core r.results).1 0,
       { results := (c.generate r.core r.results).1, index := 1,
         core := (c.generate r.core r.results).2 }) := by
  unfold BlockRng.nextU32 BlockRng.generateAndSet
  rw [if_pos h]

theorem nextU32_buffered {σ : Type} (c : BlockCore σ 32) (r : BlockRng σ) (h : ¬ r.index ≥ c.len) :
    BlockRng.nextU32 c r = (rd r.results r.index, { r with index := r.index + 1 }) := by
  unfold BlockRng.nextU32
  rw [if_neg h]

theorem rngAt_inv {σ : Type} (c : BlockCore σ 32) (hlen : c.len = 16) (core : σ) :
    ∀ k, (rngAt c (BlockRng.new c core) k).index = (if k % 16 = 0 then 16 else k % 16) ∧
      (rngAt c (BlockRng.new c core) k).results =
        (blocks c core (Array.replicate 16 0) ((k + 15) / 16)).1 ∧
      (rngAt c (BlockRng.new c core) k).core =
        (blocks c core (Array.replicate 16 0) ((k + 15) / 16)).2
  | 0 => by
    refine ⟨?_, ?_, ?_⟩
    · show c.len = _
      rw [hlen]; rfl
    · show Array.replicate c.len 0 = _
      rw [hlen]; rfl
    · rfl
  | k + 1 => by
    obtain ⟨i1, i2, i3⟩ := rngAt_inv c hlen core k
    have e : rngAt c (BlockRng.new c core) (k + 1) =
        (BlockRng.nextU32 c (rngAt c (BlockRng.new c core) k)).2 := rfl
    rw [e]
    generalize rngAt c (BlockRng.new c core) k = r at i1 i2 i3
    by_cases hk : k % 16 = 0
    · rw [if_pos hk] at i1
      have hq : (k + 1 + 15) / 16 = (k + 15) / 16 + 1 := by omega
      have h1 : (k + 1) % 16 ≠ 0 := by omega
      have h2 : (k + 1) % 16 = 1 := by omega
      rw [nextU32_refill c r (by omega), hq, if_neg h1, h2, i2, i3]
      exact ⟨rfl, rfl, rfl⟩
    · rw [if_neg hk] at i1
      have hq : (k + 1 + 15) / 16 = (k + 15) / 16 := by omega
      rw [nextU32_buffered c r (by omega), hq]
      refine ⟨?_, i2, i3⟩
      show r.index + 1 = _
      by_cases h2 : (k + 1) % 16 = 0
      · rw [if_pos h2]; omega
      · rw [if_neg h2]; omega

/-- the k-th `next_u32` of a fresh `BlockRng` over a core with 16-word blocks returns word
    `k mod 16` of the `(k / 16)`-th generated block -/
theorem nextU32_nth {σ : Type} (c : BlockCore σ 32) (hlen : c.len = 16) (core : σ) (k : Nat) :
    (BlockRng.nextU32 c (rngAt c (BlockRng.new c core) k)).1 =
      rd (blocks c core (Array.replicate 16 0) (k / 16 + 1)).1 (k % 16) := by
  obtain ⟨i1, i2, i3⟩ := rngAt_inv c hlen core k
  generalize rngAt c (BlockRng.new c core) k = r at i1 i2 i3
  by_cases hk : k % 16 = 0
  · rw [if_pos hk] at i1
    have hq : (k + 15) / 16 = k / 16 := by omega
    rw [hq] at i2 i3
    rw [nextU32_refill c r (by omega), i2, i3, hk]
    rfl
  · rw [if_neg hk] at i1
    have hq : (k + 15) / 16 = k / 16 + 1 := by omega
    rw [hq] at i2
    rw [nextU32_buffered c r (by omega), i2, i1]

/-! ## composition for `Hc128Rng` -/

theorem blocks_core (core : Core) (res : Array U32) :
    ∀ b, (blocks blockCore core res b).2 = coreAfter core b
  | 0 => rfl
  | b + 1 => by
    have e : (blocks blockCore core res (b + 1)).2 =
        (generate (blocks blockCore core res b).2 (blocks blockCore core res b).1).2 := rfl
    rw [e, blocks_core core res b, generate_core_indep _ _ (Array.replicate 16 0)]
    rfl

theorem blocks_size (K IV : Vector U32 4) (core : Core) (h0 : Abs core.t (initState K IV))
    (hc : core.counter = 0) (res : Array U32) (hres : res.size = 16) :
    ∀ b, (blocks blockCore core res b).1.size = 16
  | 0 => hres
  | b + 1 => by
    have e : (blocks blockCore core res (b + 1)).1 =
        (generate (blocks blockCore core res b).2 (blocks blockCore core res b).1).1 := rfl
    rw [e, blocks_core, generate_block K IV core h0 hc b _ (blocks_size K IV core h0 hc res hres b)]
    simp

/-- the stream form, for a core whose table represents the initial state of the
    specification -/
theorem nextU32_stream (K IV : Vector U32 4) (core : Core) (h0 : Abs core.t (initState K IV))
    (hc : core.counter = 0) (k : Nat) :
    (BlockRng.nextU32 blockCore (rngAt blockCore (BlockRng.new blockCore core) k)).1 =
      keystream K IV k := by
  rw [nextU32_nth blockCore rfl core k]
  have e : (blocks blockCore core (Array.replicate 16 0) (k / 16 + 1)).1 =
      (generate (blocks blockCore core (Array.replicate 16 0) (k / 16)).2
        (blocks blockCore core (Array.replicate 16 0) (k / 16)).1).1 := rfl
  rw [e, blocks_core, generate_block K IV core h0 hc (k / 16) _
    (blocks_size K IV core h0 hc _ replicate16_size _)]
  have hk : k % 16 < 16 := Nat.mod_lt _ (by decide)
  simp only [rd, getElem!_pos, Array.size_ofFn, hk, Array.getElem_ofFn]
  rw [show 16 * (k / 16) + k % 16 = k by omega]

end Rngs.Hc128R
