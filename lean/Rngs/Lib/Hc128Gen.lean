/-
  Rngs.Lib.Hc128Gen — the unrolled 16-step blocks of the model (`generate`,
  `sixteen_steps`) are 16 consecutive steps of the specification.
    * `table_ok`: the literal index expressions of the 16 rows of `TABLE`, with the bases
      `cc`, `dd`, `ee` of `bases`, are `j`, `j ⊟ 511`, `j ⊟ 3`, `j ⊟ 10`, `j ⊟ 12` for
      `j = cc + k` — for every counter that is a multiple of 16 (kernel-evaluated for the
      32 possible values of `cc`);
    * `generate_refine`: one `generate` call = 16 `Wu.genStep`s, outputs in order;
    * `sixteenSteps_refine`: one `sixteen_steps` call = 16 set-up steps.
-/
import Rngs.Lib.Hc128Basic
namespace Rngs.Hc128R
open Rngs Rngs.Hc128 Rngs.Spec Rngs.Spec.Wu

abbrev Row := (Base × Nat) × (Base × Nat) × (Base × Nat) × (Base × Nat) × (Base × Nat)

/-! ## the index table -/

/-- row `row` is the argument list of the step at table position `cc + k` -/
def RowOK (c k : Nat) (row : Row) : Prop :=
  idx (bases c) row.1 = c % 512 + k ∧
  idx (bases c) row.2.1 = (c % 512 + k) ⊟ 511 ∧
  idx (bases c) row.2.2.1 = (c % 512 + k) ⊟ 3 ∧
  idx (bases c) row.2.2.2.1 = (c % 512 + k) ⊟ 10 ∧
  idx (bases c) row.2.2.2.2 = (c % 512 + k) ⊟ 12

instance (c k : Nat) (row : Row) : Decidable (RowOK c k row) := by
  unfold RowOK; infer_instance

/-- the rows of a list are the steps at positions `cc + k`, `cc + k + 1`, … -/
def RowsOK (c : Nat) : Nat → List Row → Prop
  | _, [] => True
  | k, r :: rs => RowOK c k r ∧ RowsOK c (k + 1) rs

instance (c : Nat) : ∀ (k : Nat) (rows : List Row), Decidable (RowsOK c k rows)
  | _, [] => isTrue trivial
  | k, r :: rs =>
    have := instDecidableRowsOK c (k + 1) rs
    inferInstanceAs (Decidable (RowOK c k r ∧ RowsOK c (k + 1) rs))

theorem table_ok_aux : ∀ m, m < 32 → RowsOK (16 * m) 0 TABLE := by decide +kernel

theorem bases_mod (c : Nat) : bases (c % 512) = bases c := by
  simp [bases]

theorem RowsOK_mod (c : Nat) : ∀ (k : Nat) (rows : List Row), RowsOK (c % 512) k rows → RowsOK c k rows
  | _, [] => fun _ => trivial
  | k, r :: rs => fun h => by
    refine ⟨?_, RowsOK_mod c (k + 1) rs h.2⟩
    have h1 := h.1
    simp only [RowOK, bases_mod, Nat.mod_mod] at h1 ⊢
    exact h1

theorem table_ok {c : Nat} (h : c % 16 = 0) : RowsOK c 0 TABLE := by
  apply RowsOK_mod
  have e : c % 512 = 16 * (c % 512 / 16) := by omega
  rw [e]
  exact table_ok_aux _ (by omega)

/-! ## one row -/

/-- the step call of row `row`, in the P or in the Q phase -/
def stepRow (b : Nat × Nat × Nat) (isP : Bool) (t : Array U32) (row : Row) : U32 × Array U32 :=
  if isP then stepP t (idx b row.1) (idx b row.2.1) (idx b row.2.2.1) (idx b row.2.2.2.1) (idx b row.2.2.2.2)
  else stepQ t (idx b row.1) (idx b row.2.1) (idx b row.2.2.1) (idx b row.2.2.2.1) (idx b row.2.2.2.2)

/-- one specification step at table position `j` in the given phase -/
def specRow (isP : Bool) (s : Wu.State) (j : Nat) : U32 × Wu.State :=
  if isP then specP s j else specQ s j

theorem row_refine {c k : Nat} {row : Row} (h : RowOK c k row) (hk : c % 512 + k < 512)
    {t : Array U32} {s : Wu.State} (ha : Abs t s) (isP : Bool) :
    (stepRow (bases c) isP t row).1 = (specRow isP s (c % 512 + k)).1 ∧
    Abs (stepRow (bases c) isP t row).2 (specRow isP s (c % 512 + k)).2 := by
  obtain ⟨h0, h1, h2, h3, h4⟩ := h
  unfold stepRow specRow
  rw [h0, h1, h2, h3, h4]
  cases isP
  · exact stepQ_refine ha hk
  · exact stepP_refine ha hk

/-! ## `generate` -/

/-- the body of the fold in `generate` -/
def genF (b : Nat × Nat × Nat) (isP : Bool) (acc : Array U32 × Array U32 × Nat) (row : Row) :
    Array U32 × Array U32 × Nat :=
  ((stepRow b isP acc.1 row).2, wr acc.2.1 acc.2.2 (stepRow b isP acc.1 row).1, acc.2.2 + 1)

theorem generate_eq (c : Core) (res : Array U32) :
    generate c res =
      ((TABLE.foldl (genF (bases c.counter) ((c.counter &&& 512) == 0)) (c.t, res, 0)).2.1,
       { t := (TABLE.foldl (genF (bases c.counter) ((c.counter &&& 512) == 0)) (c.t, res, 0)).1,
         counter := (c.counter + 16) % USIZE }) := by
  unfold generate
  generalize TABLE = rows
  rfl

theorem and512_val (c : Nat) : c &&& 512 = 512 * (c / 512 % 2) := by
  have h1 : (c &&& 512) % 2^9 = 0 := by
    rw [Nat.and_mod_two_pow]; simp
  have h2 : (c &&& 512) / 2^9 = c / 512 % 2 := by
    rw [Nat.and_div_two_pow]; simp [Nat.and_one_is_mod]
  omega

theorem and512 (c : Nat) : ((c &&& 512) == 0) = decide (c % 1024 < 512) := by
  rw [and512_val]
  by_cases h : c % 1024 < 512
  · have : 512 * (c / 512 % 2) = 0 := by omega
    simp [h, this]
  · have : 512 * (c / 512 % 2) = 512 := by omega
    simp [h, this]

theorem genStep_at {n c k : Nat} (hc16 : c % 16 = 0) (hcn : c % 1024 = n % 1024) (hk : k < 16)
    (s : Wu.State) :
    genStep s (n + k) = specRow (decide (n % 1024 < 512)) s (c % 512 + k) := by
  rw [genStep_eq, specRow]
  have e : (n + k) % 512 = c % 512 + k := by omega
  rw [e]
  by_cases h : n % 1024 < 512
  · have : (n + k) % 1024 < 512 := by omega
    simp [h, this]
  · have : ¬ (n + k) % 1024 < 512 := by omega
    simp [h, this]

theorem gen_fold (K IV : Vector U32 4) {c n : Nat} (hc16 : c % 16 = 0)
    (hcn : c % 1024 = n % 1024) :
    ∀ (rows : List Row) (k0 : Nat) (t res : Array U32), RowsOK c k0 rows →
      k0 + rows.length ≤ 16 → Abs t (stateAt K IV (n + k0)) → res.size = 16 →
      Abs (rows.foldl (genF (bases c) (decide (n % 1024 < 512))) (t, res, k0)).1
          (stateAt K IV (n + k0 + rows.length)) ∧
      (rows.foldl (genF (bases c) (decide (n % 1024 < 512))) (t, res, k0)).2.1.size = 16 ∧
      ∀ j, j < 16 →
        rd (rows.foldl (genF (bases c) (decide (n % 1024 < 512))) (t, res, k0)).2.1 j =
          if k0 ≤ j ∧ j < k0 + rows.length then keystream K IV (n + j) else rd res j
  | [], k0, t, res => by
    intro _ _ ha hres
    refine ⟨ha, hres, ?_⟩
    intro j _
    have : ¬ (k0 ≤ j ∧ j < k0 + ([] : List Row).length) := by
      simp only [List.length_nil]; omega
    simp only [this, if_false, List.foldl_nil]
  | row :: rows, k0, t, res => by
    intro hok hlen ha hres
    simp only [List.length_cons] at hlen
    have hk0 : k0 < 16 := by omega
    obtain ⟨ho, ha'⟩ := row_refine hok.1 (by omega) ha (decide (n % 1024 < 512))
    rw [← genStep_at hc16 hcn hk0] at ho ha'
    have ha'' : Abs (stepRow (bases c) (decide (n % 1024 < 512)) t row).2
        (stateAt K IV (n + (k0 + 1))) := ha'
    have hres' : (wr res k0 (stepRow (bases c) (decide (n % 1024 < 512)) t row).1).size = 16 := by
      rw [size_wr]; exact hres
    obtain ⟨i1, i2, i3⟩ := gen_fold K IV hc16 hcn rows (k0 + 1) _ _ hok.2 (by omega) ha'' hres'
    simp only [List.foldl_cons, genF, List.length_cons]
    refine ⟨?_, i2, ?_⟩
    · have e : n + k0 + (rows.length + 1) = n + (k0 + 1) + rows.length := by omega
      rw [e]; exact i1
    · intro j hj
      rw [i3 j hj, rd_wr (by omega)]
      by_cases hjk : j = k0
      · subst hjk
        have h1 : ¬ (j + 1 ≤ j ∧ j < j + 1 + rows.length) := by omega
        have h2 : j ≤ j ∧ j < j + (rows.length + 1) := by omega
        simp only [h1, h2, if_true, if_false, and_self]
        rw [ho]; rfl
      · by_cases hin : k0 + 1 ≤ j ∧ j < k0 + 1 + rows.length
        · have h2 : k0 ≤ j ∧ j < k0 + (rows.length + 1) := by omega
          simp only [hin, h2, if_true, and_self]
        · have h2 : ¬ (k0 ≤ j ∧ j < k0 + (rows.length + 1)) := by omega
          simp only [hin, h2, hjk, if_false]

/-- One `generate` call on a table representing the specification state before step `n`
    (`n ≡ counter (mod 1024)`, both multiples of 16): the 16 results are
    s_n, …, s_{n+15}, and the new table represents the state before step `n + 16`. -/
theorem generate_refine (K IV : Vector U32 4) (c : Core) (res : Array U32) (n : Nat)
    (hc16 : c.counter % 16 = 0) (hcn : c.counter % 1024 = n % 1024)
    (ha : Abs c.t (stateAt K IV n)) (hres : res.size = 16) :
    Abs (generate c res).2.t (stateAt K IV (n + 16)) ∧
    (generate c res).2.counter % 16 = 0 ∧
    (generate c res).2.counter % 1024 = (n + 16) % 1024 ∧
    (generate c res).1.size = 16 ∧
    ∀ k, k < 16 → rd (generate c res).1 k = keystream K IV (n + k) := by
  rw [generate_eq]
  have hisP : ((c.counter &&& 512) == 0) = decide (n % 1024 < 512) := by
    rw [and512, hcn]
  rw [hisP]
  have hlen : TABLE.length = 16 := rfl
  obtain ⟨i1, i2, i3⟩ := gen_fold K IV hc16 hcn TABLE 0 c.t res (table_ok hc16)
    (by rw [hlen]; omega) ha hres
  rw [hlen] at i1 i3
  rw [show n + 0 + 16 = n + 16 by omega] at i1
  dsimp only
  refine ⟨i1, ?_, ?_, i2, ?_⟩
  · simp only [USIZE]; omega
  · simp only [USIZE]; omega
  · intro k hk
    rw [i3 k hk]
    have : 0 ≤ k ∧ k < 0 + 16 := by omega
    simp only [this, if_true, and_self]

/-! ## `sixteen_steps` -/

/-- the states of the specification during step 3 of the initialisation: after `n` of the
    1024 set-up steps -/
def setupAt (K IV : Vector U32 4) (n : Nat) : Wu.State :=
  if n ≤ 512 then (List.range n).foldl setupP (expand K IV)
  else (List.range (n - 512)).foldl setupQ ((List.range 512).foldl setupP (expand K IV))

theorem setupAt_zero (K IV : Vector U32 4) : setupAt K IV 0 = expand K IV := rfl

theorem setupAt_1024 (K IV : Vector U32 4) : setupAt K IV 1024 = initState K IV := rfl

theorem foldl_range_succ {α : Type} (f : α → Nat → α) (a : α) (n : Nat) :
    (List.range (n + 1)).foldl f a = f ((List.range n).foldl f a) n := by
  rw [List.range_succ, List.foldl_append]; rfl

theorem setupAt_succ (K IV : Vector U32 4) (n : Nat) :
    setupAt K IV (n + 1) =
      if n < 512 then setupP (setupAt K IV n) n else setupQ (setupAt K IV n) (n - 512) := by
  unfold setupAt
  generalize expand K IV = s0
  generalize hS : (List.range 512).foldl setupP s0 = S
  by_cases h : n < 512
  · have h1 : n + 1 ≤ 512 := by omega
    have h2 : n ≤ 512 := by omega
    rw [if_pos h, if_pos h1, if_pos h2, foldl_range_succ]
  · have h1 : ¬ n + 1 ≤ 512 := by omega
    have e : n + 1 - 512 = (n - 512) + 1 := by omega
    rw [if_neg h, if_neg h1, e, foldl_range_succ]
    by_cases h512 : n = 512
    · subst h512
      rw [if_pos (Nat.le_refl _), Nat.sub_self, List.range_zero, List.foldl_nil, hS]
    · rw [if_neg (by omega)]

/-- the body of the fold in `sixteen_steps` -/
def setF (b : Nat × Nat × Nat) (isP : Bool) (acc : Array U32 × Nat) (row : Row) :
    Array U32 × Nat :=
  (wr (stepRow b isP acc.1 row).2 (if isP then b.1 + acc.2 else b.1 + 512 + acc.2)
      (stepRow b isP acc.1 row).1, acc.2 + 1)

theorem sixteenSteps_eq (c : Core) :
    sixteenSteps c =
      { t := (TABLE.foldl (setF (bases c.counter) (decide (c.counter < 512))) (c.t, 0)).1,
        counter := c.counter + 16 } := by
  unfold sixteenSteps
  generalize TABLE = rows
  cases hb : decide (c.counter < 512) <;> rfl

theorem setupAt_step (K IV : Vector U32 4) {c k : Nat} (hc16 : c % 16 = 0) (hc : c < 1024)
    (hk : k < 16) :
    setupAt K IV (c + k + 1) =
      if c < 512 then setupP (setupAt K IV (c + k)) (c % 512 + k)
      else setupQ (setupAt K IV (c + k)) (c % 512 + k) := by
  rw [setupAt_succ]
  by_cases h : c < 512
  · have h1 : c + k < 512 := by omega
    have e : c % 512 + k = c + k := by omega
    simp only [h, h1, if_true, e]
  · have h1 : ¬ c + k < 512 := by omega
    have e : c % 512 + k = c + k - 512 := by omega
    simp only [h, h1, if_false, e]

theorem set_fold (K IV : Vector U32 4) {c : Nat} (hc16 : c % 16 = 0) (hc : c < 1024) :
    ∀ (rows : List Row) (k0 : Nat) (t : Array U32), RowsOK c k0 rows →
      k0 + rows.length ≤ 16 → Abs t (setupAt K IV (c + k0)) →
      Abs (rows.foldl (setF (bases c) (decide (c < 512))) (t, k0)).1
          (setupAt K IV (c + k0 + rows.length))
  | [], k0, t => by
    intro _ _ ha
    exact ha
  | row :: rows, k0, t => by
    intro hok hlen ha
    simp only [List.length_cons] at hlen
    have hk0 : k0 < 16 := by omega
    have hj : c % 512 + k0 < 512 := by omega
    obtain ⟨ho, ha'⟩ := row_refine hok.1 hj ha (decide (c < 512))
    have hb1 : (bases c).1 = c % 512 := rfl
    have hstep : Abs (setF (bases c) (decide (c < 512)) (t, k0) row).1
        (setupAt K IV (c + (k0 + 1))) := by
      have e : c + (k0 + 1) = c + k0 + 1 := by omega
      rw [e, setupAt_step K IV hc16 hc hk0]
      simp only [setF, hb1]
      by_cases h : c < 512
      · simp only [h, decide_true, if_true, specRow] at ho ha' ⊢
        rw [setupP_eq _ hj, ho]
        exact ha'.wrP hj _
      · simp only [h, decide_false, if_false, specRow, Bool.false_eq_true] at ho ha' ⊢
        rw [setupQ_eq _ hj, ho]
        have e2 : c % 512 + 512 + k0 = 512 + (c % 512 + k0) := by omega
        rw [e2]
        exact ha'.wrQ hj _
    have hsnd : (setF (bases c) (decide (c < 512)) (t, k0) row) =
        ((setF (bases c) (decide (c < 512)) (t, k0) row).1, k0 + 1) := rfl
    have ih := set_fold K IV hc16 hc rows (k0 + 1) _ hok.2 (by omega) hstep
    simp only [List.foldl_cons, List.length_cons]
    rw [hsnd]
    have e : c + k0 + (rows.length + 1) = c + (k0 + 1) + rows.length := by omega
    rw [e]; exact ih

/-- One `sixteen_steps` call during set-up (counter `c < 1024`, a multiple of 16) = the
    set-up steps `c`, …, `c + 15` of the specification. -/
theorem sixteenSteps_refine (K IV : Vector U32 4) (c : Core) (hc16 : c.counter % 16 = 0)
    (hc : c.counter < 1024) (ha : Abs c.t (setupAt K IV c.counter)) :
    Abs (sixteenSteps c).t (setupAt K IV (c.counter + 16)) ∧
    (sixteenSteps c).counter = c.counter + 16 := by
  rw [sixteenSteps_eq]
  refine ⟨?_, rfl⟩
  have hlen : TABLE.length = 16 := rfl
  have := set_fold K IV hc16 hc TABLE 0 c.t (table_ok hc16) (by rw [hlen]; omega) ha
  rw [hlen] at this
  exact this

end Rngs.Hc128R
