/-
  Rngs.Lib.Hc128Init — `Hc128Core::init` computes the initial state of the specification.
    * the sixteen seed words written to t[0..16] are W_0 … W_15;
    * first in-place expansion loop: invariant `t[j] = W_j` for `j < i`;
    * the 16-word copy: `t[j] = W_{256+j}` for `j < 16`;
    * second expansion loop: invariant `t[j] = W_{256+j}` for `j < i`, so that finally
      P[j] = t[j] = W_{j+256} and Q[j] = t[512+j] = W_{j+768};
    * the 64 `sixteen_steps` calls are the 1024 set-up steps.
-/
import Rngs.Lib.Hc128Gen
namespace Rngs.Hc128R
open Rngs Rngs.Hc128 Rngs.Spec Rngs.Spec.Wu

/-! ## the stages of `init` -/

def stage1 (seed : List U32) : Array U32 :=
  ((seed.take 4 ++ seed.take 4 ++ seed.drop 4 ++ seed.drop 4).foldl
    (fun (p : Array U32 × Nat) x => (wr p.1 p.2 x, p.2 + 1)) (Array.replicate 1024 0, 0)).1

def stage2 (t : Array U32) : Array U32 :=
  (List.range 256).foldl (fun t j => expandAt t (16 + j) (BitVec.ofNat 32 (16 + j))) t

def stage3 (t : Array U32) : Array U32 :=
  (List.range 16).foldl (fun t j => wr t j (rd t (256 + j))) t

def stage4 (t : Array U32) : Array U32 :=
  (List.range 1008).foldl (fun t j => expandAt t (16 + j) (BitVec.ofNat 32 (256 + (16 + j)))) t

def stage5 (t : Array U32) : Core :=
  (List.range 64).foldl (fun c _ => sixteenSteps c) { t := t, counter := 0 }

theorem init_eq (seed : List U32) :
    init seed = { stage5 (stage4 (stage3 (stage2 (stage1 seed)))) with counter := 0 } := rfl

theorem init_t (seed : List U32) :
    (init seed).t = (stage5 (stage4 (stage3 (stage2 (stage1 seed))))).t := by
  rw [init_eq]

theorem init_counter (seed : List U32) : (init seed).counter = 0 := by
  rw [init_eq]

/-! ## stage 1: the seed words -/

theorem foldl_wr : ∀ (l : List U32) (t : Array U32) (p : Nat), p + l.length ≤ t.size →
    (l.foldl (fun (p : Array U32 × Nat) x => (wr p.1 p.2 x, p.2 + 1)) (t, p)).1.size = t.size ∧
    ∀ j, rd (l.foldl (fun (p : Array U32 × Nat) x => (wr p.1 p.2 x, p.2 + 1)) (t, p)).1 j =
      if p ≤ j ∧ j < p + l.length then l[j - p]! else rd t j
  | [], t, p => by
    intro _
    refine ⟨rfl, fun j => ?_⟩
    have : ¬ (p ≤ j ∧ j < p + ([] : List U32).length) := by
      simp only [List.length_nil]; omega
    simp only [List.foldl_nil, this, if_false]
  | x :: l, t, p => by
    intro h
    simp only [List.length_cons] at h
    obtain ⟨i1, i2⟩ := foldl_wr l (wr t p x) (p + 1) (by rw [size_wr]; omega)
    simp only [List.foldl_cons, List.length_cons]
    refine ⟨by rw [i1, size_wr], fun j => ?_⟩
    rw [i2 j, rd_wr (by omega)]
    by_cases hjp : j = p
    · subst hjp
      have h1 : ¬ (j + 1 ≤ j ∧ j < j + 1 + l.length) := by omega
      have h2 : j ≤ j ∧ j < j + (l.length + 1) := by omega
      simp [h1, h2]
    · by_cases hin : p + 1 ≤ j ∧ j < p + 1 + l.length
      · have h2 : p ≤ j ∧ j < p + (l.length + 1) := by omega
        have e : j - p = (j - (p + 1)) + 1 := by omega
        simp only [hin, h2, and_self, if_true, e, List.getElem!_cons_succ]
      · have h2 : ¬ (p ≤ j ∧ j < p + (l.length + 1)) := by omega
        simp only [hin, h2, hjp, if_false]

theorem W_first16 (k0 k1 k2 k3 v0 v1 v2 v3 : U32) :
    (List.range 16).map (W #v[k0, k1, k2, k3] #v[v0, v1, v2, v3]) =
      [k0, k1, k2, k3, k0, k1, k2, k3, v0, v1, v2, v3, v0, v1, v2, v3] := by
  simp [List.range, List.range.loop, W_key, W_iv]

theorem stage1_spec (k0 k1 k2 k3 v0 v1 v2 v3 : U32) :
    (stage1 [k0, k1, k2, k3, v0, v1, v2, v3]).size = 1024 ∧
    ∀ j, j < 16 → rd (stage1 [k0, k1, k2, k3, v0, v1, v2, v3]) j =
      W #v[k0, k1, k2, k3] #v[v0, v1, v2, v3] j := by
  have hl : ([k0, k1, k2, k3, v0, v1, v2, v3].take 4 ++ [k0, k1, k2, k3, v0, v1, v2, v3].take 4 ++
      [k0, k1, k2, k3, v0, v1, v2, v3].drop 4 ++ [k0, k1, k2, k3, v0, v1, v2, v3].drop 4) =
      [k0, k1, k2, k3, k0, k1, k2, k3, v0, v1, v2, v3, v0, v1, v2, v3] := rfl
  unfold stage1
  rw [hl, ← W_first16]
  generalize hl' : (List.range 16).map (W #v[k0, k1, k2, k3] #v[v0, v1, v2, v3]) = l
  have hlen : l.length = 16 := by rw [← hl']; simp
  obtain ⟨a1, a2⟩ := foldl_wr l (Array.replicate 1024 0) 0 (by rw [hlen]; simp)
  refine ⟨by rw [a1]; simp, fun j hj => ?_⟩
  rw [a2 j, if_pos (by rw [hlen]; omega), ← hl', Nat.sub_zero]
  simp [hj]

/-! ## the expansion loops -/

theorem expand_loop (K IV : Vector U32 4) (off : Nat) (g : Nat → U32)
    (hg : ∀ j, g j = BitVec.ofNat 32 (off + (16 + j))) (t0 : Array U32) (hsize : t0.size = 1024)
    (h0 : ∀ j, j < 16 → rd t0 j = W K IV (off + j)) :
    ∀ n, 16 + n ≤ 1024 →
      ((List.range n).foldl (fun t j => expandAt t (16 + j) (g j)) t0).size = 1024 ∧
      ∀ j, j < 16 + n →
        rd ((List.range n).foldl (fun t j => expandAt t (16 + j) (g j)) t0) j = W K IV (off + j)
  | 0 => by
    intro _
    exact ⟨hsize, h0⟩
  | n + 1 => by
    intro hn
    obtain ⟨i1, i2⟩ := expand_loop K IV off g hg t0 hsize h0 n (by omega)
    rw [foldl_range_succ]
    generalize (List.range n).foldl (fun t j => expandAt t (16 + j) (g j)) t0 = t at i1 i2
    unfold expandAt
    refine ⟨by rw [size_wr]; exact i1, fun j hj => ?_⟩
    rw [rd_wr (by omega)]
    by_cases hjn : j = 16 + n
    · subst hjn
      rw [if_pos rfl, i2 _ (by omega), i2 _ (by omega), i2 _ (by omega), i2 _ (by omega), hg,
        W_rec K IV (i := off + (16 + n)) (by omega)]
      have e2 : off + (16 + n - 2) = off + (16 + n) - 2 := by omega
      have e7 : off + (16 + n - 7) = off + (16 + n) - 7 := by omega
      have e15 : off + (16 + n - 15) = off + (16 + n) - 15 := by omega
      have e16 : off + (16 + n - 16) = off + (16 + n) - 16 := by omega
      rw [e2, e7, e15, e16]
      rfl
    · rw [if_neg hjn]
      exact i2 j (by omega)

theorem stage2_spec (K IV : Vector U32 4) (t0 : Array U32) (hsize : t0.size = 1024)
    (h0 : ∀ j, j < 16 → rd t0 j = W K IV j) :
    (stage2 t0).size = 1024 ∧ ∀ j, j < 272 → rd (stage2 t0) j = W K IV j := by
  have := expand_loop K IV 0 (fun j => BitVec.ofNat 32 (16 + j)) (by intro j; rw [Nat.zero_add]) t0
    hsize (by intro j hj; rw [Nat.zero_add]; exact h0 j hj) 256 (by omega)
  refine ⟨this.1, fun j hj => ?_⟩
  have h := this.2 j (by omega)
  rw [Nat.zero_add] at h
  exact h

theorem copy_loop (K IV : Vector U32 4) (t0 : Array U32) (hsize : t0.size = 1024)
    (h0 : ∀ j, j < 272 → rd t0 j = W K IV j) :
    ∀ n, n ≤ 16 →
      ((List.range n).foldl (fun t j => wr t j (rd t (256 + j))) t0).size = 1024 ∧
      (∀ j, j < n →
        rd ((List.range n).foldl (fun t j => wr t j (rd t (256 + j))) t0) j = W K IV (256 + j)) ∧
      (∀ j, 16 ≤ j → j < 272 →
        rd ((List.range n).foldl (fun t j => wr t j (rd t (256 + j))) t0) j = W K IV j)
  | 0 => by
    intro _
    exact ⟨hsize, fun j hj => absurd hj (by omega), fun j _ hj => h0 j hj⟩
  | n + 1 => by
    intro hn
    obtain ⟨i1, i2, i3⟩ := copy_loop K IV t0 hsize h0 n (by omega)
    rw [foldl_range_succ]
    generalize (List.range n).foldl (fun t j => wr t j (rd t (256 + j))) t0 = t at i1 i2 i3
    refine ⟨by rw [size_wr]; exact i1, fun j hj => ?_, fun j hj1 hj2 => ?_⟩
    · rw [rd_wr (by omega)]
      by_cases hjn : j = n
      · subst hjn
        rw [if_pos rfl]
        exact i3 _ (by omega) (by omega)
      · rw [if_neg hjn]
        exact i2 j (by omega)
    · rw [rd_wr_ne (by omega)]
      exact i3 j hj1 hj2

theorem stage3_spec (K IV : Vector U32 4) (t0 : Array U32) (hsize : t0.size = 1024)
    (h0 : ∀ j, j < 272 → rd t0 j = W K IV j) :
    (stage3 t0).size = 1024 ∧ ∀ j, j < 16 → rd (stage3 t0) j = W K IV (256 + j) := by
  have := copy_loop K IV t0 hsize h0 16 (by omega)
  exact ⟨this.1, this.2.1⟩

theorem stage4_spec (K IV : Vector U32 4) (t0 : Array U32) (hsize : t0.size = 1024)
    (h0 : ∀ j, j < 16 → rd t0 j = W K IV (256 + j)) :
    (stage4 t0).size = 1024 ∧ ∀ j, j < 1024 → rd (stage4 t0) j = W K IV (256 + j) :=
  expand_loop K IV 256 (fun j => BitVec.ofNat 32 (256 + (16 + j))) (fun _ => rfl) t0 hsize h0
    1008 (by omega)

theorem abs_expand (K IV : Vector U32 4) (t : Array U32) (hsize : t.size = 1024)
    (h : ∀ j, j < 1024 → rd t j = W K IV (256 + j)) : Abs t (expand K IV) := by
  refine ⟨hsize, fun j hj => ?_, fun j hj => ?_⟩
  · show rd t j = (Wtab K IV 1280)[j + 256]!
    rw [Wtab_getElem K IV (by omega), h j (by omega), Nat.add_comm]
  · show rd t (512 + j) = (Wtab K IV 1280)[j + 768]!
    rw [Wtab_getElem K IV (by omega), h _ (by omega)]
    congr 1; omega

/-! ## stage 5: the 1024 set-up steps -/

theorem setup_loop (K IV : Vector U32 4) (t0 : Array U32) (h0 : Abs t0 (expand K IV)) :
    ∀ m, m ≤ 64 →
      Abs ((List.range m).foldl (fun c _ => sixteenSteps c) { t := t0, counter := 0 }).t
        (setupAt K IV (16 * m)) ∧
      ((List.range m).foldl (fun c _ => sixteenSteps c) { t := t0, counter := 0 }).counter = 16 * m
  | 0 => by
    intro _
    exact ⟨h0, rfl⟩
  | m + 1 => by
    intro hm
    obtain ⟨i1, i2⟩ := setup_loop K IV t0 h0 m (by omega)
    rw [foldl_range_succ]
    generalize (List.range m).foldl (fun c _ => sixteenSteps c) { t := t0, counter := 0 } = c
      at i1 i2
    rw [← i2] at i1
    obtain ⟨j1, j2⟩ := sixteenSteps_refine K IV c (by omega) (by omega) i1
    rw [show 16 * (m + 1) = c.counter + 16 by omega]
    exact ⟨j1, j2⟩

theorem stage5_spec (K IV : Vector U32 4) (t0 : Array U32) (h0 : Abs t0 (expand K IV)) :
    Abs (stage5 t0).t (initState K IV) := by
  have f := (setup_loop K IV t0 h0 64 (by omega)).1
  rw [show 16 * 64 = 1024 by rfl, setupAt_1024] at f
  unfold stage5
  exact f

/-- `init` on the eight seed words yields a table representing the initial state of the
    specification for key (k0,…,k3) and IV (i0,…,i3), with counter 0. -/
theorem init_refine (k0 k1 k2 k3 i0 i1 i2 i3 : U32) :
    Abs (init [k0, k1, k2, k3, i0, i1, i2, i3]).t
      (initState #v[k0, k1, k2, k3] #v[i0, i1, i2, i3]) ∧
    (init [k0, k1, k2, k3, i0, i1, i2, i3]).counter = 0 := by
  rw [init_t]
  refine ⟨?_, init_counter _⟩
  obtain ⟨a1, a2⟩ := stage1_spec k0 k1 k2 k3 i0 i1 i2 i3
  obtain ⟨b1, b2⟩ := stage2_spec _ _ _ a1 a2
  obtain ⟨c1, c2⟩ := stage3_spec _ _ _ b1 b2
  obtain ⟨d1, d2⟩ := stage4_spec _ _ _ c1 c2
  have e := abs_expand _ _ _ d1 d2
  exact stage5_spec _ _ _ e

theorem readU32s_8 (seed : List U8) :
    readU32s seed 8 = [le32At seed 0, le32At seed 1, le32At seed 2, le32At seed 3,
      le32At seed 4, le32At seed 5, le32At seed 6, le32At seed 7] := rfl

/-- `Hc128Core::from_seed`: key = the first four little-endian words of the seed, IV = the
    next four -/
theorem fromSeedCore_refine (seed : List U8) :
    Abs (fromSeedCore seed).t
      (initState #v[le32At seed 0, le32At seed 1, le32At seed 2, le32At seed 3]
        #v[le32At seed 4, le32At seed 5, le32At seed 6, le32At seed 7]) ∧
    (fromSeedCore seed).counter = 0 := by
  unfold fromSeedCore
  rw [readU32s_8]
  exact init_refine _ _ _ _ _ _ _ _

end Rngs.Hc128R
