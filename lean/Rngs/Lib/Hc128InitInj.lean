/-
  Rngs.Lib.Hc128InitInj — the key and IV set-up of HC-128 (§2.2 of the paper, `Spec/Wu.lean`) is
  injective: two (key, IV) pairs whose initial tables `P`, `Q` agree are equal.

  * `setupP_agree`, `setupQ_agree`: one set-up step rewrites the single entry `i` of one table
    to `(T[i] + g(T[i⊟3], T[i⊟10], T[i⊟511])) ⊕ h(T[i⊟12])`; none of the entries read by `g` and `h`
    is entry `i` (`h` reads the other table), so `T[i]` before the step is determined by the two
    tables after it — the 1024 set-up steps can be run backwards;
  * `expand_agree`: the tables after the expansion are `W_256 … W_1279`;
  * `W_back`: `W_{i-16} = W_i − (f2(W_{i-2}) + W_{i-7} + f1(W_{i-15}) + i)`, so 16 consecutive
    words determine all earlier ones, down to `W_0 … W_15 = K, K, IV, IV`.

  Together with `Hc128R.init_refine` (the model's `init` computes exactly this) the model's `init`
  is injective on 8-word seeds (`init_injective`), hence `from_seed` on 32-byte seeds.
-/
import Rngs.Lib.Hc128Init
import Rngs.Lib.IsaacInj
namespace Rngs.Hc128InitInj
open Rngs Rngs.Hc128 Rngs.Hc128R Rngs.Spec Rngs.Spec.Wu

/-- two specification states agree on the 512 entries of both tables -/
def Agree (s₁ s₂ : Wu.State) : Prop :=
  (∀ j, j < 512 → s₁.P j = s₂.P j) ∧ (∀ j, j < 512 → s₁.Q j = s₂.Q j)

theorem Agree.refl (s : Wu.State) : Agree s s := ⟨fun _ _ => rfl, fun _ _ => rfl⟩

/-- the table lookups of `h1` / `h2` stay inside the table -/
theorem h_congr {T₁ T₂ : Tbl} (h : ∀ j, j < 512 → T₁ j = T₂ j) (x : U32) :
    T₁ (byte x 0) + T₁ (256 + byte x 2) = T₂ (byte x 0) + T₂ (256 + byte x 2) := by
  have b0 := byte_lt x 0
  have b2 := byte_lt x 2
  rw [h _ (by omega), h _ (by omega)]

/-! ## one set-up step, backwards -/

theorem setupP_agree {s₁ s₂ : Wu.State} {i : Nat} (hi : i < 512)
    (h : Agree (setupP s₁ i) (setupP s₂ i)) : Agree s₁ s₂ := by
  obtain ⟨hP, hQ⟩ := h
  have hQ' : ∀ j, j < 512 → s₁.Q j = s₂.Q j := hQ
  have hne : ∀ j, j < 512 → j ≠ i → s₁.P j = s₂.P j := by
    intro j hj hji
    have := hP j hj
    simpa only [setupP, upd_ne _ hji] using this
  have n3 : i ⊟ 3 ≠ i := by unfold sub512; omega
  have n10 : i ⊟ 10 ≠ i := by unfold sub512; omega
  have n511 : i ⊟ 511 ≠ i := by unfold sub512; omega
  have n12 : i ⊟ 12 ≠ i := by unfold sub512; omega
  have hv := hP i hi
  simp only [setupP, upd_same] at hv
  rw [hne _ (sub512_lt _ _) n3, hne _ (sub512_lt _ _) n10, hne _ (sub512_lt _ _) n511,
    hne _ (sub512_lt _ _) n12] at hv
  unfold h1 at hv
  rw [h_congr hQ'] at hv
  have hi' : s₁.P i = s₂.P i :=
    (BitVec.add_left_inj _).mp ((BitVec.xor_left_inj _).mp hv)
  refine ⟨fun j hj => ?_, hQ'⟩
  by_cases hji : j = i
  · subst hji; exact hi'
  · exact hne j hj hji

theorem setupQ_agree {s₁ s₂ : Wu.State} {i : Nat} (hi : i < 512)
    (h : Agree (setupQ s₁ i) (setupQ s₂ i)) : Agree s₁ s₂ := by
  obtain ⟨hP, hQ⟩ := h
  have hP' : ∀ j, j < 512 → s₁.P j = s₂.P j := hP
  have hne : ∀ j, j < 512 → j ≠ i → s₁.Q j = s₂.Q j := by
    intro j hj hji
    have := hQ j hj
    simpa only [setupQ, upd_ne _ hji] using this
  have n3 : i ⊟ 3 ≠ i := by unfold sub512; omega
  have n10 : i ⊟ 10 ≠ i := by unfold sub512; omega
  have n511 : i ⊟ 511 ≠ i := by unfold sub512; omega
  have n12 : i ⊟ 12 ≠ i := by unfold sub512; omega
  have hv := hQ i hi
  simp only [setupQ, upd_same] at hv
  rw [hne _ (sub512_lt _ _) n3, hne _ (sub512_lt _ _) n10, hne _ (sub512_lt _ _) n511,
    hne _ (sub512_lt _ _) n12] at hv
  unfold h2 at hv
  rw [h_congr hP'] at hv
  have hi' : s₁.Q i = s₂.Q i :=
    (BitVec.add_left_inj _).mp ((BitVec.xor_left_inj _).mp hv)
  refine ⟨hP', fun j hj => ?_⟩
  by_cases hji : j = i
  · subst hji; exact hi'
  · exact hne j hj hji

/-! ## the two set-up loops, backwards -/

theorem setupP_loop_agree {s₁ s₂ : Wu.State} :
    ∀ n, n ≤ 512 → Agree ((List.range n).foldl setupP s₁) ((List.range n).foldl setupP s₂) →
      Agree s₁ s₂
  | 0, _, h => h
  | n + 1, hn, h => by
    rw [foldl_range_succ, foldl_range_succ] at h
    exact setupP_loop_agree n (by omega) (setupP_agree (by omega) h)

theorem setupQ_loop_agree {s₁ s₂ : Wu.State} :
    ∀ n, n ≤ 512 → Agree ((List.range n).foldl setupQ s₁) ((List.range n).foldl setupQ s₂) →
      Agree s₁ s₂
  | 0, _, h => h
  | n + 1, hn, h => by
    rw [foldl_range_succ, foldl_range_succ] at h
    exact setupQ_loop_agree n (by omega) (setupQ_agree (by omega) h)

/-- step 3 of the initialisation is injective: from the tables after the 1024 set-up steps to
    the tables after the expansion -/
theorem initState_agree {K IV K' IV' : Vector U32 4}
    (h : Agree (initState K IV) (initState K' IV')) : Agree (expand K IV) (expand K' IV') := by
  unfold initState at h
  exact setupP_loop_agree 512 (Nat.le_refl _) (setupQ_loop_agree 512 (Nat.le_refl _) h)

/-! ## the expansion, backwards -/

theorem expand_agree {K IV K' IV' : Vector U32 4} (h : Agree (expand K IV) (expand K' IV')) :
    ∀ j, 256 ≤ j → j < 1280 → W K IV j = W K' IV' j := by
  intro j h1 h2
  obtain ⟨hP, hQ⟩ := h
  by_cases hj : j < 768
  · have := hP (j - 256) (by omega)
    simp only [expand] at this
    rw [Wtab_getElem K IV (by omega), Wtab_getElem K' IV' (by omega)] at this
    rwa [show j - 256 + 256 = j by omega] at this
  · have := hQ (j - 768) (by omega)
    simp only [expand] at this
    rw [Wtab_getElem K IV (by omega), Wtab_getElem K' IV' (by omega)] at this
    rwa [show j - 768 + 768 = j by omega] at this

/-- 16 consecutive expansion words determine all earlier ones -/
theorem W_back {K IV K' IV' : Vector U32 4} :
    ∀ n, (∀ j, n ≤ j → j < n + 16 → W K IV j = W K' IV' j) →
      ∀ j, j < n + 16 → W K IV j = W K' IV' j
  | 0, h => fun j hj => h j (Nat.zero_le _) hj
  | n + 1, h => by
    have hn : W K IV n = W K' IV' n := by
      have e := h (n + 16) (by omega) (by omega)
      rw [W_rec K IV (i := n + 16) (by omega), W_rec K' IV' (i := n + 16) (by omega)] at e
      rw [show n + 16 - 2 = n + 14 by omega, show n + 16 - 7 = n + 9 by omega,
        show n + 16 - 15 = n + 1 by omega, show n + 16 - 16 = n by omega] at e
      rw [h (n + 14) (by omega) (by omega), h (n + 9) (by omega) (by omega),
        h (n + 1) (by omega) (by omega)] at e
      exact (BitVec.add_right_inj _).mp ((BitVec.add_left_inj _).mp e)
    intro j hj
    by_cases hjl : j = n + 16
    · subst hjl; exact h _ (by omega) (by omega)
    · refine W_back n (fun j h1 h2 => ?_) j (by omega)
      by_cases hjn : j = n
      · subst hjn; exact hn
      · exact h j (by omega) (by omega)

/-- **The key and IV set-up of HC-128 is injective** (specification level). -/
theorem initState_injective {K IV K' IV' : Vector U32 4}
    (h : Agree (initState K IV) (initState K' IV')) : K = K' ∧ IV = IV' := by
  have hW := W_back 256 (fun j h1 h2 => expand_agree (initState_agree h) j h1 (by omega))
  have k : ∀ i (hi : i < 4), K[i] = K'[i] := by
    intro i hi
    have := hW i (by omega)
    rw [W_key K IV (by omega), W_key K' IV' (by omega)] at this
    simpa only [Nat.mod_eq_of_lt hi] using this
  have v : ∀ i (hi : i < 4), IV[i] = IV'[i] := by
    intro i hi
    have := hW (8 + i) (by omega)
    rw [W_iv K IV (by omega) (by omega), W_iv K' IV' (by omega) (by omega)] at this
    simpa only [Nat.add_sub_cancel_left, Nat.mod_eq_of_lt hi] using this
  exact ⟨Vector.ext k, Vector.ext v⟩

/-! ## the model -/

/-- a table represents at most one pair of specification tables (on the 512 entries) -/
theorem Abs.agree {t : Array U32} {s₁ s₂ : Wu.State} (h₁ : Abs t s₁) (h₂ : Abs t s₂) :
    Agree s₁ s₂ :=
  ⟨fun j hj => (h₁.p j hj).symm.trans (h₂.p j hj), fun j hj => (h₁.q j hj).symm.trans (h₂.q j hj)⟩

theorem list8 (a : List U32) (h : a.length = 8) :
    ∃ a0 a1 a2 a3 a4 a5 a6 a7, a = [a0, a1, a2, a3, a4, a5, a6, a7] := by
  rcases a with _ | ⟨a0, _ | ⟨a1, _ | ⟨a2, _ | ⟨a3, _ | ⟨a4, _ | ⟨a5, _ | ⟨a6, _ | ⟨a7, _ | ⟨a8, t⟩⟩⟩⟩⟩⟩⟩⟩⟩
  all_goals simp at h
  exact ⟨_, _, _, _, _, _, _, _, rfl⟩

/-- `Hc128Core::init` is injective already on the table it builds -/
theorem init_t_injective (a b : List U32) (ha : a.length = 8) (hb : b.length = 8)
    (h : (init a).t = (init b).t) : a = b := by
  obtain ⟨a0, a1, a2, a3, a4, a5, a6, a7, rfl⟩ := list8 a ha
  obtain ⟨b0, b1, b2, b3, b4, b5, b6, b7, rfl⟩ := list8 b hb
  have A := (init_refine a0 a1 a2 a3 a4 a5 a6 a7).1
  have B := (init_refine b0 b1 b2 b3 b4 b5 b6 b7).1
  rw [h] at A
  obtain ⟨hK, hIV⟩ := initState_injective (Abs.agree A B)
  have k0 := congrArg (fun v : Vector U32 4 => v[0]) hK
  have k1 := congrArg (fun v : Vector U32 4 => v[1]) hK
  have k2 := congrArg (fun v : Vector U32 4 => v[2]) hK
  have k3 := congrArg (fun v : Vector U32 4 => v[3]) hK
  have v0 := congrArg (fun v : Vector U32 4 => v[0]) hIV
  have v1 := congrArg (fun v : Vector U32 4 => v[1]) hIV
  have v2 := congrArg (fun v : Vector U32 4 => v[2]) hIV
  have v3 := congrArg (fun v : Vector U32 4 => v[3]) hIV
  simp at k0 k1 k2 k3 v0 v1 v2 v3
  subst k0 k1 k2 k3 v0 v1 v2 v3
  rfl

end Rngs.Hc128InitInj
