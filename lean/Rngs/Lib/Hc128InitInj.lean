/-
  Rngs.Lib.Hc128InitInj — the key and IV set-up of HC-128 (§2.2 of the paper, `Spec/Wu.lean`) is
  injective: two (key, IV) pairs whose initial tables `P`, `Q` agree are equal.

  * `setupP_agree`, `setupQ_agree`: one set-up step rewrites the single entry `i` of one table
    to `(T[i] + g(T[i⊟3], T[i⊟10], T[i⊟511])) ⊕ h(T[i⊟12])`; none of the entries read by `g` and `h`
    is entry `i` (`h` reads the other table), so `T[i]` before the step is determined by the two
    tables after it — the 1024 set-up steps can be run backwards;
  * `expand_agree`: the tables after the expansion are `W_256 … W_1279`;
  * `W_back`: `W_{i-16} = W_i − (f2(W_{i-2}) + W_{i-7} + f1(W_{i-15}) + i)`, so 16 consecutive
    words determine all earlier ones, down to `W_0 … W_15 = K, K, IV, IV`.

  Together with `Hc128R.init_refine` (the model's `init` computes exactly this) the model's `init`
  is injective on 8-word seeds (`init_t_injective`), hence `from_seed` on 32-byte seeds.

  Independently of the specification, the last section proves directly on the model that
  `sixteen_steps` — hence the 64 calls of it in `init` — is injective on every 1024-word table
  (`sixteenSteps_inj`, `stage5_inj`): a row of the unrolled block is the point update
  `t[i] := h(t[i⊟12]) ⊕ (t[i] + g(t[i⊟10], t[i⊟511], t[i⊟3]))` (`setP_tbl`, `setQ_tbl`), and the index
  facts `RowOK` of `Lib/Hc128Gen` say that no index read is `i`.
-/
import Rngs.Lib.Hc128Init
import Rngs.Lib.Hc128Inj
import Rngs.Lib.IsaacInj
namespace Rngs.Hc128InitInj
open Rngs Rngs.Hc128 Rngs.Hc128R Rngs.Spec Rngs.Spec.Wu

/-- two specification states agree on the 512 entries of both tables -/
def Agree (s₁ s₂ : Wu.State) : Prop :=
  (∀ j, j < 512 → s₁.P j = s₂.P j) ∧ (∀ j, j < 512 → s₁.Q j = s₂.Q j)

theorem Agree.refl (s : Wu.State) : Agree s s := ⟨fun _ _ => rfl, fun _ _ => rfl⟩

/-- the table lookups of `h1` / `h2` stay inside the table -/
theorem h_congr {T₁ T₂ : Tbl} (h : ∀ j, j < 512 → T₁ j = T₂ j) (x : U32) :
    T₁ (byte x 0) + T₁ (256 + byte x 2) = T₂ (byte x 0) + T₂ (256 + byte x 2) := by
  have b0 := byte_lt x 0
  have b2 := byte_lt x 2
  rw [h _ (by omega), h _ (by omega)]

/-! ## one set-up step, backwards -/

theorem setupP_agree {s₁ s₂ : Wu.State} {i : Nat} (hi : i < 512)
    (h : Agree (setupP s₁ i) (setupP s₂ i)) : Agree s₁ s₂ := by
  obtain ⟨hP, hQ⟩ := h
  have hQ' : ∀ j, j < 512 → s₁.Q j = s₂.Q j := hQ
  have hne : ∀ j, j < 512 → j ≠ i → s₁.P j = s₂.P j := by
    intro j hj hji
    have := hP j hj
    simpa only [setupP, upd_ne _ hji] using this
  have n3 : i ⊟ 3 ≠ i := by unfold sub512; omega
  have n10 : i ⊟ 10 ≠ i := by unfold sub512; omega
  have n511 : i ⊟ 511 ≠ i := by unfold sub512; omega
  have n12 : i ⊟ 12 ≠ i := by unfold sub512; omega
  have hv := hP i hi
  simp only [setupP, upd_same] at hv
  rw [hne _ (sub512_lt _ _) n3, hne _ (sub512_lt _ _) n10, hne _ (sub512_lt _ _) n511,
    hne _ (sub512_lt _ _) n12] at hv
  unfold h1 at hv
  rw [h_congr hQ'] at hv
  have hi' : s₁.P i = s₂.P i :=
    (BitVec.add_left_inj _).mp ((BitVec.xor_left_inj _).mp hv)
  refine ⟨fun j hj => ?_, hQ'⟩
  by_cases hji : j = i
  · subst hji; exact hi'
  · exact hne j hj hji

theorem setupQ_agree {s₁ s₂ : Wu.State} {i : Nat} (hi : i < 512)
    (h : Agree (setupQ s₁ i) (setupQ s₂ i)) : Agree s₁ s₂ := by
  obtain ⟨hP, hQ⟩ := h
  have hP' : ∀ j, j < 512 → s₁.P j = s₂.P j := hP
  have hne : ∀ j, j < 512 → j ≠ i → s₁.Q j = s₂.Q j := by
    intro j hj hji
    have := hQ j hj
    simpa only [setupQ, upd_ne _ hji] using this
  have n3 : i ⊟ 3 ≠ i := by unfold sub512; omega
  have n10 : i ⊟ 10 ≠ i := by unfold sub512; omega
  have n511 : i ⊟ 511 ≠ i := by unfold sub512; omega
  have n12 : i ⊟ 12 ≠ i := by unfold sub512; omega
  have hv := hQ i hi
  simp only [setupQ, upd_same] at hv
  rw [hne _ (sub512_lt _ _) n3, hne _ (sub512_lt _ _) n10, hne _ (sub512_lt _ _) n511,
    hne _ (sub512_lt _ _) n12] at hv
  unfold h2 at hv
  rw [h_congr hP'] at hv
  have hi' : s₁.Q i = s₂.Q i :=
    (BitVec.add_left_inj _).mp ((BitVec.xor_left_inj _).mp hv)
  refine ⟨hP', fun j hj => ?_⟩
  by_cases hji : j = i
  · subst hji; exact hi'
  · exact hne j hj hji

/-! ## the two set-up loops, backwards -/

theorem setupP_loop_agree {s₁ s₂ : Wu.State} :
    ∀ n, n ≤ 512 → Agree ((List.range n).foldl setupP s₁) ((List.range n).foldl setupP s₂) →
      Agree s₁ s₂
  | 0, _, h => h
  | n + 1, hn, h => by
    rw [foldl_range_succ, foldl_range_succ] at h
    exact setupP_loop_agree n (by omega) (setupP_agree (by omega) h)

theorem setupQ_loop_agree {s₁ s₂ : Wu.State} :
    ∀ n, n ≤ 512 → Agree ((List.range n).foldl setupQ s₁) ((List.range n).foldl setupQ s₂) →
      Agree s₁ s₂
  | 0, _, h => h
  | n + 1, hn, h => by
    rw [foldl_range_succ, foldl_range_succ] at h
    exact setupQ_loop_agree n (by omega) (setupQ_agree (by omega) h)

/-- step 3 of the initialisation is injective: from the tables after the 1024 set-up steps to
    the tables after the expansion -/
theorem initState_agree {K IV K' IV' : Vector U32 4}
    (h : Agree (initState K IV) (initState K' IV')) : Agree (expand K IV) (expand K' IV') := by
  unfold initState at h
  exact setupP_loop_agree 512 (Nat.le_refl _) (setupQ_loop_agree 512 (Nat.le_refl _) h)

/-! ## the expansion, backwards -/

theorem expand_agree {K IV K' IV' : Vector U32 4} (h : Agree (expand K IV) (expand K' IV')) :
    ∀ j, 256 ≤ j → j < 1280 → W K IV j = W K' IV' j := by
  intro j h1 h2
  obtain ⟨hP, hQ⟩ := h
  by_cases hj : j < 768
  · have := hP (j - 256) (by omega)
    simp only [expand] at this
    rw [Wtab_getElem K IV (by omega), Wtab_getElem K' IV' (by omega)] at this
    rwa [show j - 256 + 256 = j by omega] at this
  · have := hQ (j - 768) (by omega)
    simp only [expand] at this
    rw [Wtab_getElem K IV (by omega), Wtab_getElem K' IV' (by omega)] at this
    rwa [show j - 768 + 768 = j by omega] at this

/-- 16 consecutive expansion words determine all earlier ones -/
theorem W_back {K IV K' IV' : Vector U32 4} :
    ∀ n, (∀ j, n ≤ j → j < n + 16 → W K IV j = W K' IV' j) →
      ∀ j, j < n + 16 → W K IV j = W K' IV' j
  | 0, h => fun j hj => h j (Nat.zero_le _) hj
  | n + 1, h => by
    have hn : W K IV n = W K' IV' n := by
      have e := h (n + 16) (by omega) (by omega)
      rw [W_rec K IV (i := n + 16) (by omega), W_rec K' IV' (i := n + 16) (by omega)] at e
      rw [show n + 16 - 2 = n + 14 by omega, show n + 16 - 7 = n + 9 by omega,
        show n + 16 - 15 = n + 1 by omega, show n + 16 - 16 = n by omega] at e
      rw [h (n + 14) (by omega) (by omega), h (n + 9) (by omega) (by omega),
        h (n + 1) (by omega) (by omega)] at e
      exact (BitVec.add_right_inj _).mp ((BitVec.add_left_inj _).mp e)
    intro j hj
    by_cases hjl : j = n + 16
    · subst hjl; exact h _ (by omega) (by omega)
    · refine W_back n (fun j h1 h2 => ?_) j (by omega)
      by_cases hjn : j = n
      · subst hjn; exact hn
      · exact h j (by omega) (by omega)

/-- **The key and IV set-up of HC-128 is injective** (specification level). -/
theorem initState_injective {K IV K' IV' : Vector U32 4}
    (h : Agree (initState K IV) (initState K' IV')) : K = K' ∧ IV = IV' := by
  have hW := W_back 256 (fun j h1 h2 => expand_agree (initState_agree h) j h1 (by omega))
  have k : ∀ i (hi : i < 4), K[i] = K'[i] := by
    intro i hi
    have := hW i (by omega)
    rw [W_key K IV (by omega), W_key K' IV' (by omega)] at this
    simpa only [Nat.mod_eq_of_lt hi] using this
  have v : ∀ i (hi : i < 4), IV[i] = IV'[i] := by
    intro i hi
    have := hW (8 + i) (by omega)
    rw [W_iv K IV (by omega) (by omega), W_iv K' IV' (by omega) (by omega)] at this
    simpa only [Nat.add_sub_cancel_left, Nat.mod_eq_of_lt hi] using this
  exact ⟨Vector.ext k, Vector.ext v⟩

/-! ## the model -/

/-- a table represents at most one pair of specification tables (on the 512 entries) -/
theorem Abs.agree {t : Array U32} {s₁ s₂ : Wu.State} (h₁ : Abs t s₁) (h₂ : Abs t s₂) :
    Agree s₁ s₂ :=
  ⟨fun j hj => (h₁.p j hj).symm.trans (h₂.p j hj), fun j hj => (h₁.q j hj).symm.trans (h₂.q j hj)⟩

theorem list8 (a : List U32) (h : a.length = 8) :
    ∃ a0 a1 a2 a3 a4 a5 a6 a7, a = [a0, a1, a2, a3, a4, a5, a6, a7] := by
  rcases a with _ | ⟨a0, _ | ⟨a1, _ | ⟨a2, _ | ⟨a3, _ | ⟨a4, _ | ⟨a5, _ | ⟨a6, _ | ⟨a7, _ | ⟨a8, t⟩⟩⟩⟩⟩⟩⟩⟩⟩
  all_goals simp at h
  exact ⟨_, _, _, _, _, _, _, _, rfl⟩

/-- `Hc128Core::init` is injective already on the table it builds -/
theorem init_t_injective (a b : List U32) (ha : a.length = 8) (hb : b.length = 8)
    (h : (init a).t = (init b).t) : a = b := by
  obtain ⟨a0, a1, a2, a3, a4, a5, a6, a7, rfl⟩ := list8 a ha
  obtain ⟨b0, b1, b2, b3, b4, b5, b6, b7, rfl⟩ := list8 b hb
  have A := (init_refine a0 a1 a2 a3 a4 a5 a6 a7).1
  have B := (init_refine b0 b1 b2 b3 b4 b5 b6 b7).1
  rw [h] at A
  obtain ⟨hK, hIV⟩ := initState_injective (Abs.agree A B)
  have k0 := congrArg (fun v : Vector U32 4 => v[0]) hK
  have k1 := congrArg (fun v : Vector U32 4 => v[1]) hK
  have k2 := congrArg (fun v : Vector U32 4 => v[2]) hK
  have k3 := congrArg (fun v : Vector U32 4 => v[3]) hK
  have v0 := congrArg (fun v : Vector U32 4 => v[0]) hIV
  have v1 := congrArg (fun v : Vector U32 4 => v[1]) hIV
  have v2 := congrArg (fun v : Vector U32 4 => v[2]) hIV
  have v3 := congrArg (fun v : Vector U32 4 => v[3]) hIV
  simp at k0 k1 k2 k3 v0 v1 v2 v3
  subst k0 k1 k2 k3 v0 v1 v2 v3
  rfl

/-- keys and IVs from the first 16 expansion words -/
theorem KIV_of_W {K IV K' IV' : Vector U32 4} (hW : ∀ j, j < 16 → W K IV j = W K' IV' j) :
    K = K' ∧ IV = IV' := by
  have k : ∀ i (hi : i < 4), K[i] = K'[i] := by
    intro i hi
    have := hW i (by omega)
    rw [W_key K IV (by omega), W_key K' IV' (by omega)] at this
    simpa only [Nat.mod_eq_of_lt hi] using this
  have v : ∀ i (hi : i < 4), IV[i] = IV'[i] := by
    intro i hi
    have := hW (8 + i) (by omega)
    rw [W_iv K IV (by omega) (by omega), W_iv K' IV' (by omega) (by omega)] at this
    simpa only [Nat.add_sub_cancel_left, Nat.mod_eq_of_lt hi] using this
  exact ⟨Vector.ext k, Vector.ext v⟩

/-- the table that `init` has built before the 1024 set-up steps (two in-place expansion loops
    and the 16-word copy) determines the seed -/
theorem expansion_t_injective (a b : List U32) (ha : a.length = 8) (hb : b.length = 8)
    (h : stage4 (stage3 (stage2 (stage1 a))) = stage4 (stage3 (stage2 (stage1 b)))) : a = b := by
  obtain ⟨a0, a1, a2, a3, a4, a5, a6, a7, rfl⟩ := list8 a ha
  obtain ⟨b0, b1, b2, b3, b4, b5, b6, b7, rfl⟩ := list8 b hb
  have A : ∀ j, j < 1024 → rd (stage4 (stage3 (stage2 (stage1 [a0, a1, a2, a3, a4, a5, a6, a7])))) j
      = W #v[a0, a1, a2, a3] #v[a4, a5, a6, a7] (256 + j) := by
    obtain ⟨x1, x2⟩ := stage1_spec a0 a1 a2 a3 a4 a5 a6 a7
    obtain ⟨y1, y2⟩ := stage2_spec _ _ _ x1 x2
    obtain ⟨z1, z2⟩ := stage3_spec _ _ _ y1 y2
    exact (stage4_spec _ _ _ z1 z2).2
  have B : ∀ j, j < 1024 → rd (stage4 (stage3 (stage2 (stage1 [b0, b1, b2, b3, b4, b5, b6, b7])))) j
      = W #v[b0, b1, b2, b3] #v[b4, b5, b6, b7] (256 + j) := by
    obtain ⟨x1, x2⟩ := stage1_spec b0 b1 b2 b3 b4 b5 b6 b7
    obtain ⟨y1, y2⟩ := stage2_spec _ _ _ x1 x2
    obtain ⟨z1, z2⟩ := stage3_spec _ _ _ y1 y2
    exact (stage4_spec _ _ _ z1 z2).2
  rw [h] at A
  have hW := W_back (K := #v[a0, a1, a2, a3]) (IV := #v[a4, a5, a6, a7])
    (K' := #v[b0, b1, b2, b3]) (IV' := #v[b4, b5, b6, b7]) 256 (fun j h1 h2 => by
      have := (A (j - 256) (by omega)).symm.trans (B (j - 256) (by omega))
      rwa [show 256 + (j - 256) = j by omega] at this)
  obtain ⟨hK, hIV⟩ := KIV_of_W (fun j hj => hW j (by omega))
  have k0 := congrArg (fun v : Vector U32 4 => v[0]) hK
  have k1 := congrArg (fun v : Vector U32 4 => v[1]) hK
  have k2 := congrArg (fun v : Vector U32 4 => v[2]) hK
  have k3 := congrArg (fun v : Vector U32 4 => v[3]) hK
  have v0 := congrArg (fun v : Vector U32 4 => v[0]) hIV
  have v1 := congrArg (fun v : Vector U32 4 => v[1]) hIV
  have v2 := congrArg (fun v : Vector U32 4 => v[2]) hIV
  have v3 := congrArg (fun v : Vector U32 4 => v[3]) hIV
  simp at k0 k1 k2 k3 v0 v1 v2 v3
  subst k0 k1 k2 k3 v0 v1 v2 v3
  rfl

/-! ## the model's `sixteen_steps`, directly -/

/-- entry `p` becomes `H ⊕ (t[p] + G)` where `H` and `G` do not depend on entry `p` -/
theorem upd_xor_inj {t₁ t₂ : Array U32} (p : Nat) (H G : Array U32 → U32)
    (hH : ∀ t t' : Array U32, (∀ j, j ≠ p → rd t j = rd t' j) → H t = H t')
    (hG : ∀ t t' : Array U32, (∀ j, j ≠ p → rd t j = rd t' j) → G t = G t')
    (hs₁ : t₁.size = 1024) (hs₂ : t₂.size = 1024) (hp : p < 1024)
    (h : wr t₁ p (H t₁ ^^^ (rd t₁ p + G t₁)) = wr t₂ p (H t₂ ^^^ (rd t₂ p + G t₂))) : t₁ = t₂ := by
  have hne : ∀ j, j ≠ p → rd t₁ j = rd t₂ j := by
    intro j hj
    have := congrArg (fun a => rd a j) h
    simpa only [rd_wr_ne hj] using this
  have hp' : rd t₁ p = rd t₂ p := by
    have := congrArg (fun a => rd a p) h
    simp only [rd_wr_same (show p < t₁.size by omega), rd_wr_same (show p < t₂.size by omega)] at this
    rw [hH t₁ t₂ hne, hG t₁ t₂ hne] at this
    exact (BitVec.add_left_inj _).mp ((BitVec.xor_right_inj _).mp this)
  apply Hc128Inj.array_ext_rd (by omega)
  intro j _
  by_cases hj : j = p
  · subst hj; exact hp'
  · exact hne j hj

theorem wr_wr (t : Array U32) (i : Nat) (a b : U32) : wr (wr t i a) i b = wr t i b := by
  simp [wr]

/-- one P set-up step of the model as a single point update -/
theorem setP_tbl {t : Array U32} (hs : t.size = 1024) {i i511 i3 i10 i12 : Nat} (hi : i < 512)
    (h12 : i12 ≠ i) :
    wr (stepP t i i511 i3 i10 i12).2 i (stepP t i i511 i3 i10 i12).1 =
      wr t i ((rd t (512 + ((rd t i12).setWidth 8 : U8).toNat)
                + rd t (512 + 256 + (((rd t i12) >>> 16).setWidth 8 : U8).toNat))
              ^^^ (rd t i + ((rd t i10).rotateRight 8
                    + ((rd t i511).rotateRight 23 ^^^ (rd t i3).rotateRight 10)))) := by
  have ha := ((rd t i12).setWidth 8 : U8).isLt
  have hc := (((rd t i12) >>> 16).setWidth 8 : U8).isLt
  simp only [stepP, wr_wr, rd_wr_ne h12, rd_wr_same (show i < t.size by omega), BitVec.add_assoc]
  rw [rd_wr_ne (by omega), rd_wr_ne (by omega)]

theorem setQ_tbl {t : Array U32} (hs : t.size = 1024) {i i511 i3 i10 i12 : Nat} (hi : i < 512)
    (h12 : i12 ≠ i) :
    wr (stepQ t i i511 i3 i10 i12).2 (512 + i) (stepQ t i i511 i3 i10 i12).1 =
      wr t (512 + i) ((rd t ((rd t (512 + i12)).setWidth 8 : U8).toNat
                + rd t (256 + (((rd t (512 + i12)) >>> 16).setWidth 8 : U8).toNat))
              ^^^ (rd t (512 + i) + ((rd t (512 + i10)).rotateLeft 8
                    + ((rd t (512 + i511)).rotateLeft 23 ^^^ (rd t (512 + i3)).rotateLeft 10)))) := by
  have ha := ((rd t (512 + i12)).setWidth 8 : U8).isLt
  have hc := (((rd t (512 + i12)) >>> 16).setWidth 8 : U8).isLt
  have h12' : 512 + i12 ≠ 512 + i := by omega
  simp only [stepQ, wr_wr, rd_wr_ne h12', rd_wr_same (show 512 + i < t.size by omega), BitVec.add_assoc]
  rw [rd_wr_ne (by omega), rd_wr_ne (by omega)]


theorem setF_size (b : Nat × Nat × Nat) (isP : Bool) (acc : Array U32 × Nat) (row : Row) :
    (setF b isP acc row).1.size = acc.1.size := by
  simp only [setF, size_wr, Hc128Inj.stepRow_size]

theorem setF_snd (b : Nat × Nat × Nat) (isP : Bool) (acc : Array U32 × Nat) (row : Row) :
    (setF b isP acc row).2 = acc.2 + 1 := rfl

/-- one set-up row of the model: the table after determines the table before -/
theorem setF_inj {c k : Nat} {row : Row} (h : RowOK c k row) (hk : c % 512 + k < 512)
    (isP : Bool) {t₁ t₂ : Array U32} (hs₁ : t₁.size = 1024) (hs₂ : t₂.size = 1024)
    (he : (setF (bases c) isP (t₁, k) row).1 = (setF (bases c) isP (t₂, k) row).1) : t₁ = t₂ := by
  obtain ⟨h0, h1, h2, h3, h4⟩ := h
  have hb1 : (bases c).1 = c % 512 := rfl
  have e512 : c % 512 + 512 + k = 512 + (c % 512 + k) := by omega
  simp only [setF, stepRow, h0, h1, h2, h3, h4, hb1] at he
  have n511 : (c % 512 + k) ⊟ 511 ≠ c % 512 + k := by unfold sub512; omega
  have n3 : (c % 512 + k) ⊟ 3 ≠ c % 512 + k := by unfold sub512; omega
  have n10 : (c % 512 + k) ⊟ 10 ≠ c % 512 + k := by unfold sub512; omega
  have n12 : (c % 512 + k) ⊟ 12 ≠ c % 512 + k := by unfold sub512; omega
  have l511 := sub512_lt (c % 512 + k) 511
  have l3 := sub512_lt (c % 512 + k) 3
  have l10 := sub512_lt (c % 512 + k) 10
  have l12 := sub512_lt (c % 512 + k) 12
  cases isP
  · simp only [Bool.false_eq_true, if_false] at he
    rw [e512, setQ_tbl hs₁ hk n12,
      setQ_tbl hs₂ hk n12] at he
    refine upd_xor_inj (512 + (c % 512 + k))
      (fun t => rd t ((rd t (512 + ((c % 512 + k) ⊟ 12))).setWidth 8 : U8).toNat
                + rd t (256 + (((rd t (512 + ((c % 512 + k) ⊟ 12))) >>> 16).setWidth 8 : U8).toNat))
      (fun t => (rd t (512 + ((c % 512 + k) ⊟ 10))).rotateLeft 8
                    + ((rd t (512 + ((c % 512 + k) ⊟ 511))).rotateLeft 23
                        ^^^ (rd t (512 + ((c % 512 + k) ⊟ 3))).rotateLeft 10))
      ?_ ?_ hs₁ hs₂ (by omega) he
    · intro t t' hne
      have e12 := hne (512 + ((c % 512 + k) ⊟ 12)) (by omega)
      have ha := ((rd t' (512 + ((c % 512 + k) ⊟ 12))).setWidth 8 : U8).isLt
      have hc := (((rd t' (512 + ((c % 512 + k) ⊟ 12))) >>> 16).setWidth 8 : U8).isLt
      simp only [e12]
      rw [hne _ (by omega), hne _ (by omega)]
    · intro t t' hne
      simp only [hne _ (show 512 + ((c % 512 + k) ⊟ 10) ≠ 512 + (c % 512 + k) by omega),
        hne _ (show 512 + ((c % 512 + k) ⊟ 511) ≠ 512 + (c % 512 + k) by omega),
        hne _ (show 512 + ((c % 512 + k) ⊟ 3) ≠ 512 + (c % 512 + k) by omega)]
  · simp only [if_true] at he
    rw [setP_tbl hs₁ hk n12, setP_tbl hs₂ hk n12] at he
    refine upd_xor_inj (c % 512 + k)
      (fun t => rd t (512 + ((rd t ((c % 512 + k) ⊟ 12)).setWidth 8 : U8).toNat)
                + rd t (512 + 256 + (((rd t ((c % 512 + k) ⊟ 12)) >>> 16).setWidth 8 : U8).toNat))
      (fun t => (rd t ((c % 512 + k) ⊟ 10)).rotateRight 8
                    + ((rd t ((c % 512 + k) ⊟ 511)).rotateRight 23
                        ^^^ (rd t ((c % 512 + k) ⊟ 3)).rotateRight 10))
      ?_ ?_ hs₁ hs₂ (by omega) he
    · intro t t' hne
      have e12 := hne _ n12
      have ha := ((rd t' ((c % 512 + k) ⊟ 12)).setWidth 8 : U8).isLt
      have hc := (((rd t' ((c % 512 + k) ⊟ 12)) >>> 16).setWidth 8 : U8).isLt
      simp only [e12]
      rw [hne _ (by omega), hne _ (by omega)]
    · intro t t' hne
      simp only [hne _ n10, hne _ n511, hne _ n3]

theorem setFold_inj (c : Nat) (isP : Bool) :
    ∀ (rows : List Row) (k : Nat), RowsOK c k rows → c % 512 + k + rows.length ≤ 512 →
      ∀ (t₁ t₂ : Array U32), t₁.size = 1024 → t₂.size = 1024 →
        (rows.foldl (setF (bases c) isP) (t₁, k)).1 = (rows.foldl (setF (bases c) isP) (t₂, k)).1 →
        t₁ = t₂
  | [], _, _, _, _, _, _, _, h => h
  | row :: rows, k, hok, hlen, t₁, t₂, hs₁, hs₂, h => by
    simp only [List.length_cons] at hlen
    simp only [List.foldl_cons] at h
    have e₁ : setF (bases c) isP (t₁, k) row = ((setF (bases c) isP (t₁, k) row).1, k + 1) := rfl
    have e₂ : setF (bases c) isP (t₂, k) row = ((setF (bases c) isP (t₂, k) row).1, k + 1) := rfl
    rw [e₁, e₂] at h
    have := setFold_inj c isP rows (k + 1) hok.2 (by omega) _ _
      ((setF_size _ _ _ _).trans hs₁) ((setF_size _ _ _ _).trans hs₂) h
    exact setF_inj hok.1 (by omega) isP hs₁ hs₂ this

/-- **`sixteen_steps` is injective** on cores with a 1024-word table and a counter that is a
    multiple of 16 -/
theorem sixteenSteps_inj {c₁ c₂ : Core} (s₁ : c₁.t.size = 1024) (s₂ : c₂.t.size = 1024)
    (m₁ : c₁.counter % 16 = 0) (h : sixteenSteps c₁ = sixteenSteps c₂) : c₁ = c₂ := by
  rw [sixteenSteps_eq, sixteenSteps_eq] at h
  have hc : c₁.counter + 16 = c₂.counter + 16 := congrArg Core.counter h
  have hcnt : c₁.counter = c₂.counter := by omega
  have ht := congrArg Core.t h
  dsimp only at ht
  rw [← hcnt] at ht
  have := setFold_inj c₁.counter _ TABLE 0 (table_ok m₁)
    (by have : TABLE.length = 16 := rfl; omega) c₁.t c₂.t s₁ s₂ ht
  cases c₁; cases c₂
  simp_all

theorem sixteenSteps_size (c : Core) : (sixteenSteps c).t.size = c.t.size := by
  rw [sixteenSteps_eq]
  dsimp only
  generalize TABLE = rows
  generalize (0 : Nat) = k
  generalize c.t = t
  induction rows generalizing t k with
  | nil => rfl
  | cons row rows ih =>
    rw [List.foldl_cons]
    have e : setF (bases c.counter) (decide (c.counter < 512)) (t, k) row
        = ((setF (bases c.counter) (decide (c.counter < 512)) (t, k) row).1, k + 1) := rfl
    rw [e, ih, setF_size]


theorem sixteenSteps_counter (c : Core) : (sixteenSteps c).counter = c.counter + 16 := by
  rw [sixteenSteps_eq]

/-- any number of `sixteen_steps` calls is injective -/
theorem sixteenSteps_loop_inj :
    ∀ (n : Nat) (c₁ c₂ : Core), c₁.t.size = 1024 → c₂.t.size = 1024 → c₁.counter % 16 = 0 →
      (List.range n).foldl (fun c _ => sixteenSteps c) c₁
        = (List.range n).foldl (fun c _ => sixteenSteps c) c₂ → c₁ = c₂
  | 0, _, _, _, _, _, h => h
  | n + 1, c₁, c₂, s₁, s₂, m₁, h => by
    rw [foldl_range_succ, foldl_range_succ] at h
    have inv : ∀ (m : Nat) (c : Core), c.t.size = 1024 →
        ((List.range m).foldl (fun c _ => sixteenSteps c) c).t.size = 1024 ∧
        ((List.range m).foldl (fun c _ => sixteenSteps c) c).counter = c.counter + 16 * m := by
      intro m
      induction m with
      | zero => intro c hc; exact ⟨hc, rfl⟩
      | succ m ih =>
        intro c hc
        rw [foldl_range_succ]
        obtain ⟨i1, i2⟩ := ih c hc
        exact ⟨(sixteenSteps_size _).trans i1, by rw [sixteenSteps_counter, i2]; omega⟩
    obtain ⟨a1, a2⟩ := inv n c₁ s₁
    obtain ⟨b1, -⟩ := inv n c₂ s₂
    exact sixteenSteps_loop_inj n c₁ c₂ s₁ s₂ m₁
      (sixteenSteps_inj a1 b1 (by rw [a2]; omega) h)

/-- the 1024 set-up steps of `init`, as the Rust code computes them, are injective on
    1024-word tables -/
theorem stage5_inj {t₁ t₂ : Array U32} (s₁ : t₁.size = 1024) (s₂ : t₂.size = 1024)
    (h : stage5 t₁ = stage5 t₂) : t₁ = t₂ := by
  unfold stage5 at h
  exact congrArg Core.t (sixteenSteps_loop_inj 64 _ _ s₁ s₂ rfl h)

end Rngs.Hc128InitInj
