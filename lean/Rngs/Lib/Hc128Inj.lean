/-
  Rngs.Lib.Hc128Inj — `Hc128Core::generate` is injective on the core, and its 16 result
  words are determined by the core it produces.

  Each of the 16 steps of a block rewrites one table entry `t[i] := t[i] + g(t[i10], t[i511], t[i3])`
  with `i ∉ {i10, i511, i3}`, so the table before the step is determined by the table after
  it; going backwards through the 16 rows, the core before `generate` is determined by the
  core after it.  The result words are a function of the core before (and overwrite the
  whole 16-word buffer), hence of the core after.
-/
import Rngs.Lib.Hc128Gen
namespace Rngs
namespace Hc128Inj
open Rngs.Hc128 Rngs.Hc128R Rngs.Spec.Wu

/-! ## arrays -/

theorem array_ext_rd {a b : Array U32} (hs : a.size = b.size)
    (h : ∀ j, j < a.size → rd a j = rd b j) : a = b := by
  apply Array.ext hs
  intro j h1 h2
  have := h j h1
  simpa [rd, h1, h2] using this

/-! ## one step is injective on the table -/

/-- the table update shared by `step_p` (`off = 0`, rotate right) and `step_q` (`off = 512`,
    rotate left): entry `p` becomes `t[p] + G(t[p10], t[p511], t[p3])` -/
theorem upd_inj {t₁ t₂ : Array U32} (G : U32 → U32 → U32 → U32) (p p511 p3 p10 : Nat)
    (hs₁ : t₁.size = 1024) (hs₂ : t₂.size = 1024) (hp : p < 1024)
    (h511 : p511 ≠ p) (h3 : p3 ≠ p) (h10 : p10 ≠ p)
    (h : wr t₁ p (rd t₁ p + G (rd t₁ p10) (rd t₁ p511) (rd t₁ p3))
       = wr t₂ p (rd t₂ p + G (rd t₂ p10) (rd t₂ p511) (rd t₂ p3))) : t₁ = t₂ := by
  have hne : ∀ j, j ≠ p → rd t₁ j = rd t₂ j := by
    intro j hj
    have := congrArg (fun a => rd a j) h
    simpa only [rd_wr_ne hj] using this
  have hG : G (rd t₁ p10) (rd t₁ p511) (rd t₁ p3) = G (rd t₂ p10) (rd t₂ p511) (rd t₂ p3) := by
    rw [hne _ h511, hne _ h3, hne _ h10]
  have hp' : rd t₁ p = rd t₂ p := by
    have := congrArg (fun a => rd a p) h
    simp only [rd_wr_same (show p < t₁.size by omega), rd_wr_same (show p < t₂.size by omega)] at this
    rw [hG] at this
    exact (BitVec.add_left_inj _).mp this
  apply array_ext_rd (by omega)
  intro j _
  by_cases hj : j = p
  · subst hj; exact hp'
  · exact hne j hj

theorem stepP_tbl (t : Array U32) (i i511 i3 i10 i12 : Nat) :
    (stepP t i i511 i3 i10 i12).2 =
      wr t i (rd t i + (fun x10 x511 x3 : U32 => x10.rotateRight 8 + (x511.rotateRight 23 ^^^ x3.rotateRight 10))
        (rd t i10) (rd t i511) (rd t i3)) := by
  simp only [stepP, BitVec.add_assoc]

theorem stepQ_tbl (t : Array U32) (i i511 i3 i10 i12 : Nat) :
    (stepQ t i i511 i3 i10 i12).2 =
      wr t (512 + i) (rd t (512 + i) + (fun x10 x511 x3 : U32 => x10.rotateLeft 8 + (x511.rotateLeft 23 ^^^ x3.rotateLeft 10))
        (rd t (512 + i10)) (rd t (512 + i511)) (rd t (512 + i3))) := by
  simp only [stepQ, BitVec.add_assoc]

theorem stepRow_size (b : Nat × Nat × Nat) (isP : Bool) (t : Array U32) (row : Row) :
    (stepRow b isP t row).2.size = t.size := by
  unfold stepRow
  cases isP
  · simp only [Bool.false_eq_true, if_false, stepQ_tbl, size_wr]
  · simp only [if_true, stepP_tbl, size_wr]

/-- one row of the block: the table after determines the table before -/
theorem stepRow_inj {c k : Nat} {row : Row} (h : RowOK c k row) (hk : c % 512 + k < 512)
    (isP : Bool) {t₁ t₂ : Array U32} (hs₁ : t₁.size = 1024) (hs₂ : t₂.size = 1024)
    (he : (stepRow (bases c) isP t₁ row).2 = (stepRow (bases c) isP t₂ row).2) : t₁ = t₂ := by
  obtain ⟨h0, h1, h2, h3, -⟩ := h
  unfold stepRow at he
  rw [h0, h1, h2, h3] at he
  have n511 : (c % 512 + k) ⊟ 511 ≠ c % 512 + k := by unfold sub512; omega
  have n3 : (c % 512 + k) ⊟ 3 ≠ c % 512 + k := by unfold sub512; omega
  have n10 : (c % 512 + k) ⊟ 10 ≠ c % 512 + k := by unfold sub512; omega
  cases isP
  · simp only [Bool.false_eq_true, if_false, stepQ_tbl] at he
    exact upd_inj (fun x10 x511 x3 : U32 => x10.rotateLeft 8 + (x511.rotateLeft 23 ^^^ x3.rotateLeft 10))
      (512 + (c % 512 + k)) (512 + ((c % 512 + k) ⊟ 511)) (512 + ((c % 512 + k) ⊟ 3))
      (512 + ((c % 512 + k) ⊟ 10)) hs₁ hs₂ (by omega) (by omega) (by omega) (by omega) he
  · simp only [if_true, stepP_tbl] at he
    exact upd_inj (fun x10 x511 x3 : U32 => x10.rotateRight 8 + (x511.rotateRight 23 ^^^ x3.rotateRight 10))
      (c % 512 + k) ((c % 512 + k) ⊟ 511) ((c % 512 + k) ⊟ 3) ((c % 512 + k) ⊟ 10)
      hs₁ hs₂ (by omega) n511 n3 n10 he

/-! ## the 16 rows -/

/-- the table component of the fold in `generate` -/
def tblFold (b : Nat × Nat × Nat) (isP : Bool) (rows : List Row) (t : Array U32) : Array U32 :=
  rows.foldl (fun t row => (stepRow b isP t row).2) t

theorem genF_fold_fst (b : Nat × Nat × Nat) (isP : Bool) :
    ∀ (rows : List Row) (t res : Array U32) (k : Nat),
      (rows.foldl (genF b isP) (t, res, k)).1 = tblFold b isP rows t
  | [], _, _, _ => rfl
  | row :: rows, t, res, k => by
    simp only [List.foldl_cons, genF, tblFold]
    exact genF_fold_fst b isP rows _ _ _

theorem tblFold_size (b : Nat × Nat × Nat) (isP : Bool) :
    ∀ (rows : List Row) (t : Array U32), (tblFold b isP rows t).size = t.size
  | [], _ => rfl
  | row :: rows, t => by
    simp only [tblFold, List.foldl_cons]
    exact (tblFold_size b isP rows _).trans (stepRow_size b isP t row)

theorem tblFold_inj (c : Nat) (isP : Bool) :
    ∀ (rows : List Row) (k : Nat), RowsOK c k rows → c % 512 + k + rows.length ≤ 512 →
      ∀ (t₁ t₂ : Array U32), t₁.size = 1024 → t₂.size = 1024 →
        tblFold (bases c) isP rows t₁ = tblFold (bases c) isP rows t₂ → t₁ = t₂
  | [], _, _, _, _, _, _, _, h => h
  | row :: rows, k, hok, hlen, t₁, t₂, hs₁, hs₂, h => by
    simp only [List.length_cons] at hlen
    simp only [tblFold, List.foldl_cons] at h
    have := tblFold_inj c isP rows (k + 1) hok.2 (by omega) _ _
      ((stepRow_size _ _ _ _).trans hs₁) ((stepRow_size _ _ _ _).trans hs₂) h
    exact stepRow_inj hok.1 (by omega) isP hs₁ hs₂ this

/-- the result words: slots `k, k+1, …` of the buffer are overwritten; two buffers of the
    same length that agree below `k` end up agreeing below `k + |rows|` -/
theorem genF_fold_res (b : Nat × Nat × Nat) (isP : Bool) :
    ∀ (rows : List Row) (t res₁ res₂ : Array U32) (k : Nat), res₁.size = res₂.size →
      (∀ j, j < k → res₁[j]? = res₂[j]?) →
      (rows.foldl (genF b isP) (t, res₁, k)).2.1.size = (rows.foldl (genF b isP) (t, res₂, k)).2.1.size
      ∧ ∀ j, j < k + rows.length →
          (rows.foldl (genF b isP) (t, res₁, k)).2.1[j]? = (rows.foldl (genF b isP) (t, res₂, k)).2.1[j]?
  | [], _, _, _, _, hs, h => ⟨hs, fun j hj => h j (by simpa using hj)⟩
  | row :: rows, t, res₁, res₂, k, hs, h => by
    simp only [List.foldl_cons, genF, List.length_cons]
    have := genF_fold_res b isP rows (stepRow b isP t row).2
      (wr res₁ k (stepRow b isP t row).1) (wr res₂ k (stepRow b isP t row).1) (k + 1)
      (by simp [wr, hs])
      (by
        intro j hj
        simp only [wr, Array.getElem?_setIfInBounds, hs]
        by_cases e : k = j
        · simp [e]
        · simp only [e, if_false]; exact h j (by omega))
    refine ⟨this.1, fun j hj => this.2 j (by omega)⟩

/-! ## `generate` -/

/-- what the reachable cores satisfy: a 1024-word table, a counter that is a multiple of 16
    and a `usize` -/
def WF (c : Core) : Prop := c.t.size = 1024 ∧ c.counter % 16 = 0 ∧ c.counter < USIZE

theorem generate_results_size (c : Core) (res : Array U32) : (generate c res).1.size = res.size := by
  rw [generate_eq]
  dsimp only
  generalize hF : genF (bases c.counter) ((c.counter &&& 512) == 0) = F
  have : ∀ (rows : List Row) (acc : Array U32 × Array U32 × Nat),
      (rows.foldl F acc).2.1.size = acc.2.1.size := by
    intro rows
    induction rows with
    | nil => intro acc; rfl
    | cons row rows ih =>
      intro acc
      rw [List.foldl_cons, ih]
      subst hF
      simp [genF, wr]
  exact this TABLE _

theorem generate_WF {c : Core} (h : WF c) (res : Array U32) : WF (generate c res).2 := by
  obtain ⟨h1, h2, h3⟩ := h
  rw [generate_eq]
  refine ⟨?_, ?_, ?_⟩
  · dsimp only
    rw [genF_fold_fst, tblFold_size]; exact h1
  · dsimp only [USIZE]; omega
  · dsimp only [USIZE]; omega

/-- the core after `generate` does not depend on the buffer passed in -/
theorem generate_core_indep (c : Core) (res res' : Array U32) :
    (generate c res).2 = (generate c res').2 := by
  rw [generate_eq, generate_eq]
  dsimp only
  rw [genF_fold_fst, genF_fold_fst]

/-- a 16-word buffer is overwritten completely -/
theorem generate_results_indep (c : Core) (res res' : Array U32) (h : res.size = 16)
    (h' : res'.size = 16) : (generate c res).1 = (generate c res').1 := by
  have hs1 := generate_results_size c res
  have hs2 := generate_results_size c res'
  rw [generate_eq] at hs1 hs2 ⊢
  rw [generate_eq]
  dsimp only at hs1 hs2 ⊢
  obtain ⟨-, hag⟩ := genF_fold_res (bases c.counter) ((c.counter &&& 512) == 0) TABLE c.t res res' 0
    (by omega) (fun j hj => absurd hj (by omega))
  apply Array.ext_getElem?
  intro j
  by_cases hj : j < 16
  · exact hag j (by simpa [TABLE] using hj)
  · rw [Array.getElem?_eq_none (by omega), Array.getElem?_eq_none (by omega)]

theorem generate_indep (c : Core) (res res' : Array U32) (h : res.size = 16) (h' : res'.size = 16) :
    generate c res = generate c res' :=
  Prod.ext (generate_results_indep c res res' h h') (generate_core_indep c res res')

/-- **`generate` is injective on well-formed cores.** -/
theorem generate_core_inj {c₁ c₂ : Core} (h₁ : WF c₁) (h₂ : WF c₂) (r₁ r₂ : Array U32)
    (h : (generate c₁ r₁).2 = (generate c₂ r₂).2) : c₁ = c₂ := by
  obtain ⟨s1, m1, u1⟩ := h₁
  obtain ⟨s2, m2, u2⟩ := h₂
  rw [generate_eq, generate_eq] at h
  dsimp only at h
  have hc : (c₁.counter + 16) % USIZE = (c₂.counter + 16) % USIZE := congrArg Core.counter h
  have hcnt : c₁.counter = c₂.counter := by
    unfold USIZE at hc u1 u2; omega
  have ht := congrArg Core.t h
  dsimp only at ht
  rw [genF_fold_fst, genF_fold_fst, ← hcnt] at ht
  have := tblFold_inj c₁.counter _ TABLE 0 (table_ok m1)
    (by have : TABLE.length = 16 := rfl; omega) c₁.t c₂.t s1 s2 ht
  cases c₁; cases c₂
  simp_all

/-- **The buffer is determined by the core that `generate` leaves behind.** -/
theorem generate_results_determined {c₁ c₂ : Core} (h₁ : WF c₁) (h₂ : WF c₂) (r₁ r₂ : Array U32)
    (hr₁ : r₁.size = 16) (hr₂ : r₂.size = 16)
    (h : (generate c₁ r₁).2 = (generate c₂ r₂).2) : (generate c₁ r₁).1 = (generate c₂ r₂).1 := by
  have := generate_core_inj h₁ h₂ r₁ r₂ h
  subst this
  exact generate_results_indep c₁ r₁ r₂ hr₁ hr₂

end Hc128Inj
end Rngs
