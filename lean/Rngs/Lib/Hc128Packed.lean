/-
  Rngs.Lib.Hc128Packed — a second evaluator for the HC-128 specification whose tables are
  bit-packed into natural numbers (word `i` = bits 32 i … 32 i + 31), proved equal to
  `Rngs.Spec.Wu.keystream`.  Its only purpose: the Lean *kernel* evaluates arithmetic on
  `Nat` literals with GMP, so `decide +kernel` can run the complete initialisation on the
  packed evaluator in a few seconds, which turns the test vectors of the paper into
  kernel-checked theorems about `Wu.keystream` (`test_vector_1/2/3` below) — and, through
  C02, about the model of the Rust code.
-/
import Rngs.Spec.Wu
namespace Rngs.Hc128R.Packed
open Rngs Rngs.Spec Rngs.Spec.Wu

/-- word `i` of the packed table `T` -/
def getW (T : Nat) (i : Nat) : U32 := BitVec.ofNat 32 (T >>> (32 * i))

/-- `T[i] = v` on a packed table (xor the difference of old and new word into place) -/
def setW (T : Nat) (i : Nat) (v : U32) : Nat := T ^^^ ((getW T i ^^^ v).toNat <<< (32 * i))

theorem getLsbD_getW (T i k : Nat) :
    (getW T i).getLsbD k = (decide (k < 32) && T.testBit (32 * i + k)) := by
  simp [getW, BitVec.getLsbD_ofNat, Nat.testBit_shiftRight]

theorem getW_setW (T i : Nat) (v : U32) (j : Nat) :
    getW (setW T i v) j = if j = i then v else getW T j := by
  apply BitVec.eq_of_getLsbD_eq
  intro k hk
  rw [getLsbD_getW]
  simp only [setW, Nat.testBit_xor, Nat.testBit_shiftLeft, hk, decide_true, Bool.true_and]
  by_cases hji : j = i
  · subst hji
    have h1 : 32 * j + k ≥ 32 * j := by omega
    have h2 : 32 * j + k - 32 * j = k := by omega
    simp only [h1, decide_true, Bool.true_and, h2, if_true, BitVec.testBit_toNat,
      BitVec.getLsbD_xor, getLsbD_getW, hk]
    cases T.testBit (32 * j + k) <;> cases v.getLsbD k <;> rfl
  · rw [if_neg hji, getLsbD_getW]
    simp only [hk, decide_true, Bool.true_and]
    by_cases hlt : j < i
    · have h1 : ¬ (32 * j + k ≥ 32 * i) := by omega
      simp [h1]
    · have h3 : 32 ≤ 32 * j + k - 32 * i := by omega
      have h4 : ∀ x : U32, x.toNat.testBit (32 * j + k - 32 * i) = false := by
        intro x
        apply Nat.testBit_lt_two_pow
        exact Nat.lt_of_lt_of_le x.isLt (Nat.pow_le_pow_right (by decide) h3)
      simp [h4]

theorem getW_zero (j : Nat) : getW 0 j = 0 := by
  simp [getW]

theorem getW_shiftRight (T a i : Nat) : getW (T >>> (32 * a)) i = getW T (i + a) := by
  simp only [getW, ← Nat.shiftRight_add]
  congr 2
  omega

theorem upd_getW (T i : Nat) (v : U32) : upd (getW T) i v = getW (setW T i v) := by
  funext j
  rw [getW_setW]
  rfl

/-! ## key/IV expansion -/

def Wp (K IV : Vector U32 4) : Nat → Nat
  | 0 => 0
  | i + 1 =>
    let w := Wp K IV i
    setW w i
      (if i < 8 then K[i % 4]'(Nat.mod_lt _ (by decide))
       else if i < 16 then IV[(i - 8) % 4]'(Nat.mod_lt _ (by decide))
       else f2 (getW w (i - 2)) + getW w (i - 7) + f1 (getW w (i - 15)) + getW w (i - 16)
              + BitVec.ofNat 32 i)

theorem getW_Wp (K IV : Vector U32 4) :
    ∀ n j, getW (Wp K IV n) j = if j < n then W K IV j else 0
  | 0, j => by
    rw [show Wp K IV 0 = 0 from rfl, getW_zero]
    simp
  | n + 1, j => by
    have ih := getW_Wp K IV n
    rw [show Wp K IV (n + 1) = setW (Wp K IV n) n
        (if n < 8 then K[n % 4]'(Nat.mod_lt _ (by decide))
         else if n < 16 then IV[(n - 8) % 4]'(Nat.mod_lt _ (by decide))
         else f2 (getW (Wp K IV n) (n - 2)) + getW (Wp K IV n) (n - 7) +
              f1 (getW (Wp K IV n) (n - 15)) + getW (Wp K IV n) (n - 16) + BitVec.ofNat 32 n)
        from rfl, getW_setW]
    by_cases hjn : j = n
    · subst hjn
      rw [if_pos rfl, if_pos (show j < j + 1 by omega)]
      by_cases h8 : j < 8
      · rw [if_pos h8, W_key K IV h8]
      · rw [if_neg h8]
        by_cases h16 : j < 16
        · rw [if_pos h16, W_iv K IV (by omega) h16]
        · rw [if_neg h16, ih, ih, ih, ih, if_pos (show j - 2 < j by omega),
            if_pos (show j - 7 < j by omega), if_pos (show j - 15 < j by omega),
            if_pos (show j - 16 < j by omega), W_rec K IV (i := j) (by omega)]
    · rw [if_neg hjn, ih]
      by_cases hlt : j < n
      · rw [if_pos hlt, if_pos (show j < n + 1 by omega)]
      · rw [if_neg hlt, if_neg (show ¬ j < n + 1 by omega)]

theorem Wtab_getElem! (K IV : Vector U32 4) (n j : Nat) :
    (Wtab K IV n)[j]! = if j < n then W K IV j else 0 := by
  by_cases h : j < n
  · rw [if_pos h, Wtab_getElem K IV h]
  · rw [if_neg h, getElem!_neg]
    · rfl
    · rw [size_Wtab]; exact h

/-! ## packed states -/

/-- the specification state represented by a pair of packed tables -/
def absS (S : Nat × Nat) : Wu.State := { P := getW S.1, Q := getW S.2 }

def expandP (K IV : Vector U32 4) : Nat × Nat :=
  (Wp K IV 1280 >>> (32 * 256), Wp K IV 1280 >>> (32 * 768))

theorem expand_aux (K IV : Vector U32 4) (n a : Nat) :
    (fun i => (Wtab K IV n)[i + a]!) = getW (Wp K IV n >>> (32 * a)) := by
  funext i
  rw [getW_shiftRight, getW_Wp, Wtab_getElem!]

theorem expand_eq (K IV : Vector U32 4) : expand K IV = absS (expandP K IV) :=
  calc expand K IV
      = ⟨fun i => (Wtab K IV 1280)[i + 256]!, fun i => (Wtab K IV 1280)[i + 768]!⟩ := rfl
    _ = ⟨getW (Wp K IV 1280 >>> (32 * 256)), getW (Wp K IV 1280 >>> (32 * 768))⟩ := by
        rw [expand_aux, expand_aux]
    _ = absS (expandP K IV) := rfl

def pSetupP (S : Nat × Nat) (i : Nat) : Nat × Nat :=
  (setW S.1 i
    ((getW S.1 i + g1 (getW S.1 (i ⊟ 3)) (getW S.1 (i ⊟ 10)) (getW S.1 (i ⊟ 511))) ^^^
      h1 (getW S.2) (getW S.1 (i ⊟ 12))), S.2)

def pSetupQ (S : Nat × Nat) (i : Nat) : Nat × Nat :=
  (S.1, setW S.2 i
    ((getW S.2 i + g2 (getW S.2 (i ⊟ 3)) (getW S.2 (i ⊟ 10)) (getW S.2 (i ⊟ 511))) ^^^
      h2 (getW S.1) (getW S.2 (i ⊟ 12))))

theorem setupP_eq (S : Nat × Nat) (i : Nat) : setupP (absS S) i = absS (pSetupP S i) := by
  simp only [setupP, absS, pSetupP, upd_getW]

theorem setupQ_eq (S : Nat × Nat) (i : Nat) : setupQ (absS S) i = absS (pSetupQ S i) := by
  simp only [setupQ, absS, pSetupQ, upd_getW]

theorem foldl_abs (f : Wu.State → Nat → Wu.State) (g : Nat × Nat → Nat → Nat × Nat)
    (h : ∀ S i, f (absS S) i = absS (g S i)) :
    ∀ (l : List Nat) (S : Nat × Nat), l.foldl f (absS S) = absS (l.foldl g S)
  | [], _ => rfl
  | i :: l, S => by
    rw [List.foldl_cons, List.foldl_cons, h, foldl_abs f g h l]

def initP (K IV : Vector U32 4) : Nat × Nat :=
  (List.range 512).foldl pSetupQ ((List.range 512).foldl pSetupP (expandP K IV))

theorem initState_eq (K IV : Vector U32 4) : initState K IV = absS (initP K IV) := by
  unfold initState initP
  simp only
  rw [expand_eq, foldl_abs setupP pSetupP setupP_eq, foldl_abs setupQ pSetupQ setupQ_eq]

def pGenStep (S : Nat × Nat) (i : Nat) : U32 × (Nat × Nat) :=
  if i % 1024 < 512 then
    (h1 (getW S.2)
        (getW (setW S.1 (i % 512) (getW S.1 (i % 512) + g1 (getW S.1 (i % 512 ⊟ 3))
          (getW S.1 (i % 512 ⊟ 10)) (getW S.1 (i % 512 ⊟ 511)))) (i % 512 ⊟ 12)) ^^^
      getW (setW S.1 (i % 512) (getW S.1 (i % 512) + g1 (getW S.1 (i % 512 ⊟ 3))
          (getW S.1 (i % 512 ⊟ 10)) (getW S.1 (i % 512 ⊟ 511)))) (i % 512),
     (setW S.1 (i % 512) (getW S.1 (i % 512) + g1 (getW S.1 (i % 512 ⊟ 3))
          (getW S.1 (i % 512 ⊟ 10)) (getW S.1 (i % 512 ⊟ 511))), S.2))
  else
    (h2 (getW S.1)
        (getW (setW S.2 (i % 512) (getW S.2 (i % 512) + g2 (getW S.2 (i % 512 ⊟ 3))
          (getW S.2 (i % 512 ⊟ 10)) (getW S.2 (i % 512 ⊟ 511)))) (i % 512 ⊟ 12)) ^^^
      getW (setW S.2 (i % 512) (getW S.2 (i % 512) + g2 (getW S.2 (i % 512 ⊟ 3))
          (getW S.2 (i % 512 ⊟ 10)) (getW S.2 (i % 512 ⊟ 511)))) (i % 512),
     (S.1, setW S.2 (i % 512) (getW S.2 (i % 512) + g2 (getW S.2 (i % 512 ⊟ 3))
          (getW S.2 (i % 512 ⊟ 10)) (getW S.2 (i % 512 ⊟ 511)))))

theorem genStep_eq (S : Nat × Nat) (i : Nat) :
    genStep (absS S) i = ((pGenStep S i).1, absS (pGenStep S i).2) := by
  unfold genStep pGenStep
  by_cases h : i % 1024 < 512
  · simp only [h, if_true, absS, upd_getW]
  · simp only [h, if_false, absS, upd_getW]

def pStateAt (K IV : Vector U32 4) : Nat → Nat × Nat
  | 0 => initP K IV
  | i + 1 => (pGenStep (pStateAt K IV i) i).2

theorem stateAt_eq (K IV : Vector U32 4) : ∀ n, stateAt K IV n = absS (pStateAt K IV n)
  | 0 => initState_eq K IV
  | n + 1 => by
    rw [show stateAt K IV (n + 1) = (genStep (stateAt K IV n) n).2 from rfl, stateAt_eq K IV n,
      genStep_eq]
    rfl

/-- the packed evaluator -/
def pKeystream (K IV : Vector U32 4) (k : Nat) : U32 := (pGenStep (pStateAt K IV k) k).1

theorem keystream_eq (K IV : Vector U32 4) (k : Nat) : keystream K IV k = pKeystream K IV k := by
  unfold keystream pKeystream
  rw [stateAt_eq, genStep_eq]

/-! ## the test vectors of the paper, kernel-checked -/

set_option maxRecDepth 100000 in
/-- key = 0, IV = 0 -/
theorem test_vector_1 :
    (List.range 4).map (keystream #v[0, 0, 0, 0] #v[0, 0, 0, 0]) =
      [0x73150082#32, 0x3bfd03a0#32, 0xfb2fd77f#32, 0xaa63af0e#32] := by
  rw [show keystream _ _ = pKeystream _ _ from funext (keystream_eq _ _)]
  decide +kernel

set_option maxRecDepth 100000 in
/-- key = 0, IV = 1 -/
theorem test_vector_2 :
    (List.range 4).map (keystream #v[0, 0, 0, 0] #v[1, 0, 0, 0]) =
      [0xc01893d5#32, 0xb7dbe958#32, 0x8f65ec98#32, 0x64176604#32] := by
  rw [show keystream _ _ = pKeystream _ _ from funext (keystream_eq _ _)]
  decide +kernel

set_option maxRecDepth 100000 in
/-- key = 0x55, IV = 0 -/
theorem test_vector_3 :
    (List.range 4).map (keystream #v[0x55, 0, 0, 0] #v[0, 0, 0, 0]) =
      [0x518251a4#32, 0x04b4930a#32, 0xb02af931#32, 0x0639f032#32] := by
  rw [show keystream _ _ = pKeystream _ _ from funext (keystream_eq _ _)]
  decide +kernel

set_option maxRecDepth 100000 in
/-- key = 0, IV = 0, positions 1616 … 1619 (a Q phase in the second pass through the tables);
    expected values from the `rand_hc` test-suite (`test_hc128_true_values_u64`), not from
    the paper -/
theorem test_positions_1616 :
    (List.range 4).map (fun k => keystream #v[0, 0, 0, 0] #v[0, 0, 0, 0] (1616 + k)) =
      [0x84d0fc10#32, 0xd8c4d6ca#32, 0xdc66e8e7#32, 0xf16a5d91#32] := by
  simp only [keystream_eq]
  decide +kernel

end Rngs.Hc128R.Packed
