/-
  Rngs.Lib.IsaacAnchor32 — the reference specification `Rngs.Spec.Jenkins` (ISAAC, 32 bit),
  evaluated by the kernel on published vectors.  Kept in its own module because each
  evaluation takes the kernel about half a minute.
-/
import Rngs.Spec.Jenkins
namespace Rngs.IsaacAnchor
open Rngs.Spec

/-- Unseeded ISAAC (`randinit(FALSE)` on a zeroed context): the first outputs listed in
    rand_isaac's `test_isaac_new_uninitialized` ("the same as the reference implementation
    when used uninitialized"). -/
theorem unseeded32_first4 :
    (List.range 4).map (Jenkins.rand Jenkins.isaac32
        (Jenkins.unseeded Jenkins.isaac32 Jenkins.zeros Jenkins.zeros))
      = [0x71D71FD2#32, 0xB54ADAE7#32, 0xD4788559#32, 0xC36129FA#32] := by decide +kernel

/-- Seeded ISAAC (`randinit(TRUE)`, `randrsl = 1, 23, 456, 7890, 12345, 0, …`): first output of
    rand_isaac's `test_isaac_true_values_32`. -/
theorem seeded32_first :
    Jenkins.rand Jenkins.isaac32
        (Jenkins.seeded Jenkins.isaac32 [1#32, 23#32, 456#32, 7890#32, 12345#32, 0#32, 0#32, 0#32]
          Jenkins.zeros) 0
      = 2558573138#32 := by decide +kernel

end Rngs.IsaacAnchor
