/-
  Rngs.Lib.IsaacAnchor64 — the reference specification `Rngs.Spec.Jenkins` (ISAAC-64),
  evaluated by the kernel on published vectors.
-/
import Rngs.Spec.Jenkins
namespace Rngs.IsaacAnchor
open Rngs.Spec

/-- Unseeded ISAAC-64: the first outputs listed in rand_isaac's
    `test_isaac64_new_uninitialized`. -/
theorem unseeded64_first2 :
    (List.range 2).map (Jenkins.rand Jenkins.isaac64
        (Jenkins.unseeded Jenkins.isaac64 Jenkins.zeros Jenkins.zeros))
      = [0xF67DFBA498E4937C#64, 0x84A5066A9204F380#64] := by decide +kernel

/-- Seeded ISAAC-64 (`randrsl = 1, 23, 456, 7890, 0, …`): first output of rand_isaac's
    `test_isaac64_true_values_64`. -/
theorem seeded64_first :
    Jenkins.rand Jenkins.isaac64
        (Jenkins.seeded Jenkins.isaac64 [1#64, 23#64, 456#64, 7890#64] Jenkins.zeros) 0
      = 15071495833797886820#64 := by decide +kernel

end Rngs.IsaacAnchor
