/-
  Rngs.Lib.IsaacInj — ISAAC / ISAAC-64 (model `Rngs.Model.Isaac`): the key schedule `init` and the
  round function `generate` lose no information.

  * `init`: one pass is `for j in 0..32 { o = mix(o + mem[8j..8j+8]); mem[8j..8j+8] = o }`.
    The result array lists the successive values of `o`; `mix` is injective, so
    `o_j + key_j = mix⁻¹(o_{j+1})` gives back key block `j` from two neighbouring result blocks
    (`mpass_core`).  For the second pass the starting `o` is the last block of the first pass's
    result, which the same argument recovers first (`mpass_mpass_injective`).
  * `generate`: every `rngstep` can be undone from `(mem', a', b')`:
    `y = mem'[pos]`, `x = b' − mem'[(y >> s₂) % 256]`, `mem = mem'[pos := x]`,
    `mixₖ(a) = a' − mem[partner]` (the four `mixₖ` are xorshift steps, `Lib/BitInj`),
    `b = y − a' − mem[(x >> s₁) % 256]`  (`rstep_inj`); 256 of them, then `c' = c + 1`, `b₀ = b + c'`.
-/
import Rngs.Lib.IsaacRefineInit
import Rngs.Lib.IsaacMixInv
import Rngs.Lib.SeedLemmas
namespace Rngs.IsaacInj
open Rngs Rngs.Isaac Rngs.BitInj
open Rngs.IsaacRefine (wr8 add8 mchunk mpass init_one init_two)

variable {w : Nat}

/-! ## total array access -/
section arrays
variable {α : Type}

theorem size_wr (a : Array α) (i : Nat) (v : α) : (wr a i v).size = a.size := by simp [wr]

theorem rd_wr [Inhabited α] (a : Array α) (i : Nat) (v : α) (j : Nat) :
    rd (wr a i v) j = if j = i ∧ i < a.size then v else rd a j := by
  simp only [rd, wr, getElem!_def, Array.getElem?_setIfInBounds]
  by_cases hji : j = i
  · subst hji
    by_cases h : j < a.size
    · simp [h]
    · simp [h]
  · have : ¬ i = j := fun e => hji e.symm
    simp [hji, this]

theorem rd_wr_same [Inhabited α] {a : Array α} {i : Nat} (h : i < a.size) (v : α) :
    rd (wr a i v) i = v := by
  rw [rd_wr]; simp [h]

theorem rd_wr_ne [Inhabited α] (a : Array α) {i j : Nat} (h : j ≠ i) (v : α) :
    rd (wr a i v) j = rd a j := by
  rw [rd_wr]; simp [h]

theorem array_ext_rd [Inhabited α] {a b : Array α} (hs : a.size = b.size)
    (h : ∀ i, i < a.size → rd a i = rd b i) : a = b := by
  apply Array.ext hs
  intro i h1 h2
  have := h i h1
  rw [rd, rd, getElem!_pos a i h1, getElem!_pos b i h2] at this
  exact this

theorem wr_wr_same (a : Array α) (i : Nat) (u v : α) : wr (wr a i u) i v = wr a i v := by
  simp [wr]

theorem wr_rd_self [Inhabited α] (a : Array α) (i : Nat) : wr a i (rd a i) = a := by
  apply array_ext_rd (size_wr _ _ _)
  intro j _
  rw [rd_wr]
  split
  · next h => rw [h.1]
  · rfl

end arrays

/-! ## eight-word blocks -/

/-- the block `mem[i..i+8]` -/
def octAt (m : Array (BitVec w)) (i : Nat) : Oct w :=
  ⟨rd m i, rd m (i+1), rd m (i+2), rd m (i+3), rd m (i+4), rd m (i+5), rd m (i+6), rd m (i+7)⟩

/-- componentwise wrapping addition -/
def octAdd (x y : Oct w) : Oct w :=
  ⟨x.a + y.a, x.b + y.b, x.c + y.c, x.d + y.d, x.e + y.e, x.f + y.f, x.g + y.g, x.h + y.h⟩

theorem add8_eq (o : Oct w) (m : Array (BitVec w)) (i : Nat) : add8 o m i = octAdd o (octAt m i) := rfl

theorem octAdd_right_cancel {x y z : Oct w} (h : octAdd x z = octAdd y z) : x = y := by
  cases x; cases y; cases z
  simp only [octAdd, Oct.mk.injEq] at h ⊢
  obtain ⟨h0, h1, h2, h3, h4, h5, h6, h7⟩ := h
  exact ⟨add_right_cancel' h0, add_right_cancel' h1, add_right_cancel' h2, add_right_cancel' h3,
    add_right_cancel' h4, add_right_cancel' h5, add_right_cancel' h6, add_right_cancel' h7⟩

theorem octAdd_left_cancel {x y z : Oct w} (h : octAdd z x = octAdd z y) : x = y := by
  cases x; cases y; cases z
  simp only [octAdd, Oct.mk.injEq] at h ⊢
  obtain ⟨h0, h1, h2, h3, h4, h5, h6, h7⟩ := h
  exact ⟨add_left_cancel' h0, add_left_cancel' h1, add_left_cancel' h2, add_left_cancel' h3,
    add_left_cancel' h4, add_left_cancel' h5, add_left_cancel' h6, add_left_cancel' h7⟩

theorem octAt_congr {m1 m2 : Array (BitVec w)} {i : Nat}
    (h : ∀ t, t < 8 → rd m1 (i + t) = rd m2 (i + t)) : octAt m1 i = octAt m2 i := by
  simp only [octAt, Oct.mk.injEq]
  exact ⟨h 0 (by omega), h 1 (by omega), h 2 (by omega), h 3 (by omega), h 4 (by omega),
    h 5 (by omega), h 6 (by omega), h 7 (by omega)⟩

theorem rd_of_octAt_eq {m1 m2 : Array (BitVec w)} {i : Nat} (h : octAt m1 i = octAt m2 i)
    (t : Nat) (ht : t < 8) : rd m1 (i + t) = rd m2 (i + t) := by
  simp only [octAt, Oct.mk.injEq] at h
  obtain ⟨h0, h1, h2, h3, h4, h5, h6, h7⟩ := h
  match t, ht with
  | 0, _ => exact h0
  | 1, _ => exact h1
  | 2, _ => exact h2
  | 3, _ => exact h3
  | 4, _ => exact h4
  | 5, _ => exact h5
  | 6, _ => exact h6
  | 7, _ => exact h7

theorem array_eq_of_octs {m1 m2 : Array (BitVec w)} (hs1 : m1.size = 256) (hs2 : m2.size = 256)
    (h : ∀ n, n < 32 → octAt m1 (n * 8) = octAt m2 (n * 8)) : m1 = m2 := by
  apply array_ext_rd (by rw [hs1, hs2])
  intro k hk
  have := rd_of_octAt_eq (h (k / 8) (by omega)) (k % 8) (Nat.mod_lt _ (by decide))
  have e : k / 8 * 8 + k % 8 = k := by omega
  rwa [e] at this

theorem size_wr8 (a : Array (BitVec w)) (i : Nat) (o : Oct w) : (wr8 a i o).size = a.size := by
  simp only [wr8, size_wr]

theorem rd_wr8_out (a : Array (BitVec w)) (i : Nat) (o : Oct w) (j : Nat) (h : j < i ∨ i + 8 ≤ j) :
    rd (wr8 a i o) j = rd a j := by
  unfold wr8
  rw [rd_wr_ne _ (by omega), rd_wr_ne _ (by omega), rd_wr_ne _ (by omega), rd_wr_ne _ (by omega),
    rd_wr_ne _ (by omega), rd_wr_ne _ (by omega), rd_wr_ne _ (by omega), rd_wr_ne _ (by omega)]

theorem octAt_wr8 (a : Array (BitVec w)) (i : Nat) (o : Oct w) (h : i + 7 < a.size) :
    octAt (wr8 a i o) i = o := by
  have h0 : i < a.size := by omega
  have h1 : i + 1 < a.size := by omega
  have h2 : i + 2 < a.size := by omega
  have h3 : i + 3 < a.size := by omega
  have h4 : i + 4 < a.size := by omega
  have h5 : i + 5 < a.size := by omega
  have h6 : i + 6 < a.size := by omega
  cases o
  simp [octAt, wr8, rd_wr, size_wr, h0, h1, h2, h3, h4, h5, h6, h]

/-! ## one pass of `init`, chunk by chunk -/

variable {p : Params w} {acc : Array (BitVec w) × Oct w}

/-- the first `n` chunks of a pass -/
def run (p : Params w) (acc : Array (BitVec w) × Oct w) (n : Nat) : Array (BitVec w) × Oct w :=
  (List.range n).foldl (mchunk p) acc

theorem run_succ (n : Nat) : run p acc (n + 1) = mchunk p (run p acc n) n := by
  unfold run
  rw [List.range_succ, List.foldl_append]
  rfl

theorem mpass_eq_run : mpass p acc = run p acc 32 := rfl

theorem mchunk_snd (acc : Array (BitVec w) × Oct w) (j : Nat) :
    (mchunk p acc j).2 = p.mix (octAdd acc.2 (octAt acc.1 (j * 8))) := rfl

theorem mchunk_fst (acc : Array (BitVec w) × Oct w) (j : Nat) :
    (mchunk p acc j).1 = wr8 acc.1 (j * 8) (mchunk p acc j).2 := by
  simp only [mchunk]

theorem size_run (n : Nat) : (run p acc n).1.size = acc.1.size := by
  induction n with
  | zero => rfl
  | succ n ih => rw [run_succ, mchunk_fst, size_wr8, ih]

/-- chunks `≥ n` are still the input after `n` chunks -/
theorem run_tail (n k : Nat) (hk : n * 8 ≤ k) : rd (run p acc n).1 k = rd acc.1 k := by
  induction n with
  | zero => rfl
  | succ n ih =>
    rw [run_succ, mchunk_fst, rd_wr8_out _ _ _ _ (by omega)]
    exact ih (by omega)

/-- chunks `< n` are final after `n` chunks -/
theorem run_stable (n d k : Nat) (hk : k < n * 8) :
    rd (run p acc (n + d)).1 k = rd (run p acc n).1 k := by
  induction d with
  | zero => rfl
  | succ d ih =>
    rw [← Nat.add_assoc, run_succ, mchunk_fst, rd_wr8_out _ _ _ _ (by omega)]
    exact ih

/-- the running `a..h` after chunk `n` is block `n` of every later array -/
theorem run_oct (hs : acc.1.size = 256) (n d : Nat) (hn : n < 32) :
    octAt (run p acc (n + 1 + d)).1 (n * 8) = (run p acc (n + 1)).2 := by
  have h1 : octAt (run p acc (n + 1 + d)).1 (n * 8) = octAt (run p acc (n + 1)).1 (n * 8) :=
    octAt_congr (fun t ht => run_stable (n + 1) d _ (by omega))
  rw [h1, run_succ, mchunk_fst]
  exact octAt_wr8 _ _ _ (by rw [size_run, hs]; omega)

theorem run_snd_succ (n : Nat) :
    (run p acc (n + 1)).2 = p.mix (octAdd (run p acc n).2 (octAt acc.1 (n * 8))) := by
  have e : octAt (run p acc n).1 (n * 8) = octAt acc.1 (n * 8) :=
    octAt_congr (fun t _ => run_tail n _ (by omega))
  rw [run_succ, mchunk_snd, e]

/-- the last running `a..h` of a pass is the last block of its result -/
theorem mpass_snd (hs : acc.1.size = 256) : (mpass p acc).2 = octAt (mpass p acc).1 (31 * 8) :=
  (run_oct hs 31 0 (by omega)).symm

/-- what the result array of one pass determines about its input `(mem, o)`: `o + mem[0..8]` and
    every later block of `mem` -/
theorem mpass_core (p : Params w) (hmix : ∀ x y, p.mix x = p.mix y → x = y)
    (acc1 acc2 : Array (BitVec w) × Oct w) (hs1 : acc1.1.size = 256) (hs2 : acc2.1.size = 256)
    (h : (mpass p acc1).1 = (mpass p acc2).1) :
    octAdd acc1.2 (octAt acc1.1 0) = octAdd acc2.2 (octAt acc2.1 0) ∧
    ∀ n, 1 ≤ n → n < 32 → octAt acc1.1 (n * 8) = octAt acc2.1 (n * 8) := by
  have hO : ∀ n, n < 32 → (run p acc1 (n + 1)).2 = (run p acc2 (n + 1)).2 := by
    intro n hn
    have e : n + 1 + (31 - n) = 32 := by omega
    have h1 := run_oct (p := p) hs1 n (31 - n) hn
    have h2 := run_oct (p := p) hs2 n (31 - n) hn
    rw [e] at h1 h2
    rw [← h1, ← h2]
    show octAt (mpass p acc1).1 _ = octAt (mpass p acc2).1 _
    rw [h]
  constructor
  · have := hO 0 (by omega)
    rw [run_snd_succ (p := p) (acc := acc1) 0, run_snd_succ (p := p) (acc := acc2) 0] at this
    exact hmix _ _ this
  · intro n h1 h32
    obtain ⟨m, rfl⟩ : ∃ m, n = m + 1 := ⟨n - 1, by omega⟩
    have := hO (m + 1) h32
    rw [run_snd_succ (p := p) (acc := acc1) (m + 1), run_snd_succ (p := p) (acc := acc2) (m + 1),
      hO m (by omega)] at this
    exact octAdd_left_cancel (hmix _ _ this)

/-- one pass, started from the same `a..h`, is injective in the array -/
theorem mpass_injective (p : Params w) (hmix : ∀ x y, p.mix x = p.mix y → x = y) (o : Oct w)
    (m1 m2 : Array (BitVec w)) (hs1 : m1.size = 256) (hs2 : m2.size = 256)
    (h : (mpass p (m1, o)).1 = (mpass p (m2, o)).1) : m1 = m2 := by
  obtain ⟨h0, hn⟩ := mpass_core p hmix (m1, o) (m2, o) hs1 hs2 h
  apply array_eq_of_octs hs1 hs2
  intro n hn32
  rcases Nat.eq_zero_or_pos n with rfl | hpos
  · exact octAdd_left_cancel h0
  · exact hn n hpos hn32

/-- two passes (the second continues with the `a..h` the first ended with) are injective too -/
theorem mpass_mpass_injective (p : Params w) (hmix : ∀ x y, p.mix x = p.mix y → x = y) (o : Oct w)
    (m1 m2 : Array (BitVec w)) (hs1 : m1.size = 256) (hs2 : m2.size = 256)
    (h : (mpass p (mpass p (m1, o))).1 = (mpass p (mpass p (m2, o))).1) : m1 = m2 := by
  have s1 : (mpass p (m1, o)).1.size = 256 := by rw [mpass_eq_run, size_run]; exact hs1
  have s2 : (mpass p (m2, o)).1.size = 256 := by rw [mpass_eq_run, size_run]; exact hs2
  obtain ⟨h0, hn⟩ := mpass_core p hmix _ _ s1 s2 h
  have t1 := mpass_snd (p := p) (acc := (m1, o)) hs1
  have t2 := mpass_snd (p := p) (acc := (m2, o)) hs2
  have e2 : (mpass p (m1, o)).2 = (mpass p (m2, o)).2 := by
    rw [t1, t2]; exact hn 31 (by omega) (by omega)
  rw [e2] at h0
  have e1 : (mpass p (m1, o)).1 = (mpass p (m2, o)).1 := by
    apply array_eq_of_octs s1 s2
    intro n hn32
    rcases Nat.eq_zero_or_pos n with rfl | hpos
    · exact octAdd_left_cancel h0
    · exact hn n hpos hn32
  exact mpass_injective p hmix o m1 m2 hs1 hs2 e1

theorem init_one_injective (p : Params w) (hmix : ∀ x y, p.mix x = p.mix y → x = y)
    (m1 m2 : Array (BitVec w)) (hs1 : m1.size = 256) (hs2 : m2.size = 256)
    (h : init p m1 1 = init p m2 1) : m1 = m2 := by
  rw [init_one, init_one, Core.mk.injEq] at h
  exact mpass_injective p hmix _ m1 m2 hs1 hs2 h.1

theorem init_two_injective (p : Params w) (hmix : ∀ x y, p.mix x = p.mix y → x = y)
    (m1 m2 : Array (BitVec w)) (hs1 : m1.size = 256) (hs2 : m2.size = 256)
    (h : init p m1 2 = init p m2 2) : m1 = m2 := by
  rw [init_two, init_two, Core.mk.injEq] at h
  exact mpass_mpass_injective p hmix _ m1 m2 hs1 hs2 h.1

/-! ## seeds -/

theorem extend_size (l : List (BitVec w)) (h : l.length ≤ 256) : (extend l).size = 256 := by
  simp only [extend, RAND_SIZE, List.size_toArray, List.length_append, List.length_take,
    List.length_replicate]
  omega

theorem extend_injective {l1 l2 : List (BitVec w)} (h1 : l1.length ≤ 256) (hl : l1.length = l2.length)
    (h : extend l1 = extend l2) : l1 = l2 := by
  unfold extend at h
  rw [List.take_of_length_le (by simpa [RAND_SIZE] using h1),
    List.take_of_length_le (by rw [← hl]; simpa [RAND_SIZE] using h1), hl] at h
  have h' := congrArg Array.toList h
  simpa using h'

theorem readU32s_injective (a b : List U8) (n : Nat) (ha : a.length = 4 * n) (hb : b.length = 4 * n)
    (h : readU32s a n = readU32s b n) : a = b := by
  apply Seed.eq_of_words32 a b n ha hb
  intro k hk
  unfold readU32s at h
  exact (List.map_inj_left.mp h) k (List.mem_range.mpr hk)

theorem readU64s_injective (a b : List U8) (n : Nat) (ha : a.length = 8 * n) (hb : b.length = 8 * n)
    (h : readU64s a n = readU64s b n) : a = b := by
  apply Seed.eq_of_words64 a b n ha hb
  intro k hk
  unfold readU64s at h
  exact (List.map_inj_left.mp h) k (List.mem_range.mpr hk)

theorem u64_eq_of_halves {x y : U64} (hl : x.setWidth 32 = y.setWidth 32)
    (hh : (x >>> 32).setWidth 32 = (y >>> 32).setWidth 32) : x = y := by
  apply BitVec.eq_of_getLsbD_eq
  intro i hi
  by_cases h : i < 32
  · have := congrArg (fun v => v.getLsbD i) hl
    simpa [BitVec.getLsbD_setWidth, h] using this
  · have := congrArg (fun v => v.getLsbD (i - 32)) hh
    have e : 32 + (i - 32) = i := by omega
    have h2 : i - 32 < 32 := by omega
    simpa [BitVec.getLsbD_setWidth, BitVec.getLsbD_ushiftRight, e, h2] using this

/-! ## `generate` -/

/-- the four xorshift functions of `rngstep` are injective -/
def MixInj (p : Params w) : Prop :=
  (∀ x y, p.mix0 x = p.mix0 y → x = y) ∧ (∀ x y, p.mix1 x = p.mix1 y → x = y) ∧
  (∀ x y, p.mix2 x = p.mix2 y → x = y) ∧ (∀ x y, p.mix3 x = p.mix3 y → x = y)

theorem mixInj32 : MixInj params32 :=
  ⟨fun _ _ h => xorShl_injective 13 (by decide) h, fun _ _ h => xorShr_injective 6 (by decide) h,
   fun _ _ h => xorShl_injective 2 (by decide) h, fun _ _ h => xorShr_injective 16 (by decide) h⟩

theorem mixInj64 : MixInj params64 :=
  ⟨fun _ _ h => not_xorShl_injective 21 (by decide) h, fun _ _ h => xorShr_injective 5 (by decide) h,
   fun _ _ h => xorShl_injective 12 (by decide) h, fun _ _ h => xorShr_injective 33 (by decide) h⟩

/-- the part of the working state that `generate` hands on (everything but `results`) -/
def SameCore (s1 s2 : GenSt w) : Prop := s1.mem = s2.mem ∧ s1.a = s2.a ∧ s1.b = s2.b

/-- one `rngstep` whose `mix` argument is `f(a)` -/
def rstep (p : Params w) (f : BitVec w → BitVec w) (base m m2 : Nat) (s : GenSt w) : GenSt w :=
  rngstep p s (f s.a) base m m2

def stepA (f : BitVec w → BitVec w) (s : GenSt w) (q : Nat) : BitVec w := f s.a + rd s.mem q
def stepY (p : Params w) (f : BitVec w → BitVec w) (s : GenSt w) (pos q : Nat) : BitVec w :=
  stepA f s q + s.b + ind s.mem (rd s.mem pos) p.indShift

theorem rstep_mem (p : Params w) (f : BitVec w → BitVec w) (base m m2 : Nat) (s : GenSt w) :
    (rstep p f base m m2 s).mem = wr s.mem (base + m) (stepY p f s (base + m) (base + m2)) := rfl
theorem rstep_a (p : Params w) (f : BitVec w → BitVec w) (base m m2 : Nat) (s : GenSt w) :
    (rstep p f base m m2 s).a = stepA f s (base + m2) := rfl
theorem rstep_b (p : Params w) (f : BitVec w → BitVec w) (base m m2 : Nat) (s : GenSt w) :
    (rstep p f base m m2 s).b = rd s.mem (base + m) +
      ind (rstep p f base m m2 s).mem (stepY p f s (base + m) (base + m2)) (p.indShift + RAND_SIZE_LEN) := rfl

theorem rstep_size (p : Params w) (f : BitVec w → BitVec w) (base m m2 : Nat) (s : GenSt w) :
    (rstep p f base m m2 s).mem.size = s.mem.size := by
  rw [rstep_mem, size_wr]

/-- **one `rngstep` is reversible**: the state before it is determined by `(mem, a, b)` after it -/
theorem rstep_inj (p : Params w) (f : BitVec w → BitVec w) (hf : ∀ x y, f x = f y → x = y)
    (base m m2 : Nat) (s1 s2 : GenSt w) (hs1 : base + m < s1.mem.size) (hs2 : base + m < s2.mem.size)
    (h : SameCore (rstep p f base m m2 s1) (rstep p f base m m2 s2)) : SameCore s1 s2 := by
  obtain ⟨hm, ha, hb⟩ := h
  have y1 : rd (rstep p f base m m2 s1).mem (base + m) = stepY p f s1 (base + m) (base + m2) := by
    rw [rstep_mem]; exact rd_wr_same hs1 _
  have y2 : rd (rstep p f base m m2 s2).mem (base + m) = stepY p f s2 (base + m) (base + m2) := by
    rw [rstep_mem]; exact rd_wr_same hs2 _
  have hy : stepY p f s1 (base + m) (base + m2) = stepY p f s2 (base + m) (base + m2) := by
    rw [← y1, ← y2, hm]
  have hx : rd s1.mem (base + m) = rd s2.mem (base + m) := by
    rw [rstep_b, rstep_b, hm, hy] at hb
    exact add_right_cancel' hb
  have m1 : s1.mem = wr (rstep p f base m m2 s1).mem (base + m) (rd s1.mem (base + m)) := by
    rw [rstep_mem, wr_wr_same, wr_rd_self]
  have m2' : s2.mem = wr (rstep p f base m m2 s2).mem (base + m) (rd s2.mem (base + m)) := by
    rw [rstep_mem, wr_wr_same, wr_rd_self]
  have hmem : s1.mem = s2.mem := by rw [m1, m2', hm, hx]
  rw [rstep_a, rstep_a] at ha
  have haa : s1.a = s2.a := by
    have ha' := ha
    unfold stepA at ha'
    rw [hmem] at ha'
    exact hf _ _ (add_right_cancel' ha')
  have hbb : s1.b = s2.b := by
    unfold stepY at hy
    rw [ha, hmem] at hy
    exact add_left_cancel' (add_right_cancel' hy)
  exact ⟨hmem, haa, hbb⟩

/-- the body of one `halfLoop` iteration -/
def quad (p : Params w) (m m2 : Nat) (s : GenSt w) (j : Nat) : GenSt w :=
  rstep p p.mix3 (j * 4 + 3) m m2 (rstep p p.mix2 (j * 4 + 2) m m2
    (rstep p p.mix1 (j * 4 + 1) m m2 (rstep p p.mix0 (j * 4 + 0) m m2 s)))

theorem halfLoop_eq (p : Params w) (s : GenSt w) (m m2 : Nat) :
    halfLoop p s m m2 = (List.range 32).foldl (quad p m m2) s := rfl

theorem quad_size (p : Params w) (m m2 : Nat) (s : GenSt w) (j : Nat) :
    (quad p m m2 s j).mem.size = s.mem.size := by
  unfold quad
  rw [rstep_size, rstep_size, rstep_size, rstep_size]

theorem quad_inj (p : Params w) (hp : MixInj p) (m m2 j : Nat) (hj : j * 4 + 3 + m < 256)
    (s1 s2 : GenSt w) (hs1 : s1.mem.size = 256) (hs2 : s2.mem.size = 256)
    (h : SameCore (quad p m m2 s1 j) (quad p m m2 s2 j)) : SameCore s1 s2 := by
  unfold quad at h
  have h3 := rstep_inj p p.mix3 hp.2.2.2 _ m m2 _ _
    (by rw [rstep_size, rstep_size, rstep_size, hs1]; omega)
    (by rw [rstep_size, rstep_size, rstep_size, hs2]; omega) h
  have h2 := rstep_inj p p.mix2 hp.2.2.1 _ m m2 _ _
    (by rw [rstep_size, rstep_size, hs1]; omega) (by rw [rstep_size, rstep_size, hs2]; omega) h3
  have h1 := rstep_inj p p.mix1 hp.2.1 _ m m2 _ _
    (by rw [rstep_size, hs1]; omega) (by rw [rstep_size, hs2]; omega) h2
  exact rstep_inj p p.mix0 hp.1 _ m m2 _ _ (by rw [hs1]; omega) (by rw [hs2]; omega) h1

/-- a fold of steps each of which is reversible (under an invariant it preserves) is reversible -/
theorem foldl_inj {σ ι : Type} (E : σ → σ → Prop) (Q : σ → Prop) (F : σ → ι → σ) (l : List ι)
    (hQ : ∀ s i, i ∈ l → Q s → Q (F s i))
    (hF : ∀ s1 s2 i, i ∈ l → Q s1 → Q s2 → E (F s1 i) (F s2 i) → E s1 s2) :
    ∀ s1 s2, Q s1 → Q s2 → E (l.foldl F s1) (l.foldl F s2) → E s1 s2 := by
  induction l with
  | nil => intro s1 s2 _ _ h; exact h
  | cons i l ih =>
    intro s1 s2 q1 q2 h
    rw [List.foldl_cons, List.foldl_cons] at h
    have hi : i ∈ i :: l := List.mem_cons_self
    have := ih (fun s k hk => hQ s k (List.mem_cons_of_mem _ hk))
      (fun a b k hk => hF a b k (List.mem_cons_of_mem _ hk)) _ _ (hQ s1 i hi q1) (hQ s2 i hi q2) h
    exact hF s1 s2 i hi q1 q2 this

theorem foldl_pres {σ ι : Type} (Q : σ → Prop) (F : σ → ι → σ) (l : List ι)
    (hQ : ∀ s i, i ∈ l → Q s → Q (F s i)) : ∀ s, Q s → Q (l.foldl F s) := by
  induction l with
  | nil => intro s h; exact h
  | cons i l ih =>
    intro s h
    rw [List.foldl_cons]
    exact ih (fun s k hk => hQ s k (List.mem_cons_of_mem _ hk)) _ (hQ s i List.mem_cons_self h)

theorem halfLoop_size (p : Params w) (s : GenSt w) (m m2 : Nat) (hs : s.mem.size = 256) :
    (halfLoop p s m m2).mem.size = 256 := by
  rw [halfLoop_eq]
  exact foldl_pres (fun s => s.mem.size = 256) _ _ (fun s j _ h => by rw [quad_size]; exact h) s hs

theorem halfLoop_inj (p : Params w) (hp : MixInj p) (m m2 : Nat) (hm : m ≤ 128)
    (s1 s2 : GenSt w) (hs1 : s1.mem.size = 256) (hs2 : s2.mem.size = 256)
    (h : SameCore (halfLoop p s1 m m2) (halfLoop p s2 m m2)) : SameCore s1 s2 := by
  rw [halfLoop_eq, halfLoop_eq] at h
  refine foldl_inj SameCore (fun s => s.mem.size = 256) (quad p m m2) (List.range 32)
    (fun s j _ h => by rw [quad_size]; exact h) ?_ s1 s2 hs1 hs2 h
  intro a b j hj qa qb hab
  have : j < 32 := List.mem_range.mp hj
  exact quad_inj p hp m m2 j (by omega) a b qa qb hab

/-- the working state `generate` starts from -/
def st0 (c : Core w) (r : Array (BitVec w)) : GenSt w := ⟨c.mem, r, c.a, c.b + (c.c + 1)⟩

theorem generate_snd (p : Params w) (c : Core w) (r : Array (BitVec w)) :
    (generate p c r).2 =
      ⟨(halfLoop p (halfLoop p (st0 c r) 0 MIDPOINT) MIDPOINT 0).mem,
       (halfLoop p (halfLoop p (st0 c r) 0 MIDPOINT) MIDPOINT 0).a,
       (halfLoop p (halfLoop p (st0 c r) 0 MIDPOINT) MIDPOINT 0).b, c.c + 1⟩ := by
  simp only [generate, st0]

/-- **`generate` is injective on cores** (whatever the two results buffers hold) -/
theorem generate_injective (p : Params w) (hp : MixInj p) (c1 c2 : Core w)
    (r1 r2 : Array (BitVec w)) (hs1 : c1.mem.size = 256) (hs2 : c2.mem.size = 256)
    (h : (generate p c1 r1).2 = (generate p c2 r2).2) : c1 = c2 := by
  rw [generate_snd, generate_snd, Core.mk.injEq] at h
  obtain ⟨hm, ha, hb, hc⟩ := h
  have hcc : c1.c = c2.c := add_right_cancel' hc
  have q1 : (st0 c1 r1).mem.size = 256 := hs1
  have q2 : (st0 c2 r2).mem.size = 256 := hs2
  have h1 := halfLoop_inj p hp MIDPOINT 0 (by decide)
    (halfLoop p (st0 c1 r1) 0 MIDPOINT) (halfLoop p (st0 c2 r2) 0 MIDPOINT)
    (halfLoop_size p _ _ _ q1) (halfLoop_size p _ _ _ q2) ⟨hm, ha, hb⟩
  obtain ⟨hm', ha', hb'⟩ := halfLoop_inj p hp 0 MIDPOINT (by decide) (st0 c1 r1) (st0 c2 r2) q1 q2 h1
  have hm'' : c1.mem = c2.mem := hm'
  have ha'' : c1.a = c2.a := ha'
  have hb'' : c1.b + (c1.c + 1) = c2.b + (c2.c + 1) := hb'
  rw [hcc] at hb''
  have hbb : c1.b = c2.b := add_right_cancel' hb''
  cases c1; cases c2
  simp only [Core.mk.injEq]
  exact ⟨hm'', ha'', hbb, hcc⟩

/-! ## `.mem`-level statements, sizes -/

theorem init_one_mem (p : Params w) (m : Array (BitVec w)) :
    (init p m 1).mem = (mpass p (m, p.golden)).1 := by rw [init_one]

theorem init_two_mem (p : Params w) (m : Array (BitVec w)) :
    (init p m 2).mem = (mpass p (mpass p (m, p.golden))).1 := by rw [init_two]

theorem init_abc (p : Params w) (m : Array (BitVec w)) (r : Nat) :
    (init p m r).a = 0 ∧ (init p m r).b = 0 ∧ (init p m r).c = 0 := by
  rw [IsaacRefine.init_eq]
  exact ⟨rfl, rfl, rfl⟩

theorem init_one_mem_injective (p : Params w) (hmix : ∀ x y, p.mix x = p.mix y → x = y)
    (m1 m2 : Array (BitVec w)) (hs1 : m1.size = 256) (hs2 : m2.size = 256)
    (h : (init p m1 1).mem = (init p m2 1).mem) : m1 = m2 := by
  rw [init_one_mem, init_one_mem] at h
  exact mpass_injective p hmix p.golden m1 m2 hs1 hs2 h

theorem init_two_mem_injective (p : Params w) (hmix : ∀ x y, p.mix x = p.mix y → x = y)
    (m1 m2 : Array (BitVec w)) (hs1 : m1.size = 256) (hs2 : m2.size = 256)
    (h : (init p m1 2).mem = (init p m2 2).mem) : m1 = m2 := by
  rw [init_two_mem, init_two_mem] at h
  exact mpass_mpass_injective p hmix p.golden m1 m2 hs1 hs2 h

theorem mpass_size (p : Params w) (acc : Array (BitVec w) × Oct w) :
    (mpass p acc).1.size = acc.1.size := by rw [mpass_eq_run, size_run]

theorem init_size (p : Params w) (m : Array (BitVec w)) (r : Nat) (hs : m.size = 256) :
    (init p m r).mem.size = 256 := by
  rw [IsaacRefine.init_eq]
  show ((List.range r).foldl (fun acc _ => mpass p acc) (m, p.golden)).1.size = 256
  exact foldl_pres (fun acc : Array (BitVec w) × Oct w => acc.1.size = 256) _ _
    (fun s _ _ h => by rw [mpass_size]; exact h) (m, p.golden) hs

theorem generate_size (p : Params w) (c : Core w) (r : Array (BitVec w)) (hs : c.mem.size = 256) :
    (generate p c r).2.mem.size = 256 := by
  simp only [generate_snd]
  have q : (st0 c r).mem.size = 256 := hs
  exact halfLoop_size p _ _ _ (halfLoop_size p _ _ _ q)

/-! ## the next core does not depend on the results buffer -/

theorem rstep_congr (p : Params w) (f : BitVec w → BitVec w) (base m m2 : Nat) (s1 s2 : GenSt w)
    (h : SameCore s1 s2) : SameCore (rstep p f base m m2 s1) (rstep p f base m m2 s2) := by
  obtain ⟨hm, ha, hb⟩ := h
  have hA : ∀ q, stepA f s1 q = stepA f s2 q := by
    intro q; unfold stepA; rw [hm, ha]
  have hY : stepY p f s1 (base + m) (base + m2) = stepY p f s2 (base + m) (base + m2) := by
    unfold stepY; rw [hA, hm, hb]
  have hM : (rstep p f base m m2 s1).mem = (rstep p f base m m2 s2).mem := by
    rw [rstep_mem, rstep_mem, hY, hm]
  refine ⟨hM, ?_, ?_⟩
  · rw [rstep_a, rstep_a, hA]
  · rw [rstep_b, rstep_b, hM, hY, hm]

theorem quad_congr (p : Params w) (m m2 : Nat) (s1 s2 : GenSt w) (j : Nat) (h : SameCore s1 s2) :
    SameCore (quad p m m2 s1 j) (quad p m m2 s2 j) := by
  unfold quad
  exact rstep_congr _ _ _ _ _ _ _ (rstep_congr _ _ _ _ _ _ _ (rstep_congr _ _ _ _ _ _ _
    (rstep_congr _ _ _ _ _ _ _ h)))

theorem foldl_congr {σ ι : Type} (E : σ → σ → Prop) (F : σ → ι → σ) (l : List ι)
    (hF : ∀ s1 s2 i, E s1 s2 → E (F s1 i) (F s2 i)) :
    ∀ s1 s2, E s1 s2 → E (l.foldl F s1) (l.foldl F s2) := by
  induction l with
  | nil => intro s1 s2 h; exact h
  | cons i l ih =>
    intro s1 s2 h
    rw [List.foldl_cons, List.foldl_cons]
    exact ih _ _ (hF s1 s2 i h)

theorem halfLoop_congr (p : Params w) (m m2 : Nat) (s1 s2 : GenSt w) (h : SameCore s1 s2) :
    SameCore (halfLoop p s1 m m2) (halfLoop p s2 m m2) := by
  rw [halfLoop_eq, halfLoop_eq]
  exact foldl_congr SameCore (quad p m m2) _ (fun a b j hab => quad_congr p m m2 a b j hab) s1 s2 h

/-- the core after `generate` is the same whatever the results buffer held -/
theorem generate_snd_indep (p : Params w) (c : Core w) (r1 r2 : Array (BitVec w)) :
    (generate p c r1).2 = (generate p c r2).2 := by
  have h0 : SameCore (st0 c r1) (st0 c r2) := ⟨rfl, rfl, rfl⟩
  obtain ⟨hm, ha, hb⟩ := halfLoop_congr p MIDPOINT 0 _ _ (halfLoop_congr p 0 MIDPOINT _ _ h0)
  rw [generate_snd, generate_snd, Core.mk.injEq]
  exact ⟨hm, ha, hb, rfl⟩

/-- the core transition of the block generator -/
def nextCore (p : Params w) (c : Core w) : Core w := (generate p c #[]).2

theorem generate_snd_eq_nextCore (p : Params w) (c : Core w) (r : Array (BitVec w)) :
    (generate p c r).2 = nextCore p c := generate_snd_indep p c r #[]

theorem nextCore_injective (p : Params w) (hp : MixInj p) (c1 c2 : Core w)
    (hs1 : c1.mem.size = 256) (hs2 : c2.mem.size = 256) (h : nextCore p c1 = nextCore p c2) : c1 = c2 :=
  generate_injective p hp c1 c2 #[] #[] hs1 hs2 h

theorem iter_nextCore_size (p : Params w) (k : Nat) (c : Core w) (hs : c.mem.size = 256) :
    (iter (nextCore p) k c).mem.size = 256 := by
  induction k with
  | zero => exact hs
  | succ k ih => exact generate_size p _ _ ih

/-- two different cores never merge, however many blocks are generated -/
theorem iter_nextCore_injective (p : Params w) (hp : MixInj p) (k : Nat) (c1 c2 : Core w)
    (hs1 : c1.mem.size = 256) (hs2 : c2.mem.size = 256)
    (h : iter (nextCore p) k c1 = iter (nextCore p) k c2) : c1 = c2 := by
  induction k with
  | zero => exact h
  | succ k ih =>
    exact ih (nextCore_injective p hp _ _ (iter_nextCore_size p k c1 hs1) (iter_nextCore_size p k c2 hs2) h)

end Rngs.IsaacInj
