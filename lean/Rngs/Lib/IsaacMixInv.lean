/-
  Rngs.Lib.IsaacMixInv — `init`'s local `fn mix` of rand_isaac (isaac.rs / isaac64.rs) is a
  bijection of the eight-word working set: every one of its 24 statements is of the form
  `u ^= v << k`, `u ^= v >> k`, `u += v` or `u -= v` with `u ≠ v`, so running the statements
  backwards with `+`/`-` exchanged undoes it.  The inverses are written out and both
  compositions are proved to be the identity, for both widths.
-/
import Rngs.Model.Isaac
import Rngs.Lib.BitInj
namespace Rngs.IsaacInj
open Rngs Rngs.Isaac Rngs.BitInj

/-- inverse of `params32.mix` (isaac.rs): the eight lines backwards -/
def unmix32 (o : Oct 32) : Oct 32 :=
  let ⟨a, b, c, d, e, f, g, h⟩ := o
  let a := a - b; let c := c - h; let h := h ^^^ (a >>> 9)
  let h := h - a; let b := b - g; let g := g ^^^ (h <<< 8)
  let g := g - h; let a := a - f; let f := f ^^^ (g >>> 4)
  let f := f - g; let h := h - e; let e := e ^^^ (f <<< 10)
  let e := e - f; let g := g - d; let d := d ^^^ (e >>> 16)
  let d := d - e; let f := f - c; let c := c ^^^ (d <<< 8)
  let c := c - d; let e := e - b; let b := b ^^^ (c >>> 2)
  let b := b - c; let d := d - a; let a := a ^^^ (b <<< 11)
  ⟨a, b, c, d, e, f, g, h⟩

/-- inverse of `params64.mix` (isaac64.rs): the eight lines backwards -/
def unmix64 (o : Oct 64) : Oct 64 :=
  let ⟨a, b, c, d, e, f, g, h⟩ := o
  let g := g - h; let e := e ^^^ (g <<< 14); let h := h + d
  let f := f - g; let d := d ^^^ (f >>> 17); let g := g + c
  let e := e - f; let c := c ^^^ (e <<< 20); let f := f + b
  let d := d - e; let b := b ^^^ (d >>> 14); let e := e + a
  let c := c - d; let a := a ^^^ (c <<< 15); let d := d + h
  let b := b - c; let h := h ^^^ (b >>> 23); let c := c + g
  let a := a - b; let g := g ^^^ (a <<< 9);  let b := b + f
  let h := h - a; let f := f ^^^ (h >>> 9);  let a := a + e
  ⟨a, b, c, d, e, f, g, h⟩

theorem unmix32_mix (o : Oct 32) : unmix32 (params32.mix o) = o := by
  obtain ⟨a, b, c, d, e, f, g, h⟩ := o
  simp only [params32, unmix32, add_sub_cancel_right, xor_cancel_right]

theorem mix_unmix32 (o : Oct 32) : params32.mix (unmix32 o) = o := by
  obtain ⟨a, b, c, d, e, f, g, h⟩ := o
  simp only [params32, unmix32, sub_add_cancel_right, xor_cancel_right]

theorem unmix64_mix (o : Oct 64) : unmix64 (params64.mix o) = o := by
  obtain ⟨a, b, c, d, e, f, g, h⟩ := o
  simp only [params64, unmix64, add_sub_cancel_right, sub_add_cancel_right, xor_cancel_right]

theorem mix_unmix64 (o : Oct 64) : params64.mix (unmix64 o) = o := by
  obtain ⟨a, b, c, d, e, f, g, h⟩ := o
  simp only [params64, unmix64, add_sub_cancel_right, sub_add_cancel_right, xor_cancel_right]

theorem mix32_injective {x y : Oct 32} (h : params32.mix x = params32.mix y) : x = y := by
  have := congrArg unmix32 h
  rwa [unmix32_mix, unmix32_mix] at this

theorem mix64_injective {x y : Oct 64} (h : params64.mix x = params64.mix y) : x = y := by
  have := congrArg unmix64 h
  rwa [unmix64_mix, unmix64_mix] at this

end Rngs.IsaacInj
