/-
  Rngs.Lib.IsaacRefine — one `generate` of the model (`Rngs.Model.Isaac`) is one `isaac()`
  of Jenkins' reference (`Rngs.Spec.Jenkins`), for both word widths.

  The model is the unrolled two-half loop over `Array`s with total indexing, the reference
  is the rolled loop over `Vector _ 256`.  The concretisation `conc…` maps reference data to
  model data (`mm ↦ mm.toArray`, `randrsl ↦ randrsl.reverse.toArray`), so that no size side
  conditions have to be carried through the loops.
-/
import Rngs.Model.Isaac
import Rngs.Spec.Jenkins
namespace Rngs.IsaacRefine
open Rngs Rngs.Isaac Rngs.Spec

variable {w : Nat}

abbrev Vec (w : Nat) := Vector (BitVec w) 256

/-! ### arrays -/

theorem rd_toArray (v : Vec w) (k : Nat) (h : k < 256) : rd v.toArray k = v[k] := by
  unfold rd
  rw [getElem!_pos v.toArray k (by simpa using h)]
  exact Vector.getElem_toArray _

theorem wr_toArray (v : Vec w) (k : Nat) (h : k < 256) (x : BitVec w) :
    wr v.toArray k x = (v.set k x h).toArray := by
  unfold wr
  rw [Array.setIfInBounds_def, dif_pos (by simpa using h), Vector.toArray_set]

theorem wr_reverse (v : Vec w) (k : Nat) (h : k < 256) (x : BitVec w) :
    wr v.reverse.toArray (255 - k) x = (v.set k x h).reverse.toArray := by
  unfold wr
  apply Array.ext
  · simp
  · intro j h1 h2
    have hj : j < 256 := by simpa using h2
    rw [Array.getElem_setIfInBounds, Vector.getElem_toArray, Vector.getElem_toArray,
      Vector.getElem_reverse hj, Vector.getElem_reverse hj, Vector.getElem_set]
    · by_cases hc : 255 - k = j
      · have : k = 256 - 1 - j := by omega
        rw [if_pos hc, if_pos this]
      · have : ¬ k = 256 - 1 - j := by omega
        rw [if_neg hc, if_neg this]
    · simpa using hj

/-! ### folds -/

/-- a bounded `Nat.fold` whose body is tracked, through a stage-indexed concretisation, by a
    body on plain indices, is a `List.range` fold -/
theorem fold_conc {α β : Type} (conc : Nat → α → β) (g : β → Nat → β) :
    ∀ (n : Nat) (f : (i : Nat) → i < n → α → α),
      (∀ i (hi : i < n) s, conc (i + 1) (f i hi s) = g (conc i s) i) →
      ∀ s, conc n (Nat.fold n f s) = (List.range n).foldl g (conc 0 s)
  | 0, _, _, s => by simp
  | n + 1, f, h, s => by
    rw [Nat.fold_succ, h n (Nat.lt_succ_self n), List.range_succ, List.foldl_append,
      fold_conc conc g n (fun i hi => f i (Nat.lt_succ_of_lt hi))
        (fun i hi s => h i (Nat.lt_succ_of_lt hi) s) s]
    rfl

/-- a `List.range (n * 4)` fold, four iterations at a time -/
theorem foldl_range_mul4 {β : Type} (g : β → Nat → β) (s : β) (n : Nat) :
    (List.range (n * 4)).foldl g s =
      (List.range n).foldl
        (fun s j => g (g (g (g s (j * 4 + 0)) (j * 4 + 1)) (j * 4 + 2)) (j * 4 + 3)) s := by
  induction n with
  | zero => simp
  | succ n ih =>
    have e : (n + 1) * 4 = (((n * 4 + 1) + 1) + 1) + 1 := by omega
    rw [e]
    simp only [List.range_succ, List.foldl_append, List.foldl_cons, List.foldl_nil, ih]
    rfl

/-! ### the width-dependent data correspond -/

def toM (o : Jenkins.Oct w) : Isaac.Oct w := ⟨o.a, o.b, o.c, o.d, o.e, o.f, o.g, o.h⟩

/-- the reference variant `v` and the model parameters `p` describe the same generator -/
structure Match (v : Jenkins.Variant w) (p : Params w) : Prop where
  indShift : p.indShift = v.indShift
  mix0 : ∀ a, p.mix0 a = v.accMix 0 a
  mix1 : ∀ a, p.mix1 a = v.accMix 1 a
  mix2 : ∀ a, p.mix2 a = v.accMix 2 a
  mix3 : ∀ a, p.mix3 a = v.accMix 3 a
  mix : ∀ o, p.mix (toM o) = toM (v.mix o)
  golden : p.golden = toM (Jenkins.scrambled v)

theorem match32 : Match Jenkins.isaac32 params32 where
  indShift := rfl
  mix0 _ := rfl
  mix1 _ := rfl
  mix2 _ := rfl
  mix3 _ := rfl
  mix o := by cases o; rfl
  golden := by decide

theorem match64 : Match Jenkins.isaac64 params64 where
  indShift := rfl
  mix0 _ := rfl
  mix1 _ := rfl
  mix2 _ := rfl
  mix3 _ := rfl
  mix o := by cases o; rfl
  golden := by decide

/-! ### `rngstep` -/

/-- the `mix` argument the unrolled model loop passes at position `k` of a group -/
def mixSel (p : Params w) (k : Nat) (a : BitVec w) : BitVec w :=
  match k with
  | 0 => p.mix0 a
  | 1 => p.mix1 a
  | 2 => p.mix2 a
  | _ => p.mix3 a

theorem mixSel_eq {v : Jenkins.Variant w} {p : Params w} (hm : Match v p) (i : Nat) (a : BitVec w) :
    mixSel p (i % 4) a = v.accMix (i % 4) a := by
  have h : i % 4 < 4 := Nat.mod_lt _ (by decide)
  generalize i % 4 = k at h
  match k, h with
  | 0, _ => exact hm.mix0 a
  | 1, _ => exact hm.mix1 a
  | 2, _ => exact hm.mix2 a
  | 3, _ => exact hm.mix3 a

def concSt (s : Jenkins.Loop w) : GenSt w :=
  { mem := s.mm.toArray, results := s.randrsl.reverse.toArray, a := s.a, b := s.b }

theorem ind_conc (v : Jenkins.Variant w) (mm : Vec w) (x : BitVec w) :
    Isaac.ind mm.toArray x v.indShift = Jenkins.ind v mm x := by
  unfold Isaac.ind Jenkins.ind
  exact rd_toArray mm _ (Nat.mod_lt _ (by decide))

theorem ind_conc2 (v : Jenkins.Variant w) (mm : Vec w) (y : BitVec w) :
    Isaac.ind mm.toArray y (v.indShift + 8) = Jenkins.ind v mm (y >>> 8) := by
  rw [← ind_conc, Nat.add_comm]
  unfold Isaac.ind
  rw [BitVec.shiftRight_add]

/-- one model `rngstep` at `base + m = i`, `base + m2 = (i + 128) mod 256` is iteration `i`
    of the rolled reference loop -/
theorem rngstep_conc {v : Jenkins.Variant w} {p : Params w} (hm : Match v p)
    (s : Jenkins.Loop w) (i : Nat) (hi : i < 256) (base m m2 : Nat)
    (h1 : base + m = i) (h2 : base + m2 = (i + 128) % 256) :
    Isaac.rngstep p (concSt s) (mixSel p (i % 4) (concSt s).a) base m m2
      = concSt (Jenkins.rngstep v i hi s) := by
  have hlt : (i + 128) % 256 < 256 := Nat.mod_lt _ (by decide)
  have hidx : 256 - 1 - base - m = 255 - i := by omega
  have hy : v.accMix (i % 4) s.a + s.mm[(i + 128) % 256] + s.b + Jenkins.ind v s.mm s.mm[i]
      = Jenkins.ind v s.mm s.mm[i] + (v.accMix (i % 4) s.a + s.mm[(i + 128) % 256]) + s.b := by
    ac_rfl
  unfold Isaac.rngstep Jenkins.rngstep
  simp only [concSt, h1, h2, hm.indShift, mixSel_eq hm, rd_toArray _ _ hi, rd_toArray _ _ hlt,
    ind_conc, wr_toArray _ _ hi, RAND_SIZE, RAND_SIZE_LEN]
  rw [hy]
  simp only [hidx, ind_conc2, wr_reverse _ _ hi]
  rw [BitVec.add_comm s.mm[i]]
  rfl

/-! ### the two half loops are the rolled loop -/

theorem foldl_range_congr {β : Type} (f g : β → Nat → β) :
    ∀ (n : Nat), (∀ i, i < n → ∀ s, f s i = g s i) →
      ∀ s, (List.range n).foldl f s = (List.range n).foldl g s
  | 0, _, s => by simp
  | n + 1, h, s => by
    rw [List.range_succ, List.foldl_append, List.foldl_append,
      foldl_range_congr f g n (fun i hi => h i (Nat.lt_succ_of_lt hi)) s]
    simp only [List.foldl_cons, List.foldl_nil]
    exact h n (Nat.lt_succ_self n) _

/-- the model's step with the `mix` argument chosen by the position in the group -/
def mstep (p : Params w) (m m2 : Nat) (st : GenSt w) (i : Nat) : GenSt w :=
  Isaac.rngstep p st (mixSel p (i % 4) st.a) i m m2

theorem halfLoop_eq (p : Params w) (st : GenSt w) (m m2 : Nat) :
    halfLoop p st m m2 = (List.range 128).foldl (mstep p m m2) st := by
  have h := foldl_range_mul4 (mstep p m m2) st 32
  have e : (32 * 4 : Nat) = 128 := rfl
  rw [e] at h
  rw [h]
  unfold halfLoop
  refine foldl_range_congr _ _ 32 (fun j _ st => ?_) st
  have h0 : (j * 4 + 0) % 4 = 0 := by omega
  have h1 : (j * 4 + 1) % 4 = 1 := by omega
  have h2 : (j * 4 + 2) % 4 = 2 := by omega
  have h3 : (j * 4 + 3) % 4 = 3 := by omega
  simp only [mstep, h0, h1, h2, h3, mixSel]

/-- the rolled model loop: `i < 128` uses `(base, m, m2) = (i, 0, 128)`, `i ≥ 128` uses
    `(i - 128, 128, 0)` -/
def gstep (p : Params w) (st : GenSt w) (i : Nat) : GenSt w :=
  Isaac.rngstep p st (mixSel p (i % 4) st.a) (i % 128) (i / 128 * 128) ((1 - i / 128) * 128)

theorem twoHalves_eq (p : Params w) (st : GenSt w) :
    halfLoop p (halfLoop p st 0 MIDPOINT) MIDPOINT 0 = (List.range 256).foldl (gstep p) st := by
  have e : (256 : Nat) = 128 + 128 := rfl
  rw [e, List.range_add, List.foldl_append, List.foldl_map, halfLoop_eq, halfLoop_eq]
  have hA : ∀ s, (List.range 128).foldl (gstep p) s = (List.range 128).foldl (mstep p 0 MIDPOINT) s := by
    apply foldl_range_congr
    intro i hi s
    have a1 : i % 128 = i := by omega
    have a2 : i / 128 * 128 = 0 := by omega
    have a3 : (1 - i / 128) * 128 = 128 := by omega
    simp only [gstep, mstep, a1, a2, a3, MIDPOINT]
  have hB : ∀ s, (List.range 128).foldl (fun s i => gstep p s (128 + i)) s
      = (List.range 128).foldl (mstep p MIDPOINT 0) s := by
    apply foldl_range_congr
    intro i hi s
    have a0 : (128 + i) % 4 = i % 4 := by omega
    have a1 : (128 + i) % 128 = i := by omega
    have a2 : (128 + i) / 128 * 128 = 128 := by omega
    have a3 : (1 - (128 + i) / 128) * 128 = 0 := by omega
    simp only [gstep, mstep, a0, a1, a2, a3, MIDPOINT]
  rw [hA, hB]

theorem gstep_conc {v : Jenkins.Variant w} {p : Params w} (hm : Match v p)
    (i : Nat) (hi : i < 256) (s : Jenkins.Loop w) :
    concSt (Jenkins.rngstep v i hi s) = gstep p (concSt s) i :=
  (rngstep_conc hm s i hi _ _ _ (by omega) (by omega)).symm

/-! ### `generate` = `isaac()` -/

def concCore (ctx : Jenkins.Ctx w) : Core w :=
  { mem := ctx.randmem.toArray, a := ctx.randa, b := ctx.randb, c := ctx.randc }

/-- `generate` on the concretisation of a reference context, with the results buffer holding
    the reversed `randrsl`, is `isaac()`; the new buffer is the reversed new `randrsl`. -/
theorem generate_conc {v : Jenkins.Variant w} {p : Params w} (hm : Match v p) (ctx : Jenkins.Ctx w) :
    generate p (concCore ctx) ctx.randrsl.reverse.toArray
      = ((Jenkins.isaac v ctx).randrsl.reverse.toArray, concCore (Jenkins.isaac v ctx)) := by
  unfold generate
  simp only [twoHalves_eq]
  have h := fold_conc (fun _ => concSt) (gstep p) 256 (Jenkins.rngstep v)
    (fun i hi s => gstep_conc hm i hi s)
    { mm := ctx.randmem, randrsl := ctx.randrsl, a := ctx.randa, b := ctx.randb + (ctx.randc + 1) }
  simp only [concSt] at h
  simp only [concCore, ← h, Jenkins.isaac]

end Rngs.IsaacRefine
