/-
  Rngs.Lib.IsaacRefineBlocks — the reference `rand()` stream in closed form: after
  `randinit` (`randcnt = RANDSIZ`) call number `k` returns `randrsl[255 - k mod 256]` of the
  context after `k / 256` further calls of `isaac()`: each block is handed out from index
  255 down to index 0.  Facts about the specification only.
-/
import Rngs.Spec.Jenkins
namespace Rngs.IsaacRefine
open Rngs Rngs.Spec

variable {w : Nat} (v : Jenkins.Variant w)

/-- `isaac()` neither reads nor writes `randcnt` -/
theorem isaac_randcnt (ctx : Jenkins.Ctx w) (n : Nat) :
    Jenkins.isaac v { ctx with randcnt := n } = { Jenkins.isaac v ctx with randcnt := n } := by
  simp only [Jenkins.isaac]

theorem isaac_randcnt_eq (ctx : Jenkins.Ctx w) : (Jenkins.isaac v ctx).randcnt = ctx.randcnt := by
  simp only [Jenkins.isaac]

/-- inside a block: with `c` values left, call `j < c` returns `randrsl[c - 1 - j]` -/
theorem rand_within : ∀ (j c : Nat) (ctx : Jenkins.Ctx w), ctx.randcnt = c → (hc : c ≤ 256) →
    (hj : j < c) → Jenkins.rand v ctx j = ctx.randrsl[c - 1 - j]'(by show _ < 256; omega)
  | 0, c, ctx, h, hc, hj => by
    subst h
    have h0 : ¬ ctx.randcnt = 0 := by omega
    have hlt : ctx.randcnt - 1 < 256 := by omega
    simp only [Jenkins.rand, Jenkins.rand1, h0, if_false, Nat.sub_zero]
    simp [Vector.getD, hlt]
  | j + 1, c, ctx, h, hc, hj => by
    have h0 : ¬ ctx.randcnt = 0 := by omega
    simp only [Jenkins.rand, Jenkins.rand1, h0, if_false]
    rw [rand_within j (c - 1) _ (by simp only [h]) (by omega) (by omega)]
    have e : c - 1 - 1 - j = c - 1 - (j + 1) := by omega
    simp only [e]

/-- using up the `c` values that are left -/
theorem rand_skip : ∀ (c : Nat) (ctx : Jenkins.Ctx w), ctx.randcnt = c → ∀ m,
    Jenkins.rand v ctx (c + m) = Jenkins.rand v { ctx with randcnt := 0 } m
  | 0, ctx, h, m => by
    obtain ⟨cnt, rsl, mem, a, b, c⟩ := ctx
    simp only at h
    subst h
    rw [Nat.zero_add]
  | c + 1, ctx, h, m => by
    have h0 : ¬ ctx.randcnt = 0 := by omega
    have e : c + 1 + m = (c + m) + 1 := by omega
    rw [e]
    simp only [Jenkins.rand, Jenkins.rand1, h0, if_false]
    rw [rand_skip c _ (by simp only [h]; omega) m]

/-- an exhausted context behaves like the refilled one -/
theorem rand_refill (ctx : Jenkins.Ctx w) (h : ctx.randcnt = 0) (m : Nat) :
    Jenkins.rand v ctx m = Jenkins.rand v { Jenkins.isaac v ctx with randcnt := 256 } m := by
  have e : Jenkins.rand1 v ctx = Jenkins.rand1 v { Jenkins.isaac v ctx with randcnt := 256 } := by
    have h1 : ¬ (256 : Nat) = 0 := by decide
    simp only [Jenkins.rand1, h, if_true, h1, if_false, Jenkins.RANDSIZ, Nat.reduceSub]
    generalize Jenkins.isaac v ctx = c1
    simp [Vector.getD]
  cases m with
  | zero => simp only [Jenkins.rand, e]
  | succ m => simp only [Jenkins.rand, e]

/-- a full block later -/
theorem rand_next_block (ctx : Jenkins.Ctx w) (h : ctx.randcnt = 256) (m : Nat) :
    Jenkins.rand v ctx (256 + m) = Jenkins.rand v (Jenkins.isaac v ctx) m := by
  rw [rand_skip v 256 ctx h m, rand_refill v _ rfl m, isaac_randcnt]
  have e : Jenkins.isaac v ctx = { Jenkins.isaac v ctx with randcnt := 256 } := by
    have := isaac_randcnt_eq v ctx
    rw [h] at this
    generalize Jenkins.isaac v ctx = c1 at this
    obtain ⟨cnt, rsl, mem, a, b, c⟩ := c1
    simp only at this
    subst this
    rfl
  rw [← e]

theorem iter_comm {α : Type} (f : α → α) : ∀ (n : Nat) (x : α), iter f n (f x) = f (iter f n x)
  | 0, _ => rfl
  | n + 1, x => by simp only [iter, iter_comm f n x]

theorem iter_isaac_randcnt (ctx : Jenkins.Ctx w) : ∀ n, (iter (Jenkins.isaac v) n ctx).randcnt = ctx.randcnt
  | 0 => rfl
  | n + 1 => by simp only [iter]; rw [isaac_randcnt_eq, iter_isaac_randcnt ctx n]

theorem rand_block : ∀ (n : Nat) (ctx : Jenkins.Ctx w), ctx.randcnt = 256 → ∀ j (hj : j < 256),
    Jenkins.rand v ctx (256 * n + j)
      = (iter (Jenkins.isaac v) n ctx).randrsl[255 - j]'(by show _ < 256; omega)
  | 0, ctx, h, j, hj => by
    rw [Nat.mul_zero, Nat.zero_add, rand_within v j 256 ctx h (Nat.le_refl _) hj]
    rfl
  | n + 1, ctx, h, j, hj => by
    have e : 256 * (n + 1) + j = 256 + (256 * n + j) := by omega
    rw [e, rand_next_block v ctx h, rand_block n _ ((isaac_randcnt_eq v ctx).trans h) j hj]
    simp only [iter, iter_comm]

/-- Closed form of the reference stream after `randinit`: call `k` returns entry
    `255 - k mod 256` of block `k / 256`. -/
theorem rand_closed (ctx : Jenkins.Ctx w) (h : ctx.randcnt = 256) (k : Nat) :
    Jenkins.rand v ctx k
      = (iter (Jenkins.isaac v) (k / 256) ctx).randrsl[255 - k % 256]'(by show _ < 256; omega) := by
  have hj : k % 256 < 256 := Nat.mod_lt _ (by decide)
  have e : k = 256 * (k / 256) + k % 256 := (Nat.div_add_mod k 256).symm
  rw [← rand_block v (k / 256) ctx h (k % 256) hj, ← e]

end Rngs.IsaacRefine
