/-
  Rngs.Lib.IsaacRefineInit — `init p mem rounds` of the model is `randinit(flag)` of the
  reference, up to its final `isaac()` call:

    * `rounds = 2` on a key `r`  = `randinit(TRUE)` with `randrsl = r`.  The reference reads the
      key from `randrsl` and writes `randmem`; the model keeps the key in `mem` itself and
      overwrites it chunk by chunk.  Chunk `j` of pass 1 reads `mem[8j .. 8j+7]`, which at that
      moment still hold the key (only chunks `< j` have been written): `splice j m r`.
    * `rounds = 1` on the all-zero key = `randinit(FALSE)`: adding zeros changes nothing.

  Also: the zero-extended seed arrays of the model are the reference seed contexts.
-/
import Rngs.Lib.IsaacRefine
namespace Rngs.IsaacRefine
open Rngs Rngs.Isaac Rngs.Spec

variable {w : Nat}

/-! ### the model's chunk body -/

/-- the eight stores `mem[i] = a; …; mem[i+7] = h` -/
def wr8 (a : Array (BitVec w)) (i : Nat) (o : Isaac.Oct w) : Array (BitVec w) :=
  wr (wr (wr (wr (wr (wr (wr (wr a i o.a) (i+1) o.b) (i+2) o.c) (i+3) o.d) (i+4) o.e) (i+5) o.f)
    (i+6) o.g) (i+7) o.h

/-- the eight adds `a += mem[i]; …; h += mem[i+7]` -/
def add8 (o : Isaac.Oct w) (mem : Array (BitVec w)) (i : Nat) : Isaac.Oct w :=
  ⟨o.a + rd mem i, o.b + rd mem (i+1), o.c + rd mem (i+2), o.d + rd mem (i+3),
   o.e + rd mem (i+4), o.f + rd mem (i+5), o.g + rd mem (i+6), o.h + rd mem (i+7)⟩

/-- body of the inner loop of `Isaac.init` -/
def mchunk (p : Params w) (acc : Array (BitVec w) × Isaac.Oct w) (j : Nat) :
    Array (BitVec w) × Isaac.Oct w :=
  let o := p.mix (add8 acc.2 acc.1 (j * 8))
  (wr8 acc.1 (j * 8) o, o)

/-- one pass of `Isaac.init` over `mem` -/
def mpass (p : Params w) (acc : Array (BitVec w) × Isaac.Oct w) : Array (BitVec w) × Isaac.Oct w :=
  (List.range 32).foldl (mchunk p) acc

theorem init_eq (p : Params w) (mem : Array (BitVec w)) (rounds : Nat) :
    init p mem rounds =
      { mem := ((List.range rounds).foldl (fun acc _ => mpass p acc) (mem, p.golden)).1,
        a := 0, b := 0, c := 0 } := rfl

theorem init_one (p : Params w) (mem : Array (BitVec w)) :
    init p mem 1 = { mem := (mpass p (mem, p.golden)).1, a := 0, b := 0, c := 0 } := by
  have e : List.range 1 = [0] := rfl
  rw [init_eq, e]
  simp only [List.foldl_cons, List.foldl_nil]

theorem init_two (p : Params w) (mem : Array (BitVec w)) :
    init p mem 2 = { mem := (mpass p (mpass p (mem, p.golden))).1, a := 0, b := 0, c := 0 } := by
  have e : List.range 2 = [0, 1] := rfl
  rw [init_eq, e]
  simp only [List.foldl_cons, List.foldl_nil]

/-! ### stores and adds on vectors -/

theorem wr8_toArray (m : Vec w) (i : Nat) (hi : i + 7 < 256) (o : Jenkins.Oct w) :
    wr8 m.toArray i (toM o) = (Jenkins.store m i hi o).toArray := by
  unfold wr8 Jenkins.store
  rw [wr_toArray _ _ (by omega), wr_toArray _ _ (by omega), wr_toArray _ _ (by omega),
    wr_toArray _ _ (by omega), wr_toArray _ _ (by omega), wr_toArray _ _ (by omega),
    wr_toArray _ _ (by omega), wr_toArray _ _ (by omega)]
  rfl

theorem add8_toArray (o : Jenkins.Oct w) (m : Vec w) (i : Nat) (hi : i + 7 < 256) :
    add8 (toM o) m.toArray i = toM (Jenkins.addFrom o m i hi) := by
  unfold add8 Jenkins.addFrom
  rw [rd_toArray _ _ (by omega), rd_toArray _ _ (by omega), rd_toArray _ _ (by omega),
    rd_toArray _ _ (by omega), rd_toArray _ _ (by omega), rd_toArray _ _ (by omega),
    rd_toArray _ _ (by omega), rd_toArray _ _ (by omega)]
  rfl

/-- the first `8 * j` words of `m`, the rest from `r`: the model's `mem` after `j` chunks of
    the first pass -/
def splice (j : Nat) (m r : Vec w) : Vec w :=
  Vector.ofFn (fun k : Fin 256 => if k.val < 8 * j then m[k] else r[k])

theorem splice_zero (m r : Vec w) : splice 0 m r = r := by
  apply Vector.ext
  intro k hk
  simp [splice]

theorem splice_all (m r : Vec w) : splice 32 m r = m := by
  apply Vector.ext
  intro k hk
  have : k < 8 * 32 := hk
  simp [splice]

theorem store_splice (j : Nat) (hj : j < 32) (m r : Vec w) (o : Jenkins.Oct w) :
    Jenkins.store (splice j m r) (8 * j) (by show _ < 256; omega) o
      = splice (j + 1) (Jenkins.store m (8 * j) (by show _ < 256; omega) o) r := by
  apply Vector.ext
  intro k hk
  simp only [splice, Jenkins.store, Vector.getElem_ofFn, Vector.getElem_set, Fin.getElem_fin]
  grind

theorem addFrom_splice (j : Nat) (hj : j < 32) (m r : Vec w) (o : Jenkins.Oct w) :
    Jenkins.addFrom o (splice j m r) (8 * j) (by show _ < 256; omega)
      = Jenkins.addFrom o r (8 * j) (by show _ < 256; omega) := by
  have h : ∀ t (ht : 8 * j + t < 256), (splice j m r)[8 * j + t] = r[8 * j + t] := by
    intro t ht
    have : ¬ 8 * j + t < 8 * j := by omega
    simp [splice, this]
  have h0 := h 0
  simp only [Nat.add_zero] at h0
  unfold Jenkins.addFrom
  rw [h0 (by omega), h 1 (by omega), h 2 (by omega), h 3 (by omega), h 4 (by omega),
    h 5 (by omega), h 6 (by omega), h 7 (by omega)]

/-! ### the three reference loops -/

variable {v : Jenkins.Variant w} {p : Params w}

/-- stage `j` of the first pass: the model holds `splice j m r` where the reference holds
    `m` (and the untouched key `r` in `randrsl`) -/
def concSeed (r : Vec w) (j : Nat) (s : Jenkins.Oct w × Vec w) : Array (BitVec w) × Isaac.Oct w :=
  ((splice j s.2 r).toArray, toM s.1)

theorem seedPass_conc (hm : Match v p) (r : Vec w) (j : Nat) (hj : j < 32)
    (s : Jenkins.Oct w × Vec w) :
    concSeed r (j + 1) (Jenkins.seedPass v r j hj s) = mchunk p (concSeed r j s) j := by
  have hi : 8 * j + 7 < 256 := by omega
  have e : j * 8 = 8 * j := Nat.mul_comm _ _
  unfold mchunk concSeed Jenkins.seedPass
  simp only [e, add8_toArray _ _ _ hi, hm.mix, wr8_toArray _ _ hi, addFrom_splice j hj,
    store_splice j hj]

/-- second pass: the model's `mem` is the reference `randmem` -/
def concMem (s : Jenkins.Oct w × Vec w) : Array (BitVec w) × Isaac.Oct w := (s.2.toArray, toM s.1)

theorem secondPass_conc (hm : Match v p) (j : Nat) (hj : j < 32) (s : Jenkins.Oct w × Vec w) :
    concMem (Jenkins.secondPass v j hj s) = mchunk p (concMem s) j := by
  have hi : 8 * j + 7 < 256 := by omega
  have e : j * 8 = 8 * j := Nat.mul_comm _ _
  unfold mchunk concMem Jenkins.secondPass
  simp only [e, add8_toArray _ _ _ hi, hm.mix, wr8_toArray _ _ hi]

theorem addFrom_zeros (o : Jenkins.Oct w) (i : Nat) (hi : i + 7 < 256) :
    Jenkins.addFrom o Jenkins.zeros i hi = o := by
  unfold Jenkins.addFrom Jenkins.zeros
  cases o
  simp

/-- without a key: the reference's third loop is its first loop on the all-zero key -/
theorem plainPass_eq (j : Nat) (hj : j < 32) (s : Jenkins.Oct w × Vec w) :
    Jenkins.plainPass v j hj s = Jenkins.seedPass v Jenkins.zeros j hj s := by
  unfold Jenkins.plainPass Jenkins.seedPass
  simp only [addFrom_zeros]

theorem mpass_seed (hm : Match v p) (r : Vec w) (s : Jenkins.Oct w × Vec w) :
    mpass p (r.toArray, toM s.1) = concMem (Nat.fold 32 (Jenkins.seedPass v r) s) := by
  have h := fold_conc (concSeed r) (mchunk p) 32 (Jenkins.seedPass v r)
    (fun j hj s => seedPass_conc hm r j hj s) s
  simp only [concSeed, splice_zero, splice_all] at h
  exact h.symm

theorem mpass_second (hm : Match v p) (s : Jenkins.Oct w × Vec w) :
    mpass p (concMem s) = concMem (Nat.fold 32 (Jenkins.secondPass v) s) :=
  (fold_conc (fun _ => concMem) (mchunk p) 32 (Jenkins.secondPass v)
    (fun j hj s => secondPass_conc hm j hj s) s).symm

theorem fold_plainPass (s : Jenkins.Oct w × Vec w) :
    Nat.fold 32 (Jenkins.plainPass v) s = Nat.fold 32 (Jenkins.seedPass v Jenkins.zeros) s := by
  congr 1
  funext j hj s
  exact plainPass_eq j hj s

/-! ### `init` = `randinit` before its `isaac()` call -/

theorem randinitPre_false (ctx : Jenkins.Ctx w) :
    Jenkins.randinitPre v false ctx =
      { ctx with randmem := (Nat.fold 32 (Jenkins.plainPass v) (Jenkins.scrambled v, ctx.randmem)).2,
                 randa := 0, randb := 0, randc := 0 } := rfl

theorem randinitPre_true (ctx : Jenkins.Ctx w) :
    Jenkins.randinitPre v true ctx =
      { ctx with randmem := (Nat.fold 32 (Jenkins.secondPass v)
                   (Nat.fold 32 (Jenkins.seedPass v ctx.randrsl) (Jenkins.scrambled v, ctx.randmem))).2,
                 randa := 0, randb := 0, randc := 0 } := rfl

/-- two rounds on the key `ctx.randrsl` = `randinit(ctx, TRUE)` (any previous `randmem`) -/
theorem init_two_conc (hm : Match v p) (ctx : Jenkins.Ctx w) :
    init p ctx.randrsl.toArray 2 = concCore (Jenkins.randinitPre v true ctx) := by
  rw [init_two, hm.golden]
  have h1 := mpass_seed hm ctx.randrsl (Jenkins.scrambled v, ctx.randmem)
  simp only at h1
  rw [h1, mpass_second hm, randinitPre_true]
  rfl

/-- one round on the all-zero key = `randinit(ctx, FALSE)` (any previous `randmem`, `randrsl`) -/
theorem init_one_conc (hm : Match v p) (ctx : Jenkins.Ctx w) :
    init p (Jenkins.zeros (w := w)).toArray 1 = concCore (Jenkins.randinitPre v false ctx) := by
  rw [init_one, hm.golden]
  have h1 := mpass_seed hm Jenkins.zeros (Jenkins.scrambled v, ctx.randmem)
  simp only at h1
  rw [h1, randinitPre_false, fold_plainPass]
  rfl

/-! ### seeds -/

/-- the model's zero-extended seed array is the `randrsl` of the reference seed context -/
theorem extend_eq (ws : List (BitVec w)) (h : ws.length ≤ 256) (mem0 : Vec w) :
    extend ws = (Jenkins.seedCtx ws mem0).randrsl.toArray := by
  have e : List.take RAND_SIZE ws = ws := List.take_of_length_le h
  unfold extend Jenkins.seedCtx
  rw [e]
  apply Array.ext
  · simp [RAND_SIZE, Jenkins.RANDSIZ]; omega
  · intro k h1 h2
    have hk : k < 256 := by simpa using h2
    simp only [List.getElem_toArray, Vector.getElem_toArray, Vector.getElem_ofFn, RAND_SIZE]
    rw [List.getElem_append]
    by_cases hc : k < ws.length
    · simp [hc, List.getD_eq_getElem?_getD]
    · simp [hc, List.getD_eq_getElem?_getD]

theorem seedCtx_zero_randrsl (ws : List (BitVec w)) (h : ∀ x ∈ ws, x = 0) (mem0 : Vec w) :
    (Jenkins.seedCtx ws mem0).randrsl = Jenkins.zeros := by
  apply Vector.ext
  intro k hk
  simp only [Jenkins.seedCtx, Jenkins.zeros, Vector.getElem_ofFn, Vector.getElem_replicate]
  rw [List.getD_eq_getElem?_getD]
  by_cases hc : k < ws.length
  · simp [hc, h ws[k] (List.getElem_mem hc)]
  · simp [hc]

end Rngs.IsaacRefine
