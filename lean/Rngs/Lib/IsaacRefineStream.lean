/-
  Rngs.Lib.IsaacRefineStream — from blocks to streams.

    * `isaac()` does not read `randrsl` (it overwrites all 256 entries);
    * `Buf`: what `BlockRng::next_u32` and `BlockRng64::next_u64` do with an ISAAC core —
      regenerate when the buffer is used up, hand out `results[index]`, advance;
    * one `Buf.next` is one `rand()` of the reference, under the synchronisation
      `index = RANDSIZ - randcnt`, `results = reverse randrsl`, `core = context`;
    * the reference generates its first block eagerly (inside `randinit`), the Rust wrapper
      lazily (at the first request): `fresh_next`.
-/
import Rngs.Lib.IsaacRefine
namespace Rngs.IsaacRefine
open Rngs Rngs.Isaac Rngs.Spec

variable {w : Nat}

/-! ### `isaac()` overwrites `randrsl` without reading it -/

theorem fold_rel {α : Type} (R : Nat → α → α → Prop) :
    ∀ (n : Nat) (f : (i : Nat) → i < n → α → α),
      (∀ i (hi : i < n) s s', R i s s' → R (i + 1) (f i hi s) (f i hi s')) →
      ∀ s s', R 0 s s' → R n (Nat.fold n f s) (Nat.fold n f s')
  | 0, _, _, s, s', h0 => by simpa using h0
  | n + 1, f, h, s, s', h0 => by
    rw [Nat.fold_succ, Nat.fold_succ]
    exact h n (Nat.lt_succ_self n) _ _
      (fold_rel R n (fun i hi => f i (Nat.lt_succ_of_lt hi))
        (fun i hi s s' => h i (Nat.lt_succ_of_lt hi) s s') s s' h0)

/-- two loop states that agree except on `randrsl[k ..]` -/
def AgreeBelow (k : Nat) (s s' : Jenkins.Loop w) : Prop :=
  s.mm = s'.mm ∧ s.a = s'.a ∧ s.b = s'.b ∧
    ∀ j (hj : j < 256), j < k → s.randrsl[j] = s'.randrsl[j]

theorem rngstep_agree (v : Jenkins.Variant w) (i : Nat) (hi : i < 256) (s s' : Jenkins.Loop w)
    (h : AgreeBelow i s s') :
    AgreeBelow (i + 1) (Jenkins.rngstep v i hi s) (Jenkins.rngstep v i hi s') := by
  obtain ⟨mm, r, a, b⟩ := s
  obtain ⟨mm', r', a', b'⟩ := s'
  obtain ⟨h1, h2, h3, h4⟩ := h
  simp only at h1 h2 h3 h4
  subst h1 h2 h3
  refine ⟨rfl, rfl, rfl, ?_⟩
  intro j hj hlt
  simp only [Jenkins.rngstep, Vector.getElem_set]
  by_cases hc : i = j
  · simp [hc]
  · simp only [hc, if_false]
    exact h4 j hj (by omega)

theorem isaac_randrsl_irrel (v : Jenkins.Variant w) (ctx : Jenkins.Ctx w) (r : Vec w) :
    Jenkins.isaac v { ctx with randrsl := r } = Jenkins.isaac v ctx := by
  have h := fold_rel AgreeBelow 256 (Jenkins.rngstep v) (rngstep_agree v)
    { mm := ctx.randmem, randrsl := r, a := ctx.randa, b := ctx.randb + (ctx.randc + 1) }
    { mm := ctx.randmem, randrsl := ctx.randrsl, a := ctx.randa, b := ctx.randb + (ctx.randc + 1) }
    ⟨rfl, rfl, rfl, fun j _ hlt => absurd hlt (Nat.not_lt_zero j)⟩
  obtain ⟨h1, h2, h3, h4⟩ := h
  have h5 := Vector.ext (fun j hj => h4 j hj hj)
  unfold Jenkins.isaac
  simp only [h1, h2, h3, h5]

/-- `generate` with an arbitrary 256-word results buffer -/
theorem generate_conc_any {v : Jenkins.Variant w} {p : Params w} (hm : Match v p)
    (ctx : Jenkins.Ctx w) (res : Array (BitVec w)) (hres : res.size = 256) :
    generate p (concCore ctx) res
      = ((Jenkins.isaac v ctx).randrsl.reverse.toArray, concCore (Jenkins.isaac v ctx)) := by
  have h := generate_conc hm { ctx with randrsl := (Vector.mk res hres).reverse }
  rw [isaac_randrsl_irrel] at h
  simpa [concCore] using h

/-! ### the buffering layer, common to `BlockRng` and `BlockRng64` -/

/-- the part of `BlockRng<IsaacCore>` / `BlockRng64<Isaac64Core>` that `next_u32` resp.
    `next_u64` use -/
structure Buf (w : Nat) where
  results : Array (BitVec w)
  index : Nat
  core : Core w

/-- `if index >= len { generate; index = 0 }; value = results[index]; index += 1` -/
def Buf.next (p : Params w) (b : Buf w) : BitVec w × Buf w :=
  let b : Buf w :=
    if b.index ≥ 256 then
      { results := (generate p b.core b.results).1, index := 0, core := (generate p b.core b.results).2 }
    else b
  (rd b.results b.index, { b with index := b.index + 1 })

/-- the `k`-th value (0-based) produced by iterating a state-passing `next` -/
def stream {σ α : Type} (next : σ → α × σ) : σ → Nat → α
  | s, 0 => (next s).1
  | s, k + 1 => stream next (next s).2 k

theorem stream_view {σ τ α : Type} (next : σ → α × σ) (next' : τ → α × τ) (view : σ → τ)
    (h : ∀ s, (next s).1 = (next' (view s)).1 ∧ view (next s).2 = (next' (view s)).2) :
    ∀ (k : Nat) (s : σ), stream next s k = stream next' (view s) k
  | 0, s => (h s).1
  | k + 1, s => by
    simp only [stream]
    rw [stream_view next next' view h k, (h s).2]

def view32 (r : BlockRng (Core 32)) : Buf 32 := ⟨r.results, r.index, r.core⟩
def view64 (r : BlockRng64 (Core 64)) : Buf 64 := ⟨r.results, r.index, r.core⟩

theorem nextU32_view (r : BlockRng (Core 32)) :
    (BlockRng.nextU32 blockCore32 r).1 = (Buf.next params32 (view32 r)).1 ∧
      view32 (BlockRng.nextU32 blockCore32 r).2 = (Buf.next params32 (view32 r)).2 := by
  unfold BlockRng.nextU32 Buf.next BlockRng.generateAndSet view32 blockCore32
  simp only [RAND_SIZE]
  by_cases h : r.index ≥ 256
  · simp only [h, if_true, and_self]
  · simp only [h, if_false, and_self]

theorem nextU64_view (r : BlockRng64 (Core 64)) :
    (BlockRng64.nextU64 blockCore64 r).1 = (Buf.next params64 (view64 r)).1 ∧
      view64 (BlockRng64.nextU64 blockCore64 r).2 = (Buf.next params64 (view64 r)).2 := by
  unfold BlockRng64.nextU64 Buf.next view64 blockCore64
  simp only [RAND_SIZE]
  by_cases h : r.index ≥ 256
  · simp only [h, if_true, and_self]
  · simp only [h, if_false, and_self]

/-! ### one `Buf.next` is one `rand()` -/

variable {v : Jenkins.Variant w} {p : Params w}

/-- buffer and reference context describe the same point of the stream -/
structure Sync (b : Buf w) (ctx : Jenkins.Ctx w) : Prop where
  cnt : ctx.randcnt ≤ 256
  index : b.index = 256 - ctx.randcnt
  results : b.results = ctx.randrsl.reverse.toArray
  core : b.core = concCore ctx

theorem rd_reverse (r : Vec w) (k : Nat) (hk : k < 256) :
    rd r.reverse.toArray k = r[255 - k] := by
  rw [rd_toArray _ _ hk, Vector.getElem_reverse hk]

theorem sync_next (hm : Match v p) (b : Buf w) (ctx : Jenkins.Ctx w) (h : Sync b ctx) :
    (Buf.next p b).1 = (Jenkins.rand1 v ctx).1 ∧ Sync (Buf.next p b).2 (Jenkins.rand1 v ctx).2 := by
  obtain ⟨results, index, core⟩ := b
  obtain ⟨hc, hi, hr, hk⟩ := h
  simp only at hi hr hk
  subst hi hr hk
  unfold Buf.next Jenkins.rand1
  by_cases h0 : ctx.randcnt = 0
  · simp only [h0, ge_iff_le, Nat.le_refl, if_true, generate_conc hm, Jenkins.RANDSIZ, Nat.reduceSub,
      Nat.sub_zero]
    generalize Jenkins.isaac v ctx = c1
    refine ⟨?_, ?_⟩
    · exact rd_reverse _ 0 (Nat.zero_lt_succ 255)
    · refine ⟨?_, ?_, ?_, ?_⟩
      · exact Nat.le_succ 255
      · simp only
      · rfl
      · rfl
  · have hlt : ¬ 256 - ctx.randcnt ≥ 256 := by omega
    simp only [h0, hlt, if_false]
    refine ⟨?_, ?_⟩
    · rw [rd_reverse _ _ (by omega)]
      have e : 255 - (256 - ctx.randcnt) = ctx.randcnt - 1 := by omega
      have hlt' : ctx.randcnt - 1 < 256 := by omega
      simp [e, Vector.getD, hlt']
    · refine ⟨by simp only; omega, ?_, rfl, rfl⟩
      simp only
      omega

theorem sync_stream (hm : Match v p) :
    ∀ (k : Nat) (b : Buf w) (ctx : Jenkins.Ctx w), Sync b ctx →
      stream (Buf.next p) b k = Jenkins.rand v ctx k
  | 0, b, ctx, h => (sync_next hm b ctx h).1
  | k + 1, b, ctx, h => by
    simp only [stream, Jenkins.rand]
    exact sync_stream hm k _ _ (sync_next hm b ctx h).2

/-- a freshly constructed wrapper: empty buffer (`index = len`), nothing generated yet -/
def fresh (core : Core w) : Buf w := ⟨Array.replicate 256 0, 256, core⟩

/-- the first request on a fresh wrapper around the pre-`isaac()` state of `randinit`
    against the first `rand()` after `randinit` -/
theorem fresh_next (hm : Match v p) (flag : Bool) (ctx : Jenkins.Ctx w) :
    (Buf.next p (fresh (concCore (Jenkins.randinitPre v flag ctx)))).1
        = (Jenkins.rand1 v (Jenkins.randinit v flag ctx)).1 ∧
      Sync (Buf.next p (fresh (concCore (Jenkins.randinitPre v flag ctx)))).2
        (Jenkins.rand1 v (Jenkins.randinit v flag ctx)).2 := by
  unfold Buf.next Jenkins.rand1 Jenkins.randinit fresh
  have hge : (256 : Nat) ≥ 256 := Nat.le_refl _
  have hne : ¬ (Jenkins.RANDSIZ = 0) := by decide
  simp only [hge, if_true, hne, if_false, generate_conc_any hm _ _ (Array.size_replicate ..),
    Jenkins.RANDSIZ, Nat.reduceSub]
  generalize Jenkins.isaac v (Jenkins.randinitPre v flag ctx) = c1
  refine ⟨?_, ?_⟩
  · rw [rd_reverse _ 0 (Nat.zero_lt_succ 255)]
    simp [Vector.getD]
  · refine ⟨?_, ?_, ?_, ?_⟩
    · exact Nat.le_succ 255
    · simp only
    · rfl
    · rfl

/-- the whole stream of a fresh wrapper is the reference stream after `randinit` -/
theorem fresh_stream (hm : Match v p) (flag : Bool) (ctx : Jenkins.Ctx w) (k : Nat) :
    stream (Buf.next p) (fresh (concCore (Jenkins.randinitPre v flag ctx))) k
      = Jenkins.rand v (Jenkins.randinit v flag ctx) k := by
  cases k with
  | zero => exact (fresh_next hm flag ctx).1
  | succ k =>
    simp only [stream, Jenkins.rand]
    exact sync_stream hm k _ _ (fresh_next hm flag ctx).2

theorem view32_new (core : Core 32) : view32 (BlockRng.new blockCore32 core) = fresh core := rfl
theorem view64_new (core : Core 64) : view64 (BlockRng64.new blockCore64 core) = fresh core := rfl

end Rngs.IsaacRefine
