/-
  Rngs.Lib.JitterEntropyLemmas — helper lemmas for `Rngs.Extra.JitterEntropy`:

  * words: `signExtend 64` is injective on 32-bit deltas, `trunc32` commutes with `-`, the lowest bit of
    a difference;
  * `absorb` (one measurement folded into the pool) is a bijection of the pool and, for a fixed stuck
    verdict, injective in the delta; hence the fold over a list of measurements is injective in every
    single delta;
  * `usedMeas` / `output`: the measurements one collection consumes and the value it returns, and
    `genEntropy_eq_used` (from `JitterRefine.genEntropy_eq`);
  * `measFrom` over appended reading lists, deltas depend on the previous time stamp only;
  * prefix determinacy of `collect` / `genEntropy` (the result depends on the consumed readings only);
  * the stuck test on delta histories (constant deltas, arithmetic progressions).
-/
import Rngs.Lib.JitterRefine
import Rngs.Lib.PoolMeasure
namespace Rngs.JitterEntropy
open Rngs Rngs.Spec Rngs.JitterRefine
open JitterProc (Meas trunc32 sext64 absorb untilAccepted measurements)

/-! ## words -/

theorem trunc_sext (x : U32) : (x.signExtend 64).setWidth 32 = x := by
  apply BitVec.eq_of_getLsbD_eq
  intro i hi
  simp [BitVec.getLsbD_signExtend, hi]
  omega

/-- `d as u64` (sign extension) loses nothing -/
theorem sext_injective : Function.Injective (fun d : U32 => d.signExtend 64) := fun a b h => by
  have := congrArg (fun x : U64 => x.setWidth 32) h
  simpa only [trunc_sext] using this

theorem sub_eq_zero_iff {n : Nat} (a b : BitVec n) : a - b = 0 ↔ a = b := by
  rw [BitVec.sub_eq_iff_eq_add]; simp

theorem trunc_sub (a b : U64) : (a - b).setWidth 32 = (a.setWidth 32 - b.setWidth 32 : U32) := by
  apply BitVec.eq_of_toNat_eq
  simp only [BitVec.toNat_setWidth, BitVec.toNat_sub]
  omega

/-- two time stamps give the same 32-bit delta against the same previous time stamp iff they agree
    in their low 32 bits -/
theorem delta_eq_iff (p t t' : U64) :
    (t - p).setWidth 32 = ((t' - p).setWidth 32 : U32) ↔ (t.setWidth 32 : U32) = t'.setWidth 32 := by
  rw [trunc_sub, trunc_sub]
  constructor
  · intro h
    have := congrArg (fun x : U32 => x + p.setWidth 32) h
    simpa only [BitVec.sub_add_cancel] using this
  · intro h; rw [h]

/-! ## one measurement folded into the pool -/

theorem absorb_eq (p : U64) (m : Meas) :
    absorb p m = if m.stuck then Jitter.lfsr p (m.delta.signExtend 64)
      else (Jitter.lfsr p (m.delta.signExtend 64)).rotateLeft 7 := by
  unfold JitterProc.absorb JitterProc.sext64
  rw [← lfsr_eq]

/-- for every measurement, folding it into the pool is a bijection of the pool -/
theorem absorb_bijective (m : Meas) : Function.Bijective (fun p => absorb p m) := by
  have h : (fun p => absorb p m) = fun p => if m.stuck then Jitter.lfsr p (m.delta.signExtend 64)
      else (Jitter.lfsr p (m.delta.signExtend 64)).rotateLeft 7 := funext fun p => absorb_eq p m
  rw [h]
  cases m.stuck
  · exact PoolJitter.rotate7_bijective.comp (PoolJitter.lfsr_bijective_in_pool _)
  · exact PoolJitter.lfsr_bijective_in_pool _

/-- with the same stuck verdict, two measurements leave the same pool iff their deltas are equal -/
theorem absorb_eq_iff (p : U64) (d d' : U32) (s : Bool) :
    absorb p ⟨d, s⟩ = absorb p ⟨d', s⟩ ↔ d = d' := by
  constructor
  · intro h
    rw [absorb_eq, absorb_eq] at h
    cases s
    · exact sext_injective ((PoolJitter.lfsr_bijective_in_time p).1 (PoolJitter.rotate7_bijective.1 h))
    · exact sext_injective ((PoolJitter.lfsr_bijective_in_time p).1 h)
  · intro h; rw [h]

theorem foldl_absorb_bijective (ms : List Meas) : Function.Bijective (fun p => ms.foldl absorb p) := by
  induction ms with
  | nil => exact Function.bijective_id
  | cons m ms ih => exact ih.comp (absorb_bijective m)

/-- the fold over a list of measurements is injective in every single delta -/
theorem foldl_absorb_eq_iff (p : U64) (pre post : List Meas) (d d' : U32) (s : Bool) :
    (pre ++ ⟨d, s⟩ :: post).foldl absorb p = (pre ++ ⟨d', s⟩ :: post).foldl absorb p ↔ d = d' := by
  simp only [List.foldl_append, List.foldl_cons]
  rw [(foldl_absorb_bijective post).1.eq_iff, absorb_eq_iff]

/-! ## the measurements one collection consumes, and the value it returns -/

/-- the measurements a collection with `rounds` rounds consumes: the priming one and the shortest
    run of further ones that contains `rounds` accepted measurements -/
def usedMeas (rounds : Nat) (rs : List U64) : Option (List Meas) :=
  match measurements rs with
  | [] => none
  | prime :: ms => (untilAccepted rounds ms).map (prime :: ·)

/-- the value returned: every consumed measurement folded into the pool, then stirred -/
def output (pool : U64) (used : List Meas) : U64 := Jitter.stir (used.foldl absorb pool)

theorem collect_eq_used (pool : U64) (rounds : Nat) (rs : List U64) :
    JitterProc.collect pool rounds rs =
      (usedMeas rounds rs).map fun used => (output pool used, rs.drop (1 + 3 * used.length)) := by
  unfold JitterProc.collect usedMeas output
  rcases measurements rs with _ | ⟨prime, ms⟩
  · rfl
  · simp only [Option.map_map]
    congr 1
    funext taken
    simp [stir_eq, Nat.add_comm]

/-- `gen_entropy` = `output` of the consumed measurements; `1 + 3·(number consumed)` readings -/
theorem genEntropy_eq_used (j : Jitter.Rng) (rs : List U64) :
    (Jitter.genEntropy j rs).map (fun r => (r.1.1, r.2)) =
      (usedMeas j.rounds rs).map fun used => (output j.data used, rs.drop (1 + 3 * used.length)) := by
  have h := genEntropy_eq j rs
  rw [collect_eq_used] at h
  have h2 := congrArg (Option.map fun r : U64 × JitterProc.St × List U64 => (r.1, r.2.2)) h
  simpa [Option.map_map, Function.comp_def] using h2

theorem usedMeas_length (rounds : Nat) (rs : List U64) (used : List Meas)
    (h : usedMeas rounds rs = some used) :
    used = (measurements rs).take used.length ∧ 1 + 3 * used.length ≤ rs.length ∧ 1 ≤ used.length := by
  unfold usedMeas at h
  have hl := measurements_length rs
  rcases hm : measurements rs with _ | ⟨prime, ms⟩
  · rw [hm] at h; cases h
  · rw [hm] at h hl
    dsimp only at h
    rcases ht : untilAccepted rounds ms with _ | taken
    · rw [ht] at h; cases h
    · rw [ht] at h
      cases h
      obtain ⟨h1, h2, _⟩ := untilAccepted_some ms rounds taken ht
      have hl := hl (by simp)
      simp only [List.length_cons] at hl ⊢
      refine ⟨by rw [List.take_succ_cons, ← h1], by omega, by omega⟩

/-! ## the result depends on the consumed readings only -/

/-- the accepted-measurement loop: the readings left over are a suffix; the consumed prefix alone —
    followed by anything, with any sufficient fuel — gives the same result -/
theorem collect_prefix : ∀ (fuel need : Nat) (j : Jitter.Rng) (ec : Jitter.Ec) (rs : List U64)
    (r : Jitter.Rng × Jitter.Ec) (rest : List U64),
    Jitter.collect fuel need j ec rs = some (r, rest) →
    ∃ used, rs = used ++ rest ∧
      ∀ fuel' ext, used.length < fuel' → Jitter.collect fuel' need j ec (used ++ ext) = some (r, ext)
  | fuel, 0, j, ec, rs, r, rest, h => by
    rw [PoolJitter.collect_zero] at h
    cases h
    exact ⟨[], rfl, fun fuel' ext _ => PoolJitter.collect_zero fuel' j ec ext⟩
  | 0, need + 1, j, ec, rs, r, rest, h => by cases h
  | fuel + 1, need + 1, j, ec, rs, r, rest, h => by
    rw [PoolJitter.collect_succ] at h
    match rs, h with
    | [], h => cases h
    | [_], h => cases h
    | [_, _], h => cases h
    | r0 :: t :: r2 :: rest0, h =>
      rw [PoolJitter.measureJitter_cons3, Option.bind_some] at h
      dsimp only at h
      cases hs : (PoolJitter.stuckOf ec t).1
      · rw [hs] at h
        simp only [Bool.not_false, if_true] at h
        obtain ⟨used, hu, hrun⟩ := collect_prefix fuel need _ _ rest0 r rest h
        refine ⟨r0 :: t :: r2 :: used, by rw [hu]; rfl, fun fuel' ext hf => ?_⟩
        obtain ⟨f, rfl⟩ : ∃ f, fuel' = f + 1 := ⟨fuel' - 1, by omega⟩
        rw [PoolJitter.collect_succ]
        show (Jitter.measureJitter j ec (r0 :: t :: r2 :: (used ++ ext))).bind _ = _
        rw [PoolJitter.measureJitter_cons3, Option.bind_some]
        dsimp only
        rw [hs]
        simp only [Bool.not_false, if_true]
        exact hrun f ext (by simp only [List.length_cons] at hf; omega)
      · rw [hs] at h
        simp only [Bool.not_true, Bool.false_eq_true, if_false] at h
        obtain ⟨used, hu, hrun⟩ := collect_prefix fuel (need + 1) _ _ rest0 r rest h
        refine ⟨r0 :: t :: r2 :: used, by rw [hu]; rfl, fun fuel' ext hf => ?_⟩
        obtain ⟨f, rfl⟩ : ∃ f, fuel' = f + 1 := ⟨fuel' - 1, by omega⟩
        rw [PoolJitter.collect_succ]
        show (Jitter.measureJitter j ec (r0 :: t :: r2 :: (used ++ ext))).bind _ = _
        rw [PoolJitter.measureJitter_cons3, Option.bind_some]
        dsimp only
        rw [hs]
        simp only [Bool.not_true, Bool.false_eq_true, if_false]
        exact hrun f ext (by simp only [List.length_cons] at hf; omega)

/-- `gen_entropy`: the readings left over are a suffix of the readings, and the consumed prefix
    alone, followed by any other readings, gives the same value and the same new state -/
theorem genEntropy_prefix (j : Jitter.Rng) (rs : List U64) (r : U64 × Jitter.Rng) (rest : List U64)
    (h : Jitter.genEntropy j rs = some (r, rest)) :
    ∃ used, rs = used ++ rest ∧ ∀ ext, Jitter.genEntropy j (used ++ ext) = some (r, ext) := by
  match rs, h with
  | [], h => cases h
  | [_], h => cases h
  | [_, _], h => cases h
  | [_, _, _], h => cases h
  | t0 :: r0 :: t :: r2 :: rest0, h =>
    rw [PoolJitter.genEntropy_cons, PoolJitter.measureJitter_cons3, Option.bind_some] at h
    dsimp only at h
    rcases hc : Jitter.collect (rest0.length + 1) j.rounds
        { data := PoolJitter.poolStep ⟨t0, 0, 0⟩ t j.data, rounds := j.rounds,
          memPrevIndex := PoolJitter.memIdx j r0, halfUsed := j.halfUsed }
        (PoolJitter.stuckOf ⟨t0, 0, 0⟩ t).2 rest0 with _ | ⟨q, rest1⟩
    · rw [hc] at h; cases h
    · rw [hc, Option.bind_some] at h
      cases h
      obtain ⟨used, hu, hrun⟩ := collect_prefix _ _ _ _ _ _ _ hc
      refine ⟨t0 :: r0 :: t :: r2 :: used, by rw [hu]; rfl, fun ext => ?_⟩
      show Jitter.genEntropy j (t0 :: r0 :: t :: r2 :: (used ++ ext)) = _
      rw [PoolJitter.genEntropy_cons, PoolJitter.measureJitter_cons3, Option.bind_some]
      dsimp only
      rw [hrun ((used ++ ext).length + 1) ext (by simp; omega)]
      rfl

/-! ## measurements of appended reading lists -/

/-- the collector state after the complete measurements contained in a reading list -/
def ecAfter : Jitter.Ec → List U64 → Jitter.Ec
  | ec, _ :: t :: _ :: rest => ecAfter (step ec t).2 rest
  | ec, _ => ec

theorem measFrom_append : ∀ (ec : Jitter.Ec) (a b : List U64), a.length % 3 = 0 →
    measFrom ec (a ++ b) = measFrom ec a ++ measFrom (ecAfter ec a) b
  | ec, [], b, _ => rfl
  | ec, [_], b, h => by simp at h
  | ec, [_, _], b, h => by simp at h
  | ec, x :: t :: y :: a, b, h => by
    have h' : a.length % 3 = 0 := by simp only [List.length_cons] at h; omega
    simp only [List.cons_append, measFrom, ecAfter, measFrom_append (step ec t).2 a b h']

theorem measFrom_length_eq : ∀ (ec : Jitter.Ec) (a : List U64), (measFrom ec a).length = a.length / 3
  | ec, [] => by simp [measFrom]
  | ec, [_] => by simp [measFrom]
  | ec, [_, _] => by simp [measFrom]
  | ec, x :: t :: y :: a => by
    simp only [measFrom, List.length_cons, measFrom_length_eq (step ec t).2 a]; omega

/-- the deltas depend on the previous time stamp only (not on the delta history) -/
theorem measFrom_delta_congr : ∀ (ec ec' : Jitter.Ec) (rs : List U64), ec.prevTime = ec'.prevTime →
    (measFrom ec rs).map (·.delta) = (measFrom ec' rs).map (·.delta)
  | ec, ec', [], _ => rfl
  | ec, ec', [_], _ => rfl
  | ec, ec', [_, _], _ => rfl
  | ec, ec', x :: t :: y :: a, h => by
    simp only [measFrom, List.map_cons]
    rw [measFrom_delta_congr (step ec t).2 (step ec' t).2 a rfl]
    simp only [step, h]

theorem meas_ext : ∀ (l l' : List Meas), l.map (·.delta) = l'.map (·.delta) →
    l.map (·.stuck) = l'.map (·.stuck) → l = l'
  | [], [], _, _ => rfl
  | [], _ :: _, h, _ => by simp at h
  | _ :: _, [], h, _ => by simp at h
  | ⟨d, s⟩ :: l, ⟨d', s'⟩ :: l', h1, h2 => by
    simp only [List.map_cons, List.cons.injEq] at h1 h2
    rw [meas_ext l l' h1.2 h2.2]
    obtain ⟨rfl, _⟩ := h1
    obtain ⟨rfl, _⟩ := h2
    rfl

/-- the deltas of the measurements are the spec's `deltas` of the time stamps -/
theorem zipWith_delta : ∀ (ds : List U32) (fl : List Bool), ds.length ≤ fl.length →
    (List.zipWith Meas.mk ds fl).map (·.delta) = ds
  | [], _, _ => by simp
  | _ :: _, [], h => by simp at h
  | d :: ds, f :: fl, h => by
    simp only [List.zipWith_cons_cons, List.map_cons, zipWith_delta ds fl (by simpa using h)]

theorem measurements_delta (rs : List U64) :
    (measurements rs).map (·.delta) = JitterProc.deltas (JitterProc.times rs) := by
  unfold JitterProc.measurements
  apply zipWith_delta
  simp [JitterProc.stuckFlags, JitterProc.firstDiffs, JitterProc.secondDiffs]

/-- the last measurement taken by the rounds loop is an accepted one -/
theorem untilAccepted_last : ∀ (ms : List Meas) (n : Nat) (l : List Meas),
    untilAccepted (n + 1) ms = some l → ∃ l0 m, l = l0 ++ [m] ∧ m.stuck = false
  | [], n, l, h => by simp [untilAccepted] at h
  | m :: ms, n, l, h => by
    rw [untilAccepted_succ_cons] at h
    rcases h0 : untilAccepted (if m.stuck then n + 1 else n) ms with _ | l1
    · simp [h0] at h
    · rw [h0] at h
      cases h
      cases hs : m.stuck
      · rw [hs] at h0
        simp only [Bool.false_eq_true, if_false] at h0
        rcases n with _ | n
        · rw [untilAccepted_zero] at h0
          cases h0
          exact ⟨[], m, rfl, hs⟩
        · obtain ⟨l0, m', rfl, hm⟩ := untilAccepted_last ms n l1 h0
          exact ⟨m :: l0, m', rfl, hm⟩
      · rw [hs] at h0
        simp only [if_true] at h0
        obtain ⟨l0, m', rfl, hm⟩ := untilAccepted_last ms n l1 h0
        exact ⟨m :: l0, m', rfl, hm⟩

/-! ## the stuck test -/

/-- `EcState::stuck`, readable: the delta is zero, or equals the previous delta, or the first
    difference `last − current` repeats the previous first difference -/
theorem stuck_fst_iff (ec : Jitter.Ec) (d : U32) :
    (Jitter.stuck ec d).1 = true ↔ d = 0 ∨ d = ec.lastDelta ∨ ec.lastDelta - d = ec.lastDelta2 := by
  simp only [Jitter.stuck, Bool.or_eq_true, beq_iff_eq, sub_eq_zero_iff, or_assoc]
  constructor
  · rintro (h | h | h)
    · exact .inl h
    · exact .inr (.inl h.symm)
    · exact .inr (.inr h)
  · rintro (h | h | h)
    · exact .inl h
    · exact .inr (.inl h.symm)
    · exact .inr (.inr h)

theorem stuck_snd (ec : Jitter.Ec) (d : U32) :
    (Jitter.stuck ec d).2 = ⟨ec.prevTime, d, ec.lastDelta - d⟩ := rfl

theorem sub_sub_eq_zero_iff (d0 d1 d2 : U32) :
    (d1 - d2) - (d0 - d1) = 0 ↔ d2 - d1 = d1 - d0 := by
  rw [sub_eq_zero_iff]
  constructor <;> intro h <;> bv_omega

/-- every element exceeds its predecessor by `b` (wrapping 32-bit arithmetic): an arithmetic
    progression; `StepBy 0` = all elements equal -/
def StepBy (b : U32) : List U32 → Prop
  | x :: y :: rest => y - x = b ∧ StepBy b (y :: rest)
  | _ => True

instance (b : U32) : ∀ l, Decidable (StepBy b l)
  | [] => isTrue trivial
  | [_] => isTrue trivial
  | x :: y :: rest =>
    have := instDecidableStepBy b (y :: rest)
    inferInstanceAs (Decidable (y - x = b ∧ StepBy b (y :: rest)))

theorem StepBy.tail {b : U32} : ∀ {l : List U32}, StepBy b l → StepBy b l.tail
  | [], _ => trivial
  | [_], _ => trivial
  | _ :: _ :: _, h => h.2

theorem step_fst_delta (ec : Jitter.Ec) (t : U64) : (step ec t).1.delta = trunc32 (t - ec.prevTime) := rfl
theorem step_snd (ec : Jitter.Ec) (t : U64) :
    (step ec t).2 = ⟨t, (step ec t).1.delta, ec.lastDelta - (step ec t).1.delta⟩ := rfl
theorem step_fst_stuck (ec : Jitter.Ec) (t : U64) :
    (step ec t).1.stuck = ((step ec t).1.delta == 0 || ec.lastDelta - (step ec t).1.delta == 0 ||
      ec.lastDelta - (step ec t).1.delta - ec.lastDelta2 == 0) := rfl

/-- the spec's stuck flag is the model's `stuck` -/
theorem step_eq_stuck (ec : Jitter.Ec) (t : U64) :
    ((step ec t).1.stuck, (step ec t).2) =
      Jitter.stuck { ec with prevTime := t } ((t - ec.prevTime).setWidth 32) := rfl

/-- once the first difference has been `b` twice in a row, and stays `b`, every further measurement is stuck -/
theorem measFrom_stuck_of_stepBy (b : U32) : ∀ (ec : Jitter.Ec) (rs : List U64),
    ec.lastDelta2 = 0 - b → StepBy b (ec.lastDelta :: (measFrom ec rs).map (·.delta)) →
    ∀ m ∈ measFrom ec rs, m.stuck = true
  | ec, [], _, _ => by simp [measFrom]
  | ec, [_], _, _ => by simp [measFrom]
  | ec, [_, _], _, _ => by simp [measFrom]
  | ec, x :: t :: y :: a, h2, hs => by
    simp only [measFrom, List.map_cons] at hs ⊢
    obtain ⟨hb, hs'⟩ := hs
    have he : ec.lastDelta - (step ec t).1.delta = 0 - b := by bv_omega
    intro m hm
    rcases List.mem_cons.mp hm with rfl | hm
    · rw [step_fst_stuck, he, h2, BitVec.sub_self]; simp
    · exact measFrom_stuck_of_stepBy b (step ec t).2 a (by rw [step_snd]; exact he)
        (by rw [step_snd]; exact hs') m hm

/-- if the previous delta was `d` and every further delta is `d`, every further measurement is stuck -/
theorem measFrom_stuck_of_const (d : U32) : ∀ (ec : Jitter.Ec) (rs : List U64),
    ec.lastDelta = d → (∀ m ∈ measFrom ec rs, m.delta = d) → ∀ m ∈ measFrom ec rs, m.stuck = true
  | ec, [], _, _ => by simp [measFrom]
  | ec, [_], _, _ => by simp [measFrom]
  | ec, [_, _], _, _ => by simp [measFrom]
  | ec, x :: t :: y :: a, hl, hd => by
    simp only [measFrom, List.mem_cons, forall_eq_or_imp] at hd ⊢
    refine ⟨?_, measFrom_stuck_of_const d (step ec t).2 a (by rw [step_snd]; exact hd.1) hd.2⟩
    rw [step_fst_stuck, hd.1, hl, BitVec.sub_self]; simp

theorem accepted_eq_zero (l : List Meas) (h : ∀ m ∈ l, m.stuck = true) : accepted l = 0 := by
  unfold accepted
  rw [List.countP_eq_zero]
  intro m hm
  simp [h m hm]

theorem stepBy_zero_iff : ∀ (d : U32) (l : List U32), StepBy 0 (d :: l) ↔ ∀ x ∈ l, x = d
  | d, [] => by simp [StepBy]
  | d, y :: l => by
    simp only [StepBy, sub_eq_zero_iff, List.mem_cons, forall_eq_or_imp, stepBy_zero_iff y l]
    constructor
    · rintro ⟨rfl, h⟩; exact ⟨rfl, h⟩
    · rintro ⟨rfl, h⟩; exact ⟨rfl, h⟩


/-- the 32-bit deltas a collection computes from a reading list -/
def deltaSeq (rs : List U64) : List U32 := (measurements rs).map (·.delta)

/-- equal deltas: every measurement after the first one is stuck -/
theorem stuck_from_second (rs : List U64) (h : StepBy 0 (deltaSeq rs)) :
    ∀ m ∈ (measurements rs).tail, m.stuck = true := by
  unfold deltaSeq at h
  match rs, h with
  | [], _ => simp [measurements_nil]
  | [_], _ => simp [measurements_cons, measFrom]
  | [_, _], _ => simp [measurements_cons, measFrom]
  | [_, _, _], _ => simp [measurements_cons, measFrom]
  | t0 :: x :: t :: y :: a, h =>
    rw [measurements_cons] at h ⊢
    simp only [measFrom, List.map_cons, List.tail_cons] at h ⊢
    rw [stepBy_zero_iff] at h
    exact measFrom_stuck_of_const _ _ a rfl (fun m hm => h _ (List.mem_map_of_mem hm))

/-- deltas in arithmetic progression: every measurement after the second one is stuck -/
theorem stuck_from_third (b : U32) (rs : List U64) (h : StepBy b (deltaSeq rs)) :
    ∀ m ∈ (measurements rs).drop 2, m.stuck = true := by
  unfold deltaSeq at h
  match rs, h with
  | [], _ => simp [measurements_nil]
  | [_], _ => simp [measurements_cons, measFrom]
  | [_, _], _ => simp [measurements_cons, measFrom]
  | [_, _, _], _ => simp [measurements_cons, measFrom]
  | [_, _, _, _], _ => simp [measurements_cons, measFrom]
  | [_, _, _, _, _], _ => simp [measurements_cons, measFrom]
  | [_, _, _, _, _, _], _ => simp [measurements_cons, measFrom]
  | t0 :: x :: t :: y :: x2 :: t2 :: y2 :: a, h =>
    rw [measurements_cons] at h ⊢
    simp only [measFrom, List.map_cons, List.drop_succ_cons, List.drop_zero] at h ⊢
    obtain ⟨hb, hs⟩ := h
    refine measFrom_stuck_of_stepBy b _ a ?_ hs
    show (step ⟨t0, 0, 0⟩ t).1.delta - (step (step ⟨t0, 0, 0⟩ t).2 t2).1.delta = 0 - b
    generalize (step (step ⟨t0, 0, 0⟩ t).2 t2).1.delta = d2 at hb ⊢
    generalize (step ⟨t0, 0, 0⟩ t).1.delta = d1 at hb ⊢
    bv_omega

/-- the rounds loop makes no progress on measurements that are all stuck (whatever the fuel) -/
theorem collect_none_of_stuck : ∀ (fuel need : Nat) (j : Jitter.Rng) (ec : Jitter.Ec) (rs : List U64),
    (∀ m ∈ measFrom ec rs, m.stuck = true) → Jitter.collect fuel (need + 1) j ec rs = none
  | 0, _, _, _, _, _ => rfl
  | fuel + 1, need, j, ec, rs, h => by
    rw [JitterRefine.collect_succ]
    match rs, h with
    | [], _ => rfl
    | [_], _ => rfl
    | [_, _], _ => rfl
    | x :: t :: y :: a, h =>
      obtain ⟨mp, hm⟩ := measureJitter_cons j ec x t y a
      simp only [measFrom, List.mem_cons, forall_eq_or_imp] at h
      rw [hm, Option.bind_some, h.1]
      simp only [Bool.not_true, Bool.false_eq_true, if_false]
      exact collect_none_of_stuck fuel need _ _ a h.2

/-! ## scripted timers -/

/-- time stamps whose increments grow by `b` per reading: `t, t+d, t+2d+b, t+3d+3b, …`
    (`b = 0`: a timer advancing by the constant step `d`) -/
def quadraticTimes (t d b : U64) : Nat → List U64
  | 0 => []
  | n + 1 => t :: quadraticTimes (t + d) (d + b) b n

/-- `t, t+s, t+2s, …` -/
def linearTimes (t s : U64) (n : Nat) : List U64 := quadraticTimes t s 0 n

/-- `a, a+b, a+2b, …` -/
def arith (a b : U32) : Nat → List U32
  | 0 => []
  | n + 1 => a :: arith (a + b) b n

theorem stepBy_arith (b : U32) : ∀ (n : Nat) (a : U32), StepBy b (arith a b n)
  | 0, _ => trivial
  | 1, _ => trivial
  | n + 2, a => ⟨by bv_omega, stepBy_arith b (n + 1) (a + b)⟩

theorem deltas_cons_cons (a b : U64) (l : List U64) :
    JitterProc.deltas (a :: b :: l) = trunc32 (b - a) :: JitterProc.deltas (b :: l) := rfl

theorem deltas_quadratic (b : U64) : ∀ (n : Nat) (t d : U64),
    JitterProc.deltas (quadraticTimes t d b (n + 1)) = arith (trunc32 d) (trunc32 b) n
  | 0, _, _ => rfl
  | n + 1, t, d => by
    have ih := deltas_quadratic b n (t + d) (d + b)
    simp only [quadraticTimes] at ih ⊢
    rw [deltas_cons_cons, ih]
    simp only [arith, trunc32]
    rw [BitVec.setWidth_add _ _ (by decide)]
    congr 2
    bv_omega

/-- a script with quadratically growing time stamps has its deltas in arithmetic progression -/
theorem stepBy_of_quadratic (rs : List U64) (t d b : U64) (n : Nat)
    (h : JitterProc.times rs = quadraticTimes t d b n) : StepBy (trunc32 b) (deltaSeq rs) := by
  unfold deltaSeq
  rw [measurements_delta, h]
  rcases n with _ | n
  · trivial
  · rw [deltas_quadratic]; exact stepBy_arith _ _ _

theorem stepBy_of_linear (rs : List U64) (t s : U64) (n : Nat)
    (h : JitterProc.times rs = linearTimes t s n) : StepBy 0 (deltaSeq rs) :=
  stepBy_of_quadratic rs t s 0 n h

/-- a script: the priming reading, then per measurement `(loop-count, time, loop-count)` -/
def script (t0 : U64) (ms : List (U64 × U64 × U64)) : List U64 :=
  t0 :: ms.flatMap fun m => [m.1, m.2.1, m.2.2]

theorem middles_flatMap : ∀ (ms : List (U64 × U64 × U64)),
    JitterProc.middles (ms.flatMap fun m => [m.1, m.2.1, m.2.2]) = ms.map (·.2.1)
  | [] => rfl
  | m :: ms => by
    simp only [List.flatMap_cons, List.cons_append, List.nil_append, JitterProc.middles,
      List.map_cons, middles_flatMap ms]

theorem times_script (t0 : U64) (ms : List (U64 × U64 × U64)) :
    JitterProc.times (script t0 ms) = t0 :: ms.map (·.2.1) := by
  simp only [script, JitterProc.times, middles_flatMap]

/-! ## collections that end with a given measurement -/

theorem genEntropy_used_some (j : Jitter.Rng) (rs : List U64) (v : U64) (j' : Jitter.Rng) (rest : List U64)
    (h : Jitter.genEntropy j rs = some ((v, j'), rest)) :
    ∃ used, usedMeas j.rounds rs = some used ∧ v = output j.data used ∧
      rs.length = rest.length + (1 + 3 * used.length) := by
  have he := genEntropy_eq_used j rs
  rw [h] at he
  rcases hu : usedMeas j.rounds rs with _ | used
  · rw [hu] at he; cases he
  · rw [hu] at he
    simp only [Option.map_some, Option.some.injEq, Prod.mk.injEq] at he
    obtain ⟨_, hl, _⟩ := usedMeas_length _ _ _ hu
    refine ⟨used, rfl, he.1, ?_⟩
    rw [he.2, List.length_drop]; omega

/-- a collection that leaves exactly `rest` unread consumed exactly the readings before `rest` -/
theorem genEntropy_exact (j : Jitter.Rng) (a rest : List U64) (r : U64 × Jitter.Rng)
    (h : Jitter.genEntropy j (a ++ rest) = some (r, rest)) : Jitter.genEntropy j a = some (r, []) := by
  obtain ⟨used, hu, hrun⟩ := genEntropy_prefix j _ r rest h
  have : a = used := List.append_cancel_right hu
  have h0 := hrun []
  rwa [List.append_nil, ← this] at h0

/-- when every reading is consumed, all measurements of the list are used -/
theorem usedMeas_exact (rounds : Nat) (rs : List U64) (used : List Meas)
    (hu : usedMeas rounds rs = some used) (hl : rs.length = 1 + 3 * used.length) :
    used = measurements rs := by
  obtain ⟨h1, _, h3⟩ := usedMeas_length _ _ _ hu
  have hm := measurements_length rs (by
    intro h0; rw [h0] at h1; simp at h1; rw [h1] at h3; simp at h3)
  rw [h1, List.take_of_length_le (by omega)]

/-- the measurements of `t0 :: (complete measurements) ++ [c, t, e]` -/
theorem measurements_snoc (t0 : U64) (pre : List U64) (c t e : U64) (hp : pre.length % 3 = 0) :
    measurements (t0 :: (pre ++ [c, t, e])) =
      measFrom ⟨t0, 0, 0⟩ pre ++ [(step (ecAfter ⟨t0, 0, 0⟩ pre) t).1] := by
  rw [measurements_cons, measFrom_append _ _ _ hp]
  rfl

/-- the last measurement of a completely consumed list (with `rounds ≥ 1`) is an accepted one -/
theorem usedMeas_last_accepted (rounds : Nat) (hr : 0 < rounds) (rs : List U64) (l : List Meas) (m : Meas)
    (hu : usedMeas rounds rs = some (l ++ [m])) : m.stuck = false := by
  unfold usedMeas at hu
  rcases hm : measurements rs with _ | ⟨prime, ms⟩
  · rw [hm] at hu; cases hu
  · rw [hm] at hu
    dsimp only at hu
    rcases ht : untilAccepted rounds ms with _ | taken
    · rw [ht] at hu; cases hu
    · rw [ht] at hu
      obtain ⟨n, rfl⟩ : ∃ n, rounds = n + 1 := ⟨rounds - 1, by omega⟩
      obtain ⟨l0, m0, rfl, hs⟩ := untilAccepted_last ms n taken ht
      simp only [Option.map_some, Option.some.injEq] at hu
      have : (prime :: l0) ++ [m0] = l ++ [m] := hu
      have := (List.append_inj' this rfl).2
      simp only [List.cons.injEq, and_true] at this
      rw [← this]; exact hs

/-- **collections whose last consumed measurement has time reading `t`** -/
theorem genEntropy_last (j : Jitter.Rng) (hr : 0 < j.rounds) (pre : List U64) (c t e : U64) (rest : List U64)
    (v : U64) (j₁ : Jitter.Rng)
    (h : Jitter.genEntropy j (pre ++ c :: t :: e :: rest) = some ((v, j₁), rest)) :
    ∃ t0 pre', pre = t0 :: pre' ∧ pre'.length % 3 = 0 ∧
      v = output j.data (measFrom ⟨t0, 0, 0⟩ pre' ++ [(step (ecAfter ⟨t0, 0, 0⟩ pre') t).1]) ∧
      (step (ecAfter ⟨t0, 0, 0⟩ pre') t).1.stuck = false := by
  have h0 : Jitter.genEntropy j (pre ++ [c, t, e]) = some ((v, j₁), []) := by
    apply genEntropy_exact j _ rest
    rw [List.append_assoc]; exact h
  obtain ⟨used, hu, hv, hl⟩ := genEntropy_used_some j _ v j₁ [] h0
  simp only [List.length_append, List.length_cons, List.length_nil] at hl
  obtain ⟨_, _, h1⟩ := usedMeas_length _ _ _ hu
  match pre, hl, hu, h0 with
  | [], hl, _, _ => simp at hl; omega
  | t0 :: pre', hl, hu, h0 =>
    have hp : pre'.length % 3 = 0 := by simp only [List.length_cons] at hl; omega
    have hl' : (t0 :: pre' ++ [c, t, e]).length = 1 + 3 * used.length := by
      simp only [List.length_append, List.length_cons, List.length_nil] at hl ⊢
      omega
    have hx := usedMeas_exact _ _ _ hu hl'
    rw [show t0 :: pre' ++ [c, t, e] = t0 :: (pre' ++ [c, t, e]) from rfl, measurements_snoc _ _ _ _ _ hp] at hx
    refine ⟨t0, pre', rfl, hp, by rw [hv, hx], ?_⟩
    rw [hx] at hu
    exact usedMeas_last_accepted _ hr _ _ _ hu

end Rngs.JitterEntropy
