/-
  Rngs.Lib.JitterOnce — lemmas for C16: which JitterRng calls start a fresh collection, what a
  pending half is, and a multi-instance machine (with `clone`) in which no half is handed out
  twice.
-/
import Rngs.Lib.JitterRefine
namespace Rngs.JitterOnce
open Rngs Rngs.Spec Rngs.JitterRefine

/-- readings consumed by a collection without stuck measurements: one priming reading, three
    per measurement, `1 + rounds` measurements -/
def cost (rounds : Nat) : Nat := 1 + 3 * (1 + rounds)

def lo (v : U64) : U32 := v.setWidth 32
def hi (v : U64) : U32 := (v >>> 32).setWidth 32

/-! ## single calls -/

theorem genEntropy_facts {j : Jitter.Rng} {rs : List U64} {v : U64} {j' : Jitter.Rng} {rs' : List U64}
    (h : Jitter.genEntropy j rs = some ((v, j'), rs')) :
    j'.data = v ∧ j'.rounds = j.rounds ∧ j'.halfUsed = j.halfUsed ∧
      rs'.length + cost j.rounds ≤ rs.length := by
  have he := genEntropy_eq j rs
  rw [h] at he
  rcases hc : JitterProc.collect j.data j.rounds rs with _ | ⟨v0, r0⟩
  · rw [hc] at he; simp at he
  · rw [hc] at he
    simp only [Option.map_some, Option.some.injEq, Prod.mk.injEq, abs, JitterProc.St.mk.injEq] at he
    obtain ⟨hv, ⟨hd, hr, hh⟩, hrs⟩ := he
    subst hv hrs
    obtain ⟨prime, ms, taken, _, h2, _, _, h5⟩ := collect_some _ _ _ _ _ hc
    obtain ⟨_, _, _, h7, _⟩ := untilAccepted_some ms _ taken h2
    refine ⟨hd, hr, hh, ?_⟩
    unfold cost; omega

theorem nextU64_facts {j : Jitter.Rng} {rs : List U64} {v : U64} {j' : Jitter.Rng} {rs' : List U64}
    (h : Jitter.nextU64 j rs = some ((v, j'), rs')) :
    j'.data = v ∧ j'.rounds = j.rounds ∧ j'.halfUsed = false ∧
      rs'.length + cost j.rounds ≤ rs.length :=
  genEntropy_facts (j := { j with halfUsed := false }) h

/-- `next_u64` never looks at the pending flag -/
theorem nextU64_flag (j : Jitter.Rng) (rs : List U64) :
    Jitter.nextU64 j rs = Jitter.nextU64 { j with halfUsed := false } rs := rfl

/-- `next_u32` with a half pending: the high half of the pool, no reading, flag cleared -/
theorem nextU32_pending {j : Jitter.Rng} (hp : j.halfUsed = true) (rs : List U64) :
    Jitter.nextU32 j rs = some ((hi j.data, { j with halfUsed := false }), rs) := by
  rw [nextU32_unfold, hp]; rfl

/-- `next_u32` with no half pending: the low half of what `next_u64` returns; that value stays
    in the pool with the flag set -/
theorem nextU32_fresh {j : Jitter.Rng} (hp : j.halfUsed = false) (rs : List U64) :
    Jitter.nextU32 j rs =
      (Jitter.nextU64 j rs).map fun r => ((lo r.1.1, { r.1.2 with halfUsed := true }), r.2) := by
  rw [nextU32_unfold, hp]
  simp only [Bool.false_eq_true, if_false]
  rcases h : Jitter.nextU64 j rs with _ | ⟨⟨v, j'⟩, rs'⟩
  · rfl
  · have := (nextU64_facts h).1
    simp only [Option.bind_some, Option.map_some, lo, ← this]

theorem nextU32_facts {j : Jitter.Rng} {rs : List U64} {w : U32} {j' : Jitter.Rng} {rs' : List U64}
    (h : Jitter.nextU32 j rs = some ((w, j'), rs')) :
    j'.rounds = j.rounds ∧ rs'.length ≤ rs.length ∧
      (j.halfUsed = true → w = hi j.data ∧ j' = { j with halfUsed := false } ∧ rs' = rs) ∧
      (j.halfUsed = false → w = lo j'.data ∧ j'.halfUsed = true ∧
        rs'.length + cost j.rounds ≤ rs.length) := by
  cases hp : j.halfUsed
  · rw [nextU32_fresh hp] at h
    rcases h64 : Jitter.nextU64 j rs with _ | ⟨⟨v, j1⟩, rs1⟩
    · rw [h64] at h; simp at h
    · rw [h64] at h
      simp only [Option.map_some, Option.some.injEq, Prod.mk.injEq] at h
      obtain ⟨⟨hw, hj⟩, hrs⟩ := h
      obtain ⟨f1, f2, f3, f4⟩ := nextU64_facts h64
      subst hw hj hrs
      refine ⟨f2, by omega, by simp, fun _ => ⟨by simp [f1], rfl, f4⟩⟩
  · rw [nextU32_pending hp] at h
    simp only [Option.some.injEq, Prod.mk.injEq] at h
    obtain ⟨⟨hw, hj⟩, hrs⟩ := h
    subst hw hj hrs
    exact ⟨rfl, Nat.le_refl _, fun _ => ⟨rfl, rfl, rfl⟩, by simp⟩

theorem fillLoop_zero (j : Jitter.Rng) (rs : List U64) : Jitter.fillLoop 0 j rs = some (([], j), rs) := rfl

theorem fillLoop_flag (k : Nat) (j : Jitter.Rng) (rs : List U64) :
    Jitter.fillLoop (k + 1) j rs = Jitter.fillLoop (k + 1) { j with halfUsed := false } rs := rfl

theorem fillLoop_facts : ∀ (k : Nat) {j : Jitter.Rng} {rs : List U64} {bs : List U8} {j' : Jitter.Rng}
    {rs' : List U64}, Jitter.fillLoop k j rs = some ((bs, j'), rs') →
    j'.rounds = j.rounds ∧ rs'.length ≤ rs.length ∧ (k = 0 → j' = j ∧ rs' = rs) ∧
      (0 < k → j'.halfUsed = false ∧ rs'.length + cost j.rounds ≤ rs.length)
  | 0, j, rs, bs, j', rs', h => by
    rw [fillLoop_zero] at h
    simp only [Option.some.injEq, Prod.mk.injEq] at h
    obtain ⟨⟨_, hj⟩, hrs⟩ := h
    subst hj hrs
    exact ⟨rfl, Nat.le_refl _, fun _ => ⟨rfl, rfl⟩, fun h => absurd h (Nat.lt_irrefl 0)⟩
  | k + 1, j, rs, bs, j', rs', h => by
    rw [fillLoop_succ] at h
    rcases h1 : Jitter.nextU64 j rs with _ | ⟨⟨w, j1⟩, rs1⟩
    · rw [h1] at h; simp at h
    · rw [h1, Option.bind_some] at h
      rcases h2 : Jitter.fillLoop k j1 rs1 with _ | ⟨⟨bs2, j2⟩, rs2⟩
      · rw [h2] at h; simp at h
      · rw [h2] at h
        simp only [Option.bind_some, Option.some.injEq, Prod.mk.injEq] at h
        obtain ⟨⟨_, hj⟩, hrs⟩ := h
        subst hj hrs
        obtain ⟨f1, f2, f3, f4⟩ := nextU64_facts h1
        obtain ⟨g1, g2, g3, g4⟩ := fillLoop_facts k h2
        refine ⟨by rw [g1, f2], by omega, fun h => by omega, fun _ => ⟨?_, by omega⟩⟩
        rcases k with _ | k
        · rw [(g3 rfl).1]; exact f3
        · exact (g4 (Nat.succ_pos _)).1

theorem fill_zero (j : Jitter.Rng) (rs : List U64) : Jitter.fill 0 j rs = some (([], j), rs) := rfl

/-- the exceptional call shape: a half is pending and 1..4 bytes are requested -/
theorem fill_small_pending {j : Jitter.Rng} {n : Nat} (hp : j.halfUsed = true) (h1 : 1 ≤ n) (h4 : n ≤ 4)
    (rs : List U64) :
    Jitter.fill n j rs = some (((U32.toLE (hi j.data)).take n, { j with halfUsed := false }), rs) := by
  have hd : n / 8 = 0 := by omega
  have hm : n % 8 = n := by omega
  rw [fill_unfold, hd, hm, fillLoop_zero, Option.bind_some]
  have a : ¬ n > 4 := by omega
  have b : n > 0 := h1
  simp only [a, b, if_false, if_true, nextU32_pending hp, Option.bind_some, List.nil_append]

/-- every other call with `n > 0` begins with a `next_u64`, or with a `next_u32` that finds no
    half pending: the pending flag is not consulted -/
theorem fill_flag {j : Jitter.Rng} {n : Nat} (hs : ¬ (j.halfUsed = true ∧ n ≤ 4))
    (rs : List U64) : Jitter.fill n j rs = Jitter.fill n { j with halfUsed := false } rs := by
  rw [fill_unfold, fill_unfold]
  rcases hd : n / 8 with _ | k
  · rw [fillLoop_zero, fillLoop_zero, Option.bind_some, Option.bind_some]
    by_cases h5 : n % 8 > 4
    · simp only [h5, if_true]; rfl
    · have hn : n ≤ 4 := by omega
      have hp : j.halfUsed = false := by
        cases h : j.halfUsed
        · rfl
        · exact absurd ⟨h, hn⟩ hs
      have : ({ j with halfUsed := false } : Jitter.Rng) = j := by
        cases j; simp_all
      simp only [this]
  · rw [fillLoop_flag]

theorem fill_facts {j : Jitter.Rng} {n : Nat} {rs : List U64} {bs : List U8} {j' : Jitter.Rng}
    {rs' : List U64} (h : Jitter.fill n j rs = some ((bs, j'), rs')) :
    j'.rounds = j.rounds ∧ rs'.length ≤ rs.length ∧
      (0 < n → ¬ (j.halfUsed = true ∧ n ≤ 4) → rs'.length + cost j.rounds ≤ rs.length) := by
  rw [fill_unfold] at h
  rcases h1 : Jitter.fillLoop (n / 8) j rs with _ | ⟨⟨pre, j1⟩, rs1⟩
  · rw [h1] at h; simp at h
  · rw [h1, Option.bind_some] at h
    obtain ⟨f1, f2, f3, f4⟩ := fillLoop_facts _ h1
    dsimp only at h
    by_cases h5 : n % 8 > 4
    · simp only [h5, if_true] at h
      rcases h2 : Jitter.nextU64 j1 rs1 with _ | ⟨⟨w, j2⟩, rs2⟩
      · rw [h2] at h; simp at h
      · rw [h2] at h
        simp only [Option.bind_some, Option.some.injEq, Prod.mk.injEq] at h
        obtain ⟨⟨_, hj⟩, hrs⟩ := h
        subst hj hrs
        obtain ⟨g1, g2, g3, g4⟩ := nextU64_facts h2
        rw [f1] at g4
        exact ⟨by rw [g2, f1], by omega, fun _ _ => by omega⟩
    · simp only [h5, if_false] at h
      by_cases h0 : n % 8 > 0
      · simp only [h0, if_true] at h
        rcases h2 : Jitter.nextU32 j1 rs1 with _ | ⟨⟨w, j2⟩, rs2⟩
        · rw [h2] at h; simp at h
        · rw [h2] at h
          simp only [Option.bind_some, Option.some.injEq, Prod.mk.injEq] at h
          obtain ⟨⟨_, hj⟩, hrs⟩ := h
          subst hj hrs
          obtain ⟨g1, g2, g3, g4⟩ := nextU32_facts h2
          refine ⟨by rw [g1, f1], by omega, fun hn hs => ?_⟩
          rcases Nat.eq_zero_or_pos (n / 8) with hd | hd
          · obtain ⟨e1, e2⟩ := f3 hd
            subst e1 e2
            have hn4 : n ≤ 4 := by omega
            have hp : j1.halfUsed = false := by
              cases hh : j1.halfUsed
              · rfl
              · exact absurd ⟨hh, hn4⟩ hs
            exact (g4 hp).2.2
          · have := (f4 hd).2; omega
      · simp only [h0, if_false, Option.some.injEq, Prod.mk.injEq] at h
        obtain ⟨⟨_, hj⟩, hrs⟩ := h
        subst hj hrs
        refine ⟨f1, f2, fun hn _ => ?_⟩
        have hd : 0 < n / 8 := by omega
        exact (f4 hd).2

/-- `Clone` -/
theorem clone_facts (j : Jitter.Rng) :
    (Jitter.clone j).halfUsed = false ∧ (Jitter.clone j).data = j.data ∧
      (Jitter.clone j).rounds = j.rounds := ⟨rfl, rfl, rfl⟩

/-! ## several instances on one timer, with `clone` -/

/-- operations of the machine; `i` is the index of the instance called -/
inductive MOp where
  | u32 (i : Nat)
  | u64 (i : Nat)
  | fill (i : Nat) (n : Nat)
  | clone (i : Nat)
  deriving DecidableEq, Repr

inductive Out where
  | u32 (w : U32)
  | u64 (v : U64)
  | bytes (bs : List U8)
  | cloned (k : Nat)        -- index of the new instance
  deriving DecidableEq, Repr

/-- What a call did, as far as halves are concerned.
    `took = some w`: the call handed out (bytes of) the pending high half `w` without collecting.
    `left = some v`: after the call the pool is `v` and its high half is pending. -/
structure Ev where
  inst : Nat
  took : Option U32
  left : Option U64
  out : Out
  deriving DecidableEq, Repr

structure Sys where
  insts : List Jitter.Rng
  rs : List U64

def leftOf (j : Jitter.Rng) : Option U64 := if j.halfUsed then some j.data else none

/-- one call; `none`: no such instance, or the timer script ran out -/
def stepM (op : MOp) (s : Sys) : Option (Sys × Ev) :=
  match op with
  | .u32 i =>
    match s.insts[i]? with
    | none => none
    | some j =>
      match Jitter.nextU32 j s.rs with
      | none => none
      | some ((w, j'), rs') =>
        some (⟨s.insts.set i j', rs'⟩, ⟨i, if j.halfUsed then some w else none, leftOf j', .u32 w⟩)
  | .u64 i =>
    match s.insts[i]? with
    | none => none
    | some j =>
      match Jitter.nextU64 j s.rs with
      | none => none
      | some ((v, j'), rs') => some (⟨s.insts.set i j', rs'⟩, ⟨i, none, leftOf j', .u64 v⟩)
  | .fill i n =>
    match s.insts[i]? with
    | none => none
    | some j =>
      match Jitter.fill n j s.rs with
      | none => none
      | some ((bs, j'), rs') =>
        some (⟨s.insts.set i j', rs'⟩,
              ⟨i, if j.halfUsed = true ∧ 1 ≤ n ∧ n ≤ 4 then some (hi j.data) else none, leftOf j', .bytes bs⟩)
  | .clone i =>
    match s.insts[i]? with
    | none => none
    | some j =>
      some (⟨s.insts ++ [Jitter.clone j], s.rs⟩, ⟨s.insts.length, none, none, .cloned s.insts.length⟩)

/-- a history; the trace is kept newest event first -/
def runM : List MOp → Sys → List Ev → Option (Sys × List Ev)
  | [], s, tr => some (s, tr)
  | op :: ops, s, tr =>
    match stepM op s with
    | none => none
    | some (s', e) => runM ops s' (e :: tr)

/-- instance `i` owes the high half of `v`: its most recent event (newest first: nothing by `i`
    before it in the list) left `v` pending -/
def Owes (i : Nat) (v : U64) (tr : List Ev) : Prop :=
  ∃ newer e older, tr = newer ++ e :: older ∧ e.inst = i ∧ e.left = some v ∧ ∀ x ∈ newer, x.inst ≠ i

/-- every hand-out of a pending half is matched: the same instance's previous call collected a
    value `v`, handed out (part of) its low half and left the high half pending; the half handed
    out now is `hi v` -/
def Good : List Ev → Prop
  | [] => True
  | e :: tr => (∀ w, e.took = some w → e.left = none ∧ ∃ v, Owes e.inst v tr ∧ w = hi v) ∧ Good tr

/-- the invariant: a set pending flag is backed by the instance's own most recent call -/
def Inv (s : Sys) (tr : List Ev) : Prop :=
  ∀ i j, s.insts[i]? = some j → j.halfUsed = true → Owes i j.data tr

theorem Owes.cons_other {i : Nat} {v : U64} {tr : List Ev} (h : Owes i v tr) (e : Ev) (he : e.inst ≠ i) :
    Owes i v (e :: tr) := by
  obtain ⟨newer, e', older, h1, h2, h3, h4⟩ := h
  refine ⟨e :: newer, e', older, by rw [h1]; rfl, h2, h3, ?_⟩
  intro x hx
  rcases List.mem_cons.mp hx with rfl | hx
  · exact he
  · exact h4 x hx

theorem Owes.cons_self (e : Ev) (v : U64) (tr : List Ev) (h : e.left = some v) : Owes e.inst v (e :: tr) :=
  ⟨[], e, tr, rfl, rfl, h, by simp⟩

theorem leftOf_of_pending {j : Jitter.Rng} (h : j.halfUsed = true) : leftOf j = some j.data := by
  simp [leftOf, h]

/-- updating instance `i` by a call whose event is `e` preserves the invariant -/
theorem Inv.set {s : Sys} {tr : List Ev} (hI : Inv s tr) (i : Nat) (j' : Jitter.Rng) (rs' : List U64)
    (e : Ev) (hi : e.inst = i) (hl : e.left = leftOf j') :
    Inv ⟨s.insts.set i j', rs'⟩ (e :: tr) := by
  intro k jk hk hp
  simp only [List.getElem?_set] at hk
  by_cases hik : i = k
  · subst hik
    simp only [if_true] at hk
    split at hk
    · simp only [Option.some.injEq] at hk
      subst hk
      rw [← hi]
      exact Owes.cons_self e _ tr (by rw [hl, leftOf_of_pending hp])
    · simp at hk
  · simp only [hik, if_false] at hk
    exact (hI k jk hk hp).cons_other e (by rw [hi]; exact hik)

theorem step_preserves {op : MOp} {s s' : Sys} {tr : List Ev} {e : Ev} (hI : Inv s tr) (hG : Good tr)
    (h : stepM op s = some (s', e)) : Inv s' (e :: tr) ∧ Good (e :: tr) := by
  cases op with
  | u32 i =>
    simp only [stepM] at h
    rcases hj : s.insts[i]? with _ | j
    · simp [hj] at h
    · rcases hc : Jitter.nextU32 j s.rs with _ | ⟨⟨w, j'⟩, rs'⟩
      · simp [hj, hc] at h
      · simp only [hj, hc, Option.some.injEq, Prod.mk.injEq] at h
        obtain ⟨hs, he⟩ := h
        subst hs he
        refine ⟨hI.set i j' rs' _ rfl rfl, ?_, hG⟩
        intro w' hw
        dsimp only at hw ⊢
        cases hp : j.halfUsed
        · simp [hp] at hw
        · simp only [hp, if_true, Option.some.injEq] at hw
          obtain ⟨_, _, f3, _⟩ := nextU32_facts hc
          refine ⟨?_, j.data, hI i j hj hp, by rw [← hw]; exact (f3 hp).1⟩
          rw [(f3 hp).2.1]; rfl
  | u64 i =>
    simp only [stepM] at h
    rcases hj : s.insts[i]? with _ | j
    · simp [hj] at h
    · rcases hc : Jitter.nextU64 j s.rs with _ | ⟨⟨w, j'⟩, rs'⟩
      · simp [hj, hc] at h
      · simp only [hj, hc, Option.some.injEq, Prod.mk.injEq] at h
        obtain ⟨hs, he⟩ := h
        subst hs he
        exact ⟨hI.set i j' rs' _ rfl rfl, by intro w' hw; simp at hw, hG⟩
  | fill i n =>
    simp only [stepM] at h
    rcases hj : s.insts[i]? with _ | j
    · simp [hj] at h
    · rcases hc : Jitter.fill n j s.rs with _ | ⟨⟨w, j'⟩, rs'⟩
      · simp [hj, hc] at h
      · simp only [hj, hc, Option.some.injEq, Prod.mk.injEq] at h
        obtain ⟨hs, he⟩ := h
        subst hs he
        refine ⟨hI.set i j' rs' _ rfl rfl, ?_, hG⟩
        intro w' hw
        dsimp only at hw ⊢
        split at hw
        · rename_i hcnd
          simp only [Option.some.injEq] at hw
          refine ⟨?_, j.data, hI i j hj hcnd.1, hw.symm⟩
          rw [fill_small_pending hcnd.1 hcnd.2.1 hcnd.2.2] at hc
          simp only [Option.some.injEq, Prod.mk.injEq] at hc
          rw [← hc.1.2]; rfl
        · simp at hw
  | clone i =>
    simp only [stepM] at h
    rcases hj : s.insts[i]? with _ | j
    · simp [hj] at h
    · simp only [hj, Option.some.injEq, Prod.mk.injEq] at h
      obtain ⟨hs, he⟩ := h
      subst hs he
      refine ⟨?_, by intro w' hw; simp at hw, hG⟩
      intro k jk hk hp
      dsimp only at hk
      by_cases hlt : k < s.insts.length
      · rw [List.getElem?_append_left hlt] at hk
        exact (hI k jk hk hp).cons_other _ (by dsimp only; omega)
      · rw [List.getElem?_append_right (by omega)] at hk
        rcases hkk : k - s.insts.length with _ | m
        · simp only [hkk, List.getElem?_cons_zero, Option.some.injEq] at hk
          subst hk
          simp [Jitter.clone] at hp
        · simp [hkk] at hk

theorem run_preserves : ∀ (ops : List MOp) {s s' : Sys} {tr tr' : List Ev}, Inv s tr → Good tr →
    runM ops s tr = some (s', tr') → Inv s' tr' ∧ Good tr'
  | [], s, s', tr, tr', hI, hG, h => by
    simp only [runM, Option.some.injEq, Prod.mk.injEq] at h
    obtain ⟨h1, h2⟩ := h
    subst h1 h2
    exact ⟨hI, hG⟩
  | op :: ops, s, s', tr, tr', hI, hG, h => by
    rw [runM] at h
    rcases hs : stepM op s with _ | ⟨s1, e⟩
    · simp [hs] at h
    · rw [hs] at h
      obtain ⟨hI1, hG1⟩ := step_preserves hI hG hs
      exact run_preserves ops hI1 hG1 h

theorem Inv.init (s : Sys) (h : ∀ j ∈ s.insts, j.halfUsed = false) : Inv s [] := by
  intro i j hj hp
  have := h j (List.mem_of_getElem? hj)
  rw [this] at hp; cases hp

theorem Good.drop : ∀ (a : List Ev) {tr : List Ev}, Good (a ++ tr) → Good tr
  | [], _, h => h
  | _ :: a, _, h => Good.drop a h.2

/-- **No half twice.**  If an instance hands out a pending half in two calls `e₁` (later) and
    `e₂` (earlier), then strictly between them the same instance made a call that collected a
    fresh value and left its high half pending: the two halves belong to different
    collections. -/
theorem Good.between {tr a mid c : List Ev} {e₁ e₂ : Ev} (hG : Good tr)
    (h : tr = a ++ e₁ :: (mid ++ e₂ :: c)) (hi : e₁.inst = e₂.inst)
    (h1 : e₁.took ≠ none) (h2 : e₂.took ≠ none) :
    ∃ x ∈ mid, x.inst = e₁.inst ∧ x.left ≠ none := by
  subst h
  have g1 := Good.drop a hG
  have g2 : Good (e₂ :: c) := Good.drop mid g1.2
  rcases ht1 : e₁.took with _ | w1
  · exact absurd ht1 h1
  rcases ht2 : e₂.took with _ | w2
  · exact absurd ht2 h2
  have l2 : e₂.left = none := (g2.1 w2 ht2).1
  obtain ⟨_, v, ⟨newer, e', older, hd, hinst, hleft, hnew⟩, _⟩ := g1.1 w1 ht1
  rcases List.append_eq_append_iff.mp hd with ⟨a', ha, hb⟩ | ⟨c', ha, hb⟩
  · -- newer = mid ++ a'
    rcases a' with _ | ⟨y, a''⟩
    · simp only [List.nil_append, List.cons.injEq] at hb
      rw [hb.1, hleft] at l2; cases l2
    · simp only [List.cons_append, List.cons.injEq] at hb
      have : e₂ ∈ newer := by rw [ha, ← hb.1]; simp
      exact absurd hi.symm (hnew e₂ this)
  · -- mid = newer ++ c'
    rcases c' with _ | ⟨y, c''⟩
    · simp only [List.nil_append, List.cons.injEq] at hb
      rw [← hb.1, hleft] at l2; cases l2
    · simp only [List.cons_append, List.cons.injEq] at hb
      refine ⟨e', ?_, hinst, by rw [hleft]; simp⟩
      rw [ha, ← hb.1]; simp

/-! ### the events say what happened -/

def MOp.target : MOp → Nat
  | .u32 i => i | .u64 i => i | .fill i _ => i | .clone i => i

def MOp.isOutput : MOp → Bool
  | .u32 _ => true | .u64 _ => true | .fill _ n => decide (0 < n) | .clone _ => false

theorem set_get {l : List Jitter.Rng} {i : Nat} {j : Jitter.Rng} (h : l[i]? = some j) (j0 : Jitter.Rng) :
    (l.set i j0)[i]? = some j0 := by
  have : i < l.length := by
    rcases Nat.lt_or_ge i l.length with h' | h'
    · exact h'
    · rw [List.getElem?_eq_none h'] at h; cases h
  simp [this]

/-- `took = some w` is truthful: a half was pending, `w` is the high half of the pool, the call
    returned it (or its first `n ≤ 4` bytes), read no timer value and cleared the flag -/
theorem stepM_took {op : MOp} {s s' : Sys} {e : Ev} {w : U32} (h : stepM op s = some (s', e))
    (hw : e.took = some w) :
    ∃ j, s.insts[op.target]? = some j ∧ e.inst = op.target ∧ j.halfUsed = true ∧ w = hi j.data ∧
      s'.rs = s.rs ∧ s'.insts = s.insts.set op.target { j with halfUsed := false } ∧
      (e.out = .u32 w ∨ ∃ n, 1 ≤ n ∧ n ≤ 4 ∧ e.out = .bytes ((U32.toLE w).take n)) := by
  cases op with
  | u32 i =>
    simp only [stepM] at h
    rcases hj : s.insts[i]? with _ | j
    · simp [hj] at h
    · rcases hc : Jitter.nextU32 j s.rs with _ | ⟨⟨w0, j'⟩, rs'⟩
      · simp [hj, hc] at h
      · simp only [hj, hc, Option.some.injEq, Prod.mk.injEq] at h
        obtain ⟨hs, he⟩ := h
        subst hs he
        dsimp only at hw ⊢
        cases hp : j.halfUsed
        · simp [hp] at hw
        · simp only [hp, if_true, Option.some.injEq] at hw
          subst hw
          obtain ⟨_, _, f3, _⟩ := nextU32_facts hc
          obtain ⟨a, b, c⟩ := f3 hp
          exact ⟨j, hj, rfl, hp, a, c, by rw [b]; rfl, Or.inl rfl⟩
  | u64 i =>
    simp only [stepM] at h
    rcases hj : s.insts[i]? with _ | j
    · simp [hj] at h
    · rcases hc : Jitter.nextU64 j s.rs with _ | ⟨⟨w0, j'⟩, rs'⟩
      · simp [hj, hc] at h
      · simp only [hj, hc, Option.some.injEq, Prod.mk.injEq] at h
        obtain ⟨hs, he⟩ := h
        subst he
        simp at hw
  | fill i n =>
    simp only [stepM] at h
    rcases hj : s.insts[i]? with _ | j
    · simp [hj] at h
    · rcases hc : Jitter.fill n j s.rs with _ | ⟨⟨bs, j'⟩, rs'⟩
      · simp [hj, hc] at h
      · simp only [hj, hc, Option.some.injEq, Prod.mk.injEq] at h
        obtain ⟨hs, he⟩ := h
        subst hs he
        dsimp only at hw ⊢
        split at hw
        · rename_i hcnd
          simp only [Option.some.injEq] at hw
          subst hw
          rw [fill_small_pending hcnd.1 hcnd.2.1 hcnd.2.2] at hc
          simp only [Option.some.injEq, Prod.mk.injEq] at hc
          obtain ⟨⟨hb, hj'⟩, hrs⟩ := hc
          subst hb hj' hrs
          exact ⟨j, hj, rfl, hcnd.1, rfl, rfl, rfl, Or.inr ⟨n, hcnd.2.1, hcnd.2.2, rfl⟩⟩
        · simp at hw
  | clone i =>
    simp only [stepM] at h
    rcases hj : s.insts[i]? with _ | j
    · simp [hj] at h
    · simp only [hj, Option.some.injEq, Prod.mk.injEq] at h
      obtain ⟨hs, he⟩ := h
      subst he
      simp at hw

/-- `took = none` is truthful: the output of the call and the readings it leaves are those of
    the same call with the target's pending flag cleared beforehand — no pending half went into
    the output — and an output call (other than an empty fill) ran a whole collection -/
theorem stepM_took_none {op : MOp} {s s' : Sys} {e : Ev} (h : stepM op s = some (s', e))
    (hw : e.took = none) :
    ∃ j, s.insts[op.target]? = some j ∧
      (stepM op ⟨s.insts.set op.target { j with halfUsed := false }, s.rs⟩).map
        (fun r => (r.2.out, r.1.rs)) = some (e.out, s'.rs) ∧
      (op.isOutput = true → s'.rs.length + cost j.rounds ≤ s.rs.length) := by
  cases op with
  | u32 i =>
    simp only [stepM] at h
    rcases hj : s.insts[i]? with _ | j
    · simp [hj] at h
    · rcases hc : Jitter.nextU32 j s.rs with _ | ⟨⟨w0, j'⟩, rs'⟩
      · simp [hj, hc] at h
      · simp only [hj, hc, Option.some.injEq, Prod.mk.injEq] at h
        obtain ⟨hs, he⟩ := h
        subst hs he
        dsimp only at hw
        cases hp : j.halfUsed
        · have hjj : ({ j with halfUsed := false } : Jitter.Rng) = j := by cases j; simp_all
          obtain ⟨_, _, _, f4⟩ := nextU32_facts hc
          refine ⟨j, hj, ?_, fun _ => (f4 hp).2.2⟩
          simp only [stepM, MOp.target, set_get hj, hjj, hc, Option.map_some]
        · simp [hp] at hw
  | u64 i =>
    simp only [stepM] at h
    rcases hj : s.insts[i]? with _ | j
    · simp [hj] at h
    · rcases hc : Jitter.nextU64 j s.rs with _ | ⟨⟨w0, j'⟩, rs'⟩
      · simp [hj, hc] at h
      · simp only [hj, hc, Option.some.injEq, Prod.mk.injEq] at h
        obtain ⟨hs, he⟩ := h
        subst hs he
        refine ⟨j, hj, ?_, fun _ => (nextU64_facts hc).2.2.2⟩
        simp only [stepM, MOp.target, set_get hj, ← nextU64_flag, hc, Option.map_some]
  | fill i n =>
    simp only [stepM] at h
    rcases hj : s.insts[i]? with _ | j
    · simp [hj] at h
    · rcases hc : Jitter.fill n j s.rs with _ | ⟨⟨bs, j'⟩, rs'⟩
      · simp [hj, hc] at h
      · simp only [hj, hc, Option.some.injEq, Prod.mk.injEq] at h
        obtain ⟨hs, he⟩ := h
        subst hs he
        dsimp only at hw
        split at hw
        · simp at hw
        · rename_i hcnd
          rcases Nat.eq_zero_or_pos n with h0 | h0
          · subst h0
            rw [fill_zero] at hc
            simp only [Option.some.injEq, Prod.mk.injEq] at hc
            obtain ⟨⟨hb, hj'⟩, hrs⟩ := hc
            subst hb hj' hrs
            refine ⟨j, hj, ?_, fun h => by simp [MOp.isOutput] at h⟩
            simp only [stepM, MOp.target, set_get hj, fill_zero, Option.map_some]
          · have hs : ¬ (j.halfUsed = true ∧ n ≤ 4) := fun hh => hcnd ⟨hh.1, h0, hh.2⟩
            refine ⟨j, hj, ?_, fun _ => (fill_facts hc).2.2 h0 hs⟩
            simp only [stepM, MOp.target, set_get hj, ← fill_flag hs, hc, Option.map_some]
  | clone i =>
    simp only [stepM] at h
    rcases hj : s.insts[i]? with _ | j
    · simp [hj] at h
    · simp only [hj, Option.some.injEq, Prod.mk.injEq] at h
      obtain ⟨hs, he⟩ := h
      subst hs he
      refine ⟨j, hj, ?_, fun h => by simp [MOp.isOutput] at h⟩
      simp only [stepM, MOp.target, set_get hj, Option.map_some, List.length_set]

end Rngs.JitterOnce
