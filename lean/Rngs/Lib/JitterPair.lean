/-
  Rngs.Lib.JitterPair — two consecutive measurements of a JitterRng collection.

  Moving ONE time reading `T_k` changes two consecutive deltas, `d_k = T_k − T_{k−1}` and
  `d_{k+1} = T_{k+1} − T_k`.  With `u = d_k ^^^ d_k'`, `w = d_{k+1} ^^^ d_{k+1}'` the pools after
  measurement `k+1` coincide iff `pairAcc (w:u) = 0` (measurement `k` accepted: rotation in between)
  resp. `pairStuck (w:u) = 0` (measurement `k` stuck), two GF(2)-linear maps of the 64-bit word `w:u`.

  * `pairStuck` is injective (literal inverse, checked by the kernel on the basis);
  * `pairAcc` has exactly one non-zero root `kappa` (literal projection matrix, same check); its low
    half is odd and its high half even — but `u` and `w` always have the same lowest bit
    (`= bit 0 of T_k ^^^ T_k'`), so this root never occurs.
  Hence (`pair_absorb_eq_iff`): the two pools coincide iff `T_k ≡ T_k'` mod 2^32.
-/
import Rngs.Lib.PoolJitter
import Rngs.Cert.JitterPairCert
namespace Rngs.JitterPair
open Rngs Rngs.PoolLinear Rngs.PoolJitter

/-! ## the two maps -/

/-- sign extension of the low 32 bits -/
def sx (x : U64) : U64 := (x.setWidth 32 : U32).signExtend 64

theorem sx_isAdd : IsAdd sx := fun a b => by
  unfold sx
  rw [BitVec.setWidth_xor, BitVec.signExtend_xor]

/-- measurement `k` accepted: `x = w:u ↦ lfsr (rotl7 (lfsr 0 (sext u))) (sext w)` -/
def pairAcc (x : U64) : U64 := Jitter.lfsr ((Jitter.lfsr 0 (sx x)).rotateLeft 7) (sx (x >>> 32))

/-- measurement `k` stuck: no rotation in between -/
def pairStuck (x : U64) : U64 := Jitter.lfsr (Jitter.lfsr 0 (sx x)) (sx (x >>> 32))

theorem lfsr0_xor (s t : U64) : Jitter.lfsr 0 (s ^^^ t) = Jitter.lfsr 0 s ^^^ Jitter.lfsr 0 t :=
  lfsr_time_isAdd s t

theorem pairAcc_isAdd : IsAdd pairAcc := fun a b => by
  unfold pairAcc
  rw [sx_isAdd, lfsr0_xor, rotateLeft_xor, BitVec.ushiftRight_xor_distrib, sx_isAdd, lfsr_add]

theorem pairStuck_isAdd : IsAdd pairStuck := fun a b => by
  unfold pairStuck
  rw [sx_isAdd, lfsr0_xor, BitVec.ushiftRight_xor_distrib, sx_isAdd, lfsr_add]

/-! ## the projection used by the certificate of `pairAcc` -/

open Rngs.JitterPairCert

/-- the projection along `kappa` onto the words with bit 0 clear -/
def proj (x : U64) : U64 := x ^^^ (if x.getLsbD 0 then kappa else 0)

theorem proj_isAdd : IsAdd proj := fun a b => by
  unfold proj
  rw [BitVec.getLsbD_xor]
  cases a.getLsbD 0 <;> cases b.getLsbD 0
  · simp
  · simp only [Bool.false_xor, if_true, Bool.false_eq_true, if_false]; ac_rfl
  · simp only [Bool.xor_false, if_true, Bool.false_eq_true, if_false]; ac_rfl
  · simp only [Bool.xor_self, if_true, Bool.false_eq_true, if_false]
    rw [xor_xor_xor_comm, BitVec.xor_self]
    rfl

end Rngs.JitterPair
