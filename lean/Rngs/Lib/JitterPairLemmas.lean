/-
  Rngs.Lib.JitterPairLemmas — consequences of the certificates of `Rngs.Cert.JitterPairCheck`:
  the roots of `pairAcc` / `pairStuck`, and `pair_absorb_eq_iff`: two consecutive measurements whose
  deltas come from moving the time stamp between them leave the same pool iff the time stamp moved by
  a multiple of 2^32.
-/
import Rngs.Cert.JitterPairCheck
import Rngs.Lib.JitterEntropyLemmas
namespace Rngs.JitterPair
open Rngs Rngs.PoolLinear Rngs.PoolJitter Rngs.Spec Rngs.JitterEntropy Rngs.JitterPairCert
open JitterProc (Meas absorb trunc32)

/-! ## roots of the two maps -/

theorem proj_pairAcc (x : U64) : matVec pairAccProj (pairAcc x) = proj x :=
  IsAdd.ext_basis (IsAdd.comp (matVec_isAdd _) pairAcc_isAdd) proj_isAdd pairAcc_cert x

/-- `pairAcc` has exactly one non-zero root -/
theorem pairAcc_eq_zero (x : U64) (h : pairAcc x = 0) : x = 0 ∨ x = kappa := by
  have hp := proj_pairAcc x
  rw [h, (matVec_isAdd pairAccProj).map_zero] at hp
  unfold proj at hp
  cases hb : x.getLsbD 0
  · rw [hb] at hp
    simp only [Bool.false_eq_true, if_false] at hp
    rw [show x ^^^ (0 : U64) = x from BitVec.xor_zero] at hp
    exact .inl hp.symm
  · rw [hb] at hp
    simp only [if_true] at hp
    exact .inr (BitVec.xor_eq_zero_iff.mp hp.symm)

/-- `pairStuck` is injective -/
theorem pairStuck_eq_zero (x : U64) (h : pairStuck x = 0) : x = 0 := by
  have hp := leftInverse_of_basis pairStuck_isAdd pairStuck_cert x
  rw [h, (matVec_isAdd pairStuckInv).map_zero] at hp
  exact hp.symm

/-! ## packing two 32-bit words -/

/-- `w:u` -/
def pack (u w : U32) : U64 := u.setWidth 64 ||| (w.setWidth 64 <<< 32)

theorem lo_pack (u w : U32) : ((pack u w).setWidth 32 : U32) = u := by
  apply BitVec.eq_of_getLsbD_eq
  intro i hi
  simp [pack, hi]

theorem hi_pack (u w : U32) : (((pack u w) >>> 32).setWidth 32 : U32) = w := by
  apply BitVec.eq_of_getLsbD_eq
  intro i hi
  have h1 : 32 + i < 64 := by omega
  have h2 : ¬ 32 + i < 32 := by omega
  have h3 : i < 64 := by omega
  simp [pack, hi, h1, h2, h3]

theorem sx_pack (u w : U32) : sx (pack u w) = u.signExtend 64 := by
  unfold sx; rw [lo_pack]

theorem sx_pack_hi (u w : U32) : sx (pack u w >>> 32) = w.signExtend 64 := by
  unfold sx; rw [hi_pack]

theorem pack_eq (u w : U32) (x : U64) (h : pack u w = x) :
    u = x.setWidth 32 ∧ w = (x >>> 32).setWidth 32 := by
  subst h; exact ⟨(lo_pack u w).symm, (hi_pack u w).symm⟩

/-- measurement `k` accepted: the xor-differences `(u, w)` of the two deltas that make the pools
    coincide are `(0, 0)` and one pair with `u` odd and `w` even -/
theorem acc_root (u w : U32)
    (h : Jitter.lfsr ((Jitter.lfsr 0 (u.signExtend 64)).rotateLeft 7) (w.signExtend 64) = 0) :
    (u = 0 ∧ w = 0) ∨ (u.getLsbD 0 = true ∧ w.getLsbD 0 = false) := by
  have h' : pairAcc (pack u w) = 0 := by
    unfold pairAcc; rw [sx_pack, sx_pack_hi]; exact h
  rcases pairAcc_eq_zero _ h' with h0 | h0
  · obtain ⟨hu, hw⟩ := pack_eq u w _ h0
    exact .inl ⟨hu, hw⟩
  · obtain ⟨hu, hw⟩ := pack_eq u w _ h0
    refine .inr ⟨?_, ?_⟩
    · rw [hu]; decide
    · rw [hw]; decide

/-- measurement `k` stuck: only `(0, 0)` -/
theorem stuck_root (u w : U32)
    (h : Jitter.lfsr (Jitter.lfsr 0 (u.signExtend 64)) (w.signExtend 64) = 0) : u = 0 ∧ w = 0 := by
  have h' : pairStuck (pack u w) = 0 := by
    unfold pairStuck; rw [sx_pack, sx_pack_hi]; exact h
  obtain ⟨hu, hw⟩ := pack_eq u w _ (pairStuck_eq_zero _ h')
  exact ⟨hu, hw⟩

/-! ## the lowest bit of the two xor-differences -/

theorem lsb_sub (a b : U64) : (a - b).getLsbD 0 = (a.getLsbD 0 ^^ b.getLsbD 0) := by
  simp only [BitVec.getLsbD, BitVec.toNat_sub, Nat.testBit_zero]
  have := a.isLt; have := b.isLt
  rcases Nat.mod_two_eq_zero_or_one a.toNat with h1 | h1 <;>
    rcases Nat.mod_two_eq_zero_or_one b.toNat with h2 | h2 <;> simp [h1, h2] <;> omega

theorem lsb_trunc_sub (a b : U64) : (trunc32 (a - b)).getLsbD 0 = (a.getLsbD 0 ^^ b.getLsbD 0) := by
  unfold JitterProc.trunc32
  rw [BitVec.getLsbD_setWidth, lsb_sub]; simp

/-- moving the time stamp `T` to `T'` flips the lowest bits of both affected deltas together -/
theorem lsb_pair (p T T' U : U64) :
    (trunc32 (T - p) ^^^ trunc32 (T' - p)).getLsbD 0 = (trunc32 (U - T) ^^^ trunc32 (U - T')).getLsbD 0 := by
  simp only [BitVec.getLsbD_xor, lsb_trunc_sub]
  cases T.getLsbD 0 <;> cases T'.getLsbD 0 <;> cases p.getLsbD 0 <;> cases U.getLsbD 0 <;> rfl

/-! ## two consecutive measurements -/

theorem lfsr_eq_iff (a a' t t' : U64) :
    Jitter.lfsr a t = Jitter.lfsr a' t' ↔ Jitter.lfsr (a ^^^ a') (t ^^^ t') = 0 := by
  rw [lfsr_add]
  exact BitVec.xor_eq_zero_iff.symm

/-- **two consecutive measurements.**  Previous time stamp `p`, then `T` resp. `T'`, then `U`; the
    same verdicts `s`, `s2` in both runs.  The pools after the second measurement coincide iff
    `T ≡ T'` mod 2^32 — the two changed deltas never cancel. -/
theorem pair_absorb_eq_iff (P p T T' U : U64) (s s2 : Bool) :
    absorb (absorb P ⟨trunc32 (T - p), s⟩) ⟨trunc32 (U - T), s2⟩ =
      absorb (absorb P ⟨trunc32 (T' - p), s⟩) ⟨trunc32 (U - T'), s2⟩ ↔ trunc32 T = trunc32 T' := by
  constructor
  · intro h
    rw [absorb_eq, absorb_eq _ ⟨trunc32 (U - T'), s2⟩] at h
    dsimp only at h
    have h1 : Jitter.lfsr (absorb P ⟨trunc32 (T - p), s⟩) ((trunc32 (U - T)).signExtend 64) =
        Jitter.lfsr (absorb P ⟨trunc32 (T' - p), s⟩) ((trunc32 (U - T')).signExtend 64) := by
      cases s2
      · simpa using rotate7_bijective.1 h
      · simpa using h
    rw [lfsr_eq_iff, ← BitVec.signExtend_xor, absorb_eq, absorb_eq] at h1
    dsimp only at h1
    have hl := lsb_pair p T T' U
    have hu : trunc32 (T - p) ^^^ trunc32 (T' - p) = 0 := by
      cases s
      · simp only [Bool.false_eq_true, if_false] at h1
        rw [← rotateLeft_xor, ← lfsr_add, BitVec.xor_self, ← BitVec.signExtend_xor] at h1
        rcases acc_root _ _ h1 with ⟨h0, _⟩ | ⟨hb1, hb2⟩
        · exact h0
        · rw [hb1, hb2] at hl; cases hl
      · simp only [if_true] at h1
        rw [← lfsr_add, BitVec.xor_self, ← BitVec.signExtend_xor] at h1
        exact (stuck_root _ _ h1).1
    exact (delta_eq_iff p T T').1 (BitVec.xor_eq_zero_iff.mp hu)
  · intro h
    have h1 : trunc32 (T - p) = trunc32 (T' - p) := (delta_eq_iff p T T').2 h
    have h2 : trunc32 (U - T) = trunc32 (U - T') := by
      unfold JitterProc.trunc32 at h ⊢
      rw [trunc_sub, trunc_sub, h]
    rw [h1, h2]

/-! ## whole collections -/

/-- the value as a function of one time stamp `T` between `p` and `U`, everything else fixed -/
theorem output_pair_eq_iff (P : U64) (A R : List Meas) (p T T' U : U64) (s s2 : Bool) :
    output P (A ++ ⟨trunc32 (T - p), s⟩ :: ⟨trunc32 (U - T), s2⟩ :: R) =
      output P (A ++ ⟨trunc32 (T' - p), s⟩ :: ⟨trunc32 (U - T'), s2⟩ :: R) ↔ trunc32 T = trunc32 T' := by
  unfold output
  rw [stir_bijective.1.eq_iff]
  simp only [List.foldl_append, List.foldl_cons]
  rw [(foldl_absorb_bijective R).1.eq_iff, pair_absorb_eq_iff]

open Rngs.JitterRefine in
/-- a collection that consumes exactly `pre ++ [c, T, e] ++ mid`, `T` being a time reading -/
theorem genEntropy_mid (j : Jitter.Rng) (pre mid : List U64) (c T e : U64) (rest : List U64)
    (v : U64) (j₁ : Jitter.Rng) (hp : pre.length % 3 = 1)
    (h : Jitter.genEntropy j (pre ++ c :: T :: e :: (mid ++ rest)) = some ((v, j₁), rest)) :
    ∃ t0 pre', pre = t0 :: pre' ∧ mid.length % 3 = 0 ∧
      JitterProc.measurements (pre ++ c :: T :: e :: mid) =
        measFrom ⟨t0, 0, 0⟩ pre' ++ (step (ecAfter ⟨t0, 0, 0⟩ pre') T).1 ::
          measFrom (step (ecAfter ⟨t0, 0, 0⟩ pre') T).2 mid ∧
      v = output j.data (JitterProc.measurements (pre ++ c :: T :: e :: mid)) := by
  have h0 : Jitter.genEntropy j (pre ++ c :: T :: e :: mid) = some ((v, j₁), []) := by
    apply genEntropy_exact j _ rest
    rw [List.append_assoc]; exact h
  obtain ⟨used, hu, hv, hl⟩ := genEntropy_used_some j _ v j₁ [] h0
  have hx := usedMeas_exact _ _ _ hu (by rw [hl]; simp)
  simp only [List.length_append, List.length_cons, List.length_nil] at hl
  match pre, hp, hl, hx with
  | [], hp, _, _ => simp at hp
  | t0 :: pre', hp, hl, hx =>
    have hp' : pre'.length % 3 = 0 := by simp only [List.length_cons] at hp; omega
    refine ⟨t0, pre', rfl, by simp only [List.length_cons] at hl; omega, ?_, by rw [hv, hx]⟩
    rw [show t0 :: pre' ++ c :: T :: e :: mid = t0 :: (pre' ++ c :: T :: e :: mid) from rfl,
      measurements_cons, measFrom_append _ _ _ hp']
    rfl

theorem output_single_eq_iff (P : U64) (A R : List Meas) (d d' : U32) (s : Bool) :
    output P (A ++ ⟨d, s⟩ :: R) = output P (A ++ ⟨d', s⟩ :: R) ↔ d = d' := by
  unfold output
  rw [stir_bijective.1.eq_iff, foldl_absorb_eq_iff]

open Rngs.JitterRefine in
/-- **one time reading.** -/
theorem genEntropy_one_time_reading (j : Jitter.Rng) (pre mid : List U64) (c T T' e : U64)
    (rest rest' : List U64) (v v' : U64) (j₁ j₁' : Jitter.Rng) (hp : pre.length % 3 = 1)
    (h : Jitter.genEntropy j (pre ++ c :: T :: e :: (mid ++ rest)) = some ((v, j₁), rest))
    (h' : Jitter.genEntropy j (pre ++ c :: T' :: e :: (mid ++ rest')) = some ((v', j₁'), rest'))
    (hf : (JitterProc.measurements (pre ++ c :: T :: e :: mid)).map (·.stuck) =
          (JitterProc.measurements (pre ++ c :: T' :: e :: mid)).map (·.stuck)) :
    v = v' ↔ (T.setWidth 32 : U32) = T'.setWidth 32 := by
  obtain ⟨t0, p, hpre, hm, hms, hv⟩ := genEntropy_mid j pre mid c T e rest v j₁ hp h
  obtain ⟨t0', p', hpre', _, hms', hv'⟩ := genEntropy_mid j pre mid c T' e rest' v' j₁' hp h'
  rw [hpre] at hpre'
  cases hpre'
  rw [hms, hms'] at hf
  rw [hv, hv', hms, hms']
  simp only [List.map_append, List.map_cons, List.append_cancel_left_eq, List.cons.injEq] at hf
  obtain ⟨hs1, hf⟩ := hf
  generalize ecAfter ⟨t0, 0, 0⟩ p = ecA at *
  have e1 : ∀ x, (step ecA x).1 = ⟨trunc32 (x - ecA.prevTime), (step ecA x).1.stuck⟩ := fun _ => rfl
  match mid, hm, hf with
  | [], _, _ =>
    simp only [measFrom]
    rw [e1 T, e1 T', hs1, output_single_eq_iff]
    exact delta_eq_iff _ _ _
  | [_], hm, _ => simp at hm
  | [_, _], hm, _ => simp at hm
  | x :: U :: y :: mid', _, hf =>
    simp only [measFrom, List.map_cons, List.cons.injEq] at hf ⊢
    obtain ⟨hs2, hf⟩ := hf
    have hR : measFrom (step (step ecA T).2 U).2 mid' = measFrom (step (step ecA T').2 U).2 mid' :=
      meas_ext _ _ (measFrom_delta_congr _ _ _ rfl) hf
    have e2 : ∀ x, (step (step ecA x).2 U).1 = ⟨trunc32 (U - x), (step (step ecA x).2 U).1.stuck⟩ :=
      fun _ => rfl
    rw [hR, e1 T, e1 T', e2 T, e2 T', hs1, hs2]
    exact output_pair_eq_iff _ _ _ _ _ _ _ _ _

end Rngs.JitterPair
