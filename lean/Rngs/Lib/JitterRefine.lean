/-
  Rngs.Lib.JitterRefine — lemmas for C12: the executable model `Rngs.Model.Jitter` (a monadic,
  fuel-bounded transliteration of rand_jitter) refines the list program `Rngs.Spec.JitterProc`.
-/
import Rngs.Spec.JitterProc
import Rngs.Model.Jitter
namespace Rngs.JitterRefine
open Rngs
open Rngs.Spec

/-! ## words -/

theorem foldl_congr {α β : Type} (f g : β → α → β) (l : List α) (b : β)
    (h : ∀ b a, a ∈ l → f b a = g b a) : l.foldl f b = l.foldl g b := by
  induction l generalizing b with
  | nil => rfl
  | cons x xs ih =>
    simp only [List.foldl_cons]
    rw [h b x (by simp)]
    exact ih _ (fun b a ha => h b a (by simp [ha]))

theorem shr_and_one (d : U64) (n : Nat) :
    (d >>> n) &&& (1 : U64) = if d.getLsbD n then 1#64 else 0#64 := by
  show (d >>> n) &&& 1#64 = _
  apply BitVec.eq_of_getLsbD_eq
  intro i hi
  by_cases h : d.getLsbD n <;> simp [h] <;> rcases i with _ | i <;> simp [h]

theorem pick_bit (t : U64) (k : Nat) (hk : k < 64) :
    (t <<< (64 - (k + 1))) >>> (64 - 1) = if t.getLsbD k then 1#64 else 0#64 := by
  apply BitVec.eq_of_getLsbD_eq
  intro i hi
  rw [BitVec.getLsbD_ushiftRight, BitVec.getLsbD_shiftLeft]
  rcases i with _ | i
  · have e : 64 - 1 + 0 - (64 - (k + 1)) = k := by omega
    rw [e]
    by_cases h : t.getLsbD k <;> simp [h] <;> omega
  · by_cases h : t.getLsbD k <;> simp [h] <;> omega

theorem xor_tap (d : U64) (n : Nat) : d ^^^ ((d >>> n) &&& (1 : U64)) = JitterProc.tap d n := by
  rw [shr_and_one]; unfold JitterProc.tap
  by_cases h : d.getLsbD n <;> simp [h]

/-- the crate's `fn lfsr` is the documented bit-by-bit fold -/
theorem lfsr_eq (data time : U64) : Jitter.lfsr data time = JitterProc.lfsr data time := by
  unfold Jitter.lfsr JitterProc.lfsr JitterProc.bitsLE
  rw [List.foldl_map]
  apply foldl_congr
  intro d k hk
  have hk : k < 64 := List.mem_range.mp hk
  dsimp only
  simp only [pick_bit time k hk, xor_tap]
  unfold JitterProc.lfsrStep JitterProc.TAPS
  simp only [List.foldl_cons, List.foldl_nil]
  by_cases h : time.getLsbD k <;> simp [h]

theorem stir_eq (data : U64) : Jitter.stir data = JitterProc.stir data := by
  unfold Jitter.stir JitterProc.stir JitterProc.bitsLE
  rw [List.foldl_map]
  show data ^^^ _ = data ^^^ _
  congr 1
  apply foldl_congr
  intro m i _
  dsimp only
  simp only [shr_and_one]
  unfold JitterProc.stirStep
  by_cases h : data.getLsbD i <;> simp [h, Jitter.STIR_CONSTANT, JitterProc.STIR_CONSTANT]

/-! ## the timer monad, unfolded -/

theorem rlc_nil (j : Jitter.Rng) (n : Nat) : Jitter.randomLoopCnt j n [] = none := rfl
theorem rlc_cons (j : Jitter.Rng) (n : Nat) (r : U64) (rs : List U64) :
    ∃ c, Jitter.randomLoopCnt j n (r :: rs) = some (c, rs) := ⟨_, rfl⟩

theorem memaccess_true_nil (j : Jitter.Rng) : Jitter.memaccess j true [] = none := rfl
theorem memaccess_true_cons (j : Jitter.Rng) (r : U64) (rs : List U64) :
    ∃ mp, Jitter.memaccess j true (r :: rs) = some ({ j with memPrevIndex := mp }, rs) := ⟨_, rfl⟩
theorem memaccess_false (j : Jitter.Rng) (rs : List U64) :
    ∃ mp, Jitter.memaccess j false rs = some ({ j with memPrevIndex := mp }, rs) := ⟨_, rfl⟩
theorem lfsrTime_true_nil (j : Jitter.Rng) (t : U64) : Jitter.lfsrTime j t true [] = none := rfl
theorem lfsrTime_true_cons (j : Jitter.Rng) (t r : U64) (rs : List U64) :
    Jitter.lfsrTime j t true (r :: rs) = some ({ j with data := Jitter.lfsr j.data t }, rs) := rfl
theorem lfsrTime_false (j : Jitter.Rng) (t : U64) (rs : List U64) :
    Jitter.lfsrTime j t false rs = some ({ j with data := Jitter.lfsr j.data t }, rs) := rfl
def step (ec : Jitter.Ec) (t : U64) : JitterProc.Meas × Jitter.Ec :=
  let d := JitterProc.trunc32 (t - ec.prevTime)
  let e := ec.lastDelta - d
  (⟨d, d == 0 || e == 0 || e - ec.lastDelta2 == 0⟩, ⟨t, d, e⟩)

theorem ite_pure_apply {α : Type} (c : Bool) (x y : α) (rs : List U64) :
    (if c = true then (pure x : Jitter.TM α) else pure y) rs = some (if c = true then x else y, rs) := by
  cases c <;> rfl

theorem measureJitter_cons (j : Jitter.Rng) (ec : Jitter.Ec) (a t b : U64) (rest : List U64) :
    ∃ mp, Jitter.measureJitter j ec (a :: t :: b :: rest) =
      some ((!(step ec t).1.stuck,
             { j with data := JitterProc.absorb j.data (step ec t).1, memPrevIndex := mp },
             (step ec t).2), rest) := by
  obtain ⟨mp, h⟩ := memaccess_true_cons j a (t :: b :: rest)
  refine ⟨mp, ?_⟩
  unfold Jitter.measureJitter
  simp only [bind, StateT.bind, h]
  simp only [Option.bind_some, Jitter.tick, lfsrTime_true_cons, lfsr_eq]
  rw [ite_pure_apply]
  have e : Jitter.stuck { prevTime := t, lastDelta := ec.lastDelta, lastDelta2 := ec.lastDelta2 }
      (BitVec.setWidth 32 (t - ec.prevTime)) = ((step ec t).1.stuck, (step ec t).2) := rfl
  rw [e]
  dsimp only
  cases hst : (step ec t).1.stuck
  · simp [JitterProc.absorb, hst]; rfl
  · simp [JitterProc.absorb, hst]; rfl

theorem measureJitter_short (j : Jitter.Rng) (ec : Jitter.Ec) (rs : List U64) (h : rs.length < 3) :
    Jitter.measureJitter j ec rs = none := by
  match rs, h with
  | [], _ => rfl
  | [_], _ => rfl
  | [_, _], _ => rfl

/-! ## measurements, recursively -/

/-- the measurements of a time-stamp list, from a running collector state -/
def recT (ec : Jitter.Ec) : List U64 → List JitterProc.Meas
  | [] => []
  | t :: ts => (step ec t).1 :: recT (step ec t).2 ts

/-- the measurements of a reading list, from a running collector state -/
def measFrom (ec : Jitter.Ec) : List U64 → List JitterProc.Meas
  | _ :: t :: _ :: rest => (step ec t).1 :: measFrom (step ec t).2 rest
  | _ => []

theorem measFrom_eq_recT : ∀ (ec : Jitter.Ec) (rs : List U64), measFrom ec rs = recT ec (JitterProc.middles rs)
  | ec, _ :: t :: _ :: rest => by
    simp only [measFrom, JitterProc.middles, recT, measFrom_eq_recT _ rest]
  | _, [] => rfl
  | _, [_] => rfl
  | _, [_, _] => rfl

/-- the `zipWith` pipeline of the specification, started from an arbitrary collector state -/
def pipeline (ec : Jitter.Ec) (ts : List U64) : List JitterProc.Meas :=
  let ds := List.zipWith (fun prev cur => JitterProc.trunc32 (cur - prev)) (ec.prevTime :: ts) ts
  let es := List.zipWith (fun prev cur => prev - cur) (ec.lastDelta :: ds) ds
  let fs := List.zipWith (fun prev cur => cur - prev) (ec.lastDelta2 :: es) es
  List.zipWith JitterProc.Meas.mk ds
    (List.zipWith (fun d ef => d == 0#32 || ef.1 == 0#32 || ef.2 == 0#32) ds (List.zip es fs))

theorem pipeline_eq_recT (ec : Jitter.Ec) (ts : List U64) : pipeline ec ts = recT ec ts := by
  induction ts generalizing ec with
  | nil => rfl
  | cons t ts ih =>
    have := ih (step ec t).2
    simp only [recT, ← this]
    simp only [pipeline, step, List.zipWith_cons_cons, List.zip_cons_cons]
    rfl

theorem measurements_cons (t0 : U64) (rs : List U64) :
    JitterProc.measurements (t0 :: rs) = measFrom ⟨t0, 0, 0⟩ rs := by
  rw [measFrom_eq_recT, ← pipeline_eq_recT]
  simp only [JitterProc.measurements, JitterProc.times, JitterProc.deltas,
    JitterProc.stuckFlags, JitterProc.firstDiffs, JitterProc.secondDiffs, pipeline,
    List.tail_cons]
  rfl

theorem measurements_nil : JitterProc.measurements [] = [] := rfl

/-! ## the rounds loop and one collection -/

/-- the observable part of a model state (`memPrevIndex` only selects which scratch byte the
    memory-access noise source touches) -/
def abs (j : Jitter.Rng) : JitterProc.St := ⟨j.data, j.rounds, j.halfUsed⟩

theorem collect_zero (fuel : Nat) (j : Jitter.Rng) (ec : Jitter.Ec) (rs : List U64) :
    Jitter.collect fuel 0 j ec rs = some ((j, ec), rs) := by
  cases fuel <;> rfl

theorem collect_succ (fuel need : Nat) (j : Jitter.Rng) (ec : Jitter.Ec) (rs : List U64) :
    Jitter.collect (fuel + 1) (need + 1) j ec rs =
      (Jitter.measureJitter j ec rs).bind fun r =>
        if r.1.1 = true then Jitter.collect fuel need r.1.2.1 r.1.2.2 r.2
        else Jitter.collect fuel (need + 1) r.1.2.1 r.1.2.2 r.2 := by
  rw [Jitter.collect]
  simp only [bind, StateT.bind]
  congr 1
  funext r
  rcases r with ⟨⟨ok, j', ec'⟩, rs'⟩
  cases ok <;> rfl

theorem untilAccepted_zero (ms : List JitterProc.Meas) : JitterProc.untilAccepted 0 ms = some [] := by
  cases ms <;> rfl

theorem drop3 {α : Type} (n : Nat) (a b c : α) (l : List α) :
    (a :: b :: c :: l).drop (3 * (n + 1)) = l.drop (3 * n) := by
  have : 3 * (n + 1) = 3 * n + 1 + 1 + 1 := by omega
  rw [this]; rfl

theorem drop4 {α : Type} (n : Nat) (a b c d : α) (l : List α) :
    (a :: b :: c :: d :: l).drop (1 + 3 * (1 + n)) = l.drop (3 * n) := by
  have : 1 + 3 * (1 + n) = 3 * n + 1 + 1 + 1 + 1 := by omega
  rw [this]; rfl

theorem collect_eq : ∀ (fuel need : Nat) (j : Jitter.Rng) (ec : Jitter.Ec) (rs : List U64),
    rs.length < fuel →
    (Jitter.collect fuel need j ec rs).map (fun r => (abs r.1.1, r.2)) =
    (JitterProc.untilAccepted need (measFrom ec rs)).map fun taken =>
      ((⟨taken.foldl JitterProc.absorb j.data, j.rounds, j.halfUsed⟩ : JitterProc.St),
        rs.drop (3 * taken.length))
  | fuel, 0, j, ec, rs, _ => by
    rw [collect_zero, untilAccepted_zero]; rfl
  | 0, _ + 1, _, _, _, h => absurd h (Nat.not_lt_zero _)
  | fuel + 1, need + 1, j, ec, rs, h => by
    rw [collect_succ]
    match rs, h with
    | [], _ => rfl
    | [_], _ => rfl
    | [_, _], _ => rfl
    | a :: t :: b :: rest, h =>
      obtain ⟨mp, hm⟩ := measureJitter_cons j ec a t b rest
      have hlen : rest.length < fuel := by simp at h; omega
      rw [hm, Option.bind_some]
      simp only [measFrom, JitterProc.untilAccepted]
      cases hst : (step ec t).1.stuck
      · simp only [Bool.not_false, if_true]
        rw [collect_eq fuel need _ _ rest hlen]
        simp [Option.map_map, Function.comp_def, List.foldl_cons, hst, JitterProc.absorb, drop3]
      · simp only [Bool.not_true, Bool.false_eq_true, if_false]
        rw [collect_eq fuel (need + 1) _ _ rest hlen]
        simp [Option.map_map, Function.comp_def, List.foldl_cons, hst, JitterProc.absorb, drop3]

theorem genEntropy_nil (j : Jitter.Rng) : Jitter.genEntropy j [] = none := rfl

theorem genEntropy_cons (j : Jitter.Rng) (t0 : U64) (rs : List U64) :
    Jitter.genEntropy j (t0 :: rs) =
      (Jitter.measureJitter j ⟨t0, 0, 0⟩ rs).bind fun r =>
        (Jitter.collect (r.2.length + 1) r.1.2.1.rounds r.1.2.1 r.1.2.2 r.2).bind fun c =>
          some ((Jitter.stir c.1.1.data, { c.1.1 with data := Jitter.stir c.1.1.data }), c.2) := by
  rfl

/-- `gen_entropy` is one collection of the documented procedure -/
theorem genEntropy_eq (j : Jitter.Rng) (rs : List U64) :
    (Jitter.genEntropy j rs).map (fun r => (r.1.1, abs r.1.2, r.2)) =
    (JitterProc.collect j.data j.rounds rs).map fun r =>
      (r.1, (⟨r.1, j.rounds, j.halfUsed⟩ : JitterProc.St), r.2) := by
  unfold JitterProc.collect
  match rs with
  | [] => rfl
  | [_] => rfl
  | [_, _] => rfl
  | [_, _, _] => rfl
  | t0 :: a :: t :: b :: rest =>
    rw [genEntropy_cons, measurements_cons]
    obtain ⟨mp, hm⟩ := measureJitter_cons j ⟨t0, 0, 0⟩ a t b rest
    rw [hm, Option.bind_some]
    simp only [measFrom]
    have hc := collect_eq (rest.length + 1) j.rounds
      { j with data := JitterProc.absorb j.data (step ⟨t0, 0, 0⟩ t).1, memPrevIndex := mp }
      (step ⟨t0, 0, 0⟩ t).2 rest (Nat.lt_succ_self _)
    revert hc
    generalize Jitter.collect (rest.length + 1) j.rounds _ _ rest = X
    generalize JitterProc.untilAccepted j.rounds _ = Y
    intro hc
    rcases X with _ | ⟨⟨j', ec'⟩, rs'⟩ <;> rcases Y with _ | taken
    · rfl
    · simp at hc
    · simp at hc
    · simp only [Option.map_some, Option.some.injEq, Prod.mk.injEq, abs, JitterProc.St.mk.injEq] at hc
      obtain ⟨⟨h1, h2, h3⟩, h4⟩ := hc
      simp only [Option.bind_some, Option.map_some, abs, stir_eq, h1, h2, h3, h4, List.foldl_cons, drop4]

end Rngs.JitterRefine
