/-
  Rngs.Lib.JitterRefine — lemmas for C12: the executable model `Rngs.Model.Jitter` (a monadic,
  fuel-bounded transliteration of rand_jitter) refines the list program `Rngs.Spec.JitterProc`.
-/
import Rngs.Spec.JitterProc
import Rngs.Model.Jitter
namespace Rngs.JitterRefine
open Rngs
open Rngs.Spec

/-! ## words -/

theorem foldl_congr {α β : Type} (f g : β → α → β) (l : List α) (b : β)
    (h : ∀ b a, a ∈ l → f b a = g b a) : l.foldl f b = l.foldl g b := by
  induction l generalizing b with
  | nil => rfl
  | cons x xs ih =>
    simp only [List.foldl_cons]
    rw [h b x (by simp)]
    exact ih _ (fun b a ha => h b a (by simp [ha]))

theorem shr_and_one (d : U64) (n : Nat) :
    (d >>> n) &&& (1 : U64) = if d.getLsbD n then 1#64 else 0#64 := by
  show (d >>> n) &&& 1#64 = _
  apply BitVec.eq_of_getLsbD_eq
  intro i hi
  by_cases h : d.getLsbD n <;> simp [h] <;> rcases i with _ | i <;> simp [h]

theorem pick_bit (t : U64) (k : Nat) (hk : k < 64) :
    (t <<< (64 - (k + 1))) >>> (64 - 1) = if t.getLsbD k then 1#64 else 0#64 := by
  apply BitVec.eq_of_getLsbD_eq
  intro i hi
  rw [BitVec.getLsbD_ushiftRight, BitVec.getLsbD_shiftLeft]
  rcases i with _ | i
  · have e : 64 - 1 + 0 - (64 - (k + 1)) = k := by omega
    rw [e]
    by_cases h : t.getLsbD k <;> simp [h] <;> omega
  · by_cases h : t.getLsbD k <;> simp [h] <;> omega

theorem xor_tap (d : U64) (n : Nat) : d ^^^ ((d >>> n) &&& (1 : U64)) = JitterProc.tap d n := by
  rw [shr_and_one]; unfold JitterProc.tap
  by_cases h : d.getLsbD n <;> simp [h]

/-- the crate's `fn lfsr` is the documented bit-by-bit fold -/
theorem lfsr_eq (data time : U64) : Jitter.lfsr data time = JitterProc.lfsr data time := by
  unfold Jitter.lfsr JitterProc.lfsr JitterProc.bitsLE
  rw [List.foldl_map]
  apply foldl_congr
  intro d k hk
  have hk : k < 64 := List.mem_range.mp hk
  dsimp only
  simp only [pick_bit time k hk, xor_tap]
  unfold JitterProc.lfsrStep JitterProc.TAPS
  simp only [List.foldl_cons, List.foldl_nil]
  by_cases h : time.getLsbD k <;> simp [h]

theorem stir_eq (data : U64) : Jitter.stir data = JitterProc.stir data := by
  unfold Jitter.stir JitterProc.stir JitterProc.bitsLE
  rw [List.foldl_map]
  show data ^^^ _ = data ^^^ _
  congr 1
  apply foldl_congr
  intro m i _
  dsimp only
  simp only [shr_and_one]
  unfold JitterProc.stirStep
  by_cases h : data.getLsbD i <;> simp [h, Jitter.STIR_CONSTANT, JitterProc.STIR_CONSTANT]

/-! ## the timer monad, unfolded -/

theorem rlc_nil (j : Jitter.Rng) (n : Nat) : Jitter.randomLoopCnt j n [] = none := rfl
theorem rlc_cons (j : Jitter.Rng) (n : Nat) (r : U64) (rs : List U64) :
    ∃ c, Jitter.randomLoopCnt j n (r :: rs) = some (c, rs) := ⟨_, rfl⟩

theorem memaccess_true_nil (j : Jitter.Rng) : Jitter.memaccess j true [] = none := rfl
theorem memaccess_true_cons (j : Jitter.Rng) (r : U64) (rs : List U64) :
    ∃ mp, Jitter.memaccess j true (r :: rs) = some ({ j with memPrevIndex := mp }, rs) := ⟨_, rfl⟩
theorem memaccess_false (j : Jitter.Rng) (rs : List U64) :
    ∃ mp, Jitter.memaccess j false rs = some ({ j with memPrevIndex := mp }, rs) := ⟨_, rfl⟩
theorem lfsrTime_true_nil (j : Jitter.Rng) (t : U64) : Jitter.lfsrTime j t true [] = none := rfl
theorem lfsrTime_true_cons (j : Jitter.Rng) (t r : U64) (rs : List U64) :
    Jitter.lfsrTime j t true (r :: rs) = some ({ j with data := Jitter.lfsr j.data t }, rs) := rfl
theorem lfsrTime_false (j : Jitter.Rng) (t : U64) (rs : List U64) :
    Jitter.lfsrTime j t false rs = some ({ j with data := Jitter.lfsr j.data t }, rs) := rfl
def step (ec : Jitter.Ec) (t : U64) : JitterProc.Meas × Jitter.Ec :=
  let d := JitterProc.trunc32 (t - ec.prevTime)
  let e := ec.lastDelta - d
  (⟨d, d == 0 || e == 0 || e - ec.lastDelta2 == 0⟩, ⟨t, d, e⟩)

theorem ite_pure_apply {α : Type} (c : Bool) (x y : α) (rs : List U64) :
    (if c = true then (pure x : Jitter.TM α) else pure y) rs = some (if c = true then x else y, rs) := by
  cases c <;> rfl

theorem measureJitter_cons (j : Jitter.Rng) (ec : Jitter.Ec) (a t b : U64) (rest : List U64) :
    ∃ mp, Jitter.measureJitter j ec (a :: t :: b :: rest) =
      some ((!(step ec t).1.stuck,
             { j with data := JitterProc.absorb j.data (step ec t).1, memPrevIndex := mp },
             (step ec t).2), rest) := by
  obtain ⟨mp, h⟩ := memaccess_true_cons j a (t :: b :: rest)
  refine ⟨mp, ?_⟩
  unfold Jitter.measureJitter
  simp only [bind, StateT.bind, h]
  simp only [Option.bind_some, Jitter.tick, lfsrTime_true_cons, lfsr_eq]
  rw [ite_pure_apply]
  have e : Jitter.stuck { prevTime := t, lastDelta := ec.lastDelta, lastDelta2 := ec.lastDelta2 }
      (BitVec.setWidth 32 (t - ec.prevTime)) = ((step ec t).1.stuck, (step ec t).2) := rfl
  rw [e]
  dsimp only
  cases hst : (step ec t).1.stuck
  · simp [JitterProc.absorb, hst]; rfl
  · simp [JitterProc.absorb, hst]; rfl

theorem measureJitter_short (j : Jitter.Rng) (ec : Jitter.Ec) (rs : List U64) (h : rs.length < 3) :
    Jitter.measureJitter j ec rs = none := by
  match rs, h with
  | [], _ => rfl
  | [_], _ => rfl
  | [_, _], _ => rfl

/-! ## measurements, recursively -/

/-- the measurements of a time-stamp list, from a running collector state -/
def recT (ec : Jitter.Ec) : List U64 → List JitterProc.Meas
  | [] => []
  | t :: ts => (step ec t).1 :: recT (step ec t).2 ts

/-- the measurements of a reading list, from a running collector state -/
def measFrom (ec : Jitter.Ec) : List U64 → List JitterProc.Meas
  | _ :: t :: _ :: rest => (step ec t).1 :: measFrom (step ec t).2 rest
  | _ => []

theorem measFrom_eq_recT : ∀ (ec : Jitter.Ec) (rs : List U64), measFrom ec rs = recT ec (JitterProc.middles rs)
  | ec, _ :: t :: _ :: rest => by
    simp only [measFrom, JitterProc.middles, recT, measFrom_eq_recT _ rest]
  | _, [] => rfl
  | _, [_] => rfl
  | _, [_, _] => rfl

/-- the `zipWith` pipeline of the specification, started from an arbitrary collector state -/
def pipeline (ec : Jitter.Ec) (ts : List U64) : List JitterProc.Meas :=
  let ds := List.zipWith (fun prev cur => JitterProc.trunc32 (cur - prev)) (ec.prevTime :: ts) ts
  let es := List.zipWith (fun prev cur => prev - cur) (ec.lastDelta :: ds) ds
  let fs := List.zipWith (fun prev cur => cur - prev) (ec.lastDelta2 :: es) es
  List.zipWith JitterProc.Meas.mk ds
    (List.zipWith (fun d ef => d == 0#32 || ef.1 == 0#32 || ef.2 == 0#32) ds (List.zip es fs))

theorem pipeline_eq_recT (ec : Jitter.Ec) (ts : List U64) : pipeline ec ts = recT ec ts := by
  induction ts generalizing ec with
  | nil => rfl
  | cons t ts ih =>
    have := ih (step ec t).2
    simp only [recT, ← this]
    simp only [pipeline, step, List.zipWith_cons_cons, List.zip_cons_cons]
    rfl

theorem measurements_cons (t0 : U64) (rs : List U64) :
    JitterProc.measurements (t0 :: rs) = measFrom ⟨t0, 0, 0⟩ rs := by
  rw [measFrom_eq_recT, ← pipeline_eq_recT]
  simp only [JitterProc.measurements, JitterProc.times, JitterProc.deltas,
    JitterProc.stuckFlags, JitterProc.firstDiffs, JitterProc.secondDiffs, pipeline,
    List.tail_cons]
  rfl

theorem measurements_nil : JitterProc.measurements [] = [] := rfl

/-! ## the rounds loop and one collection -/

/-- the observable part of a model state (`memPrevIndex` only selects which scratch byte the
    memory-access noise source touches) -/
def abs (j : Jitter.Rng) : JitterProc.St := ⟨j.data, j.rounds, j.halfUsed⟩

theorem collect_zero (fuel : Nat) (j : Jitter.Rng) (ec : Jitter.Ec) (rs : List U64) :
    Jitter.collect fuel 0 j ec rs = some ((j, ec), rs) := by
  cases fuel <;> rfl

theorem collect_succ (fuel need : Nat) (j : Jitter.Rng) (ec : Jitter.Ec) (rs : List U64) :
    Jitter.collect (fuel + 1) (need + 1) j ec rs =
      (Jitter.measureJitter j ec rs).bind fun r =>
        if r.1.1 = true then Jitter.collect fuel need r.1.2.1 r.1.2.2 r.2
        else Jitter.collect fuel (need + 1) r.1.2.1 r.1.2.2 r.2 := by
  rw [Jitter.collect]
  simp only [bind, StateT.bind]
  congr 1
  funext r
  rcases r with ⟨⟨ok, j', ec'⟩, rs'⟩
  cases ok <;> rfl

theorem untilAccepted_zero (ms : List JitterProc.Meas) : JitterProc.untilAccepted 0 ms = some [] := by
  cases ms <;> rfl

theorem drop3 {α : Type} (n : Nat) (a b c : α) (l : List α) :
    (a :: b :: c :: l).drop (3 * (n + 1)) = l.drop (3 * n) := by
  have : 3 * (n + 1) = 3 * n + 1 + 1 + 1 := by omega
  rw [this]; rfl

theorem drop4 {α : Type} (n : Nat) (a b c d : α) (l : List α) :
    (a :: b :: c :: d :: l).drop (1 + 3 * (1 + n)) = l.drop (3 * n) := by
  have : 1 + 3 * (1 + n) = 3 * n + 1 + 1 + 1 + 1 := by omega
  rw [this]; rfl

theorem collect_eq : ∀ (fuel need : Nat) (j : Jitter.Rng) (ec : Jitter.Ec) (rs : List U64),
    rs.length < fuel →
    (Jitter.collect fuel need j ec rs).map (fun r => (abs r.1.1, r.2)) =
    (JitterProc.untilAccepted need (measFrom ec rs)).map fun taken =>
      ((⟨taken.foldl JitterProc.absorb j.data, j.rounds, j.halfUsed⟩ : JitterProc.St),
        rs.drop (3 * taken.length))
  | fuel, 0, j, ec, rs, _ => by
    rw [collect_zero, untilAccepted_zero]; rfl
  | 0, _ + 1, _, _, _, h => absurd h (Nat.not_lt_zero _)
  | fuel + 1, need + 1, j, ec, rs, h => by
    rw [collect_succ]
    match rs, h with
    | [], _ => rfl
    | [_], _ => rfl
    | [_, _], _ => rfl
    | a :: t :: b :: rest, h =>
      obtain ⟨mp, hm⟩ := measureJitter_cons j ec a t b rest
      have hlen : rest.length < fuel := by simp at h; omega
      rw [hm, Option.bind_some]
      simp only [measFrom, JitterProc.untilAccepted]
      cases hst : (step ec t).1.stuck
      · simp only [Bool.not_false, if_true]
        rw [collect_eq fuel need _ _ rest hlen]
        simp [Option.map_map, Function.comp_def, List.foldl_cons, hst, JitterProc.absorb, drop3]
      · simp only [Bool.not_true, Bool.false_eq_true, if_false]
        rw [collect_eq fuel (need + 1) _ _ rest hlen]
        simp [Option.map_map, Function.comp_def, List.foldl_cons, hst, JitterProc.absorb, drop3]

theorem genEntropy_nil (j : Jitter.Rng) : Jitter.genEntropy j [] = none := rfl

theorem genEntropy_cons (j : Jitter.Rng) (t0 : U64) (rs : List U64) :
    Jitter.genEntropy j (t0 :: rs) =
      (Jitter.measureJitter j ⟨t0, 0, 0⟩ rs).bind fun r =>
        (Jitter.collect (r.2.length + 1) r.1.2.1.rounds r.1.2.1 r.1.2.2 r.2).bind fun c =>
          some ((Jitter.stir c.1.1.data, { c.1.1 with data := Jitter.stir c.1.1.data }), c.2) := by
  rfl

/-- `gen_entropy` is one collection of the documented procedure -/
theorem genEntropy_eq (j : Jitter.Rng) (rs : List U64) :
    (Jitter.genEntropy j rs).map (fun r => (r.1.1, abs r.1.2, r.2)) =
    (JitterProc.collect j.data j.rounds rs).map fun r =>
      (r.1, (⟨r.1, j.rounds, j.halfUsed⟩ : JitterProc.St), r.2) := by
  unfold JitterProc.collect
  match rs with
  | [] => rfl
  | [_] => rfl
  | [_, _] => rfl
  | [_, _, _] => rfl
  | t0 :: a :: t :: b :: rest =>
    rw [genEntropy_cons, measurements_cons]
    obtain ⟨mp, hm⟩ := measureJitter_cons j ⟨t0, 0, 0⟩ a t b rest
    rw [hm, Option.bind_some]
    simp only [measFrom]
    have hc := collect_eq (rest.length + 1) j.rounds
      { j with data := JitterProc.absorb j.data (step ⟨t0, 0, 0⟩ t).1, memPrevIndex := mp }
      (step ⟨t0, 0, 0⟩ t).2 rest (Nat.lt_succ_self _)
    revert hc
    generalize Jitter.collect (rest.length + 1) j.rounds _ _ rest = X
    generalize JitterProc.untilAccepted j.rounds _ = Y
    intro hc
    rcases X with _ | ⟨⟨j', ec'⟩, rs'⟩ <;> rcases Y with _ | taken
    · rfl
    · simp at hc
    · simp at hc
    · simp only [Option.map_some, Option.some.injEq, Prod.mk.injEq, abs, JitterProc.St.mk.injEq] at hc
      obtain ⟨⟨h1, h2, h3⟩, h4⟩ := hc
      simp only [Option.bind_some, Option.map_some, abs, stir_eq, h1, h2, h3, h4, List.foldl_cons, drop4]

/-! ## the operations -/

/-- what a caller can observe of a model operation: result, abstract state, remaining readings -/
def obs {α : Type} (x : Option ((α × Jitter.Rng) × List U64)) : Option (α × JitterProc.St × List U64) :=
  x.map fun r => (r.1.1, abs r.1.2, r.2)

theorem obs_bind {α β : Type} (X : Option ((α × Jitter.Rng) × List U64))
    (F : (α × Jitter.Rng) × List U64 → Option ((β × Jitter.Rng) × List U64))
    (G : α × JitterProc.St × List U64 → Option (β × JitterProc.St × List U64))
    (hFG : ∀ a j rs, obs (F ((a, j), rs)) = G (a, abs j, rs)) :
    obs (X.bind F) = (obs X).bind G := by
  rcases X with _ | ⟨⟨a, j⟩, rs⟩
  · rfl
  · exact hFG a j rs

theorem nextU64_eq (j : Jitter.Rng) (rs : List U64) :
    obs (Jitter.nextU64 j rs) = JitterProc.nextU64 (abs j) rs := by
  have h := genEntropy_eq { j with halfUsed := false } rs
  unfold obs Jitter.nextU64 JitterProc.nextU64
  rw [h]
  simp [abs]

theorem nextU32_unfold (j : Jitter.Rng) (rs : List U64) :
    Jitter.nextU32 j rs =
      if j.halfUsed then some (((j.data >>> 32).setWidth 32, { j with halfUsed := false }), rs)
      else (Jitter.nextU64 j rs).bind fun r =>
        some ((r.1.1.setWidth 32, { r.1.2 with data := r.1.1, halfUsed := true }), r.2) := by
  unfold Jitter.nextU32
  cases j.halfUsed <;> rfl

theorem nextU32_eq (j : Jitter.Rng) (rs : List U64) :
    obs (Jitter.nextU32 j rs) = JitterProc.nextU32 (abs j) rs := by
  rw [nextU32_unfold]
  unfold JitterProc.nextU32
  cases h : j.halfUsed
  · simp only [Bool.false_eq_true, if_false, abs, h]
    rw [obs_bind _ _ (fun p => some (p.1.setWidth 32, { p.2.1 with pool := p.1, pending := true }, p.2.2))
      (by intros; rfl), nextU64_eq]
    unfold JitterProc.nextU64
    simp only [abs]
    rcases JitterProc.collect j.data j.rounds rs with _ | ⟨v, rest⟩
    · rfl
    · rfl
  · simp [abs, h, obs]

/-! ### bytes -/

theorem toLE64 (w : U64) : U64.toLE w = JitterProc.leBytes 8 w := by
  simp [U64.toLE, JitterProc.leBytes, List.range, List.range.loop]

theorem toLE32 (w : U32) : U32.toLE w = JitterProc.leBytes 4 w := by
  simp [U32.toLE, JitterProc.leBytes, List.range, List.range.loop]

theorem leBytes_take {w : Nat} (x : BitVec w) (k r : Nat) (h : r ≤ k) :
    (JitterProc.leBytes k x).take r = JitterProc.leBytes r x := by
  simp [JitterProc.leBytes, ← List.map_take, List.take_range, Nat.min_eq_left h]

theorem fillLoop_succ (k : Nat) (j : Jitter.Rng) (rs : List U64) :
    Jitter.fillLoop (k + 1) j rs =
      (Jitter.nextU64 j rs).bind fun r =>
        (Jitter.fillLoop k r.1.2 r.2).bind fun q =>
          some ((U64.toLE r.1.1 ++ q.1.1, q.1.2), q.2) := by
  rfl

theorem words_succ (k : Nat) (st : JitterProc.St) (rs : List U64) :
    JitterProc.words (k + 1) st rs =
      (JitterProc.nextU64 st rs).bind fun p =>
        (JitterProc.words k p.2.1 p.2.2).map fun q => (p.1 :: q.1, q.2) := by
  rw [JitterProc.words]
  rcases JitterProc.nextU64 st rs with _ | ⟨w, st', rs'⟩ <;> rfl

theorem fillLoop_eq (k : Nat) (j : Jitter.Rng) (rs : List U64) :
    obs (Jitter.fillLoop k j rs) =
      (JitterProc.words k (abs j) rs).map fun p => (p.1.flatMap (JitterProc.leBytes 8), p.2) := by
  induction k generalizing j rs with
  | zero => rfl
  | succ k ih =>
    rw [fillLoop_succ]
    rw [obs_bind _ _ (fun p => ((JitterProc.words k p.2.1 p.2.2).map fun q =>
        (q.1.flatMap (JitterProc.leBytes 8), q.2)).bind fun q =>
          some (JitterProc.leBytes 8 p.1 ++ q.1, q.2)) ?_, nextU64_eq]
    · rw [words_succ]
      rcases JitterProc.nextU64 (abs j) rs with _ | ⟨w, st, rs'⟩
      · rfl
      · simp only [Option.bind_some]
        rcases JitterProc.words k st rs' with _ | ⟨ws, st', rs''⟩
        · rfl
        · simp
    · intro a j' rs'
      rw [obs_bind _ _ (fun q => some (JitterProc.leBytes 8 a ++ q.1, q.2)) ?_, ih]
      intro b j'' rs''
      simp [obs, toLE64]

theorem fill_unfold (n : Nat) (j : Jitter.Rng) (rs : List U64) :
    Jitter.fill n j rs =
      (Jitter.fillLoop (n / 8) j rs).bind fun p =>
        if n % 8 > 4 then
          (Jitter.nextU64 p.1.2 p.2).bind fun q => some ((p.1.1 ++ (U64.toLE q.1.1).take (n % 8), q.1.2), q.2)
        else if n % 8 > 0 then
          (Jitter.nextU32 p.1.2 p.2).bind fun q => some ((p.1.1 ++ (U32.toLE q.1.1).take (n % 8), q.1.2), q.2)
        else some p := by
  unfold Jitter.fill
  simp only [bind, StateT.bind]
  congr 1
  funext p
  rcases p with ⟨⟨pre, j'⟩, rs'⟩
  dsimp only
  split
  · rfl
  · split <;> rfl

theorem fill_eq (n : Nat) (j : Jitter.Rng) (rs : List U64) :
    obs (Jitter.fill n j rs) = JitterProc.fillBytes n (abs j) rs := by
  rw [fill_unfold]
  rw [obs_bind _ _ (fun p =>
      if 5 ≤ n % 8 then
        (JitterProc.nextU64 p.2.1 p.2.2).map fun q => (p.1 ++ JitterProc.leBytes (n % 8) q.1, q.2)
      else if 1 ≤ n % 8 then
        (JitterProc.nextU32 p.2.1 p.2.2).map fun q => (p.1 ++ JitterProc.leBytes (n % 8) q.1, q.2)
      else some p) ?_, fillLoop_eq]
  · unfold JitterProc.fillBytes
    rcases JitterProc.words (n / 8) (abs j) rs with _ | ⟨ws, st, rs'⟩
    · rfl
    · rfl
  · intro pre j' rs'
    have hlt : n % 8 < 8 := Nat.mod_lt _ (by decide)
    by_cases h5 : 5 ≤ n % 8
    · have : n % 8 > 4 := h5
      simp only [this, h5, if_true]
      rw [obs_bind _ _ (fun q => some (pre ++ JitterProc.leBytes (n % 8) q.1, q.2)) ?_, nextU64_eq]
      · rcases JitterProc.nextU64 (abs j') rs' with _ | q <;> rfl
      · intro a j'' rs''
        simp [obs, toLE64, leBytes_take _ 8 (n % 8) (by omega)]
    · have : ¬ n % 8 > 4 := h5
      simp only [this, h5, if_false]
      by_cases h1 : 1 ≤ n % 8
      · have : n % 8 > 0 := h1
        simp only [this, h1, if_true]
        rw [obs_bind _ _ (fun q => some (pre ++ JitterProc.leBytes (n % 8) q.1, q.2)) ?_, nextU32_eq]
        · rcases JitterProc.nextU32 (abs j') rs' with _ | q <;> rfl
        · intro a j'' rs''
          simp [obs, toLE32, leBytes_take _ 4 (n % 8) (by omega)]
      · have : ¬ n % 8 > 0 := h1
        simp only [this, h1, if_false]
        rfl

theorem timerStats_unfold (j : Jitter.Rng) (b : Bool) (rs : List U64) :
    Jitter.timerStats j b rs =
      (Jitter.tick rs).bind fun p => (Jitter.memaccess j b p.2).bind fun q =>
        (Jitter.lfsrTime q.1 p.1 b q.2).bind fun r => (Jitter.tick r.2).bind fun s =>
          some ((s.1 - p.1, r.1), s.2) := rfl

theorem tick_cons (r : U64) (rs : List U64) : Jitter.tick (r :: rs) = some (r, rs) := rfl
theorem tick_nil : Jitter.tick [] = none := rfl

theorem timerStats_eq (j : Jitter.Rng) (b : Bool) (rs : List U64) :
    obs (Jitter.timerStats j b rs) = JitterProc.timerStats b (abs j) rs := by
  rw [timerStats_unfold]
  cases b
  · match rs with
    | [] => rfl
    | [t] =>
      obtain ⟨mp, hm⟩ := memaccess_false j []
      simp only [tick_cons, Option.bind_some, hm, lfsrTime_false, tick_nil]
      rfl
    | t :: t2 :: rest =>
      obtain ⟨mp, hm⟩ := memaccess_false j (t2 :: rest)
      simp only [tick_cons, Option.bind_some, hm, lfsrTime_false, lfsr_eq]
      rfl
  · match rs with
    | [] => rfl
    | [_] => simp only [tick_cons, Option.bind_some, memaccess_true_nil]; rfl
    | [_, a] =>
      obtain ⟨mp, hm⟩ := memaccess_true_cons j a []
      simp only [tick_cons, Option.bind_some, hm, lfsrTime_true_nil]; rfl
    | [_, a, b] =>
      obtain ⟨mp, hm⟩ := memaccess_true_cons j a [b]
      simp only [tick_cons, Option.bind_some, hm, lfsrTime_true_cons, tick_nil]; rfl
    | t :: a :: b :: t2 :: rest =>
      obtain ⟨mp, hm⟩ := memaccess_true_cons j a (b :: t2 :: rest)
      simp only [tick_cons, Option.bind_some, hm, lfsrTime_true_cons, lfsr_eq]; rfl

theorem setRounds_eq (j : Jitter.Rng) (r : Nat) :
    (Jitter.setRounds j r).map abs = JitterProc.setRounds r (abs j) := by
  unfold Jitter.setRounds JitterProc.setRounds
  by_cases h : r > 0 <;> simp [h, abs]

/-! ## operation sequences -/

open JitterProc (Op Res Halt orBlocked)

/-- one operation on the model -/
def stepModel (op : Op) (j : Jitter.Rng) (rs : List U64) : Except Halt (Res × Jitter.Rng × List U64) :=
  match op with
  | .nextU32 => (orBlocked (Jitter.nextU32 j rs)).map fun r => (.u32 r.1.1, r.1.2, r.2)
  | .nextU64 => (orBlocked (Jitter.nextU64 j rs)).map fun r => (.u64 r.1.1, r.1.2, r.2)
  | .fillBytes n => (orBlocked (Jitter.fill n j rs)).map fun r => (.bytes r.1.1, r.1.2, r.2)
  | .timerStats var => (orBlocked (Jitter.timerStats j var rs)).map fun r => (.stats r.1.1, r.1.2, r.2)
  | .setRounds r =>
    match Jitter.setRounds j r with
    | none => .error .panicked
    | some j => .ok (.unit, j, rs)

/-- a sequence of operations on the model -/
def runModel : List Op → Jitter.Rng → List U64 → Except Halt (List Res × Jitter.Rng × List U64)
  | [], j, rs => .ok ([], j, rs)
  | op :: ops, j, rs =>
    match stepModel op j rs with
    | .error h => .error h
    | .ok (r, j, rs) => (runModel ops j rs).map fun (res, j, rs) => (r :: res, j, rs)

/-- forget `memPrevIndex` in an outcome -/
def absOut {α : Type} (x : Except Halt (α × Jitter.Rng × List U64)) : Except Halt (α × JitterProc.St × List U64) :=
  x.map fun r => (r.1, abs r.2.1, r.2.2)

theorem orBlocked_obs {α β : Type} (x : Option ((α × Jitter.Rng) × List U64)) (f : α → β)
    (y : Option (α × JitterProc.St × List U64)) (h : obs x = y) :
    absOut ((orBlocked x).map fun r => (f r.1.1, r.1.2, r.2)) =
      (orBlocked y).map fun r => (f r.1, r.2.1, r.2.2) := by
  subst h
  rcases x with _ | ⟨⟨a, j⟩, rs⟩ <;> rfl

theorem step_eq (op : Op) (j : Jitter.Rng) (rs : List U64) :
    absOut (stepModel op j rs) = JitterProc.stepSpec op (abs j) rs := by
  cases op with
  | nextU32 => exact orBlocked_obs _ Res.u32 _ (nextU32_eq j rs)
  | nextU64 => exact orBlocked_obs _ Res.u64 _ (nextU64_eq j rs)
  | fillBytes n => exact orBlocked_obs _ Res.bytes _ (fill_eq n j rs)
  | timerStats var => exact orBlocked_obs _ Res.stats _ (timerStats_eq j var rs)
  | setRounds r =>
    have h := setRounds_eq j r
    simp only [stepModel, JitterProc.stepSpec]
    rw [← h]
    rcases Jitter.setRounds j r with _ | j' <;> rfl

theorem run_eq (ops : List Op) (j : Jitter.Rng) (rs : List U64) :
    absOut (runModel ops j rs) = JitterProc.runSpec ops (abs j) rs := by
  induction ops generalizing j rs with
  | nil => rfl
  | cons op ops ih =>
    have hs := step_eq op j rs
    unfold runModel JitterProc.runSpec
    rw [← hs]
    rcases stepModel op j rs with h | ⟨r, j', rs'⟩
    · rfl
    · simp only [absOut, Except.map]
      rw [← ih j' rs']
      rcases runModel ops j' rs' with h | ⟨res, j'', rs''⟩ <;> rfl

/-! ## counting -/

open JitterProc (Meas untilAccepted)

/-- number of measurements that pass the stuck test -/
def accepted (l : List Meas) : Nat := l.countP fun m => !m.stuck
/-- number of stuck measurements -/
def skipped (l : List Meas) : Nat := l.countP fun m => m.stuck

theorem accepted_cons (m : Meas) (l : List Meas) :
    accepted (m :: l) = accepted l + (if m.stuck then 0 else 1) := by
  unfold accepted; cases h : m.stuck <;> simp [h]

theorem skipped_cons (m : Meas) (l : List Meas) :
    skipped (m :: l) = skipped l + (if m.stuck then 1 else 0) := by
  unfold skipped; cases h : m.stuck <;> simp [h]

theorem untilAccepted_succ_cons (n : Nat) (m : Meas) (ms : List Meas) :
    untilAccepted (n + 1) (m :: ms) = (untilAccepted (if m.stuck then n + 1 else n) ms).map (m :: ·) := by
  rw [untilAccepted]

theorem untilAccepted_some : ∀ (ms : List Meas) (n : Nat) (l : List Meas), untilAccepted n ms = some l →
    l = ms.take l.length ∧ l.length ≤ ms.length ∧ accepted l = n ∧ l.length = n + skipped l ∧
      ∀ k, k < l.length → accepted (l.take k) < n
  | ms, 0, l, h => by
    rw [untilAccepted_zero] at h
    cases h
    simp [accepted, skipped]
  | [], n + 1, l, h => by simp [untilAccepted] at h
  | m :: ms, n + 1, l, h => by
    rw [untilAccepted_succ_cons] at h
    rcases h0 : untilAccepted (if m.stuck then n + 1 else n) ms with _ | l0
    · simp [h0] at h
    · rw [h0] at h
      cases h
      obtain ⟨h1, h2, h3, h4, h5⟩ := untilAccepted_some ms _ l0 h0
      refine ⟨?_, ?_, ?_, ?_, ?_⟩
      · simp only [List.length_cons, List.take_succ_cons]; rw [← h1]
      · simp only [List.length_cons]; omega
      · rw [accepted_cons, h3]; cases m.stuck <;> simp
      · rw [skipped_cons, List.length_cons, h4]; cases m.stuck <;> simp <;> omega
      · intro k hk
        rcases k with _ | k
        · simp [accepted]
        · simp only [List.take_succ_cons, accepted_cons]
          have := h5 k (by simpa using hk)
          revert this
          cases m.stuck <;> simp <;> omega

theorem untilAccepted_none : ∀ (ms : List Meas) (n : Nat), untilAccepted n ms = none ↔ accepted ms < n
  | ms, 0 => by simp [untilAccepted_zero]
  | [], n + 1 => by simp [untilAccepted, accepted]
  | m :: ms, n + 1 => by
    rw [untilAccepted_succ_cons, Option.map_eq_none_iff, untilAccepted_none ms, accepted_cons]
    cases m.stuck <;> simp <;> omega

theorem measFrom_length : ∀ (ec : Jitter.Ec) (rs : List U64), 3 * (measFrom ec rs).length ≤ rs.length
  | ec, _ :: t :: _ :: rest => by
    have := measFrom_length (step ec t).2 rest
    simp only [measFrom, List.length_cons]; omega
  | _, [] => by simp [measFrom]
  | _, [_] => by simp [measFrom]
  | _, [_, _] => by simp [measFrom]

theorem measurements_length (rs : List U64) (h : JitterProc.measurements rs ≠ []) :
    1 + 3 * (JitterProc.measurements rs).length ≤ rs.length := by
  rcases rs with _ | ⟨t0, rs⟩
  · exact absurd measurements_nil h
  · rw [measurements_cons]
    have := measFrom_length ⟨t0, 0, 0⟩ rs
    simp only [List.length_cons]; omega

/-- what a successful collection consists of -/
theorem collect_some (pool : U64) (rounds : Nat) (rs : List U64) (v : U64) (rs' : List U64)
    (h : JitterProc.collect pool rounds rs = some (v, rs')) :
    ∃ prime ms taken, JitterProc.measurements rs = prime :: ms ∧
      untilAccepted rounds ms = some taken ∧
      v = JitterProc.stir ((prime :: taken).foldl JitterProc.absorb pool) ∧
      rs' = rs.drop (1 + 3 * (1 + taken.length)) ∧
      rs.length = rs'.length + (1 + 3 * (1 + taken.length)) := by
  unfold JitterProc.collect at h
  have hl := measurements_length rs
  rcases hm : JitterProc.measurements rs with _ | ⟨prime, ms⟩
  · rw [hm] at h; simp at h
  · rw [hm] at h hl
    dsimp only at h
    rcases ht : untilAccepted rounds ms with _ | taken
    · rw [ht] at h; simp at h
    · rw [ht] at h
      simp only [Option.map_some, Option.some.injEq, Prod.mk.injEq] at h
      obtain ⟨hv, hr⟩ := h
      refine ⟨prime, ms, taken, rfl, ht, hv.symm, hr.symm, ?_⟩
      have h2 := (untilAccepted_some ms rounds taken ht).2.1
      have hl := hl (by simp)
      simp only [List.length_cons] at hl
      rw [← hr, List.length_drop]
      omega

/-! ## the remaining readings are a suffix of the readings -/

theorem collect_suffix {pool : U64} {rounds : Nat} {rs : List U64} {v : U64} {rs' : List U64}
    (h : JitterProc.collect pool rounds rs = some (v, rs')) : rs' <:+ rs := by
  obtain ⟨_, _, taken, _, _, _, hr, _⟩ := collect_some pool rounds rs v rs' h
  rw [hr]; exact List.drop_suffix _ _

theorem nextU64_suffix {st : JitterProc.St} {rs : List U64} {v : U64} {st' : JitterProc.St} {rs' : List U64}
    (h : JitterProc.nextU64 st rs = some (v, st', rs')) : rs' <:+ rs := by
  unfold JitterProc.nextU64 at h
  rcases hc : JitterProc.collect st.pool st.rounds rs with _ | ⟨v0, r0⟩
  · simp [hc] at h
  · rw [hc] at h
    simp only [Option.map_some, Option.some.injEq, Prod.mk.injEq] at h
    rw [← h.2.2]; exact collect_suffix hc

theorem nextU32_suffix {st : JitterProc.St} {rs : List U64} {v : U32} {st' : JitterProc.St} {rs' : List U64}
    (h : JitterProc.nextU32 st rs = some (v, st', rs')) : rs' <:+ rs := by
  unfold JitterProc.nextU32 at h
  split at h
  · simp only [Option.some.injEq, Prod.mk.injEq] at h
    rw [← h.2.2]; exact List.suffix_refl _
  · rcases hc : JitterProc.collect st.pool st.rounds rs with _ | ⟨v0, r0⟩
    · simp [hc] at h
    · rw [hc] at h
      simp only [Option.map_some, Option.some.injEq, Prod.mk.injEq] at h
      rw [← h.2.2]; exact collect_suffix hc

theorem words_suffix : ∀ (k : Nat) {st : JitterProc.St} {rs : List U64} {ws : List U64} {st' : JitterProc.St}
    {rs' : List U64}, JitterProc.words k st rs = some (ws, st', rs') → rs' <:+ rs
  | 0, st, rs, ws, st', rs', h => by
    simp only [JitterProc.words, Option.some.injEq, Prod.mk.injEq] at h
    rw [← h.2.2]; exact List.suffix_refl _
  | k + 1, st, rs, ws, st', rs', h => by
    rw [words_succ] at h
    rcases h1 : JitterProc.nextU64 st rs with _ | ⟨w, st1, rs1⟩
    · simp [h1] at h
    · rw [h1, Option.bind_some] at h
      rcases h2 : JitterProc.words k st1 rs1 with _ | ⟨ws2, st2, rs2⟩
      · simp [h2] at h
      · simp only [h2, Option.map_some, Option.some.injEq, Prod.mk.injEq] at h
        rw [← h.2.2]
        exact (words_suffix k h2).trans (nextU64_suffix h1)

theorem fillBytes_suffix {n : Nat} {st : JitterProc.St} {rs : List U64} {bs : List U8} {st' : JitterProc.St}
    {rs' : List U64} (h : JitterProc.fillBytes n st rs = some (bs, st', rs')) : rs' <:+ rs := by
  unfold JitterProc.fillBytes at h
  rcases h1 : JitterProc.words (n / 8) st rs with _ | ⟨ws, st1, rs1⟩
  · simp [h1] at h
  · rw [h1] at h
    dsimp only at h
    have s1 := words_suffix _ h1
    split at h
    · rcases h2 : JitterProc.nextU64 st1 rs1 with _ | ⟨w, st2, rs2⟩
      · simp [h2] at h
      · simp only [h2, Option.map_some, Option.some.injEq, Prod.mk.injEq] at h
        rw [← h.2.2]; exact (nextU64_suffix h2).trans s1
    · split at h
      · rcases h2 : JitterProc.nextU32 st1 rs1 with _ | ⟨w, st2, rs2⟩
        · simp [h2] at h
        · simp only [h2, Option.map_some, Option.some.injEq, Prod.mk.injEq] at h
          rw [← h.2.2]; exact (nextU32_suffix h2).trans s1
      · simp only [Option.some.injEq, Prod.mk.injEq] at h
        rw [← h.2.2]; exact s1

theorem timerStats_suffix {b : Bool} {st : JitterProc.St} {rs : List U64} {d : U64} {st' : JitterProc.St}
    {rs' : List U64} (h : JitterProc.timerStats b st rs = some (d, st', rs')) :
    rs' = rs.drop (if b then 4 else 2) ∧ (if b then 4 else 2) ≤ rs.length := by
  unfold JitterProc.timerStats at h
  split at h
  · simp only [Option.some.injEq, Prod.mk.injEq] at h
    simp [← h.2.2]
  · simp only [Option.some.injEq, Prod.mk.injEq] at h
    simp [← h.2.2]
  · simp at h

theorem orBlocked_ok {α : Type} {x : Option α} {a : α} (h : orBlocked x = .ok a) : x = some a := by
  cases x with
  | none => simp [orBlocked] at h
  | some b => simp only [orBlocked, Except.ok.injEq] at h; rw [h]

theorem stepSpec_suffix {op : Op} {st : JitterProc.St} {rs : List U64} {r : Res} {st' : JitterProc.St}
    {rs' : List U64} (h : JitterProc.stepSpec op st rs = .ok (r, st', rs')) : rs' <:+ rs := by
  cases op with
  | nextU32 =>
    simp only [JitterProc.stepSpec] at h
    rcases hx : JitterProc.nextU32 st rs with _ | ⟨a, st1, rs1⟩
    · simp [hx, orBlocked, Except.map] at h
    · simp only [hx, orBlocked, Except.map, Except.ok.injEq, Prod.mk.injEq] at h
      rw [← h.2.2]; exact nextU32_suffix hx
  | nextU64 =>
    simp only [JitterProc.stepSpec] at h
    rcases hx : JitterProc.nextU64 st rs with _ | ⟨a, st1, rs1⟩
    · simp [hx, orBlocked, Except.map] at h
    · simp only [hx, orBlocked, Except.map, Except.ok.injEq, Prod.mk.injEq] at h
      rw [← h.2.2]; exact nextU64_suffix hx
  | fillBytes n =>
    simp only [JitterProc.stepSpec] at h
    rcases hx : JitterProc.fillBytes n st rs with _ | ⟨a, st1, rs1⟩
    · simp [hx, orBlocked, Except.map] at h
    · simp only [hx, orBlocked, Except.map, Except.ok.injEq, Prod.mk.injEq] at h
      rw [← h.2.2]; exact fillBytes_suffix hx
  | timerStats b =>
    simp only [JitterProc.stepSpec] at h
    rcases hx : JitterProc.timerStats b st rs with _ | ⟨a, st1, rs1⟩
    · simp [hx, orBlocked, Except.map] at h
    · simp only [hx, orBlocked, Except.map, Except.ok.injEq, Prod.mk.injEq] at h
      rw [← h.2.2, (timerStats_suffix hx).1]; exact List.drop_suffix _ _
  | setRounds n =>
    simp only [JitterProc.stepSpec] at h
    rcases hx : JitterProc.setRounds n st with _ | st1
    · simp [hx] at h
    · simp only [hx, Except.ok.injEq, Prod.mk.injEq] at h
      rw [← h.2.2]; exact List.suffix_refl _

theorem runSpec_suffix : ∀ (ops : List Op) {st : JitterProc.St} {rs : List U64} {res : List Res}
    {st' : JitterProc.St} {rs' : List U64}, JitterProc.runSpec ops st rs = .ok (res, st', rs') → rs' <:+ rs
  | [], st, rs, res, st', rs', h => by
    simp only [JitterProc.runSpec, Except.ok.injEq, Prod.mk.injEq] at h
    rw [← h.2.2]; exact List.suffix_refl _
  | op :: ops, st, rs, res, st', rs', h => by
    rw [JitterProc.runSpec] at h
    rcases h1 : JitterProc.stepSpec op st rs with e | ⟨r, st1, rs1⟩
    · simp [h1] at h
    · rw [h1] at h
      dsimp only at h
      rcases h2 : JitterProc.runSpec ops st1 rs1 with e | ⟨res2, st2, rs2⟩
      · simp [h2, Except.map] at h
      · simp only [h2, Except.map, Except.ok.injEq, Prod.mk.injEq] at h
        rw [← h.2.2]
        exact (runSpec_suffix ops h2).trans (stepSpec_suffix h1)

end Rngs.JitterRefine
