/-
  Rngs.Lib.NatSem — BitVec operations of the model expressed through the ℕ-level C semantics
  used by Spec/Vigna.lean (reduction mod 2^w made explicit).
-/
import Rngs.Model.Words
import Rngs.Spec.Vigna
namespace Rngs.NatSem
open Rngs.Spec

theorem toNat_shl {w : Nat} (x : BitVec w) (k : Nat) : (x <<< k).toNat = Vigna.shl w x.toNat k := by
  simp [Vigna.shl, BitVec.toNat_shiftLeft, Nat.shiftLeft_eq]

theorem toNat_shr {w : Nat} (x : BitVec w) (k : Nat) : (x >>> k).toNat = Vigna.shr x.toNat k := by
  simp [Vigna.shr, BitVec.toNat_ushiftRight, Nat.shiftRight_eq_div_pow]

theorem toNat_rotl {w : Nat} (x : BitVec w) (k : Nat) (hk : k < w) :
    (x.rotateLeft k).toNat = Vigna.rotl w x.toNat k := by
  simp [Vigna.rotl, Vigna.shl, Vigna.shr, BitVec.rotateLeft, BitVec.rotateLeftAux, Nat.mod_eq_of_lt hk, BitVec.toNat_or,
    BitVec.toNat_shiftLeft, BitVec.toNat_ushiftRight, Nat.shiftLeft_eq, Nat.shiftRight_eq_div_pow]

theorem toNat_add {w : Nat} (x y : BitVec w) : (x + y).toNat = Vigna.add w x.toNat y.toNat := by
  simp [Vigna.add, BitVec.toNat_add]

theorem toNat_mul {w : Nat} (x y : BitVec w) : (x * y).toNat = Vigna.mul w x.toNat y.toNat := by
  simp [Vigna.mul, BitVec.toNat_mul]

theorem toNat_xor {w : Nat} (x y : BitVec w) : (x ^^^ y).toNat = x.toNat ^^^ y.toNat := BitVec.toNat_xor ..

end Rngs.NatSem
