/-
  Rngs.Lib.OrbitCert — verified certificate checkers (evaluated by the kernel on literals) and
  their soundness, core Lean only:
    * `basisCheck`: `act T P` vanishes on the one-bit states of one word  ⇒ (with additivity)
      `act T P = 0` on every state;
    * odd `P` ⇒ `T` is a bijection (its inverse is `act T (P/2)`);
    * `powx P n n (2^n-1) 1 = 1` ⇒ `T^(2^n-1) = id`;
    * `CofCert`: `x^(N/p) - 1` is invertible mod `P` ⇒ no non-zero state has period `N/p`.
-/
import Rngs.Lib.PolyAction
namespace Rngs
open XorSpace

/-! ## annihilation on a basis -/

section basis
variable {σ : Type} [XorSpace σ] [DecidableEq σ]

theorem basisCheck_sound {T : σ → σ} {P k : Nat} {w : Nat} {emb : BitVec w → σ} {lo cnt : Nat}
    (hk : P < 2 ^ k) (h : basisCheck T P k emb lo cnt = true) :
    ∀ i, lo ≤ i → i < lo + cnt → act T P (emb (BitVec.twoPow w i)) = zero := by
  intro i h1 h2
  have h3 := (List.all_eq_true.mp h) i (List.mem_range'_1.mpr ⟨h1, h2⟩)
  have h4 := of_decide_eq_true h3
  rwa [actRun_eq T k P _ _ hk, zero_xor] at h4

/-- cover `0 ≤ i < w` by chunks of `chunk` indices -/
theorem basisCheck_cover {T : σ → σ} {P k : Nat} {w : Nat} {emb : BitVec w → σ}
    (hk : P < 2 ^ k) (chunk : Nat) (hc : 0 < chunk)
    (h : ∀ c, c * chunk < w → basisCheck T P k emb (c * chunk) chunk = true) :
    ∀ i, i < w → act T P (emb (BitVec.twoPow w i)) = zero := by
  intro i hi
  have h1 : i / chunk * chunk ≤ i := Nat.div_mul_le_self i chunk
  have h2 : i < i / chunk * chunk + chunk := by
    have := Nat.lt_div_mul_add (a := i) hc
    omega
  exact basisCheck_sound hk (h (i / chunk) (by omega)) i h1 h2

end basis

theorem annih_S2 {w : Nat} {T : S2 w → S2 w} (hT : IsAdd T) {P : Nat}
    (h0 : ∀ i, i < w → act T P (⟨BitVec.twoPow w i, 0⟩ : S2 w) = zero)
    (h1 : ∀ i, i < w → act T P (⟨0, BitVec.twoPow w i⟩ : S2 w) = zero) (s : S2 w) :
    act T P s = zero :=
  S2.eq_zero_of_basis (act_add hT P) h0 h1 s

theorem annih_S4 {w : Nat} {T : S4 w → S4 w} (hT : IsAdd T) {P : Nat}
    (h0 : ∀ i, i < w → act T P (⟨BitVec.twoPow w i, 0, 0, 0⟩ : S4 w) = zero)
    (h1 : ∀ i, i < w → act T P (⟨0, BitVec.twoPow w i, 0, 0⟩ : S4 w) = zero)
    (h2 : ∀ i, i < w → act T P (⟨0, 0, BitVec.twoPow w i, 0⟩ : S4 w) = zero)
    (h3 : ∀ i, i < w → act T P (⟨0, 0, 0, BitVec.twoPow w i⟩ : S4 w) = zero) (s : S4 w) :
    act T P s = zero :=
  S4.eq_zero_of_basis (act_add hT P) h0 h1 h2 h3 s

theorem annih_S8 {T : S8 → S8} (hT : IsAdd T) {P : Nat}
    (h : ∀ j, j < 8 → ∀ i, i < 64 → act T P (S8.single j (BitVec.twoPow 64 i)) = zero) (s : S8) :
    act T P s = zero :=
  S8.eq_zero_of_basis (act_add hT P) h s

/-! ## consequences of `PolyMod` -/

namespace PolyMod
variable {σ : Type} [XorSpace σ] {T : σ → σ} {P n : Nat}

/-- for odd `P`, `(P-1)/x` acts as the inverse of `T` -/
theorem inv_left (c : PolyMod T P n) (odd : P % 2 = 1) (s : σ) : act T (P / 2) (T s) = s := by
  have h := c.annih s
  rw [act_eq, odd, sel_one] at h
  exact (xor_eq_zero_iff.mp h).symm

theorem inv_right (c : PolyMod T P n) (odd : P % 2 = 1) (s : σ) : T (act T (P / 2) s) = s := by
  rw [← act_T c.add]; exact c.inv_left odd s

theorem injective (c : PolyMod T P n) (odd : P % 2 = 1) : Function.Injective T :=
  fun a b h => by rw [← c.inv_left odd a, h, c.inv_left odd b]

theorem surjective (c : PolyMod T P n) (odd : P % 2 = 1) : Function.Surjective T :=
  fun s => ⟨act T (P / 2) s, c.inv_right odd s⟩

/-- a `powx` value known by computation gives the corresponding power of `T` -/
theorem iter_of_powx (c : PolyMod T P n) {e r : Nat} (he : e < 2 ^ n)
    (h : powx P n n e 1 = r) (s : σ) : iter T e s = act T r s := by
  rw [← h, c.powx_act he]

theorem period_of_powx (c : PolyMod T P n) (h : powx P n n (2 ^ n - 1) 1 = 1) (s : σ) :
    iter T (2 ^ n - 1) s = s := by
  rw [c.iter_of_powx (Nat.sub_lt (Nat.two_pow_pos n) (by omega)) h, act_one]

/-- C06 core: if `x^(2^k) mod P` is the polynomial packed in the macro's word list, the
    `impl_jump!` loop equals `2^k` steps. -/
theorem jumpLoop_eq_iter (c : PolyMod T P n) {w : Nat} (words : List (BitVec w)) {k : Nat}
    (hk : k < n) (h : powx P n n (2 ^ k) 1 = polyOfWords words) (s : σ) :
    jumpLoop T xor zero words s = iter T (2 ^ k) s := by
  rw [jumpLoop_eq_act, ← h, c.powx_act (Nat.pow_lt_pow_right (by omega) hk)]

end PolyMod

/-! ## generic corollaries for a map `j` that equals `K` steps of `f` -/

section corollaries
variable {α : Type} {f j l : α → α} {K L : Nat}

theorem comm_step_of_eq_iter (hj : ∀ s, j s = iter f K s) (s : α) : j (f s) = f (j s) := by
  rw [hj, hj, ← iter_succ', iter_succ]

theorem comm_of_eq_iter (hj : ∀ s, j s = iter f K s) (hl : ∀ s, l s = iter f L s) (s : α) :
    j (l s) = l (j s) := by
  rw [hj, hl, hl, hj, iter_comm]

theorem iter_of_eq_iter (hj : ∀ s, j s = iter f K s) (k : Nat) (s : α) :
    iter j k s = iter f (k * K) s := by
  rw [iter_mul]; exact iter_congr hj k s

theorem iter_after_of_eq_iter (hj : ∀ s, j s = iter f K s) (i : Nat) (s : α) :
    iter f i (j s) = iter f (i + K) s := by
  rw [hj, iter_add]

end corollaries


namespace PolyMod
variable {σ : Type} [XorSpace σ] {T : σ → σ} {P n : Nat}

theorem no_short_period (c : PolyMod T P n) {N p : Nat} (hN : N / p < 2 ^ n)
    (h : CofCert P n N p) (s : σ) (hs : iter T (N / p) s = s) : s = zero := by
  obtain ⟨r, inv, hr, hinv, hmul⟩ := h
  have h1 : (1 : Nat) < 2 ^ n := Nat.one_lt_two_pow (by have := c.npos; omega)
  have hrlt : r < 2 ^ n := hr ▸ c.powx_lt (N / p)
  have hr1 : r ^^^ 1 < 2 ^ n := Nat.xor_lt_two_pow hrlt h1
  -- (r+1) kills s
  have hk : act T (r ^^^ 1) s = zero := by
    rw [act_xor, act_one, ← c.iter_of_powx hN hr, hs, xor_self]
  have := c.mulmod_act hr1 hinv s
  rw [hmul, act_one, act_comm c.add, hk, act_vzero c.add] at this
  exact this

end PolyMod

end Rngs
