/-
  Rngs.Lib.PolyAction — polynomials over GF(2) as `Nat` (bit i = coefficient of x^i) acting on
  a GF(2)-vector space through an additive map `T`:  `act T f s = ⊕_{i ∈ bits f} T^i s`.
  Executable `mulx`/`mulmod`/`powx` (written with `Nat.rec`, branch-free, so that the kernel can
  run them on literals) and their soundness under `act T P = 0`.  The `impl_jump!` loop of the
  model is `act T (polyOfWords words)`.  Core Lean only.
-/
import Rngs.Lib.XorLinear
namespace Rngs
open XorSpace

/-! ## `iter` -/

section iter
variable {α : Type}

@[simp] theorem iter_zero (f : α → α) (s : α) : iter f 0 s = s := rfl
theorem iter_succ (f : α → α) (k : Nat) (s : α) : iter f (k + 1) s = f (iter f k s) := rfl

theorem iter_succ' (f : α → α) (k : Nat) (s : α) : iter f (k + 1) s = iter f k (f s) := by
  induction k with
  | zero => rfl
  | succ k ih => rw [iter_succ, ih, iter_succ]

theorem iter_add (f : α → α) (a b : Nat) (s : α) : iter f (a + b) s = iter f a (iter f b s) := by
  induction a with
  | zero => simp
  | succ a ih => rw [Nat.succ_add, iter_succ, ih, iter_succ]

theorem iter_mul (f : α → α) (a b : Nat) (s : α) : iter f (a * b) s = iter (iter f b) a s := by
  induction a with
  | zero => simp
  | succ a ih => rw [Nat.succ_mul, Nat.add_comm, iter_add, ih, iter_succ]

theorem iter_comm (f : α → α) (a b : Nat) (s : α) :
    iter f a (iter f b s) = iter f b (iter f a s) := by
  rw [← iter_add, ← iter_add, Nat.add_comm]

theorem iter_congr {f g : α → α} (h : ∀ s, f s = g s) (k : Nat) (s : α) : iter f k s = iter g k s := by
  induction k with
  | zero => rfl
  | succ k ih => rw [iter_succ, iter_succ, ih, h]

end iter

/-! ## induction on the bits of a polynomial -/

theorem poly_induction {motive : Nat → Prop} (z : motive 0)
    (step : ∀ f, f ≠ 0 → motive (f / 2) → motive f) : ∀ f, motive f := by
  intro f
  induction f using Nat.strongRecOn with
  | _ f ih =>
    by_cases h : f = 0
    · subst h; exact z
    · exact step f h (ih (f / 2) (by omega))

theorem Nat.xor_mod_two' (f g : Nat) : (f ^^^ g) % 2 = (f % 2 + g % 2) % 2 := by
  have h := @Nat.xor_mod_two_eq_one f g
  rcases Nat.mod_two_eq_zero_or_one f with hf | hf <;>
  rcases Nat.mod_two_eq_zero_or_one g with hg | hg <;>
  rcases Nat.mod_two_eq_zero_or_one (f ^^^ g) with hx | hx <;> simp_all

section act
variable {σ : Type} [XorSpace σ]

/-- coefficient times vector -/
def sel (b : Nat) (s : σ) : σ :=
  match b with
  | 0 => zero
  | _ => s

@[simp] theorem sel_zero (s : σ) : sel 0 s = zero := rfl
@[simp] theorem sel_one (s : σ) : sel 1 s = s := rfl
@[simp] theorem sel_vzero (b : Nat) : sel b (zero : σ) = zero := by cases b <;> rfl

theorem sel_add (b : Nat) (s t : σ) : sel b (xor s t) = xor (sel b s) (sel b t) := by
  cases b
  · show zero = xor zero zero; rw [xor_zero]
  · rfl

theorem sel_map {T : σ → σ} (h0 : T zero = zero) (b : Nat) (s : σ) : sel b (T s) = T (sel b s) := by
  cases b
  · exact h0.symm
  · rfl

/-- `act T f s = ⊕_{i : bit i of f is set} T^i s` -/
def act (T : σ → σ) (f : Nat) (s : σ) : σ :=
  if f = 0 then zero else xor (sel (f % 2) s) (act T (f / 2) (T s))
termination_by f
decreasing_by omega

@[simp] theorem act_zero (T : σ → σ) (s : σ) : act T 0 s = zero := by
  rw [act]; simp

theorem act_eq (T : σ → σ) (f : Nat) (s : σ) :
    act T f s = xor (sel (f % 2) s) (act T (f / 2) (T s)) := by
  by_cases h : f = 0
  · subst h; simp [xor_zero]
  · rw [act]; simp [h]

theorem act_one (T : σ → σ) (s : σ) : act T 1 s = s := by
  rw [act_eq]; simp [xor_zero]

theorem act_two_mul (T : σ → σ) (f : Nat) (s : σ) : act T (2 * f) s = act T f (T s) := by
  rw [act_eq]
  have h1 : 2 * f % 2 = 0 := by omega
  have h2 : 2 * f / 2 = f := by omega
  rw [h1, h2, sel_zero, zero_xor]

/-- executable form with an accumulator (the shape of the `impl_jump!` loop) -/
def actRun (T : σ → σ) : Nat → Nat → σ → σ → σ
  | 0, _, acc, _ => acc
  | k + 1, f, acc, cur =>
    actRun T k (f / 2) (match f % 2 with | 0 => acc | _ => xor acc cur) (T cur)

theorem actRun_eq (T : σ → σ) : ∀ (k f : Nat) (acc cur : σ), f < 2 ^ k →
    actRun T k f acc cur = xor acc (act T f cur) := by
  intro k
  induction k with
  | zero =>
    intro f acc cur h
    have : f = 0 := by simpa using h
    subst this; simp [actRun, xor_zero]
  | succ k ih =>
    intro f acc cur h
    have h2 : f / 2 < 2 ^ k := by rw [Nat.pow_succ] at h; omega
    rw [actRun, ih _ _ _ h2, act_eq T f cur]
    rcases Nat.mod_two_eq_zero_or_one f with h0 | h0 <;> rw [h0]
    · simp [zero_xor]
    · simp [xor_assoc]

variable {T : σ → σ}

theorem act_vzero (hT : IsAdd T) (f : Nat) : act T f zero = zero := by
  induction f using poly_induction with
  | z => simp
  | step f _ ih => rw [act_eq, sel_vzero, hT.map_zero, ih, xor_zero]

theorem act_add (hT : IsAdd T) (f : Nat) : IsAdd (act T f) := by
  induction f using poly_induction with
  | z => intro a b; simp [xor_zero]
  | step f _ ih =>
    intro a b
    rw [act_eq, act_eq T f a, act_eq T f b, hT a b, ih, sel_add, xor_xor_xor_comm]

theorem act_T (hT : IsAdd T) (f : Nat) (s : σ) : act T f (T s) = T (act T f s) := by
  induction f using poly_induction generalizing s with
  | z => simp [hT.map_zero]
  | step f _ ih =>
    rw [act_eq, act_eq T f s, hT, ih, sel_map hT.map_zero]

theorem act_two_mul' (hT : IsAdd T) (f : Nat) (s : σ) : act T (2 * f) s = T (act T f s) := by
  rw [act_two_mul, act_T hT]

theorem act_xor (T : σ → σ) (f g : Nat) (s : σ) :
    act T (f ^^^ g) s = xor (act T f s) (act T g s) := by
  induction f using poly_induction generalizing g s with
  | z => simp [zero_xor]
  | step f _ ih =>
    rw [act_eq, act_eq T f s, act_eq T g s, Nat.xor_div_two, ih, Nat.xor_mod_two']
    have hs : sel ((f % 2 + g % 2) % 2) s = xor (sel (f % 2) s) (sel (g % 2) s) := by
      rcases Nat.mod_two_eq_zero_or_one f with hf | hf <;>
      rcases Nat.mod_two_eq_zero_or_one g with hg | hg <;> rw [hf, hg] <;>
      simp [xor_zero, zero_xor, xor_self]
    rw [hs, xor_xor_xor_comm]

theorem act_pow2 (hT : IsAdd T) (e : Nat) (s : σ) : act T (2 ^ e) s = iter T e s := by
  induction e with
  | zero => simp [act_one]
  | succ e ih => rw [Nat.pow_succ, Nat.mul_comm, act_two_mul' hT, ih, iter_succ]

theorem act_sel (hT : IsAdd T) (f b : Nat) (s : σ) : act T f (sel b s) = sel b (act T f s) := by
  cases b
  · simp [act_vzero hT]
  · rfl

theorem act_comm (hT : IsAdd T) (f g : Nat) (s : σ) :
    act T f (act T g s) = act T g (act T f s) := by
  induction f using poly_induction generalizing s with
  | z => simp [act_vzero hT]
  | step f _ ih =>
    rw [act_eq T f (act T g s), act_eq T f s, act_add hT g, ← act_T hT g s, ih, act_sel hT]

theorem act_mul_bit (T : σ → σ) (a b : Nat) (hb : b < 2) (s : σ) :
    act T (a * b) s = sel b (act T a s) := by
  have : b = 0 ∨ b = 1 := by omega
  rcases this with rfl | rfl <;> simp

/-- `act` of a word followed by a higher part: `j + 2^w·rest`, `j < 2^w`. -/
theorem act_append (T : σ → σ) (w j rest : Nat) (hj : j < 2 ^ w) (s : σ) :
    act T (j + 2 ^ w * rest) s = xor (act T j s) (act T rest (iter T w s)) := by
  induction w generalizing j s with
  | zero =>
    have : j = 0 := by simpa using hj
    subst this; simp [zero_xor]
  | succ w ih =>
    have h0 : 2 ^ (w + 1) * rest = 2 * (2 ^ w * rest) := by
      rw [Nat.pow_succ, Nat.mul_comm (2 ^ w) 2, Nat.mul_assoc]
    have h1 : (j + 2 ^ (w + 1) * rest) % 2 = j % 2 := by rw [h0]; omega
    have h2 : (j + 2 ^ (w + 1) * rest) / 2 = j / 2 + 2 ^ w * rest := by rw [h0]; omega
    have h3 : j / 2 < 2 ^ w := by rw [Nat.pow_succ] at hj; omega
    rw [act_eq, h1, h2, ih _ h3, act_eq T j s, xor_assoc, iter_succ']

end act

/-! ## arithmetic modulo `P` (executable) -/

/-- `x·a mod P` for `a < 2^n`, `deg P = n` -/
@[reducible] def mulx (P n a : Nat) : Nat := 2 * a ^^^ P * ((2 * a) >>> n)

/-- `r + a·b mod P` (carry-less, LSB-first Horner with interleaved reduction); `fuel` bounds the
    number of bits of `b`. -/
def mulmod (P n : Nat) (fuel : Nat) : Nat → Nat → Nat → Nat :=
  Nat.rec (motive := fun _ => Nat → Nat → Nat → Nat) (fun _ _ r => r)
    (fun _ ih a b r => ih (2 * a ^^^ P * ((2 * a) >>> n)) (b / 2) (r ^^^ a * (b % 2))) fuel

theorem mulmod_zero (P n a b r : Nat) : mulmod P n 0 a b r = r := rfl
theorem mulmod_succ (P n k a b r : Nat) :
    mulmod P n (k + 1) a b r = mulmod P n k (mulx P n a) (b / 2) (r ^^^ a * (b % 2)) := rfl

/-- `r^(2^fuel) · x^(e mod 2^fuel) mod P` by square-and-multiply from the top bit of `e`. -/
def powx (P n : Nat) (fuel : Nat) : Nat → Nat → Nat :=
  Nat.rec (motive := fun _ => Nat → Nat → Nat) (fun _ r => r)
    (fun k ih e r =>
      ih e ((fun r2 => r2 ^^^ ((2 * r2 ^^^ P * ((2 * r2) >>> n)) ^^^ r2) * ((e >>> k) % 2))
        (mulmod P n n r r 0))) fuel

theorem powx_zero (P n e r : Nat) : powx P n 0 e r = r := rfl
theorem powx_succ (P n k e r : Nat) :
    powx P n (k + 1) e r =
      powx P n k e
        (mulmod P n n r r 0 ^^^
          (mulx P n (mulmod P n n r r 0) ^^^ mulmod P n n r r 0) * ((e >>> k) % 2)) := rfl

/-- What the certificates establish about an engine: it is additive and annihilated by the
    degree-`n` polynomial `P`. -/
structure PolyMod {σ : Type} [XorSpace σ] (T : σ → σ) (P n : Nat) : Prop where
  add : IsAdd T
  annih : ∀ s, act T P s = zero
  npos : 0 < n
  lo : 2 ^ n ≤ P
  hi : P < 2 ^ (n + 1)

theorem Nat.xor_lt_of_top {n x y : Nat} (hx : 2 ^ n ≤ x) (hx' : x < 2 ^ (n + 1))
    (hy : 2 ^ n ≤ y) (hy' : y < 2 ^ (n + 1)) : x ^^^ y < 2 ^ n := by
  have hp : 0 < 2 ^ n := Nat.pos_of_ne_zero (by simp)
  have h1 : x / 2 ^ n = 1 := by
    apply Nat.div_eq_of_lt_le <;> rw [Nat.pow_succ] at * <;> omega
  have h2 : y / 2 ^ n = 1 := by
    apply Nat.div_eq_of_lt_le <;> rw [Nat.pow_succ] at * <;> omega
  have h3 : (x ^^^ y) / 2 ^ n = 0 := by
    rw [← Nat.shiftRight_eq_div_pow, Nat.shiftRight_xor_distrib, Nat.shiftRight_eq_div_pow,
      Nat.shiftRight_eq_div_pow, h1, h2]; rfl
  exact (Nat.div_eq_zero_iff_lt hp).mp h3

namespace PolyMod
variable {σ : Type} [XorSpace σ] {T : σ → σ} {P n : Nat}

theorem mulx_lt (c : PolyMod T P n) {a : Nat} (ha : a < 2 ^ n) : mulx P n a < 2 ^ n := by
  have hp : 0 < 2 ^ n := Nat.pos_of_ne_zero (by simp)
  unfold mulx
  rw [Nat.shiftRight_eq_div_pow]
  by_cases h : 2 * a < 2 ^ n
  · rw [Nat.div_eq_of_lt h, Nat.mul_zero, Nat.xor_zero]; exact h
  · have h1 : 2 * a / 2 ^ n = 1 := by
      apply Nat.div_eq_of_lt_le <;> omega
    rw [h1, Nat.mul_one]
    exact Nat.xor_lt_of_top (by omega) (by rw [Nat.pow_succ]; omega) c.lo c.hi

theorem mulx_act (c : PolyMod T P n) {a : Nat} (ha : a < 2 ^ n) (s : σ) :
    act T (mulx P n a) s = T (act T a s) := by
  have hp : 0 < 2 ^ n := Nat.pos_of_ne_zero (by simp)
  unfold mulx
  rw [act_xor, act_two_mul' c.add, Nat.shiftRight_eq_div_pow]
  by_cases h : 2 * a < 2 ^ n
  · rw [Nat.div_eq_of_lt h, Nat.mul_zero, act_zero, xor_zero]
  · have h1 : 2 * a / 2 ^ n = 1 := by
      apply Nat.div_eq_of_lt_le <;> omega
    rw [h1, Nat.mul_one, c.annih, xor_zero]

theorem mulmod_spec (c : PolyMod T P n) : ∀ (k a b r : Nat), a < 2 ^ n → b < 2 ^ k → r < 2 ^ n →
    mulmod P n k a b r < 2 ^ n ∧
      ∀ s, act T (mulmod P n k a b r) s = xor (act T r s) (act T a (act T b s)) := by
  intro k
  induction k with
  | zero =>
    intro a b r _ hb hr
    have : b = 0 := by simpa using hb
    subst this
    refine ⟨hr, fun s => ?_⟩
    rw [mulmod_zero, act_zero, act_vzero c.add, xor_zero]
  | succ k ih =>
    intro a b r ha hb hr
    have hb2 : b / 2 < 2 ^ k := by rw [Nat.pow_succ] at hb; omega
    have hbit : b % 2 < 2 := Nat.mod_lt _ (by omega)
    have hr' : r ^^^ a * (b % 2) < 2 ^ n := by
      apply Nat.xor_lt_two_pow hr
      have : b % 2 = 0 ∨ b % 2 = 1 := by omega
      rcases this with h | h <;> rw [h] <;> simp [ha, Nat.two_pow_pos]
    obtain ⟨h1, h2⟩ := ih (mulx P n a) (b / 2) (r ^^^ a * (b % 2)) (c.mulx_lt ha) hb2 hr'
    rw [mulmod_succ]
    refine ⟨h1, fun s => ?_⟩
    rw [h2, act_xor, c.mulx_act ha, act_mul_bit T a _ hbit, act_eq T b s, act_add c.add a,
      act_sel c.add, ← act_T c.add a, ← act_T c.add (b / 2), xor_assoc]

theorem mulmod_lt (c : PolyMod T P n) {a b : Nat} (ha : a < 2 ^ n) (hb : b < 2 ^ n) :
    mulmod P n n a b 0 < 2 ^ n :=
  (c.mulmod_spec n a b 0 ha hb (Nat.pos_of_ne_zero (by simp))).1

theorem mulmod_act (c : PolyMod T P n) {a b : Nat} (ha : a < 2 ^ n) (hb : b < 2 ^ n) (s : σ) :
    act T (mulmod P n n a b 0) s = act T a (act T b s) := by
  rw [(c.mulmod_spec n a b 0 ha hb (Nat.pos_of_ne_zero (by simp))).2, act_zero, zero_xor]

theorem powx_spec (c : PolyMod T P n) : ∀ (k e r m : Nat), r < 2 ^ n →
    (∀ s, act T r s = iter T m s) →
    powx P n k e r < 2 ^ n ∧
      ∀ s, act T (powx P n k e r) s = iter T (m * 2 ^ k + e % 2 ^ k) s := by
  intro k
  induction k with
  | zero =>
    intro e r m hr h
    refine ⟨hr, fun s => ?_⟩
    rw [powx_zero, h]; simp [Nat.mod_one]
  | succ k ih =>
    intro e r m hr h
    rw [powx_succ]
    have hsq := c.mulmod_lt hr hr
    have hmx := c.mulx_lt hsq
    have hbit : (e >>> k) % 2 < 2 := Nat.mod_lt _ (by omega)
    have hb01 : (e >>> k) % 2 = 0 ∨ (e >>> k) % 2 = 1 := by omega
    have hr3 : mulmod P n n r r 0 ^^^
        (mulx P n (mulmod P n n r r 0) ^^^ mulmod P n n r r 0) * ((e >>> k) % 2) < 2 ^ n := by
      apply Nat.xor_lt_two_pow hsq
      rcases hb01 with hb | hb <;> rw [hb]
      · simp [Nat.two_pow_pos]
      · rw [Nat.mul_one]; exact Nat.xor_lt_two_pow hmx hsq
    have hact : ∀ s, act T (mulmod P n n r r 0 ^^^
        (mulx P n (mulmod P n n r r 0) ^^^ mulmod P n n r r 0) * ((e >>> k) % 2)) s =
        iter T (2 * m + (e >>> k) % 2) s := by
      intro s
      have hsq_act : ∀ t, act T (mulmod P n n r r 0) t = iter T (2 * m) t := by
        intro t
        rw [c.mulmod_act hr hr, h, h, ← iter_add, Nat.two_mul]
      rcases hb01 with hb | hb <;> rw [hb]
      · rw [Nat.mul_zero, Nat.xor_zero, Nat.add_zero, hsq_act]
      · rw [Nat.mul_one, act_xor, act_xor, c.mulx_act hsq, hsq_act, xor_comm (T _),
          xor_xor_cancel_left, iter_succ]
    obtain ⟨h1, h2⟩ := ih e _ (2 * m + (e >>> k) % 2) hr3 hact
    refine ⟨h1, fun s => ?_⟩
    rw [h2]
    congr 1
    rw [Nat.mod_pow_succ (k := k), Nat.shiftRight_eq_div_pow, Nat.pow_succ]
    rw [Nat.add_mul, Nat.mul_comm (e / 2 ^ k % 2)]
    rw [Nat.mul_assoc, Nat.mul_comm 2 (m * _), Nat.mul_assoc]
    omega

/-- Soundness of `powx`: under `act T P = 0`, the polynomial `x^e mod P` acts as `T^e`. -/
theorem powx_act (c : PolyMod T P n) {e : Nat} (he : e < 2 ^ n) (s : σ) :
    act T (powx P n n e 1) s = iter T e s := by
  have h1 : (1 : Nat) < 2 ^ n := Nat.one_lt_two_pow (by have := c.npos; omega)
  have := (c.powx_spec n e 1 0 h1 (fun s => by rw [act_one]; rfl)).2 s
  rwa [Nat.zero_mul, Nat.zero_add, Nat.mod_eq_of_lt he] at this

theorem powx_lt (c : PolyMod T P n) (e : Nat) : powx P n n e 1 < 2 ^ n := by
  have h1 : (1 : Nat) < 2 ^ n := Nat.one_lt_two_pow (by have := c.npos; omega)
  exact (c.powx_spec n e 1 0 h1 (fun s => by rw [act_one]; rfl)).1

end PolyMod

/-! ## the `impl_jump!` loop is `act` -/

section jump
variable {σ : Type} [XorSpace σ]

/-- the polynomial packed in the macro's word list (word 0 = lowest coefficients) -/
def polyOfWords {w : Nat} : List (BitVec w) → Nat
  | [] => 0
  | j :: rest => j.toNat + 2 ^ w * polyOfWords rest

theorem jump_bit_test {w : Nat} (j : BitVec w) (b : Nat) (hb : b < w) :
    ((j &&& (1#w <<< b)) ≠ 0#w) ↔ (j.toNat >>> b) % 2 = 1 := by
  rw [← BitVec.twoPow_eq, BitVec.and_twoPow]
  have hlsb : j.getLsbD b = (j.toNat).testBit b := rfl
  have htb : (j.toNat).testBit b = decide ((j.toNat >>> b) % 2 = 1) := by
    rw [Nat.testBit, Nat.one_and_eq_mod_two]
    rcases Nat.mod_two_eq_zero_or_one (j.toNat >>> b) with h | h <;> simp [h]
  have hne : BitVec.twoPow w b ≠ 0#w := by
    intro h
    have := congrArg BitVec.toNat h
    rw [BitVec.toNat_twoPow, Nat.mod_eq_of_lt (Nat.pow_lt_pow_right (by omega) hb)] at this
    simp at this
  rw [hlsb, htb]
  by_cases h : (j.toNat >>> b) % 2 = 1 <;> simp [h, hne]

theorem jumpWord_range' (T : σ → σ) {w : Nat} (j : BitVec w) :
    ∀ (m b : Nat) (acc cur : σ), b + m ≤ w →
      (List.range' b m).foldl
        (fun (p : σ × σ) b =>
          let acc := if (j &&& (1#w <<< b)) ≠ 0#w then xor p.1 p.2 else p.1
          (acc, T p.2)) (acc, cur) =
      (xor acc (act T ((j.toNat >>> b) % 2 ^ m) cur), iter T m cur) := by
  intro m
  induction m with
  | zero => intro b acc cur _; simp [Nat.mod_one, xor_zero]
  | succ m ih =>
    intro b acc cur hbm
    rw [List.range'_succ, List.foldl_cons]
    have hb : b < w := by omega
    have key := jump_bit_test j b hb
    have e1 : (j.toNat >>> b % 2 ^ (m + 1)) % 2 = (j.toNat >>> b) % 2 := by
      rw [Nat.pow_succ']; exact Nat.mod_mod_of_dvd _ (Nat.dvd_mul_right 2 _)
    have e2 : (j.toNat >>> b % 2 ^ (m + 1)) / 2 = (j.toNat >>> (b + 1)) % 2 ^ m := by
      rw [Nat.shiftRight_succ, Nat.pow_succ', Nat.mod_mul_right_div_self]
    rw [act_eq T (j.toNat >>> b % 2 ^ (m + 1)) cur, e1, e2, iter_succ']
    by_cases h : (j.toNat >>> b) % 2 = 1
    · have h' : (j &&& (1#w <<< b)) ≠ 0#w := key.mpr h
      rw [ih (b + 1) _ _ (by omega), if_pos h', h, sel_one, xor_assoc]
    · have h' : ¬ (j &&& (1#w <<< b)) ≠ 0#w := fun hh => h (key.mp hh)
      have h0 : (j.toNat >>> b) % 2 = 0 := by omega
      rw [ih (b + 1) _ _ (by omega), if_neg h', h0, sel_zero, zero_xor]

theorem jumpWord_eq (T : σ → σ) {w : Nat} (j : BitVec w) (acc cur : σ) :
    jumpWord T xor j (acc, cur) = (xor acc (act T j.toNat cur), iter T w cur) := by
  unfold jumpWord
  rw [List.range_eq_range', jumpWord_range' T j w 0 acc cur (by omega)]
  simp [Nat.mod_eq_of_lt j.isLt]

theorem jumpLoop_fold (T : σ → σ) {w : Nat} (words : List (BitVec w)) :
    ∀ (acc cur : σ),
      words.foldl (fun p j => jumpWord T xor j p) (acc, cur) =
        (xor acc (act T (polyOfWords words) cur), iter T (w * words.length) cur) := by
  induction words with
  | nil => intro acc cur; simp [polyOfWords, xor_zero]
  | cons j rest ih =>
    intro acc cur
    rw [List.foldl_cons, jumpWord_eq, ih, polyOfWords, act_append T w _ _ j.isLt, xor_assoc,
      List.length_cons, Nat.mul_succ, iter_add]

/-- The macro `impl_jump!` computes the action of the packed polynomial. -/
theorem jumpLoop_eq_act (T : σ → σ) {w : Nat} (words : List (BitVec w)) (s : σ) :
    jumpLoop T xor zero words s = act T (polyOfWords words) s := by
  unfold jumpLoop
  rw [jumpLoop_fold T, zero_xor]

end jump

/-! ## statements of the kernel-checked certificates (soundness is in `OrbitCert`) -/

/-- `act T P` (run with `k` bits of fuel) vanishes on `emb (2^i)` for `lo ≤ i < lo + cnt`. -/
def basisCheck {σ : Type} [XorSpace σ] [DecidableEq σ] (T : σ → σ) (P k : Nat) {w : Nat}
    (emb : BitVec w → σ) (lo cnt : Nat) : Bool :=
  (List.range' lo cnt).all fun i => decide (actRun T k P zero (emb (BitVec.twoPow w i)) = zero)

/-- Certificate that `x^(N/p) - 1` is a unit modulo `P`: the value `r = x^(N/p) mod P` and an
    inverse `inv` of `r + 1`. -/
def CofCert (P n N p : Nat) : Prop :=
  ∃ r inv, powx P n n (N / p) 1 = r ∧ inv < 2 ^ n ∧ mulmod P n n (r ^^^ 1) inv 0 = 1

/-! ## splitting one exponentiation into independently checked segments

Each segment is a separate theorem (a separate kernel run, so the kernel's caches are released in
between); `PowxChain.powx_eq` glues them. -/

theorem powx_split (P n L : Nat) : ∀ (k e r : Nat),
    powx P n (L + k) e r = powx P n L e (powx P n k (e >>> L) r) := by
  intro k
  induction k with
  | zero => intro e r; rfl
  | succ k ih =>
    intro e r
    rw [← Nat.add_assoc, powx_succ, powx_succ, ih, Nat.shiftRight_add]

/-- `cps` are the values after each block of `L` exponent bits (from the top), starting at `r`. -/
def PowxChain (P n L e : Nat) : Nat → List Nat → Prop
  | _, [] => True
  | r, c :: cs => powx P n L (e >>> (L * cs.length)) r = c ∧ PowxChain P n L e c cs

/-- the last checkpoint (or the start value) -/
def chainLast : Nat → List Nat → Nat
  | r, [] => r
  | _, c :: cs => chainLast c cs

theorem PowxChain.powx_eq {P n L e : Nat} : ∀ (cps : List Nat) (r : Nat),
    PowxChain P n L e r cps → powx P n (L * cps.length) e r = chainLast r cps := by
  intro cps
  induction cps with
  | nil => intro r _; rfl
  | cons c cs ih =>
    intro r h
    rw [List.length_cons, Nat.mul_succ, powx_split, h.1, ih c h.2]
    rfl

end Rngs
