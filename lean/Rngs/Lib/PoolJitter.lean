/-
  Rngs.Lib.PoolJitter — the pool-update steps of `Rngs.Model.Jitter` as GF(2)-linear / affine maps.
-/
import Rngs.Model.Jitter
import Rngs.Lib.PoolLinear
import Rngs.Cert.PoolInverse

namespace Rngs
namespace PoolJitter
open PoolLinear

/-! ## the LFSR fold -/

/-- one tap: xor bit `s` of the word into bit 0 -/
def tap (s : Nat) (d : U64) : U64 := d ^^^ ((d >>> s) &&& 1)

theorem tap_isAdd (s : Nat) : IsAdd (tap s) :=
  IsAdd.xor (f := fun d : U64 => d) (g := fun d : U64 => (d >>> s) &&& 1) IsAdd.id
    (IsAdd.comp (f := fun x : U64 => x &&& 1) (g := fun x : U64 => x >>> s)
      (IsAdd.and_const 1) (IsAdd.ushiftRight s))

/-- the bit of `time` consumed by iteration `k` (0 or 1) -/
def timeBit (k : Nat) (t : U64) : U64 := (t <<< (64 - (k + 1))) >>> (64 - 1)

theorem timeBit_isAdd (k : Nat) : IsAdd (timeBit k) :=
  IsAdd.comp (f := fun x : U64 => x >>> (64 - 1)) (g := fun x : U64 => x <<< (64 - (k + 1)))
    (IsAdd.ushiftRight _) (IsAdd.shiftLeft _)

/-- one iteration of the loop in `lfsr` -/
def lfsrStep (time data : U64) (k : Nat) : U64 :=
  (tap 22 (tap 27 (tap 30 (tap 55 (tap 60 (tap 63 (data ^^^ timeBit k time))))))).rotateLeft 1

theorem lfsr_eq_fold (data time : U64) :
    Jitter.lfsr data time = (List.range 64).foldl (lfsrStep time) data := rfl

theorem lfsrStep_add (k : Nat) (t₁ t₂ d₁ d₂ : U64) :
    lfsrStep (t₁ ^^^ t₂) (d₁ ^^^ d₂) k = lfsrStep t₁ d₁ k ^^^ lfsrStep t₂ d₂ k := by
  unfold lfsrStep
  rw [timeBit_isAdd k t₁ t₂, xor_xor_xor_comm, tap_isAdd 63, tap_isAdd 60, tap_isAdd 55,
    tap_isAdd 30, tap_isAdd 27, tap_isAdd 22, rotateLeft_xor]

/-- joint GF(2)-additivity of the LFSR fold in (pool, time) -/
theorem lfsr_add (d₁ d₂ t₁ t₂ : U64) :
    Jitter.lfsr (d₁ ^^^ d₂) (t₁ ^^^ t₂) = Jitter.lfsr d₁ t₁ ^^^ Jitter.lfsr d₂ t₂ := by
  simp only [lfsr_eq_fold]
  exact foldl_add₂ lfsrStep lfsrStep_add _ t₁ t₂ d₁ d₂

theorem lfsr_split (d t : U64) : Jitter.lfsr d t = Jitter.lfsr d 0 ^^^ Jitter.lfsr 0 t := by
  have h := lfsr_add d 0 0 t
  simpa using h

theorem lfsr_pool_isAdd : IsAdd (fun d => Jitter.lfsr d 0) := fun a b => by
  have h := lfsr_add a b 0 0
  simpa using h

theorem lfsr_time_isAdd : IsAdd (fun t => Jitter.lfsr 0 t) := fun a b => by
  have h := lfsr_add 0 0 a b
  simpa using h

/-! ## stir -/

/-- `(d >>> i) &&& 1` is 0 or 1 -/
theorem and_one_cases (x : U64) : x &&& 1 = 0 ∨ x &&& 1 = 1 := by
  have h : x &&& 1 = BitVec.setWidth 64 (BitVec.ofBool (x.getLsbD 0)) :=
    BitVec.and_one_eq_setWidth_ofBool_getLsbD
  rw [h]
  cases x.getLsbD 0
  · left; rfl
  · right; rfl

/-- the word xored into the mixer in round `i`: `CONSTANT` if bit `i` of the pool is set, else 0 -/
def maskTerm (i : Nat) (d : U64) : U64 :=
  Jitter.STIR_CONSTANT &&& ~~~(((d >>> i) &&& 1) - 1)

theorem maskTerm_isAdd (i : Nat) : IsAdd (maskTerm i) := fun a b => by
  unfold maskTerm
  rw [BitVec.ushiftRight_xor_distrib, and_xor_distrib_right']
  rcases and_one_cases (a >>> i) with ha | ha <;> rcases and_one_cases (b >>> i) with hb | hb <;>
    rw [ha, hb] <;> decide

/-- one round of the mixer loop of `stir_pool` -/
def stirStep (data mixer : U64) (i : Nat) : U64 := (mixer ^^^ maskTerm i data).rotateLeft 1

/-- the mixer after the 64 rounds, from an arbitrary start value -/
def mixerFrom (data start : U64) : U64 := (List.range 64).foldl (stirStep data) start

theorem stir_eq (data : U64) :
    Jitter.stir data = data ^^^ mixerFrom data Jitter.STIR_MIXER := rfl

theorem stirStep_add (i : Nat) (d₁ d₂ m₁ m₂ : U64) :
    stirStep (d₁ ^^^ d₂) (m₁ ^^^ m₂) i = stirStep d₁ m₁ i ^^^ stirStep d₂ m₂ i := by
  unfold stirStep
  rw [maskTerm_isAdd i d₁ d₂, xor_xor_xor_comm, rotateLeft_xor]

theorem mixerFrom_add (d₁ d₂ m₁ m₂ : U64) :
    mixerFrom (d₁ ^^^ d₂) (m₁ ^^^ m₂) = mixerFrom d₁ m₁ ^^^ mixerFrom d₂ m₂ :=
  foldl_add₂ stirStep stirStep_add _ d₁ d₂ m₁ m₂

/-- the linear part of `stir` -/
def stirLin (d : U64) : U64 := d ^^^ mixerFrom d 0

theorem stirLin_isAdd : IsAdd stirLin := fun a b => by
  unfold stirLin
  have h : mixerFrom (a ^^^ b) 0 = mixerFrom a 0 ^^^ mixerFrom b 0 := by
    have h := mixerFrom_add a b 0 0
    rwa [show (0 : U64) ^^^ 0 = 0 from rfl] at h
  rw [h, xor_xor_xor_comm]

/-- `stir` is affine: a constant xor its linear part -/
theorem stir_affine (d : U64) : Jitter.stir d = Jitter.stir 0 ^^^ stirLin d := by
  rw [stir_eq, stir_eq, stirLin]
  have h : mixerFrom d Jitter.STIR_MIXER = mixerFrom 0 Jitter.STIR_MIXER ^^^ mixerFrom d 0 := by
    have h := mixerFrom_add 0 d Jitter.STIR_MIXER 0
    rwa [show (0 : U64) ^^^ d = d from BitVec.zero_xor,
      show Jitter.STIR_MIXER ^^^ (0 : U64) = Jitter.STIR_MIXER from BitVec.xor_zero] at h
  rw [h, show (0 : U64) ^^^ mixerFrom 0 Jitter.STIR_MIXER = mixerFrom 0 Jitter.STIR_MIXER
    from BitVec.zero_xor]
  generalize mixerFrom 0 Jitter.STIR_MIXER = m0
  generalize mixerFrom d 0 = md
  ac_rfl

theorem stirLin_eq (d : U64) : stirLin d = Jitter.stir d ^^^ Jitter.stir 0 := by
  rw [stir_affine d, BitVec.xor_comm (Jitter.stir 0), BitVec.xor_assoc, BitVec.xor_self,
    BitVec.xor_zero]

end PoolJitter
end Rngs
