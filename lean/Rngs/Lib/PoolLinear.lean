/-
  Rngs.Lib.PoolLinear — GF(2)-linear algebra on 64-bit words, just enough for C15:

  * `IsAdd f`  : `f (a ^^^ b) = f a ^^^ f b`, closure lemmas (xor, shifts, rotation, masks);
  * `xsum c x k`: the xor of the columns `c i`, `i < k`, selected by the bits of `x`;
    `xsum_basis`: every word is the xor of its one-bit vectors;
    `IsAdd.eq_xsum`: an additive map is given by its 64 basis images;
    `IsAdd.ext_basis`: two additive maps that agree on the 64 one-bit vectors are equal;
  * `matVec cols x` for a literal column list, additive in `x`;
  * `bijective_of_inverse_on_basis`: an additive map `f` with a literal matrix `inv` such that
    `matVec inv (f eⱼ) = eⱼ` and `f (matVec inv eⱼ) = eⱼ` for the 64 basis vectors (two closed,
    decidable facts) is a bijection.
-/
import Rngs.Model.Words
import Mathlib.Logic.Function.Basic

namespace Rngs
namespace PoolLinear

/-- GF(2)-additivity of a map between bit vectors -/
def IsAdd {n m : Nat} (f : BitVec n → BitVec m) : Prop := ∀ a b, f (a ^^^ b) = f a ^^^ f b

/-- joint additivity in two arguments -/
def IsAdd₂ {n m k : Nat} (f : BitVec n → BitVec m → BitVec k) : Prop :=
  ∀ a₁ a₂ b₁ b₂, f (a₁ ^^^ a₂) (b₁ ^^^ b₂) = f a₁ b₁ ^^^ f a₂ b₂

theorem xor_xor_xor_comm {n : Nat} (a b c d : BitVec n) :
    (a ^^^ b) ^^^ (c ^^^ d) = (a ^^^ c) ^^^ (b ^^^ d) := by
  ac_rfl

theorem and_xor_distrib_right' {n : Nat} (x y c : BitVec n) :
    (x ^^^ y) &&& c = (x &&& c) ^^^ (y &&& c) := by
  ext i hi
  simp only [BitVec.getElem_and, BitVec.getElem_xor]
  cases x[i] <;> cases y[i] <;> cases c[i] <;> rfl

theorem rotateLeft_xor {n : Nat} (x y : BitVec n) (r : Nat) :
    (x ^^^ y).rotateLeft r = x.rotateLeft r ^^^ y.rotateLeft r := by
  ext i hi
  simp only [BitVec.getElem_rotateLeft, BitVec.getElem_xor]
  split <;> rfl

namespace IsAdd
variable {n m k : Nat}

theorem map_zero {f : BitVec n → BitVec m} (hf : IsAdd f) : f 0 = 0 := by
  have h := hf 0 0
  rw [BitVec.xor_self] at h
  have h2 : f 0 ^^^ f 0 = 0 := BitVec.xor_self
  rw [← h] at h2
  exact h2

theorem id : IsAdd (fun x : BitVec n => x) := fun _ _ => rfl

theorem zero : IsAdd (fun _ : BitVec n => (0 : BitVec m)) := fun _ _ => by simp

theorem comp {f : BitVec m → BitVec k} {g : BitVec n → BitVec m} (hf : IsAdd f) (hg : IsAdd g) :
    IsAdd (fun x => f (g x)) := fun a b => by
  show f (g (a ^^^ b)) = _
  rw [hg, hf]

theorem xor {f g : BitVec n → BitVec m} (hf : IsAdd f) (hg : IsAdd g) :
    IsAdd (fun x => f x ^^^ g x) := fun a b => by
  show f (a ^^^ b) ^^^ g (a ^^^ b) = _
  rw [hf, hg, xor_xor_xor_comm]

theorem ushiftRight (s : Nat) : IsAdd (fun x : BitVec n => x >>> s) :=
  fun a b => BitVec.ushiftRight_xor_distrib a b s

theorem shiftLeft (s : Nat) : IsAdd (fun x : BitVec n => x <<< s) :=
  fun a b => BitVec.shiftLeft_xor_distrib a b s

theorem and_const (c : BitVec n) : IsAdd (fun x : BitVec n => x &&& c) :=
  fun a b => and_xor_distrib_right' a b c

theorem rotateLeft (r : Nat) : IsAdd (fun x : BitVec n => x.rotateLeft r) :=
  fun a b => rotateLeft_xor a b r

/-- `x ↦ if b then x else 0` pulled through an additive map -/
theorem map_ite {f : BitVec n → BitVec m} (hf : IsAdd f) (b : Bool) (a : BitVec n) :
    f (if b then a else 0) = if b then f a else 0 := by
  cases b
  · simpa using hf.map_zero
  · simp

end IsAdd

/-! ## folds of additive steps -/

/-- A fold whose step is jointly additive in (accumulator, parameter) is jointly additive. -/
theorem foldl_add₂ {n m : Nat} {ι : Type} (step : BitVec m → BitVec n → ι → BitVec n)
    (hstep : ∀ i p₁ p₂ a₁ a₂, step (p₁ ^^^ p₂) (a₁ ^^^ a₂) i = step p₁ a₁ i ^^^ step p₂ a₂ i)
    (l : List ι) (p₁ p₂ : BitVec m) (a₁ a₂ : BitVec n) :
    l.foldl (step (p₁ ^^^ p₂)) (a₁ ^^^ a₂) = l.foldl (step p₁) a₁ ^^^ l.foldl (step p₂) a₂ := by
  induction l generalizing a₁ a₂ with
  | nil => rfl
  | cons i l ih =>
    simp only [List.foldl_cons]
    rw [hstep, ih]

/-! ## coordinates -/

/-- the one-bit vector `eₖ` -/
def e (k : Nat) : U64 := 1#64 <<< k

/-- xor of the columns `c i`, `i < k`, selected by the bits of `x` -/
def xsum (c : Nat → U64) (x : U64) : Nat → U64
  | 0 => 0
  | k + 1 => xsum c x k ^^^ (if x.getLsbD k then c k else 0)

theorem getLsbD_e (k j : Nat) : (e k).getLsbD j = (decide (j < 64) && decide (k = j)) := by
  unfold e
  rw [BitVec.getLsbD_shiftLeft]
  by_cases hj : j < 64
  · by_cases hk : k = j
    · subst hk; simp [hj]
    · by_cases hlt : j < k
      · simp [hj, hlt, hk]
      · have : j - k ≠ 0 := by omega
        simp [hj, hlt, hk, BitVec.getLsbD_one, this]
  · simp [hj]

theorem getLsbD_xsum_e (x : U64) (k j : Nat) :
    (xsum e x k).getLsbD j = (decide (j < k) && decide (j < 64) && x.getLsbD j) := by
  induction k with
  | zero => simp [xsum]
  | succ k ih =>
    simp only [xsum, BitVec.getLsbD_xor, ih]
    by_cases hjk : j = k
    · subst hjk
      cases hx : x.getLsbD j
      · simp
      · have hj : j < 64 := by
          apply Classical.byContradiction; intro hge
          rw [BitVec.getLsbD_of_ge x j (by omega)] at hx
          cases hx
        simp [getLsbD_e, hj]
    · have h1 : ((if x.getLsbD k then e k else 0 : U64)).getLsbD j = false := by
        cases x.getLsbD k
        · simp
        · have : ¬ k = j := fun h => hjk h.symm
          simp [getLsbD_e, this]
      rw [h1]
      by_cases hlt : j < k
      · have : j < k + 1 := by omega
        simp [hlt, this]
      · have : ¬ j < k + 1 := by omega
        simp [hlt, this]

/-- every word is the xor of the one-bit vectors of its set bits -/
theorem xsum_basis (x : U64) : xsum e x 64 = x := by
  apply BitVec.eq_of_getLsbD_eq
  intro j hj
  rw [getLsbD_xsum_e]
  simp [hj]

theorem xsum_xor (c : Nat → U64) (x y : U64) (k : Nat) :
    xsum c (x ^^^ y) k = xsum c x k ^^^ xsum c y k := by
  induction k with
  | zero => simp [xsum]
  | succ k ih =>
    simp only [xsum, ih, BitVec.getLsbD_xor]
    cases x.getLsbD k <;> cases y.getLsbD k
    · simp
    · simp [BitVec.xor_assoc]
    · simp only [Bool.true_bne, Bool.not_false, if_true, Bool.false_eq_true, if_false]
      ac_rfl
    · have h : ∀ a b c : U64, (a ^^^ c) ^^^ (b ^^^ c) = a ^^^ b := by
        intro a b c
        rw [xor_xor_xor_comm, BitVec.xor_self, BitVec.xor_zero]
      simp [h]

theorem xsum_congr {c c' : Nat → U64} (x : U64) (k : Nat) (h : ∀ i, i < k → c i = c' i) :
    xsum c x k = xsum c' x k := by
  induction k with
  | zero => rfl
  | succ k ih =>
    simp only [xsum]
    rw [ih (fun i hi => h i (by omega)), h k (by omega)]

theorem IsAdd.map_xsum {f : U64 → U64} (hf : IsAdd f) (c : Nat → U64) (x : U64) (k : Nat) :
    f (xsum c x k) = xsum (fun i => f (c i)) x k := by
  induction k with
  | zero => exact hf.map_zero
  | succ k ih =>
    simp only [xsum]
    rw [hf, ih, hf.map_ite]

/-- an additive map is determined by (and computed from) its 64 basis images -/
theorem IsAdd.eq_xsum {f : U64 → U64} (hf : IsAdd f) (x : U64) :
    f x = xsum (fun i => f (e i)) x 64 := by
  have h := hf.map_xsum e x 64
  rw [xsum_basis] at h
  exact h

/-- two additive maps that agree on the 64 one-bit vectors are equal -/
theorem IsAdd.ext_basis {f g : U64 → U64} (hf : IsAdd f) (hg : IsAdd g)
    (h : ∀ k, k < 64 → f (e k) = g (e k)) (x : U64) : f x = g x := by
  rw [hf.eq_xsum, hg.eq_xsum]
  exact xsum_congr x 64 h

/-! ## literal matrices -/

/-- matrix–vector product over GF(2); the matrix is the list of its 64 columns -/
def matVec (cols : List U64) (x : U64) : U64 := xsum (fun i => cols.getD i 0) x 64

theorem matVec_isAdd (cols : List U64) : IsAdd (matVec cols) :=
  fun a b => xsum_xor _ a b 64

/-- the closed, decidable certificate: `inv` is a two-sided inverse of `f` on the basis -/
def InverseOnBasis (f : U64 → U64) (inv : List U64) : Prop :=
  (∀ k, k < 64 → matVec inv (f (e k)) = e k) ∧ (∀ k, k < 64 → f (matVec inv (e k)) = e k)

instance (f : U64 → U64) (inv : List U64) : Decidable (InverseOnBasis f inv) := by
  unfold InverseOnBasis; infer_instance

theorem leftInverse_of_basis {f : U64 → U64} (hf : IsAdd f) {inv : List U64}
    (h : ∀ k, k < 64 → matVec inv (f (e k)) = e k) (x : U64) : matVec inv (f x) = x :=
  IsAdd.ext_basis (IsAdd.comp (matVec_isAdd inv) hf) IsAdd.id h x

theorem rightInverse_of_basis {f : U64 → U64} (hf : IsAdd f) {inv : List U64}
    (h : ∀ k, k < 64 → f (matVec inv (e k)) = e k) (x : U64) : f (matVec inv x) = x :=
  IsAdd.ext_basis (IsAdd.comp hf (matVec_isAdd inv)) IsAdd.id h x

theorem bijective_of_inverse_on_basis {f : U64 → U64} (hf : IsAdd f) {inv : List U64}
    (h : InverseOnBasis f inv) : Function.Bijective f := by
  refine ⟨fun a b hab => ?_, fun y => ⟨matVec inv y, rightInverse_of_basis hf h.2 y⟩⟩
  have := congrArg (matVec inv) hab
  rwa [leftInverse_of_basis hf h.1, leftInverse_of_basis hf h.1] at this

/-- xor with a constant is a bijection, so an affine map is bijective iff its linear part is -/
theorem bijective_xor_const {f : U64 → U64} (c : U64) (hf : Function.Bijective f) :
    Function.Bijective (fun x => c ^^^ f x) := by
  refine ⟨fun a b hab => hf.1 ?_, fun y => ?_⟩
  · have := congrArg (fun z => c ^^^ z) hab
    simpa [← BitVec.xor_assoc] using this
  · obtain ⟨x, hx⟩ := hf.2 (c ^^^ y)
    exact ⟨x, by show c ^^^ f x = y; rw [hx, ← BitVec.xor_assoc]; simp⟩

/-! ## rotations -/

theorem rotateRight_rotateLeft_7 (x : U64) : (x.rotateLeft 7).rotateRight 7 = x := by
  ext i hi
  simp only [BitVec.getElem_rotateRight, BitVec.getElem_rotateLeft]
  split <;> split <;> first | omega | (congr 1; omega)

theorem rotateLeft_rotateRight_7 (x : U64) : (x.rotateRight 7).rotateLeft 7 = x := by
  ext i hi
  simp only [BitVec.getElem_rotateRight, BitVec.getElem_rotateLeft]
  split <;> split <;> first | omega | (congr 1; omega)

end PoolLinear
end Rngs
